import SparseSpace.Lemmas.RombergDegree
import Mathlib.NumberTheory.Bernoulli
/-!
# Euler–Maclaurin for monomials through Faulhaber's formula, and Romberg's rule on `[0,1]` (C11, degree clause)

`cellTrap f j x W` is the composite trapezoid sum with `2^j` cells.  For the monomial `t^p`, `p ≥ 1`, on `[0,1]`
Faulhaber's formula (`sum_range_pow`, Bernoulli numbers) gives the exact expansion
`T_{2^j}(t^p) = Σ_{i ≤ p} γ_{p,i} · (1/2^j)^i` with `γ_{p,0} = 1/(p+1)`, `γ_{p,i} = 0` for odd `i` (the `B_1` term is
cancelled by the end-point correction, `B_i = 0` for odd `i ≥ 3`), coefficients independent of `j`.
The Romberg coefficients annihilate the even powers `2..2m` of `1/2^j`, hence `Σ_j c_{m,j} T_{2^j}(t^p) = 1/(p+1)`
for every `p ≤ 2m+1`.
-/
namespace SparseSpace.Romberg
open Finset

/-- closed form of the composite trapezoid sum with `2^j` cells on `[x, x+W]` -/
theorem cellTrap_closed (f : ℚ → ℚ) (j : ℕ) (x W : ℚ) :
    cellTrap f j x W
      = (W / 2 ^ j) * (∑ i ∈ range (2 ^ j), f (x + i * (W / 2 ^ j)) + (f (x + W) - f x) / 2) := by
  induction j generalizing x W with
  | zero => simp [cellTrap]; ring
  | succ j ih =>
    simp only [cellTrap, ih]
    have hpow : 2 ^ (j + 1) = 2 ^ j + 2 ^ j := by ring
    rw [hpow, Finset.sum_range_add]
    have h2 : (2 : ℚ) ^ j ≠ 0 := pow_ne_zero _ (by norm_num)
    have hw : W / 2 / 2 ^ j = W / 2 ^ (j + 1) := by rw [pow_succ]; field_simp
    have hx : x + W / 2 + W / 2 = x + W := by ring
    rw [hw, hx]
    have hs : ∀ i ∈ range (2 ^ j), f (x + W / 2 + (i : ℚ) * (W / 2 ^ (j + 1)))
        = f (x + ((2 ^ j + i : ℕ) : ℚ) * (W / 2 ^ (j + 1))) := by
      intro i _
      congr 1
      push_cast
      rw [pow_succ]
      field_simp
      ring
    rw [Finset.sum_congr rfl hs]
    ring

/-- the trapezoid sums are linear in the integrand -/
theorem cellTrap_linear (s : Finset ℕ) (c : ℕ → ℚ) (g : ℕ → ℚ → ℚ) (j : ℕ) (x W : ℚ) :
    cellTrap (fun y => ∑ n ∈ s, c n * g n y) j x W = ∑ n ∈ s, c n * cellTrap (g n) j x W := by
  induction j generalizing x W with
  | zero =>
    simp only [cellTrap]
    rw [← Finset.sum_add_distrib, Finset.mul_sum, Finset.sum_div]
    refine Finset.sum_congr rfl fun n _ => by ring
  | succ j ih =>
    simp only [cellTrap, ih, ← Finset.sum_add_distrib, mul_add]

/-- shifted monomials: the trapezoid sum of `(y - x)^n` over `[x, x+W]` is `W^(n+1)` times that of `t^n` over `[0,1]` -/
theorem cellTrap_shift (n j : ℕ) (x W : ℚ) :
    cellTrap (fun y => (y - x) ^ n) j x W = W ^ (n + 1) * cellTrap (fun t => t ^ n) j 0 1 := by
  rw [cellTrap_closed, cellTrap_closed]
  have h1 : ∀ i : ℕ, (x + (i : ℚ) * (W / 2 ^ j) - x) ^ n = W ^ n * (0 + (i : ℚ) * (1 / 2 ^ j)) ^ n := by
    intro i; rw [← mul_pow]; congr 1; ring
  have h2 : (x + W - x) ^ n = W ^ n * (0 + 1) ^ n := by rw [← mul_pow]; congr 1; ring
  have h3 : (x - x) ^ n = W ^ n * 0 ^ n := by rw [← mul_pow]; congr 1; ring
  simp only [h1, h2, h3, ← Finset.mul_sum]
  ring

/-- the trapezoid sums of the constant `1` over `[0,1]` -/
theorem cellTrap_one (j : ℕ) : cellTrap (fun t : ℚ => t ^ 0) j 0 1 = 1 := by
  rw [cellTrap_closed]
  have h2 : (2 : ℚ) ^ j ≠ 0 := pow_ne_zero _ (by norm_num)
  simp only [pow_zero, Finset.sum_const, Finset.card_range, nsmul_eq_mul, sub_self, zero_div, add_zero, mul_one]
  push_cast
  field_simp

/-- the coefficients of the Euler–Maclaurin expansion of the trapezoid sums of `t^p` on `[0,1]` in powers of the
    step width: `γ_{p,i} = B_i · C(p+1,i) / (p+1)` for `i ≠ 1`, `γ_{p,1} = 0` -/
noncomputable def gam (p i : ℕ) : ℚ := if i = 1 then 0 else bernoulli i * ((p + 1).choose i) / (p + 1)

theorem gam_zero (p : ℕ) : gam p 0 = 1 / (p + 1) := by
  simp [gam, bernoulli_zero]

theorem gam_odd (p i : ℕ) (hi : Odd i) : gam p i = 0 := by
  unfold gam
  by_cases h1 : i = 1
  · simp [h1]
  · rw [if_neg h1]
    have hlt : 1 < i := by
      rcases hi with ⟨r, hr⟩
      omega
    rw [bernoulli_eq_zero_of_odd hi hlt]
    simp

/-- **exact Euler–Maclaurin expansion for monomials** (Faulhaber): for `p ≥ 1` and `N = 2^j` cells on `[0,1]`,
    `T_N(t^p) = Σ_{i ≤ p} γ_{p,i} · (1/N)^i`, coefficients independent of `N` -/
theorem cellTrap_monomial_unit (p j : ℕ) (hp : 1 ≤ p) :
    cellTrap (fun t => t ^ p) j 0 1 = ∑ i ∈ range (p + 1), gam p i * (1 / 2 ^ j) ^ i := by
  rw [cellTrap_closed]
  have hp0 : p ≠ 0 := by omega
  have hN : (2 : ℚ) ^ j ≠ 0 := pow_ne_zero _ (by norm_num)
  have hp1 : ((p : ℚ) + 1) ≠ 0 := by positivity
  set y : ℚ := 1 / 2 ^ j with hy
  have hyN : (2 : ℚ) ^ j * y = 1 := by rw [hy]; field_simp
  have hsum : ∑ i ∈ range (2 ^ j), (0 + (i : ℚ) * y) ^ p = y ^ p * ∑ i ∈ range (2 ^ j), (i : ℚ) ^ p := by
    rw [Finset.mul_sum]
    refine Finset.sum_congr rfl fun i _ => by rw [zero_add, mul_pow]; ring
  rw [hsum, sum_range_pow]
  simp only [zero_add, one_pow, zero_pow hp0, sub_zero]
  push_cast
  -- the terms of Faulhaber's formula, scaled
  have hterm : ∀ i ∈ range (p + 1),
      y * y ^ p * (bernoulli i * ((p + 1).choose i : ℚ) * ((2 : ℚ) ^ j) ^ (p + 1 - i) / ((p : ℚ) + 1))
        = bernoulli i * ((p + 1).choose i : ℚ) / ((p : ℚ) + 1) * y ^ i := by
    intro i hi
    have hip : i ≤ p := by have := mem_range.mp hi; omega
    have e : y * y ^ p = y ^ (p + 1 - i) * y ^ i := by
      rw [← pow_add, ← pow_succ']
      congr 1; omega
    have e2 : ((2 : ℚ) ^ j) ^ (p + 1 - i) * y ^ (p + 1 - i) = 1 := by rw [← mul_pow, hyN, one_pow]
    calc y * y ^ p * (bernoulli i * ((p + 1).choose i : ℚ) * ((2 : ℚ) ^ j) ^ (p + 1 - i) / ((p : ℚ) + 1))
        = bernoulli i * ((p + 1).choose i : ℚ) / ((p : ℚ) + 1) * y ^ i
            * (((2 : ℚ) ^ j) ^ (p + 1 - i) * y ^ (p + 1 - i)) := by rw [e]; ring
      _ = _ := by rw [e2, mul_one]
  have hsplit : ∑ i ∈ range (p + 1), gam p i * y ^ i
      = ∑ i ∈ range (p + 1), bernoulli i * ((p + 1).choose i : ℚ) / ((p : ℚ) + 1) * y ^ i + y / 2 := by
    have hg : ∀ i ∈ range (p + 1), gam p i * y ^ i
        = bernoulli i * ((p + 1).choose i : ℚ) / ((p : ℚ) + 1) * y ^ i
          - (if i = 1 then bernoulli 1 * ((p + 1).choose 1 : ℚ) / ((p : ℚ) + 1) * y ^ 1 else 0) := by
      intro i _
      unfold gam
      by_cases h1 : i = 1
      · subst h1; simp
      · simp [h1]
    rw [Finset.sum_congr rfl hg, Finset.sum_sub_distrib, Finset.sum_ite_eq' (range (p + 1)) 1,
      if_pos (mem_range.mpr (by omega)), bernoulli_one, Nat.choose_one_right]
    push_cast
    field_simp
    ring
  rw [hsplit, ← Finset.sum_congr rfl hterm, ← Finset.mul_sum]
  ring

/-- the Romberg coefficients (exponent 2) annihilate the even powers `2..2m` of `1/2^j` -/
theorem coeff_annihilates_unit (a b : ℚ) (m i : ℕ) (hab : a ≠ b) (hi : Even i) (hi1 : 1 ≤ i) (him : i ≤ 2 * m) :
    ∑ j ∈ range (m + 1), coeff a b 2 m j * (1 / 2 ^ j) ^ i = 0 := by
  obtain ⟨r, hr⟩ := hi
  have hH : (b - a) ≠ 0 := sub_ne_zero.mpr (Ne.symm hab)
  have h := coeff_annihilates a b 2 m r hab (by norm_num) (by omega) (by omega)
  rw [sumRange_eq] at h
  simp only [zero_add, node] at h
  have hfac : ∀ j ∈ range (m + 1), coeff a b 2 m j * (((b - a) / 2 ^ j) ^ 2) ^ r
      = (b - a) ^ i * (coeff a b 2 m j * (1 / 2 ^ j) ^ i) := by
    intro j _
    have : i = 2 * r := by omega
    have e : (b - a) / 2 ^ j = (b - a) * (1 / 2 ^ j) := by ring
    rw [this, pow_mul, pow_mul, e, mul_pow, mul_pow]
    ring
  rw [Finset.sum_congr rfl hfac, ← Finset.mul_sum] at h
  rcases mul_eq_zero.mp h with h0 | h0
  · exact absurd h0 (pow_ne_zero _ hH)
  · exact h0

/-- **Romberg's rule of depth `m` integrates `t^p` over `[0,1]` exactly for every `p ≤ 2m+1`** -/
theorem romberg_monomial_unit (a b : ℚ) (hab : a ≠ b) (m p : ℕ) (hp : p ≤ 2 * m + 1) :
    ∑ j ∈ range (m + 1), coeff a b 2 m j * cellTrap (fun t => t ^ p) j 0 1 = 1 / ((p : ℚ) + 1) := by
  have hs := coeff_sum a b 2 m hab (by norm_num)
  rw [sumRange_eq] at hs
  simp only [zero_add] at hs
  by_cases hp0 : p = 0
  · subst hp0
    simp only [cellTrap_one, mul_one, hs]
    norm_num
  · have hp1 : 1 ≤ p := by omega
    have hexp : ∀ j ∈ range (m + 1), coeff a b 2 m j * cellTrap (fun t => t ^ p) j 0 1
        = ∑ i ∈ range (p + 1), gam p i * (coeff a b 2 m j * (1 / 2 ^ j) ^ i) := by
      intro j _
      rw [cellTrap_monomial_unit p j hp1, Finset.mul_sum]
      refine Finset.sum_congr rfl fun i _ => by ring
    rw [Finset.sum_congr rfl hexp, Finset.sum_comm]
    have hin : ∀ i ∈ range (p + 1), ∑ j ∈ range (m + 1), gam p i * (coeff a b 2 m j * (1 / 2 ^ j) ^ i)
        = if i = 0 then 1 / ((p : ℚ) + 1) else 0 := by
      intro i hi
      have hip : i ≤ p := by have := mem_range.mp hi; omega
      rw [← Finset.mul_sum]
      by_cases h0 : i = 0
      · subst h0
        simp only [pow_zero, mul_one, hs, if_true, gam_zero]
      · rw [if_neg h0]
        rcases Nat.even_or_odd i with he | ho
        · have he2 : i ≤ 2 * m := by
            obtain ⟨r, hr⟩ := he
            omega
          rw [coeff_annihilates_unit a b m i hab he (by omega) he2, mul_zero]
        · rw [gam_odd p i ho, zero_mul]
    rw [Finset.sum_congr rfl hin, Finset.sum_ite_eq' (range (p + 1)) 0, if_pos (mem_range.mpr (by omega))]

end SparseSpace.Romberg
