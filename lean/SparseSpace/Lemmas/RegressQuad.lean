import SparseSpace.Lemmas.RegressLin
/-!
# Lemmas about `Model/Regress`, part 4: bilinear forms of formula matrices, the 1-D energy identity,
coefficient normalisation, scaling
-/
namespace SparseSpace.Regress

/-! ## matrices given by an entry formula over an index list -/

/-- the full matrix of an entry formula -/
def full {α : Type} (f : α → α → ℚ) (idx : List α) : Mat := idx.map fun a => idx.map fun b => f a b

theorem dot_map_add {α : Type} (u : Vec) (l : List α) (g h : α → ℚ) :
    dot u (l.map fun a => g a + h a) = dot u (l.map g) + dot u (l.map h) := by
  induction l generalizing u with
  | nil => simp
  | cons a l ih => cases u with
    | nil => simp
    | cons x u => simp only [List.map_cons, dot_cons, ih u]; ring

theorem dot_map_mul_right {α : Type} (u : Vec) (l : List α) (g : α → ℚ) (c : ℚ) :
    dot u (l.map fun a => g a * c) = c * dot u (l.map g) := by
  induction l generalizing u with
  | nil => simp
  | cons a l ih => cases u with
    | nil => simp
    | cons x u => simp only [List.map_cons, dot_cons, ih u]; ring

/-- one step of the bilinear form of a formula matrix -/
theorem bil_cons {α : Type} (f : α → α → ℚ) (a : α) (idx : List α) (x y : ℚ) (u v : Vec) :
    dot (x :: u) (mulVec (full f (a :: idx)) (y :: v)) =
      x * f a a * y + x * dot (idx.map (f a)) v + y * dot u (idx.map fun b => f b a)
        + dot u (mulVec (full f idx) v) := by
  have h1 : mulVec (full f (a :: idx)) (y :: v) =
      (f a a * y + dot (idx.map (f a)) v) :: idx.map (fun b => f b a * y + dot (idx.map (f b)) v) := by
    simp [full, mulVec, List.map_map, Function.comp_def]
  have h2 : mulVec (full f idx) v = idx.map fun b => dot (idx.map (f b)) v := by
    simp [full, mulVec, List.map_map, Function.comp_def]
  rw [h1, h2, dot_cons, dot_map_add, dot_map_mul_right]
  ring

/-- a symmetric entry formula gives a symmetric bilinear form -/
theorem msymm_full {α : Type} (f : α → α → ℚ) (hs : ∀ a b, f a b = f b a) (idx : List α) :
    MSymm idx.length (full f idx) := by
  induction idx with
  | nil => intro u v hu hv; simp [full]
  | cons a idx ih =>
    intro u v hu hv
    cases u with
    | nil => simp at hu
    | cons x u => cases v with
      | nil => simp at hv
      | cons y v =>
        simp only [List.length_cons, Nat.add_right_cancel_iff] at hu hv
        rw [bil_cons, bil_cons, ih u v hu hv]
        have e1 : (idx.map fun b => f b a) = idx.map (f a) := by
          apply List.map_congr_left; intro b _; exact hs b a
        rw [e1, dot_comm u, dot_comm v (idx.map (f a))]
        ring

/-- the smoothing matrix of every uniform component grid (any dimension, any level vector) is symmetric -/
theorem msymm_cMatrixU (lv : List Nat) : MSymm (indexList lv).length (cMatrixU lv) := by
  rw [cMatrixU_eq_full]
  have hs : ∀ iv jv, codeU lv iv jv = codeU lv jv iv := by
    intro iv jv; rw [← resU_eq_codeU, ← resU_eq_codeU]; exact resU_symm lv iv jv
  exact msymm_full (codeU lv) hs (indexList lv)

theorem rows_full {α : Type} (f : α → α → ℚ) (idx : List α) : Rows idx.length (full f idx) := by
  intro r hr; simp only [full, List.mem_map] at hr; obtain ⟨a, _, rfl⟩ := hr; simp

theorem length_full {α : Type} (f : α → α → ℚ) (idx : List α) : (full f idx).length = idx.length := by simp [full]

theorem rows_cMatrixU (lv : List Nat) : Rows (indexList lv).length (cMatrixU lv) := by
  rw [cMatrixU_eq_full]; exact rows_full _ _

theorem length_cMatrixU (lv : List Nat) : (cMatrixU lv).length = (indexList lv).length := by
  rw [cMatrixU_eq_full]; exact length_full _ _

/-! ## 1-D: the quadratic form of the stiffness matrix is the energy of the piecewise-linear interpolant -/

/-- `k, k+1, …` (`n` entries) -/
def consec (k : Int) : Nat → List Int
  | 0 => []
  | n + 1 => k :: consec (k + 1) n

theorem range_map_eq_consec (n : Nat) (k : Int) : (List.range n).map (fun (j : Nat) => (j : Int) + k) = consec k n := by
  induction n generalizing k with
  | zero => rfl
  | succ n ih =>
    rw [List.range_succ_eq_map, List.map_cons, List.map_map, consec]
    congr 1
    · simp
    · rw [← ih (k + 1)]
      apply List.map_congr_left
      intro j _
      simp only [Function.comp, Nat.succ_eq_add_one, Nat.cast_add, Nat.cast_one]; ring

/-- entries of the row of node `a` beyond its right neighbour vanish -/
theorem offband_right (h : ℚ) (a k : Int) (hk : a + 2 ≤ k) (n : Nat) (w : Vec) :
    dot ((consec k n).map (specS h a)) w = 0 := by
  induction n generalizing k w with
  | zero => simp [consec]
  | succ n ih => cases w with
    | nil => simp
    | cons x w =>
      have e : specS h a k = 0 := by
        unfold specS
        have h1 : ¬ a = k := by omega
        have h2 : (k - a).natAbs > 1 := by omega
        simp [h1, h2]
      simp only [consec, List.map_cons, dot_cons, e, ih (k + 1) (by omega) w]; ring

/-- `Σ (Δu)²` over all cells of the interpolant with left boundary value `u0`, interior values `v`, right value 0 -/
def energy : ℚ → Vec → ℚ
  | u0, [] => u0 ^ 2
  | u0, x :: v => (x - u0) ^ 2 + energy x v

theorem energy_nonneg (u0 : ℚ) (v : Vec) : 0 ≤ energy u0 v := by
  induction v generalizing u0 with
  | nil => simp only [energy]; positivity
  | cons x v ih => simp only [energy]; have := ih x; have := sq_nonneg (x - u0); linarith

/-- quadratic form of the tridiagonal stiffness matrix on consecutive nodes -/
theorem stiff_quadform (h : ℚ) (k : Int) (v : Vec) (u0 : ℚ) :
    dot v (mulVec (full (specS h) (consec k v.length)) v) =
      (1 / h) * (energy u0 v - u0 ^ 2 + 2 * u0 * v.headD 0) := by
  induction v generalizing k u0 with
  | nil => simp [consec, full, energy]
  | cons x v ih =>
    simp only [List.length_cons, consec]
    rw [bil_cons, ih (k + 1) x]
    have e1 : (consec (k + 1) v.length).map (fun b => specS h b k) = (consec (k + 1) v.length).map (specS h k) := by
      apply List.map_congr_left; intro b _; exact specS_symm h b k
    have e2 : dot ((consec (k + 1) v.length).map (specS h k)) v = (-1 / h) * v.headD 0 := by
      cases v with
      | nil => simp [consec]
      | cons y w =>
        simp only [List.length_cons, consec, List.map_cons, dot_cons, List.headD_cons]
        rw [offband_right h k (k + 1 + 1) (by omega)]
        have : specS h k (k + 1) = -1 / h := by
          unfold specS
          have h1 : ¬ k = k + 1 := by omega
          have h2 : ¬ (k + 1 - k).natAbs > 1 := by omega
          simp [h1, h2]
        rw [this]; ring
    have e3 : specS h k k = 2 / h := by simp [specS]
    rw [e1, dot_comm v, e2, e3]
    simp only [energy, List.headD_cons]
    ring

theorem indexList_single (l : Nat) : indexList [l] = (consec 1 (2 ^ l - 1)).map fun i => [i] := by
  unfold indexList
  simp only [List.map_cons, List.map_nil, cross, List.flatMap_cons, List.flatMap_nil]
  rw [range_map_eq_consec]
  induction consec 1 (2 ^ l - 1) with
  | nil => rfl
  | cons a t ih => simp [List.flatMap_cons, ih]

theorem codeU_single (l : Nat) (i j : Int) : codeU [l] [i] [j] = specS (meshW l) i j := by
  simp [codeU, lprod, List.range_succ]

theorem cMatrixU_1d (l : Nat) : cMatrixU [l] = full (specS (meshW l)) (consec 1 (2 ^ l - 1)) := by
  rw [cMatrixU_eq_full, indexList_single]
  simp only [full, List.map_map, Function.comp_def, codeU_single]

theorem length_consec (k : Int) (n : Nat) : (consec k n).length = n := by
  induction n generalizing k with
  | zero => rfl
  | succ n ih => simp [consec, ih]

/-- **1-D smoothing matrix = energy of the interpolant** (hence positive semi-definite): for the values `v` at the
`2^l - 1` interior nodes, `vᵀ C v = 2^l · Σ_cells (Δu)² = Σ_cells (Δu)²/h = ∫ (u')²` -/
theorem cMatrixU_1d_quadform (l : Nat) (v : Vec) (hv : v.length = 2 ^ l - 1) :
    dot v (mulVec (cMatrixU [l]) v) = pow2 l * energy 0 v := by
  rw [cMatrixU_1d, ← hv, stiff_quadform (meshW l) 1 v 0]
  unfold meshW
  have := pow2_ne l
  field_simp; ring

theorem mpsd_cMatrixU_1d (l : Nat) : MPsd (indexList [l]).length (cMatrixU [l]) := by
  intro v hv
  have hl : (indexList [l]).length = 2 ^ l - 1 := by rw [indexList_single]; simp [length_consec]
  rw [cMatrixU_1d_quadform l v (by rw [hv, hl])]
  exact mul_nonneg (pow2_pos l).le (energy_nonneg 0 v)

/-! ## coefficient normalisation -/

theorem sum_map_div (c : Vec) (s : ℚ) : (c.map (· / s)).sum = c.sum / s := by
  induction c with
  | nil => simp
  | cons a c ih => simp only [List.map_cons, List.sum_cons, ih]; ring

theorem normalize?_sum (c r : Vec) (h : normalize? c = some r) : r.sum = 1 ∧ r.length = c.length := by
  unfold normalize? at h
  split at h
  · cases h
  · rename_i hs
    injection h with h
    subst h
    exact ⟨by rw [sum_map_div]; exact div_self hs, by simp⟩

theorem normalize?_isSome (c : Vec) : (normalize? c).isSome ↔ c.sum ≠ 0 := by
  unfold normalize?; split <;> simp_all

/-! ## scaling -/

theorem lmin_le (a : ℚ) (l : List ℚ) : lmin a l ≤ a ∧ ∀ x ∈ l, lmin a l ≤ x := by
  induction l generalizing a with
  | nil => simp [lmin]
  | cons y l ih =>
    simp only [lmin]
    split
    · rename_i hlt
      have := ih y
      refine ⟨by linarith [this.1], ?_⟩
      intro x hx
      simp only [List.mem_cons] at hx
      rcases hx with rfl | hx
      · exact this.1
      · exact this.2 x hx
    · rename_i hge
      have := ih a
      refine ⟨this.1, ?_⟩
      intro x hx
      simp only [List.mem_cons] at hx
      rcases hx with rfl | hx
      · linarith [this.1, not_lt.mp hge]
      · exact this.2 x hx

theorem le_lmax (a : ℚ) (l : List ℚ) : a ≤ lmax a l ∧ ∀ x ∈ l, x ≤ lmax a l := by
  induction l generalizing a with
  | nil => simp [lmax]
  | cons y l ih =>
    simp only [lmax]
    split
    · rename_i hlt
      have := ih y
      refine ⟨by linarith [this.1], ?_⟩
      intro x hx
      simp only [List.mem_cons] at hx
      rcases hx with rfl | hx
      · exact this.1
      · exact this.2 x hx
    · rename_i hge
      have := ih a
      refine ⟨this.1, ?_⟩
      intro x hx
      simp only [List.mem_cons] at hx
      rcases hx with rfl | hx
      · linarith [this.1, not_lt.mp hge]
      · exact this.2 x hx

/-- every scaled value lies in the target range -/
theorem scaleCol_range (lo hi : ℚ) (h : lo ≤ hi) (col : List ℚ) : ∀ v ∈ scaleCol lo hi col, lo ≤ v ∧ v ≤ hi := by
  cases col with
  | nil => simp [scaleCol]
  | cons x xs =>
    intro v hv
    simp only [scaleCol, List.mem_map] at hv
    obtain ⟨w, hw, rfl⟩ := hv
    have hmn : lmin x xs ≤ w := by
      simp only [List.mem_cons] at hw
      rcases hw with rfl | hw
      · exact (lmin_le w xs).1
      · exact (lmin_le x xs).2 w hw
    have hmx : w ≤ lmax x xs := by
      simp only [List.mem_cons] at hw
      rcases hw with rfl | hw
      · exact (le_lmax w xs).1
      · exact (le_lmax x xs).2 w hw
    set mn := lmin x xs
    set mx := lmax x xs
    by_cases hr : mx - mn = 0
    · have hw' : w = mn := by linarith
      simp only [hr, if_true, div_one]
      rw [hw']
      constructor <;> linarith
    · simp only [hr, if_false]
      have hpos : 0 < mx - mn := lt_of_le_of_ne (by linarith) (Ne.symm hr)
      have e : w * ((hi - lo) / (mx - mn)) + (lo - mn * ((hi - lo) / (mx - mn))) =
          lo + (hi - lo) * ((w - mn) / (mx - mn)) := by field_simp; ring
      rw [e]
      have t0 : 0 ≤ (w - mn) / (mx - mn) := div_nonneg (by linarith) hpos.le
      have t1 : (w - mn) / (mx - mn) ≤ 1 := by rw [div_le_one hpos]; linarith
      have hd : 0 ≤ hi - lo := by linarith
      constructor
      · have := mul_nonneg hd t0; linarith
      · have := mul_le_mul_of_nonneg_left t1 hd; linarith

end SparseSpace.Regress
