import SparseSpace.Lemmas.StdCombi
import SparseSpace.Lemmas.InterpPL
import SparseSpace.Lemmas.InterpQuad
import SparseSpace.Lemmas.InterpHat
/-!
# Exactness of the combination on the sparse-grid space: interpolation

For a valid scheme with index set `J`, every `k ∈ J` and every tensor product `u = u_1 ⊗ … ⊗ u_d` of functions
`u_i` that are piecewise linear on the level-`k_i` grid (`PLvec`; the tensor hats of level `k` are such functions and
span this space), the combined interpolant equals `u` everywhere in the box (`valid_pl_interp`).
-/
namespace SparseSpace

/-- `u_i ∈ V_{k_i}` for every dimension -/
def PLvec : List Rat → List Rat → LV → List (Rat → Rat) → Prop
  | [], [], [], [] => True
  | a :: as, b :: bs, k :: ks, u :: us => PLk a b k.toNat u ∧ PLvec as bs ks us
  | _, _, _, _ => False

/-- `x ∈ [a,b]` -/
def InBox : List Rat → List Rat → List Rat → Prop
  | [], [], [] => True
  | a :: as, b :: bs, x :: xs => a ≤ x ∧ x ≤ b ∧ InBox as bs xs
  | _, _, _ => False

theorem InBox_length : ∀ (a b x : List Rat), InBox a b x → x.length = a.length
  | [], [], [], _ => rfl
  | a :: as, b :: bs, x :: xs, h => by simp [InBox_length as bs xs h.2.2]
  | [], [], _ :: _, h => by simp [InBox] at h
  | [], _ :: _, _, h => by simp [InBox] at h
  | _ :: _, [], _, h => by simp [InBox] at h
  | _ :: _, _ :: _, [], h => by simp [InBox] at h

theorem PLvec_length : ∀ (a b : List Rat) (k : LV) (us : List (Rat → Rat)), PLvec a b k us →
    us.length = a.length ∧ k.length = a.length
  | [], [], [], [], _ => ⟨rfl, rfl⟩
  | a :: as, b :: bs, k :: ks, u :: us, h => by
      have := PLvec_length as bs ks us h.2
      simp [this.1, this.2]
  | [], [], [], _ :: _, h => by simp [PLvec] at h
  | [], [], _ :: _, _, h => by simp [PLvec] at h
  | [], _ :: _, _, _, h => by simp [PLvec] at h
  | _ :: _, [], _, _, h => by simp [PLvec] at h
  | _ :: _, _ :: _, [], _, h => by simp [PLvec] at h
  | _ :: _, _ :: _, _ :: _, [], h => by simp [PLvec] at h

theorem meshAxes_length (bd : Bool) : ∀ (a b : List Rat) (l : LV), a.length = l.length → b.length = l.length →
    (meshAxes a b l bd).length = l.length
  | [], [], [], _, _ => rfl
  | a :: as, b :: bs, l :: ls, ha, hb => by
      simp [meshAxes, meshAxes_length bd as bs ls (by simpa using ha) (by simpa using hb)]
  | [], _ :: _, [], _, hb => by simp at hb
  | _ :: _, _, [], ha, _ => by simp at ha
  | [], _, _ :: _, ha, _ => by simp at ha
  | _ :: _, [], _ :: _, _, hb => by simp at hb

/-- on the mesh of the level `k` of `u` the product of the 1-D interpolants is `u` -/
theorem interpProd_self (bd : Bool) : ∀ (a b : List Rat) (k : LV) (us : List (Rat → Rat)) (x : List Rat),
    BoxOK a b → PLvec a b k us → InBox a b x → interpProd (meshAxes a b k bd) us x = tprod us x
  | [], [], [], [], [], _, _, _ => rfl
  | a :: as, b :: bs, k :: ks, u :: us, x :: xs, hab, hu, hx => by
      simp only [meshAxes, interpProd, tprod]
      rw [interp1_PL a b hab.1 (le_refl _) bd hu.1 x hx.1 hx.2.1,
        interpProd_self bd as bs ks us xs hab.2 hu.2 hx.2.2]
  | [], [], [], [], _ :: _, _, _, hx => by simp [InBox] at hx
  | _ :: _, _ :: _, _, _, [], _, _, hx => by simp [InBox] at hx
  | [], _ :: _, _, _, _, hab, _, _ => by simp [BoxOK] at hab
  | _ :: _, [], _, _, _, hab, _, _ => by simp [BoxOK] at hab
  | [], [], _ :: _, _, _, _, hu, _ => by simp [PLvec] at hu
  | [], [], [], _ :: _, _, _, hu, _ => by simp [PLvec] at hu
  | _ :: _, _ :: _, [], _, _, _, hu, _ => by simp [PLvec] at hu
  | _ :: _, _ :: _, _ :: _, [], _, _, hu, _ => by simp [PLvec] at hu

/-- the product of the 1-D interpolants of `u` (of level `k`) does not change when `l` is replaced by `l ⊓ k` -/
theorem interpProd_meet (bd : Bool) : ∀ (a b : List Rat) (l k : LV) (us : List (Rat → Rat)) (x : List Rat),
    BoxOK a b → PLvec a b k us → InBox a b x → l.length = k.length →
    interpProd (meshAxes a b l bd) us x = interpProd (meshAxes a b (meet l k) bd) us x
  | [], [], [], [], [], [], _, _, _, _ => rfl
  | a :: as, b :: bs, l :: ls, k :: ks, u :: us, x :: xs, hab, hu, hx, hl => by
      simp only [meet_cons, meshAxes, interpProd]
      rw [interpProd_meet bd as bs ls ks us xs hab.2 hu.2 hx.2.2 (by simpa using hl)]
      congr 1
      by_cases hkl : k ≤ l
      · have hmin : min l k = k := by omega
        rw [hmin, interp1_PL a b hab.1 (Int.toNat_le_toNat hkl) bd hu.1 x hx.1 hx.2.1,
          interp1_PL a b hab.1 (le_refl _) bd hu.1 x hx.1 hx.2.1]
      · have hmin : min l k = l := by omega
        rw [hmin]
  | [], [], _ :: _, [], _, _, _, _, _, hl => by simp at hl
  | [], [], [], _ :: _, _, _, _, _, _, hl => by simp at hl
  | _, _, _ :: _, [], _, _, _, _, _, hl => by simp at hl
  | _, _, [], _ :: _, _, _, _, _, _, hl => by simp at hl
  | [], _ :: _, _, _, _, _, hab, _, _, _ => by simp [BoxOK] at hab
  | _ :: _, [], _, _, _, _, hab, _, _, _ => by simp [BoxOK] at hab
  | [], [], [], [], _ :: _, _, _, hu, _, _ => by simp [PLvec] at hu
  | [], [], _ :: _, _ :: _, _, _, _, hu, _, _ => by simp [PLvec] at hu
  | _ :: _, _ :: _, [], [], _, _, _, hu, _, _ => by simp [PLvec] at hu
  | _ :: _, _ :: _, _ :: _, _ :: _, [], _, _, hu, _, _ => by simp [PLvec] at hu
  | [], [], [], [], [], _ :: _, _, _, hx, _ => by simp [InBox] at hx
  | _ :: _, _ :: _, _ :: _, _ :: _, _ :: _, [], _, _, hx, _ => by simp [InBox] at hx

section
variable {dim : Nat} {lmin : Int} {c : List (LV × Int)} {J : LV → Prop} [DecidablePred J]

/-- **interpolation is exact on the sparse-grid space**: for `k ∈ J` and `u = ⊗ u_i`, `u_i ∈ V_{k_i}`, the combined
interpolant is `u` at EVERY point of the box.  `hmv`: on the meshes of the returned grids the mesh values are the
values of `u` (always true with boundary points; without them it says that `u` vanishes where `points_not_zero`
declares a boundary point). -/
theorem valid_pl_interp (hv : ValidScheme dim lmin c J) (a b : List Rat) (hab : BoxOK a b) (ha : a.length = dim)
    (bd : Bool) (k : LV) (hkJ : J k) (us : List (Rat → Rat)) (hus : PLvec a b k us) (x : List Rat) (hx : InBox a b x)
    (hmv : ∀ p ∈ c, ∀ q ∈ cross (meshAxes a b p.1 bd), meshVal a b bd (tprod us) q = tprod us q) :
    combiInterp a b bd c (tprod us) x = tprod us x := by
  have hb : b.length = dim := by rw [← BoxOK_length a b hab]; exact ha
  obtain ⟨hk1, hk2⟩ := hv.jshape k hkJ
  have hxl : x.length = dim := by rw [InBox_length a b x hx]; exact ha
  have hul : us.length = dim := by rw [(PLvec_length a b k us hus).1]; exact ha
  have hstep : ∀ p ∈ c, interpN (meshAxes a b p.1 bd) (meshVal a b bd (tprod us)) x
      = interpProd (meshAxes a b p.1 bd) us x := by
    intro p hp
    have hlen := (hv.shape p hp).1
    rw [interpN_congr _ _ (tprod us) x (hmv p hp),
      interpN_tprod _ us x (by rw [meshAxes_length bd a b p.1 (by omega) (by omega)]; omega) (by omega)]
  have key := comb_collapse_rat dim lmin c J hv.shape hv.down hv.ident k hk1 hk2 hkJ
    (fun l => interpProd (meshAxes a b l bd) us x)
    (fun p hp => interpProd_meet bd a b p.1 k us x hab hus hx (by rw [(hv.shape p hp).1, hk1]))
  unfold combiInterp
  rw [← interpProd_self bd a b k us x hab hus hx, ← key]
  congr 1
  apply List.map_congr_left
  intro p hp
  rw [hstep p hp]

end

theorem meshVal_boundary (a b : List Rat) (f : List Rat → Rat) (q : List Rat) : meshVal a b true f q = f q := by
  simp [meshVal, pointNotZero]

/-! ## integration -/

/-- every `u_i` vanishes at the ends of `[a_i, b_i]` when boundary points are off -/
def ZeroEndsVec (bd : Bool) : List Rat → List Rat → List (Rat → Rat) → Prop
  | [], [], [] => True
  | a :: as, b :: bs, u :: us => ZeroEnds a b bd u ∧ ZeroEndsVec bd as bs us
  | _, _, _ => False

/-- the product of the 1-D rules of `u` (of level `k`) does not change when `l` is replaced by `l ⊓ k` -/
theorem trapProd_meet (bd : Bool) : ∀ (a b : List Rat) (l k : LV) (us : List (Rat → Rat)),
    BoxOK a b → PLvec a b k us → ZeroEndsVec bd a b us → l.length = k.length →
    trapProd bd a b l us = trapProd bd a b (meet l k) us
  | [], [], [], [], [], _, _, _, _ => rfl
  | a :: as, b :: bs, l :: ls, k :: ks, u :: us, hab, hu, hz, hl => by
      simp only [meet_cons, trapProd]
      rw [trapProd_meet bd as bs ls ks us hab.2 hu.2 hz.2 (by simpa using hl)]
      congr 1
      by_cases hkl : k ≤ l
      · have hmin : min l k = k := by omega
        rw [hmin, trap1_PL a b hab.1 (Int.toNat_le_toNat hkl) bd hu.1 hz.1]
      · have hmin : min l k = l := by omega
        rw [hmin]
  | [], [], _ :: _, [], _, _, _, _, hl => by simp at hl
  | [], [], [], _ :: _, _, _, _, _, hl => by simp at hl
  | _, _, _ :: _, [], _, _, _, _, hl => by simp at hl
  | _, _, [], _ :: _, _, _, _, _, hl => by simp at hl
  | [], _ :: _, _, _, _, hab, _, _, _ => by simp [BoxOK] at hab
  | _ :: _, [], _, _, _, hab, _, _, _ => by simp [BoxOK] at hab
  | [], [], [], [], _ :: _, _, hu, _, _ => by simp [PLvec] at hu
  | [], [], _ :: _, _ :: _, _, _, hu, _, _ => by simp [PLvec] at hu
  | _ :: _, _ :: _, [], [], _, _, hu, _, _ => by simp [PLvec] at hu
  | _ :: _, _ :: _, _ :: _, _ :: _, [], _, hu, _, _ => by simp [PLvec] at hu

section
variable {dim : Nat} {lmin : Int} {c : List (LV × Int)} {J : LV → Prop} [DecidablePred J]

/-- **integration is exact on the sparse-grid space**: for `k ∈ J` and `u = ⊗ u_i`, `u_i ∈ V_{k_i}` (vanishing at the
ends when boundary points are off), the combined integral is the product of the level-`k_i` trapezoidal values of the
`u_i`, i.e. (`trap1_eq_cellSum`) of the sums of their cell trapezoids = the exact integral of `u`. -/
theorem valid_pl_integral (hv : ValidScheme dim lmin c J) (a b : List Rat) (hab : BoxOK a b) (ha : a.length = dim)
    (bd : Bool) (k : LV) (hkJ : J k) (us : List (Rat → Rat)) (hus : PLvec a b k us) (hz : ZeroEndsVec bd a b us) :
    combiIntegral a b bd c (tprod us) = trapProd bd a b k us := by
  have hb : b.length = dim := by rw [← BoxOK_length a b hab]; exact ha
  obtain ⟨hk1, hk2⟩ := hv.jshape k hkJ
  have hul : us.length = dim := by rw [(PLvec_length a b k us hus).1]; exact ha
  have key := comb_collapse_rat dim lmin c J hv.shape hv.down hv.ident k hk1 hk2 hkJ
    (fun l => trapProd bd a b l us)
    (fun p hp => trapProd_meet bd a b p.1 k us hab hus hz (by rw [(hv.shape p hp).1, hk1]))
  unfold combiIntegral
  rw [← key]
  congr 1
  apply List.map_congr_left
  intro p hp
  have hlen := (hv.shape p hp).1
  rw [quadGrid_tprod bd a b p.1 us (by omega) (by omega) (by omega)]

end

/-! ## the mesh values of a function vanishing on the boundary -/

/-- some coordinate of `q` is an end of its interval -/
def OnBoundary : List Rat → List Rat → List Rat → Prop
  | a :: as, b :: bs, q :: qs => q = a ∨ q = b ∨ OnBoundary as bs qs
  | _, _, _ => False

/-- `points_not_zero` only fires on true boundary points of the meshes of the returned grids (proved for all levels
`≤ 39` in `noFalseBoundary_of_levels`: the tolerance is `1e-12` of the width, the mesh width is `2^-l` of it) -/
def NoFalseBoundary (a b : List Rat) (c : List (LV × Int)) : Prop :=
  ∀ p ∈ c, ∀ q ∈ cross (meshAxes a b p.1 false), pointNotZero a b false q = false → OnBoundary a b q

theorem tprod_onBoundary : ∀ (a b : List Rat) (us : List (Rat → Rat)) (q : List Rat),
    ZeroEndsVec false a b us → OnBoundary a b q → tprod us q = 0
  | a :: as, b :: bs, u :: us, q :: qs, hz, hq => by
      unfold tprod
      rcases hq with rfl | rfl | hq
      · rw [(hz.1 rfl).1]; ring
      · rw [(hz.1 rfl).2]; ring
      · rw [tprod_onBoundary as bs us qs hz.2 hq]; ring
  | [], _, _, _, _, hq => by simp [OnBoundary] at hq
  | _ :: _, [], _, _, _, hq => by simp [OnBoundary] at hq
  | _ :: _, _ :: _, _, [], _, hq => by simp [OnBoundary] at hq
  | _ :: _, _ :: _, [], _ :: _, hz, _ => by simp [ZeroEndsVec] at hz

/-- the hypothesis `hmv` of `valid_pl_interp`: free with boundary points; without them it follows from
`NoFalseBoundary` for functions vanishing at the ends -/
theorem hmv_of_noFalseBoundary (a b : List Rat) (bd : Bool) (c : List (LV × Int)) (us : List (Rat → Rat))
    (hz : ZeroEndsVec bd a b us) (hsep : bd = false → NoFalseBoundary a b c) :
    ∀ p ∈ c, ∀ q ∈ cross (meshAxes a b p.1 bd), meshVal a b bd (tprod us) q = tprod us q := by
  intro p hp q hq
  cases bd
  · unfold meshVal
    split
    · rfl
    · rename_i hnz
      exact (tprod_onBoundary a b us q hz (hsep rfl p hp q hq (by simpa using hnz))).symm
  · exact meshVal_boundary a b _ q

/-! ## the boundary test of the repaired `points_not_zero` on the level meshes -/

theorem mem_fullAxis (a b : Rat) (l : Nat) (q : Rat) :
    q ∈ fullAxis a b l ↔ ∃ i, i ≤ 2 ^ l ∧ linPt a b (2 ^ l) i = q := by
  unfold fullAxis
  simp only [List.mem_map, List.mem_range'_1]
  constructor
  · rintro ⟨i, hi, rfl⟩; exact ⟨i, by omega, rfl⟩
  · rintro ⟨i, hi, rfl⟩; exact ⟨i, by omega, rfl⟩

theorem tol_lt_step (a b : Rat) (hab : a < b) (l : Nat) (hl : l ≤ 39) :
    1 / 1000000000000 * (b - a) < (b - a) / ((2 ^ l : Nat) : Rat) := by
  have hd : 0 < b - a := by linarith
  have h2 : ((2 ^ l : Nat) : Rat) ≤ ((2 ^ 39 : Nat) : Rat) := by
    exact_mod_cast Nat.pow_le_pow_right (by norm_num) hl
  have hpos : (0 : Rat) < ((2 ^ l : Nat) : Rat) := by positivity
  rw [lt_div_iff₀ hpos]
  have h3 : ((2 ^ 39 : Nat) : Rat) < 1000000000000 := by norm_num
  nlinarith

/-- a mesh node within the tolerance of the lower end IS the lower end (levels `≤ 39`) -/
theorem nearEnd_mesh_lo (a b : Rat) (hab : a < b) (l : Nat) (hl : l ≤ 39) (q : Rat) (hq : q ∈ meshAxis a b l false)
    (h : nearEnd q a a b = true) : q = a := by
  rw [meshAxis_eq_fullAxis, mem_fullAxis] at hq
  obtain ⟨i, _, rfl⟩ := hq
  have hd : 0 < b - a := by linarith
  have hstep := tol_lt_step a b hab l hl
  have hpos : (0 : Rat) < (b - a) / ((2 ^ l : Nat) : Rat) := div_pos hd (by positivity)
  rcases Nat.eq_zero_or_pos i with rfl | hi
  · exact linPt_zero a b _
  · exfalso
    unfold nearEnd at h
    rw [decide_eq_true_eq] at h
    have hsub : linPt a b (2 ^ l) i - a = (b - a) / ((2 ^ l : Nat) : Rat) * (i : Rat) := by unfold linPt; ring
    have hi' : (1 : Rat) ≤ (i : Rat) := by exact_mod_cast hi
    have hge : (b - a) / ((2 ^ l : Nat) : Rat) ≤ linPt a b (2 ^ l) i - a := by
      rw [hsub]; nlinarith
    rw [ratAbs_of_nonneg (by linarith)] at h
    linarith

/-- a mesh node within the tolerance of the upper end IS the upper end (levels `≤ 39`) -/
theorem nearEnd_mesh_hi (a b : Rat) (hab : a < b) (l : Nat) (hl : l ≤ 39) (q : Rat) (hq : q ∈ meshAxis a b l false)
    (h : nearEnd q b a b = true) : q = b := by
  rw [meshAxis_eq_fullAxis, mem_fullAxis] at hq
  obtain ⟨i, hi2, rfl⟩ := hq
  have hn : 0 < 2 ^ l := Nat.pos_of_ne_zero (by positivity)
  have hd : 0 < b - a := by linarith
  have hstep := tol_lt_step a b hab l hl
  have hpos : (0 : Rat) < (b - a) / ((2 ^ l : Nat) : Rat) := div_pos hd (by positivity)
  rcases Nat.lt_or_ge i (2 ^ l) with hi | hi
  · exfalso
    unfold nearEnd at h
    rw [decide_eq_true_eq] at h
    have hsub : linPt a b (2 ^ l) i - b = (b - a) / ((2 ^ l : Nat) : Rat) * ((i : Rat) - ((2 ^ l : Nat) : Rat)) := by
      have := linPt_sub a b (2 ^ l) i (2 ^ l)
      rw [linPt_last a b _ hn] at this
      exact this
    have hi' : (i : Rat) + 1 ≤ ((2 ^ l : Nat) : Rat) := by exact_mod_cast hi
    have hle : linPt a b (2 ^ l) i - b ≤ -((b - a) / ((2 ^ l : Nat) : Rat)) := by
      rw [hsub]; nlinarith
    rw [ratAbs_of_nonpos (by linarith)] at h
    linarith
  · have : i = 2 ^ l := by omega
    rw [this]; exact linPt_last a b _ hn

theorem anyNear_lo_onBoundary : ∀ (a b : List Rat) (l : LV) (q : List Rat), BoxOK a b →
    InAxes (meshAxes a b l false) q → (∀ x ∈ l, x ≤ 39) → anyNear q a a b = true → OnBoundary a b q
  | a :: as, b :: bs, l :: ls, q :: qs, hab, hq, hl, h => by
      simp only [meshAxes, InAxes] at hq
      simp only [anyNear, Bool.or_eq_true] at h
      have hl0 : l.toNat ≤ 39 := by have := hl l (List.mem_cons_self ..); omega
      rcases h with h | h
      · exact Or.inl (nearEnd_mesh_lo a b hab.1 _ hl0 q hq.1 h)
      · exact Or.inr (Or.inr (anyNear_lo_onBoundary as bs ls qs hab.2 hq.2
          (fun x hx => hl x (List.mem_cons_of_mem _ hx)) h))
  | [], _, _, _, _, _, _, h => by simp [anyNear] at h
  | _ :: _, [], _, _, hab, _, _, _ => by simp [BoxOK] at hab
  | _ :: _, _ :: _, [], _, _, hq, _, h => by
      cases ‹List Rat› <;> simp [meshAxes, InAxes, anyNear] at hq h
  | _ :: _, _ :: _, _ :: _, [], _, _, _, h => by simp [anyNear] at h

theorem anyNear_hi_onBoundary : ∀ (a b : List Rat) (l : LV) (q : List Rat), BoxOK a b →
    InAxes (meshAxes a b l false) q → (∀ x ∈ l, x ≤ 39) → anyNear q b a b = true → OnBoundary a b q
  | a :: as, b :: bs, l :: ls, q :: qs, hab, hq, hl, h => by
      simp only [meshAxes, InAxes] at hq
      simp only [anyNear, Bool.or_eq_true] at h
      have hl0 : l.toNat ≤ 39 := by have := hl l (List.mem_cons_self ..); omega
      rcases h with h | h
      · exact Or.inr (Or.inl (nearEnd_mesh_hi a b hab.1 _ hl0 q hq.1 h))
      · exact Or.inr (Or.inr (anyNear_hi_onBoundary as bs ls qs hab.2 hq.2
          (fun x hx => hl x (List.mem_cons_of_mem _ hx)) h))
  | [], _, _, _, hab, _, _, h => by
      cases ‹List Rat› <;> simp [anyNear] at h hab
  | _ :: _, [], _, _, hab, _, _, _ => by simp [BoxOK] at hab
  | _ :: _, _ :: _, [], _, _, hq, _, h => by
      cases ‹List Rat› <;> simp [meshAxes, InAxes, anyNear] at hq h
  | _ :: _, _ :: _, _ :: _, [], _, _, _, h => by simp [anyNear] at h

/-- **the boundary test fires only on true boundary points**: all levels `≤ 39` -/
theorem noFalseBoundary_of_levels (a b : List Rat) (hab : BoxOK a b) (c : List (LV × Int))
    (hlev : ∀ p ∈ c, ∀ x ∈ p.1, x ≤ 39) : NoFalseBoundary a b c := by
  intro p hp q hq hnz
  rw [mem_cross] at hq
  simp only [pointNotZero, Bool.false_or, Bool.not_eq_false', Bool.or_eq_true] at hnz
  rcases hnz with h | h
  · exact anyNear_lo_onBoundary a b p.1 q hab hq (hlev p hp) h
  · exact anyNear_hi_onBoundary a b p.1 q hab hq (hlev p hp) h

theorem not_onBoundary_of_inGrid : ∀ (a b : List Rat) (l : LV) (x : List Rat), BoxOK a b →
    InGrid false a b l x → ¬ OnBoundary a b x
  | a :: as, b :: bs, l :: ls, x :: xs, hab, hx, h => by
      have hint := levelPoints_interior a b hab.1 _ hx.1
      rcases h with h | h | h
      · rw [h] at hint; exact lt_irrefl _ hint.1
      · rw [h] at hint; exact lt_irrefl _ hint.2
      · exact not_onBoundary_of_inGrid as bs ls xs hab.2 hx.2 h
  | [], _, _, _, _, _, h => by simp [OnBoundary] at h
  | _ :: _, [], _, _, _, _, h => by simp [OnBoundary] at h
  | _ :: _, _ :: _, _, [], _, _, h => by simp [OnBoundary] at h
  | _ :: _, _ :: _, [], _ :: _, _, hx, _ => by simp [InGrid] at hx

theorem inAxes_mesh_of_inGrid (bd : Bool) : ∀ (a b : List Rat) (l : LV) (x : List Rat),
    InGrid bd a b l x → InAxes (meshAxes a b l bd) x
  | [], [], [], [], _ => trivial
  | a :: as, b :: bs, l :: ls, x :: xs, h =>
      ⟨levelPoints_sub_meshAxis a b _ bd h.1, inAxes_mesh_of_inGrid bd as bs ls xs h.2⟩
  | [], [], [], _ :: _, h => by simp [InGrid] at h
  | _ :: _, _ :: _, _ :: _, [], h => by simp [InGrid] at h
  | [], _ :: _, _, _, h => by simp [InGrid] at h
  | _ :: _, [], _, _, h => by simp [InGrid] at h
  | [], [], _ :: _, _, h => by simp [InGrid] at h
  | _ :: _, _ :: _, [], _, h => by simp [InGrid] at h

/-- no point of a component grid (levels `≤ 39`) is mistaken for a boundary point -/
theorem pointNotZero_of_inGrid (a b : List Rat) (hab : BoxOK a b) (bd : Bool) (l : LV) (hl : ∀ x ∈ l, x ≤ 39)
    (x : List Rat) (hx : InGrid bd a b l x) : pointNotZero a b bd x = true := by
  cases bd
  · by_contra hne
    have hnz : pointNotZero a b false x = false := by simpa using hne
    have hq := inAxes_mesh_of_inGrid false a b l x hx
    simp only [pointNotZero, Bool.false_or, Bool.not_eq_false', Bool.or_eq_true] at hnz
    rcases hnz with h | h
    · exact not_onBoundary_of_inGrid a b l x hab hx (anyNear_lo_onBoundary a b l x hab hq hl h)
    · exact not_onBoundary_of_inGrid a b l x hab hx (anyNear_hi_onBoundary a b l x hab hq hl h)
  · simp [pointNotZero]

/-! ## tensor hats -/

/-- the tensor hat of level `k` at the node with indices `i` -/
def hatVec : List Rat → List Rat → LV → List Nat → List (Rat → Rat)
  | a :: as, b :: bs, k :: ks, i :: is => hatFn a b k.toNat i :: hatVec as bs ks is
  | _, _, _, _ => []

/-- closed form of the integral of a tensor hat: `Π h_d`, with `h_d / 2` for boundary hats -/
def hatIntegral : List Rat → List Rat → LV → List Nat → Rat
  | [], [], [], [] => 1
  | a :: as, b :: bs, k :: ks, i :: is =>
      ((b - a) / ((2 ^ k.toNat : Nat) : Rat) * (if i == 0 || i == 2 ^ k.toNat then 1 / 2 else 1))
        * hatIntegral as bs ks is
  | _, _, _, _ => 0

/-- `i_d` is the index of a returned node of level `k_d` in every dimension -/
def HatIdx (bd : Bool) : LV → List Nat → Prop
  | [], [] => True
  | k :: ks, i :: is => i ∈ levelIdx k.toNat bd ∧ HatIdx bd ks is
  | _, _ => False

theorem hatVec_PLvec (bd : Bool) : ∀ (a b : List Rat) (k : LV) (i : List Nat), BoxOK a b → a.length = k.length →
    HatIdx bd k i → PLvec a b k (hatVec a b k i)
  | [], [], [], [], _, _, _ => trivial
  | a :: as, b :: bs, k :: ks, i :: is, hab, hl, hi =>
      ⟨hatFn_PLk a b hab.1 _ i, hatVec_PLvec bd as bs ks is hab.2 (by simpa using hl) hi.2⟩
  | [], _ :: _, _, _, hab, _, _ => by simp [BoxOK] at hab
  | _ :: _, [], _, _, hab, _, _ => by simp [BoxOK] at hab
  | [], [], _ :: _, _, _, hl, _ => by simp at hl
  | _ :: _, _ :: _, [], _, _, hl, _ => by simp at hl
  | [], [], [], _ :: _, _, _, hi => by simp [HatIdx] at hi
  | _ :: _, _ :: _, _ :: _, [], _, _, hi => by simp [HatIdx] at hi

theorem hatVec_zeroEnds (bd : Bool) : ∀ (a b : List Rat) (k : LV) (i : List Nat), BoxOK a b → a.length = k.length →
    HatIdx bd k i → ZeroEndsVec bd a b (hatVec a b k i)
  | [], [], [], [], _, _, _ => trivial
  | a :: as, b :: bs, k :: ks, i :: is, hab, hl, hi => by
      refine ⟨?_, hatVec_zeroEnds bd as bs ks is hab.2 (by simpa using hl) hi.2⟩
      intro hbd
      subst hbd
      have := (mem_levelIdx k.toNat false i).1 hi.1
      simp only [Bool.false_eq_true, if_false] at this
      exact hatFn_ends a b hab.1 k.toNat i this.1 this.2 false rfl
  | [], _ :: _, _, _, hab, _, _ => by simp [BoxOK] at hab
  | _ :: _, [], _, _, hab, _, _ => by simp [BoxOK] at hab
  | [], [], _ :: _, _, _, hl, _ => by simp at hl
  | _ :: _, _ :: _, [], _, _, hl, _ => by simp at hl
  | [], [], [], _ :: _, _, _, hi => by simp [HatIdx] at hi
  | _ :: _, _ :: _, _ :: _, [], _, _, hi => by simp [HatIdx] at hi

theorem trapProd_hatVec (bd : Bool) : ∀ (a b : List Rat) (k : LV) (i : List Nat), BoxOK a b → a.length = k.length →
    HatIdx bd k i → trapProd bd a b k (hatVec a b k i) = hatIntegral a b k i
  | [], [], [], [], _, _, _ => rfl
  | a :: as, b :: bs, k :: ks, i :: is, hab, hl, hi => by
      simp only [hatVec, trapProd, hatIntegral]
      rw [trap1_hatFn a b hab.1 k.toNat i bd hi.1, trapProd_hatVec bd as bs ks is hab.2 (by simpa using hl) hi.2]
  | [], _ :: _, _, _, hab, _, _ => by simp [BoxOK] at hab
  | _ :: _, [], _, _, hab, _, _ => by simp [BoxOK] at hab
  | [], [], _ :: _, _, _, hl, _ => by simp at hl
  | _ :: _, _ :: _, [], _, _, hl, _ => by simp at hl
  | [], [], [], _ :: _, _, _, hi => by simp [HatIdx] at hi
  | _ :: _, _ :: _, _ :: _, [], _, _, hi => by simp [HatIdx] at hi

/-! ## the levels of the standard scheme are bounded by `lmax` -/

theorem le_of_sum_le (lmin M : Int) : ∀ (k : LV), geAll lmin k → k.sum ≤ M - lmin + (k.length : Int) * lmin →
    ∀ x ∈ k, x ≤ M
  | [], _, _, x, hx => by simp at hx
  | y :: ys, hg, hs, x, hx => by
      have hy : lmin ≤ y := hg y (List.mem_cons_self ..)
      have hys : geAll lmin ys := fun z hz => hg z (List.mem_cons_of_mem _ hz)
      have hlow := sum_ge_of_geAll lmin ys hys
      simp only [List.sum_cons, List.length_cons] at hs
      push_cast at hs
      rcases List.mem_cons.1 hx with rfl | hx
      · nlinarith
      · exact le_of_sum_le lmin M ys hys (by nlinarith) x hx

theorem std_levels_le (dim : Nat) (lmin lmax : Int) (hd : 1 ≤ dim) (h0 : 0 ≤ lmin) (h : lmin ≤ lmax) :
    ∀ p ∈ stdScheme dim lmin lmax, ∀ x ∈ p.1, x ≤ lmax := by
  intro p hp
  have hI := (mem_I_init dim lmin lmax hd h p.1).1 ((std_valid dim lmin lmax hd h0 h).supp p hp)
  exact le_of_sum_le lmin lmax p.1 hI.2.1 (by rw [hI.1]; exact hI.2.2)

end SparseSpace
