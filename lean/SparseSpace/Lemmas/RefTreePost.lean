import SparseSpace.Lemmas.RefTreeSelect
/-!
# Deferred removal and sort (`apply_remove(sort=True)`), the whole selection-and-split step (C06)
-/
namespace SparseSpace

/-! ## `sorted(popArray)` reversed -/

theorem insertDesc_all_gt (x : Nat) : ∀ (L : List Nat), (∀ y ∈ L, x < y) → insertDesc x L = L ++ [x]
  | [], _ => rfl
  | y :: ys, h => by
    have hy : ¬ y ≤ x := by have := h y (by simp); omega
    simp only [insertDesc, hy, if_false, List.cons_append]
    rw [insertDesc_all_gt x ys (fun z hz => h z (by simp [hz]))]

theorem sortDesc_ascending : ∀ (l : List Nat), l.Pairwise (· < ·) → sortDesc l = l.reverse
  | [], _ => rfl
  | x :: xs, h => by
    rw [List.pairwise_cons] at h
    have ih := sortDesc_ascending xs h.2
    simp only [sortDesc, List.foldr_cons] at ih ⊢
    rw [ih, insertDesc_all_gt x _ (fun y hy => h.1 y (by simpa using hy))]
    simp

theorem range_filter_pairwise (P : Nat → Bool) (n : Nat) : ((List.range n).filter P).Pairwise (· < ·) :=
  List.Pairwise.filter _ (List.pairwise_lt_range)

/-! ## erasing the selected objects -/

/-- the objects that are not selected -/
def keepNot (P : Nat → Bool) : List Ival → List Ival
  | [] => []
  | x :: xs => (if P 0 then [] else [x]) ++ keepNot (fun i => P (i + 1)) xs

/-- the children of the selected objects, in order -/
def newOnes (P : Nat → Bool) : List Ival → List Ival
  | [] => []
  | x :: xs => (if P 0 then x.split else []) ++ newOnes (fun i => P (i + 1)) xs

theorem foldl_eraseIdx_succ (x : Ival) : ∀ (is : List Nat) (M : List Ival),
    (is.map Nat.succ).foldl (fun o p => o.eraseIdx p) (x :: M) = x :: is.foldl (fun o p => o.eraseIdx p) M
  | [], _ => rfl
  | i :: is, M => by
    simp only [List.map_cons, List.foldl_cons, Nat.succ_eq_add_one, List.eraseIdx_cons_succ]
    exact foldl_eraseIdx_succ x is (M.eraseIdx i)

theorem range_filter_succ (P : Nat → Bool) (n : Nat) :
    (List.range (n + 1)).filter P
      = (if P 0 then [0] else []) ++ ((List.range n).filter (fun i => P (i + 1))).map Nat.succ := by
  rw [List.range_succ_eq_map, List.filter_cons]
  have : (List.map Nat.succ (List.range n)).filter P = ((List.range n).filter (fun i => P (i + 1))).map Nat.succ := by
    rw [List.filter_map]; rfl
  rw [this]
  by_cases h : P 0 = true <;> simp [h]

theorem erase_selected : ∀ (xs : List Ival) (P : Nat → Bool) (B : List Ival),
    (((List.range xs.length).filter P).reverse).foldl (fun o p => o.eraseIdx p) (xs ++ B) = keepNot P xs ++ B
  | [], _, _ => rfl
  | x :: xs, P, B => by
    have ih := erase_selected xs (fun i => P (i + 1)) B
    rw [List.length_cons, range_filter_succ, List.reverse_append, List.foldl_append, ← List.map_reverse,
      List.cons_append, foldl_eraseIdx_succ, ih]
    by_cases h : P 0 = true <;> simp [h, keepNot]

theorem splitOf_cons_succ (x : Ival) (xs : List Ival) (j : Nat) : splitOf (x :: xs) (j + 1) = splitOf xs j := by
  simp [splitOf]

theorem flatMap_selected : ∀ (xs : List Ival) (P : Nat → Bool),
    ((List.range xs.length).filter P).flatMap (splitOf xs) = newOnes P xs
  | [], _ => rfl
  | x :: xs, P => by
    have ih := flatMap_selected xs (fun i => P (i + 1))
    rw [List.length_cons, range_filter_succ, List.flatMap_append, List.flatMap_map]
    have : (fun j => splitOf (x :: xs) (Nat.succ j)) = splitOf xs := by
      funext j; exact splitOf_cons_succ x xs j
    rw [this, ih]
    by_cases h : P 0 = true <;> simp [h, newOnes, splitOf]

theorem perm_keep_new : ∀ (xs : List Ival) (P : Nat → Bool), (keepNot P xs ++ newOnes P xs).Perm (splitSel P xs)
  | [], _ => by simp [keepNot, newOnes, splitSel]
  | x :: xs, P => by
    have ih := perm_keep_new xs (fun i => P (i + 1))
    simp only [keepNot, newOnes, splitSel]
    by_cases h : P 0 = true
    · simp only [h, if_true, List.nil_append]
      -- K ++ (S ++ N) ~ S ++ (K ++ N)
      have h1 : (keepNot (fun i => P (i + 1)) xs ++ (x.split ++ newOnes (fun i => P (i + 1)) xs)).Perm
          (x.split ++ (keepNot (fun i => P (i + 1)) xs ++ newOnes (fun i => P (i + 1)) xs)) := by
        rw [← List.append_assoc, ← List.append_assoc]
        exact List.Perm.append_right _ List.perm_append_comm
      exact h1.trans (List.Perm.append_left _ ih)
    · have h' : P 0 = false := by simpa using h
      simp only [h', Bool.false_eq_true, if_false, List.nil_append, List.singleton_append, List.cons_append]
      exact List.Perm.cons x ih

/-! ## insertion sort by start -/

theorem insertByStart_perm (x : Ival) : ∀ (L : List Ival), (insertByStart x L).Perm (x :: L)
  | [] => List.Perm.refl _
  | y :: ys => by
    simp only [insertByStart]
    by_cases h : x.s < y.s
    · simp [h]
    · simp only [h, if_false]
      exact (List.Perm.cons y (insertByStart_perm x ys)).trans (List.Perm.swap x y ys)

theorem sortByStart_perm : ∀ (L : List Ival), (sortByStart L).Perm L
  | [] => List.Perm.refl _
  | x :: xs => by
    simp only [sortByStart, List.foldr_cons]
    exact (insertByStart_perm x _).trans (List.Perm.cons x (sortByStart_perm xs))

theorem insertByStart_sorted (x : Ival) : ∀ (L : List Ival), L.Pairwise (fun a b => a.s ≤ b.s) →
    (insertByStart x L).Pairwise (fun a b => a.s ≤ b.s)
  | [], _ => by simp [insertByStart]
  | y :: ys, h => by
    rw [List.pairwise_cons] at h
    simp only [insertByStart]
    by_cases hxy : x.s < y.s
    · simp only [hxy, if_true, List.pairwise_cons]
      refine ⟨?_, h.1, h.2⟩
      intro z hz
      rcases List.mem_cons.1 hz with rfl | hz
      · exact le_of_lt hxy
      · exact le_trans (le_of_lt hxy) (h.1 z hz)
    · simp only [hxy, if_false, List.pairwise_cons]
      refine ⟨?_, insertByStart_sorted x ys h.2⟩
      intro z hz
      have := (insertByStart_perm x ys).subset hz
      rcases List.mem_cons.1 this with rfl | hz
      · exact not_lt.1 hxy
      · exact h.1 z hz

theorem sortByStart_sorted : ∀ (L : List Ival), (sortByStart L).Pairwise (fun a b => a.s ≤ b.s)
  | [] => List.Pairwise.nil
  | x :: xs => by
    simp only [sortByStart, List.foldr_cons]
    exact insertByStart_sorted x _ (sortByStart_sorted xs)

theorem pairwise_lt_inj : ∀ (T : List Ival), T.Pairwise (fun a b => a.s < b.s) →
    ∀ a ∈ T, ∀ b ∈ T, a.s = b.s → a = b
  | [], _ => by simp
  | t :: ts, h => by
    rw [List.pairwise_cons] at h
    intro a ha b hb hab
    rcases List.mem_cons.1 ha with ha | ha <;> rcases List.mem_cons.1 hb with hb | hb
    · rw [ha, hb]
    · have := h.1 b hb; rw [← ha, hab] at this; exact absurd this (lt_irrefl _)
    · have := h.1 a ha; rw [← hb, hab] at this; exact absurd this (lt_irrefl _)
    · exact pairwise_lt_inj ts h.2 a ha b hb hab

/-- sorting a permutation of a list with strictly ascending starts returns that list -/
theorem sortByStart_eq {L T : List Ival} (hp : L.Perm T) (hT : T.Pairwise (fun a b => a.s < b.s)) :
    sortByStart L = T := by
  apply List.Perm.eq_of_pairwise (le := fun a b => a.s ≤ b.s) _ (sortByStart_sorted L)
    (hT.imp (fun h => le_of_lt h)) ((sortByStart_perm L).trans hp)
  intro a b ha hb h1 h2
  have ha' : a ∈ T := ((sortByStart_perm L).trans hp).subset ha
  exact pairwise_lt_inj T hT a ha' b hb (le_antisymm h1 h2)

/-! ## one container: removal + sort = `splitSel` -/

theorem cont_post_spec {orig : List Ival} {P : Nat → Bool} {c : Cont} {a : Rat} {lo : Nat} {b : Rat} {hi : Nat}
    (hc : ContInv orig P c) (hex : ∀ j, c.searchPos ≤ j → j < orig.length → P j = false)
    (ht : Til a lo b hi orig) : c.applyRemove.objs = splitSel P orig := by
  have hpop : c.pop = (List.range orig.length).filter P := by
    rw [hc.pop, range_filter_exhausted P c.searchPos orig.length hc.sp hex]
  unfold Cont.applyRemove
  simp only []
  rw [hpop, sortDesc_ascending _ (range_filter_pairwise P _), hc.objs, hpop, erase_selected, flatMap_selected]
  exact sortByStart_eq (perm_keep_new orig P) (til_start_lt _ (til_splitSel orig P ht)).2

/-! ## the whole step on the meta container -/

/-- what one `refine()` leaves in a container (before rebalancing and the coarsening update) -/
def Cont.stepSpec (c : Cont) (bens : List Rat) (tol : Rat) : Cont :=
  { objs := splitSel (Pb bens tol) c.objs, pop := [], startNew := 0, searchPos := 0 }

/-- cursors as left by `refinement_postprocessing` (and by the constructors) -/
def Cont.Reset (c : Cont) : Prop := c.pop = [] ∧ c.startNew = 0 ∧ c.searchPos = 0

/-- what the selection loop needs of the cursors: nothing waits for removal and the scan starts at 0;
`startNewObjects` is arbitrary (`refine()` starts with `clear_new_objects()`; since repository commit 48b37d3 every
evaluation ends with the same call, so between an evaluation and `refine()` it equals the number of objects) -/
def Cont.Ready (c : Cont) : Prop := c.pop = [] ∧ c.searchPos = 0

theorem Cont.Reset.ready {c : Cont} (h : c.Reset) : c.Ready := ⟨h.1, h.2.2⟩

theorem sum_lengths_eq_suffix (origs : List (List Ival)) : (origs.map List.length).sum = suffixLen origs 0 := by
  simp [suffixLen]

/-- **`selection_exact`**: on a meta container whose cursors are ready (any `startNewObjects`) and whose object lists are tilings, the
literal cursor loop + removal + sort of one `refine()` call
* does not fail and leaves the cursors reset,
* refines, in strictly ascending order (so: once each), exactly the positions `(d, i)` with
  `benefit ≥ margin · max benefit`,
* leaves in every container the old object list with exactly these objects replaced by their children. -/
theorem refineStep_spec (m : Meta) (bens : List (List Rat)) (margin : Rat)
    (hcur : m.cur = 0)
    (hreset : ∀ c ∈ m.conts, c.Ready)
    (htil : ∀ c ∈ m.conts, ∃ a lo b hi, Til a lo b hi c.objs) :
    ∃ m' ps, m.refineStep bens margin = some (m', ps) ∧
      m'.cur = 0 ∧ m'.conts.length = m.conts.length ∧
      (∀ (d : Nat) (c : Cont), m.conts[d]? = some c →
          m'.conts[d]? = some (c.stepSpec (bens.getD d []) (maxBenefit bens * margin))) ∧
      ps.Pairwise posLt ∧
      (∀ d i, (d, i) ∈ ps ↔ ∃ c : Cont, m.conts[d]? = some c ∧ i < c.objs.length ∧
          Pb (bens.getD d []) (maxBenefit bens * margin) i = true) := by
  set tol := maxBenefit bens * margin with htol
  set origs := m.conts.map (·.objs) with horigs
  -- the state after clear_new_objects satisfies the loop invariant
  have hm1 : MInv origs bens tol m.clearNew := by
    refine ⟨by simp [Meta.clearNew, horigs], by simp [Meta.clearNew, hcur], ?_, ?_, ?_⟩
    · intro d c o hc ho
      simp only [Meta.clearNew, List.getElem?_map] at hc
      simp only [horigs, List.getElem?_map] at ho
      cases hmd : m.conts[d]? with
      | none => rw [hmd] at hc; simp at hc
      | some c0 =>
        rw [hmd] at hc ho
        simp only [Option.map_some, Option.some.injEq] at hc ho
        subst hc; subst ho
        have hr := hreset c0 (List.mem_of_getElem? hmd)
        obtain ⟨a, lo, b, hi, ht⟩ := htil c0 (List.mem_of_getElem? hmd)
        have hne : c0.objs.length ≠ 0 := by
          have := til_ne ht
          cases hcs : c0.objs with
          | nil => exact absurd hcs this
          | cons _ _ => simp
        exact ⟨rfl, hne, by simp only []; rw [hr.2]; omega, by simp only []; rw [hr.1, hr.2]; rfl,
          by simp only []; rw [hr.1]; simp⟩
    · intro d c o hd; simp [Meta.clearNew, hcur] at hd
    · intro d c _ hc
      simp only [Meta.clearNew, List.getElem?_map] at hc
      cases hmd : m.conts[d]? with
      | none => rw [hmd] at hc; simp at hc
      | some c0 =>
        rw [hmd] at hc
        simp only [Option.map_some, Option.some.injEq] at hc
        subst hc
        exact (hreset c0 (List.mem_of_getElem? hmd)).2
  have hfuel : remaining origs m.clearNew < ((m.clearNew.conts.map (·.objs.length)).sum + 1) := by
    have e : (m.clearNew.conts.map (·.objs.length)).sum = suffixLen origs 0 := by
      rw [← sum_lengths_eq_suffix]
      simp [Meta.clearNew, horigs, List.map_map, Function.comp_def]
    rw [e]
    unfold remaining
    cases h1 : m.clearNew.conts[m.clearNew.cur]? with
    | none => simp
    | some c =>
      cases h2 : origs[m.clearNew.cur]? with
      | none => simp
      | some o =>
        simp only []
        have hc0 : m.clearNew.cur = 0 := by simp [Meta.clearNew, hcur]
        rw [hc0] at h2 ⊢
        rw [suffixLen_step origs 0 o h2]
        omega
  obtain ⟨m2, ps, hl, hinv, hcur2, hpw, hmem⟩ := refineLoop_spec origs bens tol _ _ hm1 hfuel
  refine ⟨m2.post, ps, ?_, rfl, ?_, ?_, hpw, ?_⟩
  · unfold Meta.refineStep
    simp only [← htol, hl]
  · simp [Meta.post, hinv.len, horigs]
  · intro d c hc
    have ho : origs[d]? = some c.objs := by simp [horigs, hc]
    have hdlt : d < m2.conts.length := by
      rw [hinv.len]
      by_contra hh; rw [List.getElem?_eq_none (by omega)] at ho; simp at ho
    have hc2 : m2.conts[d]? = some m2.conts[d] := List.getElem?_eq_getElem hdlt
    have hci := hinv.inv d _ _ hc2 ho
    have hex := hinv.exh d _ _ (by rw [hcur2]; rw [← hinv.len]; exact hdlt) hc2 ho
    obtain ⟨a, lo, b, hi, ht⟩ := htil c (List.mem_of_getElem? hc)
    have := cont_post_spec hci hex ht
    simp only [Meta.post, List.getElem?_map, hc2, Option.map_some, Option.some.injEq, Cont.stepSpec]
    rw [this]
    simp [Cont.applyRemove]
  · intro d i
    rw [hmem d i]
    simp only [Meta.clearNew, hcur, Nat.zero_le, true_and, List.getElem?_map]
    constructor
    · rintro ⟨c, o, hc, ho, _, hi, hP⟩
      cases hmd : m.conts[d]? with
      | none => rw [hmd] at hc; simp at hc
      | some c0 =>
        simp only [horigs, List.getElem?_map, hmd, Option.map_some, Option.some.injEq] at ho
        subst ho
        exact ⟨c0, rfl, hi, hP⟩
    · rintro ⟨c, hc, hi, hP⟩
      refine ⟨{ c with startNew := c.objs.length }, c.objs, by simp [hc], by simp [horigs, hc], ?_, hi, hP⟩
      simp only []
      rw [(hreset c (List.mem_of_getElem? hc)).2]; omega

theorem clearNew_idem (m : Meta) : m.clearNew.clearNew = m.clearNew := by
  simp [Meta.clearNew, List.map_map, Function.comp_def]

/-- a `clear_new_objects()` before `refine()` (as every evaluation does since commit 48b37d3) changes nothing -/
theorem refineStep_clearNew (m : Meta) (bens : List (List Rat)) (margin : Rat) :
    m.clearNew.refineStep bens margin = m.refineStep bens margin := by
  unfold Meta.refineStep
  rw [clearNew_idem]

end SparseSpace
