import SparseSpace.Lemmas.RegressLin
/-!
# Lemmas about `Model/Regress`, part 8: a minimiser of the functional solves the system the code assembles
-/
namespace SparseSpace.Regress

theorem eq_zeroVec_of_dot_self (g : Vec) (h : dot g g = 0) : g = zeroVec g.length := by
  induction g with
  | nil => rfl
  | cons a g ih =>
    rw [dot_cons] at h
    have h1 := mul_self_nonneg a
    have h2 := dot_self_nonneg g
    have ha : a * a = 0 := by linarith
    have hg : dot g g = 0 := by linarith
    have : a = 0 := by simpa using ha
    subst this
    have := ih hg
    simp only [List.length_cons, zeroVec, List.replicate_succ] at this ⊢
    rw [← this]

theorem eq_of_vsub_eq_zero (a b : Vec) (hl : a.length = b.length) (h : vsub a b = zeroVec a.length) : a = b := by
  induction a generalizing b with
  | nil => cases b with
    | nil => rfl
    | cons y b => simp at hl
  | cons x a ih => cases b with
    | nil => simp at hl
    | cons y b =>
      simp only [List.length_cons, Nat.add_right_cancel_iff] at hl
      simp only [vsub_cons, List.length_cons, zeroVec, List.replicate_succ, List.cons.injEq] at h
      have hx : x = y := by linarith [h.1]
      rw [hx, ih b hl h.2]

theorem vsub_vadd_cancel (a d : Vec) (h : a.length = d.length) : vsub (vadd a d) a = d := by
  induction a generalizing d with
  | nil => cases d <;> simp_all
  | cons x a ih => cases d with
    | nil => simp at h
    | cons z d =>
      simp only [List.length_cons, Nat.add_right_cancel_iff] at h
      simp only [vadd_cons, vsub_cons, ih d h]; congr 1; ring

theorem mulVec_vsmul (A : Mat) (s : ℚ) (g : Vec) : mulVec A (vsmul s g) = vsmul s (mulVec A g) := by
  induction A with
  | nil => rfl
  | cons r A ih => simp only [mulVec_cons, vsmul_cons, ih, dot_vsmul_right]

/-- `δ·(system residual at α) = c·(Aδ)·(Aα − y) + λ δ·Mα` -/
theorem dot_system_residual (c lam : ℚ) (n : Nat) (A : Mat) (y : Vec) (M : Mat) (α δ : Vec)
    (hA : Rows n A) (hM : Rows n M) (hMl : M.length = n) (hy : y.length = A.length) :
    dot δ (vsub (mulVec (madd (msmul c (AtA n A)) (msmul lam M)) α) (vsmul c (Atv n A y)))
      = c * dot (mulVec A δ) (vsub (mulVec A α) y) + lam * dot δ (mulVec M α) := by
  rw [mulVec_madd n _ _ _ (rows_msmul n c _ (rows_AtA n A hA)) (rows_msmul n lam _ hM),
    mulVec_msmul, mulVec_msmul, mulVec_AtA n A α hA]
  have hl : (vsmul c (Atv n A (mulVec A α))).length = (vsmul lam (mulVec M α)).length := by
    rw [length_vsmul, length_vsmul, length_Atv n A _ hA, length_mulVec, hMl]
  have hl2 : (vadd (vsmul c (Atv n A (mulVec A α))) (vsmul lam (mulVec M α))).length = (vsmul c (Atv n A y)).length := by
    rw [length_vadd, hl, length_vsmul, length_vsmul, length_mulVec, hMl, length_Atv n A _ hA]; simp
  have hl3 : (mulVec A α).length = y.length := by rw [length_mulVec, hy]
  rw [dot_vsub_right _ _ _ hl2, dot_vadd_right _ _ _ hl, dot_vsmul_right, dot_vsmul_right, dot_vsmul_right,
    ← dot_mulVec_Atv n A δ _ hA, ← dot_mulVec_Atv n A δ _ hA, dot_vsub_right _ _ _ hl3]
  ring

theorem length_AtA (n : Nat) (A : Mat) (hA : Rows n A) : (AtA n A).length = n := by
  induction A with
  | nil => simp [AtA, zeroMat]
  | cons r A ih =>
    have hr : r.length = n := hA r (by simp)
    have h1 := ih (fun r hr => hA r (by simp [hr]))
    have h2 : AtA n (r :: A) = madd (outer r r) (AtA n A) := rfl
    rw [h2]
    simp only [madd, List.length_zipWith, outer, List.length_map, hr, h1]; simp

theorem dot_vsmul_vsmul (s : ℚ) (p q : Vec) : dot (vsmul s p) (vsmul s q) = s * s * dot p q := by
  rw [dot_vsmul_left, dot_vsmul_right]; ring

/-- **minimiser ⇒ normal equations**: a minimiser of `c·|Aβ−y|² + λ βᵀMβ` (`M` symmetric) solves
`(c·AᵀA + λM) α = c·Aᵀy` -/
theorem system_of_min (c lam : ℚ) (n : Nat) (A : Mat) (y : Vec) (M : Mat) (α : Vec)
    (hA : Rows n A) (hM : Rows n M) (hMl : M.length = n) (hy : y.length = A.length) (hα : α.length = n)
    (hsymm : MSymm n M)
    (hmin : ∀ β : Vec, β.length = n → quadF c lam A y M α ≤ quadF c lam A y M β) :
    mulVec (madd (msmul c (AtA n A)) (msmul lam M)) α = vsmul c (Atv n A y) := by
  have hLl : (mulVec (madd (msmul c (AtA n A)) (msmul lam M)) α).length = n := by
    rw [length_mulVec]
    simp only [madd, msmul, List.length_zipWith, List.length_map, length_AtA n A hA, hMl]; simp
  have hRl : (vsmul c (Atv n A y)).length = n := by rw [length_vsmul, length_Atv n A y hA]
  set g := vsub (mulVec (madd (msmul c (AtA n A)) (msmul lam M)) α) (vsmul c (Atv n A y)) with hg
  have hgl : g.length = n := by rw [hg, length_vsub, hLl, hRl]; simp
  set Q := c * dot (mulVec A g) (mulVec A g) + lam * dot g (mulVec M g) with hQ
  set G := dot g g with hG
  have key : ∀ s : ℚ, 0 ≤ s * s * Q + 2 * s * G := by
    intro s
    have hδl : (vsmul s g).length = n := by rw [length_vsmul, hgl]
    have hβl : (vadd α (vsmul s g)).length = n := by rw [length_vadd, hα, hδl]; simp
    have h1 := hmin _ hβl
    have h2 := quadF_diff c lam n A y M α (vadd α (vsmul s g)) hy hα hβl hsymm
    rw [vsub_vadd_cancel α (vsmul s g) (by rw [hα, hδl])] at h2
    have h3 := dot_system_residual c lam n A y M α (vsmul s g) hA hM hMl hy
    rw [← hg] at h3
    rw [← h3, mulVec_vsmul, mulVec_vsmul, dot_vsmul_vsmul, dot_vsmul_vsmul, dot_vsmul_left] at h2
    have : s * s * Q + 2 * s * G = c * (s * s * dot (mulVec A g) (mulVec A g)) + lam * (s * s * dot g (mulVec M g))
        + 2 * (s * dot g g) := by rw [hQ, hG]; ring
    rw [this]; linarith
  have hd : (0 : ℚ) < Q * Q + 1 := by nlinarith [mul_self_nonneg Q]
  have h0 := key (-G / (Q * Q + 1))
  have hGz : G = 0 := by
    have e : -G / (Q * Q + 1) * (-G / (Q * Q + 1)) * Q + 2 * (-G / (Q * Q + 1)) * G
        = -(G * G * (2 * (Q * Q) - Q + 2)) / ((Q * Q + 1) * (Q * Q + 1)) := by
      field_simp; ring
    rw [e] at h0
    have hpos : (0 : ℚ) < (Q * Q + 1) * (Q * Q + 1) := mul_pos hd hd
    have h1 : 0 ≤ -(G * G * (2 * (Q * Q) - Q + 2)) := by
      have := (div_nonneg_iff.mp h0)
      rcases this with ⟨a, _⟩ | ⟨_, b⟩
      · exact a
      · linarith
    have h2 : (0 : ℚ) < 2 * (Q * Q) - Q + 2 := by nlinarith [mul_self_nonneg (Q - 1 / 4)]
    have h3 : G * G ≤ 0 := by
      by_contra hc
      have : 0 < G * G := not_le.mp hc
      have := mul_pos this h2
      linarith
    have h4 : G * G = 0 := le_antisymm h3 (mul_self_nonneg G)
    simpa using h4
  have hz := eq_zeroVec_of_dot_self g hGz
  exact eq_of_vsub_eq_zero _ _ (by rw [hLl, hRl]) (by rw [hg] at hz; rw [hz, ← hg, hgl, hLl])

end SparseSpace.Regress
