import SparseSpace.Lemmas.AdaptDriver
import Mathlib.Algebra.Order.Field.Basic
import Mathlib.Algebra.Order.AbsoluteValue.Basic
/-! Error formula, benefit and point cache of the adaptive-driver model. -/
namespace SparseSpace.Adapt

/-! ### absolute value, maximum -/

theorem absR_eq_abs (x : Rat) : absR x = |x| := by
  unfold absR
  split
  · rename_i h; rw [abs_of_neg h]
  · rename_i h; rw [abs_of_nonneg (not_lt.mp h)]

theorem absR_nonneg (x : Rat) : 0 ≤ absR x := by rw [absR_eq_abs]; exact abs_nonneg x

theorem absR_eq_zero {x : Rat} : absR x = 0 ↔ x = 0 := by rw [absR_eq_abs]; exact abs_eq_zero

theorem maxR_eq_max (a b : Rat) : maxR a b = max a b := by
  unfold maxR; rw [max_def]

/-! ### the three norms -/

theorem foldMax_ge_init (v : List Rat) (m : Rat) : m ≤ v.foldl (fun m x => maxR m (absR x)) m := by
  induction v generalizing m with
  | nil => exact le_refl _
  | cons x v ih =>
    rw [List.foldl_cons]
    exact le_trans (by rw [maxR_eq_max]; exact le_max_left _ _) (ih _)

theorem foldMax_ge_mem (v : List Rat) (m : Rat) (x : Rat) (hx : x ∈ v) :
    absR x ≤ v.foldl (fun m x => maxR m (absR x)) m := by
  induction v generalizing m with
  | nil => cases hx
  | cons y v ih =>
    rw [List.foldl_cons]
    rcases List.mem_cons.mp hx with rfl | hx
    · exact le_trans (by rw [maxR_eq_max]; exact le_max_right _ _) (foldMax_ge_init v _)
    · exact ih _ hx

theorem foldMax_attained (v : List Rat) (m : Rat) :
    v.foldl (fun m x => maxR m (absR x)) m = m ∨ ∃ x ∈ v, v.foldl (fun m x => maxR m (absR x)) m = absR x := by
  induction v generalizing m with
  | nil => left; rfl
  | cons y v ih =>
    rw [List.foldl_cons]
    rcases ih (maxR m (absR y)) with h | ⟨x, hx, h⟩
    · rw [h]
      unfold maxR
      split
      · right; exact ⟨y, List.mem_cons_self, rfl⟩
      · left; rfl
    · right; exact ⟨x, List.mem_cons_of_mem _ hx, h⟩

theorem sum_map_nonneg {α : Type} (v : List α) (g : α → Rat) (hg : ∀ x, 0 ≤ g x) : 0 ≤ (v.map g).sum := by
  induction v with
  | nil => simp
  | cons x v ih => rw [List.map_cons, List.sum_cons]; exact add_nonneg (hg x) ih

theorem sum_map_eq_zero {α : Type} (v : List α) (g : α → Rat) (hg : ∀ x, 0 ≤ g x) :
    (v.map g).sum = 0 ↔ ∀ x ∈ v, g x = 0 := by
  induction v with
  | nil => simp
  | cons x v ih =>
    rw [List.map_cons, List.sum_cons]
    constructor
    · intro h
      have h1 := hg x
      have h2 := sum_map_nonneg v g hg
      have hx : g x = 0 := by linarith
      have hv : (v.map g).sum = 0 := by linarith
      intro y hy
      rcases List.mem_cons.mp hy with rfl | hy
      · exact hx
      · exact ih.mp hv y hy
    · intro h
      rw [h x List.mem_cons_self, (ih.mpr fun y hy => h y (List.mem_cons_of_mem _ hy))]
      norm_num

/-- every norm value is non-negative -/
theorem normVal_nonneg (p : Norm) (v : List Rat) : 0 ≤ normVal p v := by
  cases p with
  | inf => exact foldMax_ge_init v 0
  | one =>
    exact div_nonneg (sum_map_nonneg v absR absR_nonneg) (by exact_mod_cast Nat.zero_le _)
  | two =>
    exact div_nonneg (sum_map_nonneg v (fun x => x * x) mul_self_nonneg) (by exact_mod_cast Nat.zero_le _)

/-- a norm value vanishes exactly for the zero vector -/
theorem normVal_eq_zero (p : Norm) (v : List Rat) (hv : v ≠ []) : normVal p v = 0 ↔ ∀ x ∈ v, x = 0 := by
  have hlen : (v.length : Rat) ≠ 0 := by
    have : v.length ≠ 0 := by intro h; exact hv (List.length_eq_zero_iff.mp h)
    exact_mod_cast this
  cases p with
  | inf =>
    constructor
    · intro h x hx
      have h1 := foldMax_ge_mem v 0 x hx
      have h2 := absR_nonneg x
      have h3 : v.foldl (fun m x => maxR m (absR x)) 0 = 0 := h
      rw [h3] at h1
      exact absR_eq_zero.mp (le_antisymm h1 h2)
    · intro h
      show v.foldl (fun m x => maxR m (absR x)) 0 = 0
      rcases foldMax_attained v 0 with h0 | ⟨x, hx, h0⟩
      · exact h0
      · rw [h0, h x hx]; exact absR_eq_zero.mpr rfl
  | one =>
    show (v.map absR).sum / (v.length : Rat) = 0 ↔ _
    rw [div_eq_zero_iff, sum_map_eq_zero v absR absR_nonneg]
    constructor
    · rintro (h | h)
      · exact fun x hx => absR_eq_zero.mp (h x hx)
      · exact absurd h hlen
    · intro h; left; exact fun x hx => absR_eq_zero.mpr (h x hx)
  | two =>
    show (v.map fun x => x * x).sum / (v.length : Rat) = 0 ↔ _
    rw [div_eq_zero_iff, sum_map_eq_zero v (fun x => x * x) mul_self_nonneg]
    constructor
    · rintro (h | h)
      · exact fun x hx => mul_self_eq_zero.mp (h x hx)
      · exact absurd h hlen
    · intro h; left; exact fun x hx => mul_self_eq_zero.mpr (h x hx)

/-- the `np.inf` norm is the largest absolute component -/
theorem normVal_inf_spec (v : List Rat) (hv : v ≠ []) :
    (∀ x ∈ v, |x| ≤ normVal .inf v) ∧ ∃ x ∈ v, |x| = normVal .inf v := by
  constructor
  · intro x hx; rw [← absR_eq_abs]; exact foldMax_ge_mem v 0 x hx
  · rcases foldMax_attained v 0 with h0 | ⟨x, hx, h0⟩
    · -- maximum 0: every component is 0, any component attains it
      obtain ⟨y, hy⟩ := List.exists_mem_of_ne_nil v hv
      refine ⟨y, hy, ?_⟩
      have h1 := foldMax_ge_mem v 0 y hy
      have h0' : normVal .inf v = 0 := h0
      rw [h0] at h1
      rw [h0', ← absR_eq_abs]
      exact le_antisymm h1 (absR_nonneg y)
    · exact ⟨x, hx, by rw [← absR_eq_abs]; exact h0.symm⟩

/-! ### relative deviation -/

theorem relDev_length : ∀ (ref res : List Rat), res.length = ref.length → (relDev ref res).length = ref.length
  | [], [], _ => rfl
  | [], _ :: _, h => by simp at h
  | _ :: _, [], h => by simp at h
  | r :: rs, x :: xs, h => by
    simp only [relDev, List.length_cons] at h ⊢
    rw [relDev_length rs xs (by omega)]

theorem relDev_all_zero_iff : ∀ (ref res : List Rat), res.length = ref.length → (∀ r ∈ ref, r ≠ 0) →
    ((∀ x ∈ relDev ref res, x = 0) ↔ res = ref)
  | [], [], _, _ => by simp [relDev]
  | [], _ :: _, h, _ => by simp at h
  | _ :: _, [], h, _ => by simp at h
  | r :: rs, x :: xs, h, hnz => by
    have hr : r ≠ 0 := hnz r List.mem_cons_self
    have ih := relDev_all_zero_iff rs xs (by simpa using h) (fun y hy => hnz y (List.mem_cons_of_mem _ hy))
    simp only [relDev, List.mem_cons, forall_eq_or_imp, List.cons.injEq]
    rw [ih, div_eq_zero_iff]
    constructor
    · rintro ⟨h1 | h1, h2⟩
      · exact ⟨by linarith, h2⟩
      · exact absurd h1 hr
    · rintro ⟨h1, h2⟩
      exact ⟨Or.inl (by rw [h1]; exact sub_self r), h2⟩

theorem all_eq_zero_true {ref : List Rat} : ref.all (· == 0) = true ↔ ∀ r ∈ ref, r = 0 := by
  simp [List.all_eq_true]

theorem any_eq_zero_false {ref : List Rat} : ref.any (· == 0) = false ↔ ∀ r ∈ ref, r ≠ 0 := by
  simp [List.any_eq_false]

/-! ### benefit, totals -/

theorem benefit_nonneg' (e n : Rat) (he : 0 ≤ e) (hn : 0 ≤ n) : 0 ≤ benefit e n := by
  unfold benefit
  split
  · exact div_nonneg he hn
  · exact he

theorem foldAdd_nonneg (l : List Rat) (a : Rat) (ha : 0 ≤ a) (hl : ∀ x ∈ l, 0 ≤ x) : 0 ≤ l.foldl (· + ·) a := by
  induction l generalizing a with
  | nil => exact ha
  | cons x l ih =>
    rw [List.foldl_cons]
    exact ih _ (add_nonneg ha (hl x List.mem_cons_self)) (fun y hy => hl y (List.mem_cons_of_mem _ hy))

theorem foldMaxB_ge (l : List Rat) (a : Rat) : a ≤ l.foldl (fun m b => if b > m then b else m) a := by
  induction l generalizing a with
  | nil => exact le_refl _
  | cons x l ih =>
    rw [List.foldl_cons]
    refine le_trans ?_ (ih _)
    split
    · rename_i h; exact le_of_lt h
    · exact le_refl _

theorem foldMaxB_ge_mem (l : List Rat) (a : Rat) (x : Rat) (hx : x ∈ l) :
    x ≤ l.foldl (fun m b => if b > m then b else m) a := by
  induction l generalizing a with
  | nil => cases hx
  | cons y l ih =>
    rw [List.foldl_cons]
    rcases List.mem_cons.mp hx with rfl | hx
    · refine le_trans ?_ (foldMaxB_ge l _)
      split
      · exact le_refl _
      · rename_i h; exact not_lt.mp h
    · exact ih _ hx

/-! ### the point cache -/

section cache
variable {P : Type} [DecidableEq P]

theorem mem_cacheCall (b : List P) : ∀ (c : List P) (p : P), p ∈ cacheCall c b ↔ p ∈ c ∨ p ∈ b := by
  induction b with
  | nil => intro c p; simp [cacheCall]
  | cons q b ih =>
    intro c p
    have hstep : cacheCall c (q :: b) = cacheCall (if q ∈ c then c else c ++ [q]) b := rfl
    rw [hstep, ih]
    by_cases hq : q ∈ c
    · simp only [hq, if_true, List.mem_cons]
      constructor
      · rintro (h | h)
        · exact Or.inl h
        · exact Or.inr (Or.inr h)
      · rintro (h | h | h)
        · exact Or.inl h
        · left; rw [h]; exact hq
        · exact Or.inr h
    · simp only [hq, if_false, List.mem_append, List.mem_cons]
      tauto

theorem nodup_cacheCall (b : List P) : ∀ (c : List P), c.Nodup → (cacheCall c b).Nodup := by
  induction b with
  | nil => intro c h; exact h
  | cons q b ih =>
    intro c h
    have hstep : cacheCall c (q :: b) = cacheCall (if q ∈ c then c else c ++ [q]) b := rfl
    rw [hstep]
    apply ih
    by_cases hq : q ∈ c
    · simp only [hq, if_true]; exact h
    · simp only [hq, if_false]
      rw [List.nodup_append]
      refine ⟨h, by simp, ?_⟩
      intro a ha b' hb'
      rw [List.mem_singleton] at hb'
      intro hab
      rw [hab, hb'] at ha
      exact hq ha

theorem prefix_cacheCall (b : List P) : ∀ (c : List P), c <+: cacheCall c b := by
  induction b with
  | nil => intro c; exact List.prefix_refl c
  | cons q b ih =>
    intro c
    have hstep : cacheCall c (q :: b) = cacheCall (if q ∈ c then c else c ++ [q]) b := rfl
    rw [hstep]
    by_cases hq : q ∈ c
    · simp only [hq, if_true]; exact ih c
    · simp only [hq, if_false]
      exact List.IsPrefix.trans (List.prefix_append c [q]) (ih _)

theorem mem_cacheRun (bs : List (List P)) : ∀ (c : List P) (p : P),
    p ∈ cacheRun c bs ↔ p ∈ c ∨ ∃ b ∈ bs, p ∈ b := by
  induction bs with
  | nil => intro c p; simp [cacheRun]
  | cons b bs ih =>
    intro c p
    have hstep : cacheRun c (b :: bs) = cacheRun (cacheCall c b) bs := rfl
    rw [hstep, ih, mem_cacheCall]
    simp only [List.mem_cons, exists_eq_or_imp]
    tauto

theorem nodup_cacheRun (bs : List (List P)) : ∀ (c : List P), c.Nodup → (cacheRun c bs).Nodup := by
  induction bs with
  | nil => intro c h; exact h
  | cons b bs ih => intro c h; exact ih _ (nodup_cacheCall b c h)

theorem prefix_cacheRun (bs : List (List P)) : ∀ (c : List P), c <+: cacheRun c bs := by
  induction bs with
  | nil => intro c; exact List.prefix_refl c
  | cons b bs ih => intro c; exact List.IsPrefix.trans (prefix_cacheCall b c) (ih _)

end cache

end SparseSpace.Adapt

namespace SparseSpace.Adapt

/-! ### point counts along a run, given the cache discipline -/

theorem pts_mono_step {S P : Type} [DecidableEq P] (M : Machine S) (cache : S → List P)
    (hEval : ∀ s, ∃ bs, cache (M.eval s).1 = cacheRun (cache s) bs)
    (hRef : ∀ s, cache (M.refine s) = cache s)
    (hPts : ∀ s, (M.eval s).2.pts = (cache (M.eval s).1).length) (s : S) (i : Nat) :
    (obsAt M s i).pts ≤ (obsAt M s (i + 1)).pts := by
  have h1 : (obsAt M s i).pts = (cache (stateAt M s i)).length := hPts _
  have h2 : (obsAt M s (i + 1)).pts = (cache (stateAt M s (i + 1))).length := hPts _
  obtain ⟨bs, hbs⟩ := hEval (iter M s (i + 1))
  have h3 : cache (stateAt M s (i + 1)) = cacheRun (cache (stateAt M s i)) bs := by
    show cache (M.eval (iter M s (i + 1))).1 = _
    rw [hbs, iter_succ, hRef]
  rw [h1, h2, h3]
  exact (prefix_cacheRun bs _).length_le

theorem pts_mono {S P : Type} [DecidableEq P] (M : Machine S) (cache : S → List P)
    (hEval : ∀ s, ∃ bs, cache (M.eval s).1 = cacheRun (cache s) bs)
    (hRef : ∀ s, cache (M.refine s) = cache s)
    (hPts : ∀ s, (M.eval s).2.pts = (cache (M.eval s).1).length) (s : S) (i j : Nat) (hij : i ≤ j) :
    (obsAt M s i).pts ≤ (obsAt M s j).pts := by
  induction j with
  | zero => have : i = 0 := by omega
            rw [this]
  | succ j ih =>
    rcases Nat.lt_or_ge i (j + 1) with h | h
    · exact le_trans (ih (by omega)) (pts_mono_step M cache hEval hRef hPts s j)
    · have : i = j + 1 := by omega
      rw [this]

end SparseSpace.Adapt
