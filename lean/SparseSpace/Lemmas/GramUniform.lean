import SparseSpace.Lemmas.GramPD
import SparseSpace.Lemmas.GramHat
/-! C16: uniform component grids — the 1/3–1/12 rule of `build_R_matrix` is the analytic matrix of the uniform stripes. -/
namespace SparseSpace.Gram

theorem uHat_valid (l : ℕ) (i : ℤ) : (uHat l i).lo < (uHat l i).p ∧ (uHat l i).p < (uHat l i).hi := by
  have hs : (0 : ℚ) < 2 ^ l := by positivity
  unfold uHat
  simp only
  constructor <;> apply div_lt_div_of_pos_right _ hs <;> linarith

/-- the `1/(2^{l-1}·3)`, `1/(2^{l-1}·12)` rule with its overlap test is the analytic entry of the uniform hats -/
theorem uEntry1_eq_g1 (l : ℕ) (i j : ℤ) : (uEntry1 l i j).getD 0 = g1 (uHat l i) (uHat l j) := by
  have hs : (0 : ℚ) < 2 ^ l := by positivity
  have hh : (0 : ℚ) < half2 l := by unfold half2; positivity
  unfold uEntry1
  by_cases hij : i = j
  · subst hij
    rw [if_pos rfl, Option.getD_some, g1_self _ (uHat_valid l i).1 (uHat_valid l i).2]
    unfold uHat half2
    simp only
    field_simp
    ring
  · rw [if_neg hij]
    simp only [rmax_eq_max, rmin_eq_min]
    rcases lt_or_gt_of_ne hij with hlt | hgt
    · have hq : (i : ℚ) < j := by exact_mod_cast hlt
      rw [max_eq_right (by nlinarith), min_eq_left (by nlinarith)]
      by_cases ht : ((j : ℚ) - 1) * half2 l ≥ ((i : ℚ) + 1) * half2 l
      · rw [if_pos ht, Option.getD_none]
        have : (i : ℚ) + 1 ≤ (j : ℚ) - 1 := le_of_mul_le_mul_right ht hh
        rw [g1_far_right]
        unfold uHat; simp only
        apply div_lt_div_of_pos_right _ hs
        linarith
      · rw [if_neg ht, Option.getD_some]
        have h2 : ¬ (i + 1 ≤ j - 1) := by
          intro hle
          apply ht
          have : (i : ℚ) + 1 ≤ (j : ℚ) - 1 := by exact_mod_cast hle
          exact mul_le_mul_of_nonneg_right this hh.le
        have hj : j = i + 1 := by omega
        subst hj
        unfold g1
        have hadj : (uHat l i).lo ≤ (uHat l (i + 1)).p ∧ (uHat l (i + 1)).p ≤ (uHat l i).hi := by
          unfold uHat; simp only; push_cast
          constructor <;> apply div_le_div_of_nonneg_right _ hs.le <;> linarith
        rw [if_pos hadj, rValue1_adj _ _ (by unfold uHat; simp only; push_cast; intro e; field_simp at e; linarith)]
        unfold uHat half2
        simp only
        push_cast
        rw [abs_of_neg (by rw [div_sub_div_same]; apply div_neg_of_neg_of_pos _ hs; linarith)]
        field_simp
        ring
    · have hq : (j : ℚ) < i := by exact_mod_cast hgt
      rw [max_eq_left (by nlinarith), min_eq_right (by nlinarith)]
      by_cases ht : ((i : ℚ) - 1) * half2 l ≥ ((j : ℚ) + 1) * half2 l
      · rw [if_pos ht, Option.getD_none]
        have : (j : ℚ) + 1 ≤ (i : ℚ) - 1 := le_of_mul_le_mul_right ht hh
        rw [g1_far_left (uHat l j) (uHat l i)]
        unfold uHat; simp only
        apply div_lt_div_of_pos_right _ hs
        linarith
      · rw [if_neg ht, Option.getD_some]
        have h2 : ¬ (j + 1 ≤ i - 1) := by
          intro hle
          apply ht
          have : (j : ℚ) + 1 ≤ (i : ℚ) - 1 := by exact_mod_cast hle
          exact mul_le_mul_of_nonneg_right this hh.le
        have hj : i = j + 1 := by omega
        subst hj
        unfold g1
        have hadj : (uHat l (j + 1)).lo ≤ (uHat l j).p ∧ (uHat l j).p ≤ (uHat l (j + 1)).hi := by
          unfold uHat; simp only; push_cast
          constructor <;> apply div_le_div_of_nonneg_right _ hs.le <;> linarith
        rw [if_pos hadj, rValue1_adj _ _ (by unfold uHat; simp only; push_cast; intro e; field_simp at e; linarith)]
        unfold uHat half2
        simp only
        push_cast
        rw [abs_of_pos (by rw [div_sub_div_same]; apply div_pos _ hs; linarith)]
        field_simp
        ring


/-- the hats of a uniform component grid as non-uniform hats -/
def uHats (lv : List ℕ) (I : List ℤ) : List Hat1 := List.zipWith uHat lv I

theorem uEntry_eq_rValue : ∀ (lv : List ℕ) (I J : List ℤ), I.length = lv.length → J.length = lv.length →
    uEntry lv I J = rValue (uHats lv I) (uHats lv J)
  | [], [], [], _, _ => by simp [uEntry, uHats, rValue_nil]
  | l :: lv, i :: I, j :: J, hI, hJ => by
    have ih := uEntry_eq_rValue lv I J (by simpa using hI) (by simpa using hJ)
    simp only [uHats, List.zipWith_cons_cons, rValue_cons, uEntry] at ih ⊢
    rw [← uEntry1_eq_g1, ← ih]
    cases uEntry1 l i j <;> simp
  | [], _ :: _, _, h, _ => by simp at h
  | [], [], _ :: _, _, h => by simp at h
  | _ :: _, [], _, h, _ => by simp at h
  | _ :: _, _ :: _, [], _, h => by simp at h

theorem uDiag_eq_rValue : ∀ (lv : List ℕ) (I : List ℤ), I.length = lv.length → uDiag lv = rValue (uHats lv I) (uHats lv I)
  | [], [], _ => by simp [uDiag, lprod, uHats, rValue_nil]
  | l :: lv, i :: I, hI => by
    have ih := uDiag_eq_rValue lv I (by simpa using hI)
    simp only [uHats, List.zipWith_cons_cons, rValue_cons, uDiag, List.map_cons, lprod] at ih ⊢
    rw [← ih, ← uEntry1_eq_g1]
    simp [uEntry1]
  | [], _ :: _, h => by simp at h
  | _ :: _, [], h => by simp at h

theorem symFill_congr {α : Type} (f f' : α → α → ℚ) (lam : ℚ) : ∀ l : List α, (∀ a ∈ l, ∀ b ∈ l, f a b = f' a b) →
    symFill f lam l = symFill f' lam l
  | [], _ => rfl
  | h :: t, hyp => by
    have ih := symFill_congr f f' lam t (fun a ha b hb => hyp a (List.mem_cons_of_mem _ ha) b (List.mem_cons_of_mem _ hb))
    simp only [symFill, ih, hyp h List.mem_cons_self h List.mem_cons_self]
    have e : t.map (f h) = t.map (f' h) :=
      List.map_congr_left fun J hJ => hyp h List.mem_cons_self J (List.mem_cons_of_mem _ hJ)
    rw [e]
    congr 1
    have : ∀ (M : List (List ℚ)) (t' : List α), (∀ J ∈ t', f h J = f' h J) →
        List.zipWith (fun J row => f h J :: row) t' M = List.zipWith (fun J row => f' h J :: row) t' M := by
      intro M t'
      induction t' generalizing M with
      | nil => intro _; simp
      | cons J t' ih' =>
        intro hh
        cases M with
        | nil => simp
        | cons r M => simp [hh J List.mem_cons_self, ih' M (fun J' hJ' => hh J' (List.mem_cons_of_mem _ hJ'))]
    exact this _ t fun J hJ => hyp h List.mem_cons_self J (List.mem_cons_of_mem _ hJ)

theorem symFill_map {α β : Type} (g : α → β) (f : β → β → ℚ) (lam : ℚ) : ∀ l : List α,
    symFill f lam (l.map g) = symFill (fun a b => f (g a) (g b)) lam l
  | [] => rfl
  | h :: t => by
    simp only [List.map_cons, symFill, symFill_map g f lam t, List.map_map, List.zipWith_map_left]
    rfl

theorem mem_cross_length {α : Type} : ∀ (L : List (List α)) (I : List α), I ∈ cross L → I.length = L.length
  | [], I, h => by simp [cross] at h; simp [h]
  | l :: L, I, h => by
    simp only [cross, List.mem_flatMap, List.mem_map] at h
    obtain ⟨a, _, I', hI', rfl⟩ := h
    simp [mem_cross_length L I' hI']

/-- **uniform specialisation**: `build_R_matrix` (1/3–1/12 rule, overlap test on the indices) computes exactly the
    matrix that the analytic non-uniform entries give for the uniform hats -/
theorem buildRU_eq (lv : List ℕ) (lam : ℚ) :
    buildRU lv lam = symFill rValue lam ((uIndexList lv).map (uHats lv)) := by
  unfold buildRU
  rw [symFill_map]
  apply symFill_congr
  intro I hI J hJ
  have lI : I.length = lv.length := by have := mem_cross_length _ I hI; simpa using this
  have lJ : J.length = lv.length := by have := mem_cross_length _ J hJ; simpa using this
  by_cases e : I = J
  · subst e; rw [if_pos rfl]; exact uDiag_eq_rValue lv I lI
  · rw [if_neg e]; exact uEntry_eq_rValue lv I J lI lJ


/-- nodes of the uniform stripe of level `l`: `k / 2^l`, `k = 0 .. 2^l` -/
def uNodes (l : ℕ) : List ℚ := (List.range (2 ^ l + 1)).map fun (k : ℕ) => (k : ℚ) / 2 ^ l
def uStripes (lv : List ℕ) : List (List ℚ) := lv.map uNodes

theorem hats1D_map_range' (f : ℕ → ℚ) : ∀ (n s : ℕ),
    hats1D ((List.range' s (n + 2)).map f) = (List.range' s n).map fun k => (⟨f (k + 1), f k, f (k + 2)⟩ : Hat1)
  | 0, s => by simp [List.range'_succ, hats1D]
  | n + 1, s => by
    have ih := hats1D_map_range' f n (s + 1)
    have e3 : List.range' s (n + 1 + 2) = s :: (s + 1) :: (s + 1 + 1) :: List.range' (s + 1 + 1 + 1) n := rfl
    have e2 : List.range' (s + 1) (n + 2) = (s + 1) :: (s + 1 + 1) :: List.range' (s + 1 + 1 + 1) n := rfl
    have e1 : List.range' s (n + 1) = s :: List.range' (s + 1) n := rfl
    rw [e2] at ih
    rw [e3, e1]
    simp only [List.map_cons] at ih ⊢
    rw [hats1D, ih]

theorem hats1D_uNodes (l : ℕ) : hats1D (uNodes l) = (List.range (2 ^ l - 1)).map fun (k : ℕ) => uHat l ((k : ℤ) + 1) := by
  unfold uNodes
  have h1 : 1 ≤ 2 ^ l := Nat.one_le_two_pow
  rw [List.range_eq_range', show 2 ^ l + 1 = (2 ^ l - 1) + 2 by omega, hats1D_map_range', List.range_eq_range']
  apply List.map_congr_left
  intro k _
  unfold uHat
  congr 1 <;> push_cast <;> ring

theorem cross_map_uHats : ∀ (lv : List ℕ) (Ls : List (List ℤ)), Ls.length = lv.length →
    (cross Ls).map (uHats lv) = cross (List.zipWith (fun l L => L.map (uHat l)) lv Ls)
  | [], [], _ => by simp [cross, uHats]
  | l :: lv, L :: Ls, h => by
    have ih := cross_map_uHats lv Ls (by simpa using h)
    simp only [cross, List.zipWith_cons_cons, List.map_flatMap, List.flatMap_map, List.map_map, ← ih]
    rfl
  | [], _ :: _, h => by simp at h
  | _ :: _, [], h => by simp at h

theorem uHats_eq_hatsRaw (lv : List ℕ) : (uIndexList lv).map (uHats lv) = hatsRaw (uStripes lv) := by
  unfold uIndexList hatsRaw uStripes
  rw [cross_map_uHats lv _ (by simp)]
  congr 1
  rw [List.map_map, List.zipWith_map_right]
  induction lv with
  | nil => rfl
  | cons l lv ih =>
    simp only [List.zipWith_cons_cons, List.map_cons, Function.comp, hats1D_uNodes, List.map_map]
    rw [← ih]
    simp [Function.comp]

theorem uNodes_unit (l : ℕ) : UnitStripe (uNodes l) := by
  have hs : (0 : ℚ) < 2 ^ l := by positivity
  refine ⟨?_, ?_, ?_⟩
  · unfold uNodes
    rw [List.pairwise_map]
    refine (List.pairwise_lt_range).imp ?_
    intro a b hab
    apply div_lt_div_of_pos_right _ hs
    exact_mod_cast hab
  · unfold uNodes
    rw [List.range_succ_eq_map]
    simp
  · unfold uNodes
    rw [List.range_succ, List.map_append]
    simp


theorem uStripes_unit (lv : List ℕ) : ∀ s ∈ uStripes lv, UnitStripe s := by
  intro s hs
  obtain ⟨l, _, rfl⟩ := List.mem_map.mp hs
  exact uNodes_unit l

/-- the uniform code path and the non-uniform code path build the same matrix on uniform stripes -/
theorem buildRU_eq_buildRDW (lv : List ℕ) (lam : ℚ) : buildRU lv lam = buildRDW (uStripes lv) lam := by
  rw [buildRU_eq, uHats_eq_hatsRaw]
  unfold buildRDW
  rw [hatsND_eq_hatsRaw (uStripes lv) (uStripes_unit lv)]

end SparseSpace.Gram
