import SparseSpace.Lemmas.CombiBasic
/-! Initialisation establishes the invariant (C01): characterisation of `getGrids`, `initActive`, `initOld`. -/
namespace SparseSpace

/-! ### `dedup` -/

theorem dedup_aux : ∀ (l acc : List LV), acc.Nodup →
    (l.foldl (fun acc x => if acc.contains x then acc else acc ++ [x]) acc).Nodup ∧
    ∀ a, a ∈ l.foldl (fun acc x => if acc.contains x then acc else acc ++ [x]) acc ↔ a ∈ acc ∨ a ∈ l
  | [], acc, h => by simp [h]
  | x :: l, acc, h => by
    rw [List.foldl_cons]
    by_cases hc : acc.contains x = true
    · rw [if_pos hc]
      obtain ⟨h1, h2⟩ := dedup_aux l acc h
      refine ⟨h1, ?_⟩
      intro a
      rw [h2]
      have hx : x ∈ acc := by simpa using hc
      simp only [List.mem_cons]
      constructor
      · rintro (h | h)
        · exact Or.inl h
        · exact Or.inr (Or.inr h)
      · rintro (h | h | h)
        · exact Or.inl h
        · rw [h]; exact Or.inl hx
        · exact Or.inr h
    · rw [if_neg hc]
      have hx : x ∉ acc := by simpa using hc
      have hnd : (acc ++ [x]).Nodup := by
        rw [List.nodup_append]
        refine ⟨h, by simp, ?_⟩
        intro a ha b hb
        simp only [List.mem_singleton] at hb
        rw [hb]; intro e; apply hx; rw [← e]; exact ha
      obtain ⟨h1, h2⟩ := dedup_aux l (acc ++ [x]) hnd
      refine ⟨h1, ?_⟩
      intro a
      rw [h2]
      simp only [List.mem_append, List.mem_cons]
      tauto

theorem nodup_dedup (l : List LV) : (dedup l).Nodup := (dedup_aux l [] (by simp)).1

theorem mem_dedup (l : List LV) (a : LV) : a ∈ dedup l ↔ a ∈ l := by
  unfold dedup
  rw [(dedup_aux l [] (by simp)).2]
  simp

/-! ### `getGrids` -/

theorem mem_getGrids : ∀ (d : Nat) (v : Int) (g : LV), 1 ≤ d → 1 ≤ v →
    (g ∈ getGrids d v ↔ g.length = d ∧ geAll 1 g ∧ g.sum = v + d - 1)
  | 0, _, _, hd, _ => by omega
  | 1, v, g, _, hv => by
    simp only [getGrids, List.mem_singleton]
    constructor
    · rintro rfl
      simp [geAll, hv]
    · rintro ⟨h1, _, h3⟩
      rw [List.length_eq_one_iff] at h1
      obtain ⟨x, rfl⟩ := h1
      simp at h3
      rw [h3]
  | n + 2, v, g, _, hv => by
    simp only [getGrids, List.mem_flatMap, List.mem_range, List.mem_map]
    constructor
    · rintro ⟨idx, hidx, g', hg', rfl⟩
      have hv' : 1 ≤ v - (idx : Int) := by omega
      obtain ⟨h1, h2, h3⟩ := (mem_getGrids (n + 1) (v - idx) g' (by omega) hv').mp hg'
      refine ⟨by simp [h1], ?_, ?_⟩
      · rw [geAll_cons]; exact ⟨by omega, h2⟩
      · rw [List.sum_cons, h3]; push_cast; omega
    · rintro ⟨h1, h2, h3⟩
      match g, h1, h2, h3 with
      | x :: g', h1, h2, h3 =>
        rw [geAll_cons] at h2
        have hlen : g'.length = n + 1 := by simpa using h1
        have hsum := sum_ge_of_geAll 1 g' h2.2
        rw [hlen] at hsum
        rw [List.sum_cons] at h3
        push_cast at hsum h3
        refine ⟨(x - 1).toNat, by omega, g', ?_, ?_⟩
        · apply (mem_getGrids (n + 1) (v - ((x - 1).toNat : Int)) g' (by omega) (by omega)).mpr
          refine ⟨hlen, h2.2, ?_⟩
          push_cast
          omega
        · congr 1
          omega

/-! ### shifting -/

theorem sum_map_add (c : Int) : ∀ g : LV, (g.map (· + c)).sum = g.sum + (g.length : Int) * c
  | [] => by simp
  | x :: g => by
    simp only [List.map_cons, List.sum_cons, List.length_cons, sum_map_add c g]
    push_cast; ring

theorem geAll_map_add (a c : Int) (g : LV) (h : geAll a g) : geAll (a + c) (g.map (· + c)) := by
  intro x hx
  rw [List.mem_map] at hx
  obtain ⟨y, hy, rfl⟩ := hx
  have := h y hy
  omega

theorem mem_shift_getGrids (lmin : Int) (d : Nat) (v : Int) (l : LV) (hd : 1 ≤ d) (hv : 1 ≤ v) :
    l ∈ shiftGrids lmin (getGrids d v) ↔
      l.length = d ∧ geAll lmin l ∧ l.sum = v - 1 + (d : Int) * lmin := by
  unfold shiftGrids
  rw [List.mem_map]
  constructor
  · rintro ⟨g, hg, rfl⟩
    obtain ⟨h1, h2, h3⟩ := (mem_getGrids d v g hd hv).mp hg
    refine ⟨by simp [h1], ?_, ?_⟩
    · have := geAll_map_add 1 (lmin - 1) g h2
      rw [show (1 : Int) + (lmin - 1) = lmin by ring] at this
      exact this
    · rw [sum_map_add, h3, h1]; ring
  · rintro ⟨h1, h2, h3⟩
    refine ⟨l.map (· + (1 - lmin)), ?_, ?_⟩
    · apply (mem_getGrids d v _ hd hv).mpr
      refine ⟨by simp [h1], ?_, ?_⟩
      · have := geAll_map_add lmin (1 - lmin) l h2
        rw [show lmin + (1 - lmin) = 1 by ring] at this
        exact this
      · rw [sum_map_add, h3, h1]; ring
    · rw [List.map_map]
      have : ((fun x : Int => x + (lmin - 1)) ∘ fun x => x + (1 - lmin)) = id := by
        funext x; simp only [Function.comp_apply, id_eq]; ring
      rw [this, List.map_id]

theorem mem_initActive (lmax lmin : Int) (dim : Nat) (l : LV) (hd : 1 ≤ dim) (h : lmin ≤ lmax) :
    l ∈ initActive lmax lmin dim ↔
      l.length = dim ∧ geAll lmin l ∧ l.sum = lmax - lmin + (dim : Int) * lmin := by
  unfold initActive
  rw [mem_dedup, mem_shift_getGrids lmin dim _ l hd (by omega)]
  constructor
  · rintro ⟨h1, h2, h3⟩
    exact ⟨h1, h2, by rw [h3]; ring⟩
  · rintro ⟨h1, h2, h3⟩
    exact ⟨h1, h2, by rw [h3]; ring⟩

theorem mem_initOld (lmax lmin : Int) (dim : Nat) (l : LV) (hd : 1 ≤ dim) (h : lmin ≤ lmax) :
    l ∈ initOld lmax lmin dim ↔
      l.length = dim ∧ geAll lmin l ∧ l.sum < lmax - lmin + (dim : Int) * lmin := by
  unfold initOld
  rw [mem_dedup, List.mem_flatMap]
  constructor
  · rintro ⟨q, hq, hl⟩
    rw [List.mem_range] at hq
    obtain ⟨h1, h2, h3⟩ := (mem_shift_getGrids lmin dim _ l hd (by omega)).mp hl
    refine ⟨h1, h2, ?_⟩
    rw [h3]
    generalize (dim : Int) * lmin = P
    omega
  · rintro ⟨h1, h2, h3⟩
    have hsum := sum_ge_of_geAll lmin l h2
    rw [h1] at hsum
    generalize hP : (dim : Int) * lmin = P at *
    refine ⟨(lmax - lmin + P - 1 - l.sum).toNat, ?_, ?_⟩
    · rw [List.mem_range]; omega
    · apply (mem_shift_getGrids lmin dim _ l hd (by omega)).mpr
      refine ⟨h1, h2, ?_⟩
      rw [hP]
      omega

/-! ### the invariant at initialisation -/

theorem sum_replicate_int (a : Int) : ∀ n : Nat, (List.replicate n a).sum = (n : Int) * a
  | 0 => by simp
  | n + 1 => by
    rw [List.replicate_succ, List.sum_cons, sum_replicate_int a n]
    push_cast; ring

theorem inv_init (dim : Nat) (lmin lmax : Int) (hd : 1 ≤ dim) (h0 : 0 ≤ lmin) (h : lmin ≤ lmax) :
    SchemeInv (CS.init dim lmax lmin) := by
  have _ := h0
  have hA := fun l => mem_initActive lmax lmin dim l hd h
  have hO := fun l => mem_initOld lmax lmin dim l hd h
  have hI : ∀ l, l ∈ I (CS.init dim lmax lmin) ↔
      l.length = dim ∧ geAll lmin l ∧ l.sum ≤ lmax - lmin + (dim : Int) * lmin := by
    intro l
    unfold I CS.init
    simp only [List.mem_append]
    rw [hA, hO]
    constructor
    · rintro (⟨h1, h2, h3⟩ | ⟨h1, h2, h3⟩)
      · exact ⟨h1, h2, by omega⟩
      · exact ⟨h1, h2, by omega⟩
    · rintro ⟨h1, h2, h3⟩
      by_cases he : l.sum = lmax - lmin + (dim : Int) * lmin
      · exact Or.inr ⟨h1, h2, he⟩
      · exact Or.inl ⟨h1, h2, by omega⟩
  have hdimE : (CS.init dim lmax lmin).dim = dim := rfl
  have hlminE : (CS.init dim lmax lmin).lmin = lmin := rfl
  have holdE : (CS.init dim lmax lmin).old = initOld lmax lmin dim := rfl
  have hactE : (CS.init dim lmax lmin).active = initActive lmax lmin dim := rfl
  constructor
  · intro l hl
    rw [hdimE, hlminE]
    have := (hI l).mp hl
    exact ⟨this.1, this.2.1⟩
  · rw [hactE]; exact nodup_dedup _
  · rw [holdE]; exact nodup_dedup _
  · intro l hl hlo
    rw [hactE, hA] at hl
    rw [holdE, hO] at hlo
    omega
  · intro l hl d hd' hlt
    rw [hdimE] at hd'
    rw [hlminE] at hlt
    rw [holdE, hO]
    obtain ⟨h1, h2, h3⟩ := (hI l).mp hl
    refine ⟨by rw [length_bump, h1], geAll_bump lmin l d (-1) h2 (by omega), ?_⟩
    rw [sum_bump l d (-1) (by omega)]
    omega
  · intro l hl d hd' hfw
    rw [hdimE] at hd'
    rw [hactE, hA] at hl
    obtain ⟨h1, h2, h3⟩ := hl
    have := ((hI _).mp hfw).2.2
    rw [sum_bump l d 1 (by omega)] at this
    omega
  · intro e
    obtain ⟨n, rfl⟩ : ∃ n, dim = n + 1 := ⟨dim - 1, by omega⟩
    have : (lmax :: List.replicate n lmin) ∈ I (CS.init (n + 1) lmax lmin) := by
      rw [hI]
      refine ⟨by simp, ?_, ?_⟩
      · rw [geAll_cons]; exact ⟨h, geAll_replicate lmin n⟩
      · rw [List.sum_cons, sum_replicate_int]
        push_cast
        have : ((n : Int) + 1) * lmin = n * lmin + lmin := by ring
        rw [this]
        omega
    rw [e] at this
    simp at this

end SparseSpace
