import SparseSpace.Lemmas.RombergDegreeFullPoly
import SparseSpace.Lemmas.RombergAll
/-!
# Degree of exactness `2m+1` of the default Romberg containers, at the level of `get_weights` (C11)
-/
namespace SparseSpace.Romberg
open Finset Polynomial

/-- a default container of `2^(k+1)` equal consecutive slices integrates every polynomial of degree
    `≤ 2(k+1)+1` exactly -/
theorem container_poly_exact (sv : SliceVer) (s s' : Slice) (r : List Slice) (k : ℕ) (x h : ℚ) (hpos : 0 < h)
    (p : ℚ[X]) (hp : p.natDegree ≤ 2 * (k + 1) + 1)
    (hlen : (s :: s' :: r).length = 2 ^ (k + 1)) (hE : Equi x h (s :: s' :: r))
    (cs : List (ℚ × ℚ)) (hc : containerContribs sv .default (s :: s' :: r) = some cs) :
    wsum (fun y => p.eval y) cs = polyInt p x (x + 2 ^ (k + 1) * h) := by
  rw [container_is_romberg sv s s' r k x h _ hlen hE cs hc]
  have hab : x ≠ x + 2 ^ (k + 1) * h := by
    have : (0 : ℚ) < 2 ^ (k + 1) * h := mul_pos (pow_pos (by norm_num) _) hpos
    linarith
  exact romberg_poly x (x + 2 ^ (k + 1) * h) hab (k + 1) p hp x (2 ^ (k + 1) * h)

/-- **degree clause at the level of `get_weights`**: if all slices of the grid form one default container of `2^m`
    slices (what `GROUPED` / `GROUPED_OPTIMIZED` produce on the complete dyadic grid of depth `m`), the returned weights
    integrate every polynomial of degree `≤ 2m+1` exactly -/
theorem single_container_poly (cfg : Cfg) (grid : List ℚ) (lv : List ℕ) (st : EG) (ws : List ℚ)
    (hcv : cfg.contVer = .default) (h1 : setGrid cfg grid lv = some st) (h2 : st.weights cfg = some ws)
    (c : List Slice) (hc : st.containers = [c]) (m : ℕ) (hm : c.length = 2 ^ m)
    (p : ℚ[X]) (hp : p.natDegree ≤ 2 * m + 1) :
    dot ws (st.grid.map (fun y => p.eval y)) = polyInt p st.a st.b := by
  cases m with
  | zero =>
    -- depth 0: degree ≤ 1, the sum / linear clause
    have hp1 : p.natDegree ≤ 1 := by omega
    obtain ⟨_, _, w3⟩ := setGrid_weights cfg grid lv st ws h1 h2
    have hf : (fun y : ℚ => p.eval y) = fun y => p.coeff 1 * y + p.coeff 0 := by
      funext y
      conv_lhs => rw [Polynomial.eq_X_add_C_of_natDegree_le_one hp1]
      simp
    rw [hf, w3, polyInt_affine p hp1]
  | succ k' =>
    obtain ⟨cs, hall, hdot, hch, hend, hgood, hhyp⟩ := setGrid_struct cfg grid lv st ws h1 h2
    rw [hc] at hall hch hend hgood hhyp
    simp only [List.flatten_cons, List.flatten_nil, List.append_nil] at hch hend hhyp
    rw [hdot]
    simp only [allContribs, hcv] at hall
    cases hcc : containerContribs cfg.sliceVer .default c with
    | none => rw [hcc] at hall; simp at hall
    | some c1 =>
      rw [hcc] at hall
      simp only [List.append_nil, Option.some.injEq] at hall
      subst hall
      obtain ⟨hne, _, hw⟩ := hgood c (by simp)
      cases c with
      | nil => exact absurd rfl hne
      | cons s r =>
        cases r with
        | nil =>
          exfalso
          simp only [List.length_cons, List.length_nil] at hm
          have : 2 ≤ 2 ^ (k' + 1) := by rw [pow_succ]; have := Nat.one_le_two_pow (n := k'); omega
          omega
        | cons s' r' =>
          have hwid : ∀ t ∈ s :: s' :: r', t.width = s.width := fun t ht => hw t ht s List.mem_cons_self
          have hE := equi_of_chain st.a s.width _ hch hwid
          have hpos : 0 < s.width := by
            have := (hhyp s List.mem_cons_self).2
            simp only [Slice.width]; linarith
          rw [container_poly_exact cfg.sliceVer s s' r' k' st.a s.width hpos p hp hm hE c1 hcc]
          have := endOf_equi st.a s.width _ hE
          rw [hend, hm] at this
          rw [this]
          push_cast
          rfl

end SparseSpace.Romberg
