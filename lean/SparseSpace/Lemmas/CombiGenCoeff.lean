import SparseSpace.Lemmas.CombiGen
import SparseSpace.Lemmas.CombiIdent
import Mathlib.Data.Rat.Defs
/-!
# Translator tie, part 2: `get_coefficients_to_index_set` and the adaptive branch of `getCombiScheme`

The generated triple loop (index set × per-dimension stencil × cross product) with its dictionary update equals the
hand model's `coeffsOf` for every index set whose vectors have `dim` entries.
-/
namespace SparseSpace
open SparseSpace.PyRt

/-- a returned grid: `ComponentGridInfo(levelvector=p.1, coefficient=p.2)` -/
def mkCGI (p : LV × Int) : ComponentGridInfo := { levelvector := p.1, coefficient := ((p.2 : Int) : Rat) }

/-- `itertools.product` of the per-dimension stencils = the hand model's `stencils` -/
theorem product_stencils (lmin : Int) : ∀ g : LV,
    product (g.map fun x => if x ≤ lmin then [(0 : Int)] else [0, -1]) = stencils lmin g
  | [] => rfl
  | x :: g => by simp [product, stencils, product_stencils lmin g]

/-- the loop `for d in range(self.dim): stencils.append([0] | [0, -1])` -/
theorem gen_stencil_loop (lmin dim : Int) (g : LV) (h : g.length = dim.toNat) :
    List.foldl (fun (st : List (List Int)) (d : Int) =>
        if decide (getItem g d ≤ lmin) = true then st ++ [[(0 : Int)]] else st ++ [[(0 : Int), -1]]) [] (PyRt.range dim)
      = g.map fun x => if x ≤ lmin then [(0 : Int)] else [0, -1] := by
  have e : (fun (st : List (List Int)) (d : Int) =>
        if decide (getItem g d ≤ lmin) = true then st ++ [[(0 : Int)]] else st ++ [[(0 : Int), -1]])
      = fun st d => st ++ [if getItem g d ≤ lmin then [(0 : Int)] else [0, -1]] := by
    funext st d
    by_cases hd : getItem g d ≤ lmin <;> simp [hd]
  rw [e, foldl_append_map, range_eq, List.map_map, ← h]
  simp only [List.nil_append, Function.comp_def, getItem_ofNat]
  exact map_range_getD (fun x => if x ≤ lmin then [(0 : Int)] else [0, -1]) g

/-! ### the dictionary update -/

/-- `if k in d: d[k] += v else: d[k] = v` as the translator emits it -/
def dstep (m : List (LV × Int)) (k : LV) (v : Int) : List (LV × Int) :=
  if dictContains m k = true then dictSet m k (dictGet m k + v) else dictSet m k v

theorem dictGet_of_mem : ∀ (m : List (LV × Int)) (p : LV × Int), (keys m).Nodup → p ∈ m → dictGet m p.1 = p.2
  | [], _, _, h => by simp at h
  | q :: m, p, hnd, h => by
    simp only [keys, List.map_cons, List.nodup_cons] at hnd
    unfold dictGet
    rcases List.mem_cons.mp h with rfl | h
    · simp
    · have hne : (q.1 == p.1) = false := by
        simp only [beq_eq_false_iff_ne, ne_eq]
        intro e; apply hnd.1; rw [e]; exact List.mem_map.mpr ⟨p, h, rfl⟩
      simp only [List.find?_cons, hne]
      exact dictGet_of_mem m p hnd.2 h

theorem dstep_eq_addTo (m : List (LV × Int)) (k : LV) (v : Int) (h : (keys m).Nodup) : dstep m k v = addTo m k v := by
  unfold dstep addTo dictContains dictSet
  by_cases hc : (m.any fun p => p.1 == k) = true
  · simp only [hc, if_true]
    apply List.map_congr_left
    intro p hp
    by_cases hk : (p.1 == k) = true
    · have : p.1 = k := by simpa using hk
      simp only [hk, if_true]
      rw [← this, dictGet_of_mem m p h hp]
    · simp [hk]
  · simp only [hc]
    simp

theorem gen_dict_inner (gl : LV) : ∀ (ss : List LV) (m : List (LV × Int)), (keys m).Nodup →
    List.foldl (fun m s => dstep m (List.zipWith (fun x y => x + y) gl s) (updCoeff s)) m ss
      = dict m (ss.map fun st => (List.zipWith (· + ·) gl st, updCoeff st))
  | [], m, _ => rfl
  | s :: ss, m, h => by
    simp only [List.foldl_cons, List.map_cons, dict]
    rw [dstep_eq_addTo _ _ _ h]
    exact gen_dict_inner gl ss _ (keys_addTo_nodup m _ _ h)

theorem dict_append (m : List (LV × Int)) (a b : List (LV × Int)) : dict m (a ++ b) = dict (dict m a) b := by
  simp [dict, List.foldl_append]

/-- the two outer loops of `get_coefficients_to_index_set` -/
theorem gen_dict_loop (lmin dim : Int) : ∀ (idx : List LV) (m0 : List (LV × Int)), (keys m0).Nodup →
    (∀ l ∈ idx, l.length = dim.toNat) →
    List.foldl (fun m gl =>
        List.foldl (fun m s => dstep m (List.zipWith (fun x y => x + y) gl s) (updCoeff s)) m
          (Gen.get_cross_product (List.foldl (fun (st : List (List Int)) (d : Int) =>
            if decide (getItem gl d ≤ lmin) = true then st ++ [[(0 : Int)]] else st ++ [[(0 : Int), -1]]) [] (PyRt.range dim)))) m0 idx
      = dict m0 (stencilEntries lmin idx)
  | [], m0, _, _ => rfl
  | gl :: idx, m0, h, hl => by
    simp only [List.foldl_cons]
    rw [gen_stencil_loop lmin dim gl (hl gl (by simp))]
    have hcp : ∀ x, Gen.get_cross_product x = product x := fun _ => rfl
    rw [hcp, product_stencils, gen_dict_inner gl _ m0 h]
    have hnd := (dict_spec (fun _ => true) ((stencils lmin gl).map fun st => (List.zipWith (· + ·) gl st, updCoeff st)) m0 h).1
    rw [gen_dict_loop lmin dim idx _ hnd (fun l hl' => hl l (by simp [hl']))]
    simp only [stencilEntries, List.flatMap_cons, dict_append]

theorem gen_updCoeff (s : LV) :
    (-(PyRt.mod (PyRt.abs (PyRt.sum s)) 2)) + PyRt.mod (PyRt.abs (PyRt.sum s - 1)) 2 = updCoeff s := by
  simp only [mod_abs_two, updCoeff, PyRt.sum]

/-- **`get_coefficients_to_index_set`** agrees with the hand model's `coeffsOf` for every index set of `dim`-vectors -/
theorem gen_coefficients (g : Gen.CombiScheme) (idx : List LV) (h : ∀ l ∈ idx, l.length = g.dim.toNat) :
    Gen.get_coefficients_to_index_set g idx = (coeffsOf g.lmin idx).map mkCGI := by
  unfold Gen.get_coefficients_to_index_set
  simp only [gen_updCoeff]
  have key := gen_dict_loop g.lmin g.dim idx [] (by simp [keys]) h
  simp only [dstep] at key
  rw [key]
  rw [foldl_append_filterMap (fun it : LV × Int => it.2 != 0)
    (fun it : LV × Int => ({ levelvector := it.1, coefficient := ((it.2 : Int) : Rat) } : ComponentGridInfo))]
  rfl

/-- adaptive branch of `getCombiScheme` (the parameters `lmin`, `lmax`, `do_print` are not used there) -/
theorem gen_getCombiScheme_adaptive (g : Gen.CombiScheme) (lmin lmax : Int) (p : Bool) (hi : g.initialized_adaptive = true)
    (h : ∀ l ∈ setUnion g.active_index_set g.old_index_set, l.length = g.dim.toNat) :
    Gen.getCombiScheme g lmin lmax p = (coeffsOf g.lmin (setUnion g.active_index_set g.old_index_set)).map mkCGI := by
  unfold Gen.getCombiScheme
  simp only [hi, Bool.not_true, Bool.false_eq_true, if_false]
  exact gen_coefficients g _ h

end SparseSpace
