import SparseSpace.Generated.CombiGen
import SparseSpace.Lemmas.CombiGenRt
import SparseSpace.Lemmas.CombiInv
/-!
# Translator tie, part 1: the definitions generated from `combiScheme.py` agree with the hand model `Model/Combi`

For ALL inputs (hypotheses, where needed, are stated explicitly): `getGrids`, `init_active_index_set`,
`init_old_index_set`, `init_adaptive_combi_scheme`, `is_refinable`, `__refine_scheme`, `update_adaptive_combi`,
`has_forward_neighbour`, `get_index_set`, `in_index_set`, `is_old_index`.
-/
namespace SparseSpace
open SparseSpace.PyRt

/-! ### states -/

/-- the hand-model state seen in a generated state record (`dim` is a Python `int`) -/
def toCS (g : Gen.CombiScheme) : CS :=
  { dim := g.dim.toNat, lmin := g.lmin, lmax := g.lmax, lmaxAd := g.lmax_adaptive,
    active := g.active_index_set, old := g.old_index_set }

/-- the generated state record with the fields of a hand-model state written back (`dim` and the flag stay) -/
def withCS (g : Gen.CombiScheme) (s : CS) : Gen.CombiScheme :=
  { g with lmin := s.lmin, lmax := s.lmax, lmax_adaptive := s.lmaxAd, active_index_set := s.active, old_index_set := s.old }

@[simp] theorem withCS_toCS (g : Gen.CombiScheme) : withCS g (toCS g) = g := rfl

@[simp] theorem toCS_withCS (g : Gen.CombiScheme) (s : CS) (h : s.dim = g.dim.toNat) : toCS (withCS g s) = s := by
  cases s; simp only [toCS, withCS] at *; subst h; rfl

@[simp] theorem withCS_withCS (g : Gen.CombiScheme) (s t : CS) : withCS (withCS g s) t = withCS g t := rfl

@[simp] theorem withCS_dim (g : Gen.CombiScheme) (s : CS) : (withCS g s).dim = g.dim := rfl

/-! ### `getGrids` -/

/-- the fuel never runs out when it is at least `dim_left` (termination argument of the generated recursion):
the generated recursion then computes the structurally recursive hand definition -/
theorem gen_getGrids_fuel : ∀ (fuel : Nat) (d v : Int), d.toNat ≤ fuel →
    Gen.getGrids.fuel fuel d v = getGrids d.toNat v
  | 0, d, v, h => by
    have : d.toNat = 0 := by omega
    rw [this]; rfl
  | fuel + 1, d, v, h => by
    unfold Gen.getGrids.fuel
    by_cases h1 : d = 1
    · subst h1; simp [getGrids]
    · have hne : (d == (1 : Int)) = false := by simpa using h1
      simp only [hne, Bool.false_eq_true, if_false]
      have ih : ∀ index : Int, Gen.getGrids.fuel fuel (d - 1) (v - index) = getGrids (d - 1).toNat (v - index) :=
        fun index => gen_getGrids_fuel fuel (d - 1) (v - index) (by omega)
      simp only [ih]
      rw [foldl_append_flatMap (fun index : Int => List.map (fun g => [index + 1] ++ g) (getGrids (d - 1).toNat (v - index)))]
      by_cases h2 : d ≤ 0
      · have e1 : (d - 1).toNat = 0 := by omega
        have e2 : d.toNat = 0 := by omega
        simp [e1, e2, getGrids]
      · obtain ⟨n, hn⟩ : ∃ n : Nat, d.toNat = n + 2 := ⟨d.toNat - 2, by omega⟩
        have e1 : (d - 1).toNat = n + 1 := by omega
        rw [hn, e1, getGrids, range_eq, List.flatMap_map]
        simp

theorem gen_getGrids (d v : Int) : Gen.getGrids d v = getGrids d.toNat v :=
  gen_getGrids_fuel _ d v (by omega)

/-- more fuel does not change the result (the value of the fuel expression chosen by the translator is irrelevant) -/
theorem gen_getGrids_fuel_irrelevant (fuel : Nat) (d v : Int) (h : d.toNat ≤ fuel) :
    Gen.getGrids.fuel fuel d v = Gen.getGrids d v := by
  rw [gen_getGrids_fuel fuel d v h, gen_getGrids]

/-! ### initial index sets -/

theorem setOfList_eq_dedup (l : List LV) : setOfList l = dedup l := rfl

theorem gen_init_active (lmax lmin dim : Int) :
    Gen.init_active_index_set lmax lmin dim = initActive lmax lmin dim.toNat := by
  simp only [Gen.init_active_index_set, gen_getGrids, setOfList_eq_dedup, initActive, shiftGrids]

theorem gen_init_old (lmax lmin dim : Int) :
    Gen.init_old_index_set lmax lmin dim = initOld lmax lmin dim.toNat := by
  simp only [Gen.init_old_index_set, gen_getGrids, setOfList_eq_dedup, initOld, shiftGrids]
  rw [foldl_append_flatMap (fun q : Int => List.map (fun g => List.map (fun l => l + (lmin - 1)) g)
      (getGrids dim.toNat (lmax - lmin + 1 - q)))]
  simp only [range2, List.nil_append, List.flatMap_map]
  have e : (lmax - lmin + 1 - 1).toNat = (lmax - lmin).toNat := by congr 1; omega
  rw [e]
  have : ∀ q' : Nat, (1 : Int) + Int.ofNat q' = (q' : Int) + 1 := fun q' => by simp [Int.add_comm]
  simp only [this]

theorem gen_init_adaptive (g : Gen.CombiScheme) (lmax lmin : Int) :
    Gen.init_adaptive_combi_scheme g lmax lmin
      = { withCS g (CS.init g.dim.toNat lmax lmin) with initialized_adaptive := true } := by
  simp only [Gen.init_adaptive_combi_scheme, gen_init_active, gen_init_old, withCS, CS.init]

theorem toCS_init_adaptive (g : Gen.CombiScheme) (lmax lmin : Int) :
    toCS (Gen.init_adaptive_combi_scheme g lmax lmin) = CS.init g.dim.toNat lmax lmin := by
  rw [gen_init_adaptive]; rfl

theorem gen_ctor (dim : Int) : (Gen.__init__ dim).dim = dim ∧ (Gen.__init__ dim).initialized_adaptive = false
    ∧ (Gen.__init__ dim).active_index_set = [] ∧ (Gen.__init__ dim).old_index_set = [] := ⟨rfl, rfl, rfl, rfl⟩

/-! ### queries -/

theorem gen_is_refinable (g : Gen.CombiScheme) (lv : LV) :
    Gen.is_refinable g lv = (toCS g).active.contains lv := rfl

theorem gen_is_old_index (g : Gen.CombiScheme) (lv : LV) : Gen.is_old_index g lv = (toCS g).old.contains lv := rfl

theorem gen_in_index_set (g : Gen.CombiScheme) (lv : LV) :
    Gen.in_index_set g lv = ((toCS g).active.contains lv || (toCS g).old.contains lv) := rfl

theorem gen_get_index_set (g : Gen.CombiScheme) : Gen.get_index_set g = (toCS g).indexSet := rfl

theorem gen_get_active_indices (g : Gen.CombiScheme) : Gen.get_active_indices g = (toCS g).active := rfl

/-- `has_forward_neighbour`: some forward neighbour within the first `dim` directions is active or old -/
theorem gen_has_forward_neighbour (g : Gen.CombiScheme) (lv : LV) :
    Gen.has_forward_neighbour g lv
      = (List.range g.dim.toNat).any fun k => g.active_index_set.contains (bump lv k 1) || g.old_index_set.contains (bump lv k 1) := by
  unfold Gen.has_forward_neighbour
  rw [forLoop_any (fun d : Int => List.contains g.active_index_set (setItem lv d (getItem lv d + 1))
      || List.contains g.old_index_set (setItem lv d (getItem lv d + 1))) true, range_eq, List.any_map]
  have e : ((fun d : Int => List.contains g.active_index_set (setItem lv d (getItem lv d + 1))
      || List.contains g.old_index_set (setItem lv d (getItem lv d + 1))) ∘ Int.ofNat)
      = fun k : Nat => g.active_index_set.contains (bump lv k 1) || g.old_index_set.contains (bump lv k 1) := by
    funext k
    simp only [Function.comp, setItem_getItem_bump]
  rw [e]
  generalize (List.range g.dim.toNat).any _ = b
  cases b <;> rfl

/-! ### `__refine_scheme` -/

theorem gen_refine_scheme (g : Gen.CombiScheme) (k : Nat) (lv : LV) :
    Gen.__refine_scheme g (Int.ofNat k) lv
      = (withCS g ((toCS g).refineScheme k lv).1, ((toCS g).refineScheme k lv).2) := by
  unfold Gen.__refine_scheme
  simp only [setItem_getItem_bump]
  simp only [getItem_ofNat]
  rw [forLoop_any (fun dim : Int => (!List.contains g.old_index_set (setItem (bump lv k 1) dim (getItem (bump lv k 1) dim - 1)))
      && !decide (getItem (setItem (bump lv k 1) dim (getItem (bump lv k 1) dim - 1)) dim < g.lmin)) (g, false),
    range_eq, List.any_map]
  have e : ((fun dim : Int => (!List.contains g.old_index_set (setItem (bump lv k 1) dim (getItem (bump lv k 1) dim - 1)))
      && !decide (getItem (setItem (bump lv k 1) dim (getItem (bump lv k 1) dim - 1)) dim < g.lmin)) ∘ Int.ofNat)
      = fun j : Nat => (!List.contains g.old_index_set (bump (bump lv k 1) j (-1)))
          && !decide ((bump (bump lv k 1) j (-1)).getD j 0 < g.lmin) := by
    funext j
    have : ∀ x : Int, x - 1 = x + (-1) := fun x => by omega
    simp only [Function.comp, this, getItem_ofNat, setItem_getD_bump]
  rw [e]
  have hadm : (toCS g).admissible (bump lv k 1)
      = !(List.range g.dim.toNat).any fun j : Nat => (!List.contains g.old_index_set (bump (bump lv k 1) j (-1)))
          && !decide ((bump (bump lv k 1) j (-1)).getD j 0 < g.lmin) := by
    simp only [CS.admissible, toCS, List.all_eq_not_any_not, Bool.not_not]
    rfl
  unfold CS.refineScheme
  simp only [hadm]
  cases hc : (List.range g.dim.toNat).any fun j : Nat => (!List.contains g.old_index_set (bump (bump lv k 1) j (-1)))
          && !decide ((bump (bump lv k 1) j (-1)).getD j 0 < g.lmin)
  · simp [withCS, toCS, setAdd]
  · simp [withCS, toCS]

theorem refineScheme_dim (s : CS) (d : Nat) (lv : LV) : (s.refineScheme d lv).1.dim = s.dim :=
  (refineScheme_fields s d lv).1

/-! ### `update_adaptive_combi` -/

/-- the loop over the dimensions, in lock-step with the hand model's `refineDims` fold -/
theorem gen_refine_loop (lv : LV) : ∀ (ds : List Nat) (g : Gen.CombiScheme) (acc : List Nat),
    List.foldl (fun (st : Gen.CombiScheme × List Int) (d : Int) =>
        if (Gen.__refine_scheme st.1 d lv).2 = true then ((Gen.__refine_scheme st.1 d lv).1, st.2 ++ [d])
        else ((Gen.__refine_scheme st.1 d lv).1, st.2)) (g, acc.map Int.ofNat) (ds.map Int.ofNat)
      = (withCS g (List.foldl (fun (a : CS × List Nat) d =>
            ((a.1.refineScheme d lv).1, if (a.1.refineScheme d lv).2 then a.2 ++ [d] else a.2)) (toCS g, acc) ds).1,
         (List.foldl (fun (a : CS × List Nat) d =>
            ((a.1.refineScheme d lv).1, if (a.1.refineScheme d lv).2 then a.2 ++ [d] else a.2)) (toCS g, acc) ds).2.map Int.ofNat)
  | [], g, acc => by simp
  | d :: ds, g, acc => by
    simp only [List.map_cons, List.foldl_cons, gen_refine_scheme]
    have hdim : ((toCS g).refineScheme d lv).1.dim = g.dim.toNat := refineScheme_dim _ _ _
    cases hb : ((toCS g).refineScheme d lv).2
    · have := gen_refine_loop lv ds (withCS g ((toCS g).refineScheme d lv).1) acc
      simp only [toCS_withCS _ _ hdim, withCS_withCS] at this
      simpa using this
    · have := gen_refine_loop lv ds (withCS g ((toCS g).refineScheme d lv).1) (acc ++ [d])
      simp only [toCS_withCS _ _ hdim, withCS_withCS, List.map_append, List.map_cons, List.map_nil] at this
      simpa using this

/-- **`update_adaptive_combi`**: new state and return value agree with the hand model for every state and every
level vector (any length, any entries) -/
theorem gen_update (g : Gen.CombiScheme) (lv : LV) :
    Gen.update_adaptive_combi g lv
      = (withCS g ((toCS g).update lv).1, ((toCS g).update lv).2.map (·.map Int.ofNat)) := by
  unfold Gen.update_adaptive_combi CS.update
  rw [gen_is_refinable]
  cases hc : (toCS g).active.contains lv
  · simp
  · simp only [Bool.not_true, Bool.false_eq_true, if_false, CS.refineDims]
    have h := gen_refine_loop lv (List.range g.dim.toNat)
      { g with active_index_set := setRemove g.active_index_set lv, old_index_set := setAdd g.old_index_set lv } []
    simp only [List.map_nil] at h
    rw [range_eq]
    refine Eq.trans (congrArg (fun p : Gen.CombiScheme × List Int => (p.1, some p.2)) h) ?_
    simp only [toCS, withCS, setRemove, setAdd, Option.map_some]
    rfl

end SparseSpace
