import SparseSpace.Model.UQ
import Mathlib.Tactic.Ring
import Mathlib.Tactic.Linarith
import Mathlib.Tactic.FieldSimp
import Mathlib.Tactic.NormNum.Basic
import Mathlib.Algebra.Order.Field.Rat
import Mathlib.Algebra.Order.Field.Basic
import Mathlib.Algebra.BigOperators.Group.List.Basic
import Mathlib.Algebra.Order.BigOperators.Group.List
/-! Helper lemmas for C15 (weights of the weighted trapezoidal rule). -/
namespace SparseSpace.UQ

/-! ### hypotheses on the distribution's moments -/

/-- the mean of an interval lies in it (finite interval), mass is non-negative (infinite interval) -/
def SegOK (x1 : Ext) (s : Seg) : Prop :=
  match x1, s.x with
  | .fin a, .fin b => a < b ∧ a * s.m0 ≤ s.m1 ∧ s.m1 ≤ b * s.m0
  | _, _ => 0 ≤ s.m0

/-- bracketing hypothesis for every interval of the grid `x1 :: segs.map (·.x)` -/
def Bracket (x1 : Ext) : List Seg → Prop
  | [] => True
  | s :: ss => SegOK x1 s ∧ Bracket s.x ss

/-- strictly increasing finite grid `x1 :: xs` -/
def Incr (x1 : Rat) : List Rat → Prop
  | [] => True
  | x2 :: xs => x1 < x2 ∧ Incr x2 xs

/-! ### sum of the raw weights -/

theorem accW_sum (c : Rat) (x1 : Ext) (segs : List Seg) :
    (accW c x1 segs).sum = c + (segs.map (·.m0)).sum := by
  induction segs generalizing c x1 with
  | nil => simp [accW]
  | cons s ss ih =>
    simp only [accW, List.sum_cons, List.map_cons, ih]
    ring

theorem accW_length (c : Rat) (x1 : Ext) (segs : List Seg) : (accW c x1 segs).length = segs.length + 1 := by
  induction segs generalizing c x1 with
  | nil => simp [accW]
  | cons s ss ih => simp [accW, ih]

/-! ### non-negativity under bracketing -/

theorem segOK_w2 (x1 : Ext) (s : Seg) (h : SegOK x1 s) :
    0 ≤ w2 x1 s.x s.m0 s.m1 ∧ 0 ≤ s.m0 - w2 x1 s.x s.m0 s.m1 := by
  unfold SegOK at h
  unfold w2
  cases hx1 : x1 <;> cases hx2 : s.x <;> simp only [hx1, hx2] at h ⊢
  all_goals try (constructor <;> linarith)
  -- finite–finite
  rename_i a b
  obtain ⟨hab, hlo, hhi⟩ := h
  have hpos : 0 < b - a := by linarith
  constructor
  · apply div_nonneg <;> linarith
  · have : s.m0 - (s.m1 - s.m0 * a) / (b - a) = (b * s.m0 - s.m1) / (b - a) := by
      field_simp
      ring
    rw [this]
    apply div_nonneg <;> linarith

theorem accW_nonneg (c : Rat) (hc : 0 ≤ c) (x1 : Ext) (segs : List Seg) (h : Bracket x1 segs) :
    ∀ w ∈ accW c x1 segs, 0 ≤ w := by
  induction segs generalizing c x1 with
  | nil => intro w hw; simp [accW] at hw; rw [hw]; exact hc
  | cons s ss ih =>
    obtain ⟨hs, hss⟩ := h
    obtain ⟨h2, h1⟩ := segOK_w2 x1 s hs
    intro w hw
    simp only [accW, List.mem_cons] at hw
    rcases hw with rfl | hw
    · linarith
    · exact ih _ h2 _ hss w hw

/-! ### clipping -/

theorem clip_of_nonneg (w : Rat) (h : 0 ≤ w) : clip w = .ok w := by
  unfold clip; simp [h]

theorem clip_ok_nonneg (w c : Rat) (h : clip w = .ok c) : 0 ≤ c := by
  unfold clip at h
  split at h
  · injection h with h; rw [← h]; assumption
  · split at h
    · injection h with h; rw [← h]
    · cases h

theorem clipAll_of_nonneg (ws : List Rat) (h : ∀ w ∈ ws, 0 ≤ w) : clipAll ws = .ok ws := by
  induction ws with
  | nil => rfl
  | cons w ws ih =>
    have hw : 0 ≤ w := h w (by simp)
    have hws : ∀ v ∈ ws, 0 ≤ v := fun v hv => h v (by simp [hv])
    simp [clipAll, clip_of_nonneg w hw, ih hws]

theorem clipAll_ok_nonneg (ws cs : List Rat) (h : clipAll ws = .ok cs) : ∀ c ∈ cs, 0 ≤ c := by
  induction ws generalizing cs with
  | nil => simp [clipAll] at h; subst h; simp
  | cons w ws ih =>
    unfold clipAll at h
    cases hc : clip w with
    | error e => simp [hc] at h
    | ok c0 =>
      cases hr : clipAll ws with
      | error e => simp [hc, hr] at h
      | ok cs0 =>
        simp [hc, hr] at h
        subst h
        intro c hcm
        simp only [List.mem_cons] at hcm
        rcases hcm with rfl | hcm
        · exact clip_ok_nonneg w _ hc
        · exact ih cs0 hr c hcm

theorem sum_map_mul_left' (a : Rat) (l : List Rat) : (l.map (fun x => a * x)).sum = a * l.sum := by
  induction l with
  | nil => simp
  | cons x l ih => simp only [List.map_cons, List.sum_cons, ih]; ring

/-! ### renormalisation without boundary -/

theorem interior_subset (w : List Rat) : ∀ x ∈ interior w, x ∈ w := by
  intro x hx
  unfold interior at hx
  exact List.mem_of_mem_drop (List.dropLast_subset _ hx)

theorem renorm_ok (w r : List Rat) (hw : ∀ x ∈ w, 0 ≤ x) (h : renorm w = .ok r) :
    (∀ x ∈ r, 0 ≤ x) ∧ r.sum = 1 := by
  unfold renorm at h
  simp only at h
  split at h
  · cases h
  · rename_i hs
    injection h with h
    subst h
    have hint : ∀ x ∈ interior w, 0 ≤ x := fun x hx => hw x (interior_subset w x hx)
    have hs0 : 0 ≤ (interior w).sum := List.sum_nonneg hint
    have hspos : 0 < (interior w).sum := lt_of_le_of_ne hs0 (Ne.symm hs)
    constructor
    · intro x hx
      simp only [List.cons_append, List.mem_cons, List.mem_append, List.mem_map,
        List.not_mem_nil, or_false] at hx
      rcases hx with rfl | ⟨v, hv, rfl⟩ | rfl
      · exact le_refl _
      · exact mul_nonneg (le_of_lt (div_pos one_pos hspos)) (hint v hv)
      · exact le_refl _
    · simp only [List.cons_append, List.sum_cons, List.sum_append, List.sum_nil, zero_add, add_zero,
        sum_map_mul_left']
      field_simp

/-! ### uniform distribution -/

theorem clamp_id (a b x : Rat) (h1 : a ≤ x) (h2 : x ≤ b) : clamp a b x = x := by
  unfold clamp
  rw [min_eq_left h2, max_eq_right h1]

theorem accW_uniform (a b : Rat) (hab : a < b) (c x1 : Rat) (xs : List Rat)
    (hinc : Incr x1 xs) (hlo : a ≤ x1) (hx1 : x1 ≤ b) (hhi : ∀ x ∈ xs, x ≤ b) :
    accW c (.fin x1) (uniSegs a b x1 xs) = (trapAcc (c * (b - a)) x1 xs).map (· / (b - a)) := by
  have hL : b - a ≠ 0 := by intro h; linarith
  induction xs generalizing c x1 with
  | nil =>
    simp only [uniSegs, accW, trapAcc, List.map_cons, List.map_nil]
    congr 1
    field_simp
  | cons x2 xs ih =>
    obtain ⟨h12, hinc'⟩ := hinc
    have hx2b : x2 ≤ b := hhi x2 (by simp)
    have hax2 : a ≤ x2 := by linarith
    have hd : x2 - x1 ≠ 0 := by intro h; linarith
    have hw2 : w2 (.fin x1) (.fin x2) (uniM0 a b x1 x2) (uniM1 a b x1 x2) = ((x2 - x1) / 2) / (b - a) := by
      simp only [w2, uniM0, uniM1, clamp_id a b x1 hlo hx1, clamp_id a b x2 hax2 hx2b]
      field_simp
      ring
    simp only [uniSegs, accW, trapAcc, List.map_cons, hw2]
    rw [ih _ x2 hinc' hax2 hx2b (fun x hx => hhi x (by simp [hx]))]
    congr 1
    · simp only [uniM0, clamp_id a b x1 hlo hx1, clamp_id a b x2 hax2 hx2b]
      field_simp
      ring
    · congr 2
      field_simp

/-! ### uniform distribution without boundary -/

theorem uniSegs_length (a b x1 : Rat) (xs : List Rat) : (uniSegs a b x1 xs).length = xs.length := by
  induction xs generalizing x1 with
  | nil => rfl
  | cons x2 xs ih => simp [uniSegs, ih]

theorem trapAcc_nonneg (c : Rat) (hc : 0 ≤ c) (x1 : Rat) (xs : List Rat) (h : Incr x1 xs) :
    ∀ w ∈ trapAcc c x1 xs, 0 ≤ w := by
  induction xs generalizing c x1 with
  | nil => intro w hw; simp [trapAcc] at hw; rw [hw]; exact hc
  | cons x2 xs ih =>
    obtain ⟨h12, hinc⟩ := h
    intro w hw
    simp only [trapAcc, List.mem_cons] at hw
    rcases hw with rfl | hw
    · linarith
    · exact ih _ (by linarith) x2 hinc w hw

theorem interior_map (f : Rat → Rat) (l : List Rat) : interior (l.map f) = (interior l).map f := by
  unfold interior
  rw [← List.map_drop, ← List.map_dropLast]

theorem sum_map_div (L : Rat) (l : List Rat) : (l.map (· / L)).sum = l.sum / L := by
  induction l with
  | nil => simp
  | cons x l ih => simp only [List.map_cons, List.sum_cons, ih]; ring

/-! ### extended order -/

theorem Ext.lt_total (x y : Ext) : x.lt y = true ∨ x = y ∨ y.lt x = true := by
  cases x <;> cases y <;> simp [Ext.lt]
  rename_i a b
  rcases lt_trichotomy a b with h | h | h
  · exact Or.inl h
  · exact Or.inr (Or.inl h)
  · exact Or.inr (Or.inr h)

theorem eps14_pos : 0 < eps14 := by unfold eps14; norm_num

/-! ### moments -/

theorem E_affine (c e : Rat) (r : Rule) : E (affine c e r) = c * E r + e * wsum r := by
  induction r with
  | nil => simp [E, affine, wsum]
  | cons p r ih =>
    simp only [E, affine, wsum, List.map_cons, List.sum_cons, List.map_map] at ih ⊢
    rw [ih]; ring

theorem E2_affine (c e : Rat) (r : Rule) :
    E2 (affine c e r) = c * c * E2 r + 2 * c * e * E r + e * e * wsum r := by
  induction r with
  | nil => simp [E, E2, affine, wsum]
  | cons p r ih =>
    simp only [E, E2, affine, wsum, List.map_cons, List.sum_cons, List.map_map] at ih ⊢
    rw [ih]; ring

theorem E_const (k : Rat) (r : Rule) : E (constRule k r) = k * wsum r := by
  induction r with
  | nil => simp [E, constRule, wsum]
  | cons p r ih =>
    simp only [E, constRule, wsum, List.map_cons, List.sum_cons, List.map_map] at ih ⊢
    rw [ih]; ring

theorem E2_const (k : Rat) (r : Rule) : E2 (constRule k r) = k * k * wsum r := by
  induction r with
  | nil => simp [E2, constRule, wsum]
  | cons p r ih =>
    simp only [E2, constRule, wsum, List.map_cons, List.sum_cons, List.map_map] at ih ⊢
    rw [ih]; ring

theorem flipNeg_eq_abs (v : Rat) : flipNeg v = |v| := by
  unfold flipNeg
  split
  · rename_i h; rw [abs_of_neg h]
  · rename_i h; rw [abs_of_nonneg (le_of_not_gt h)]

theorem flipNeg_nonneg (v : Rat) : 0 ≤ flipNeg v := by
  rw [flipNeg_eq_abs]; exact abs_nonneg v

theorem flipNeg_mul_sq (c v : Rat) : flipNeg (c * c * v) = c * c * flipNeg v := by
  rw [flipNeg_eq_abs, flipNeg_eq_abs, abs_mul, abs_of_nonneg (mul_self_nonneg c)]

theorem E2_nonneg (r : Rule) (h : ∀ p ∈ r, 0 ≤ p.1) : 0 ≤ E2 r := by
  unfold E2
  apply List.sum_nonneg
  intro x hx
  simp only [List.mem_map] at hx
  obtain ⟨p, hp, rfl⟩ := hx
  exact mul_nonneg (h p hp) (mul_self_nonneg p.2)

theorem affine_weights (c e : Rat) (r : Rule) : (affine c e r).map (·.1) = r.map (·.1) := by
  simp [affine, List.map_map, Function.comp_def]

/-- `Σ W (f − μ)² = E2 − 2μE + μ²S` -/
theorem rawVar_nonneg (r : Rule) (h : ∀ p ∈ r, 0 ≤ p.1) (hs : wsum r = 1) : 0 ≤ E2 r - E r * E r := by
  have h1 := E2_affine 1 (-(E r)) r
  have h2 : 0 ≤ E2 (affine 1 (-(E r)) r) := by
    apply E2_nonneg
    intro p hp
    simp only [affine, List.mem_map] at hp
    obtain ⟨q, hq, rfl⟩ := hp
    exact h q hq
  rw [h1, hs] at h2
  linarith

theorem zipWith_map_map {α : Type} (g : Rat → Rat → Rat) (f1 f2 : α → Rat) (l : List α) :
    List.zipWith g (l.map f1) (l.map f2) = l.map (fun c => g (f1 c) (f2 c)) := by
  induction l with
  | nil => rfl
  | cons a l ih => simp [ih]

theorem calcExpVar_integralVec (W : List Rat) (cols : List (List Rat)) :
    calcExpVar (integralVec W cols) =
      (cols.map (fun c => E (W.zip c)), cols.map (fun c => Var (W.zip c))) := by
  unfold calcExpVar integralVec
  have hlen : (List.map (fun c => E (W.zip c)) cols ++ List.map (fun c => E2 (W.zip c)) cols).length / 2
      = (List.map (fun c => E (W.zip c)) cols).length := by
    simp only [List.length_append, List.length_map]
    omega
  simp only [hlen]
  rw [List.take_left', List.drop_left']
  · unfold momentsToExpVar
    rw [zipWith_map_map]
    rfl
  · rfl
  · rfl

theorem wsum_zip (W f : List Rat) (h : W.length = f.length) : wsum (W.zip f) = W.sum := by
  unfold wsum
  rw [List.map_fst_zip (by omega)]

/-! ### product and combination -/

theorem tensorW_sum (ws : List (List Rat)) : (tensorW ws).sum = (ws.map List.sum).prod := by
  induction ws with
  | nil => simp [tensorW]
  | cons w ws ih =>
    simp only [tensorW, List.map_cons, List.prod_cons]
    rw [← ih]
    generalize tensorW ws = T
    induction w with
    | nil => simp
    | cons x w ihw =>
      simp only [List.flatMap_cons, List.sum_append, List.sum_cons, ihw, sum_map_mul_left']
      ring

theorem combineW_sum (comps : List (Rat × List Rat)) :
    (combineW comps).sum = (comps.map fun p => p.1 * p.2.sum).sum := by
  unfold combineW
  induction comps with
  | nil => simp
  | cons p comps ih =>
    simp only [List.flatMap_cons, List.sum_append, List.map_cons, List.sum_cons, ih, sum_map_mul_left']

/-! ### `_prepare_distributions` -/

theorem firstIdx_get {α : Type} [DecidableEq α] (a : α) (l : List α) (h : a ∈ l) :
    l[firstIdx a l]? = some a := by
  induction l with
  | nil => cases h
  | cons t ts ih =>
    unfold firstIdx
    by_cases ht : t = a
    · simp [ht]
    · have hts : a ∈ ts := by
        cases h with
        | head => exact absurd rfl ht
        | tail _ h => exact h
      simp [ht, ih hts]

theorem keyOf_eq (s s' : Spec) (dom dom' : Rat × Rat) (h : keyOf s dom = keyOf s' dom') :
    s = s' ∧ ((∀ mu sg, s ≠ .normal mu sg) → dom = dom') := by
  cases s <;> cases s' <;> simp [keyOf] at h ⊢
  · exact h
  · exact h
  · exact h

end SparseSpace.UQ
