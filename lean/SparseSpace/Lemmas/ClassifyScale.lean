import SparseSpace.Model.Classify
import Mathlib.Algebra.Order.Field.Rat
import Mathlib.Algebra.Order.Field.Basic
import Mathlib.Tactic.Linarith
import Mathlib.Tactic.Ring
import Mathlib.Tactic.FieldSimp
/-!
Lemmas for C19, part 2: the affine learning scaling and the removal thresholds (field algebra over ℚ).
-/
namespace SparseSpace.Classify

/-- the scaler's form `x * scale_ + min_` and the form `(x - lo) * f + 0.005` used for later data are the same map -/
theorem sklCoord_eq_scaleCoord (a : Axis) (x : Rat) : sklCoord a x = scaleCoord a x := by
  unfold sklCoord scaleCoord; ring

theorem sklPt_eq_scalePt (sc : Scaling) (x : Pt) : sklPt sc x = scalePt sc x := by
  unfold sklPt scalePt
  induction sc generalizing x with
  | nil => simp
  | cons a sc ih =>
    cases x with
    | nil => simp
    | cons v x => simp [sklCoord_eq_scaleCoord, ih]

/-- an axis whose factor is `0.99 / (hi - lo)` with `lo < hi` (fitted non-degenerate, or user range) -/
def Axis.Regular (a : Axis) : Prop := a.lo < a.hi ∧ a.f = targetWidth / (a.hi - a.lo)

theorem scaleCoord_mul_width (a : Axis) (h : a.Regular) (x : Rat) :
    (scaleCoord a x - loTarget) * (a.hi - a.lo) = (x - a.lo) * targetWidth := by
  obtain ⟨hw, hf⟩ := h
  have hne : a.hi - a.lo ≠ 0 := by linarith
  unfold scaleCoord
  rw [hf]
  field_simp
  ring

theorem scaleCoord_lo (a : Axis) : scaleCoord a a.lo = loTarget := by
  unfold scaleCoord; simp

theorem scaleCoord_hi (a : Axis) (h : a.Regular) : scaleCoord a a.hi = hiTarget := by
  obtain ⟨hw, hf⟩ := h
  have hne : a.hi - a.lo ≠ 0 := by linarith
  unfold scaleCoord
  rw [hf]
  unfold targetWidth loTarget hiTarget
  field_simp
  norm_num

/-- removal at the lower threshold, in original coordinates: more than `(hi - lo) / 9900` below `lo` -/
theorem scaleCoord_lt_thrLo_iff (a : Axis) (h : a.Regular) (x : Rat) :
    scaleCoord a x < thrLo ↔ x < a.lo - (a.hi - a.lo) / 9900 := by
  have hw : 0 < a.hi - a.lo := by linarith [h.1]
  have e := scaleCoord_mul_width a h x
  unfold targetWidth loTarget at e
  unfold thrLo
  constructor
  · intro hlt
    have : (scaleCoord a x - 1/200) * (a.hi - a.lo) < (49/10000 - 1/200) * (a.hi - a.lo) :=
      mul_lt_mul_of_pos_right (by linarith) hw
    rw [e] at this
    linarith
  · intro hlt
    by_contra hn
    have hn' : (49:Rat)/10000 ≤ scaleCoord a x := not_lt.mp hn
    have : (49/10000 - 1/200) * (a.hi - a.lo) ≤ (scaleCoord a x - 1/200) * (a.hi - a.lo) :=
      mul_le_mul_of_nonneg_right (by linarith) hw.le
    rw [e] at this
    linarith

/-- removal at the upper threshold, in original coordinates: more than `(hi - lo) / 9900` above `hi` -/
theorem thrHi_lt_scaleCoord_iff (a : Axis) (h : a.Regular) (x : Rat) :
    thrHi < scaleCoord a x ↔ a.hi + (a.hi - a.lo) / 9900 < x := by
  have hw : 0 < a.hi - a.lo := by linarith [h.1]
  have e := scaleCoord_mul_width a h x
  unfold targetWidth loTarget at e
  unfold thrHi
  constructor
  · intro hlt
    have : (9951/10000 - 1/200) * (a.hi - a.lo) < (scaleCoord a x - 1/200) * (a.hi - a.lo) :=
      mul_lt_mul_of_pos_right (by linarith) hw
    rw [e] at this
    linarith
  · intro hlt
    by_contra hn
    have hn' : scaleCoord a x ≤ (9951:Rat)/10000 := not_lt.mp hn
    have : (scaleCoord a x - 1/200) * (a.hi - a.lo) ≤ (9951/10000 - 1/200) * (a.hi - a.lo) :=
      mul_le_mul_of_nonneg_right (by linarith) hw.le
    rw [e] at this
    linarith

/-- `outOfRange` spelled out -/
theorem outOfRange_iff (y : Pt) : outOfRange y = true ↔ ∃ v ∈ y, v < thrLo ∨ thrHi < v := by
  unfold outOfRange
  simp only [Bool.or_eq_true, List.any_eq_true, decide_eq_true_eq, gt_iff_lt]
  constructor
  · rintro (⟨v, hv, h⟩ | ⟨v, hv, h⟩)
    · exact ⟨v, hv, Or.inl h⟩
    · exact ⟨v, hv, Or.inr h⟩
  · rintro ⟨v, hv, h | h⟩
    · exact Or.inl ⟨v, hv, h⟩
    · exact Or.inr ⟨v, hv, h⟩

theorem mem_scalePt_iff (sc : Scaling) (x : Pt) (v : Rat) :
    v ∈ scalePt sc x ↔ ∃ p ∈ sc.zip x, v = scaleCoord p.1 p.2 := by
  unfold scalePt
  induction sc generalizing x with
  | nil => simp
  | cons a sc ih =>
    cases x with
    | nil => simp
    | cons u x =>
      simp only [List.zipWith_cons_cons, List.mem_cons, List.zip_cons_cons, ih]
      constructor
      · rintro (h | ⟨p, hp, h⟩)
        · exact ⟨(a, u), Or.inl rfl, h⟩
        · exact ⟨p, Or.inr hp, h⟩
      · rintro ⟨p, hp | hp, h⟩
        · subst hp; exact Or.inl h
        · exact Or.inr ⟨p, hp, h⟩

/-- **removed ⇔ out of range, in the coordinates of the data**: under the learning scaling (every axis regular) a
sample is removed iff one of its coordinates lies more than `(hi - lo) / 9900` outside `[lo, hi]` -/
theorem outOfRange_scalePt_iff (sc : Scaling) (hreg : ∀ a ∈ sc, a.Regular) (x : Pt) :
    outOfRange (scalePt sc x) = true ↔
      ∃ p ∈ sc.zip x, p.2 < p.1.lo - (p.1.hi - p.1.lo) / 9900 ∨ p.1.hi + (p.1.hi - p.1.lo) / 9900 < p.2 := by
  rw [outOfRange_iff]
  constructor
  · rintro ⟨v, hv, h⟩
    obtain ⟨p, hp, rfl⟩ := (mem_scalePt_iff sc x v).mp hv
    have hr := hreg p.1 (List.of_mem_zip hp).1
    refine ⟨p, hp, ?_⟩
    rcases h with h | h
    · exact Or.inl ((scaleCoord_lt_thrLo_iff p.1 hr p.2).mp h)
    · exact Or.inr ((thrHi_lt_scaleCoord_iff p.1 hr p.2).mp h)
  · rintro ⟨p, hp, h⟩
    have hr := hreg p.1 (List.of_mem_zip hp).1
    refine ⟨scaleCoord p.1 p.2, (mem_scalePt_iff sc x _).mpr ⟨p, hp, rfl⟩, ?_⟩
    rcases h with h | h
    · exact Or.inl ((scaleCoord_lt_thrLo_iff p.1 hr p.2).mpr h)
    · exact Or.inr ((thrHi_lt_scaleCoord_iff p.1 hr p.2).mpr h)

/-- a sample inside the learned box `[lo, hi]` is never removed (and lands in `[0.005, 0.995]`) -/
theorem inside_box_kept (sc : Scaling) (hreg : ∀ a ∈ sc, a.Regular) (x : Pt)
    (hin : ∀ p ∈ sc.zip x, p.1.lo ≤ p.2 ∧ p.2 ≤ p.1.hi) : outOfRange (scalePt sc x) = false := by
  cases hb : outOfRange (scalePt sc x) with
  | false => rfl
  | true =>
    obtain ⟨p, hp, h⟩ := (outOfRange_scalePt_iff sc hreg x).mp hb
    have hr := hreg p.1 (List.of_mem_zip hp).1
    have hw : 0 < p.1.hi - p.1.lo := by linarith [hr.1]
    have := hin p hp
    have h9 : 0 < (p.1.hi - p.1.lo) / 9900 := div_pos hw (by norm_num)
    rcases h with h | h <;> linarith [this.1, this.2]

end SparseSpace.Classify
