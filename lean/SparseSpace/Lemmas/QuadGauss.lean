import SparseSpace.Lemmas.Quad
import Mathlib.Algebra.Polynomial.Derivative
import Mathlib.Algebra.Polynomial.Degree.Lemmas
import Mathlib.Algebra.Polynomial.Eval.Degree
/-! C08 (extension): affine transport of exactness — the Gauss–Legendre family under the `leggauss` contract. -/
namespace SparseSpace.Quad
open Polynomial

theorem quad_map_map (ξ ω : List ℚ) (φ ψ : ℚ → ℚ) (f : ℚ → ℚ) :
    quad (ξ.map φ) (ω.map ψ) f = (List.zipWith (fun t v => ψ v * f (φ t)) ξ ω).sum := by
  unfold quad
  rw [List.zipWith_map_left, List.zipWith_map_right]

/-- **affine transport**: if a rule `(ξ, ω)` on `[-1,1]` integrates the derivative of every polynomial of degree ≤ m+1
exactly (i.e. it is exact for all polynomials of degree ≤ m, by the fundamental theorem of calculus), then the rule the
code builds on `[s, e]` — nodes `(ξ+1)·(e−s)/2 + s`, weights `ω·(e−s)/2` — does the same on `[s, e]`. -/
theorem gl_affine_transport (ξ ω : List ℚ) (m : ℕ)
    (H : ∀ P : ℚ[X], P.natDegree ≤ m + 1 → quad ξ ω (fun t => (derivative P).eval t) = P.eval 1 - P.eval (-1))
    (s e : ℚ) (P : ℚ[X]) (hP : P.natDegree ≤ m + 1) :
    quad (glPoints ξ s (e - s)) (glWeights ω (e - s)) (fun x => (derivative P).eval x) = P.eval e - P.eval s := by
  set r : ℚ := (e - s) / 2 with hr
  set c : ℚ := s + r with hc
  set L : ℚ[X] := C c + C r * X with hL
  have hdeg : (P.comp L).natDegree ≤ m + 1 := by
    calc (P.comp L).natDegree ≤ P.natDegree * L.natDegree := natDegree_comp_le
      _ ≤ P.natDegree * 1 := by
          apply Nat.mul_le_mul_left
          rw [hL]
          exact (natDegree_add_le _ _).trans (by simp only [natDegree_C, Nat.zero_le, max_eq_right]; exact (natDegree_C_mul_le _ _).trans natDegree_X_le)
      _ ≤ m + 1 := by omega
  have h := H (P.comp L) hdeg
  have hLd : derivative L = C r := by simp [hL]
  rw [derivative_comp, hLd] at h
  unfold glPoints glWeights
  rw [quad_map_map]
  unfold quad at h
  have e1 : P.eval e - P.eval s = (P.comp L).eval 1 - (P.comp L).eval (-1) := by
    simp only [eval_comp, hL, eval_add, eval_C, eval_mul, eval_X]
    congr 2 <;> simp only [hc, hr] <;> ring
  rw [e1, ← h]
  congr 2
  funext t v
  simp only [eval_mul, eval_C, eval_comp, hL, eval_add, eval_X]
  have : (t + 1) * ((e - s) / 2) + s = c + r * t := by simp only [hc, hr]; ring
  rw [this]
  simp only [hr]
  ring


theorem quad_congr (ξ ω : List ℚ) (f g : ℚ → ℚ) (h : ∀ x, f x = g x) : quad ξ ω f = quad ξ ω g := by
  have : f = g := funext h
  rw [this]

/-- consequence for the monomials: the transported rule has the exact moments up to degree `m` -/
theorem gl_moments (ξ ω : List ℚ) (m : ℕ)
    (H : ∀ P : ℚ[X], P.natDegree ≤ m + 1 → quad ξ ω (fun t => (derivative P).eval t) = P.eval 1 - P.eval (-1))
    (s e : ℚ) (k : ℕ) (hk : k ≤ m) :
    quad (glPoints ξ s (e - s)) (glWeights ω (e - s)) (fun x => x ^ k) = (e ^ (k + 1) - s ^ (k + 1)) / (k + 1) := by
  have hk1 : ((k : ℚ) + 1) ≠ 0 := by positivity
  have h := gl_affine_transport ξ ω m H s e (C (1 / ((k : ℚ) + 1)) * X ^ (k + 1))
    ((natDegree_C_mul_le _ _).trans (by rw [natDegree_X_pow]; omega))
  rw [quad_congr _ _ _ (fun x => x ^ k) (fun x => by
    simp only [derivative_mul, derivative_C, zero_mul, zero_add, derivative_X_pow, eval_mul, eval_C, eval_pow, eval_X,
      Nat.add_sub_cancel, Nat.cast_add, Nat.cast_one]
    field_simp)] at h
  rw [h]
  simp only [eval_mul, eval_C, eval_pow, eval_X]
  field_simp


theorem quad_add (ξ ω : List ℚ) (f g : ℚ → ℚ) : quad ξ ω (fun x => f x + g x) = quad ξ ω f + quad ξ ω g := by
  unfold quad
  induction ξ generalizing ω with
  | nil => simp
  | cons x ξ ih =>
    cases ω with
    | nil => simp
    | cons w ω => simp only [List.zipWith_cons_cons, List.sum_cons, ih ω]; ring

theorem quad_smul (ξ ω : List ℚ) (c : ℚ) (f : ℚ → ℚ) : quad ξ ω (fun x => c * f x) = c * quad ξ ω f := by
  unfold quad
  induction ξ generalizing ω with
  | nil => simp
  | cons x ξ ih =>
    cases ω with
    | nil => simp
    | cons w ω => simp only [List.zipWith_cons_cons, List.sum_cons, ih ω]; ring

theorem quad_zero (ξ ω : List ℚ) : quad ξ ω (fun _ => 0) = 0 := by
  have := quad_smul ξ ω 0 (fun _ => 0)
  simpa using this

/-- the usual form of the contract — exact moments `Σ ω_i ξ_i^k = ∫_{-1}^{1} t^k dt` for `k ≤ m` — implies the
derivative form used by `gl_affine_transport` -/
theorem contract_of_moments (ξ ω : List ℚ) (m : ℕ)
    (Hm : ∀ k, k ≤ m → quad ξ ω (fun t => t ^ k) = (1 - (-1) ^ (k + 1)) / (k + 1)) :
    ∀ P : ℚ[X], P.natDegree ≤ m + 1 → quad ξ ω (fun t => (derivative P).eval t) = P.eval 1 - P.eval (-1) := by
  intro P hP
  have key : ∀ n, n ≤ m + 2 → ∀ a : ℕ → ℚ,
      quad ξ ω (fun t => (derivative (∑ i ∈ Finset.range n, Polynomial.monomial i (a i))).eval t)
        = (∑ i ∈ Finset.range n, Polynomial.monomial i (a i)).eval 1 - (∑ i ∈ Finset.range n, Polynomial.monomial i (a i)).eval (-1) := by
    intro n hn a
    induction n with
    | zero => simp [quad_zero]
    | succ n ih =>
      rw [Finset.sum_range_succ]
      simp only [derivative_add, eval_add]
      rw [quad_add, ih (by omega)]
      have hmono : quad ξ ω (fun t => (derivative (Polynomial.monomial n (a n))).eval t)
          = (Polynomial.monomial n (a n)).eval 1 - (Polynomial.monomial n (a n)).eval (-1) := by
        simp only [derivative_monomial, eval_monomial, one_pow, mul_one]
        cases n with
        | zero =>
          simp only [Nat.cast_zero, mul_zero, zero_mul, pow_zero, mul_one, sub_self]
          exact quad_zero ξ ω
        | succ j =>
          rw [quad_smul, Nat.add_sub_cancel, Hm j (by omega)]
          have : ((j : ℚ) + 1) ≠ 0 := by positivity
          push_cast
          field_simp
      rw [hmono]
      ring
  have hsum := P.as_sum_range' (m + 2) (by omega)
  have := key (m + 2) le_rfl P.coeff
  rw [← hsum] at this
  exact this

end SparseSpace.Quad
