import SparseSpace.Lemmas.GramMisc
import SparseSpace.Lemmas.GramCacheB
/-! C16/C17: the small-grid and the large-grid implementations of the right-hand side (and of interpolation) agree. -/
namespace SparseSpace.Gram
open SparseSpace.DCache

/-! ### uniform grids -/

/-- an integer that is neither the floor nor the ceiling of `t` is at distance at least 1 -/
theorem far_from_floor_ceil (t : ℚ) (i : ℤ) (h1 : i ≠ Rat.floor t) (h2 : i ≠ Rat.ceil t) : 1 ≤ |t - i| := by
  have f1 : ((Rat.floor t : ℤ) : ℚ) ≤ t := Rat.floor_le t
  have c1 : t ≤ ((Rat.ceil t : ℤ) : ℚ) := Rat.le_ceil
  rcases lt_or_gt_of_ne h1 with hlt | hgt
  · -- i < floor t
    have : i + 1 ≤ Rat.floor t := hlt
    have : ((i + 1 : ℤ) : ℚ) ≤ (Rat.floor t : ℚ) := by exact_mod_cast this
    push_cast at this
    rw [abs_of_nonneg (by linarith)]
    linarith
  · rcases lt_or_gt_of_ne h2 with hlt2 | hgt2
    · -- floor t < i < ceil t: impossible
      exfalso
      have a : t < ((Rat.floor t + 1 : ℤ) : ℚ) := Rat.lt_floor_add_one t
      have b : ((Rat.ceil t : ℤ) : ℚ) < t + 1 := Rat.ceil_lt
      have : ((Rat.ceil t : ℤ) : ℚ) < ((Rat.floor t + 2 : ℤ) : ℚ) := by push_cast at a ⊢; linarith
      have : Rat.ceil t < Rat.floor t + 2 := by exact_mod_cast this
      omega
    · have : Rat.ceil t + 1 ≤ i := hgt2
      have : ((Rat.ceil t + 1 : ℤ) : ℚ) ≤ (i : ℚ) := by exact_mod_cast this
      push_cast at this
      rw [abs_of_nonpos (by linarith)]
      linarith

theorem near_floor_ceil (t : ℚ) (i : ℤ) (h : i = Rat.floor t ∨ i = Rat.ceil t) : |t - i| ≤ 1 := by
  have f1 : ((Rat.floor t : ℤ) : ℚ) ≤ t := Rat.floor_le t
  have f2 : t < ((Rat.floor t + 1 : ℤ) : ℚ) := Rat.lt_floor_add_one t
  have c1 : t ≤ ((Rat.ceil t : ℤ) : ℚ) := Rat.le_ceil
  have c2 : ((Rat.ceil t : ℤ) : ℚ) < t + 1 := Rat.ceil_lt
  push_cast at f2
  rcases h with rfl | rfl
  · rw [abs_of_nonneg (by linarith)]; linarith
  · rw [abs_of_nonpos (by linarith)]; linarith

theorem mem_hatsInSupport1 (l : ℕ) (x : ℚ) (i : ℤ) :
    i ∈ hatsInSupport1 l x ↔ (i = Rat.floor ((2 : ℚ) ^ l * x) ∨ i = Rat.ceil ((2 : ℚ) ^ l * x)) ∧ 0 < i ∧ i ≤ 2 ^ l - 1 := by
  unfold hatsInSupport1
  simp only
  split_ifs with h
  · simp only [List.mem_filter, List.mem_singleton, Bool.and_eq_true, decide_eq_true_eq]
    rw [← h]; tauto
  · simp only [List.mem_filter, List.mem_cons, List.not_mem_nil, or_false, Bool.and_eq_true, decide_eq_true_eq]

/-- one dimension of the large-grid right-hand side of uniform grids: visiting only `get_hats_in_support` and using the
    unclipped hat gives the clipped hat of the small-grid path, for every index of the grid -/
theorem uniform_support_factor (l : ℕ) (x : ℚ) (i : ℤ) (hi : 0 < i ∧ i ≤ 2 ^ l - 1) :
    (i ∈ hatsInSupport1 l x → hatUin1 l i x = hatU1 l i x) ∧ (i ∉ hatsInSupport1 l x → hatU1 l i x = 0) := by
  constructor
  · intro hm
    exact hatUin1_eq_hatU1 l i x (near_floor_ceil _ i ((mem_hatsInSupport1 l x i).mp hm).1)
  · intro hm
    rw [mem_hatsInSupport1] at hm
    have : ¬ (i = Rat.floor ((2 : ℚ) ^ l * x) ∨ i = Rat.ceil ((2 : ℚ) ^ l * x)) := fun h => hm ⟨h, hi⟩
    push Not at this
    have d := far_from_floor_ceil _ i this.1 this.2
    unfold hatU1
    rw [rmax_eq_max, rabs_eq_abs, max_eq_right (by linarith)]


theorem mem_cross_cons {α : Type} (l : List α) (L : List (List α)) (I : List α) :
    I ∈ cross (l :: L) ↔ ∃ a I', I = a :: I' ∧ a ∈ l ∧ I' ∈ cross L := by
  simp only [cross, List.mem_flatMap, List.mem_map]
  constructor
  · rintro ⟨a, ha, I', hI', rfl⟩; exact ⟨a, I', rfl, ha, hI'⟩
  · rintro ⟨a, I', rfl, ha, hI'⟩; exact ⟨a, ha, I', hI', rfl⟩

theorem zipWith_sum_congr {α β : Type} (f g : α → β → ℚ) : ∀ (xs : List α) (ys : List β),
    (∀ x y, (x, y) ∈ xs.zip ys → f x y = g x y) → (List.zipWith f xs ys).sum = (List.zipWith g xs ys).sum
  | [], _, _ => by simp
  | _ :: _, [], _ => by simp
  | x :: xs, y :: ys, h => by
    simp only [List.zipWith_cons_cons, List.sum_cons]
    rw [h x y (by simp), zipWith_sum_congr f g xs ys (fun x' y' hm => h x' y' (by simp [hm]))]

/-- d-dimensional version of `uniform_support_factor` -/
theorem uniform_support_nd : ∀ (lv : List ℕ) (I : List ℤ) (x : List ℚ), I.length = lv.length → x.length = lv.length →
    (∀ i l, (i, l) ∈ I.zip lv → 0 < i ∧ i ≤ 2 ^ l - 1) →
    (I ∈ cross (List.zipWith hatsInSupport1 lv x) → hatUin lv I x = hatU lv I x) ∧
    (I ∉ cross (List.zipWith hatsInSupport1 lv x) → hatU lv I x = 0)
  | [], [], [], _, _, _ => by simp [cross, hatU, hatUin]
  | l :: lv, i :: I, c :: x, hI, hx, hr => by
    have ih := uniform_support_nd lv I x (by simpa using hI) (by simpa using hx) (fun i' l' hm => hr i' l' (by simp [hm]))
    have f := uniform_support_factor l c i (hr i l (by simp))
    simp only [List.zipWith_cons_cons, hatU, hatUin]
    constructor
    · intro hm
      obtain ⟨a, I', hcons, ha, hI'⟩ := (mem_cross_cons _ _ _).mp hm
      simp only [List.cons.injEq] at hcons
      obtain ⟨rfl, rfl⟩ := hcons
      rw [f.1 ha, ih.1 hI']
    · intro hm
      by_cases ha : i ∈ hatsInSupport1 l c
      · have : I ∉ cross (List.zipWith hatsInSupport1 lv x) := fun hI' => hm ((mem_cross_cons _ _ _).mpr ⟨i, I, rfl, ha, hI'⟩)
        rw [ih.2 this, mul_zero]
      · rw [f.2 ha, zero_mul]
  | [], _ :: _, _, h, _, _ => by simp at h
  | [], [], _ :: _, _, h, _ => by simp at h
  | _ :: _, [], _, h, _, _ => by simp at h
  | _ :: _, _ :: _, [], _, h, _ => by simp at h

theorem uIndexList_range : ∀ (lv : List ℕ) (I : List ℤ), I ∈ uIndexList lv →
    I.length = lv.length ∧ ∀ i l, (i, l) ∈ I.zip lv → 0 < i ∧ i ≤ 2 ^ l - 1
  | [], I, h => by
    simp only [uIndexList, List.map_nil, cross, List.mem_singleton] at h
    subst h; simp
  | l :: lv, I, h => by
    unfold uIndexList at h
    rw [List.map_cons, mem_cross_cons] at h
    obtain ⟨a, I', rfl, ha, hI'⟩ := h
    have ih := uIndexList_range lv I' hI'
    refine ⟨by simp [ih.1], ?_⟩
    intro i l' hm
    simp only [List.zip_cons_cons, List.mem_cons, Prod.mk.injEq] at hm
    rcases hm with ⟨rfl, rfl⟩ | hm
    · obtain ⟨k, hk, rfl⟩ := List.mem_map.mp ha
      have hk' : k < 2 ^ l' - 1 := List.mem_range.mp hk
      have h1 : 1 ≤ 2 ^ l' := Nat.one_le_two_pow
      constructor
      · omega
      · have : (k : ℤ) + 1 ≤ ((2 ^ l' - 1 : ℕ) : ℤ) := by exact_mod_cast hk'
        rw [Nat.cast_sub h1] at this
        push_cast at this
        exact this
    · exact ih.2 i l' hm

/-- **uniform grids: the large-grid right-hand side (`N >= 200`: `get_hats_in_support`, unclipped hats) equals the
    small-grid right-hand side (`N < 200`: all hats, clipped)** for data in the unit cube -/
theorem bLargeU_eq_bSmallU (lv : List ℕ) (data : List (List ℚ)) (sg : List ℚ)
    (hd : ∀ x ∈ data, x.length = lv.length ∧ ∀ c ∈ x, 0 ≤ c ∧ c ≤ 1) : bLargeU lv data sg = bSmallU lv data sg := by
  unfold bLargeU bSmallU
  apply List.map_congr_left
  intro I hI
  have r := uIndexList_range lv I hI
  congr 1
  apply zipWith_sum_congr
  intro x s hm
  have hx := hd x (List.of_mem_zip hm).1
  have hcube : (x.all fun c => decide (0 ≤ c) && decide (c ≤ 1)) = true := by
    rw [List.all_eq_true]; intro c hc; have := hx.2 c hc; simp [this.1, this.2]
  unfold hatsInSupport
  rw [if_pos hcube]
  have u := uniform_support_nd lv I x r.1 hx.1 r.2
  by_cases hin : I ∈ cross (List.zipWith hatsInSupport1 lv x)
  · rw [if_pos hin, u.1 hin]
  · rw [if_neg hin, u.2 hin, zero_mul]


/-! ### dimension-wise grids -/

/-- `take_closest` returns the two nodes around the point: every OTHER hat of the stripe vanishes there -/
theorem takeClosest_far : ∀ (nodes : List ℚ), nodes.Pairwise (· < ·) → ∀ (x : ℚ), ∀ h ∈ hats1D nodes,
    h.p ∉ takeClosest nodes x → x ≤ h.lo ∨ h.hi ≤ x
  | [], _, _, h, hh, _ => by simp [hats1D] at hh
  | [_], _, _, h, hh, _ => by simp [hats1D] at hh
  | [_, _], _, _, h, hh, _ => by simp [hats1D] at hh
  | a :: b :: c :: rest, hs, x, h, hh, hn => by
    have hs' : (b :: c :: rest).Pairwise (· < ·) := (List.pairwise_cons.mp hs).2
    simp only [hats1D, List.mem_cons] at hh
    by_cases hx : x ≤ b
    · -- result [a, b]
      have e : takeClosest (a :: b :: c :: rest) x = [a, b] := by simp [takeClosest, hx]
      rw [e] at hn
      rcases hh with rfl | hh
      · exact absurd (by simp) hn
      · left
        have := (hats1D_bounds (b :: c :: rest) b c rest rfl hs' h hh).2
        linarith
    · have e : takeClosest (a :: b :: c :: rest) x = takeClosest (b :: c :: rest) x := by simp [takeClosest, hx]
      rw [e] at hn
      rcases hh with rfl | hh
      · right
        simp only
        by_contra hc
        have hxc : x ≤ c := le_of_lt (not_le.mp hc)
        have e2 : takeClosest (b :: c :: rest) x = [b, c] := by simp [takeClosest, hxc]
        rw [e2] at hn
        exact hn (by simp)
      · exact takeClosest_far (b :: c :: rest) hs' x h hh hn

/-- the nodes strictly inside a stripe are the centres of its hats -/
theorem interior_eq : ∀ (nodes : List ℚ), interior nodes = (hats1D nodes).map (·.p)
  | [] => rfl
  | [_] => rfl
  | [_, _] => rfl
  | a :: b :: c :: rest => by
    have ih := interior_eq (b :: c :: rest)
    unfold interior at ih ⊢
    simp only [List.drop_succ_cons, List.drop_zero, hats1D, List.map_cons] at ih ⊢
    rw [← ih]
    cases rest <;> simp [List.dropLast]

theorem hats1D_nodes_mem : ∀ (nodes : List ℚ), ∀ h ∈ hats1D nodes, h.lo ∈ nodes ∧ h.p ∈ nodes ∧ h.hi ∈ nodes
  | [], h, hh => by simp [hats1D] at hh
  | [_], h, hh => by simp [hats1D] at hh
  | [_, _], h, hh => by simp [hats1D] at hh
  | a :: b :: c :: rest, h, hh => by
    simp only [hats1D, List.mem_cons] at hh
    rcases hh with rfl | hh
    · simp
    · have := hats1D_nodes_mem (b :: c :: rest) h hh
      exact ⟨List.mem_cons_of_mem _ this.1, List.mem_cons_of_mem _ this.2.1, List.mem_cons_of_mem _ this.2.2⟩

/-- no node lies strictly between a hat's centre and its support ends -/
theorem hats1D_no_node_between : ∀ (nodes : List ℚ), nodes.Pairwise (· < ·) → ∀ h ∈ hats1D nodes, ∀ n ∈ nodes,
    (n < h.p → n ≤ h.lo) ∧ (h.p < n → h.hi ≤ n)
  | [], _, h, hh, _, _ => by simp [hats1D] at hh
  | [_], _, h, hh, _, _ => by simp [hats1D] at hh
  | [_, _], _, h, hh, _, _ => by simp [hats1D] at hh
  | a :: b :: c :: rest, hs, h, hh, n, hn => by
    have hs' : (b :: c :: rest).Pairwise (· < ·) := (List.pairwise_cons.mp hs).2
    have hab : ∀ m ∈ b :: c :: rest, a < m := (List.pairwise_cons.mp hs).1
    have hbc : ∀ m ∈ c :: rest, b < m := (List.pairwise_cons.mp hs').1
    simp only [hats1D, List.mem_cons] at hh
    rcases hh with rfl | hh
    · simp only
      rcases List.mem_cons.mp hn with rfl | hn
      · exact ⟨fun _ => le_refl _, fun h' => absurd h' (by have := hab b (by simp); linarith)⟩
      · rcases List.mem_cons.mp hn with rfl | hn
        · exact ⟨fun h' => absurd h' (lt_irrefl _), fun h' => absurd h' (lt_irrefl _)⟩
        · have hcn : c ≤ n := by
            rcases List.mem_cons.mp hn with rfl | hn'
            · exact le_refl _
            · exact le_of_lt ((List.pairwise_cons.mp (List.pairwise_cons.mp hs').2).1 n hn')
          have := hbc c (by simp)
          exact ⟨fun h' => by linarith, fun _ => hcn⟩
    · rcases List.mem_cons.mp hn with rfl | hn
      · have bd := hats1D_bounds (b :: c :: rest) b c rest rfl hs' h hh
        have := hab b (by simp)
        exact ⟨fun _ => by linarith [bd.2], fun h' => by linarith [bd.1, hbc c (by simp)]⟩
      · exact hats1D_no_node_between (b :: c :: rest) hs' h hh n hn

theorem foldl_rmax_le : ∀ (l : List ℚ) (i B : ℚ), i ≤ B → (∀ n ∈ l, n ≤ B) → l.foldl rmax i ≤ B
  | [], _, _, hi, _ => hi
  | a :: l, i, B, hi, hl => by
    simp only [List.foldl_cons]
    exact foldl_rmax_le l _ B (by rw [rmax_eq_max]; exact max_le hi (hl a List.mem_cons_self)) (fun n hn => hl n (List.mem_cons_of_mem _ hn))

theorem foldl_rmin_ge : ∀ (l : List ℚ) (i B : ℚ), B ≤ i → (∀ n ∈ l, B ≤ n) → B ≤ l.foldl rmin i
  | [], _, _, hi, _ => hi
  | a :: l, i, B, hi, hl => by
    simp only [List.foldl_cons]
    exact foldl_rmin_ge l _ B (by rw [rmin_eq_min]; exact le_min hi (hl a List.mem_cons_self)) (fun n hn => hl n (List.mem_cons_of_mem _ hn))


theorem le_getLast_of_pairwise : ∀ (l : List ℚ) (z : ℚ), l.Pairwise (· < ·) → l.getLast? = some z → ∀ n ∈ l, n ≤ z
  | [], _, _, h, _, _ => by simp at h
  | [a], z, _, h, n, hn => by
    simp only [List.getLast?_singleton, Option.some.injEq] at h
    simp only [List.mem_singleton] at hn
    rw [hn, h]
  | a :: b :: t, z, hs, h, n, hn => by
    have hs' : (b :: t).Pairwise (· < ·) := (List.pairwise_cons.mp hs).2
    rw [List.getLast?_cons_cons] at h
    have ih := le_getLast_of_pairwise (b :: t) z hs' h
    rcases List.mem_cons.mp hn with rfl | hn
    · have : n < b := (List.pairwise_cons.mp hs).1 b List.mem_cons_self
      linarith [ih b List.mem_cons_self]
    · exact ih n hn

theorem unit_bounds (s : List ℚ) (h : UnitStripe s) : ∀ n ∈ s, 0 ≤ n ∧ n ≤ 1 := by
  obtain ⟨hp, h0, h1⟩ := h
  intro n hn
  refine ⟨?_, le_getLast_of_pairwise s 1 hp h1 n hn⟩
  cases s with
  | nil => simp at hn
  | cons a t =>
    simp only [List.head?_cons, Option.some.injEq] at h0
    subst h0
    rcases List.mem_cons.mp hn with rfl | hn
    · exact le_refl _
    · exact le_of_lt ((List.pairwise_cons.mp hp).1 n hn)

/-- `get_hat_domain` finds the neighbouring nodes: on a stripe the searched support is the support by position -/
theorem getHatDomain1_eq (s : List ℚ) (hu : UnitStripe s) (h : Hat1) (hh : h ∈ hats1D s) : getHatDomain1 s h.p = h := by
  have hp := hu.1
  have v := hats1D_valid s hp h hh
  have m := hats1D_nodes_mem s h hh
  have nb := hats1D_no_node_between s hp h hh
  have ub := unit_bounds s hu
  have elo : (s.filter (· < h.p)).foldl rmax 0 = h.lo := by
    apply le_antisymm
    · exact foldl_rmax_le _ 0 h.lo (ub h.lo m.1).1 (fun n hn => by
        have := List.mem_filter.mp hn
        exact (nb n this.1).1 (by simpa using this.2))
    · exact foldl_rmax_ge_mem _ 0 h.lo (List.mem_filter.mpr ⟨m.1, by simpa using v.1⟩)
  have ehi : (s.filter (h.p < ·)).foldl rmin 1 = h.hi := by
    apply le_antisymm
    · exact foldl_rmin_le_mem _ 1 h.hi (List.mem_filter.mpr ⟨m.2.2, by simpa using v.2⟩)
    · exact foldl_rmin_ge _ 1 h.hi (ub h.hi m.2.2).2 (fun n hn => by
        have := List.mem_filter.mp hn
        exact (nb n this.1).2 (by simpa using this.2))
  unfold getHatDomain1
  rw [elo, ehi]

theorem hatsNDsearch_eq (stripes : List (List ℚ)) (hv : ∀ s ∈ stripes, UnitStripe s) : hatsNDsearch stripes = hatsRaw stripes := by
  unfold hatsNDsearch hatsRaw
  congr 1
  apply List.map_congr_left
  intro s hs
  rw [interior_eq, List.map_map]
  conv_rhs => rw [← List.map_id (hats1D s)]
  apply List.map_congr_left
  intro h hh
  exact getHatDomain1_eq s (hv s hs) h hh

/-- a hat whose node is not among the neighbours found for the point vanishes at the point -/
theorem dw_far_zero : ∀ (stripes : List (List ℚ)), (∀ s ∈ stripes, UnitStripe s) → ∀ (h : List Hat1) (x : List ℚ),
    h ∈ hatsRaw stripes → x.length = stripes.length → h.map (·.p) ∉ neighbours stripes x → hatSpecND h x = 0
  | [], _, h, x, hh, hx, hn => by
    simp only [hatsRaw, List.map_nil, cross, List.mem_singleton] at hh
    subst hh
    simp [neighbours, cross] at hn
  | s :: rest, hv, h, x, hh, hx, hn => by
    obtain ⟨a, h', rfl, ha, hh'⟩ := mem_hatsRaw_cons hh
    cases x with
    | nil => simp at hx
    | cons c x' =>
      have hu := hv s List.mem_cons_self
      have hvr : ∀ s' ∈ rest, UnitStripe s' := fun s' h => hv s' (List.mem_cons_of_mem _ h)
      unfold neighbours at hn
      simp only [List.zipWith_cons_cons, List.map_cons] at hn
      rw [mem_cross_cons] at hn
      unfold hatSpecND
      simp only [List.zipWith_cons_cons, lprod]
      set nb := (match s with
        | [_, b, _] => [b]
        | _ => (takeClosest s c).filter fun h => h ≠ 0 ∧ h ≠ 1) with hnb
      by_cases hmem : a.p ∈ nb
      · have : h'.map (·.p) ∉ neighbours rest x' := by
          intro hin
          exact hn ⟨a.p, h'.map (·.p), rfl, hmem, hin⟩
        have ih := dw_far_zero rest hvr h' x' hh' (by simpa using hx) this
        unfold hatSpecND at ih
        rw [ih, mul_zero]
      · have v := hats1D_valid s hu.1 a ha
        have m := hats1D_nodes_mem s a ha
        have ub := unit_bounds s hu
        have hz : hatSpec a c = 0 := by
          apply hatSpec_outside
          apply takeClosest_far s hu.1 c a ha
          intro hin
          apply hmem
          rw [hnb]
          match s, ha, hin with
          | [n0, b, n2], ha, _ =>
            simp only [hats1D, List.mem_singleton] at ha
            subst ha
            simp
          | [], ha, _ => simp [hats1D] at ha
          | [_], ha, _ => simp [hats1D] at ha
          | [_, _], ha, _ => simp [hats1D] at ha
          | _ :: _ :: _ :: _ :: _, _, hin =>
            simp only [List.mem_filter, decide_eq_true_eq]
            refine ⟨hin, ?_, ?_⟩
            · have := (ub a.lo m.1).1; intro e; linarith [v.1]
            · have := (ub a.hi m.2.2).2; intro e; linarith [v.2]
        rw [hz, zero_mul]

/-- **dimension-wise grids: the large-grid right-hand side (`N >= 200`: per sample only the neighbouring hats, scalar hat
    on the support found by `get_hat_domain`) equals the small-grid right-hand side (`N < 200`: all hats, completely
    vectorised)** — for every grid, data set and class labelling -/
theorem bLargeDW_eq_bSmallDW (stripes : List (List ℚ)) (hv : ∀ s ∈ stripes, UnitStripe s) (data : List (List ℚ)) (sg : List ℚ)
    (hd : ∀ x ∈ data, x.length = stripes.length) : bLargeDW stripes data sg = bSmallDW stripes data sg := by
  unfold bLargeDW bSmallDW
  rw [hatsNDsearch_eq stripes hv, hatsND_eq_hatsRaw stripes hv]
  apply List.map_congr_left
  intro h hh
  congr 1
  apply zipWith_sum_congr
  intro x s hm
  have hval := hatsRaw_valid stripes (fun s hs => (hv s hs).1) h hh
  by_cases hin : h.map (·.p) ∈ neighbours stripes x
  · rw [if_pos hin, hatNS_eq_spec h x hval, hatCV_eq_spec h x hval]
  · rw [if_neg hin, hatCV_eq_spec h x hval, dw_far_zero stripes hv h x hh (hd x (List.of_mem_zip hm).1) hin, zero_mul]


/-! ### interpolation -/

theorem takeClosest_subset : ∀ (nodes : List ℚ) (x : ℚ), ∀ y ∈ takeClosest nodes x, y ∈ nodes
  | [], _, y, h => by simp [takeClosest] at h
  | [_], _, y, h => by simp [takeClosest] at h
  | [a, b], x, y, h => by
    unfold takeClosest at h
    split_ifs at h <;> simpa using h
  | a :: b :: c :: rest, x, y, h => by
    by_cases hx : x ≤ b
    · have e : takeClosest (a :: b :: c :: rest) x = [a, b] := by simp [takeClosest, hx]
      rw [e] at h
      simp only [List.mem_cons, List.not_mem_nil, or_false] at h
      rcases h with rfl | rfl <;> simp
    · have e : takeClosest (a :: b :: c :: rest) x = takeClosest (b :: c :: rest) x := by simp [takeClosest, hx]
      rw [e] at h
      exact List.mem_cons_of_mem _ (takeClosest_subset (b :: c :: rest) x y h)

/-- a hat whose node IS among the two nodes returned by `take_closest` has the point in its closed support -/
theorem takeClosest_near : ∀ (nodes : List ℚ), nodes.Pairwise (· < ·) → ∀ (x : ℚ), (∀ f, nodes.head? = some f → f ≤ x) →
    (∀ z, nodes.getLast? = some z → x ≤ z) →
    ∀ h ∈ hats1D nodes, h.p ∈ takeClosest nodes x → h.lo ≤ x ∧ x ≤ h.hi
  | [], _, _, _, _, h, hh, _ => by simp [hats1D] at hh
  | [_], _, _, _, _, h, hh, _ => by simp [hats1D] at hh
  | [_, _], _, _, _, _, h, hh, _ => by simp [hats1D] at hh
  | a :: b :: c :: rest, hs, x, hf, hl, h, hh, hin => by
    have hs' : (b :: c :: rest).Pairwise (· < ·) := (List.pairwise_cons.mp hs).2
    have hab : a < b := (List.pairwise_cons.mp hs).1 b List.mem_cons_self
    have hbc : b < c := (List.pairwise_cons.mp hs').1 c List.mem_cons_self
    have hax : a ≤ x := hf a rfl
    simp only [hats1D, List.mem_cons] at hh
    by_cases hx : x ≤ b
    · have e : takeClosest (a :: b :: c :: rest) x = [a, b] := by simp [takeClosest, hx]
      rw [e] at hin
      rcases hh with rfl | hh
      · exact ⟨hax, by simp only; linarith⟩
      · have bd := hats1D_bounds (b :: c :: rest) b c rest rfl hs' h hh
        simp only [List.mem_cons, List.not_mem_nil, or_false] at hin
        rcases hin with e | e <;> linarith [bd.1]
    · have hbx : b < x := not_le.mp hx
      have e : takeClosest (a :: b :: c :: rest) x = takeClosest (b :: c :: rest) x := by simp [takeClosest, hx]
      rw [e] at hin
      rcases hh with rfl | hh
      · simp only at hin ⊢
        by_cases hxc : x ≤ c
        · exact ⟨hax, hxc⟩
        · exfalso
          cases rest with
          | nil =>
            exact hxc (hl c (by simp))
          | cons d rest' =>
            have e2 : takeClosest (b :: c :: d :: rest') x = takeClosest (c :: d :: rest') x := by simp [takeClosest, hxc]
            rw [e2] at hin
            have := takeClosest_subset (c :: d :: rest') x b hin
            have hs'' : (c :: d :: rest').Pairwise (· < ·) := (List.pairwise_cons.mp hs').2
            rcases List.mem_cons.mp this with e | e
            · linarith
            · have := (List.pairwise_cons.mp hs').1 b (List.mem_cons_of_mem _ e)
              linarith
      · exact takeClosest_near (b :: c :: rest) hs' x (fun f hf' => by
          simp only [List.head?_cons, Option.some.injEq] at hf'; rw [← hf']; exact hbx.le)
          (fun z hz => hl z (by rw [List.getLast?_cons_cons]; exact hz)) h hh hin


/-- a hat whose node is among the neighbours found for a point of the unit cube has the point in its closed support -/
theorem dw_near_support : ∀ (stripes : List (List ℚ)), (∀ s ∈ stripes, UnitStripe s) → ∀ (h : List Hat1) (x : List ℚ),
    h ∈ hatsRaw stripes → x.length = stripes.length → (∀ c ∈ x, 0 ≤ c ∧ c ≤ 1) → h.map (·.p) ∈ neighbours stripes x →
    ∀ a c, (a, c) ∈ h.zip x → a.lo ≤ c ∧ c ≤ a.hi
  | [], _, h, x, hh, _, _, _ => by
    simp only [hatsRaw, List.map_nil, cross, List.mem_singleton] at hh
    subst hh; simp
  | s :: rest, hv, h, x, hh, hx, hc, hn => by
    obtain ⟨a0, h', rfl, ha, hh'⟩ := mem_hatsRaw_cons hh
    cases x with
    | nil => simp at hx
    | cons c0 x' =>
      have hu := hv s List.mem_cons_self
      have hvr : ∀ s' ∈ rest, UnitStripe s' := fun s' h => hv s' (List.mem_cons_of_mem _ h)
      unfold neighbours at hn
      simp only [List.zipWith_cons_cons, List.map_cons] at hn
      rw [mem_cross_cons] at hn
      obtain ⟨p0, P', hcons, hp0, hP'⟩ := hn
      simp only [List.cons.injEq] at hcons
      obtain ⟨rfl, rfl⟩ := hcons
      have ih := dw_near_support rest hvr h' x' hh' (by simpa using hx) (fun c hc' => hc c (List.mem_cons_of_mem _ hc')) hP'
      intro a c hm
      simp only [List.zip_cons_cons, List.mem_cons, Prod.mk.injEq] at hm
      rcases hm with ⟨rfl, rfl⟩ | hm
      · have hc0 := hc c List.mem_cons_self
        have m := hats1D_nodes_mem s a ha
        have ub := unit_bounds s hu
        match s, ha, hp0, hu, m, ub with
        | [n0, b, n2], ha, _, hu, _, _ =>
          simp only [hats1D, List.mem_singleton] at ha
          subst ha
          obtain ⟨_, h0, h1⟩ := hu
          simp only [List.head?_cons, Option.some.injEq] at h0
          simp only [List.getLast?_cons_cons, List.getLast?_singleton, Option.some.injEq] at h1
          subst h0 h1
          exact hc0
        | [], ha, _, _, _, _ => simp [hats1D] at ha
        | [_], ha, _, _, _, _ => simp [hats1D] at ha
        | [_, _], ha, _, _, _, _ => simp [hats1D] at ha
        | n0 :: n1 :: n2 :: n3 :: r, ha, hp0, hu, _, _ =>
          simp only [List.mem_filter] at hp0
          refine takeClosest_near _ hu.1 c (fun f hf => ?_) (fun z hz => ?_) a ha hp0.1
          · have := hu.2.1; rw [hf] at this; simp only [Option.some.injEq] at this; rw [this]; exact hc0.1
          · have := hu.2.2; rw [hz] at this; simp only [Option.some.injEq] at this; rw [this]; exact hc0.2
      · exact ih a c hm

theorem hatsRaw_unit_bounds : ∀ (stripes : List (List ℚ)), (∀ s ∈ stripes, UnitStripe s) → ∀ h ∈ hatsRaw stripes,
    ∀ b ∈ h, 0 ≤ b.lo ∧ b.hi ≤ 1
  | [], _, h, hh, b, hb => by
    simp only [hatsRaw, List.map_nil, cross, List.mem_singleton] at hh
    subst hh; simp at hb
  | s :: rest, hv, h, hh, b, hb => by
    obtain ⟨a, h', rfl, ha, hh'⟩ := mem_hatsRaw_cons hh
    rcases List.mem_cons.mp hb with rfl | hb
    · have m := hats1D_nodes_mem s b ha
      have ub := unit_bounds s (hv s List.mem_cons_self)
      exact ⟨(ub b.lo m.1).1, (ub b.hi m.2.2).2⟩
    · exact hatsRaw_unit_bounds rest (fun s' h => hv s' (List.mem_cons_of_mem _ h)) h' hh' b hb

/-- **dimension-wise grids: the large-grid interpolation (`>= 200` points: per point only the neighbouring hats, evaluated by
    `hat_function_non_symmetric_vectorized`) equals the small-grid interpolation (all hats, completely vectorised)** at
    every point of the unit cube, for every grid and every surplus vector -/
theorem interpLargeDW_eq_interpSmallDW (stripes : List (List ℚ)) (hv : ∀ s ∈ stripes, UnitStripe s) (alpha : List ℚ)
    (x : List ℚ) (hx : x.length = stripes.length) (hc : ∀ c ∈ x, 0 ≤ c ∧ c ≤ 1) :
    interpLargeDW stripes alpha x = interpSmallDW stripes alpha x := by
  unfold interpLargeDW interpSmallDW
  rw [hatsNDsearch_eq stripes hv, hatsND_eq_hatsRaw stripes hv]
  apply zipWith_sum_congr
  intro h a hm
  have hh : h ∈ hatsRaw stripes := (List.of_mem_zip hm).1
  have hs : ∀ s ∈ stripes, s.Pairwise (· < ·) := fun s h => (hv s h).1
  have hval := hatsRaw_valid stripes hs h hh
  by_cases hin : h.map (·.p) ∈ neighbours stripes x
  · rw [if_pos hin, hatCV_eq_spec h x hval]
    have hsup := dw_near_support stripes hv h x hh hx hc hin
    have hb := hatsRaw_unit_bounds stripes hv h hh
    rw [hatV_eq_spec h x (fun b hb' => ⟨(hval b hb').1, (hval b hb').2, by linarith [(hb b hb').1, (hb b hb').2, (hval b hb').2],
      by linarith [(hb b hb').1, (hb b hb').2, (hval b hb').1]⟩) hsup]
  · rw [if_neg hin, hatCV_eq_spec h x hval, dw_far_zero stripes hv h x hh hx hin, zero_mul]


end SparseSpace.Gram
