import SparseSpace.Lemmas.RombergTop
/-!
# Valid refinement trees never trip an assertion (C11)

`RefSeg L inner R`: the (point, level) list `inner` strictly between the grid points `L` and `R` is obtained by
repeated bisection, the midpoint of a slice getting the level `max(level L, level R) + 1` — exactly the level
assignments produced by the dimension-wise refinement on a dyadic grid.
-/
namespace SparseSpace.Romberg
open SparseSpace

inductive RefSeg : PL → List PL → PL → Prop
  | leaf (L R : PL) : RefSeg L [] R
  | bisect (L R m : PL) (lp rp : List PL) :
      m.1 = (L.1 + R.1) / 2 → m.2 = max L.2 R.2 + 1 → RefSeg L lp m → RefSeg m rp R → RefSeg L (lp ++ m :: rp) R

/-- a grid with levels is a valid refinement tree of `[a, b]` -/
def ValidTree (grid : List ℚ) (lv : List ℕ) : Prop :=
  ∃ (a b : ℚ) (inner : List PL), a < b ∧ grid.length = lv.length ∧
    grid.zip lv = (a, 0) :: (inner ++ [(b, 0)]) ∧ RefSeg (a, 0) inner (b, 0)

theorem refSeg_levels {L R : PL} {inner : List PL} (h : RefSeg L inner R) : ∀ p ∈ inner, max L.2 R.2 < p.2 := by
  induction h with
  | leaf L R => simp
  | bisect L R m lp rp _ hm _ _ ih1 ih2 =>
    intro p hp
    simp only [List.mem_append, List.mem_cons] at hp
    rcases hp with h | rfl | h
    · have := ih1 p h; omega
    · omega
    · have := ih2 p h; omega

theorem splitMin_of_min (pre post : List PL) (x : PL) (h1 : ∀ y ∈ pre, x.2 < y.2) (h2 : ∀ y ∈ post, x.2 ≤ y.2) :
    splitMin (pre ++ x :: post) = some (pre, x, post) := by
  induction pre with
  | nil =>
    simp only [List.nil_append, splitMin]
    cases hs : splitMin post with
    | none => simp [splitMin_eq_none.mp hs]
    | some t =>
      obtain ⟨p', z, q'⟩ := t
      have hz : z ∈ post := by rw [splitMin_eq hs]; simp
      simp [h2 z hz]
  | cons y ys ih =>
    have ih' := ih (fun w hw => h1 w (List.mem_cons_of_mem _ hw))
    simp only [List.cons_append, splitMin, ih']
    have := h1 y List.mem_cons_self
    have hn : ¬ y.2 ≤ x.2 := by omega
    simp [hn]

theorem refSeg_split {L R m : PL} {lp rp : List PL} (hm : m.2 = max L.2 R.2 + 1) (h1 : RefSeg L lp m)
    (h2 : RefSeg m rp R) : splitMin (lp ++ m :: rp) = some (lp, m, rp) := by
  apply splitMin_of_min
  · intro y hy; have := refSeg_levels h1 y hy; omega
  · intro y hy; have := refSeg_levels h2 y hy; omega

/-- invariant carried down the support sequences -/
structure SegInv (a b : ℚ) (L R : PL) (pre : List (ℚ × ℚ)) : Prop where
  width : R.1 - L.1 = stepWidth a b (max L.2 R.2)
  len : pre.length = max L.2 R.2 + 1
  lt : L.1 < R.1
  sup : ∀ q ∈ pre, q.1 ≤ L.1 ∧ R.1 ≤ q.2 ∧ q.1 ≠ q.2
  head : pre.head? = some (a, b)

/-- what every slice of a valid tree satisfies: the assertions of `set_grid` and of `get_weights` -/
def SliceFine (a b : ℚ) (s : Slice) : Prop :=
  sliceOk a b s = true ∧ (∀ q ∈ s.seq, q.1 ≤ s.xl ∧ s.xr ≤ q.2 ∧ q.1 ≠ q.2) ∧ s.seq.head? = some (a, b)

theorem stepWidth_succ (a b : ℚ) (j : ℕ) : stepWidth a b (j + 1) = stepWidth a b j / 2 := by
  simp only [stepWidth_eq, pow_succ]
  have : (2 : ℚ) ^ j ≠ 0 := pow_ne_zero _ (by norm_num)
  field_simp

theorem refSeg_slices {L R : PL} {inner : List PL} (h : RefSeg L inner R) :
    ∀ (fuel : ℕ) (a b : ℚ) (pre : List (ℚ × ℚ)), inner.length < fuel → SegInv a b L R pre →
      ∀ s ∈ slicesRec fuel L inner R pre, SliceFine a b s := by
  induction h with
  | leaf L R =>
    intro fuel a b pre hf hinv s hs
    cases fuel with
    | zero => omega
    | succ f =>
      simp only [slicesRec, splitMin, List.mem_singleton] at hs
      subst hs
      refine ⟨?_, hinv.sup, hinv.head⟩
      simp only [sliceOk, Slice.maxLevel, Bool.and_eq_true, decide_eq_true_eq]
      exact ⟨⟨decide_eq_true hinv.width, hinv.lt⟩, decide_eq_true hinv.len.symm⟩
  | bisect L R m lp rp hmid hm h1 h2 ih1 ih2 =>
    intro fuel a b pre hf hinv s hs
    cases fuel with
    | zero => omega
    | succ f =>
      simp only [slicesRec, refSeg_split hm h1 h2, List.mem_append] at hs
      simp only [List.length_append, List.length_cons] at hf
      have hLm : L.1 < m.1 := by rw [hmid]; linarith [hinv.lt]
      have hmR : m.1 < R.1 := by rw [hmid]; linarith [hinv.lt]
      have hmaxL : max L.2 m.2 = max L.2 R.2 + 1 := by omega
      have hmaxR : max m.2 R.2 = max L.2 R.2 + 1 := by omega
      rcases hs with hs | hs
      · refine ih1 f a b _ (by omega) ?_ s hs
        refine ⟨?_, ?_, hLm, ?_, ?_⟩
        · rw [hmaxL, stepWidth_succ, ← hinv.width, hmid]; ring
        · rw [List.length_append, hinv.len, hmaxL]; rfl
        · intro q hq
          simp only [List.mem_append, List.mem_singleton] at hq
          rcases hq with hq | rfl
          · obtain ⟨q1, q2, q3⟩ := hinv.sup q hq
            exact ⟨q1, le_trans (le_of_lt hmR) q2, q3⟩
          · exact ⟨le_refl _, le_refl _, ne_of_lt hLm⟩
        · have := hinv.head
          cases pre with
          | nil => simp at this
          | cons q qs => simpa using this
      · refine ih2 f a b _ (by omega) ?_ s hs
        refine ⟨?_, ?_, hmR, ?_, ?_⟩
        · rw [hmaxR, stepWidth_succ, ← hinv.width, hmid]; ring
        · rw [List.length_append, hinv.len, hmaxR]; rfl
        · intro q hq
          simp only [List.mem_append, List.mem_singleton] at hq
          rcases hq with hq | rfl
          · obtain ⟨q1, q2, q3⟩ := hinv.sup q hq
            exact ⟨le_trans q1 (le_of_lt hLm), q2, q3⟩
          · exact ⟨le_refl _, le_refl _, ne_of_lt hmR⟩
        · have := hinv.head
          cases pre with
          | nil => simp at this
          | cons q qs => simpa using this

/-! ## the weights are defined -/

theorem rombergContribs_isSome (s : Slice) (a b : ℚ) (seq : List (ℚ × ℚ)) (k : ℕ)
    (h : ∀ q ∈ seq, q.1 ≤ s.xl ∧ s.xr ≤ q.2 ∧ q.1 ≠ q.2) : ∃ cs, rombergContribs s a b seq k = some cs := by
  induction seq generalizing k with
  | nil => exact ⟨[], rfl⟩
  | cons q rest ih =>
    obtain ⟨L, R⟩ := q
    obtain ⟨t, ht⟩ := ih (k + 1) (fun q hq => h q (List.mem_cons_of_mem _ hq))
    have hq := h (L, R) List.mem_cons_self
    simp only [rombergContribs, ht]
    have : L ≤ s.xl ∧ R ≥ s.xr ∧ L ≠ R := ⟨hq.1, hq.2.1, hq.2.2⟩
    rw [if_pos this]
    exact ⟨_, rfl⟩

theorem sliceContribs_isSome (v : SliceVer) (a b : ℚ) (s : Slice) (h : SliceFine a b s) :
    ∃ cs, sliceContribs v s = some cs := by
  cases v with
  | trapezoid => exact ⟨_, rfl⟩
  | romberg =>
    simp only [sliceContribs]
    cases hseq : s.seq with
    | nil => have := h.2.2; rw [hseq] at this; simp at this
    | cons q rest =>
      obtain ⟨a', b'⟩ := q
      simp only
      rw [← hseq]
      exact rombergContribs_isSome s a' b' s.seq 0 h.2.1

/-- explicit value of a container of `2^(k+1)` equal consecutive slices -/
theorem containerContribs_eq (sv : SliceVer) (cv : ContVer) (s s' : Slice) (r : List Slice) (k : ℕ) (x h : ℚ)
    (hlen : (s :: s' :: r).length = 2 ^ (k + 1)) (hE : Equi x h (s :: s' :: r)) :
    containerContribs sv cv (s :: s' :: r) =
      some ((apPoints x h (2 ^ (k + 1) + 1)).zip
        (bwOf cv x (x + 2 ^ (k + 1) * h) (k + 1)
          :: ((perfect (k + 1) 1).map (fun l => iwOf cv x (x + 2 ^ (k + 1) * h) (k + 1) l)
              ++ [bwOf cv x (x + 2 ^ (k + 1) * h) (k + 1)]))) := by
  cases cv
  all_goals
    have hne : (s :: s' :: r) ≠ [] := by simp
    have hpts := contPoints_equi _ x h hE hne
    have hlast := lastXr_equi _ x h s.xr hE hne
    have hsx : s.xl = x := hE.1
    simp only [containerContribs]
    rw [hpts, hlast, hsx]
    have hlenq : (((s :: s' :: r).length : ℕ) : ℚ) = 2 ^ (k + 1) := by rw [hlen]; push_cast; rfl
    rw [hlenq]
    have hpl : (apPoints x h ((s :: s' :: r).length + 1)).length = 2 ^ (k + 1) + 1 := by
      have : ∀ (n : ℕ) (y : ℚ), (apPoints y h n).length = n := by
        intro n; induction n with
        | zero => intro y; rfl
        | succ n ih => intro y; simp [apPoints, ih]
      rw [this, hlen]
    rw [hpl]
    have hnl : normLevels (2 ^ (k + 1) + 1) 1 (2 ^ (k + 1) + 1 - 2) 1 = perfect (k + 1) 1 := by
      have h1 : 2 ^ (k + 1) + 1 - 2 = 1 + 2 ^ (k + 1) - 2 := by omega
      rw [h1]
      exact normLevels_perfect (k + 1) _ 1 1 (by have := @Nat.lt_two_pow_self (k + 1); omega) (le_refl 1)
    rw [hnl, listMax_perfect k 1]
    have h1k : 1 + k = k + 1 := by omega
    rw [h1k, innerWeights_perfect]
    simp only [hlen]
    rfl

theorem containerContribs_isSome (sv : SliceVer) (cv : ContVer) (a b : ℚ) (c : List Slice) (x : ℚ) (hg : Good c)
    (hch : SChain x c) (hs : ∀ s ∈ c, SliceFine a b s) : ∃ cs, containerContribs sv cv c = some cs := by
  obtain ⟨hne, ⟨k, hk⟩, hw⟩ := hg
  cases c with
  | nil => exact absurd rfl hne
  | cons s r =>
    cases r with
    | nil => exact sliceContribs_isSome sv a b s (hs s List.mem_cons_self)
    | cons s' r' =>
      cases k with
      | zero => simp at hk
      | succ k' =>
        have hwid : ∀ t ∈ s :: s' :: r', t.width = s.width := fun t ht => hw t ht s List.mem_cons_self
        have hE := equi_of_chain x s.width _ hch hwid
        exact ⟨_, containerContribs_eq sv cv s s' r' k' x s.width hk hE⟩

theorem allContribs_isSome (sv : SliceVer) (cv : ContVer) (a b : ℚ) (conts : List (List Slice)) (x : ℚ)
    (hg : ∀ c ∈ conts, Good c) (hch : SChain x conts.flatten) (hs : ∀ s ∈ conts.flatten, SliceFine a b s) :
    ∃ cs, allContribs sv cv conts = some cs := by
  induction conts generalizing x with
  | nil => exact ⟨[], rfl⟩
  | cons c rest ih =>
    rw [List.flatten_cons, schain_append] at hch
    obtain ⟨c1, h1⟩ := containerContribs_isSome sv cv a b c x (hg c List.mem_cons_self) hch.1
      (fun s hs' => hs s (by simp [hs']))
    obtain ⟨c2, h2⟩ := ih (endOf x c) (fun c' hc' => hg c' (List.mem_cons_of_mem _ hc')) hch.2
      (fun s hs' => hs s (by rw [List.flatten_cons]; exact List.mem_append_right _ hs'))
    exact ⟨c1 ++ c2, by simp only [allContribs, h1, h2]⟩

theorem ends_cons_append {α : Type} (f la : α) (i : List α) : ends (f :: (i ++ [la])) = some (f, i, la) := by
  simp [ends]

/-- **no assertion fires on a valid refinement tree** (without forced completion): `set_grid` and `get_weights`
    return a weight vector for every grouping, slice version and container version -/
theorem valid_weights_defined (cfg : Cfg) (hfb : cfg.forceBalanced = false) (grid : List ℚ) (lv : List ℕ)
    (hv : ValidTree grid lv) : ∃ ws, weights cfg grid lv = .ok ws := by
  obtain ⟨a, b, inner, hab, hlen, hz, href⟩ := hv
  have hl2 : ¬ (grid.length ≠ lv.length ∨ grid.length < 2) := by
    have : (grid.zip lv).length = inner.length + 2 := by rw [hz]; simp
    rw [List.length_zip, ← hlen, Nat.min_self] at this
    intro h
    rcases h with h | h
    · exact h hlen
    · omega
  have he : effectiveGrid cfg grid lv = some (grid, lv) := by
    simp only [effectiveGrid, hfb]
    rw [if_neg hl2]
    simp
  have hinv : SegInv a b (a, 0) (b, 0) [(a, b)] :=
    ⟨by simp [stepWidth_eq], rfl, hab, by
      intro q hq
      simp only [List.mem_singleton] at hq
      subst hq
      exact ⟨le_refl _, le_refl _, ne_of_lt hab⟩, rfl⟩
  have hfine := refSeg_slices href (inner.length + 1) a b [(a, b)] (Nat.lt_succ_self _) hinv
  set ss := slicesRec (inner.length + 1) (a, 0) inner (b, 0) [(a, b)] with hss
  have hso : slicesOf (grid.zip lv) = some (a, b, ss) := by
    simp only [slicesOf, hz, ends_cons_append]
    rfl
  have hall : ss.all (sliceOk a b) = true := List.all_eq_true.mpr (fun s hs => (hfine s hs).1)
  obtain ⟨c1, c2, c3⟩ := slicesRec_chain (inner.length + 1) (a, 0) (b, 0) inner [(a, b)] (Nat.lt_succ_self _)
  obtain ⟨a1, a2⟩ := adjust_spec cfg.grouping _ (groupRuns_runs (decide (cfg.grouping = Grouping.unit)) ss)
  rw [groupRuns_flatten] at a1
  obtain ⟨cs, hcs⟩ := allContribs_isSome cfg.sliceVer cfg.contVer a b _ a a2 (by rw [a1]; exact c1)
    (by rw [a1]; exact hfine)
  refine ⟨finalWeights grid cs, ?_⟩
  simp only [weights, setGrid, he, hso, hall, if_true, EG.weights, hcs]

/-! ## forced completion of a valid tree is a valid tree -/

theorem refSeg_build {L R : PL} {inner : List PL} (h : RefSeg L inner R) :
    ∀ (fuel k : ℕ), inner.length < fuel → max L.2 R.2 + 1 = k →
      BTree.Dyadic ((L.1 + R.1) / 2) ((R.1 - L.1) / 2) (BTree.build fuel inner) ∧
      (BTree.build fuel inner).pointLevels k = inner := by
  induction h with
  | leaf L R =>
    intro fuel k hf _
    cases fuel with
    | zero => omega
    | succ f => simp [BTree.build, splitMin, BTree.Dyadic, BTree.pointLevels]
  | bisect L R m lp rp hmid hm h1 h2 ih1 ih2 =>
    intro fuel k hf hk
    cases fuel with
    | zero => omega
    | succ f =>
      simp only [List.length_append, List.length_cons] at hf
      simp only [BTree.build, refSeg_split hm h1 h2]
      obtain ⟨d1, p1⟩ := ih1 f (k + 1) (by omega) (by omega)
      obtain ⟨d2, p2⟩ := ih2 f (k + 1) (by omega) (by omega)
      refine ⟨⟨hmid, ?_, ?_⟩, ?_⟩
      · have e1 : (L.1 + m.1) / 2 = (L.1 + R.1) / 2 - (R.1 - L.1) / 2 / 2 := by rw [hmid]; ring
        have e2 : (m.1 - L.1) / 2 = (R.1 - L.1) / 2 / 2 := by rw [hmid]; ring
        rw [← e1, ← e2]; exact d1
      · have e1 : (m.1 + R.1) / 2 = (L.1 + R.1) / 2 + (R.1 - L.1) / 2 / 2 := by rw [hmid]; ring
        have e2 : (R.1 - m.1) / 2 = (R.1 - L.1) / 2 / 2 := by rw [hmid]; ring
        rw [← e1, ← e2]; exact d2
      · simp only [BTree.pointLevels, p1, p2]
        have : (m.1, k) = m := by
          have : m.2 = k := by omega
          rw [← this]
        rw [this]

theorem dyadic_refSeg (t : BTree) : ∀ (c w : ℚ) (k : ℕ) (L R : PL), BTree.Dyadic c w t → max L.2 R.2 + 1 = k →
    L.1 = c - w → R.1 = c + w → RefSeg L (t.pointLevels k) R := by
  induction t with
  | nil => intro c w k L R _ _ _ _; exact RefSeg.leaf L R
  | node l p r ihl ihr =>
    intro c w k L R hd hk hL hR
    obtain ⟨hp, hl, hr⟩ := hd
    simp only [BTree.pointLevels]
    refine RefSeg.bisect L R (p, k) _ _ ?_ ?_ ?_ ?_
    · simp only; rw [hp, hL, hR]; ring
    · simp only; omega
    · exact ihl (c - w / 2) (w / 2) (k + 1) L (p, k) hl (by simp only; omega) (by rw [hL]; ring)
        (by simp only; rw [hp]; ring)
    · exact ihr (c + w / 2) (w / 2) (k + 1) (p, k) R hr (by simp only; omega) (by simp only; rw [hp]; ring)
        (by rw [hR]; ring)

/-- the grid that `set_grid` builds with `force_balanced_refinement_tree` from a valid tree with at least one
    inner point is again a valid refinement tree -/
theorem effectiveGrid_valid (cfg : Cfg) (hfb : cfg.forceBalanced = true) (grid : List ℚ) (lv : List ℕ)
    (hv : ValidTree grid lv) (h3 : 3 ≤ grid.length) :
    ∃ g l, effectiveGrid cfg grid lv = some (g, l) ∧ ValidTree g l := by
  obtain ⟨a, b, inner, hab, hlen, hz, href⟩ := hv
  have hzl : (grid.zip lv).length = inner.length + 2 := by rw [hz]; simp
  rw [List.length_zip, ← hlen, Nat.min_self] at hzl
  have hinner : inner ≠ [] := by intro h0; rw [h0] at hzl; simp at hzl; omega
  obtain ⟨d1, p1⟩ := refSeg_build href (inner.length + 1) 1 (Nat.lt_succ_self _) (by simp)
  simp only at d1
  set root := BTree.build (inner.length + 1) inner with hroot
  have hrn : root ≠ .nil := by
    intro h0
    exact hinner ((BTree.build_eq_nil_iff _ inner (Nat.lt_succ_self _)).mp h0)
  have hinit : GBT.initTree grid lv = some ⟨a, b, root⟩ := by
    simp only [GBT.initTree]
    rw [if_neg (not_not.mpr hlen), hz]
    cases hi : inner ++ [(b, 0)] with
    | nil => simp at hi
    | cons r1 rs =>
      simp only
      rw [← hi]
      have : (inner ++ [(b, (0 : ℕ))]).reverse = (b, 0) :: inner.reverse := by simp
      rw [this]
      simp only [List.reverse_reverse, ne_eq, not_true_eq_false, or_self, if_false]
      rw [← hroot]
      cases hr : root with
      | nil => exact absurd hr hrn
      | node l p r => rfl
  have hl2 : ¬ (grid.length ≠ lv.length ∨ grid.length < 2) := by
    intro h; rcases h with h | h
    · exact h hlen
    · omega
  refine ⟨(GBT.forceFull ⟨a, b, root⟩).grid, (GBT.forceFull ⟨a, b, root⟩).gridLevels, ?_, ?_⟩
  · simp only [effectiveGrid]
    have hc : (cfg.forceBalanced && decide (grid.length > 2)) = true := by
      simp only [hfb, Bool.true_and, decide_eq_true_eq]; omega
    rw [if_neg hl2, if_pos hc, hinit]
  · have hd := BTree.forceFull_dyadic root _ _ d1
    have href' := dyadic_refSeg root.forceFull ((a + b) / 2) ((b - a) / 2) 1 (a, 0) (b, 0) hd (by simp)
      (by simp only; ring) (by simp only; ring)
    refine ⟨a, b, root.forceFull.pointLevels 1, hab, ?_, ?_, href'⟩
    · simp [GBT.grid, GBT.gridLevels, GBT.forceFull, btree_len _ 1]
    · simp only [GBT.grid, GBT.gridLevels, GBT.forceFull, List.zip_cons_cons]
      rw [List.zip_append (btree_len _ 1), BTree.pointLevels_eq_zip]
      simp

/-- with `force_balanced_refinement_tree` the object behaves as the plain object on the completed grid -/
theorem weights_of_effective (cfg : Cfg) (grid : List ℚ) (lv : List ℕ) (g : List ℚ) (l : List ℕ)
    (he : effectiveGrid cfg grid lv = some (g, l)) (hlen : g.length = l.length) (h2 : 2 ≤ g.length) :
    weights cfg grid lv = weights { cfg with forceBalanced := false } g l := by
  have he' : effectiveGrid { cfg with forceBalanced := false } g l = some (g, l) := by
    simp only [effectiveGrid]
    have : ¬ (g.length ≠ l.length ∨ g.length < 2) := by
      intro h; rcases h with h | h
      · exact h hlen
      · omega
    rw [if_neg this]
    simp
  simp only [weights, setGrid, he, he', EG.weights]

/-- **no assertion fires on a valid refinement tree with forced completion** either, when the tree has an inner
    point (the unrefined grid is not completed, see `valid_weights_defined_all`) -/
theorem valid_weights_defined_fb (cfg : Cfg) (hfb : cfg.forceBalanced = true) (grid : List ℚ) (lv : List ℕ)
    (hv : ValidTree grid lv) (h3 : 3 ≤ grid.length) : ∃ ws, weights cfg grid lv = .ok ws := by
  obtain ⟨g, l, he, hv'⟩ := effectiveGrid_valid cfg hfb grid lv hv h3
  have hlen := effectiveGrid_len cfg grid lv g l he
  have h2 : 2 ≤ g.length := by
    obtain ⟨a, b, inner, _, hl, hz, _⟩ := hv'
    have : (g.zip l).length = inner.length + 2 := by rw [hz]; simp
    rw [List.length_zip, ← hl, Nat.min_self] at this
    omega
  rw [weights_of_effective cfg grid lv g l he hlen h2]
  exact valid_weights_defined _ rfl g l hv'

/-- **no assertion fires on a valid refinement tree**, for every configuration (the tree is completed only when it
    has an inner point: `force_balanced_refinement_tree and len(grid) > 2`) -/
theorem valid_weights_defined_all (cfg : Cfg) (grid : List ℚ) (lv : List ℕ) (hv : ValidTree grid lv) :
    ∃ ws, weights cfg grid lv = .ok ws := by
  cases hb : cfg.forceBalanced with
  | false => exact valid_weights_defined cfg hb grid lv hv
  | true =>
    by_cases h3 : 3 ≤ grid.length
    · exact valid_weights_defined_fb cfg hb grid lv hv h3
    · obtain ⟨a, b, inner, hab, hlen, hz, href⟩ := hv
      have hzl : (grid.zip lv).length = inner.length + 2 := by rw [hz]; simp
      rw [List.length_zip, ← hlen, Nat.min_self] at hzl
      have hl2 : ¬ (grid.length ≠ lv.length ∨ grid.length < 2) := by
        intro h; rcases h with h | h
        · exact h hlen
        · omega
      have hc : ¬ (cfg.forceBalanced && decide (grid.length > 2)) = true := by
        simp only [hb, Bool.true_and, decide_eq_true_eq]; omega
      have he : effectiveGrid cfg grid lv = some (grid, lv) := by
        simp only [effectiveGrid]
        rw [if_neg hl2, if_neg hc]
      rw [weights_of_effective cfg grid lv grid lv he hlen (by omega)]
      exact valid_weights_defined _ rfl grid lv ⟨a, b, inner, hab, hlen, hz, href⟩

end SparseSpace.Romberg
