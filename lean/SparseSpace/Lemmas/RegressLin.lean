import SparseSpace.Lemmas.RegressMat
/-!
# Lemmas about `Model/Regress`, part 3: list linear algebra and the normal equations
-/
namespace SparseSpace.Regress

/-! ## dot products and vector operations -/

@[simp] theorem dot_nil_left (v : Vec) : dot [] v = 0 := by simp [dot]
@[simp] theorem dot_nil_right (u : Vec) : dot u [] = 0 := by simp [dot]
@[simp] theorem dot_cons (a b : ℚ) (u v : Vec) : dot (a :: u) (b :: v) = a * b + dot u v := by simp [dot]

@[simp] theorem vadd_nil_left (v : Vec) : vadd [] v = [] := by simp [vadd]
@[simp] theorem vadd_nil_right (u : Vec) : vadd u [] = [] := by simp [vadd]
@[simp] theorem vadd_cons (a b : ℚ) (u v : Vec) : vadd (a :: u) (b :: v) = (a + b) :: vadd u v := by simp [vadd]
@[simp] theorem vsub_nil_left (v : Vec) : vsub [] v = [] := by simp [vsub]
@[simp] theorem vsub_nil_right (u : Vec) : vsub u [] = [] := by simp [vsub]
@[simp] theorem vsub_cons (a b : ℚ) (u v : Vec) : vsub (a :: u) (b :: v) = (a - b) :: vsub u v := by simp [vsub]
@[simp] theorem vsmul_nil (c : ℚ) : vsmul c [] = [] := rfl
@[simp] theorem vsmul_cons (c a : ℚ) (u : Vec) : vsmul c (a :: u) = (c * a) :: vsmul c u := rfl
@[simp] theorem mulVec_nil (v : Vec) : mulVec [] v = [] := rfl
@[simp] theorem mulVec_cons (r : Vec) (A : Mat) (v : Vec) : mulVec (r :: A) v = dot r v :: mulVec A v := rfl

@[simp] theorem length_vadd (u v : Vec) : (vadd u v).length = min u.length v.length := by simp [vadd]
@[simp] theorem length_vsub (u v : Vec) : (vsub u v).length = min u.length v.length := by simp [vsub]
@[simp] theorem length_vsmul (c : ℚ) (u : Vec) : (vsmul c u).length = u.length := by simp [vsmul]
@[simp] theorem length_mulVec (A : Mat) (v : Vec) : (mulVec A v).length = A.length := by simp [mulVec]
@[simp] theorem length_zeroVec (n : Nat) : (zeroVec n).length = n := by simp [zeroVec]

theorem dot_comm (u v : Vec) : dot u v = dot v u := by
  induction u generalizing v with
  | nil => simp
  | cons a u ih => cases v with
    | nil => simp
    | cons b v => simp [ih v, mul_comm]

theorem dot_vadd_left (u v w : Vec) (h : u.length = v.length) : dot (vadd u v) w = dot u w + dot v w := by
  induction u generalizing v w with
  | nil => cases v <;> simp_all
  | cons a u ih =>
    cases v with
    | nil => simp at h
    | cons b v =>
      cases w with
      | nil => simp
      | cons c w =>
        simp only [List.length_cons, Nat.add_right_cancel_iff] at h
        simp only [vadd_cons, dot_cons, ih v w h]; ring

theorem dot_vsub_left (u v w : Vec) (h : u.length = v.length) : dot (vsub u v) w = dot u w - dot v w := by
  induction u generalizing v w with
  | nil => cases v <;> simp_all
  | cons a u ih =>
    cases v with
    | nil => simp at h
    | cons b v =>
      cases w with
      | nil => simp
      | cons c w =>
        simp only [List.length_cons, Nat.add_right_cancel_iff] at h
        simp only [vsub_cons, dot_cons, ih v w h]; ring

theorem dot_vsmul_left (c : ℚ) (u w : Vec) : dot (vsmul c u) w = c * dot u w := by
  induction u generalizing w with
  | nil => simp
  | cons a u ih => cases w with
    | nil => simp
    | cons b w => simp only [vsmul_cons, dot_cons, ih w]; ring

theorem dot_vadd_right (w u v : Vec) (h : u.length = v.length) : dot w (vadd u v) = dot w u + dot w v := by
  rw [dot_comm, dot_vadd_left _ _ _ h, dot_comm u, dot_comm v]

theorem dot_vsub_right (w u v : Vec) (h : u.length = v.length) : dot w (vsub u v) = dot w u - dot w v := by
  rw [dot_comm, dot_vsub_left _ _ _ h, dot_comm u, dot_comm v]

theorem dot_vsmul_right (c : ℚ) (w u : Vec) : dot w (vsmul c u) = c * dot w u := by
  rw [dot_comm, dot_vsmul_left, dot_comm]

theorem dot_zeroVec_right (n : Nat) (w : Vec) : dot w (zeroVec n) = 0 := by
  induction n generalizing w with
  | zero => simp [zeroVec]
  | succ n ih => cases w with
    | nil => simp
    | cons a w =>
      have : zeroVec (n + 1) = 0 :: zeroVec n := by simp [zeroVec, List.replicate_succ]
      rw [this, dot_cons, ih w]; ring

theorem dot_self_nonneg (u : Vec) : 0 ≤ dot u u := by
  induction u with
  | nil => simp
  | cons a u ih => rw [dot_cons]; have := mul_self_nonneg a; linarith

theorem vadd_vsub_cancel (a b : Vec) (h : a.length = b.length) : vadd a (vsub b a) = b := by
  induction a generalizing b with
  | nil => cases b <;> simp_all
  | cons x a ih => cases b with
    | nil => simp at h
    | cons y b =>
      simp only [List.length_cons, Nat.add_right_cancel_iff] at h
      simp only [vsub_cons, vadd_cons, ih b h]; congr 1; ring

theorem vsub_vadd_comm (a b y : Vec) : vsub (vadd a b) y = vadd (vsub a y) b := by
  induction a generalizing b y with
  | nil => simp
  | cons x a ih => cases b with
    | nil => simp
    | cons z b => cases y with
      | nil => simp
      | cons w y => simp only [vadd_cons, vsub_cons, ih b y]; congr 1; ring

theorem mulVec_vadd (A : Mat) (u v : Vec) (h : u.length = v.length) :
    mulVec A (vadd u v) = vadd (mulVec A u) (mulVec A v) := by
  induction A with
  | nil => simp
  | cons r A ih => simp only [mulVec_cons, vadd_cons, ih, dot_vadd_right r u v h]

/-! ## shapes -/

/-- every row has `n` entries -/
def Rows (n : Nat) (A : Mat) : Prop := ∀ r ∈ A, r.length = n

theorem rows_zeroMat (n : Nat) : Rows n (zeroMat n) := by
  intro r hr; simp only [zeroMat, List.mem_replicate] at hr; rw [hr.2]; simp

theorem rows_outer (u v : Vec) : Rows v.length (outer u v) := by
  intro r hr; simp only [outer, List.mem_map] at hr; obtain ⟨a, _, rfl⟩ := hr; simp

theorem rows_madd (n : Nat) (X Y : Mat) (hX : Rows n X) (hY : Rows n Y) : Rows n (madd X Y) := by
  induction X generalizing Y with
  | nil => intro r hr; simp [madd] at hr
  | cons x X ih => cases Y with
    | nil => intro r hr; simp [madd] at hr
    | cons y Y =>
      intro r hr
      simp only [madd, List.zipWith_cons_cons, List.mem_cons] at hr
      rcases hr with rfl | hr
      · simp [hX x (by simp), hY y (by simp)]
      · exact ih Y (fun r hr => hX r (by simp [hr])) (fun r hr => hY r (by simp [hr])) r hr

theorem rows_msmul (n : Nat) (c : ℚ) (X : Mat) (hX : Rows n X) : Rows n (msmul c X) := by
  intro r hr; simp only [msmul, List.mem_map] at hr; obtain ⟨a, ha, rfl⟩ := hr; simp [hX a ha]

theorem rows_AtA (n : Nat) (A : Mat) (hA : Rows n A) : Rows n (AtA n A) := by
  induction A with
  | nil => exact rows_zeroMat n
  | cons r A ih =>
    have hr : r.length = n := hA r (by simp)
    have : Rows n (outer r r) := by have := rows_outer r r; rwa [hr] at this
    exact rows_madd n _ _ this (ih (fun r hr => hA r (by simp [hr])))

theorem length_Atv (n : Nat) (A : Mat) (r : Vec) (hA : Rows n A) : (Atv n A r).length = n := by
  induction A generalizing r with
  | nil => simp [Atv]
  | cons row A ih => cases r with
    | nil => simp [Atv]
    | cons x r =>
      simp only [Atv, length_vadd, length_vsmul, hA row (by simp), ih r (fun r hr => hA r (by simp [hr]))]
      simp

/-! ## matrix–vector identities -/

theorem mulVec_madd (n : Nat) (X Y : Mat) (α : Vec) (hX : Rows n X) (hY : Rows n Y) :
    mulVec (madd X Y) α = vadd (mulVec X α) (mulVec Y α) := by
  induction X generalizing Y with
  | nil => simp [madd]
  | cons x X ih => cases Y with
    | nil => simp [madd]
    | cons y Y =>
      have h1 : x.length = y.length := by rw [hX x (by simp), hY y (by simp)]
      have := ih Y (fun r hr => hX r (by simp [hr])) (fun r hr => hY r (by simp [hr]))
      simp only [madd, List.zipWith_cons_cons, mulVec_cons, vadd_cons] at this ⊢
      rw [this, dot_vadd_left _ _ _ h1]

theorem mulVec_msmul (c : ℚ) (X : Mat) (α : Vec) : mulVec (msmul c X) α = vsmul c (mulVec X α) := by
  induction X with
  | nil => rfl
  | cons x X ih =>
    simp only [msmul, List.map_cons, mulVec_cons, vsmul_cons, dot_vsmul_left] at ih ⊢
    rw [ih]

theorem mulVec_outer (u v α : Vec) : mulVec (outer u v) α = vsmul (dot v α) u := by
  induction u with
  | nil => rfl
  | cons a u ih =>
    simp only [outer, List.map_cons, mulVec_cons, vsmul_cons, dot_vsmul_left] at ih ⊢
    rw [ih, mul_comm]

theorem mulVec_zeroMat (n : Nat) (α : Vec) : mulVec (zeroMat n) α = zeroVec n := by
  simp only [zeroMat, mulVec, List.map_replicate, zeroVec]
  congr 1
  rw [dot_comm]; exact dot_zeroVec_right n α

/-- `np.dot(A.T, A) @ α = A.T @ (A @ α)` -/
theorem mulVec_AtA (n : Nat) (A : Mat) (α : Vec) (hA : Rows n A) :
    mulVec (AtA n A) α = Atv n A (mulVec A α) := by
  induction A with
  | nil => simp [AtA, Atv, mulVec_zeroMat]
  | cons r A ih =>
    have hr : r.length = n := hA r (by simp)
    have hA' : Rows n A := fun r hr => hA r (by simp [hr])
    have h1 : Rows n (outer r r) := by have := rows_outer r r; rwa [hr] at this
    have : AtA n (r :: A) = madd (outer r r) (AtA n A) := rfl
    rw [this, mulVec_madd n _ _ _ h1 (rows_AtA n A hA'), mulVec_outer, ih hA']
    rfl

/-- adjointness: `(A β)·r = β·(Aᵀ r)` -/
theorem dot_mulVec_Atv (n : Nat) (A : Mat) (β r : Vec) (hA : Rows n A) :
    dot (mulVec A β) r = dot β (Atv n A r) := by
  induction A generalizing r with
  | nil => simp [Atv, dot_zeroVec_right]
  | cons row A ih => cases r with
    | nil => simp [Atv, dot_zeroVec_right]
    | cons x r =>
      have hA' : Rows n A := fun r hr => hA r (by simp [hr])
      have hl : (vsmul x row).length = (Atv n A r).length := by
        rw [length_vsmul, hA row (by simp), length_Atv n A r hA']
      simp only [mulVec_cons, dot_cons, Atv]
      rw [dot_vadd_right _ _ _ hl, dot_vsmul_right, ih r hA', dot_comm β row]; ring

/-! ## the identity matrix -/

theorem rows_idMat (n : Nat) : Rows n (idMat n) := by
  induction n with
  | zero => intro r hr; simp [idMat] at hr
  | succ n ih =>
    intro r hr
    simp only [idMat, List.mem_cons, List.mem_map] at hr
    rcases hr with rfl | ⟨a, ha, rfl⟩
    · simp
    · simp [ih a ha]

theorem length_idMat (n : Nat) : (idMat n).length = n := by
  induction n with
  | zero => rfl
  | succ n ih => simp [idMat, ih]

theorem mulVec_idMat (n : Nat) (v : Vec) (h : v.length = n) : mulVec (idMat n) v = v := by
  induction n generalizing v with
  | zero => cases v with
    | nil => rfl
    | cons a v => simp at h
  | succ n ih => cases v with
    | nil => simp at h
    | cons a v =>
      simp only [List.length_cons, Nat.add_right_cancel_iff] at h
      have h0 : dot (zeroVec n) v = 0 := by rw [dot_comm]; exact dot_zeroVec_right n v
      have hm : mulVec (List.map (fun x => 0 :: x) (idMat n)) (a :: v) = mulVec (idMat n) v := by
        simp only [mulVec, List.map_map]
        apply List.map_congr_left
        intro r _
        simp
      simp only [idMat, mulVec_cons, dot_cons, h0, hm, ih v h]
      congr 1; ring

/-! ## symmetric / positive semi-definite bilinear forms of list matrices -/

def MSymm (n : Nat) (M : Mat) : Prop :=
  ∀ u v : Vec, u.length = n → v.length = n → dot u (mulVec M v) = dot v (mulVec M u)

def MPsd (n : Nat) (M : Mat) : Prop := ∀ v : Vec, v.length = n → 0 ≤ dot v (mulVec M v)

theorem msymm_idMat (n : Nat) : MSymm n (idMat n) := by
  intro u v hu hv; rw [mulVec_idMat n v hv, mulVec_idMat n u hu, dot_comm]

theorem mpsd_idMat (n : Nat) : MPsd n (idMat n) := by
  intro v hv; rw [mulVec_idMat n v hv]; exact dot_self_nonneg v

/-! ## the quadratic functional and its normal equations -/

/-- `c·|Aγ − y|² + λ γᵀMγ` -/
def quadF (c lam : ℚ) (A : Mat) (y : Vec) (M : Mat) (γ : Vec) : ℚ :=
  c * dot (vsub (mulVec A γ) y) (vsub (mulVec A γ) y) + lam * dot γ (mulVec M γ)

/-- completing the square: the difference of the functional at `β` and `α` -/
theorem quadF_diff (c lam : ℚ) (n : Nat) (A : Mat) (y : Vec) (M : Mat) (α β : Vec)
    (hy : y.length = A.length) (hα : α.length = n) (hβ : β.length = n) (hsymm : MSymm n M) :
    quadF c lam A y M β - quadF c lam A y M α =
      c * dot (mulVec A (vsub β α)) (mulVec A (vsub β α)) + lam * dot (vsub β α) (mulVec M (vsub β α))
      + 2 * (c * dot (mulVec A (vsub β α)) (vsub (mulVec A α) y) + lam * dot (vsub β α) (mulVec M α)) := by
  set δ := vsub β α with hδ
  have hδl : δ.length = n := by rw [hδ, length_vsub, hα, hβ]; simp
  have hαδ : α.length = δ.length := by rw [hα, hδl]
  have hb : β = vadd α δ := by rw [hδ, vadd_vsub_cancel α β (by rw [hα, hβ])]
  have hAb : mulVec A β = vadd (mulVec A α) (mulVec A δ) := by rw [hb, mulVec_vadd A α δ hαδ]
  have hMb : mulVec M β = vadd (mulVec M α) (mulVec M δ) := by rw [hb, mulVec_vadd M α δ hαδ]
  set p := vsub (mulVec A α) y with hp
  set q := mulVec A δ with hq
  have hpl : p.length = A.length := by rw [hp, length_vsub, length_mulVec, hy]; simp
  have hql : q.length = A.length := by rw [hq, length_mulVec]
  have hpq : p.length = q.length := by rw [hpl, hql]
  have hres : vsub (mulVec A β) y = vadd p q := by rw [hAb, vsub_vadd_comm]
  have hMl : (mulVec M α).length = (mulVec M δ).length := by simp
  have e1 : dot (vadd p q) (vadd p q) = dot p p + 2 * dot q p + dot q q := by
    rw [dot_vadd_left _ _ _ hpq, dot_vadd_right _ _ _ hpq, dot_vadd_right _ _ _ hpq, dot_comm p q]; ring
  have e2 : dot β (mulVec M β) = dot α (mulVec M α) + 2 * dot δ (mulVec M α) + dot δ (mulVec M δ) := by
    rw [hMb, hb, dot_vadd_left _ _ _ hαδ, dot_vadd_right _ _ _ hMl, dot_vadd_right _ _ _ hMl,
      hsymm α δ hα hδl]; ring
  unfold quadF
  rw [hres, e1, e2]
  ring

/-- **normal equations ⇒ minimiser.**  If `α` satisfies the normal equations in weak form
(`c·(Aδ)·(Aα) + λ δ·Mα = c·(Aδ)·y` for every direction `δ`), `M` is symmetric positive semi-definite and
`c, λ ≥ 0`, then `α` minimises the functional. -/
theorem quadF_min_of_weak (c lam : ℚ) (n : Nat) (A : Mat) (y : Vec) (M : Mat) (α β : Vec)
    (hc : 0 ≤ c) (hlam : 0 ≤ lam)
    (hy : y.length = A.length) (hα : α.length = n) (hβ : β.length = n) (hsymm : MSymm n M) (hpsd : MPsd n M)
    (hweak : ∀ δ : Vec, δ.length = n →
      c * dot (mulVec A δ) (mulVec A α) + lam * dot δ (mulVec M α) = c * dot (mulVec A δ) y) :
    quadF c lam A y M α ≤ quadF c lam A y M β := by
  have hd := quadF_diff c lam n A y M α β hy hα hβ hsymm
  have hδl : (vsub β α).length = n := by rw [length_vsub, hα, hβ]; simp
  have hw := hweak (vsub β α) hδl
  have hlen : (mulVec A α).length = y.length := by rw [length_mulVec, hy]
  rw [dot_vsub_right _ _ _ hlen] at hd
  have h1 := dot_self_nonneg (mulVec A (vsub β α))
  have h2 := hpsd (vsub β α) hδl
  have h3 : 0 ≤ c * dot (mulVec A (vsub β α)) (mulVec A (vsub β α)) := mul_nonneg hc h1
  have h4 : 0 ≤ lam * dot (vsub β α) (mulVec M (vsub β α)) := mul_nonneg hlam h2
  nlinarith [hd, hw, h3, h4]

/-- the weak form follows from the matrix equation `(c·AᵀA + λM) α = c·Aᵀy` the code assembles -/
theorem weak_of_system (c lam : ℚ) (n : Nat) (A : Mat) (y : Vec) (M : Mat) (α : Vec)
    (hA : Rows n A) (hM : Rows n M) (hMl : M.length = n)
    (hsolve : mulVec (madd (msmul c (AtA n A)) (msmul lam M)) α = vsmul c (Atv n A y)) :
    ∀ δ : Vec, δ.length = n →
      c * dot (mulVec A δ) (mulVec A α) + lam * dot δ (mulVec M α) = c * dot (mulVec A δ) y := by
  intro δ _
  rw [mulVec_madd n _ _ _ (rows_msmul n c _ (rows_AtA n A hA)) (rows_msmul n lam _ hM),
    mulVec_msmul, mulVec_msmul, mulVec_AtA n A α hA] at hsolve
  have hl : (vsmul c (Atv n A (mulVec A α))).length = (vsmul lam (mulVec M α)).length := by
    rw [length_vsmul, length_vsmul, length_Atv n A _ hA, length_mulVec, hMl]
  have := congrArg (dot δ) hsolve
  rw [dot_vadd_right _ _ _ hl, dot_vsmul_right, dot_vsmul_right, dot_vsmul_right,
    ← dot_mulVec_Atv n A δ _ hA, ← dot_mulVec_Atv n A δ _ hA] at this
  exact this

end SparseSpace.Regress
