import SparseSpace.Lemmas.Exactness1D
import Mathlib.Algebra.BigOperators.Group.List.Basic
import Mathlib.Algebra.Ring.Rat
import Mathlib.Data.Int.Cast.Lemmas
/-!
# C04: extend–split and cell strategy — exactness for multilinear functions

* `dyadic_wf`         : the uniform node list `linspace(s, e, 2^k + 1)` is strictly increasing from `s` to `e`;
* `quad_uniform_aff`  : the local trapezoid rule of ANY level integrates a function affine on `[s,e]` exactly;
* `area_integral_exact`: an area whose active coefficients sum to 1 contributes the exact integral of `⊗ u_d`;
* `tiling_exact`      : the exact integrals over the leaves of a refinement tree add up to the integral over the root;
* `cellParents_sum`   : the ±1 parent stencil of the cell scheme sums to 1 on `lmin` cells and to 0 on refined cells.
-/
namespace SparseSpace.Exact

/-! ## uniform node lists -/

theorem mapRange'_wf (f : Nat → Rat) (hf : ∀ i, f i < f (i + 1)) : ∀ (n s : Nat),
    (List.range' s (n + 1)).map f = f s :: (List.range' (s + 1) n).map f ∧
    StrictSorted (f s :: (List.range' (s + 1) n).map f) ∧
    lastOf (f s) ((List.range' (s + 1) n).map f) = f (s + n)
  | 0, s => by simp [List.range', StrictSorted, lastOf]
  | n + 1, s => by
      obtain ⟨h1, h2, h3⟩ := mapRange'_wf f hf n (s + 1)
      refine ⟨by simp [List.range'], ?_, ?_⟩
      · rw [h1]
        exact ⟨hf s, h2⟩
      · rw [h1]
        simp only [lastOf]
        rw [h3]
        congr 1
        omega

theorem step_lt (a h : Rat) (hh : 0 < h) (i : Nat) : a + (i : Rat) * h < a + ((i + 1 : Nat) : Rat) * h := by
  push_cast
  linarith

theorem dyadic_wf (a b : Rat) (k : Nat) (hab : a < b) :
    ∃ xs', dyadic a b k = a :: xs' ∧ StrictSorted (a :: xs') ∧ lastOf a xs' = b := by
  have hn : (0 : Rat) < ((2 ^ k : Nat) : Rat) := by exact_mod_cast Nat.pos_of_ne_zero (by positivity)
  have hh : 0 < (b - a) / ((2 ^ k : Nat) : Rat) := div_pos (sub_pos.2 hab) hn
  obtain ⟨h1, h2, h3⟩ := mapRange'_wf (fun (i : Nat) => a + (i : Rat) * ((b - a) / ((2 ^ k : Nat) : Rat)))
    (fun i => step_lt a _ hh i) (2 ^ k) 0
  have h0 : a + ((0 : Nat) : Rat) * ((b - a) / ((2 ^ k : Nat) : Rat)) = a := by simp
  refine ⟨(List.range' (0 + 1) (2 ^ k)).map fun (i : Nat) => a + (i : Rat) * ((b - a) / ((2 ^ k : Nat) : Rat)), ?_, ?_, ?_⟩
  · unfold dyadic
    rw [List.range_eq_range', h1, h0]
  · rw [h0] at h2
    exact h2
  · rw [h0] at h3
    rw [h3]
    have hne : ((2 ^ k : Nat) : Rat) ≠ 0 := ne_of_gt hn
    simp only [Nat.zero_add]
    field_simp
    ring

/-- on ANY sorted list from `p` to `q` the code's weighted rule integrates a function affine on `[p,q]` exactly -/
theorem quad_affOn (u : Rat → Rat) (xs : List Rat) (p : Rat) (hs : StrictSorted (p :: xs))
    (ha : AffOn u p (lastOf p xs)) : quad u (p :: xs) = (lastOf p xs - p) * (u p + u (lastOf p xs)) / 2 := by
  rw [quad_eq_trap]
  exact trap_affOn u xs p hs ha

/-- the local rule of every level on `[s,e]` -/
theorem quad_uniform_aff (u : Rat → Rat) (s e : Rat) (k : Nat) (hse : s < e) (ha : AffOn u s e) :
    quad u (uniform s e k) = (e - s) * (u s + u e) / 2 := by
  obtain ⟨xs', h1, h2, h3⟩ := dyadic_wf s e k hse
  unfold uniform
  rw [h1]
  have := quad_affOn u xs' s h2 (by rw [h3]; exact ha)
  rw [h3] at this
  exact this

/-- a function affine on `[p, last]` is piecewise linear w.r.t. every sorted list from `p` to `last` -/
theorem plOn_of_affOn (u : Rat → Rat) : ∀ (xs : List Rat) (p : Rat), StrictSorted (p :: xs) →
    AffOn u p (lastOf p xs) → PLOn u (p :: xs)
  | [], _, _, _ => trivial
  | y :: rest, p, hs, ha => by
      simp only [lastOf] at ha
      have hyq : y ≤ lastOf y rest := head_le_lastOf hs.2
      have hpq : p < lastOf y rest := lt_of_lt_of_le hs.1 hyq
      exact ⟨affOn_sub ha hpq (le_refl _) (le_of_lt hs.1) hyq,
        plOn_of_affOn u rest y hs.2 (affOn_sub ha hpq (le_of_lt hs.1) hyq (le_refl _))⟩

theorem interp_uniform_aff (u : Rat → Rat) (s e x : Rat) (k : Nat) (hse : s < e) (ha : AffOn u s e)
    (h1 : s ≤ x) (h2 : x ≤ e) : interp u (uniform s e k) x = u x := by
  obtain ⟨xs', h, hs, hl⟩ := dyadic_wf s e k hse
  unfold uniform
  rw [h]
  have hne : xs' ≠ [] := by
    intro hnil
    subst hnil
    simp only [lastOf] at hl
    exact absurd hl (ne_of_lt hse)
  exact interp_reproduces_pl u xs' s x hs hne (plOn_of_affOn u xs' s hs (by rw [hl]; exact ha)) h1 (by rw [hl]; exact h2)

/-! ## one area -/

/-- every side of the box is non-degenerate and `u_d` is affine on it -/
def AffBox (u : Nat → Rat → Rat) : Nat → List (Rat × Rat) → Prop
  | _, [] => True
  | d, b :: bs => (b.1 < b.2 ∧ AffOn (u d) b.1 b.2) ∧ AffBox u (d + 1) bs

theorem boxProd_quad_exact (u : Nat → Rat → Rat) : ∀ (B : List (Rat × Rat)) (l : LV) (d : Nat),
    AffBox u d B → l.length = B.length →
    boxProdFrom (fun d b j => quad (u d) (uniform b.1 b.2 j.toNat)) d B l = boxExact u d B
  | [], [], _, _, _ => rfl
  | b :: bs, j :: l, d, h, hl => by
      simp only [boxProdFrom, boxExact]
      rw [quad_uniform_aff (u d) b.1 b.2 j.toNat h.1.1 h.1.2,
        boxProd_quad_exact u bs l (d + 1) h.2 (by simpa using hl)]
  | [], _ :: _, _, _, hl => by simp at hl
  | _ :: _, [], _, _, hl => by simp at hl

def InBox (x : List Rat) : Nat → List (Rat × Rat) → Prop
  | _, [] => True
  | d, b :: bs => (b.1 ≤ x.getD d 0 ∧ x.getD d 0 ≤ b.2) ∧ InBox x (d + 1) bs

/-- the exact value `Π_d u_d (x_d)` -/
def pointVal (u : Nat → Rat → Rat) (x : List Rat) : Nat → List (Rat × Rat) → Rat
  | _, [] => 1
  | d, _ :: bs => u d (x.getD d 0) * pointVal u x (d + 1) bs

theorem boxProd_interp_exact (u : Nat → Rat → Rat) (x : List Rat) : ∀ (B : List (Rat × Rat)) (l : LV) (d : Nat),
    AffBox u d B → InBox x d B → l.length = B.length →
    boxProdFrom (fun d b j => interp (u d) (uniform b.1 b.2 j.toNat) (x.getD d 0)) d B l = pointVal u x d B
  | [], [], _, _, _, _ => rfl
  | b :: bs, j :: l, d, h, hx, hl => by
      simp only [boxProdFrom, pointVal]
      rw [interp_uniform_aff (u d) b.1 b.2 (x.getD d 0) j.toNat h.1.1 h.1.2 hx.1.1 hx.1.2,
        boxProd_interp_exact u x bs l (d + 1) h.2 hx.2 (by simpa using hl)]
  | [], _ :: _, _, _, _, hl => by simp at hl
  | _ :: _, [], _, _, _, hl => by simp at hl

theorem combine_const (c : List (LV × Int)) (F : LV → Rat) (v : Rat) (h : ∀ p ∈ c, F p.1 = v) :
    combine c F = (((c.map (·.2)).sum : Int) : Rat) * v := by
  unfold combine
  induction c with
  | nil => simp
  | cons p c ih =>
      have hp := h p (by simp)
      have ih' := ih (fun p' hp' => h p' (List.mem_cons_of_mem _ hp'))
      simp only [List.map_cons, List.sum_cons, hp, ih']
      push_cast
      ring

/-- **an area whose active coefficients sum to 1 contributes the exact integral** of every tensor function that is
affine in each variable on the area, whatever the (coarsened) levels of its component grids are -/
theorem area_integral_exact (A : Area) (u : Nat → Rat → Rat) (haff : AffBox u 0 A.box)
    (hlen : ∀ p ∈ A.act, p.1.length = A.box.length) (hsum : (A.act.map (·.2)).sum = 1) :
    A.integral u = boxExact u 0 A.box := by
  unfold Area.integral
  rw [combine_const A.act _ (boxExact u 0 A.box) (fun p hp => boxProd_quad_exact u A.box p.1 0 haff (hlen p hp)), hsum]
  simp

theorem area_value_exact (A : Area) (u : Nat → Rat → Rat) (x : List Rat) (haff : AffBox u 0 A.box)
    (hx : InBox x 0 A.box) (hlen : ∀ p ∈ A.act, p.1.length = A.box.length) (hsum : (A.act.map (·.2)).sum = 1) :
    A.value u x = pointVal u x 0 A.box := by
  unfold Area.value
  rw [combine_const A.act _ (pointVal u x 0 A.box)
    (fun p hp => boxProd_interp_exact u x A.box p.1 0 haff hx (hlen p hp)), hsum]
  simp

/-! ## tiling by a refinement tree -/

theorem boxExact_split (u : Nat → Rat → Rat) : ∀ (B : List (Rat × Rat)) (i d0 : Nat) (m : Rat),
    i < B.length → AffBox u d0 B → (B.getD i (0, 0)).1 < m → m < (B.getD i (0, 0)).2 →
    boxExact u d0 (setNth B i ((B.getD i (0, 0)).1, m)) + boxExact u d0 (setNth B i (m, (B.getD i (0, 0)).2))
      = boxExact u d0 B ∧
    AffBox u d0 (setNth B i ((B.getD i (0, 0)).1, m)) ∧ AffBox u d0 (setNth B i (m, (B.getD i (0, 0)).2))
  | [], _, _, _, hi, _, _, _ => by simp at hi
  | b :: bs, 0, d0, m, _, h, h1, h2 => by
      simp only [List.getD_cons_zero] at h1 h2
      simp only [setNth, List.set_cons_zero, List.getD_cons_zero, boxExact]
      refine ⟨?_, ⟨⟨h1, affOn_sub h.1.2 h.1.1 (le_refl _) (le_of_lt h1) (le_of_lt h2)⟩, h.2⟩,
        ⟨⟨h2, affOn_sub h.1.2 h.1.1 (le_of_lt h1) (le_of_lt h2) (le_refl _)⟩, h.2⟩⟩
      have := cell_split h.1.2 (le_of_lt h1) (le_of_lt h2)
      rw [← this]
      ring
  | b :: bs, i + 1, d0, m, hi, h, h1, h2 => by
      simp only [List.getD_cons_succ] at h1 h2
      obtain ⟨e1, e2, e3⟩ := boxExact_split u bs i (d0 + 1) m (by simpa using hi) h.2 h1 h2
      simp only [setNth] at e1 e2 e3
      simp only [setNth, List.set_cons_succ, List.getD_cons_succ, boxExact]
      refine ⟨?_, ⟨h.1, e2⟩, ⟨h.1, e3⟩⟩
      rw [← e1]
      ring

/-- **the exact integrals over the leaves of a refinement tree add up to the exact integral over the root box**, and
`u` is affine on every leaf -/
theorem tiling_exact (u : Nat → Rat → Rat) : ∀ (t : BoxTree) (B : List (Rat × Rat)),
    t.wf B = true → AffBox u 0 B →
    ((t.leaves B).map (boxExact u 0)).sum = boxExact u 0 B ∧ ∀ L ∈ t.leaves B, AffBox u 0 L ∧ L.length = B.length
  | .leaf, B, _, h => by simp [BoxTree.leaves, h]
  | .split d m lo hi, B, hwf, h => by
      simp only [BoxTree.wf, Bool.and_eq_true, decide_eq_true_eq] at hwf
      obtain ⟨⟨⟨⟨hd, h1⟩, h2⟩, hlo⟩, hhi⟩ := hwf
      obtain ⟨e1, e2, e3⟩ := boxExact_split u B d 0 m hd h h1 h2
      obtain ⟨s1, l1⟩ := tiling_exact u lo _ hlo e2
      obtain ⟨s2, l2⟩ := tiling_exact u hi _ hhi e3
      simp only [BoxTree.leaves, List.map_append, List.sum_append]
      refine ⟨by rw [s1, s2, e1], ?_⟩
      intro L hL
      rcases List.mem_append.1 hL with hL | hL
      · have := l1 L hL
        exact ⟨this.1, by rw [this.2]; simp [setNth]⟩
      · have := l2 L hL
        exact ⟨this.1, by rw [this.2]; simp [setNth]⟩

/-- globally affine functions are affine on every interval -/
theorem affOn_affine (α β p q : Rat) : AffOn (fun x => α + β * x) p q := by
  intro x _ _
  ring

/-! ## cell scheme: the parent stencil -/

theorem lin_affine (α β p q x : Rat) (hpq : p ≠ q) : lin (fun x => α + β * x) p q x = α + β * x := by
  have hne : q - p ≠ 0 := sub_ne_zero.2 (Ne.symm hpq)
  unfold lin
  field_simp
  ring

def coefSum (c : List (LV × Int)) : Int := (c.map (·.2)).sum

theorem coefSum_append (a b : List (LV × Int)) : coefSum (a ++ b) = coefSum a + coefSum b := by
  simp [coefSum]

theorem coefSum_neg_map (a : List (LV × Int)) (f : LV → LV) :
    coefSum (a.map fun e => (f e.1, -e.2)) = -coefSum a := by
  induction a with
  | nil => simp [coefSum]
  | cons e a ih =>
      simp only [coefSum, List.map_cons, List.sum_cons] at ih ⊢
      rw [ih]
      ring

/-- entries of the parent list agree with the cell's level vector in the dimensions not yet processed -/
theorem cellParentsFrom_untouched (lmin lv : LV) : ∀ (n : Nat), ∀ e ∈ cellParentsFrom lmin n [(lv, 1)],
    ∀ d, n ≤ d → e.1.getD d 0 = lv.getD d 0
  | 0, e, he, d, _ => by
      simp only [cellParentsFrom, List.mem_singleton] at he
      subst he
      rfl
  | n + 1, e, he, d, hd => by
      simp only [cellParentsFrom, List.mem_append, List.mem_map, List.mem_filter] at he
      rcases he with he | ⟨e', ⟨he', _⟩, rfl⟩
      · exact cellParentsFrom_untouched lmin lv n e he d (by omega)
      · have := cellParentsFrom_untouched lmin lv n e' he' d (by omega)
        rw [← this]
        simp only [List.getD_eq_getElem?_getD, List.getElem?_modify]
        have : n ≠ d := by omega
        simp [this]

/-- **the ±1 parent stencil**: processing the first `n` dimensions, the coefficients sum to 1 if the cell is at level
`lmin` in all of them and to 0 otherwise -/
theorem cellParentsFrom_sum (lmin lv : LV) : ∀ (n : Nat),
    coefSum (cellParentsFrom lmin n [(lv, 1)]) = if ∀ d, d < n → lv.getD d 0 ≤ lmin.getD d 0 then 1 else 0
  | 0 => by simp [cellParentsFrom, coefSum]
  | n + 1 => by
      have ih := cellParentsFrom_sum lmin lv n
      have hunt := cellParentsFrom_untouched lmin lv n
      simp only [cellParentsFrom]
      rw [coefSum_append, coefSum_neg_map _ (fun l => l.modify n (· - 1))]
      by_cases hn : lmin.getD n 0 < lv.getD n 0
      · -- every entry spawns its parent: the sum cancels
        have hfilter : (cellParentsFrom lmin n [(lv, 1)]).filter (fun e => decide (lmin.getD n 0 < e.1.getD n 0))
            = cellParentsFrom lmin n [(lv, 1)] := by
          apply List.filter_eq_self.2
          intro e he
          rw [hunt e he n (le_refl _)]
          simpa using hn
        rw [hfilter]
        have : ¬ ∀ d, d < n + 1 → lv.getD d 0 ≤ lmin.getD d 0 := fun h => absurd (h n (by omega)) (not_le.2 hn)
        rw [if_neg this]
        ring
      · have hfilter : (cellParentsFrom lmin n [(lv, 1)]).filter (fun e => decide (lmin.getD n 0 < e.1.getD n 0)) = [] := by
          apply List.filter_eq_nil_iff.2
          intro e he
          rw [hunt e he n (le_refl _)]
          simpa using hn
        rw [hfilter, ih]
        simp only [coefSum, List.map_nil, List.sum_nil, neg_zero, add_zero]
        have hle : lv.getD n 0 ≤ lmin.getD n 0 := le_of_not_gt hn
        by_cases hall : ∀ d, d < n → lv.getD d 0 ≤ lmin.getD d 0
        · rw [if_pos hall, if_pos]
          intro d hd
          rcases Nat.lt_succ_iff_lt_or_eq.1 hd with h | h
          · exact hall d h
          · rw [h]; exact hle
        · rw [if_neg hall, if_neg]
          intro h
          exact hall (fun d hd => h d (by omega))

theorem cellParents_sum (lmin lv : LV) :
    coefSum (cellParents lmin lv) = if ∀ d, d < lv.length → lv.getD d 0 ≤ lmin.getD d 0 then 1 else 0 :=
  cellParentsFrom_sum lmin lv lv.length

/-- interpolation from the corners of ANY non-degenerate parent box followed by the 2-point trapezoid rule on the cell
gives the exact integral of a product of affine functions over the cell -/
theorem subcell_affine (α β : Nat → Rat) : ∀ (Ps As : List (Rat × Rat)) (d : Nat),
    Ps.length = As.length → (∀ P ∈ Ps, P.1 ≠ P.2) →
    subcellFrom (fun d x => α d + β d * x) d Ps As = boxExact (fun d x => α d + β d * x) d As
  | [], [], _, _, _ => rfl
  | P :: Ps, A :: As, d, hl, hne => by
      simp only [subcellFrom, boxExact]
      rw [lin_affine (α d) (β d) P.1 P.2 A.1 (hne P (by simp)), lin_affine (α d) (β d) P.1 P.2 A.2 (hne P (by simp)),
        subcell_affine α β Ps As (d + 1) (by simpa using hl) (fun P' hP' => hne P' (List.mem_cons_of_mem _ hP'))]
  | [], _ :: _, _, hl, _ => by simp at hl
  | _ :: _, [], _, hl, _ => by simp at hl

end SparseSpace.Exact
