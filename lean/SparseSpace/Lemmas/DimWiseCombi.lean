import SparseSpace.Lemmas.DimWisePoints
import SparseSpace.Lemmas.CombAdaptive
import Mathlib.Tactic.FieldSimp
/-!
# The combination on the dimension-wise component grids (C03): point-wise coefficient sums and nodal exactness
as instances of the combination lemma
-/
namespace SparseSpace

/-! ## the least level containing a coordinate -/

/-- least `n ≤ N` with `p n`, or `N` -/
def firstHit (p : Nat → Bool) : Nat → Nat
  | 0 => 0
  | N+1 => if p 0 then 0 else firstHit (fun n => p (n + 1)) N + 1

theorem firstHit_le (p : Nat → Bool) : ∀ N, firstHit p N ≤ N
  | 0 => Nat.le_refl _
  | N+1 => by
    simp only [firstHit]
    split
    · omega
    · have := firstHit_le (fun n => p (n + 1)) N; omega

theorem firstHit_spec : ∀ (N : Nat) (p : Nat → Bool), p N = true →
    p (firstHit p N) = true ∧ ∀ n, n < firstHit p N → p n = false
  | 0, p, h => ⟨h, fun n hn => by simp [firstHit] at hn⟩
  | N+1, p, h => by
    simp only [firstHit]
    by_cases h0 : p 0 = true
    · rw [if_pos h0]
      exact ⟨h0, fun n hn => by omega⟩
    · rw [if_neg h0]
      obtain ⟨h1, h2⟩ := firstHit_spec N (fun n => p (n + 1)) h
      refine ⟨h1, ?_⟩
      intro n hn
      cases n with
      | zero => simpa using h0
      | succ n => exact h2 n (by omega)

/-- per dimension: if `y` is a point of the level `l0 ≥ lmin`, there is a least level `κ ≥ lmin` containing it,
and (by nestedness) `y` is a point of the level `l ≥ lmin` iff `κ ≤ l` -/
theorem least_level (st : DW) (cfg : PtCfg) (d : Nat) (lmin l0 : Int) (y : Rat) (h0 : lmin ≤ l0)
    (hy : y ∈ st.dimCoords cfg d l0) :
    ∃ κ, lmin ≤ κ ∧ κ ≤ l0 ∧ y ∈ st.dimCoords cfg d κ ∧
      ∀ l, lmin ≤ l → (y ∈ st.dimCoords cfg d l ↔ κ ≤ l) := by
  let p : Nat → Bool := fun n => (st.dimCoords cfg d (lmin + n)).contains y
  have hN : p (l0 - lmin).toNat = true := by
    simp only [p, List.contains_iff_mem]
    have : lmin + ((l0 - lmin).toNat : Int) = l0 := by omega
    rw [this]; exact hy
  obtain ⟨h1, h2⟩ := firstHit_spec _ p hN
  have hle := firstHit_le p (l0 - lmin).toNat
  refine ⟨lmin + (firstHit p (l0 - lmin).toNat : Int), by omega, by omega, ?_, ?_⟩
  · simpa [p] using h1
  · intro l hl
    constructor
    · intro hm
      by_contra hh
      have hlt : (l - lmin).toNat < firstHit p (l0 - lmin).toNat := by omega
      have := h2 _ hlt
      simp only [p] at this
      have e : lmin + ((l - lmin).toNat : Int) = l := by omega
      rw [e] at this
      have hc : (st.dimCoords cfg d l).contains y = true := by simpa using hm
      rw [hc] at this; exact absurd this (by simp)
    · intro hk
      have hmem : y ∈ st.dimCoords cfg d (lmin + (firstHit p (l0 - lmin).toNat : Int)) := by simpa [p] using h1
      exact dimCoords_nested st cfg d _ l hk y hmem

/-- the level `k(x)` of a point of the combined grid: for every point `x` of the component grid `l0 ≥ lmin` there
is a least level vector `k ≥ lmin`, `k ≤ l0`, such that `x ∈ grid_l ⇔ k ≤ l` for all `l ≥ lmin` -/
theorem point_level (st : DW) (cfg : PtCfg) (lmin : Int) : ∀ (l0 : LV) (x : List Rat) (d : Nat),
    geAll lmin l0 → inGrid (st.gridsFrom cfg d l0) x = true →
    ∃ k : LV, k.length = l0.length ∧ geAll lmin k ∧ leAll k l0 = true ∧
      inGrid (st.gridsFrom cfg d k) x = true ∧
      ∀ l : LV, l.length = l0.length → geAll lmin l →
        (inGrid (st.gridsFrom cfg d l) x = true ↔ leAll k l = true)
  | [], [], _, _, _ => ⟨[], rfl, by simp [geAll], rfl, rfl, fun l hl _ => by
      have : l = [] := List.eq_nil_of_length_eq_zero hl
      subst this; simp [DW.gridsFrom, inGrid, leAll]⟩
  | [], _ :: _, _, _, h => by simp [DW.gridsFrom, inGrid] at h
  | _ :: _, [], _, _, h => by simp [DW.gridsFrom, inGrid] at h
  | l0 :: ls, y :: ys, d, hg, h => by
    simp only [DW.gridsFrom, inGrid, Bool.and_eq_true, List.contains_iff_mem] at h
    rw [geAll_cons] at hg
    obtain ⟨κ, hk1, hk2, hk3, hk4⟩ := least_level st cfg d lmin l0 y hg.1 h.1
    obtain ⟨k, e1, e2, e3, e4, e5⟩ := point_level st cfg lmin ls ys (d + 1) hg.2 h.2
    refine ⟨κ :: k, by simp [e1], by rw [geAll_cons]; exact ⟨hk1, e2⟩, by simp [leAll, hk2, e3], ?_, ?_⟩
    · simp only [DW.gridsFrom, inGrid, Bool.and_eq_true, List.contains_iff_mem]
      exact ⟨hk3, e4⟩
    · intro l hl hgl
      cases l with
      | nil => simp at hl
      | cons l1 lr =>
        rw [geAll_cons] at hgl
        simp only [DW.gridsFrom, inGrid, leAll, Bool.and_eq_true, List.contains_iff_mem, decide_eq_true_eq]
        rw [hk4 l1 hgl.1, e5 lr (by simpa using hl) hgl.2]

/-! ## point-wise coefficient sums -/

theorem filter_congr_mem {α : Type} (p q : α → Bool) : ∀ (L : List α), (∀ x ∈ L, p x = q x) → L.filter p = L.filter q
  | [], _ => rfl
  | x :: xs, h => by
    simp only [List.filter_cons, h x (by simp)]
    rw [filter_congr_mem p q xs (fun y hy => h y (by simp [hy]))]

theorem pointCoeffSumG_eq (st : DW) (cfg : PtCfg) (x : List Rat) :
    st.pointCoeffSum cfg x = ((st.cs.coeffs.filter fun p => inGrid (st.grids cfg p.1) x).map (·.2)).sum := by
  unfold DW.pointCoeffSum pointCoeffSumG DW.schemeGrids
  rw [List.filter_map, List.map_map]
  rfl

/-- **dimwise_point_coeff_sum**: in every state whose scheme satisfies the invariant of C01 (every reachable
one), for every version and every point `x` of the combined grid (= of some component grid of the index set),
the coefficients of the component grids containing `x` sum to exactly 1 -/
theorem point_coeff_sum (st : DW) (cfg : PtCfg) (hs : SchemeInv st.cs) (x : List Rat)
    (l0 : LV) (hl0 : l0 ∈ I st.cs) (hx : inGrid (st.grids cfg l0) x = true) :
    st.pointCoeffSum cfg x = 1 := by
  have hsh := hs.shape l0 hl0
  obtain ⟨k, e1, e2, e3, _, e5⟩ := point_level st cfg st.cs.lmin l0 x 0 hsh.2 hx
  have hkI : k ∈ I st.cs := downward_closed st.cs hs l0 k hl0 (by rw [e1, hsh.1]) e2 e3
  rw [pointCoeffSumG_eq]
  have hfil : (st.cs.coeffs.filter fun p => inGrid (st.grids cfg p.1) x)
      = st.cs.coeffs.filter (fun p => leAll k p.1) := by
    apply filter_congr_mem
    intro p hp
    have hp' := (coeff_support st.cs hs).1 p hp
    have hshape := hs.shape p.1 hp'.1
    have := e5 p.1 (by rw [hshape.1, hsh.1]) hshape.2
    unfold DW.grids
    cases h1 : inGrid (st.gridsFrom cfg 0 p.1) x <;> cases h2 : leAll k p.1 <;> simp_all
  rw [hfil]
  have := coeff_identity st.cs hs k (by rw [e1, hsh.1]) e2
  unfold domSum at this
  rw [this, if_pos hkI]

/-! ## interpolation -/

theorem interp1_node : ∀ (nodes : List Rat) (g : Rat → Rat) (x : Rat), nodes.Pairwise (· < ·) → x ∈ nodes →
    interp1 nodes g x = g x
  | [], _, _, _, h => by simp at h
  | [p], g, x, _, h => by
    simp only [List.mem_singleton] at h
    subst h; simp [interp1]
  | p :: q :: rest, g, x, hs, h => by
    rw [List.pairwise_cons] at hs
    have hpq : p < q := hs.1 q (by simp)
    simp only [interp1]
    rcases List.mem_cons.1 h with rfl | h
    · have : x ≤ q := le_of_lt hpq
      simp [this]
    · rcases List.mem_cons.1 h with rfl | h'
      · simp only [le_refl, if_true]
        have hne : x - p ≠ 0 := by linarith
        field_simp
        ring
      · have hq := hs.2
        rw [List.pairwise_cons] at hq
        have : ¬ x ≤ q := by have := hq.1 x h'; linarith
        simp only [this, if_false]
        exact interp1_node (q :: rest) g x hs.2 h

/-- the grids `G`, `G'` are the same in every dimension in which `x` is not a node of both -/
def GridRel : List (List Rat) → List (List Rat) → List Rat → Prop
  | [], [], [] => True
  | g :: gs, g' :: gs', x :: xs =>
    (g = g' ∨ (g.Pairwise (· < ·) ∧ g'.Pairwise (· < ·) ∧ x ∈ g ∧ x ∈ g')) ∧ GridRel gs gs' xs
  | _, _, _ => False

theorem interpT_congr : ∀ (G G' : List (List Rat)) (x : List Rat), GridRel G G' x →
    ∀ f : List Rat → Rat, interpT G f x = interpT G' f x
  | [], [], [], _, _ => rfl
  | g :: gs, g' :: gs', x :: xs, h, f => by
    obtain ⟨h1, h2⟩ := h
    have ih := interpT_congr gs gs' xs h2
    simp only [interpT]
    have hfun : (fun y => interpT gs (fun r => f (y :: r)) xs) = (fun y => interpT gs' (fun r => f (y :: r)) xs) := by
      funext y; exact ih _
    rcases h1 with rfl | ⟨s1, s2, m1, m2⟩
    · rw [hfun]
    · rw [interp1_node g _ x s1 m1, interp1_node g' _ x s2 m2]
      exact ih _
  | [], [], _ :: _, h, _ => absurd h (by simp [GridRel])
  | [], _ :: _, _, h, _ => absurd h (by simp [GridRel])
  | _ :: _, [], _, h, _ => absurd h (by simp [GridRel])
  | _ :: _, _ :: _, [], h, _ => absurd h (by simp [GridRel])

/-- at a node of the tensor grid the interpolant returns the value -/
theorem interpT_node : ∀ (G : List (List Rat)) (x : List Rat), (∀ g ∈ G, g.Pairwise (· < ·)) →
    inGrid G x = true → ∀ f : List Rat → Rat, interpT G f x = f x
  | [], [], _, _, _ => rfl
  | [], _ :: _, _, h, _ => by simp [inGrid] at h
  | _ :: _, [], _, h, _ => by simp [inGrid] at h
  | g :: gs, x :: xs, hs, h, f => by
    simp only [inGrid, Bool.and_eq_true, List.contains_iff_mem] at h
    simp only [interpT]
    rw [interp1_node g _ x (hs g (by simp)) h.1]
    exact interpT_node gs xs (fun g' hg' => hs g' (by simp [hg'])) h.2 _

theorem gridsFrom_sorted (st : DW) (cfg : PtCfg) (hsort : ∀ d l, (st.dimCoords cfg d l).Pairwise (· < ·)) :
    ∀ (lv : LV) (d : Nat), ∀ g ∈ st.gridsFrom cfg d lv, g.Pairwise (· < ·)
  | [], _, g, hg => by simp [DW.gridsFrom] at hg
  | l :: ls, d, g, hg => by
    simp only [DW.gridsFrom, List.mem_cons] at hg
    rcases hg with rfl | hg
    · exact hsort d l
    · exact gridsFrom_sorted st cfg hsort ls (d + 1) g hg

/-- `H_F` of the combination lemma for `F l = (I_l f)(x)`: the interpolant on grid `l` at `x` equals the one on
grid `l ⊓ k` when `x ∈ grid_{l'} ⇔ k ≤ l'` -/
theorem gridRel_meet (st : DW) (cfg : PtCfg) (hsort : ∀ d l, (st.dimCoords cfg d l).Pairwise (· < ·)) :
    ∀ (l k : LV) (x : List Rat) (d : Nat), l.length = k.length → inGrid (st.gridsFrom cfg d k) x = true →
    GridRel (st.gridsFrom cfg d l) (st.gridsFrom cfg d (meet l k)) x
  | [], [], [], _, _, _ => by simp [DW.gridsFrom, meet, GridRel]
  | [], [], _ :: _, _, _, h => by simp [DW.gridsFrom, inGrid] at h
  | [], _ :: _, _, _, h, _ => by simp at h
  | _ :: _, [], _, _, h, _ => by simp at h
  | _ :: _, _ :: _, [], _, _, h => by simp [DW.gridsFrom, inGrid] at h
  | l1 :: ls, k1 :: ks, y :: ys, d, hl, h => by
    simp only [DW.gridsFrom, inGrid, Bool.and_eq_true, List.contains_iff_mem] at h
    have ih := gridRel_meet st cfg hsort ls ks ys (d + 1) (by simpa using hl) h.2
    simp only [meet_cons, DW.gridsFrom, GridRel]
    refine ⟨?_, ih⟩
    by_cases hle : l1 ≤ k1
    · left; rw [min_eq_left hle]
    · right
      have hkl : k1 ≤ l1 := by omega
      rw [min_eq_right hkl]
      exact ⟨hsort d l1, hsort d k1, dimCoords_nested st cfg d k1 l1 hkl y h.1, h.1⟩

theorem combiInterp_eq (st : DW) (cfg : PtCfg) (f : List Rat → Rat) (x : List Rat) :
    st.combiInterp cfg f x = (st.cs.coeffs.map fun p => (p.2 : Rat) * interpT (st.grids cfg p.1) f x).sum := by
  unfold DW.combiInterp combiInterpG DW.schemeGrids
  rw [List.map_map]; rfl

/-- **dimwise_nodal_exact**: in every state whose scheme satisfies the invariant of C01 and whose 1-D point
lists are strictly ascending (every well-formed state), for every version, every table `f` and every point `x`
of the combined grid, the combined interpolant `Σ c_l · (I_l f)(x)` returns `f x` -/
theorem nodal_exact (st : DW) (cfg : PtCfg) (hs : SchemeInv st.cs)
    (hsort : ∀ d l, (st.dimCoords cfg d l).Pairwise (· < ·))
    (f : List Rat → Rat) (x : List Rat) (l0 : LV) (hl0 : l0 ∈ I st.cs) (hx : inGrid (st.grids cfg l0) x = true) :
    st.combiInterp cfg f x = f x := by
  have hsh := hs.shape l0 hl0
  obtain ⟨k, e1, e2, e3, e4, _⟩ := point_level st cfg st.cs.lmin l0 x 0 hsh.2 hx
  have hkI : k ∈ I st.cs := downward_closed st.cs hs l0 k hl0 (by rw [e1, hsh.1]) e2 e3
  rw [combiInterp_eq]
  have hcol := adaptive_collapse (V := Rat) st.cs hs k hkI (fun l => interpT (st.grids cfg l) f x) (by
    intro p hp
    have hp' := (coeff_support st.cs hs).1 p hp
    have hshape := hs.shape p.1 hp'.1
    exact interpT_congr _ _ x (gridRel_meet st cfg hsort p.1 k x 0 (by rw [hshape.1, e1, hsh.1]) e4) f)
  simp only [zsmul_eq_mul] at hcol
  rw [hcol]
  exact interpT_node _ x (gridsFrom_sorted st cfg hsort k 0) e4 f

end SparseSpace
