import SparseSpace.Lemmas.GramCache
/-! C17: the right-hand-side reuse branch — soundness of the copy rule, the recomputation rule as coded. -/
namespace SparseSpace.DCache
open SparseSpace.Gram

/-! ### `get_hat_domain`: the support ends are the nearest nodes -/

theorem foldl_rmax_ge_init : ∀ (l : List ℚ) (i : ℚ), i ≤ l.foldl rmax i
  | [], _ => le_refl _
  | a :: l, i => by
    simp only [List.foldl_cons]
    exact le_trans (by rw [rmax_eq_max]; exact le_max_left _ _) (foldl_rmax_ge_init l (rmax i a))

theorem foldl_rmax_ge_mem : ∀ (l : List ℚ) (i n : ℚ), n ∈ l → n ≤ l.foldl rmax i
  | [], _, _, h => by simp at h
  | a :: l, i, n, h => by
    simp only [List.foldl_cons]
    rcases List.mem_cons.mp h with rfl | h
    · exact le_trans (by rw [rmax_eq_max]; exact le_max_right _ _) (foldl_rmax_ge_init l (rmax i n))
    · exact foldl_rmax_ge_mem l (rmax i a) n h

theorem foldl_rmin_le_init : ∀ (l : List ℚ) (i : ℚ), l.foldl rmin i ≤ i
  | [], _ => le_refl _
  | a :: l, i => by
    simp only [List.foldl_cons]
    exact le_trans (foldl_rmin_le_init l (rmin i a)) (by rw [rmin_eq_min]; exact min_le_left _ _)

theorem foldl_rmin_le_mem : ∀ (l : List ℚ) (i n : ℚ), n ∈ l → l.foldl rmin i ≤ n
  | [], _, _, h => by simp at h
  | a :: l, i, n, h => by
    simp only [List.foldl_cons]
    rcases List.mem_cons.mp h with rfl | h
    · exact le_trans (foldl_rmin_le_init l (rmin i n)) (by rw [rmin_eq_min]; exact min_le_right _ _)
    · exact foldl_rmin_le_mem l (rmin i a) n h

/-- a node strictly inside the support found by `get_hat_domain` for `q` is `q` itself -/
theorem getHatDomain1_unique (nodes : List ℚ) (q c : ℚ) (hc : c ∈ nodes)
    (h1 : (getHatDomain1 nodes q).lo < c) (h2 : c < (getHatDomain1 nodes q).hi) : c = q := by
  unfold getHatDomain1 at h1 h2
  simp only at h1 h2
  rcases lt_trichotomy c q with h | h | h
  · have := foldl_rmax_ge_mem (nodes.filter (· < q)) 0 c (List.mem_filter.mpr ⟨hc, by simpa using h⟩)
    linarith
  · exact h
  · have := foldl_rmin_le_mem (nodes.filter (q < ·)) 1 c (List.mem_filter.mpr ⟨hc, by simpa using h⟩)
    linarith

/-- **soundness of the copy rule** (`point in old_point_list` and equal support in every dimension): the old hat whose
    support matches IS the new hat, so the copied entry is the entry of the same basis function -/
theorem copy_rule_sound : ∀ (stripes old : List (List ℚ)) (pt q : List ℚ),
    stripes.length = pt.length → old.length = pt.length → q.length = pt.length →
    (∀ c nodes, (c, nodes) ∈ pt.zip old → c ∈ nodes) →
    (∀ h ∈ List.zipWith getHatDomain1 stripes pt, h.lo < h.p ∧ h.p < h.hi) →
    sameDomain (List.zipWith getHatDomain1 stripes pt) (List.zipWith getHatDomain1 old q) = true →
    List.zipWith getHatDomain1 old q = List.zipWith getHatDomain1 stripes pt
  | [], [], [], [], _, _, _, _, _, _ => rfl
  | s :: stripes, o :: old, c :: pt, d :: q, h1, h2, h3, hmem, hval, hsame => by
    simp only [List.zipWith_cons_cons, sameDomain, List.all_cons, List.length_cons, Bool.and_eq_true, decide_eq_true_eq,
      beq_iff_eq, id] at hsame
    obtain ⟨⟨⟨hlo, hhi⟩, hrest⟩, hlen⟩ := hsame
    have hv := hval (getHatDomain1 s c) (by simp)
    have hpc : (getHatDomain1 s c).p = c := rfl
    have hcd : c = d := by
      apply getHatDomain1_unique o d c (hmem c o (by simp))
      · rw [← hlo]; rw [hpc] at hv; exact hv.1
      · rw [← hhi]; rw [hpc] at hv; exact hv.2
    have ih := copy_rule_sound stripes old pt q (by simpa using h1) (by simpa using h2) (by simpa using h3)
      (fun c' n' hm => hmem c' n' (by simp [hm])) (fun h hh => hval h (by simp [hh]))
      (by simp only [sameDomain, Bool.and_eq_true, beq_iff_eq]; exact ⟨hrest, by simpa using hlen⟩)
    simp only [List.zipWith_cons_cons]
    rw [ih]
    congr 1
    subst hcd
    have e : getHatDomain1 o c = ⟨c, (getHatDomain1 o c).lo, (getHatDomain1 o c).hi⟩ := rfl
    have e' : getHatDomain1 s c = ⟨c, (getHatDomain1 s c).lo, (getHatDomain1 s c).hi⟩ := rfl
    rw [e, e', hlo, hhi]
  | [], _ :: _, _, _, h1, h2, _, _, _, _ => by simp at h1; simp [← h1] at h2
  | _ :: _, [], _, _, h1, h2, _, _, _, _ => by simp at h2; simp [← h2] at h1
  | [], [], _ :: _, _, h1, _, _, _, _, _ => by simp at h1
  | [], [], [], _ :: _, _, _, h3, _, _, _ => by simp at h3
  | _ :: _, _ :: _, [], _, h1, _, _, _, _, _ => by simp at h1
  | _ :: _, _ :: _, _ :: _, [], _, _, h3, _, _, _ => by simp at h3

/-! ### the recomputation rule as coded -/

theorem sum_filter_of_zero {α : Type} (p : α → Bool) (t : α → ℚ) : ∀ l : List α, (∀ a ∈ l, p a = false → t a = 0) →
    ((l.filter p).map t).sum = (l.map t).sum
  | [], _ => rfl
  | a :: l, h => by
    have ih := sum_filter_of_zero p t l (fun b hb => h b (List.mem_cons_of_mem _ hb))
    by_cases hp : p a = true
    · rw [List.filter_cons_of_pos hp, List.map_cons, List.map_cons, List.sum_cons, List.sum_cons, ih]
    · have hp' : p a = false := by simpa using hp
      rw [List.filter_cons_of_neg hp, List.map_cons, List.sum_cons, ih, h a List.mem_cons_self hp', zero_add]

theorem filter_mem_self {α : Type} [DecidableEq α] (l : List α) (p : α → Bool) :
    l.filter p = l.filter (fun x => decide (x ∈ l.filter p)) := by
  apply List.filter_congr
  intro x hx
  simp [List.mem_filter, hx]

theorem sum_zipWith_eq_range (F : List ℚ → ℚ → ℚ) : ∀ (data : List (List ℚ)) (sg : List ℚ), sg.length = data.length →
    (List.zipWith F data sg).sum = ((List.range data.length).map fun i => F (data.getD i []) (sg.getD i 0)).sum
  | [], _, _ => by simp
  | _ :: _, [], h => by simp at h
  | x :: data, s :: sg, h => by
    rw [List.zipWith_cons_cons, List.sum_cons, List.length_cons, List.range_succ_eq_map, List.map_cons, List.sum_cons,
      List.map_map, sum_zipWith_eq_range F data sg (by simpa using h)]
    rfl

/-- the recomputed entry is the sample mean **provided every sample that `find_data_in_domain` leaves out contributes
    nothing** (lies outside the support of the hat) — the most that is true of the code as it is -/
theorem bRecompute_eq_spec_partial (data : List (List ℚ)) (sg : List ℚ) (sidx : List (List ℕ)) (h : List Hat1)
    (hlen : sg.length = data.length)
    (hout : ∀ x ∈ List.range data.length, x ∉ findDataInDomain data sidx h → hatNS h (data.getD x []) * sg.getD x 0 = 0) :
    bRecompute data sg sidx h = bSpec data sg h := by
  unfold bRecompute bSpec
  congr 1
  rw [sum_zipWith_eq_range (fun x s => hatNS h x * s) data sg hlen]
  have hf : findDataInDomain data sidx h = (List.range data.length).filter
      (fun x => decide (x ∈ findDataInDomain data sidx h)) := by
    unfold findDataInDomain
    exact filter_mem_self _ _
  rw [hf]
  exact sum_filter_of_zero _ _ _ fun x hx hp => hout x hx (by simpa using hp)

end SparseSpace.DCache
