import SparseSpace.Lemmas.GramCache
import SparseSpace.Lemmas.GramHat
/-! C17: the right-hand-side reuse branch — soundness of the copy rule, the recomputation rule as coded. -/
namespace SparseSpace.DCache
open SparseSpace.Gram

/-! ### `get_hat_domain`: the support ends are the nearest nodes -/

theorem foldl_rmax_ge_init : ∀ (l : List ℚ) (i : ℚ), i ≤ l.foldl rmax i
  | [], _ => le_refl _
  | a :: l, i => by
    simp only [List.foldl_cons]
    exact le_trans (by rw [rmax_eq_max]; exact le_max_left _ _) (foldl_rmax_ge_init l (rmax i a))

theorem foldl_rmax_ge_mem : ∀ (l : List ℚ) (i n : ℚ), n ∈ l → n ≤ l.foldl rmax i
  | [], _, _, h => by simp at h
  | a :: l, i, n, h => by
    simp only [List.foldl_cons]
    rcases List.mem_cons.mp h with rfl | h
    · exact le_trans (by rw [rmax_eq_max]; exact le_max_right _ _) (foldl_rmax_ge_init l (rmax i n))
    · exact foldl_rmax_ge_mem l (rmax i a) n h

theorem foldl_rmin_le_init : ∀ (l : List ℚ) (i : ℚ), l.foldl rmin i ≤ i
  | [], _ => le_refl _
  | a :: l, i => by
    simp only [List.foldl_cons]
    exact le_trans (foldl_rmin_le_init l (rmin i a)) (by rw [rmin_eq_min]; exact min_le_left _ _)

theorem foldl_rmin_le_mem : ∀ (l : List ℚ) (i n : ℚ), n ∈ l → l.foldl rmin i ≤ n
  | [], _, _, h => by simp at h
  | a :: l, i, n, h => by
    simp only [List.foldl_cons]
    rcases List.mem_cons.mp h with rfl | h
    · exact le_trans (foldl_rmin_le_init l (rmin i n)) (by rw [rmin_eq_min]; exact min_le_right _ _)
    · exact foldl_rmin_le_mem l (rmin i a) n h

/-- a node strictly inside the support found by `get_hat_domain` for `q` is `q` itself -/
theorem getHatDomain1_unique (nodes : List ℚ) (q c : ℚ) (hc : c ∈ nodes)
    (h1 : (getHatDomain1 nodes q).lo < c) (h2 : c < (getHatDomain1 nodes q).hi) : c = q := by
  unfold getHatDomain1 at h1 h2
  simp only at h1 h2
  rcases lt_trichotomy c q with h | h | h
  · have := foldl_rmax_ge_mem (nodes.filter (· < q)) 0 c (List.mem_filter.mpr ⟨hc, by simpa using h⟩)
    linarith
  · exact h
  · have := foldl_rmin_le_mem (nodes.filter (q < ·)) 1 c (List.mem_filter.mpr ⟨hc, by simpa using h⟩)
    linarith

/-- **soundness of the copy rule** (`point in old_point_list` and equal support in every dimension): the old hat whose
    support matches IS the new hat, so the copied entry is the entry of the same basis function -/
theorem copy_rule_sound : ∀ (stripes old : List (List ℚ)) (pt q : List ℚ),
    stripes.length = pt.length → old.length = pt.length → q.length = pt.length →
    (∀ c nodes, (c, nodes) ∈ pt.zip old → c ∈ nodes) →
    (∀ h ∈ List.zipWith getHatDomain1 stripes pt, h.lo < h.p ∧ h.p < h.hi) →
    sameDomain (List.zipWith getHatDomain1 stripes pt) (List.zipWith getHatDomain1 old q) = true →
    List.zipWith getHatDomain1 old q = List.zipWith getHatDomain1 stripes pt
  | [], [], [], [], _, _, _, _, _, _ => rfl
  | s :: stripes, o :: old, c :: pt, d :: q, h1, h2, h3, hmem, hval, hsame => by
    simp only [List.zipWith_cons_cons, sameDomain, List.all_cons, List.length_cons, Bool.and_eq_true, decide_eq_true_eq,
      beq_iff_eq, id] at hsame
    obtain ⟨⟨⟨hlo, hhi⟩, hrest⟩, hlen⟩ := hsame
    have hv := hval (getHatDomain1 s c) (by simp)
    have hpc : (getHatDomain1 s c).p = c := rfl
    have hcd : c = d := by
      apply getHatDomain1_unique o d c (hmem c o (by simp))
      · rw [← hlo]; rw [hpc] at hv; exact hv.1
      · rw [← hhi]; rw [hpc] at hv; exact hv.2
    have ih := copy_rule_sound stripes old pt q (by simpa using h1) (by simpa using h2) (by simpa using h3)
      (fun c' n' hm => hmem c' n' (by simp [hm])) (fun h hh => hval h (by simp [hh]))
      (by simp only [sameDomain, Bool.and_eq_true, beq_iff_eq]; exact ⟨hrest, by simpa using hlen⟩)
    simp only [List.zipWith_cons_cons]
    rw [ih]
    congr 1
    subst hcd
    have e : getHatDomain1 o c = ⟨c, (getHatDomain1 o c).lo, (getHatDomain1 o c).hi⟩ := rfl
    have e' : getHatDomain1 s c = ⟨c, (getHatDomain1 s c).lo, (getHatDomain1 s c).hi⟩ := rfl
    rw [e, e', hlo, hhi]
  | [], _ :: _, _, _, h1, h2, _, _, _, _ => by simp at h1; simp [← h1] at h2
  | _ :: _, [], _, _, h1, h2, _, _, _, _ => by simp at h2; simp [← h2] at h1
  | [], [], _ :: _, _, h1, _, _, _, _, _ => by simp at h1
  | [], [], [], _ :: _, _, _, h3, _, _, _ => by simp at h3
  | _ :: _, _ :: _, [], _, h1, _, _, _, _, _ => by simp at h1
  | _ :: _, _ :: _, _ :: _, [], _, _, h3, _, _, _ => by simp at h3

/-! ### the recomputation rule as coded -/

theorem sum_filter_of_zero {α : Type} (p : α → Bool) (t : α → ℚ) : ∀ l : List α, (∀ a ∈ l, p a = false → t a = 0) →
    ((l.filter p).map t).sum = (l.map t).sum
  | [], _ => rfl
  | a :: l, h => by
    have ih := sum_filter_of_zero p t l (fun b hb => h b (List.mem_cons_of_mem _ hb))
    by_cases hp : p a = true
    · rw [List.filter_cons_of_pos hp, List.map_cons, List.map_cons, List.sum_cons, List.sum_cons, ih]
    · have hp' : p a = false := by simpa using hp
      rw [List.filter_cons_of_neg hp, List.map_cons, List.sum_cons, ih, h a List.mem_cons_self hp', zero_add]

theorem filter_mem_self {α : Type} [DecidableEq α] (l : List α) (p : α → Bool) :
    l.filter p = l.filter (fun x => decide (x ∈ l.filter p)) := by
  apply List.filter_congr
  intro x hx
  simp [List.mem_filter, hx]

theorem sum_zipWith_eq_range (F : List ℚ → ℚ → ℚ) : ∀ (data : List (List ℚ)) (sg : List ℚ), sg.length = data.length →
    (List.zipWith F data sg).sum = ((List.range data.length).map fun i => F (data.getD i []) (sg.getD i 0)).sum
  | [], _, _ => by simp
  | _ :: _, [], h => by simp at h
  | x :: data, s :: sg, h => by
    rw [List.zipWith_cons_cons, List.sum_cons, List.length_cons, List.range_succ_eq_map, List.map_cons, List.sum_cons,
      List.map_map, sum_zipWith_eq_range F data sg (by simpa using h)]
    rfl

/-- the recomputed entry is the sample mean provided every sample that `find_data_in_domain` leaves out contributes
    nothing (auxiliary form; the side condition is discharged in `bRecompute_eq_spec`) -/
theorem bRecompute_eq_spec_partial (data : List (List ℚ)) (sg : List ℚ) (sidx : List (List ℕ)) (h : List Hat1)
    (hlen : sg.length = data.length)
    (hout : ∀ x ∈ List.range data.length, x ∉ findDataInDomain data sidx h → hatNS h (data.getD x []) * sg.getD x 0 = 0) :
    bRecompute data sg sidx h = bSpec data sg h := by
  unfold bRecompute bSpec
  congr 1
  rw [sum_zipWith_eq_range (fun x s => hatNS h x * s) data sg hlen]
  have hf : findDataInDomain data sidx h = (List.range data.length).filter
      (fun x => decide (x ∈ findDataInDomain data sidx h)) := by
    unfold findDataInDomain
    exact filter_mem_self _ _
  rw [hf]
  exact sum_filter_of_zero _ _ _ fun x hx hp => hout x hx (by simpa using hp)

/-! ### the data slices leave out only samples outside the support -/

theorem firstGe_lt (lo : ℚ) : ∀ (cs : List ℚ) (i : ℕ) (hi : i < cs.length), i < firstGe lo cs → cs[i] < lo
  | [], i, h, _ => by simp at h
  | c :: cs, i, h, hlt => by
    unfold firstGe at hlt
    by_cases hc : c ≥ lo
    · rw [if_pos hc] at hlt; omega
    · rw [if_neg hc] at hlt
      cases i with
      | zero => simpa using hc
      | succ j => simpa using firstGe_lt lo cs j (by simpa using h) (by omega)

theorem lastLeAux_ge_acc (hi : ℚ) : ∀ (cs : List ℚ) (i acc : ℕ), acc ≤ lastLeAux hi i cs acc
  | [], _, _ => le_refl _
  | c :: cs, i, acc => by
    unfold lastLeAux
    refine le_trans ?_ (lastLeAux_ge_acc hi cs (i + 1) _)
    split_ifs with h
    · omega
    · exact le_refl _

theorem lastLeAux_ge (hi : ℚ) : ∀ (cs : List ℚ) (i acc j : ℕ) (hj : j < cs.length), cs[j] ≤ hi → i + j ≤ lastLeAux hi i cs acc
  | [], _, _, j, h, _ => by simp at h
  | c :: cs, i, acc, j, h, hle => by
    unfold lastLeAux
    cases j with
    | zero =>
      have hc : c ≤ hi := by simpa using hle
      refine le_trans ?_ (lastLeAux_ge_acc hi cs (i + 1) _)
      split_ifs with h'
      · omega
      · have : ¬ i > acc := fun hh => h' ⟨hc, hh⟩
        omega
    | succ k =>
      have := lastLeAux_ge hi cs (i + 1) (if c ≤ hi ∧ i > acc then i else acc) k (by simpa using h) (by simpa using hle)
      omega

theorem lastLe_lt (hi : ℚ) (cs : List ℚ) (j : ℕ) (hj : j < cs.length) (h : lastLe hi cs < j) : hi < cs[j] := by
  by_contra hc
  have := lastLeAux_ge hi cs 0 0 j hj (not_lt.mp hc)
  unfold lastLe at h
  omega

theorem mem_slice {α : Type} (l : List α) (a b i : ℕ) (hi : i < l.length) (h1 : a ≤ i) (h2 : i < b) :
    l[i] ∈ (l.drop a).take (b - a) := by
  rw [List.mem_iff_getElem]
  refine ⟨i - a, by simp; omega, ?_⟩
  simp only [List.getElem_take, List.getElem_drop]
  congr 1; omega

theorem lprod_zipWith_zero (f : Hat1 → ℚ → ℚ) : ∀ (h : List Hat1) (x : List ℚ) (d : ℕ) (h1 : d < h.length) (h2 : d < x.length),
    f h[d] x[d] = 0 → lprod (List.zipWith f h x) = 0
  | [], _, _, h1, _, _ => by simp at h1
  | _ :: _, [], _, _, h2, _ => by simp at h2
  | a :: h, c :: x, d, h1, h2, hz => by
    simp only [List.zipWith_cons_cons, lprod]
    cases d with
    | zero => simp only [List.getElem_cons_zero] at hz; rw [hz, zero_mul]
    | succ k =>
      rw [lprod_zipWith_zero f h x k (by simpa using h1) (by simpa using h2) (by simpa using hz), mul_zero]

/-- **the recomputed entry IS the sample mean** (code as of commit c6031a7): for every hat with non-degenerate support, every
    data set and labelling, and per dimension any index list that contains every sample index (`np.argsort`; the order
    does not even matter for correctness) -/
theorem bRecompute_eq_spec (data : List (List ℚ)) (sg : List ℚ) (sidx : List (List ℕ)) (h : List Hat1)
    (hlen : sg.length = data.length) (hdim : sidx.length = h.length)
    (hrow : ∀ x ∈ data, x.length = h.length)
    (hperm : ∀ l ∈ sidx, ∀ x < data.length, x ∈ l)
    (hval : ∀ a ∈ h, a.lo < a.p ∧ a.p < a.hi) :
    bRecompute data sg sidx h = bSpec data sg h := by
  apply bRecompute_eq_spec_partial data sg sidx h hlen
  intro x hx hnot
  have hxM : x < data.length := List.mem_range.mp hx
  -- some slice does not contain x
  unfold findDataInDomain at hnot
  simp only [List.mem_filter, hx, true_and] at hnot
  rw [List.all_eq_true] at hnot
  push Not at hnot
  obtain ⟨s, hs, hxs⟩ := hnot
  obtain ⟨d, hd, rfl⟩ := List.mem_iff_getElem.mp hs
  have hd1 : d < sidx.length := by
    simp only [List.length_zipWith, enum, List.length_zip, List.length_range] at hd; omega
  have hd2 : d < h.length := by
    simp only [List.length_zipWith] at hd; omega
  simp only [List.getElem_zipWith, enum, List.getElem_zip, List.getElem_range] at hxs
  set l := sidx[d] with hl
  -- position of x in the index list of dimension d
  obtain ⟨i, hi, hxi⟩ := List.mem_iff_getElem.mp (hperm l (List.getElem_mem _) x hxM)
  set coords := l.map (fun i => (data.getD i []).getD d 0) with hco
  have hci : i < coords.length := by simpa [hco] using hi
  have hcv : coords[i] = (data.getD x []).getD d 0 := by simp [hco, hxi]
  have hout : (data.getD x []).getD d 0 < h[d].lo ∨ h[d].hi < (data.getD x []).getD d 0 := by
    by_contra hcon
    push Not at hcon
    apply hxs
    have hin : l[i] ∈ (l.drop (dataRange coords h[d].lo h[d].hi).1).take
        ((dataRange coords h[d].lo h[d].hi).2 - (dataRange coords h[d].lo h[d].hi).1) := by
      apply mem_slice l _ _ i hi
      · unfold dataRange; simp only
        by_contra hlt
        have := firstGe_lt h[d].lo coords i hci (by omega)
        rw [hcv] at this; linarith [hcon.1]
      · unfold dataRange; simp only
        by_contra hge
        have hc' : coords.length = l.length := by simp [hco]
        have : lastLe h[d].hi coords < i := by
          rw [Nat.lt_min] at hge
          omega
        have := lastLe_lt h[d].hi coords i hci this
        rw [hcv] at this; linarith [hcon.2]
    rw [hxi] at hin
    simpa using hin
  -- the hat vanishes there
  have hrowx : (data.getD x []).length = h.length := by
    rw [List.getD_eq_getElem?_getD, List.getElem?_eq_getElem hxM]
    exact hrow _ (List.getElem_mem _)
  have hd3 : d < (data.getD x []).length := by rw [hrowx]; exact hd2
  have hgd : (data.getD x []).getD d 0 = (data.getD x [])[d] := by
    rw [List.getD_eq_getElem?_getD, List.getElem?_eq_getElem hd3]; rfl
  have hv := hval h[d] (List.getElem_mem _)
  have hz : hatNS1 h[d] (data.getD x [])[d] = 0 := by
    rw [hatNS1_eq_spec h[d] hv.1 hv.2]
    apply hatSpec_outside
    rw [← hgd]
    rcases hout with ho | ho
    · exact Or.inl ho.le
    · exact Or.inr ho.le
  unfold hatNS
  rw [lprod_zipWith_zero hatNS1 h (data.getD x []) d hd2 hd3 hz, zero_mul]


end SparseSpace.DCache
