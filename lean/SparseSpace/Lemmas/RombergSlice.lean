import SparseSpace.Lemmas.RombergCoeff
import Mathlib.Algebra.BigOperators.Group.List.Basic
import Mathlib.Tactic.LinearCombination
/-!
# Slice weights (C11): a slice contributes its width, and its width times the value at its midpoint for affine integrands
-/
namespace SparseSpace.Romberg
open Finset

theorem rsum_eq (l : List ℚ) : rsum l = l.sum := by
  induction l with
  | nil => rfl
  | cons x xs ih => simp [rsum, ih]

/-- the quadrature sum `Σ w · f(p)` of a list of (point, weight) contributions -/
def wsum (f : ℚ → ℚ) (cs : List (ℚ × ℚ)) : ℚ := (cs.map (fun e => e.2 * f e.1)).sum

@[simp] theorem wsum_nil (f : ℚ → ℚ) : wsum f [] = 0 := rfl
@[simp] theorem wsum_cons (f : ℚ → ℚ) (e : ℚ × ℚ) (cs : List (ℚ × ℚ)) :
    wsum f (e :: cs) = e.2 * f e.1 + wsum f cs := by simp [wsum]
@[simp] theorem wsum_append (f : ℚ → ℚ) (c1 c2 : List (ℚ × ℚ)) :
    wsum f (c1 ++ c2) = wsum f c1 + wsum f c2 := by simp [wsum]

/-- antiderivative of `x ↦ α x + β` -/
def prim (α β x : ℚ) : ℚ := α * x ^ 2 / 2 + β * x

/-- **slice weights**: left + right weight = slice width -/
theorem supportWeights_sum (s : Slice) (L R : ℚ) (h : L ≠ R) :
    (supportWeights s L R).1 + (supportWeights s L R).2 = s.width := by
  have hLR : L - R ≠ 0 := sub_ne_zero.mpr h
  simp only [supportWeights]
  field_simp
  ring

/-- **slice weights**: first moment = width · midpoint, for ANY support pair `L ≠ R` -/
theorem supportWeights_moment (s : Slice) (L R : ℚ) (h : L ≠ R) :
    L * (supportWeights s L R).1 + R * (supportWeights s L R).2 = s.width * ((s.xl + s.xr) / 2) := by
  have hLR : L - R ≠ 0 := sub_ne_zero.mpr h
  simp only [supportWeights]
  field_simp
  ring

theorem supportWeights_affine (s : Slice) (L R α β : ℚ) (h : L ≠ R) :
    (supportWeights s L R).1 * (α * L + β) + (supportWeights s L R).2 * (α * R + β)
      = s.width * (α * ((s.xl + s.xr) / 2) + β) := by
  have h1 := supportWeights_sum s L R h
  have h2 := supportWeights_moment s L R h
  calc _ = α * (L * (supportWeights s L R).1 + R * (supportWeights s L R).2)
            + β * ((supportWeights s L R).1 + (supportWeights s L R).2) := by ring
    _ = _ := by rw [h1, h2]; ring

theorem rombergContribs_wsum (s : Slice) (a b α β : ℚ) (seq : List (ℚ × ℚ)) (k : ℕ) (cs : List (ℚ × ℚ))
    (h : rombergContribs s a b seq k = some cs) :
    wsum (fun x => α * x + β) cs
      = (∑ i ∈ range seq.length, coeff a b 2 s.maxLevel (k + i)) * (s.width * (α * ((s.xl + s.xr) / 2) + β)) := by
  induction seq generalizing k cs with
  | nil => simp [rombergContribs] at h; subst h; simp
  | cons q rest ih =>
    obtain ⟨L, R⟩ := q
    simp only [rombergContribs] at h
    split at h
    · rename_i hc
      cases hr : rombergContribs s a b rest (k + 1) with
      | none => rw [hr] at h; simp at h
      | some t =>
        rw [hr] at h
        simp only [Option.some.injEq] at h
        subst h
        have := ih (k + 1) t hr
        simp only [wsum_cons, this, List.length_cons, Finset.sum_range_succ']
        have ha := supportWeights_affine s L R α β hc.2.2
        have : ∀ i, k + 1 + i = k + (i + 1) := by intro i; omega
        simp only [this, add_zero]
        linear_combination (coeff a b 2 s.maxLevel k) * ha
    · simp at h

/-- a single slice (Romberg or trapezoidal version) integrates affine functions exactly over its own interval -/
theorem sliceContribs_wsum (v : SliceVer) (s : Slice) (α β : ℚ) (cs : List (ℚ × ℚ))
    (hlen : s.maxLevel + 1 = s.seq.length) (h : sliceContribs v s = some cs) :
    wsum (fun x => α * x + β) cs = prim α β s.xr - prim α β s.xl := by
  cases v with
  | trapezoid =>
    simp only [sliceContribs, Option.some.injEq] at h
    subst h
    simp [prim, Slice.width]
    ring
  | romberg =>
    simp only [sliceContribs] at h
    cases hseq : s.seq with
    | nil => rw [hseq] at h; simp at h
    | cons q rest =>
      obtain ⟨a, b⟩ := q
      rw [hseq] at h
      simp only at h
      have hab : a ≠ b := by
        simp only [rombergContribs] at h
        split at h
        · rename_i hc; exact hc.2.2
        · simp at h
      rw [rombergContribs_wsum s a b α β _ 0 cs h]
      have hl : ((a, b) :: rest).length = s.maxLevel + 1 := by rw [← hseq]; exact hlen.symm
      rw [hl]
      have hs := coeff_sum a b 2 s.maxLevel hab (by norm_num)
      rw [sumRange_eq] at hs
      simp only [zero_add] at hs ⊢
      rw [hs]
      simp [prim, Slice.width]
      ring

/-! ## collecting the dictionary into the weight vector -/

theorem dot_map (grid : List ℚ) (u f : ℚ → ℚ) :
    dot (grid.map u) (grid.map f) = (grid.map (fun g => u g * f g)).sum := by
  induction grid with
  | nil => simp [dot]
  | cons g gs ih => simp [dot, ih]

theorem sum_indicator (grid : List ℚ) (p w : ℚ) (f : ℚ → ℚ) (hn : grid.Nodup) (hp : p ∈ grid) :
    (grid.map (fun g => (if p = g then w else 0) * f g)).sum = w * f p := by
  induction grid with
  | nil => simp at hp
  | cons g gs ih =>
    rw [List.nodup_cons] at hn
    simp only [List.map_cons, List.sum_cons]
    by_cases hpg : p = g
    · subst hpg
      have : (gs.map (fun g => (if p = g then w else 0) * f g)).sum = 0 := by
        apply List.sum_eq_zero
        intro x hx
        simp only [List.mem_map] at hx
        obtain ⟨y, hy, rfl⟩ := hx
        have : p ≠ y := fun h => hn.1 (h ▸ hy)
        simp [this]
      rw [this]; simp
    · have hp' : p ∈ gs := by
        simp only [List.mem_cons] at hp
        rcases hp with h | h
        · exact absurd h hpg
        · exact h
      rw [ih hn.2 hp']; simp [hpg]

theorem weightAt_cons (e : ℚ × ℚ) (cs : List (ℚ × ℚ)) (g : ℚ) :
    weightAt (e :: cs) g = (if e.1 = g then e.2 else 0) + weightAt cs g := by
  simp only [weightAt, List.filter_cons]
  by_cases h : e.1 = g <;> simp [h, rsum]

/-- the weight vector returned by `get_weights`, paired with the grid, gives the same quadrature sum as the
    dictionary of contributions -/
theorem dot_finalWeights (grid : List ℚ) (cs : List (ℚ × ℚ)) (f : ℚ → ℚ) (hn : grid.Nodup)
    (hk : ∀ e ∈ cs, e.1 ∈ grid) :
    dot (finalWeights grid cs) (grid.map f) = wsum f cs := by
  rw [finalWeights, dot_map]
  induction cs with
  | nil => simp [weightAt, rsum]
  | cons e cs ih =>
    have hk' : ∀ e ∈ cs, e.1 ∈ grid := fun x hx => hk x (List.mem_cons_of_mem _ hx)
    have he : e.1 ∈ grid := hk e List.mem_cons_self
    simp only [weightAt_cons, add_mul, wsum_cons]
    rw [← ih hk', ← sum_indicator grid e.1 e.2 f hn he, ← List.sum_map_add]

theorem dot_ones (ws : List ℚ) (grid : List ℚ) (h : ws.length = grid.length) :
    dot ws (grid.map (fun _ => (1 : ℚ))) = ws.sum := by
  induction ws generalizing grid with
  | nil => simp [dot]
  | cons w ws ih =>
    cases grid with
    | nil => simp at h
    | cons g gs =>
      have := ih gs (by simpa using h)
      simp only [List.map_cons, dot, mul_one, List.sum_cons, this]

end SparseSpace.Romberg
