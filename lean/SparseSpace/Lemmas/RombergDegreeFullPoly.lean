import SparseSpace.Lemmas.RombergDegreeFullTrap
import Mathlib.Algebra.Polynomial.Taylor
import Mathlib.Algebra.Polynomial.Derivative
/-!
# Romberg's rule of depth `m` integrates every polynomial of degree `≤ 2m+1` exactly on every interval (C11)

From the monomials `t^p` on `[0,1]` (`romberg_monomial_unit`) to arbitrary polynomials on `[x, x+W]`:
Taylor expansion of `p` at `x` (`Polynomial.sum_taylor_eq`), linearity of the trapezoid sums, and the exact integral
`polyInt p a b = Σ_n p_n (b^(n+1) - a^(n+1)) / (n+1)` as a linear map with `polyIntL (R') = R(b) - R(a)`.
-/
namespace SparseSpace.Romberg
open Finset Polynomial

/-- the exact integral `∫_a^b p` of a polynomial with rational coefficients: `Σ_n p_n (b^(n+1) - a^(n+1)) / (n+1)` -/
noncomputable def polyInt (p : ℚ[X]) (a b : ℚ) : ℚ :=
  ∑ n ∈ range (p.natDegree + 1), p.coeff n * (b ^ (n + 1) - a ^ (n + 1)) / ((n : ℚ) + 1)

/-- `polyInt` as a linear map -/
noncomputable def polyIntL (a b : ℚ) : ℚ[X] →ₗ[ℚ] ℚ :=
  Polynomial.lsum fun n => ((b ^ (n + 1) - a ^ (n + 1)) / ((n : ℚ) + 1)) • LinearMap.id

theorem polyIntL_apply (a b : ℚ) (p : ℚ[X]) : polyIntL a b p = polyInt p a b := by
  simp only [polyIntL, polyInt, lsum_apply]
  rw [Polynomial.sum_over_range]
  · refine Finset.sum_congr rfl fun n _ => ?_
    simp only [LinearMap.smul_apply, LinearMap.id_coe, id_eq, smul_eq_mul]
    ring
  · intro n; simp

theorem polyIntL_monomial (a b : ℚ) (k : ℕ) (c : ℚ) :
    polyIntL a b (monomial k c) = c * (b ^ (k + 1) - a ^ (k + 1)) / ((k : ℚ) + 1) := by
  simp only [polyIntL, lsum_apply]
  rw [Polynomial.sum_monomial_index]
  · simp only [LinearMap.smul_apply, LinearMap.id_coe, id_eq, smul_eq_mul]
    ring
  · simp

/-- fundamental theorem of calculus for polynomials -/
theorem polyIntL_derivative (a b : ℚ) (R : ℚ[X]) : polyIntL a b (derivative R) = R.eval b - R.eval a := by
  induction R using Polynomial.induction_on' with
  | add p q hp hq => rw [derivative_add, map_add, hp, hq, eval_add, eval_add]; ring
  | monomial n c =>
    rw [derivative_monomial, polyIntL_monomial, eval_monomial, eval_monomial]
    cases n with
    | zero => simp
    | succ k =>
      have hk : ((k : ℚ) + 1) ≠ 0 := by positivity
      simp only [Nat.add_sub_cancel]
      push_cast
      field_simp

theorem polyIntL_shift (x y c : ℚ) (n : ℕ) :
    polyIntL x y (C c * (X - C x) ^ n) = c * (y - x) ^ (n + 1) / ((n : ℚ) + 1) := by
  have hn : ((n : ℚ) + 1) ≠ 0 := by positivity
  have hd : C c * (X - C x) ^ n = derivative (C (c / ((n : ℚ) + 1)) * (X - C x) ^ (n + 1)) := by
    rw [derivative_C_mul, derivative_X_sub_C_pow, Nat.add_sub_cancel, ← mul_assoc, ← C_mul]
    congr 2
    push_cast
    field_simp
  rw [hd, polyIntL_derivative]
  simp only [eval_mul, eval_C, eval_pow, eval_sub, eval_X, sub_self]
  rw [zero_pow (by omega)]
  ring

/-- every polynomial of degree `≤ D` is a combination of the shifted powers `(X - x)^n`, `n ≤ D` -/
theorem exists_shift_expansion (p : ℚ[X]) (x : ℚ) (D : ℕ) (hD : p.natDegree ≤ D) :
    ∃ c : ℕ → ℚ, p = ∑ n ∈ range (D + 1), C (c n) * (X - C x) ^ n := by
  refine ⟨fun n => (taylor x p).coeff n, ?_⟩
  conv_lhs => rw [← sum_taylor_eq p x]
  rw [Polynomial.sum_over_range' _ (by intro n; simp) (D + 1) (by rw [natDegree_taylor]; omega)]

/-- **Romberg's rule of depth `m`** (coefficients of exponent 2 on any interval `a ≠ b`, composite trapezoid sums with
    `2^j` cells on `[x, x+W]`) **integrates every polynomial of degree `≤ 2m+1` exactly** -/
theorem romberg_poly (a b : ℚ) (hab : a ≠ b) (m : ℕ) (p : ℚ[X]) (hp : p.natDegree ≤ 2 * m + 1) (x W : ℚ) :
    ∑ j ∈ range (m + 1), coeff a b 2 m j * cellTrap (fun y => p.eval y) j x W = polyInt p x (x + W) := by
  obtain ⟨c, rfl⟩ := exists_shift_expansion p x (2 * m + 1) hp
  rw [← polyIntL_apply, map_sum]
  have hf : (fun y : ℚ => (∑ n ∈ range (2 * m + 1 + 1), C (c n) * (X - C x) ^ n).eval y)
      = fun y => ∑ n ∈ range (2 * m + 1 + 1), c n * (fun n y => (y - x) ^ n) n y := by
    funext y
    rw [eval_finsetSum]
    refine Finset.sum_congr rfl fun n _ => by simp
  rw [hf]
  simp only [cellTrap_linear, Finset.mul_sum]
  rw [Finset.sum_comm]
  refine Finset.sum_congr rfl fun n hn => ?_
  have hn' : n ≤ 2 * m + 1 := by have := mem_range.mp hn; omega
  rw [polyIntL_shift]
  have hterm : ∀ j ∈ range (m + 1), coeff a b 2 m j * (c n * cellTrap (fun y => (y - x) ^ n) j x W)
      = c n * W ^ (n + 1) * (coeff a b 2 m j * cellTrap (fun t => t ^ n) j 0 1) := by
    intro j _
    rw [cellTrap_shift]
    ring
  rw [Finset.sum_congr rfl hterm, ← Finset.mul_sum, romberg_monomial_unit a b hab m n hn']
  ring

/-- the monomial case, written out: `Σ_j c_{m,j} T_j(y^n) = ((x+W)^(n+1) - x^(n+1)) / (n+1)` for `n ≤ 2m+1` -/
theorem romberg_monomial (a b : ℚ) (hab : a ≠ b) (m n : ℕ) (hn : n ≤ 2 * m + 1) (x W : ℚ) :
    ∑ j ∈ range (m + 1), coeff a b 2 m j * cellTrap (fun y => y ^ n) j x W
      = ((x + W) ^ (n + 1) - x ^ (n + 1)) / ((n : ℚ) + 1) := by
  have h := romberg_poly a b hab m (X ^ n) (by rw [natDegree_X_pow]; exact hn) x W
  simp only [eval_pow, eval_X] at h
  rw [h, ← polyIntL_apply, ← monomial_one_right_eq_X_pow, polyIntL_monomial]
  ring

theorem polyInt_X_pow (n : ℕ) (a b : ℚ) : polyInt (X ^ n) a b = (b ^ (n + 1) - a ^ (n + 1)) / ((n : ℚ) + 1) := by
  rw [← polyIntL_apply, ← monomial_one_right_eq_X_pow, polyIntL_monomial]
  ring

/-- for affine polynomials `polyInt` is the primitive used in the sum / linear clause -/
theorem polyInt_affine (p : ℚ[X]) (hp : p.natDegree ≤ 1) (a b : ℚ) :
    polyInt p a b = prim (p.coeff 1) (p.coeff 0) b - prim (p.coeff 1) (p.coeff 0) a := by
  rw [← polyIntL_apply]
  conv_lhs => rw [Polynomial.eq_X_add_C_of_natDegree_le_one hp]
  rw [map_add, C_mul_X_eq_monomial, ← monomial_zero_left, polyIntL_monomial, polyIntL_monomial]
  simp only [prim]
  push_cast
  ring

end SparseSpace.Romberg
