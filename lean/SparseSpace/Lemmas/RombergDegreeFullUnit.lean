import SparseSpace.Lemmas.RombergDegreeFullGrid
/-!
# UNIT grouping on the complete dyadic grid: the sliced Romberg rule is Romberg's rule (C11, degree clause)

With `UNIT` grouping every slice is its own container and contributes, for every level `k` of its support sequence,
`c_{m,k}` times the integral over the slice of the linear interpolant through the `k`-th support pair.  On the complete
grid of depth `m` the slices below a support pair `(P, Q)` tile `[P, Q]`, so their level-`k` contributions add up to the
trapezoid rule on `[P, Q]`, and all support pairs of level `k` together give the composite trapezoid sum `T_k`.  Hence
the weights are those of `Σ_k c_{m,k} T_k`, and `romberg_poly` gives the degree `2m+1`.
-/
namespace SparseSpace.Romberg
open SparseSpace Finset

/-- contribution of the support pair `q` to the slice `s`: the integral over the slice of the linear interpolant of
    `f` through the pair -/
def lin (f : ℚ → ℚ) (s : Slice) (q : ℚ × ℚ) : ℚ :=
  (supportWeights s q.1 q.2).1 * f q.1 + (supportWeights s q.1 q.2).2 * f q.2

/-- the quadrature sum of a Romberg slice along a support sequence, coefficients of depth `M`, starting at level `k` -/
def seqSum (f : ℚ → ℚ) (M : ℕ) (s : Slice) (a b : ℚ) : List (ℚ × ℚ) → ℕ → ℚ
  | [], _ => 0
  | q :: rest, k => coeff a b 2 M k * lin f s q + seqSum f M s a b rest (k + 1)

theorem rombergContribs_wsum_seq (f : ℚ → ℚ) (s : Slice) (a b : ℚ) (seq : List (ℚ × ℚ)) (k : ℕ) (cs : List (ℚ × ℚ))
    (h : rombergContribs s a b seq k = some cs) : wsum f cs = seqSum f s.maxLevel s a b seq k := by
  induction seq generalizing k cs with
  | nil => simp only [rombergContribs, Option.some.injEq] at h; subst h; rfl
  | cons q rest ih =>
    obtain ⟨L, R⟩ := q
    simp only [rombergContribs] at h
    by_cases hc : L ≤ s.xl ∧ R ≥ s.xr ∧ L ≠ R
    · rw [if_pos hc] at h
      cases ht : rombergContribs s a b rest (k + 1) with
      | none => rw [ht] at h; simp at h
      | some t =>
        rw [ht] at h
        simp only [Option.some.injEq] at h
        subst h
        simp only [wsum_cons, seqSum, lin, ih (k + 1) t ht]
        ring
    · rw [if_neg hc] at h; simp at h

theorem seqSum_append (f : ℚ → ℚ) (M : ℕ) (s : Slice) (a b : ℚ) (l1 l2 : List (ℚ × ℚ)) (k : ℕ) :
    seqSum f M s a b (l1 ++ l2) k = seqSum f M s a b l1 k + seqSum f M s a b l2 (k + l1.length) := by
  induction l1 generalizing k with
  | nil => simp [seqSum]
  | cons q rest ih =>
    simp only [List.cons_append, seqSum, ih, List.length_cons]
    have : k + 1 + rest.length = k + (rest.length + 1) := by omega
    rw [this]; ring

theorem sum_seqSum_snoc (f : ℚ → ℚ) (M : ℕ) (a b : ℚ) (pre0 : List (ℚ × ℚ)) (q : ℚ × ℚ) (ss : List Slice) :
    (ss.map (fun s => seqSum f M s a b (pre0 ++ [q]) 0)).sum
      = (ss.map (fun s => seqSum f M s a b pre0 0)).sum
        + coeff a b 2 M pre0.length * (ss.map (fun s => lin f s q)).sum := by
  have hp : ∀ s : Slice, seqSum f M s a b (pre0 ++ [q]) 0
      = seqSum f M s a b pre0 0 + coeff a b 2 M pre0.length * lin f s q := by
    intro s
    simp only [seqSum_append, seqSum, zero_add, add_zero]
  simp only [hp]
  induction ss with
  | nil => simp
  | cons s r ih =>
    simp only [List.map_cons, List.sum_cons, ih]
    ring

/-- the pair of the slice itself: the trapezoid rule on the slice -/
theorem lin_self (f : ℚ → ℚ) (s : Slice) (h : s.xl ≠ s.xr) :
    lin f s (s.xl, s.xr) = s.width * (f s.xl + f s.xr) / 2 := by
  have hd : s.xl - s.xr ≠ 0 := sub_ne_zero.mpr h
  simp only [lin, supportWeights, Slice.width]
  field_simp
  ring

/-- the slices of a chain from `P` to `Q` tile `[P, Q]`: their contributions for the pair `(P, Q)` add up to the
    trapezoid rule on `[P, Q]` -/
theorem lin_chain (f : ℚ → ℚ) (P Q : ℚ) (hPQ : P ≠ Q) (ss : List Slice) (hch : SChain P ss) (hend : endOf P ss = Q) :
    (ss.map (fun s => lin f s (P, Q))).sum = (Q - P) * (f P + f Q) / 2 := by
  have hd : P - Q ≠ 0 := sub_ne_zero.mpr hPQ
  set F : ℚ → ℚ := fun y => (y * (1 - P / (P - Q)) + y ^ 2 / (2 * (P - Q))) * f P
    + (y * (P / (P - Q)) - y ^ 2 / (2 * (P - Q))) * f Q with hF
  have hl : ∀ s : Slice, lin f s (P, Q) = F s.xr - F s.xl := by
    intro s
    simp only [lin, supportWeights, Slice.width, hF]
    field_simp
    ring
  simp only [hl]
  rw [schain_telescope F P ss hch, hend]
  simp only [hF]
  field_simp
  ring

/-- **the slices below a complete segment**: the part of their quadrature sums that belongs to the levels from the
    segment's own pair downwards is `Σ_i c_{M, ℓ+i} · T_i` on the segment (`ℓ` = number of pairs above it) -/
theorem cseg_unit_sum (f : ℚ → ℚ) {d : ℕ} {L R : PL} {inner : List PL} (h : CSeg d L inner R) :
    ∀ (fuel : ℕ) (pre0 : List (ℚ × ℚ)) (a b : ℚ) (M : ℕ), inner.length < fuel → L.1 < R.1 →
      ((slicesRec fuel L inner R (pre0 ++ [(L.1, R.1)])).map (fun s => seqSum f M s a b s.seq 0)).sum
        = ((slicesRec fuel L inner R (pre0 ++ [(L.1, R.1)])).map (fun s => seqSum f M s a b pre0 0)).sum
          + ∑ i ∈ range (d + 1), coeff a b 2 M (pre0.length + i) * cellTrap f i L.1 (R.1 - L.1) := by
  induction h with
  | leaf L R =>
    intro fuel pre0 a b M hf hLR
    cases fuel with
    | zero => omega
    | succ f' =>
      simp only [slicesRec, splitMin, List.map_cons, List.map_nil, List.sum_cons, List.sum_nil, add_zero,
        seqSum_append, seqSum, zero_add, Finset.sum_range_one, cellTrap]
      have := lin_self f ⟨L.1, R.1, L.2, R.2, pre0 ++ [(L.1, R.1)]⟩ (ne_of_lt hLR)
      simp only [Slice.width] at this
      rw [this, add_sub_cancel]
  | bisect d L R m lp rp hmid hm h1 h2 ih1 ih2 =>
    intro fuel pre0 a b M hf hLR
    cases fuel with
    | zero => omega
    | succ f' =>
      have hchain := slicesRec_chain (f' + 1) L R (lp ++ m :: rp) (pre0 ++ [(L.1, R.1)]) hf
      simp only [List.length_append, List.length_cons] at hf
      simp only [slicesRec, refSeg_split hm (cseg_refSeg h1) (cseg_refSeg h2)] at hchain ⊢
      have hLm : L.1 < m.1 := by rw [hmid]; linarith
      have hmR : m.1 < R.1 := by rw [hmid]; linarith
      have i1 := ih1 f' (pre0 ++ [(L.1, R.1)]) a b M (by omega) hLm
      have i2 := ih2 f' (pre0 ++ [(L.1, R.1)]) a b M (by omega) hmR
      set left := slicesRec f' L lp m (pre0 ++ [(L.1, R.1)] ++ [(L.1, m.1)]) with hleft
      set right := slicesRec f' m rp R (pre0 ++ [(L.1, R.1)] ++ [(m.1, R.1)]) with hright
      have htel := lin_chain f L.1 R.1 (ne_of_lt hLR) (left ++ right) hchain.1 hchain.2.1
      rw [List.map_append, List.sum_append] at htel
      have hct : ∀ i : ℕ, cellTrap f i L.1 (m.1 - L.1) + cellTrap f i m.1 (R.1 - m.1)
          = cellTrap f (i + 1) L.1 (R.1 - L.1) := by
        intro i
        have e1 : m.1 - L.1 = (R.1 - L.1) / 2 := by rw [hmid]; ring
        have e2 : R.1 - m.1 = (R.1 - L.1) / 2 := by rw [hmid]; ring
        have e3 : m.1 = L.1 + (R.1 - L.1) / 2 := by rw [hmid]; ring
        rw [e1, e2]
        conv_lhs => rw [e3]
        rfl
      rw [List.map_append, List.sum_append, List.map_append, List.sum_append, i1, i2,
        sum_seqSum_snoc f M a b pre0 (L.1, R.1) left, sum_seqSum_snoc f M a b pre0 (L.1, R.1) right,
        Finset.sum_range_succ' _ (d + 1)]
      have hsum : ∑ i ∈ range (d + 1), coeff a b 2 M (pre0.length + (i + 1)) * cellTrap f (i + 1) L.1 (R.1 - L.1)
          = ∑ i ∈ range (d + 1), coeff a b 2 M ((pre0 ++ [(L.1, R.1)]).length + i) * cellTrap f i L.1 (m.1 - L.1)
            + ∑ i ∈ range (d + 1), coeff a b 2 M ((pre0 ++ [(L.1, R.1)]).length + i) * cellTrap f i m.1 (R.1 - m.1) := by
        rw [← Finset.sum_add_distrib]
        refine Finset.sum_congr rfl fun i _ => ?_
        have hl : (pre0 ++ [(L.1, R.1)]).length + i = pre0.length + (i + 1) := by
          simp only [List.length_append, List.length_cons, List.length_nil]; omega
        rw [hl, ← hct i]
        ring
      rw [hsum]
      have h0 : cellTrap f 0 L.1 (R.1 - L.1) = (R.1 - L.1) * (f L.1 + f R.1) / 2 := by
        simp only [cellTrap]
        rw [add_sub_cancel]
      rw [h0, ← htel, Nat.add_zero]
      ring_nf

/-- containers of one slice each: the quadrature sum is the sum of the slices' sums -/
theorem allContribs_unit_wsum (f : ℚ → ℚ) (sv : SliceVer) (cv : ContVer) (conts : List (List Slice))
    (cs : List (ℚ × ℚ)) (h : allContribs sv cv conts = some cs) (h1 : ∀ c ∈ conts, c.length = 1) :
    wsum f cs = (conts.flatten.map
      (fun s => match sliceContribs sv s with | some c => wsum f c | none => 0)).sum := by
  induction conts generalizing cs with
  | nil => simp only [allContribs, Option.some.injEq] at h; subst h; simp
  | cons c rest ih =>
    have hc := h1 c List.mem_cons_self
    match c, hc with
    | [s], _ =>
      simp only [allContribs, containerContribs] at h
      cases hs : sliceContribs sv s with
      | none => rw [hs] at h; simp at h
      | some x =>
        cases hr : allContribs sv cv rest with
        | none => rw [hs, hr] at h; simp at h
        | some y =>
          rw [hs, hr] at h
          simp only [Option.some.injEq] at h
          subst h
          rw [wsum_append, ih y hr (fun c hc => h1 c (List.mem_cons_of_mem _ hc))]
          simp [hs]

/-- **UNIT grouping with Romberg slices on a complete grid of depth `m`: the weights are those of
    `Σ_j c_{m,j} T_j`**, for every integrand -/
theorem complete_unit_is_romberg (cfg : Cfg) (hg : cfg.grouping = .unit) (hsv : cfg.sliceVer = .romberg)
    (grid : List ℚ) (lv : List ℕ) (a b : ℚ) (inner : List PL) (m : ℕ) (hab : a < b)
    (hlen : grid.length = lv.length) (hz : grid.zip lv = (a, 0) :: (inner ++ [(b, 0)]))
    (hcs : CSeg m (a, 0) inner (b, 0)) :
    ∃ ws, weights cfg grid lv = .ok ws ∧ ws.length = grid.length ∧
      ∀ f : ℚ → ℚ, dot ws (grid.map f) = ∑ j ∈ range (m + 1), coeff a b 2 m j * cellTrap f j a (b - a) := by
  have href := cseg_refSeg hcs
  have he := effectiveGrid_complete cfg grid lv a b inner m hlen hz hcs
  have hinv : SegInv a b (a, 0) (b, 0) [(a, b)] :=
    ⟨by simp [stepWidth_eq], rfl, hab, by
      intro q hq
      simp only [List.mem_singleton] at hq
      subst hq
      exact ⟨le_refl _, le_refl _, ne_of_lt hab⟩, rfl⟩
  have hfine := refSeg_slices href (inner.length + 1) a b [(a, b)] (Nat.lt_succ_self _) hinv
  obtain ⟨_, hlevel⟩ := cseg_slices hcs (inner.length + 1) [(a, b)] (Nat.lt_succ_self _)
  set ss := slicesRec (inner.length + 1) (a, 0) inner (b, 0) [(a, b)] with hss
  have hso : slicesOf (grid.zip lv) = some (a, b, ss) := by
    simp only [slicesOf, hz, ends_cons_append]
    rfl
  have hall : ss.all (sliceOk a b) = true := List.all_eq_true.mpr (fun s hs => (hfine s hs).1)
  have hset : setGrid cfg grid lv
      = some ⟨grid, lv, a, b, ss, adjust cfg.grouping (groupRuns (decide (cfg.grouping = Grouping.unit)) ss)⟩ := by
    simp only [setGrid, he, hso, hall, if_true]
  obtain ⟨ws, hws⟩ := valid_weights_defined_all cfg grid lv ⟨a, b, inner, hab, hlen, hz, href⟩
  set st : EG := ⟨grid, lv, a, b, ss, adjust cfg.grouping (groupRuns (decide (cfg.grouping = Grouping.unit)) ss)⟩
    with hst
  have h2 : st.weights cfg = some ws := by
    simp only [weights, hset] at hws
    cases hw : st.weights cfg with
    | none => rw [hw] at hws; simp at hws
    | some w => rw [hw] at hws; simp only [Res.ok.injEq] at hws; rw [hws]
  obtain ⟨w1, _, _⟩ := setGrid_weights cfg grid lv st ws hset h2
  refine ⟨ws, hws, w1, ?_⟩
  intro f
  obtain ⟨cs, hallc, hdot, _, _, _, _⟩ := setGrid_struct cfg grid lv st ws hset h2
  rw [hdot f]
  have hunit : ∀ c ∈ st.containers, c.length = 1 := by
    simp only [hst]
    apply adjust_unit
    rw [decide_eq_true hg]
    exact groupRuns_unit ss
  have hflat : st.containers.flatten = ss := by
    simp only [hst]
    rw [(adjust_spec cfg.grouping _ (groupRuns_runs _ ss)).1, groupRuns_flatten]
  rw [allContribs_unit_wsum f cfg.sliceVer cfg.contVer st.containers cs hallc hunit, hflat, hsv]
  -- every slice: its Romberg contributions along its support sequence
  have hslice : ∀ s ∈ ss, (match sliceContribs .romberg s with | some c => wsum f c | none => 0)
      = seqSum f m s a b s.seq 0 := by
    intro s hs
    obtain ⟨_, hsup, hhead⟩ := hfine s hs
    have hl := hlevel s hs
    simp only [Nat.max_self, Nat.zero_add] at hl
    cases hseq : s.seq with
    | nil => rw [hseq] at hhead; simp at hhead
    | cons q rest =>
      rw [hseq] at hhead
      simp only [List.head?_cons, Option.some.injEq] at hhead
      subst hhead
      obtain ⟨c, hc⟩ := rombergContribs_isSome s a b s.seq 0 hsup
      have hsc : sliceContribs .romberg s = some c := by
        simp only [sliceContribs, hseq]
        rw [← hseq]; exact hc
      rw [hsc]
      simp only
      rw [rombergContribs_wsum_seq f s a b s.seq 0 c hc, hl, hseq]
  rw [List.map_congr_left hslice]
  have := cseg_unit_sum f hcs (inner.length + 1) [] a b m (Nat.lt_succ_self _) hab
  simp only [List.nil_append, seqSum, List.length_nil, Nat.zero_add] at this
  rw [← hss] at this
  rw [this]
  simp

/-- **degree `2m+1` with UNIT grouping and Romberg slices on the complete dyadic grid** (any container version, with or
    without forced completion) -/
theorem complete_grid_degree_unit (cfg : Cfg) (hg : cfg.grouping = .unit) (hsv : cfg.sliceVer = .romberg)
    (a b : ℚ) (hab : a < b) (m : ℕ) (p : Polynomial ℚ) (hp : p.natDegree ≤ 2 * m + 1) :
    ∃ ws, weights cfg (completeGrid a b m).1 (completeGrid a b m).2 = .ok ws ∧
      ws.length = 2 ^ m + 1 ∧
      dot ws ((completeGrid a b m).1.map (fun y => p.eval y)) = polyInt p a b := by
  obtain ⟨hl, hz⟩ := completeGrid_zip a b m
  obtain ⟨ws, hws, hlen, hf⟩ := complete_unit_is_romberg cfg hg hsv _ _ a b _ m hab hl hz
    (completeInner_cseg m (a, 0) (b, 0))
  refine ⟨ws, hws, ?_, ?_⟩
  · rw [hlen]
    have hlen2 : (completeGrid a b m).1.length = (completeInner m a b 1).length + 2 := by
      simp [completeGrid]
    have := completeInner_length m a b 1
    omega
  · rw [hf, romberg_poly a b (ne_of_lt hab) m p hp a (b - a), add_sub_cancel]

end SparseSpace.Romberg
