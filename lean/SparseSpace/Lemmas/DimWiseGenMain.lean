import SparseSpace.Lemmas.DimWiseGenMax
/-!
# Translator tie for the dimension-wise strategy, part 5: cache consistency, fuel independence of the loops
-/
namespace SparseSpace
open SparseSpace.PyRt

/-! ### the `max_level_dict` cache -/

theorem dictContains_dictSet_self (m : List (List Int × Int)) (k : List Int) (v : Int) :
    dictContains (dictSet m k v) k = true := by
  unfold dictContains dictSet
  by_cases h : (m.any fun p => p.1 == k) = true
  · rw [if_pos h]
    rw [List.any_eq_true] at h ⊢
    obtain ⟨p, hp, hk⟩ := h
    exact ⟨(p.1, v), List.mem_map.mpr ⟨p, hp, by simp [hk]⟩, hk⟩
  · rw [if_neg h]
    simp

/-- `get_max_level` with a cache entry that is consistent with the objects (or absent) -/
theorem gen_max_level_cached (g : GenDW.State) (objs : List Ival) (i : Nat) (x : Ival) (d : Int)
    (hx : objs[i]? = some x)
    (hcons : dictContains g.max_level_dict [d, Int.ofNat i] = true →
      dictGet g.max_level_dict [d, Int.ofNat i] = ((maxLevel objs i : Nat) : Int)) :
    GenDW.get_max_level g (toCont objs) (toObj x) (Int.ofNat i) d = ((maxLevel objs i : Nat) : Int) := by
  cases hc : dictContains g.max_level_dict [d, Int.ofNat i]
  · exact gen_max_level g objs i x d hx hc
  · unfold GenDW.get_max_level
    simp only [hc, Bool.not_true, Bool.false_eq_true, if_false]
    exact hcons hc

/-! ### more fuel does not change a loop that ended by `break` -/

theorem subLoop6_more (dim d : Nat) (mcs : List Int) (sv : Int) : ∀ (f : Nat) (m ps : Int),
    (subLoop6 dim d mcs sv f m ps).2 = true → ∀ e, subLoop6 dim d mcs sv (f + e) m ps = subLoop6 dim d mcs sv f m ps
  | 0, _, _, h, _ => by simp [subLoop6] at h
  | f + 1, m, ps, h, e => by
    rw [show f + 1 + e = (f + e) + 1 by omega]
    simp only [subLoop6] at h ⊢
    generalize (if m > 0 then ps + cntGe dim mcs (sv - (m - 1)) else ps) = ps' at h ⊢
    generalize cntGe (d + 1) mcs (sv - m) = pst at h ⊢
    by_cases hb : ps' + pst ≥ sv
    · simp [hb]
    · simp only [hb, if_false] at h ⊢
      exact subLoop6_more dim d mcs sv f _ _ h e

theorem subLoop7_more (dim : Nat) (mcs : List Int) (sv : Int) : ∀ (f : Nat) (m ps : Int),
    (subLoop7 dim mcs sv f m ps).2 = true → ∀ e, subLoop7 dim mcs sv (f + e) m ps = subLoop7 dim mcs sv f m ps
  | 0, _, _, h, _ => by simp [subLoop7] at h
  | f + 1, m, ps, h, e => by
    rw [show f + 1 + e = (f + e) + 1 by omega]
    simp only [subLoop7] at h ⊢
    generalize ps + cntGe dim mcs (sv - m) = ps' at h ⊢
    by_cases hb : ps' ≥ sv
    · simp [hb]
    · simp only [hb, if_false] at h ⊢
      exact subLoop7_more dim mcs sv f _ _ h e

theorem subLoop8_more (dim d : Nat) (mcs : List Int) (sv ml : Int) : ∀ (f : Nat) (m ps : Int),
    (subLoop8 dim d mcs sv ml f m ps).2 = true → ∀ e, subLoop8 dim d mcs sv ml (f + e) m ps = subLoop8 dim d mcs sv ml f m ps
  | 0, _, _, h, _ => by simp [subLoop8] at h
  | f + 1, m, ps, h, e => by
    rw [show f + 1 + e = (f + e) + 1 by omega]
    simp only [subLoop8] at h ⊢
    generalize (if m > 0 then ps + min (ml - 1) (cntGe dim mcs (sv - (m - 1))) else ps) = ps' at h ⊢
    generalize min (ml - 1) (cntGe (d + 1) mcs (sv - m)) = pst at h ⊢
    by_cases hb : ps' + pst ≥ sv
    · simp [hb]
    · simp only [hb, if_false] at h ⊢
      exact subLoop8_more dim d mcs sv ml f _ _ h e

end SparseSpace
