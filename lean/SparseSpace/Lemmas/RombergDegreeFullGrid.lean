import SparseSpace.Lemmas.RombergDegreeFull
/-!
# The complete dyadic grid of depth `m` is one default container of `2^m` slices (C11, degree clause)

`completeInner d l r lvl` lists the inner (point, level) pairs of the complete bisection tree of depth `d` between `l`
and `r`; `completeGrid a b m` is the complete dyadic grid of depth `m` on `[a,b]` with the levels the refinement
assigns.  With a grouping other than `UNIT` (and without forced completion) `set_grid` puts all `2^m` slices into one
container, so the degree theorem `single_container_poly` applies unconditionally.
-/
namespace SparseSpace.Romberg
open SparseSpace

/-- inner (point, level) pairs of the complete bisection tree of depth `d` between `l` and `r`, midpoint level `lvl` -/
def completeInner : ℕ → ℚ → ℚ → ℕ → List PL
  | 0, _, _, _ => []
  | d + 1, l, r, lvl =>
    completeInner d l ((l + r) / 2) (lvl + 1) ++ ((l + r) / 2, lvl) :: completeInner d ((l + r) / 2) r (lvl + 1)

theorem completeInner_length (d : ℕ) : ∀ (l r : ℚ) (lvl : ℕ), (completeInner d l r lvl).length + 1 = 2 ^ d := by
  induction d with
  | zero => intro l r lvl; simp [completeInner]
  | succ d ih =>
    intro l r lvl
    simp only [completeInner, List.length_append, List.length_cons]
    have h1 := ih l ((l + r) / 2) (lvl + 1)
    have h2 := ih ((l + r) / 2) r (lvl + 1)
    rw [pow_succ]
    omega

/-- the complete dyadic grid of depth `m` on `[a, b]`: `(points, levels)` -/
def completeGrid (a b : ℚ) (m : ℕ) : List ℚ × List ℕ :=
  ((a, 0) :: (completeInner m a b 1 ++ [(b, 0)])).unzip

/-- complete refinement of depth `d` of the segment between `L` and `R` -/
inductive CSeg : ℕ → PL → List PL → PL → Prop
  | leaf (L R : PL) : CSeg 0 L [] R
  | bisect (d : ℕ) (L R m : PL) (lp rp : List PL) :
      m.1 = (L.1 + R.1) / 2 → m.2 = max L.2 R.2 + 1 → CSeg d L lp m → CSeg d m rp R →
      CSeg (d + 1) L (lp ++ m :: rp) R

theorem cseg_refSeg {d : ℕ} {L R : PL} {inner : List PL} (h : CSeg d L inner R) : RefSeg L inner R := by
  induction h with
  | leaf L R => exact RefSeg.leaf L R
  | bisect d L R m lp rp hmid hm _ _ ih1 ih2 => exact RefSeg.bisect L R m lp rp hmid hm ih1 ih2

theorem completeInner_cseg (d : ℕ) : ∀ (L R : PL), CSeg d L (completeInner d L.1 R.1 (max L.2 R.2 + 1)) R := by
  induction d with
  | zero => intro L R; exact CSeg.leaf L R
  | succ d ih =>
    intro L R
    simp only [completeInner]
    have h1 := ih L ((L.1 + R.1) / 2, max L.2 R.2 + 1)
    have h2 := ih ((L.1 + R.1) / 2, max L.2 R.2 + 1) R
    have e1 : max L.2 (max L.2 R.2 + 1) + 1 = max L.2 R.2 + 1 + 1 := by omega
    have e2 : max (max L.2 R.2 + 1) R.2 + 1 = max L.2 R.2 + 1 + 1 := by omega
    simp only at h1 h2
    rw [e1] at h1
    rw [e2] at h2
    exact CSeg.bisect d L R ((L.1 + R.1) / 2, max L.2 R.2 + 1) _ _ rfl rfl h1 h2

/-- the slices of a complete segment of depth `d`: `2^d` of them, all of maximal level `max(level L, level R) + d` -/
theorem cseg_slices {d : ℕ} {L R : PL} {inner : List PL} (h : CSeg d L inner R) :
    ∀ (fuel : ℕ) (pre : List (ℚ × ℚ)), inner.length < fuel →
      (slicesRec fuel L inner R pre).length = 2 ^ d ∧
      ∀ s ∈ slicesRec fuel L inner R pre, s.maxLevel = max L.2 R.2 + d := by
  induction h with
  | leaf L R =>
    intro fuel pre hf
    cases fuel with
    | zero => omega
    | succ f =>
      simp only [slicesRec, splitMin, List.length_singleton, pow_zero, List.mem_singleton, true_and]
      intro s hs
      subst hs
      simp [Slice.maxLevel]
  | bisect d L R m lp rp hmid hm h1 h2 ih1 ih2 =>
    intro fuel pre hf
    cases fuel with
    | zero => omega
    | succ f =>
      simp only [List.length_append, List.length_cons] at hf
      simp only [slicesRec, refSeg_split hm (cseg_refSeg h1) (cseg_refSeg h2)]
      obtain ⟨a1, a2⟩ := ih1 f (pre ++ [(L.1, m.1)]) (by omega)
      obtain ⟨b1, b2⟩ := ih2 f (pre ++ [(m.1, R.1)]) (by omega)
      refine ⟨by rw [List.length_append, a1, b1, pow_succ]; ring, ?_⟩
      intro s hs
      rcases List.mem_append.mp hs with hs | hs
      · rw [a2 s hs]; omega
      · rw [b2 s hs]; omega

theorem groupRuns_all_equal (ss : List Slice) (hne : ss ≠ []) (hw : ∀ s ∈ ss, ∀ t ∈ ss, s.width = t.width) :
    groupRuns false ss = [ss] := by
  induction ss with
  | nil => exact absurd rfl hne
  | cons s r ih =>
    cases r with
    | nil => simp [groupRuns]
    | cons t r' =>
      have ih' := ih (by simp) (fun u hu v hv => hw u (List.mem_cons_of_mem _ hu) v (List.mem_cons_of_mem _ hv))
      have hst : s.width = t.width := hw s List.mem_cons_self t (List.mem_cons_of_mem _ List.mem_cons_self)
      rw [groupRuns, ih']
      simp [hst]

theorem isPow2_pow (k : ℕ) : ∀ fuel : ℕ, k ≤ fuel → isPow2 fuel (2 ^ k) = true := by
  induction k with
  | zero =>
    intro fuel _
    cases fuel with
    | zero => simp [isPow2]
    | succ f => simp [isPow2]
  | succ k ih =>
    intro fuel hf
    cases fuel with
    | zero => omega
    | succ f =>
      have h1 : 2 ^ (k + 1) / 2 = 2 ^ k := by rw [pow_succ]; omega
      have h2 : 2 ^ (k + 1) % 2 = 0 := by rw [pow_succ]; omega
      have h3 : 2 ≤ 2 ^ (k + 1) := by rw [pow_succ]; have := Nat.one_le_two_pow (n := k); omega
      simp only [isPow2, h1, h2, ih f (by omega)]
      simp [h3]

/-- **on a complete grid all slices form one container of `2^m` slices** (grouping `GROUPED` or `GROUPED_OPTIMIZED`);
    `he`: the grid is not changed by `force_balanced_refinement_tree` (see `effectiveGrid_complete`) -/
theorem complete_setGrid (cfg : Cfg) (hg : cfg.grouping ≠ .unit)
    (grid : List ℚ) (lv : List ℕ) (a b : ℚ) (inner : List PL) (m : ℕ) (hab : a < b)
    (he : effectiveGrid cfg grid lv = some (grid, lv)) (hz : grid.zip lv = (a, 0) :: (inner ++ [(b, 0)]))
    (hcs : CSeg m (a, 0) inner (b, 0)) :
    ∃ ss : List Slice, ss.length = 2 ^ m ∧ setGrid cfg grid lv = some ⟨grid, lv, a, b, ss, [ss]⟩ := by
  have href := cseg_refSeg hcs
  have hinv : SegInv a b (a, 0) (b, 0) [(a, b)] :=
    ⟨by simp [stepWidth_eq], rfl, hab, by
      intro q hq
      simp only [List.mem_singleton] at hq
      subst hq
      exact ⟨le_refl _, le_refl _, ne_of_lt hab⟩, rfl⟩
  have hfine := refSeg_slices href (inner.length + 1) a b [(a, b)] (Nat.lt_succ_self _) hinv
  obtain ⟨hcount, hlevel⟩ := cseg_slices hcs (inner.length + 1) [(a, b)] (Nat.lt_succ_self _)
  obtain ⟨_, _, hne⟩ := slicesRec_chain (inner.length + 1) (a, 0) (b, 0) inner [(a, b)] (Nat.lt_succ_self _)
  set ss := slicesRec (inner.length + 1) (a, 0) inner (b, 0) [(a, b)] with hss
  have hso : slicesOf (grid.zip lv) = some (a, b, ss) := by
    simp only [slicesOf, hz, ends_cons_append]
    rfl
  have hall : ss.all (sliceOk a b) = true := List.all_eq_true.mpr (fun s hs => (hfine s hs).1)
  have hwid : ∀ s ∈ ss, s.width = stepWidth a b m := by
    intro s hs
    have hok := (hfine s hs).1
    simp only [sliceOk, Bool.and_eq_true, decide_eq_true_eq] at hok
    have hl := hlevel s hs
    simp only [Nat.max_self, Nat.zero_add] at hl
    rw [Slice.width, hok.1.1, hl]
  have hgr : groupRuns (decide (cfg.grouping = Grouping.unit)) ss = [ss] := by
    rw [decide_eq_false hg]
    exact groupRuns_all_equal ss hne (fun s hs t ht => by rw [hwid s hs, hwid t ht])
  have hpw : isPow2 ss.length ss.length = true := by
    rw [hcount]
    exact isPow2_pow m _ (le_of_lt Nat.lt_two_pow_self)
  have hadj : adjust cfg.grouping [ss] = [ss] := by
    rw [adjust_cons, hpw]
    simp [adjust]
  refine ⟨ss, hcount, ?_⟩
  simp only [setGrid, he, hso, hall, if_true, hgr, hadj]

theorem completeGrid_zip (a b : ℚ) (m : ℕ) :
    (completeGrid a b m).1.length = (completeGrid a b m).2.length ∧
    (completeGrid a b m).1.zip (completeGrid a b m).2 = (a, 0) :: (completeInner m a b 1 ++ [(b, 0)]) := by
  simp only [completeGrid]
  refine ⟨by simp, ?_⟩
  rw [List.zip_unzip]

/-- the complete dyadic grid is a valid refinement tree -/
theorem completeGrid_valid (a b : ℚ) (m : ℕ) (hab : a < b) :
    ValidTree (completeGrid a b m).1 (completeGrid a b m).2 :=
  ⟨a, b, completeInner m a b 1, hab, (completeGrid_zip a b m).1, (completeGrid_zip a b m).2,
    cseg_refSeg (completeInner_cseg m (a, 0) (b, 0))⟩

/-- the bisection tree built from a complete segment is full; it is empty exactly for depth 0 -/
theorem cseg_build {d : ℕ} {L R : PL} {inner : List PL} (h : CSeg d L inner R) :
    ∀ fuel : ℕ, inner.length < fuel →
      (BTree.build fuel inner).isFull = true ∧ (d = 0 → BTree.build fuel inner = .nil) ∧
      (d ≠ 0 → ∃ l p r, BTree.build fuel inner = .node l p r) := by
  induction h with
  | leaf L R =>
    intro fuel hf
    cases fuel with
    | zero => omega
    | succ f => simp [BTree.build, splitMin, BTree.isFull]
  | bisect d L R m lp rp hmid hm h1 h2 ih1 ih2 =>
    intro fuel hf
    cases fuel with
    | zero => omega
    | succ f =>
      simp only [List.length_append, List.length_cons] at hf
      simp only [BTree.build, refSeg_split hm (cseg_refSeg h1) (cseg_refSeg h2)]
      obtain ⟨f1, z1, n1⟩ := ih1 f (by omega)
      obtain ⟨f2, z2, n2⟩ := ih2 f (by omega)
      refine ⟨?_, fun h0 => by omega, fun _ => ⟨_, _, _, rfl⟩⟩
      by_cases hd : d = 0
      · rw [z1 hd, z2 hd]; rfl
      · obtain ⟨l1, p1, r1, e1⟩ := n1 hd
        obtain ⟨l2, p2, r2, e2⟩ := n2 hd
        rw [e1, e2, BTree.isFull, ← e1, ← e2, f1, f2]; rfl

theorem effectiveGrid_plain (cfg : Cfg) (hfb : cfg.forceBalanced = false) (grid : List ℚ) (lv : List ℕ)
    (hlen : grid.length = lv.length) (h2 : 2 ≤ grid.length) : effectiveGrid cfg grid lv = some (grid, lv) := by
  have hl2 : ¬ (grid.length ≠ lv.length ∨ grid.length < 2) := by
    intro h; rcases h with h | h
    · exact h hlen
    · omega
  simp only [effectiveGrid, hfb]
  rw [if_neg hl2]
  simp

/-- **forced completion leaves a complete grid unchanged** -/
theorem effectiveGrid_complete (cfg : Cfg) (grid : List ℚ) (lv : List ℕ) (a b : ℚ) (inner : List PL) (m : ℕ)
    (hlen : grid.length = lv.length) (hz : grid.zip lv = (a, 0) :: (inner ++ [(b, 0)]))
    (hcs : CSeg m (a, 0) inner (b, 0)) : effectiveGrid cfg grid lv = some (grid, lv) := by
  have hzl : (grid.zip lv).length = inner.length + 2 := by rw [hz]; simp
  rw [List.length_zip, ← hlen, Nat.min_self] at hzl
  cases hfb : cfg.forceBalanced with
  | false => exact effectiveGrid_plain cfg hfb grid lv hlen (by omega)
  | true =>
    have hl2 : ¬ (grid.length ≠ lv.length ∨ grid.length < 2) := by
      intro h; rcases h with h | h
      · exact h hlen
      · omega
    by_cases h3 : 3 ≤ grid.length
    · have href := cseg_refSeg hcs
      have hinner : inner ≠ [] := by intro h0; rw [h0] at hzl; simp at hzl; omega
      obtain ⟨_, p1⟩ := refSeg_build href (inner.length + 1) 1 (Nat.lt_succ_self _) (by simp)
      obtain ⟨hfull, _, _⟩ := cseg_build hcs (inner.length + 1) (Nat.lt_succ_self _)
      set root := BTree.build (inner.length + 1) inner with hroot
      have hrn : root ≠ .nil := by
        intro h0
        exact hinner ((BTree.build_eq_nil_iff _ inner (Nat.lt_succ_self _)).mp h0)
      have hinit : GBT.initTree grid lv = some ⟨a, b, root⟩ := by
        simp only [GBT.initTree]
        rw [if_neg (not_not.mpr hlen), hz]
        cases hi : inner ++ [(b, 0)] with
        | nil => simp at hi
        | cons r1 rs =>
          simp only
          rw [← hi]
          have : (inner ++ [(b, (0 : ℕ))]).reverse = (b, 0) :: inner.reverse := by simp
          rw [this]
          simp only [List.reverse_reverse, ne_eq, not_true_eq_false, or_self, if_false]
          rw [← hroot]
          cases hr : root with
          | nil => exact absurd hr hrn
          | node l p r => rfl
      have hc : (cfg.forceBalanced && decide (grid.length > 2)) = true := by
        simp only [hfb, Bool.true_and, decide_eq_true_eq]; omega
      simp only [effectiveGrid]
      rw [if_neg hl2, if_pos hc, hinit]
      simp only [GBT.forceFull, BTree.forceFull_of_isFull root hfull, GBT.grid, GBT.gridLevels]
      -- the in-order points and levels of the tree are those of the given grid
      have hpl : root.inorder.zip (root.levels 1) = inner := by rw [← BTree.pointLevels_eq_zip]; exact p1
      have hgz : (a :: (root.inorder ++ [b])).zip (0 :: (root.levels 1 ++ [0])) = grid.zip lv := by
        rw [hz, List.zip_cons_cons, List.zip_append (btree_len _ 1), hpl]
        simp
      have hl' : (a :: (root.inorder ++ [b])).length = (0 :: (root.levels 1 ++ [0])).length := by
        simp [btree_len root 1]
      have e1 := List.unzip_zip hl'
      have e2 := List.unzip_zip hlen
      rw [hgz, e2] at e1
      rw [← e1]
    · have hc : ¬ (cfg.forceBalanced && decide (grid.length > 2)) = true := by
        simp only [hfb, Bool.true_and, decide_eq_true_eq]; omega
      simp only [effectiveGrid]
      rw [if_neg hl2, if_neg hc]

/-- **degree `2m+1` on the complete dyadic grid of depth `m`**: with default containers and grouped slices (with or
    without forced completion, either slice version) the weights are returned and integrate every polynomial of
    degree `≤ 2m+1` exactly -/
theorem complete_grid_degree (cfg : Cfg) (hg : cfg.grouping ≠ .unit)
    (hcv : cfg.contVer = .default) (a b : ℚ) (hab : a < b) (m : ℕ)
    (p : Polynomial ℚ) (hp : p.natDegree ≤ 2 * m + 1) :
    ∃ ws, weights cfg (completeGrid a b m).1 (completeGrid a b m).2 = .ok ws ∧
      ws.length = 2 ^ m + 1 ∧
      dot ws ((completeGrid a b m).1.map (fun y => p.eval y)) = polyInt p a b := by
  obtain ⟨hl, hz⟩ := completeGrid_zip a b m
  have hcs := completeInner_cseg m (a, 0) (b, 0)
  have he := effectiveGrid_complete cfg _ _ a b _ m hl hz hcs
  obtain ⟨ss, hcount, hset⟩ := complete_setGrid cfg hg _ _ a b _ m hab he hz hcs
  obtain ⟨ws, hws⟩ := valid_weights_defined_all cfg _ _ (completeGrid_valid a b m hab)
  have h2 : EG.weights cfg ⟨(completeGrid a b m).1, (completeGrid a b m).2, a, b, ss, [ss]⟩ = some ws := by
    simp only [weights, hset] at hws
    cases hw : EG.weights cfg ⟨(completeGrid a b m).1, (completeGrid a b m).2, a, b, ss, [ss]⟩ with
    | none => rw [hw] at hws; simp at hws
    | some w => rw [hw] at hws; simp only [Res.ok.injEq] at hws; rw [hws]
  refine ⟨ws, hws, ?_, ?_⟩
  · obtain ⟨w1, _, _⟩ := setGrid_weights cfg _ _ _ ws hset h2
    rw [w1]
    simp only
    have hlen2 : (completeGrid a b m).1.length = (completeInner m a b 1).length + 2 := by
      simp [completeGrid]
    have := completeInner_length m a b 1
    omega
  · exact single_container_poly cfg _ _ _ ws hcv hset h2 ss rfl m hcount p hp

end SparseSpace.Romberg
