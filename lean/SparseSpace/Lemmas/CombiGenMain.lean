import SparseSpace.Lemmas.CombiGenStd
/-!
# Translator tie, part 4: histories of generated updates, order independence of the coefficient dictionary,
rational dominated sums — the machinery that transfers the C01 theorems to the generated definitions
-/
namespace SparseSpace
open SparseSpace.PyRt

/-! ### histories -/

/-- a history of `update_adaptive_combi` calls on the generated definitions -/
def genRun (g : Gen.CombiScheme) (ops : List LV) : Gen.CombiScheme :=
  ops.foldl (fun g lv => (Gen.update_adaptive_combi g lv).1) g

theorem update_dim (s : CS) (lv : LV) : (s.update lv).1.dim = s.dim := (update_dim_lmin s lv).1

theorem toCS_update (g : Gen.CombiScheme) (lv : LV) :
    toCS (Gen.update_adaptive_combi g lv).1 = ((toCS g).update lv).1 := by
  rw [gen_update]
  exact toCS_withCS g _ (update_dim (toCS g) lv)

theorem update_keeps (g : Gen.CombiScheme) (lv : LV) :
    (Gen.update_adaptive_combi g lv).1.dim = g.dim ∧
    (Gen.update_adaptive_combi g lv).1.initialized_adaptive = g.initialized_adaptive := by
  rw [gen_update]; exact ⟨rfl, rfl⟩

theorem toCS_genRun : ∀ (ops : List LV) (g : Gen.CombiScheme), toCS (genRun g ops) = runOps (toCS g) ops
  | [], _ => rfl
  | lv :: ops, g => by
    have := toCS_genRun ops (Gen.update_adaptive_combi g lv).1
    rw [toCS_update] at this
    simpa [genRun, runOps] using this

theorem genRun_keeps : ∀ (ops : List LV) (g : Gen.CombiScheme),
    (genRun g ops).dim = g.dim ∧ (genRun g ops).initialized_adaptive = g.initialized_adaptive
  | [], _ => ⟨rfl, rfl⟩
  | lv :: ops, g => by
    have h := genRun_keeps ops (Gen.update_adaptive_combi g lv).1
    have k := update_keeps g lv
    simp only [genRun, List.foldl_cons] at h ⊢
    exact ⟨h.1.trans k.1, h.2.trans k.2⟩

/-- a freshly constructed and initialised generated object -/
def genInit (dim lmax lmin : Int) : Gen.CombiScheme := Gen.init_adaptive_combi_scheme (Gen.__init__ dim) lmax lmin

theorem toCS_genInit (dim lmax lmin : Int) : toCS (genInit dim lmax lmin) = CS.init dim.toNat lmax lmin :=
  toCS_init_adaptive _ _ _

theorem genInit_flag (dim lmax lmin : Int) : (genInit dim lmax lmin).initialized_adaptive = true := by
  unfold genInit; rw [gen_init_adaptive]

theorem genInit_dim (dim lmax lmin : Int) : (genInit dim lmax lmin).dim = dim := by
  unfold genInit; rw [gen_init_adaptive]; rfl

/-! ### the coefficient dictionary does not depend on the iteration order of the index set -/

theorem keys_coeffsOf_nodup (lmin : Int) (idx : List LV) : (keys (coeffsOf lmin idx)).Nodup := by
  rw [coeffsOf_eq]
  have hnd := (dict_spec (fun _ => true) (stencilEntries lmin idx) [] (by simp [keys])).1
  exact List.Nodup.sublist (List.Sublist.map _ List.filter_sublist) hnd

theorem coeffsOf_ne_zero (lmin : Int) (idx : List LV) : ∀ p ∈ coeffsOf lmin idx, p.2 ≠ 0 := by
  intro p hp
  rw [coeffsOf_eq, List.mem_filter] at hp
  simpa using hp.2

/-- Python iterates a `set` in arbitrary order: the returned scheme is the same up to the order of its entries -/
theorem coeffsOf_perm (lmin : Int) (idx1 idx2 : List LV) (h : idx1.Perm idx2) :
    (coeffsOf lmin idx1).Perm (coeffsOf lmin idx2) := by
  apply perm_of_lookup _ _ (keys_coeffsOf_nodup _ _) (keys_coeffsOf_nodup _ _) (coeffsOf_ne_zero _ _) (coeffsOf_ne_zero _ _)
  intro l
  rw [lookup_coeffsOf, lookup_coeffsOf]
  unfold stencilEntries
  rw [sumP_flatMap, sumP_flatMap]
  exact (h.map _).sum_eq

/-- under the invariant the argument `active | old` of the adaptive `getCombiScheme` is `active ++ old` -/
theorem setUnion_active_old (s : CS) (h : SchemeInv s) : setUnion s.active s.old = s.active ++ s.old := by
  unfold setUnion
  congr 1
  rw [List.filter_eq_self]
  intro a ha
  have : a ∉ s.active := fun hx => h.disjoint a hx ha
  simpa using this

theorem genScheme_perm (s : CS) (h : SchemeInv s) : (coeffsOf s.lmin (setUnion s.active s.old)).Perm s.coeffs := by
  unfold CS.coeffs
  rw [setUnion_active_old s h, indexSet_eq s h]
  exact coeffsOf_perm _ _ _ List.perm_append_comm

/-- the generated adaptive `getCombiScheme` in every state satisfying the invariant -/
theorem gen_scheme_of_inv (g : Gen.CombiScheme) (lmin lmax : Int) (p : Bool) (hi : g.initialized_adaptive = true)
    (h : SchemeInv (toCS g)) :
    Gen.getCombiScheme g lmin lmax p = (coeffsOf g.lmin (setUnion g.active_index_set g.old_index_set)).map mkCGI := by
  apply gen_getCombiScheme_adaptive g lmin lmax p hi
  intro l hl
  have hl' : l ∈ I (toCS g) := by
    have : l ∈ setUnion (toCS g).active (toCS g).old := hl
    rw [setUnion_active_old _ h] at this
    unfold I
    rw [List.mem_append] at this ⊢
    exact this.symm
  exact (h.shape l hl').1

/-! ### dominated sums over the returned `ComponentGridInfo` list (coefficients are `Rat`) -/

/-- sum of the coefficients of the returned grids that dominate `t` -/
def domSumQ (c : List ComponentGridInfo) (t : LV) : Rat :=
  ((c.filter fun x => leAll t x.levelvector).map (·.coefficient)).sum

theorem domSumQ_map_mkCGI (t : LV) : ∀ c : List (LV × Int), domSumQ (c.map mkCGI) t = ((domSum c t : Int) : Rat)
  | [] => by simp [domSumQ, domSum]
  | p :: c => by
    have ih := domSumQ_map_mkCGI t c
    unfold domSumQ domSum at ih ⊢
    by_cases hp : leAll t p.1 = true
    · simp only [List.map_cons, List.filter_cons, mkCGI, hp, if_true, List.sum_cons, ih]
      push_cast; rfl
    · simp only [List.map_cons, List.filter_cons, mkCGI, hp, Bool.false_eq_true, if_false, ih]

theorem domSum_perm (c1 c2 : List (LV × Int)) (h : c1.Perm c2) (t : LV) : domSum c1 t = domSum c2 t := by
  unfold domSum
  exact ((h.filter _).map _).sum_eq

theorem sum_map_mkCGI : ∀ c : List (LV × Int),
    ((c.map mkCGI).map (·.coefficient)).sum = (((c.map (·.2)).sum : Int) : Rat)
  | [] => by simp
  | p :: c => by
    simp only [List.map_cons, List.sum_cons, sum_map_mkCGI c, mkCGI]
    push_cast; rfl

end SparseSpace
