import SparseSpace.Lemmas.CombiGenCoeff
import SparseSpace.Lemmas.CombiStd
import Mathlib.Tactic.FieldSimp
import Mathlib.Data.Nat.Factorial.Basic
import Mathlib.Data.Nat.Choose.Dvd
/-!
# Translator tie, part 3: the closed-form branch of `getCombiScheme` (not initialised object)

The generated branch computes the coefficient with Python's true division `/` (modelled exactly in `Rat`) and the level
vector with numpy vector arithmetic; it equals the hand model's `stdScheme` (integer quotient) because the quotient
`(dim-1)! / (q! (dim-1-q)!)` is exact.
-/
namespace SparseSpace
open SparseSpace.PyRt

theorem length_getGrids : ∀ (d : Nat) (v : Int) (g : LV), g ∈ getGrids d v → g.length = d
  | 0, _, g, h => by simp [getGrids] at h
  | 1, v, g, h => by
    simp only [getGrids, List.mem_singleton] at h
    subst h; rfl
  | n + 2, v, g, h => by
    simp only [getGrids, List.mem_flatMap, List.mem_map] at h
    obtain ⟨idx, _, g', hg', rfl⟩ := h
    simp [length_getGrids (n + 1) _ g' hg']

/-- `np.array(g) + np.ones(n) * c` for a vector with `n` entries -/
theorem arr_shift (c : Int) : ∀ (n : Nat) (g : LV), g.length = n →
    arrAdd g (arrScale (List.replicate n 1) c) = g.map (· + c)
  | 0, [], _ => rfl
  | n + 1, x :: g, h => by
    have := arr_shift c n g (by simpa using h)
    simp only [arrAdd, arrScale, List.replicate_succ, List.map_cons, List.zipWith_cons_cons, one_mul] at this ⊢
    rw [this]
  | 0, _ :: _, h => by simp at h
  | n + 1, [], h => by simp at h

theorem factorial_fold : ∀ m : Nat, (List.range m).foldl (fun acc k => acc * (k + 1)) 1 = fact m
  | 0 => rfl
  | m + 1 => by
    rw [List.range_succ, List.foldl_append, factorial_fold m]
    simp [fact, Nat.mul_comm]

theorem factorial_eq (n : Int) : PyRt.factorial n = ((fact n.toNat : Nat) : Int) := by
  unfold PyRt.factorial
  rw [factorial_fold]; rfl

/-- the float quotient of the closed form is the exact integer `(-1)^q C(dim-1, q)` -/
theorem gen_stdCoeff (dim : Int) (k : Nat) (hk : (k : Int) ≤ dim - 1) :
    trueDiv (PyRt.pow (-1) (Int.ofNat k) * PyRt.factorial (dim - 1))
        (PyRt.factorial (Int.ofNat k) * PyRt.factorial (dim - 1 - Int.ofNat k))
      = ((stdCoeff dim.toNat k : Int) : Rat) := by
  have e1 : (dim - 1).toNat = dim.toNat - 1 := by omega
  have e2 : (dim - 1 - Int.ofNat k).toNat = dim.toNat - 1 - k := by
    have : Int.ofNat k = (k : Int) := rfl
    omega
  have e3 : (Int.ofNat k).toNat = k := rfl
  have hkn : k ≤ dim.toNat - 1 := by omega
  simp only [trueDiv, PyRt.pow, factorial_eq, e1, e2, e3, stdCoeff, neg_one_pow_eq, fact_eq]
  obtain ⟨c, hc⟩ := Nat.factorial_mul_factorial_dvd_factorial hkn
  have hpos : 0 < k.factorial * (dim.toNat - 1 - k).factorial := Nat.mul_pos (Nat.factorial_pos _) (Nat.factorial_pos _)
  rw [hc, Nat.mul_div_cancel_left c hpos]
  have hne : ((k.factorial : ℚ) * ((dim.toNat - 1 - k).factorial : ℚ)) ≠ 0 := by
    exact_mod_cast hpos.ne'
  push_cast
  field_simp

/-- **closed-form branch of `getCombiScheme`** (object on which `init_adaptive_combi_scheme` was not called) -/
theorem gen_getCombiScheme_std (g : Gen.CombiScheme) (lmin lmax : Int) (p : Bool) (hi : g.initialized_adaptive = false) :
    Gen.getCombiScheme g lmin lmax p = (stdScheme g.dim.toNat lmin lmax).map mkCGI := by
  unfold Gen.getCombiScheme
  simp only [hi, Bool.not_false, if_true, gen_getGrids]
  rw [foldl_append_flatMap (fun q : Int => List.map (fun gg : List Int =>
      ({ levelvector := arrAdd gg (arrScale (npOnes g.dim) (lmin - 1)),
         coefficient := trueDiv (PyRt.pow (-1) q * PyRt.factorial (g.dim - 1)) (PyRt.factorial q * PyRt.factorial (g.dim - 1 - q)) } : ComponentGridInfo))
      (getGrids g.dim.toNat (lmax - lmin + 1 - q)))]
  rw [stdScheme_eq, range_eq, List.flatMap_map, List.map_flatMap, List.nil_append]
  by_cases hd : g.dim ≤ 0
  · have e1 : (min g.dim (lmax - lmin + 1)).toNat = 0 := by omega
    have e2 : (min ((g.dim.toNat : Nat) : Int) (lmax - lmin + 1)).toNat = 0 := by omega
    rw [e1, e2]; rfl
  · have e : ((g.dim.toNat : Nat) : Int) = g.dim := by omega
    rw [e]
    simp only [List.flatMap_def]
    congr 1
    apply List.map_congr_left
    intro k hk
    have hk' : (k : Int) ≤ g.dim - 1 := by
      have := List.mem_range.mp hk
      omega
    simp only [shiftGrids, List.map_map]
    apply List.map_congr_left
    intro gg hgg
    have hlen := length_getGrids _ _ gg hgg
    simp only [Function.comp, mkCGI, npOnes]
    rw [arr_shift (lmin - 1) g.dim.toNat gg hlen, gen_stdCoeff g.dim k hk']

end SparseSpace
