import SparseSpace.Model.Combi
import Mathlib.Tactic.Ring
import Mathlib.Tactic.Linarith
import Mathlib.Algebra.BigOperators.Group.List.Basic
/-! Helper lemmas for C01 (invariant of the adaptive scheme, inclusion–exclusion identity). -/
namespace SparseSpace

def geAll (lmin : Int) (l : LV) : Prop := ∀ x ∈ l, lmin ≤ x

/-- the index set `old ∪ active` -/
def I (s : CS) : List LV := s.old ++ s.active

/-- state invariant of the adaptive scheme -/
structure SchemeInv (s : CS) : Prop where
  shape    : ∀ l ∈ I s, l.length = s.dim ∧ geAll s.lmin l
  nodupA   : s.active.Nodup
  nodupO   : s.old.Nodup
  disjoint : ∀ l ∈ s.active, l ∉ s.old
  backOld  : ∀ l ∈ I s, ∀ d < s.dim, s.lmin < l.getD d 0 → bump l d (-1) ∈ s.old
  noFwd    : ∀ l ∈ s.active, ∀ d < s.dim, bump l d 1 ∉ I s
  nonempty : I s ≠ []

theorem inv_init (dim : Nat) (lmin lmax : Int) (hd : 1 ≤ dim) (h0 : 0 ≤ lmin) (h : lmin ≤ lmax) :
    SchemeInv (CS.init dim lmax lmin) := sorry

theorem inv_update (s : CS) (lv : LV) (h : SchemeInv s) : SchemeInv (s.update lv).1 := sorry

theorem inv_runOps (s : CS) (ops : List LV) (h : SchemeInv s) : SchemeInv (runOps s ops) := by
  induction ops generalizing s with
  | nil => simpa [runOps] using h
  | cons lv ops ih => simpa [runOps] using ih (s.update lv).1 (inv_update s lv h)

theorem runOps_dim (s : CS) (ops : List LV) : (runOps s ops).dim = s.dim := sorry
theorem runOps_lmin (s : CS) (ops : List LV) : (runOps s ops).lmin = s.lmin := sorry

theorem update_not_refinable (s : CS) (lv : LV) (h : lv ∉ s.active) : s.update lv = (s, none) := sorry

theorem downward_closed (s : CS) (h : SchemeInv s) (l t : LV) (hl : l ∈ I s)
    (ht : t.length = s.dim) (hmin : geAll s.lmin t) (hle : leAll t l = true) : t ∈ I s := sorry

theorem coeff_identity (s : CS) (h : SchemeInv s) (t : LV) (ht : t.length = s.dim) (hmin : geAll s.lmin t) :
    domSum s.coeffs t = if t ∈ I s then 1 else 0 := sorry

theorem coeff_support (s : CS) (h : SchemeInv s) :
    (∀ p ∈ s.coeffs, p.1 ∈ I s ∧ p.2 ≠ 0) ∧ (s.coeffs.map (·.1)).Nodup := sorry

theorem coeff_total (s : CS) (h : SchemeInv s) : (s.coeffs.map (·.2)).sum = 1 := sorry

end SparseSpace
