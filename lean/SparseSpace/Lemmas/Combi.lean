import SparseSpace.Lemmas.CombiBasic
import SparseSpace.Lemmas.CombiInit
import SparseSpace.Lemmas.CombiInv
import SparseSpace.Lemmas.CombiCoeff
import SparseSpace.Lemmas.CombiIdent
/-!
Helper lemmas for C01 (invariant of the adaptive scheme, inclusion–exclusion identity).

The material is split over several files; this module re-exports everything under the original names:
* `CombiBasic`: `geAll`, `I`, `SchemeInv`, lemmas on `bump`, `leAll`, sums;
* `CombiInit`:  characterisation of `getGrids` / `initActive` / `initOld`, `inv_init`;
* `CombiInv`:   `update_not_refinable`, `runOps_dim`, `runOps_lmin`, `inv_update`;
* `CombiCoeff`: `downward_closed`, the dictionary lemma, the per-element stencil collapse;
* `CombiIdent`: `coeff_identity`, `coeff_support`, `coeff_total`.
-/
namespace SparseSpace

theorem inv_runOps (s : CS) (ops : List LV) (h : SchemeInv s) : SchemeInv (runOps s ops) := by
  induction ops generalizing s with
  | nil => simpa [runOps] using h
  | cons lv ops ih => simpa [runOps] using ih (s.update lv).1 (inv_update s lv h)

end SparseSpace
