import SparseSpace.Lemmas.HierUnique
/-! C10 extension: completeness of the exact solve on injective systems (elimination never meets a zero pivot column),
hence the hierarchisation GOES THROUGH whenever every 1-D collocation matrix is level-triangular. -/
namespace SparseSpace.Hier

theorem dot_replicate_zero (r : Vec) (n : Nat) : dot r (List.replicate n 0) = 0 := by
  induction n generalizing r with
  | zero => simp
  | succ n ih =>
    cases r with
    | nil => simp
    | cons a as => simp [List.replicate_succ, ih]

theorem pickFirst_none {α : Type} (pr : α → Bool) (l : List α) (h : pickFirst pr l = none) :
    ∀ a ∈ l, pr a = false := by
  induction l with
  | nil => intro a ha; simp at ha
  | cons b bs ih =>
    simp only [pickFirst] at h
    split at h
    · cases h
    · rename_i hb
      split at h
      · cases h
      · rename_i hn
        intro a ha
        rcases List.mem_cons.1 ha with rfl | ha'
        · simpa using hb
        · exact ih hn a ha'

/-- only the zero vector is annihilated by (the coefficient parts of) all rows -/
def KerTrivial (rows : List (List Rat)) (n : Nat) : Prop :=
  ∀ xs : Vec, xs.length = n → (∀ r ∈ rows, dot r xs = 0) → ∀ x ∈ xs, x = 0

/-- completeness of the elimination: on a square system with trivial kernel a pivot is found in every step -/
theorem gauss_complete (n : Nat) (rows : List (List Rat)) (hlen : rows.length = n)
    (hrow : ∀ r ∈ rows, r.length = n + 1) (hk : KerTrivial rows n) : ∃ xs, gauss n rows = some xs := by
  induction n generalizing rows with
  | zero => exact ⟨[], rfl⟩
  | succ n ih =>
    cases hpick : pickFirst (fun r : List Rat => r.headD 0 != 0) rows with
    | none =>
      exfalso
      have hz := pickFirst_none _ _ hpick
      have := hk (1 :: List.replicate n 0) (by simp) (by
        intro r hr
        have hl := hrow r hr
        cases r with
        | nil => simp at hl
        | cons r0 rt =>
          have : r0 = 0 := by simpa using hz _ hr
          subst this
          simp [dot_replicate_zero]) 1 (by simp)
      exact one_ne_zero this
    | some pr =>
      obtain ⟨piv, others⟩ := pr
      obtain ⟨hp, hmem, hl⟩ := pickFirst_some _ _ _ _ hpick
      have hpivlen : piv.length = n + 2 := hrow piv ((hmem piv).2 (Or.inl rfl))
      obtain ⟨a, pt, rfl⟩ : ∃ a pt, piv = a :: pt := by
        cases piv with
        | nil => simp at hpivlen
        | cons a pt => exact ⟨a, pt, rfl⟩
      have hptlen : pt.length = n + 1 := by simpa using hpivlen
      have ha : a ≠ 0 := by simpa using hp
      have hred : ∃ ys, gauss n (others.map fun r =>
          List.zipWith (fun rj pj => rj - r.headD 0 / a * pj) r.tail pt) = some ys := by
        apply ih
        · simp only [List.length_map]; omega
        · intro r' hr'
          simp only [List.mem_map] at hr'
          obtain ⟨r, hr, rfl⟩ := hr'
          have := hrow r ((hmem r).2 (Or.inr hr))
          simp only [List.length_zipWith, List.length_tail, this, hptlen]
          omega
        · intro ys hys hall
          -- extend a kernel vector of the reduced system to one of the full system
          have hfull : ∀ r ∈ rows, dot r (-(dot pt ys) / a :: ys) = 0 := by
            intro r hr
            rcases (hmem r).1 hr with rfl | hr'
            · simp only [dot_cons]; field_simp; ring
            · have hrl := hrow r hr
              obtain ⟨r0, rt, rfl⟩ : ∃ r0 rt, r = r0 :: rt := by
                cases r with
                | nil => simp at hrl
                | cons r0 rt => exact ⟨r0, rt, rfl⟩
              have hrtl : rt.length = n + 1 := by simpa using hrl
              have := hall _ (List.mem_map.2 ⟨r0 :: rt, hr', rfl⟩)
              simp only [List.headD_cons, List.tail_cons] at this
              rw [dot_zipWith_sub _ _ _ _ (by rw [hrtl, hptlen])] at this
              simp only [dot_cons]
              have e : dot rt ys = r0 / a * dot pt ys := by linarith
              rw [e]; field_simp; ring
          intro y hy
          exact hk (-(dot pt ys) / a :: ys) (by simp [hys]) hfull y (by simp [hy])
      obtain ⟨ys, hys⟩ := hred
      refine ⟨(pt.getD n 0 - dot (pt.take n) ys) / a :: ys, ?_⟩
      simp only [gauss, hpick, List.headD_cons, List.tail_cons, hys]

/-- `gaussSolve` succeeds on every square injective system -/
theorem gaussSolve_complete (B : Mat) (v : Vec) (hB : B.length = v.length) (hrows : ∀ r ∈ B, r.length = v.length)
    (hinj : ∀ α β : Vec, α.length = v.length → β.length = v.length → mulVec B α = mulVec B β → α = β) :
    ∃ α, gaussSolve B v = some α := by
  have hc : (B.length == v.length && B.all (·.length == v.length)) = true := by
    simp only [Bool.and_eq_true, beq_iff_eq, List.all_eq_true]
    exact ⟨hB, hrows⟩
  have hlen : (List.zipWith (fun r b => r ++ [b]) B v).length = v.length := by simp [hB]
  have hrow : ∀ r ∈ List.zipWith (fun r b => r ++ [b]) B v, r.length = v.length + 1 := by
    intro r hr
    obtain ⟨i, hi, rfl⟩ := List.getElem_of_mem hr
    simp only [List.getElem_zipWith, List.length_append, List.length_cons, List.length_nil]
    have hi' : i < B.length := by simp at hi; omega
    rw [hrows _ (List.getElem_mem hi')]
  have hk : KerTrivial (List.zipWith (fun r b => r ++ [b]) B v) v.length := by
    intro xs hxs hall
    have : xs = List.replicate v.length 0 := by
      apply hinj xs _ hxs (by simp)
      apply List.ext_getElem
      · simp [mulVec]
      · intro i h1 h2
        have hiB : i < B.length := by simpa [mulVec] using h1
        have hiz : i < (List.zipWith (fun r b => r ++ [b]) B v).length := by rw [hlen, ← hB]; exact hiB
        have h0 := hall _ (List.getElem_mem hiz)
        simp only [List.getElem_zipWith] at h0
        have hBi : (B[i]).length = v.length := hrows _ (List.getElem_mem hiB)
        rw [dot_append_of_length _ _ _ (by rw [hxs, hBi])] at h0
        rw [mulVec_getElem B xs i hiB, mulVec_getElem B _ i hiB, h0, dot_replicate_zero]
    intro x hx
    rw [this] at hx
    exact (List.mem_replicate.1 hx).2
  obtain ⟨xs, hxs⟩ := gauss_complete _ _ hlen hrow hk
  exact ⟨xs, by simp only [gaussSolve, hc, if_true, hxs]⟩

/-! ### the hierarchisation goes through -/

theorem mapOpt_exists {α β : Type} (f : α → Option β) (l : List α) (h : ∀ a ∈ l, ∃ b, f a = some b) :
    ∃ r, mapOpt f l = some r := by
  induction l with
  | nil => exact ⟨[], rfl⟩
  | cons a as ih =>
    obtain ⟨b, hb⟩ := h a (by simp)
    obtain ⟨bs, hbs⟩ := ih (fun a' ha' => h a' (by simp [ha']))
    exact ⟨b :: bs, by simp only [mapOpt, hb, hbs]⟩

/-- every pole of every dimension can be solved -/
def PolesSolvable (solver : Mat → Vec → Option Vec) (dims : List Dim1) : Prop :=
  ∀ D ∈ dims, ∀ v : Vec, v.length = D.n → ∃ α, poleSolve solver D v = some α

theorem hier_succeeds (solver : Mat → Vec → Option Vec) (dims : List Dim1)
    (hok : PolesSolvable solver dims) (T : Vec) (hT : T.length = size dims) :
    ∃ S, hier solver dims T = some S := by
  induction dims generalizing T with
  | nil => exact ⟨T, rfl⟩
  | cons D rest ih =>
    have hCrect : Rect (splitChunks (size rest) D.n T) D.n (size rest) :=
      split_rect (size rest) D.n T (by simpa [size] using hT)
    obtain ⟨cols, hcols⟩ := mapOpt_exists (poleSolve solver D) (tr (size rest) (splitChunks (size rest) D.n T)) (by
      intro v hv
      apply hok D (by simp)
      rw [(tr_rect _ _).2 v hv, hCrect.1])
    obtain ⟨lc, _⟩ := mapOpt_some _ _ _ hcols
    rw [tr_length] at lc
    obtain ⟨chunks, hch⟩ := mapOpt_exists (hier solver rest) (tr D.n cols) (by
      intro c hc
      apply ih (fun D' hD' => hok D' (by simp [hD']))
      rw [(tr_rect _ _).2 c hc, lc])
    exact ⟨chunks.flatten, by simp only [hier, hcols, hch]⟩

/-- a level-triangular collocation matrix: every pole of that dimension is solved by `gaussSolve` -/
theorem poleSolve_of_levelTriangular (D : Dim1) (lev : List Nat) (hl : lev.length = D.n)
    (hB : LevelTriangular (colloc D) lev) (v : Vec) (hv : v.length = D.n) :
    ∃ α, poleSolve gaussSolve D v = some α := by
  obtain ⟨hlen, hrows, htri⟩ := hB
  unfold poleSolve
  by_cases h1 : D.n = 1
  · -- one point: the matrix is `[[1]]`
    have hc : colloc D = [[1]] := by
      have hlen1 : (colloc D).length = 1 := by rw [hlen, hl, h1]
      match hcd : colloc D, hlen1 with
      | [r], _ =>
        have hr : r.length = 1 := by
          have := hrows r (by rw [hcd]; simp)
          rw [this, hl, h1]
        have h00 := (htri 0 0 (by rw [hl, h1]; exact Nat.one_pos) (by rw [hl, h1]; exact Nat.one_pos)).1 rfl
        rw [hcd] at h00
        match r, hr with
        | [x], _ =>
          simp only [List.getD_cons_zero] at h00
          rw [h00]
    simp [h1, hc]
  · have hne : (D.n == 1) = false := by simpa using h1
    simp only [hne]
    apply gaussSolve_complete
    · rw [hlen, hl, hv]
    · intro r hr; rw [hrows r hr, hl, hv]
    · intro α β hα hβ h
      exact levelTriangular_injective (colloc D) lev ⟨hlen, hrows, htri⟩ α β
        (by rw [hα, hv, hl]) (by rw [hβ, hv, hl]) h

end SparseSpace.Hier
