import SparseSpace.Lemmas.QuadDrop
/-! C08: the modified-basis weights of `TrapezoidalGrid1D.get_1d_weight` (boundary off, `modified_basis=True`):
the rule is the complete composite trapezoidal rule in which the dropped boundary values are replaced by linear
extrapolation from the two neighbouring points; hence it is exact for affine integrands. -/
namespace SparseSpace.Quad

/-- complete-rule weight `h·c_j` plus the extrapolation corrections, as a function of the index `j` in the full grid -/
def G1.wp (g : G1) (j : ℕ) : ℚ :=
  g.spacing * (if j = 0 ∨ j = 2 ^ g.level then (1 / 2 : ℚ) else 1)
  + (g.tl : ℚ) * ((if j = 0 then -(g.spacing / 2) else 0) + (if j = 1 then g.spacing else 0) + (if j = 2 then -(g.spacing / 2) else 0))
  + (g.th : ℚ) * ((if j = 2 ^ g.level then -(g.spacing / 2) else 0) + (if j = 2 ^ g.level - 1 then g.spacing else 0)
      + (if j = 2 ^ g.level - 2 then -(g.spacing / 2) else 0))

theorem trapWeight_mod (g : G1) (hb : g.boundary = false) (hm : g.modified = true) (hn : 3 ≤ g.numPoints)
    (i : ℕ) (hi : i < g.numPoints) : trapWeight g i = g.wp (i + g.tl) := by
  have htl := tl_le g; have hth := th_le g; have hN := two_pow_pos g.level
  have hnp := numPoints_off g hb
  unfold trapWeight weightComposite G1.wp
  rw [lowerBorder_off g hb, upperBorder_off g hb]
  simp only [hm, if_true, hb, Bool.not_false, Bool.true_and, G1.nwb, Nat.add_sub_cancel, beq_iff_eq, Bool.and_eq_true,
    Bool.or_eq_true]
  generalize 2 ^ g.level = N at *
  generalize g.numPoints = n at *
  generalize g.spacing = h at *
  have h1 : g.tl = 0 ∨ g.tl = 1 := by omega
  have h2 : g.th = 0 ∨ g.th = 1 := by omega
  rcases h1 with h1 | h1 <;> rcases h2 with h2 | h2 <;> rw [h1, h2] at hnp ⊢ <;>
    simp only [Nat.cast_one, Nat.cast_zero, one_mul, zero_mul, add_zero, and_true] <;>
    (repeat' (first | (exfalso; omega) | split)) <;> ring


theorem S_shift (F : ℕ → ℚ) (n k : ℕ) : S (fun i => F (i + k)) n = S F (n + k) - S F k := by
  induction n with
  | zero => simp
  | succ n ih => rw [S_succ, ih, show n + 1 + k = (n + k) + 1 by ring, S_succ F (n + k)]; ring

theorem points1d_off (g : G1) (hb : g.boundary = false) (h1 : g.numPoints ≠ 1) :
    points1d g = (List.range g.numPoints).map (fun i => g.x (i + g.tl)) := by
  rw [points1d_general g (fun h => h1 h.2), border_diff, lowerBorder_off g hb, List.range'_eq_map_range, List.map_map]
  apply List.map_congr_left
  intro i _
  simp [Nat.add_comm]

/-- the complete rule on the same sub-interval -/
def G1.full (g : G1) : G1 := { g with boundary := true, modified := false }

theorem quad_full (g : G1) (f : ℚ → ℚ) :
    quad (points1d g.full) (trapWeights g.full) f
      = S (fun j => (g.spacing * (if j = 0 ∨ j = 2 ^ g.level then (1 / 2 : ℚ) else 1)) * f (g.x j)) (2 ^ g.level + 1) := by
  rw [points1d_on g.full rfl, trapWeights_on g.full rfl rfl, quad_range]
  rfl

/-- **modified basis = complete rule with the dropped boundary values linearly extrapolated** (≥ 3 points), for EVERY
integrand: the two correction terms are `h/2` times the second differences at the touched ends -/
theorem trap_modified_eq_extrapolated (g : G1) (hb : g.boundary = false) (hm : g.modified = true) (hn : 3 ≤ g.numPoints)
    (f : ℚ → ℚ) :
    quad (points1d g) (trapWeights g) f
      = quad (points1d g.full) (trapWeights g.full) f
        + (g.tl : ℚ) * (g.spacing / 2) * (2 * f (g.x 1) - f (g.x 2) - f (g.x 0))
        + (g.th : ℚ) * (g.spacing / 2)
            * (2 * f (g.x (2 ^ g.level - 1)) - f (g.x (2 ^ g.level - 2)) - f (g.x (2 ^ g.level))) := by
  have htl := tl_le g; have hth := th_le g; have hN := two_pow_pos g.level
  have hnp := numPoints_off g hb
  have hN2 : 2 ≤ 2 ^ g.level := by omega
  rw [quad_full, points1d_off g hb (by omega)]
  unfold trapWeights
  rw [quad_range, S_congr _ (fun i hi => by rw [trapWeight_mod g hb hm hn i hi]),
    S_shift (fun j => g.wp j * f (g.x j)) g.numPoints g.tl]
  -- the full sum, split into the complete rule and six indicator terms
  have hfull : S (fun j => g.wp j * f (g.x j)) (2 ^ g.level + 1)
      = S (fun j => (g.spacing * (if j = 0 ∨ j = 2 ^ g.level then (1 / 2 : ℚ) else 1)) * f (g.x j)) (2 ^ g.level + 1)
        + (g.tl : ℚ) * (-(g.spacing / 2) * f (g.x 0) + g.spacing * f (g.x 1) + -(g.spacing / 2) * f (g.x 2))
        + (g.th : ℚ) * (-(g.spacing / 2) * f (g.x (2 ^ g.level)) + g.spacing * f (g.x (2 ^ g.level - 1))
            + -(g.spacing / 2) * f (g.x (2 ^ g.level - 2))) := by
    have e : ∀ j, j < 2 ^ g.level + 1 → g.wp j * f (g.x j)
        = (g.spacing * (if j = 0 ∨ j = 2 ^ g.level then (1 / 2 : ℚ) else 1)) * f (g.x j)
          + ((g.tl : ℚ) * (((if j = 0 then -(g.spacing / 2) else 0) * f (g.x j) + (if j = 1 then g.spacing else 0) * f (g.x j))
              + (if j = 2 then -(g.spacing / 2) else 0) * f (g.x j))
            + (g.th : ℚ) * (((if j = 2 ^ g.level then -(g.spacing / 2) else 0) * f (g.x j)
              + (if j = 2 ^ g.level - 1 then g.spacing else 0) * f (g.x j))
              + (if j = 2 ^ g.level - 2 then -(g.spacing / 2) else 0) * f (g.x j))) := by
      intro j _; unfold G1.wp; ring
    rw [S_congr _ e, S_add, S_add, S_mul_left, S_mul_left, S_add, S_add, S_add, S_add,
      S_indicator _ _ 0 _ (by omega), S_indicator _ _ 1 _ (by omega), S_indicator _ _ 2 _ (by omega),
      S_indicator _ _ (2 ^ g.level) _ (by omega), S_indicator _ _ (2 ^ g.level - 1) _ (by omega),
      S_indicator _ _ (2 ^ g.level - 2) _ (by omega)]
    ring
  -- the two end pieces of the shifted sum vanish
  have hlo : S (fun j => g.wp j * f (g.x j)) g.tl = 0 := by
    rcases (show g.tl = 0 ∨ g.tl = 1 by omega) with h | h
    · rw [h]; simp
    · rw [h, S_succ, S_zero]
      have hN3 : 3 ≤ 2 ^ g.level := by omega
      unfold G1.wp
      rw [h]
      have c1 : ¬ (0 = 2 ^ g.level) := by omega
      have c2 : ¬ (0 = 2 ^ g.level - 1) := by omega
      have c3 : ¬ (0 = 2 ^ g.level - 2) := by omega
      simp only [true_or, if_true, c1, c2, c3, if_false]
      simp
      left; ring
  have hhi : S (fun j => g.wp j * f (g.x j)) (g.numPoints + g.tl) = S (fun j => g.wp j * f (g.x j)) (2 ^ g.level + 1) := by
    rcases (show g.th = 0 ∨ g.th = 1 by omega) with h | h
    · rw [show g.numPoints + g.tl = 2 ^ g.level + 1 by omega]
    · rw [show 2 ^ g.level + 1 = (g.numPoints + g.tl) + 1 by omega, S_succ]
      have hN3 : 3 ≤ 2 ^ g.level := by omega
      have hidx : g.numPoints + g.tl = 2 ^ g.level := by omega
      rw [hidx]
      unfold G1.wp
      rw [h]
      have c0 : ¬ (2 ^ g.level = 0) := by omega
      have c1 : ¬ (2 ^ g.level = 1) := by omega
      have c2 : ¬ (2 ^ g.level = 2) := by omega
      have c3 : ¬ (2 ^ g.level = 2 ^ g.level - 1) := by omega
      have c4 : ¬ (2 ^ g.level = 2 ^ g.level - 2) := by omega
      simp only [or_true, if_true, c0, c1, c2, c3, c4, if_false]
      simp
      left; ring
  rw [hhi, hlo, hfull]
  ring


theorem two_pow_ne_three (l : ℕ) : 2 ^ l ≠ 3 := by
  rcases l with _ | _ | k
  · simp
  · simp
  · rw [pow_succ, pow_succ]; have := two_pow_pos k; omega

/-- **modified basis, exactness on affine integrands** — every level and sub-interval, as soon as the rule has a point -/
theorem trap_modified_exact_affine (g : G1) (hb : g.boundary = false) (hm : g.modified = true)
    (hn : 1 ≤ g.numPoints) (α β : ℚ) :
    quad (points1d g) (trapWeights g) (fun x => α + β * x)
      = α * (g.stop - g.start) + β * ((g.stop ^ 2 - g.start ^ 2) / 2) := by
  have htl := tl_le g; have hth := th_le g; have hN := two_pow_pos g.level
  have hnp := numPoints_off g hb
  have hsp := spacing_mul g
  rcases (show g.numPoints = 1 ∨ g.numPoints = 2 ∨ 3 ≤ g.numPoints by omega) with h1 | h2 | h3
  · -- one point: the mid point carries the whole length
    unfold points1d trapWeights trapWeight
    simp only [hb, hm, h1]
    simp [quad]
    ring
  · -- two points
    have h3 := two_pow_ne_three g.level
    rw [points1d_off g hb (by omega)]
    unfold trapWeights
    rw [h2, quad_range, S_succ, S_succ, S_zero]
    unfold trapWeight weightComposite
    rw [lowerBorder_off g hb, upperBorder_off g hb]
    simp only [hm, hb, h2, if_true, G1.nwb, Nat.add_sub_cancel]
    have hNq : ((2 ^ g.level : ℕ) : ℚ) * g.spacing = g.stop - g.start := by push_cast; exact hsp
    rcases (show (g.tl = 0 ∧ g.th = 0 ∧ 2 ^ g.level = 1) ∨ (g.tl = 1 ∧ g.th = 0 ∧ 2 ^ g.level = 2)
        ∨ (g.tl = 0 ∧ g.th = 1 ∧ 2 ^ g.level = 2) by omega) with ⟨a, b, c⟩ | ⟨a, b, c⟩ | ⟨a, b, c⟩ <;>
      (rw [c] at hNq; simp [a, b, c, G1.x]; push_cast at hNq
       first
       | (have hs : g.spacing = g.stop - g.start := by linarith
          rw [hs]; ring)
       | (have hs : g.spacing = (g.stop - g.start) / 2 := by linarith
          rw [hs]; ring))
  · -- ≥ 3 points: complete rule + vanishing second differences
    rw [trap_modified_eq_extrapolated g hb hm h3, trap_exact_affine g.full rfl rfl α β]
    have hN2 : 2 ≤ 2 ^ g.level := by omega
    obtain ⟨m, hm2⟩ := Nat.exists_eq_add_of_le hN2
    have e1 : 2 ^ g.level - 1 = m + 1 := by omega
    have e2 : 2 ^ g.level - 2 = m := by omega
    have e3 : 2 ^ g.level = m + 2 := by omega
    rw [e1, e2, e3, x_add_two g m, x_succ g m, x_add_two g 0, x_succ g 0]
    show _ = α * (g.stop - g.start) + β * ((g.stop ^ 2 - g.start ^ 2) / 2)
    have : g.full.stop = g.stop ∧ g.full.start = g.start := ⟨rfl, rfl⟩
    rw [this.1, this.2]
    ring

end SparseSpace.Quad
