import SparseSpace.Lemmas.Hier
import Mathlib.Algebra.Polynomial.Derivative
import Mathlib.LinearAlgebra.Lagrange
/-! C10: the model's Lagrange functions as genuine polynomials (`Polynomial ℚ`): formal derivative, degree,
uniqueness of interpolation. -/
namespace SparseSpace.Hier
open Polynomial

/-- `Π_k (X - k)` -/
noncomputable def linProd : List ℚ → ℚ[X]
  | [] => 1
  | k :: ks => (X - C k) * linProd ks

theorem eval_linProd (x : ℚ) (l : List ℚ) : (linProd l).eval x = prodAll (fun k => x - k) l := by
  induction l with
  | nil => simp [linProd, prodAll]
  | cons k ks ih => simp [linProd, prodAll, ih]

theorem eval_derivative_linProd (x : ℚ) (l : List ℚ) :
    (derivative (linProd l)).eval x = sumProd (fun k => x - k) (fun _ => 1) l := by
  induction l with
  | nil => simp [linProd, sumProd]
  | cons k ks ih =>
    simp only [linProd, sumProd, derivative_mul, derivative_sub, derivative_X, derivative_C, sub_zero, one_mul,
      eval_add, eval_mul, eval_sub, eval_X, eval_C, ih, eval_linProd]

theorem natDegree_linProd_le (l : List ℚ) : (linProd l).natDegree ≤ l.length := by
  induction l with
  | nil => simp [linProd]
  | cons k ks ih =>
    simp only [linProd, List.length_cons]
    calc ((X - C k) * linProd ks).natDegree ≤ (X - C k).natDegree + (linProd ks).natDegree := natDegree_mul_le
      _ ≤ 1 + ks.length := by
        have : (X - C k : ℚ[X]).natDegree = 1 := natDegree_X_sub_C k
        omega
      _ = ks.length + 1 := by ring

/-- the polynomial whose values the code's `LagrangeBasis(p, i, knots)` computes -/
noncomputable def lagPoly (knots : List ℚ) (i : Nat) : ℚ[X] :=
  C (lagFactor knots i) * linProd (knots.eraseIdx i)

theorem eval_lagPoly (knots : List ℚ) (i : Nat) (x : ℚ) : (lagPoly knots i).eval x = lagrange knots i x := by
  simp only [lagPoly, eval_mul, eval_C, eval_linProd, lagrange, prodExcept_eq]
  ring

theorem eval_derivative_lagPoly (knots : List ℚ) (i : Nat) (hi : i < knots.length) (x : ℚ) :
    (derivative (lagPoly knots i)).eval x = lagDeriv knots i x := by
  rw [lagDeriv_eq knots i hi]
  simp only [lagPoly, derivative_mul, derivative_C, zero_mul, zero_add, eval_mul, eval_C,
    eval_derivative_linProd, lagFactor, List.getElem?_eq_getElem hi, prodExcept_eq]

theorem degree_lagPoly_lt (knots : List ℚ) (i : Nat) (hi : i < knots.length) :
    (lagPoly knots i).degree < knots.length := by
  have h1 : (lagPoly knots i).natDegree ≤ knots.length - 1 := by
    calc (lagPoly knots i).natDegree ≤ (linProd (knots.eraseIdx i)).natDegree := natDegree_C_mul_le _ _
      _ ≤ (knots.eraseIdx i).length := natDegree_linProd_le _
      _ = knots.length - 1 := List.length_eraseIdx_of_lt hi
  calc (lagPoly knots i).degree ≤ (lagPoly knots i).natDegree := degree_le_natDegree
    _ ≤ ((knots.length - 1 : ℕ) : WithBot ℕ) := by exact_mod_cast h1
    _ < knots.length := by exact_mod_cast (by omega : knots.length - 1 < knots.length)

/-- the interpolation polynomial `Σ_i v_i L_i` for nodal values `v` -/
noncomputable def interpPoly (knots : List ℚ) (v : ℚ → ℚ) : ℚ[X] :=
  ((List.range knots.length).map fun i => C (v (knots.getD i 0)) * lagPoly knots i).sum

theorem eval_interpPoly (knots : List ℚ) (v : ℚ → ℚ) (x : ℚ) :
    (interpPoly knots v).eval x
      = ((List.range knots.length).map fun i => v (knots.getD i 0) * lagrange knots i x).sum := by
  simp only [interpPoly]
  induction (List.range knots.length) with
  | nil => simp
  | cons a as ih => simp only [List.map_cons, List.sum_cons, eval_add, eval_mul, eval_C, eval_lagPoly, ih]

theorem degree_interpPoly_lt (knots : List ℚ) (v : ℚ → ℚ) : (interpPoly knots v).degree < knots.length := by
  simp only [interpPoly]
  have : ∀ (idx : List ℕ), (∀ i ∈ idx, i < knots.length) →
      ((idx.map fun i => C (v (knots.getD i 0)) * lagPoly knots i).sum).degree < knots.length := by
    intro idx
    induction idx with
    | nil =>
      intro _
      cases h : knots.length with
      | zero => simp
      | succ n => simp
    | cons a as ih =>
      intro h
      simp only [List.map_cons, List.sum_cons]
      refine lt_of_le_of_lt (degree_add_le _ _) (max_lt ?_ (ih (fun i hi => h i (by simp [hi]))))
      refine lt_of_le_of_lt (degree_mul_le _ _) ?_
      have h0 : (C (v (knots.getD a 0)) : ℚ[X]).degree ≤ 0 := degree_C_le
      have h1 := degree_lagPoly_lt knots a (h a (by simp))
      calc (C (v (knots.getD a 0)) : ℚ[X]).degree + (lagPoly knots a).degree
          ≤ 0 + (lagPoly knots a).degree := add_le_add_left h0 _
        _ = (lagPoly knots a).degree := zero_add _
        _ < knots.length := h1
  exact this _ (fun i hi => List.mem_range.1 hi)

/-- the sum `Σ_i v(x_i) L_i(x_j)` collapses to `v(x_j)` (cardinal property) -/
theorem sum_cardinal (knots : List ℚ) (hn : knots.Nodup) (v : ℚ → ℚ) (j : Nat) (hj : j < knots.length) :
    ((List.range knots.length).map fun i => v (knots.getD i 0) * lagrange knots i knots[j]).sum = v knots[j] := by
  have key : ∀ n, n ≤ knots.length →
      ((List.range n).map fun i => v (knots.getD i 0) * lagrange knots i knots[j]).sum
        = if j < n then v knots[j] else 0 := by
    intro n
    induction n with
    | zero => simp
    | succ n ih =>
      intro hn'
      rw [List.range_succ, List.map_append, List.sum_append, ih (by omega)]
      simp only [List.map_cons, List.map_nil, List.sum_cons, List.sum_nil, add_zero]
      have hnl : n < knots.length := by omega
      by_cases hjn : j = n
      · subst hjn
        rw [lagrange_own knots hn j hj]
        simp [List.getD_eq_getElem?_getD, List.getElem?_eq_getElem hj]
      · rw [lagrange_other knots n j hnl hj hjn]
        by_cases hlt : j < n
        · simp [hlt, Nat.lt_succ_of_lt hlt]
        · have : ¬ j < n + 1 := by omega
          simp [hlt, this]
  rw [key knots.length le_rfl]
  simp [hj]

/-- uniqueness of polynomial interpolation on pairwise distinct knots: a polynomial of degree `< n` is reproduced
by the Lagrange interpolant on `n` knots, at EVERY `x` -/
theorem interpPoly_reproduces (knots : List ℚ) (hn : knots.Nodup) (f : ℚ[X]) (hf : f.degree < knots.length) :
    interpPoly knots (fun t => f.eval t) = f := by
  apply eq_of_degrees_lt_of_eval_finset_eq knots.toFinset
  · rw [List.toFinset_card_of_nodup hn]; exact degree_interpPoly_lt knots _
  · rw [List.toFinset_card_of_nodup hn]; exact hf
  · intro x hx
    obtain ⟨j, hj, rfl⟩ := List.getElem_of_mem (List.mem_toFinset.1 hx)
    rw [eval_interpPoly]
    exact sum_cardinal knots hn (fun t => f.eval t) j hj

end SparseSpace.Hier
