import SparseSpace.Model.Quad
import Mathlib.Tactic.Ring
import Mathlib.Tactic.Linarith
import Mathlib.Tactic.FieldSimp
import Mathlib.Tactic.SplitIfs
import Mathlib.Algebra.BigOperators.Group.List.Basic
import Mathlib.Algebra.Order.Field.Rat
/-! Helper lemmas for C08: sums over `List.range`, the composite trapezoidal and Simpson rules as sums of panels. -/
namespace SparseSpace.Quad

/-- `S f n = Σ_{i<n} f i` over `List.range` -/
def S (f : ℕ → ℚ) (n : ℕ) : ℚ := ((List.range n).map f).sum

@[simp] theorem S_zero (f : ℕ → ℚ) : S f 0 = 0 := by simp [S]

theorem S_succ (f : ℕ → ℚ) (n : ℕ) : S f (n + 1) = S f n + f n := by
  simp [S, List.range_succ]

theorem S_congr {f g : ℕ → ℚ} (n : ℕ) (h : ∀ i, i < n → f i = g i) : S f n = S g n := by
  induction n with
  | zero => simp
  | succ n ih =>
    rw [S_succ, S_succ, ih (fun i hi => h i (Nat.lt_succ_of_lt hi)), h n (Nat.lt_succ_self n)]

theorem S_add (f g : ℕ → ℚ) (n : ℕ) : S (fun i => f i + g i) n = S f n + S g n := by
  induction n with
  | zero => simp
  | succ n ih => rw [S_succ, S_succ, S_succ, ih]; ring

theorem S_mul_left (c : ℚ) (f : ℕ → ℚ) (n : ℕ) : S (fun i => c * f i) n = c * S f n := by
  induction n with
  | zero => simp
  | succ n ih => rw [S_succ, S_succ, ih]; ring

/-- telescoping -/
theorem S_telescope (F : ℕ → ℚ) (n : ℕ) : S (fun j => F (j + 1) - F j) n = F n - F 0 := by
  induction n with
  | zero => simp
  | succ n ih => rw [S_succ, ih]; ring

theorem S_eq_zero (f : ℕ → ℚ) (n : ℕ) (h : ∀ i, i < n → f i = 0) : S f n = 0 := by
  induction n with
  | zero => simp
  | succ n ih => rw [S_succ, ih (fun i hi => h i (Nat.lt_succ_of_lt hi)), h n (Nat.lt_succ_self n)]; ring

/-- a single indicator term -/
theorem S_indicator (c : ℚ) (φ : ℕ → ℚ) (k n : ℕ) (hk : k < n) :
    S (fun i => (if i = k then c else 0) * φ i) n = c * φ k := by
  induction n with
  | zero => omega
  | succ n ih =>
    rw [S_succ]
    by_cases h : k = n
    · subst h
      rw [S_eq_zero _ k (fun i hi => by simp [Nat.ne_of_lt hi])]
      simp
    · rw [ih (by omega)]
      simp [Ne.symm h]

theorem zipWith_map_map {α β γ δ : Type} (F : β → γ → δ) (p : α → β) (w : α → γ) (l : List α) :
    List.zipWith F (l.map p) (l.map w) = l.map (fun i => F (p i) (w i)) := by
  induction l with
  | nil => rfl
  | cons x xs ih => simp [ih]

/-- quadrature sum of two lists that are both images of `range n` -/
theorem quad_range (p w : ℕ → ℚ) (n : ℕ) (f : ℚ → ℚ) :
    quad ((List.range n).map p) ((List.range n).map w) f = S (fun i => w i * f (p i)) n := by
  unfold quad S
  rw [zipWith_map_map]


theorem S_sub (f g : ℕ → ℚ) (n : ℕ) : S (fun i => f i - g i) n = S f n - S g n := by
  induction n with
  | zero => simp
  | succ n ih => rw [S_succ, S_succ, S_succ, ih]; ring

/-- sum of trapezoid panels in closed form -/
theorem panels_trap (φ : ℕ → ℚ) (N : ℕ) :
    S (fun j => (φ j + φ (j + 1)) / 2) N = S φ (N + 1) - φ 0 / 2 - φ N / 2 := by
  induction N with
  | zero => rw [S_succ]; simp; ring
  | succ N ih => rw [S_succ, ih, S_succ φ (N + 1)]; ring

/-- **composite trapezoidal rule = sum of its panels**, for an arbitrary integrand table `φ` -/
theorem trap_composite (φ : ℕ → ℚ) (N : ℕ) (hN : 1 ≤ N) :
    S (fun i => (if i = 0 ∨ i = N then (1 / 2 : ℚ) else 1) * φ i) (N + 1)
      = S (fun j => (φ j + φ (j + 1)) / 2) N := by
  rw [panels_trap]
  have h : ∀ i, i < N + 1 → (if i = 0 ∨ i = N then (1 / 2 : ℚ) else 1) * φ i
      = φ i - ((if i = 0 then (1 / 2 : ℚ) else 0) * φ i + (if i = N then (1 / 2 : ℚ) else 0) * φ i) := by
    intro i _
    by_cases h0 : i = 0
    · have h1 : i ≠ N := by omega
      rw [if_pos (Or.inl h0), if_pos h0, if_neg h1]; ring
    · by_cases h1 : i = N
      · rw [if_pos (Or.inr h1), if_neg h0, if_pos h1]; ring
      · rw [if_neg (by tauto), if_neg h0, if_neg h1]; ring
  rw [S_congr _ h, S_sub, S_add, S_indicator _ _ 0 _ (by omega), S_indicator _ _ N _ (by omega)]
  ring


/-! ### the model with `boundary = True` -/

theorem two_pow_pos (l : ℕ) : 1 ≤ 2 ^ l := Nat.one_le_two_pow

theorem nwb_cast (g : G1) : ((g.nwb : ℕ) : ℚ) - 1 = (2 : ℚ) ^ g.level := by
  simp [G1.nwb]

theorem spacing_mul (g : G1) : (2 : ℚ) ^ g.level * g.spacing = g.stop - g.start := by
  unfold G1.spacing
  rw [nwb_cast]
  have : (2 : ℚ) ^ g.level ≠ 0 := by positivity
  field_simp

theorem numPoints_on (g : G1) (hb : g.boundary = true) : g.numPoints = g.nwb := by
  simp [G1.numPoints, G1.nwb, hb]

theorem lowerBorder_on (g : G1) (hb : g.boundary = true) : g.lowerBorder = 0 := by
  simp [G1.lowerBorder, hb]

theorem upperBorder_on (g : G1) (hb : g.boundary = true) : g.upperBorder = g.nwb := by
  simp [G1.upperBorder, hb, numPoints_on g hb]

theorem linspace_eq (g : G1) :
    linspace g.start g.stop g.nwb = (List.range g.nwb).map (fun (i : ℕ) => g.start + (i : ℚ) * g.spacing) := rfl

theorem slice_zero_length {α : Type} (l : List α) : slice 0 l.length l = l := by
  simp [slice]

theorem points1d_on (g : G1) (hb : g.boundary = true) :
    points1d g = (List.range g.nwb).map (fun (i : ℕ) => g.start + (i : ℚ) * g.spacing) := by
  unfold points1d
  rw [lowerBorder_on g hb, upperBorder_on g hb, linspace_eq]
  simp only [hb, Bool.not_true, Bool.false_and, Bool.false_eq_true, if_false]
  have := slice_zero_length ((List.range g.nwb).map (fun (i : ℕ) => g.start + (i : ℚ) * g.spacing))
  simpa using this

theorem weightComposite_on (g : G1) (hb : g.boundary = true) (i : ℕ) :
    weightComposite g i = g.spacing * (if i = 0 ∨ i = 2 ^ g.level then (1 / 2 : ℚ) else 1) := by
  unfold weightComposite
  rw [lowerBorder_on g hb]
  simp only [hb, Bool.not_true, Bool.false_and, Bool.false_eq_true, if_false]
  simp [G1.nwb]

theorem trapWeights_on (g : G1) (hb : g.boundary = true) (hm : g.modified = false) :
    trapWeights g = (List.range g.nwb).map
      (fun (i : ℕ) => g.spacing * (if i = 0 ∨ i = 2 ^ g.level then (1 / 2 : ℚ) else 1)) := by
  unfold trapWeights
  rw [numPoints_on g hb]
  apply List.map_congr_left
  intro i _
  unfold trapWeight
  simp only [hm, Bool.false_eq_true, if_false]
  exact weightComposite_on g hb i

/-- the grid points `x_j = start + j·h` -/
def G1.x (g : G1) (j : ℕ) : ℚ := g.start + (j : ℚ) * g.spacing

theorem x_succ (g : G1) (j : ℕ) : g.x (j + 1) = g.x j + g.spacing := by
  unfold G1.x; push_cast; ring

theorem x_zero (g : G1) : g.x 0 = g.start := by simp [G1.x]

theorem x_last (g : G1) : g.x (2 ^ g.level) = g.stop := by
  unfold G1.x
  have := spacing_mul g
  push_cast
  linarith

/-- the boundary-on trapezoidal rule of the model is the sum of its panel trapezoids, for EVERY integrand -/
theorem trap_eq_panels (g : G1) (hb : g.boundary = true) (hm : g.modified = false) (f : ℚ → ℚ) :
    quad (points1d g) (trapWeights g) f
      = S (fun j => g.spacing * ((f (g.x j) + f (g.x (j + 1))) / 2)) (2 ^ g.level) := by
  rw [points1d_on g hb, trapWeights_on g hb hm, quad_range]
  have h1 : ∀ i, i < g.nwb →
      (g.spacing * (if i = 0 ∨ i = 2 ^ g.level then (1 / 2 : ℚ) else 1)) * f (g.start + (i : ℚ) * g.spacing)
        = g.spacing * ((if i = 0 ∨ i = 2 ^ g.level then (1 / 2 : ℚ) else 1) * f (g.x i)) := by
    intro i _; unfold G1.x; ring
  rw [S_congr _ h1, S_mul_left]
  show g.spacing * S _ (2 ^ g.level + 1) = _
  rw [trap_composite (fun i => f (g.x i)) (2 ^ g.level) (two_pow_pos _), ← S_mul_left]

/-- exactness of the boundary-on trapezoidal rule on affine integrands -/
theorem trap_exact_affine (g : G1) (hb : g.boundary = true) (hm : g.modified = false) (α β : ℚ) :
    quad (points1d g) (trapWeights g) (fun x => α + β * x)
      = α * (g.stop - g.start) + β * ((g.stop ^ 2 - g.start ^ 2) / 2) := by
  rw [trap_eq_panels g hb hm]
  have h : ∀ j, j < 2 ^ g.level →
      g.spacing * (((α + β * g.x j) + (α + β * g.x (j + 1))) / 2)
        = (fun j => α * g.x j + β * (g.x j ^ 2 / 2)) (j + 1) - (fun j => α * g.x j + β * (g.x j ^ 2 / 2)) j := by
    intro j _
    simp only [x_succ]
    ring
  rw [S_congr _ h, S_telescope (fun j => α * g.x j + β * (g.x j ^ 2 / 2))]
  simp only [x_zero, x_last]
  ring


/-! ### Simpson -/

/-- sum of Simpson panels in closed form -/
theorem panels_simpson (φ : ℕ → ℚ) (M : ℕ) :
    S (fun j => φ (2 * j) + 4 * φ (2 * j + 1) + φ (2 * j + 2)) M
      = S (fun i => (if i % 2 = 1 then (4 : ℚ) else 2) * φ i) (2 * M + 1) - φ 0 - φ (2 * M) := by
  induction M with
  | zero => rw [S_succ]; simp; ring
  | succ M ih =>
    rw [S_succ, ih, show 2 * (M + 1) + 1 = (2 * M + 1) + 1 + 1 by ring, S_succ _ (2 * M + 1 + 1), S_succ _ (2 * M + 1)]
    have h1 : (2 * M + 1) % 2 = 1 := by omega
    have h2 : ¬ ((2 * M + 1 + 1) % 2 = 1) := by omega
    rw [if_pos h1, if_neg h2, show 2 * (M + 1) = 2 * M + 2 by ring, show 2 * M + 1 + 1 = 2 * M + 2 by ring]
    ring

/-- **composite Simpson rule (coefficients as built by the code) = sum of its panels**, any integrand table -/
theorem simpson_composite (φ : ℕ → ℚ) (M : ℕ) (hM : 1 ≤ M) :
    S (fun i => ((if 1 ≤ i ∧ i < 2 * M + 1 - 1 ∧ i % 2 = 1 then (4 : ℚ) else 1)
                  * (if 2 ≤ i ∧ i < 2 * M + 1 - 1 ∧ i % 2 = 0 then (2 : ℚ) else 1)) * φ i) (2 * M + 1)
      = S (fun j => φ (2 * j) + 4 * φ (2 * j + 1) + φ (2 * j + 2)) M := by
  rw [panels_simpson]
  have h : ∀ i, i < 2 * M + 1 →
      ((if 1 ≤ i ∧ i < 2 * M + 1 - 1 ∧ i % 2 = 1 then (4 : ℚ) else 1)
        * (if 2 ≤ i ∧ i < 2 * M + 1 - 1 ∧ i % 2 = 0 then (2 : ℚ) else 1)) * φ i
      = (if i % 2 = 1 then (4 : ℚ) else 2) * φ i
          - ((if i = 0 then (1 : ℚ) else 0) * φ i + (if i = 2 * M then (1 : ℚ) else 0) * φ i) := by
    intro i hi
    split_ifs <;> first | (exfalso; omega) | ring
  rw [S_congr _ h, S_sub, S_add, S_indicator _ _ 0 _ (by omega), S_indicator _ _ (2 * M) _ (by omega)]
  ring


theorem nwb_level_succ (g : G1) (k : ℕ) (hl : g.level = k + 1) : g.nwb = 2 * 2 ^ k + 1 := by
  simp [G1.nwb, hl, pow_succ]; ring

theorem simpsonWeights_on (g : G1) (hb : g.boundary = true) (k : ℕ) (hl : g.level = k + 1) :
    simpsonWeights g = simpsonFull g.spacing (2 * 2 ^ k + 1) := by
  unfold simpsonWeights
  have h3 : ¬ g.nwb < 3 := by
    rw [nwb_level_succ g k hl]; have := two_pow_pos k; omega
  rw [if_neg h3, lowerBorder_on g hb, upperBorder_on g hb, nwb_level_succ g k hl]
  have := slice_zero_length (simpsonFull g.spacing (2 * 2 ^ k + 1))
  simpa [simpsonFull] using this

/-- the boundary-on Simpson rule of the model (level ≥ 1) is the sum of its Simpson panels, for EVERY integrand -/
theorem simpson_eq_panels (g : G1) (hb : g.boundary = true) (k : ℕ) (hl : g.level = k + 1) (f : ℚ → ℚ) :
    quad (points1d g) (simpsonWeights g) f
      = S (fun j => g.spacing / 3 * (f (g.x (2 * j)) + 4 * f (g.x (2 * j + 1)) + f (g.x (2 * j + 2)))) (2 ^ k) := by
  rw [points1d_on g hb, simpsonWeights_on g hb k hl, nwb_level_succ g k hl]
  unfold simpsonFull
  rw [quad_range]
  have h1 : ∀ i : ℕ, i < 2 * 2 ^ k + 1 →
      (g.spacing * (1 / 3) * (if 1 ≤ i ∧ i < 2 * 2 ^ k + 1 - 1 ∧ i % 2 = 1 then (4 : ℚ) else 1)
          * (if 2 ≤ i ∧ i < 2 * 2 ^ k + 1 - 1 ∧ i % 2 = 0 then (2 : ℚ) else 1)) * f (g.start + (i : ℚ) * g.spacing)
        = g.spacing / 3 * (((if 1 ≤ i ∧ i < 2 * 2 ^ k + 1 - 1 ∧ i % 2 = 1 then (4 : ℚ) else 1)
          * (if 2 ≤ i ∧ i < 2 * 2 ^ k + 1 - 1 ∧ i % 2 = 0 then (2 : ℚ) else 1)) * f (g.x i)) := by
    intro i _; unfold G1.x; ring
  rw [S_congr _ h1, S_mul_left, simpson_composite (fun i => f (g.x i)) (2 ^ k) (two_pow_pos _), ← S_mul_left]

theorem x_add_two (g : G1) (j : ℕ) : g.x (j + 2) = g.x j + 2 * g.spacing := by
  unfold G1.x; push_cast; ring

/-- exactness of the boundary-on Simpson rule (level ≥ 1, i.e. n ≥ 3 points) on cubic integrands -/
theorem simpson_exact_cubic (g : G1) (hb : g.boundary = true) (k : ℕ) (hl : g.level = k + 1) (c0 c1 c2 c3 : ℚ) :
    quad (points1d g) (simpsonWeights g) (fun x => c0 + c1 * x + c2 * x ^ 2 + c3 * x ^ 3)
      = c0 * (g.stop - g.start) + c1 * ((g.stop ^ 2 - g.start ^ 2) / 2)
        + c2 * ((g.stop ^ 3 - g.start ^ 3) / 3) + c3 * ((g.stop ^ 4 - g.start ^ 4) / 4) := by
  rw [simpson_eq_panels g hb k hl]
  let F : ℚ → ℚ := fun x => c0 * x + c1 * (x ^ 2 / 2) + c2 * (x ^ 3 / 3) + c3 * (x ^ 4 / 4)
  have h : ∀ j, j < 2 ^ k →
      g.spacing / 3 * ((c0 + c1 * g.x (2 * j) + c2 * g.x (2 * j) ^ 2 + c3 * g.x (2 * j) ^ 3)
          + 4 * (c0 + c1 * g.x (2 * j + 1) + c2 * g.x (2 * j + 1) ^ 2 + c3 * g.x (2 * j + 1) ^ 3)
          + (c0 + c1 * g.x (2 * j + 2) + c2 * g.x (2 * j + 2) ^ 2 + c3 * g.x (2 * j + 2) ^ 3))
        = (fun j => F (g.x (2 * j))) (j + 1) - (fun j => F (g.x (2 * j))) j := by
    intro j _
    show _ = F (g.x (2 * (j + 1))) - F (g.x (2 * j))
    rw [show 2 * (j + 1) = 2 * j + 2 by ring, x_add_two, x_succ]
    simp only [F]
    ring
  rw [S_congr _ h, S_telescope (fun j => F (g.x (2 * j)))]
  have hlast : g.x (2 * 2 ^ k) = g.stop := by
    have := x_last g
    rw [hl, pow_succ, mul_comm] at this
    exact this
  simp only [hlast, Nat.mul_zero, x_zero, F]
  ring

end SparseSpace.Quad
