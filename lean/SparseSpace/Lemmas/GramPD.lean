import SparseSpace.Lemmas.Gram
import Mathlib.Algebra.BigOperators.Group.List.Basic
import Mathlib.Algebra.BigOperators.Ring.List
import Mathlib.Algebra.Order.BigOperators.Group.List
import Mathlib.Data.List.Nodup
/-! Positive definiteness of the system matrix of `DensityEstimation` (C16): quadratic form of the matrix the code
    builds (`symFill`), tensor structure, lower bound `xᵀ G x ≥ Σ_I (Π_d (hi_d − lo_d)/6) x_I²`. -/
namespace SparseSpace.Gram

/-! ### list sums -/

theorem sum_swap {α β : Type} (l1 : List α) (l2 : List β) (F : α → β → ℚ) :
    (l1.map fun a => (l2.map fun b => F a b).sum).sum = (l2.map fun b => (l1.map fun a => F a b).sum).sum := by
  induction l1 with
  | nil => simp
  | cons a t ih => simp only [List.map_cons, List.sum_cons, ih, List.sum_map_add]

theorem sum_flatMap_map {α β : Type} (l : List α) (f : α → List β) (g : β → ℚ) :
    ((l.flatMap f).map g).sum = (l.map fun a => ((f a).map g).sum).sum := by
  induction l with
  | nil => simp
  | cons a t ih => simp [List.flatMap_cons, ih]

/-- bilinear form of the matrix `(f I J)` indexed by the list `hs`, on coefficient FUNCTIONS -/
def bil {α : Type} (f : α → α → ℚ) (hs : List α) (y z : α → ℚ) : ℚ :=
  (hs.map fun I => (hs.map fun J => f I J * y I * z J).sum).sum

theorem dot_cons (a b : ℚ) (as bs : List ℚ) : dot (a :: as) (b :: bs) = a * b + dot as bs := by
  simp [dot]

theorem dot_nil_left (bs : List ℚ) : dot [] bs = 0 := by simp [dot]

theorem length_symFill {α : Type} (f : α → α → ℚ) (lam : ℚ) (hs : List α) : (symFill f lam hs).length = hs.length := by
  induction hs with
  | nil => rfl
  | cons h t ih => simp [symFill, ih]

/-- `xs · [g J + row_J · xs]_J = xs · [g J]_J + xs · (M xs)` for a matrix `M` with as many rows as `t` -/
theorem dot_zipWith_rows {α : Type} (g : α → ℚ) (xs : List ℚ) :
    ∀ (t : List α) (M : List (List ℚ)) (ys : List ℚ), t.length = M.length →
      dot ys (List.zipWith (fun J row => g J + dot row xs) t M) = dot ys (t.map g) + dot ys (M.map fun row => dot row xs) := by
  intro t
  induction t with
  | nil => intro M ys h; cases M <;> simp_all [dot]
  | cons J t ih =>
    intro M ys h
    cases M with
    | nil => simp at h
    | cons row M =>
      cases ys with
      | nil => simp [dot]
      | cons y ys =>
        simp only [List.zipWith_cons_cons, List.map_cons, dot_cons]
        rw [ih M ys (by simpa using h)]
        ring

theorem dot_map_map {α : Type} (t : List α) (x g : α → ℚ) :
    dot (t.map x) (t.map g) = (t.map fun J => x J * g J).sum := by
  induction t with
  | nil => simp [dot]
  | cons a t ih => simp only [List.map_cons, dot_cons, List.sum_cons, ih]

/-- quadratic form of the matrix assembled by the code's loops, for a symmetric entry function -/
theorem qform_symFill {α : Type} (f : α → α → ℚ) (lam : ℚ) (x : α → ℚ) :
    ∀ hs : List α, (∀ I ∈ hs, ∀ J ∈ hs, f I J = f J I) →
      qform (symFill f lam hs) (hs.map x) = bil f hs x x + lam * (hs.map fun I => x I ^ 2).sum := by
  intro hs
  induction hs with
  | nil => intro _; simp [qform, symFill, bil, matVec, dot]
  | cons h t ih =>
    intro hsym
    have ih' := ih (fun I hI J hJ => hsym I (List.mem_cons_of_mem _ hI) J (List.mem_cons_of_mem _ hJ))
    have hrows : (symFill f lam (h :: t)).map (fun row => dot row ((h :: t).map x))
        = ((f h h + lam) * x h + dot (t.map (f h)) (t.map x))
          :: List.zipWith (fun J row => f h J * x h + dot row (t.map x)) t (symFill f lam t) := by
      simp only [symFill, List.map_cons, dot_cons, List.map_zipWith]
    unfold qform matVec at ih' ⊢
    rw [hrows, List.map_cons, dot_cons,
      dot_zipWith_rows (fun J => f h J * x h) (t.map x) t (symFill f lam t) (t.map x) (length_symFill f lam t).symm,
      ih', dot_map_map, dot_map_map]
    simp only [bil, List.map_cons, List.sum_cons]
    have e2 : (t.map fun I => f I h * x I * x h + (t.map fun J => f I J * x I * x J).sum).sum
        = (t.map fun I => f h I * x h * x I).sum + (t.map fun I => (t.map fun J => f I J * x I * x J).sum).sum := by
      rw [← List.sum_map_add]
      apply congrArg
      apply List.map_congr_left
      intro I hI
      rw [hsym I (List.mem_cons_of_mem _ hI) h (List.mem_cons_self)]
      ring
    rw [e2]
    have e3 : (t.map fun J => x J * (f h J * x h)).sum = (t.map fun I => f h I * x h * x I).sum := by
      refine congrArg List.sum (List.map_congr_left fun J _ => ?_); ring
    have e4 : x h * (t.map fun J => f h J * x J).sum = (t.map fun I => f h I * x h * x I).sum := by
      rw [← List.sum_map_mul_left]; refine congrArg List.sum (List.map_congr_left fun J _ => ?_); ring
    rw [e3]
    have : x h * ((f h h + lam) * x h + (t.map fun J => f h J * x J).sum)
        = f h h * x h * x h + lam * x h ^ 2 + (t.map fun I => f h I * x h * x I).sum := by
      rw [mul_add, e4]; ring
    rw [this]
    ring

/-! ### one stripe -/

/-- entry of the 1-D matrix as the code computes it for two hats: the adjacency test, then `rValue1` -/
def g1 (I J : Hat1) : ℚ := if I.lo ≤ J.p ∧ J.p ≤ I.hi then rValue1 I J else 0

theorem rValue_nil : rValue [] [] = 1 := by simp [rValue, adjacent, rProd]

theorem rValue_cons (a b : Hat1) (I J : List Hat1) : rValue (a :: I) (b :: J) = g1 a b * rValue I J := by
  unfold rValue g1
  simp only [adjacent, rProd, Bool.and_eq_true, decide_eq_true_eq]
  by_cases h1 : a.lo ≤ b.p ∧ b.p ≤ a.hi
  · by_cases h2 : adjacent I J = true
    · rw [if_pos ⟨h1, h2⟩, if_pos h1, if_pos h2]
    · rw [if_neg (by tauto), if_neg h2]; ring
  · rw [if_neg (by tauto), if_neg h1]; ring

theorem sum_map_zero {α : Type} (l : List α) (f : α → ℚ) (h : ∀ b ∈ l, f b = 0) : (l.map f).sum = 0 := by
  induction l with
  | nil => rfl
  | cons a t ih =>
    rw [List.map_cons, List.sum_cons, h a List.mem_cons_self, ih (fun b hb => h b (List.mem_cons_of_mem _ hb)), add_zero]

/-- hats of a strictly increasing stripe lie to the right of its first two nodes -/
theorem hats1D_bounds : ∀ (nodes : List ℚ) (n0 n1 : ℚ) (rest : List ℚ), nodes = n0 :: n1 :: rest → nodes.Pairwise (· < ·) →
    ∀ b ∈ hats1D nodes, n1 ≤ b.p ∧ n0 ≤ b.lo
  | [], _, _, _, h, _ => by simp at h
  | [_], _, _, _, h, _ => by simp at h
  | [_, _], _, _, _, _, _ => by simp [hats1D]
  | a0 :: b0 :: c0 :: rest', n0, n1, rest, h, hs => by
    intro b hb
    simp only [List.cons.injEq] at h
    obtain ⟨rfl, rfl, _⟩ := h
    simp only [hats1D, List.mem_cons] at hb
    have hs' : (b0 :: c0 :: rest').Pairwise (· < ·) := (List.pairwise_cons.mp hs).2
    have hab : a0 < b0 := (List.pairwise_cons.mp hs).1 b0 List.mem_cons_self
    have hbc : b0 < c0 := (List.pairwise_cons.mp hs').1 c0 List.mem_cons_self
    rcases hb with rfl | hb
    · exact ⟨le_refl _, le_refl _⟩
    · have := hats1D_bounds (b0 :: c0 :: rest') b0 c0 rest' rfl hs' b hb
      exact ⟨by linarith [this.1], by linarith [this.2]⟩


def S1 (Bf : Hat1 → Hat1 → ℚ) (H : List Hat1) : ℚ := (H.map fun a => (H.map fun b => g1 a b * Bf a b).sum).sum
def low1 (Bf : Hat1 → Hat1 → ℚ) (H : List Hat1) : ℚ := (H.map fun a => (a.hi - a.lo) / 6 * Bf a a).sum
def extra1 (Bf : Hat1 → Hat1 → ℚ) : List Hat1 → ℚ
  | [] => 0
  | h :: _ => (h.p - h.lo) / 6 * Bf h h

theorem S1_cons (Bf : Hat1 → Hat1 → ℚ) (h : Hat1) (T : List Hat1) :
    S1 Bf (h :: T) = g1 h h * Bf h h + (T.map fun b => g1 h b * Bf h b).sum + (T.map fun a => g1 a h * Bf a h).sum + S1 Bf T := by
  simp only [S1, List.map_cons, List.sum_cons, List.sum_map_add]
  ring

theorem g1_self (h : Hat1) (h1 : h.lo < h.p) (h2 : h.p < h.hi) : g1 h h = (h.p - h.lo) / 3 + (h.hi - h.p) / 3 := by
  unfold g1
  rw [if_pos ⟨h1.le, h2.le⟩, rValue1_same h h rfl rfl h1 h2]

theorem g1_far_right (h b : Hat1) (hb : h.hi < b.p) : g1 h b = 0 := by
  unfold g1; rw [if_neg (by intro hh; linarith [hh.2])]

theorem g1_far_left (h b : Hat1) (hb : h.p < b.lo) : g1 b h = 0 := by
  unfold g1; rw [if_neg (by intro hh; linarith [hh.1])]

theorem S1_lower (Bf : Hat1 → Hat1 → ℚ) (hB1 : ∀ a b, 0 ≤ Bf a a + Bf a b + Bf b a + Bf b b) (hB0 : ∀ a, 0 ≤ Bf a a) :
    ∀ nodes : List ℚ, nodes.Pairwise (· < ·) →
      low1 Bf (hats1D nodes) + extra1 Bf (hats1D nodes) ≤ S1 Bf (hats1D nodes)
  | [], _ => by simp [hats1D, S1, low1, extra1]
  | [_], _ => by simp [hats1D, S1, low1, extra1]
  | [_, _], _ => by simp [hats1D, S1, low1, extra1]
  | [a0, b0, c0], hs => by
    have hs' : [b0, c0].Pairwise (· < ·) := (List.pairwise_cons.mp hs).2
    have hab : a0 < b0 := (List.pairwise_cons.mp hs).1 b0 List.mem_cons_self
    have hbc : b0 < c0 := (List.pairwise_cons.mp hs').1 c0 List.mem_cons_self
    simp only [hats1D, S1, low1, extra1, List.map_cons, List.map_nil, List.sum_cons, List.sum_nil, add_zero]
    rw [g1_self ⟨b0, a0, c0⟩ hab hbc]
    have := hB0 ⟨b0, a0, c0⟩
    simp only
    nlinarith [mul_nonneg (by linarith : (0:ℚ) ≤ c0 - b0) this]
  | a0 :: b0 :: c0 :: d0 :: rest, hs => by
    have hs' : (b0 :: c0 :: d0 :: rest).Pairwise (· < ·) := (List.pairwise_cons.mp hs).2
    have hs'' : (c0 :: d0 :: rest).Pairwise (· < ·) := (List.pairwise_cons.mp hs').2
    have hab : a0 < b0 := (List.pairwise_cons.mp hs).1 b0 List.mem_cons_self
    have hbc : b0 < c0 := (List.pairwise_cons.mp hs').1 c0 List.mem_cons_self
    have hcd : c0 < d0 := (List.pairwise_cons.mp hs'').1 d0 List.mem_cons_self
    have ih := S1_lower Bf hB1 hB0 (b0 :: c0 :: d0 :: rest) hs'
    set h : Hat1 := ⟨b0, a0, c0⟩ with hh
    set t1 : Hat1 := ⟨c0, b0, d0⟩ with ht1
    set T' := hats1D (c0 :: d0 :: rest) with hT'
    have eH : hats1D (a0 :: b0 :: c0 :: d0 :: rest) = h :: t1 :: T' := by simp [hats1D, hh, ht1, hT']
    have eT : hats1D (b0 :: c0 :: d0 :: rest) = t1 :: T' := by simp [hats1D, ht1, hT']
    rw [eT] at ih
    rw [eH, S1_cons]
    have far : ∀ b ∈ T', d0 ≤ b.p ∧ c0 ≤ b.lo := hats1D_bounds (c0 :: d0 :: rest) c0 d0 rest rfl hs''
    have z1 : (T'.map fun b => g1 h b * Bf h b).sum = 0 :=
      sum_map_zero _ _ fun b hb => by rw [g1_far_right h b (by simp only [hh]; linarith [(far b hb).1]), zero_mul]
    have z2 : (T'.map fun a => g1 a h * Bf a h).sum = 0 :=
      sum_map_zero _ _ fun b hb => by rw [g1_far_left h b (by simp only [hh]; linarith [(far b hb).2]), zero_mul]
    have e1 : g1 h t1 = (c0 - b0) / 6 := by
      unfold g1
      rw [if_pos (by simp only [hh, ht1]; constructor <;> linarith), rValue1_adj h t1 (by simp only [hh, ht1]; exact ne_of_lt hbc)]
      simp only [hh, ht1]
      rw [abs_of_neg (by linarith)]; ring
    have e2 : g1 t1 h = (c0 - b0) / 6 := by
      unfold g1
      rw [if_pos (by simp only [hh, ht1]; constructor <;> linarith), rValue1_adj t1 h (by simp only [hh, ht1]; exact ne_of_gt hbc)]
      simp only [hh, ht1]
      rw [abs_of_pos (by linarith)]
    simp only [List.map_cons, List.sum_cons, z1, z2, e1, e2, add_zero]
    rw [g1_self h (by simp only [hh]; exact hab) (by simp only [hh]; exact hbc)]
    simp only [low1, extra1, List.map_cons, List.sum_cons] at ih ⊢
    have k1 := hB1 h t1
    have k0 := hB0 h
    have p1 : h.p = b0 := rfl
    have p2 : h.lo = a0 := rfl
    have p3 : h.hi = c0 := rfl
    have q1 : t1.p = c0 := rfl
    have q2 : t1.lo = b0 := rfl
    have q3 : t1.hi = d0 := rfl
    rw [p1, p2, p3] at *
    rw [q1, q2] at ih
    rw [q2, q3] at *
    nlinarith [mul_nonneg (by linarith : (0:ℚ) ≤ (c0 - b0) / 6) k1]


/-! ### tensor grids -/

theorem hats1D_valid : ∀ (nodes : List ℚ), nodes.Pairwise (· < ·) → ∀ h ∈ hats1D nodes, h.lo < h.p ∧ h.p < h.hi
  | [], _ => by simp [hats1D]
  | [_], _ => by simp [hats1D]
  | [_, _], _ => by simp [hats1D]
  | a0 :: b0 :: c0 :: rest, hs => by
    intro h hh
    have hs' : (b0 :: c0 :: rest).Pairwise (· < ·) := (List.pairwise_cons.mp hs).2
    have hab : a0 < b0 := (List.pairwise_cons.mp hs).1 b0 List.mem_cons_self
    have hbc : b0 < c0 := (List.pairwise_cons.mp hs').1 c0 List.mem_cons_self
    simp only [hats1D, List.mem_cons] at hh
    rcases hh with rfl | hh
    · exact ⟨hab, hbc⟩
    · exact hats1D_valid (b0 :: c0 :: rest) hs' h hh

/-- the hats of the tensor grid with the supports given by the neighbouring nodes -/
def hatsRaw (stripes : List (List ℚ)) : List (List Hat1) := cross (stripes.map hats1D)

/-- lower bound of the diagonal: product of a sixth of the support widths -/
def wdiag (I : List Hat1) : ℚ := lprod (I.map fun h => (h.hi - h.lo) / 6)

def lowND (stripes : List (List ℚ)) (x : List Hat1 → ℚ) : ℚ := ((hatsRaw stripes).map fun I => wdiag I * x I ^ 2).sum

theorem hatsRaw_cons (s : List ℚ) (rest : List (List ℚ)) :
    hatsRaw (s :: rest) = (hats1D s).flatMap fun a => (hatsRaw rest).map (a :: ·) := by
  simp [hatsRaw, cross]

theorem bil_add_self {α : Type} (f : α → α → ℚ) (hs : List α) (y z : α → ℚ) :
    bil f hs (fun I => y I + z I) (fun I => y I + z I) = bil f hs y y + bil f hs y z + bil f hs z y + bil f hs z z := by
  unfold bil
  rw [← List.sum_map_add, ← List.sum_map_add, ← List.sum_map_add]
  refine congrArg List.sum (List.map_congr_left fun I _ => ?_)
  rw [← List.sum_map_add, ← List.sum_map_add, ← List.sum_map_add]
  refine congrArg List.sum (List.map_congr_left fun J _ => ?_)
  ring

/-- block structure: the bilinear form of the tensor grid is the 1-D form of the first stripe with the bilinear forms of
    the remaining stripes as "coefficients" -/
theorem bil_cons (s : List ℚ) (rest : List (List ℚ)) (x : List Hat1 → ℚ) :
    bil rValue (hatsRaw (s :: rest)) x x
      = S1 (fun a b => bil rValue (hatsRaw rest) (fun I => x (a :: I)) (fun J => x (b :: J))) (hats1D s) := by
  unfold bil S1
  rw [hatsRaw_cons, sum_flatMap_map]
  refine congrArg List.sum (List.map_congr_left fun a _ => ?_)
  rw [List.map_map]
  -- Σ_{I'} Σ_{J ∈ HH} ...  →  Σ_b g1 a b * Σ_{I'} Σ_{J'} ...
  have : ∀ I' : List Hat1,
      (((hats1D s).flatMap fun b => (hatsRaw rest).map (b :: ·)).map fun J => rValue (a :: I') J * x (a :: I') * x J).sum
        = ((hats1D s).map fun b => ((hatsRaw rest).map fun J' => g1 a b * (rValue I' J' * x (a :: I') * x (b :: J'))).sum).sum := by
    intro I'
    rw [sum_flatMap_map]
    refine congrArg List.sum (List.map_congr_left fun b _ => ?_)
    rw [List.map_map]
    refine congrArg List.sum (List.map_congr_left fun J' _ => ?_)
    simp only [Function.comp, rValue_cons]; ring
  have e : ((hatsRaw rest).map ((fun I => (((hats1D s).flatMap fun a => (hatsRaw rest).map (a :: ·)).map
                fun J => rValue I J * x I * x J).sum) ∘ fun I' => a :: I')).sum
      = ((hatsRaw rest).map fun I' => ((hats1D s).map fun b =>
          ((hatsRaw rest).map fun J' => g1 a b * (rValue I' J' * x (a :: I') * x (b :: J'))).sum).sum).sum :=
    congrArg List.sum (List.map_congr_left fun I' _ => by simp only [Function.comp_apply]; exact this I')
  rw [e, sum_swap]
  refine congrArg List.sum (List.map_congr_left fun b _ => ?_)
  rw [← List.sum_map_mul_left]
  refine congrArg List.sum (List.map_congr_left fun I' _ => ?_)
  rw [← List.sum_map_mul_left]

theorem wdiag_cons (a : Hat1) (I : List Hat1) : wdiag (a :: I) = (a.hi - a.lo) / 6 * wdiag I := by
  simp [wdiag, lprod]

theorem lowND_cons (s : List ℚ) (rest : List (List ℚ)) (x : List Hat1 → ℚ) :
    lowND (s :: rest) x = ((hats1D s).map fun a => (a.hi - a.lo) / 6 * lowND rest (fun I => x (a :: I))).sum := by
  unfold lowND
  rw [hatsRaw_cons, sum_flatMap_map]
  refine congrArg List.sum (List.map_congr_left fun a _ => ?_)
  rw [List.map_map, ← List.sum_map_mul_left]
  refine congrArg List.sum (List.map_congr_left fun I' _ => ?_)
  simp only [Function.comp, wdiag_cons]; ring

/-- **tensor lower bound**: `Σ_I (Π_d (hi_d − lo_d)/6) x_I² ≤ xᵀ G x` for the Gram matrix `G` of every tensor grid of
    strictly increasing stripes, in every dimension -/
theorem gram_lower_bound : ∀ (stripes : List (List ℚ)), (∀ s ∈ stripes, s.Pairwise (· < ·)) →
    ∀ x : List Hat1 → ℚ, 0 ≤ lowND stripes x ∧ lowND stripes x ≤ bil rValue (hatsRaw stripes) x x
  | [], _, x => by
    simp only [lowND, hatsRaw, List.map_nil, cross, List.map_cons, List.sum_cons, List.sum_nil, bil, rValue_nil, wdiag, lprod]
    constructor
    · nlinarith [sq_nonneg (x [])]
    · nlinarith
  | s :: rest, hs, x => by
    have hs1 : s.Pairwise (· < ·) := hs s List.mem_cons_self
    have hsr : ∀ s' ∈ rest, s'.Pairwise (· < ·) := fun s' h => hs s' (List.mem_cons_of_mem _ h)
    have ih := gram_lower_bound rest hsr
    have hv := hats1D_valid s hs1
    have hw : ∀ a ∈ hats1D s, 0 ≤ (a.hi - a.lo) / 6 := fun a ha => by have := hv a ha; linarith [this.1, this.2]
    constructor
    · rw [lowND_cons]
      apply List.sum_nonneg
      intro v hvm
      obtain ⟨a, ha, rfl⟩ := List.mem_map.mp hvm
      exact mul_nonneg (hw a ha) (ih _).1
    · rw [bil_cons, lowND_cons]
      set Bf : Hat1 → Hat1 → ℚ := fun a b => bil rValue (hatsRaw rest) (fun I => x (a :: I)) (fun J => x (b :: J)) with hBf
      have hB0 : ∀ a, 0 ≤ Bf a a := fun a => le_trans (ih _).1 (ih _).2
      have hB1 : ∀ a b, 0 ≤ Bf a a + Bf a b + Bf b a + Bf b b := by
        intro a b
        have := ih (fun I => x (a :: I) + x (b :: I))
        rw [bil_add_self] at this
        exact le_trans this.1 this.2
      have main := S1_lower Bf hB1 hB0 s hs1
      have hex : 0 ≤ extra1 Bf (hats1D s) := by
        cases hH : hats1D s with
        | nil => simp [extra1]
        | cons h T =>
          have := hv h (by rw [hH]; exact List.mem_cons_self)
          exact mul_nonneg (by linarith [this.1]) (hB0 h)
      have hlow : ((hats1D s).map fun a => (a.hi - a.lo) / 6 * lowND rest (fun I => x (a :: I))).sum ≤ low1 Bf (hats1D s) := by
        unfold low1
        apply List.sum_le_sum
        intro a ha
        exact mul_le_mul_of_nonneg_left (ih _).2 (hw a ha)
      linarith


/-! ### symmetry and positive definiteness -/

/-- two hats of one stripe, `a` left of `b`: supports ordered; they share a cell exactly when they are neighbours -/
def Ordered1 (a b : Hat1) : Prop :=
  a.lo < a.p ∧ a.p < a.hi ∧ b.lo < b.p ∧ b.p < b.hi ∧ a.hi ≤ b.p ∧ a.p ≤ b.lo ∧ (a.hi = b.p ↔ a.p = b.lo)

theorem g1_symm_of_ordered (a b : Hat1) (h : Ordered1 a b) : g1 a b = g1 b a := by
  obtain ⟨a1, a2, b1, b2, h1, h2, h3⟩ := h
  unfold g1
  by_cases hc : a.hi = b.p
  · have hc' := h3.mp hc
    rw [if_pos ⟨by linarith, by linarith⟩, if_pos ⟨by linarith, by linarith⟩,
      rValue1_adj a b (by intro e; linarith), rValue1_adj b a (by intro e; linarith), abs_sub_comm]
  · have hc' : ¬ a.p = b.lo := fun e => hc (h3.mpr e)
    rw [if_neg (by intro hh; exact hc (le_antisymm h1 hh.2)), if_neg (by intro hh; exact hc' (le_antisymm h2 hh.1))]

theorem hats1D_ordered : ∀ (nodes : List ℚ), nodes.Pairwise (· < ·) → (hats1D nodes).Pairwise Ordered1
  | [], _ => by simp [hats1D]
  | [_], _ => by simp [hats1D]
  | [_, _], _ => by simp [hats1D]
  | [_, _, _], _ => by simp [hats1D]
  | a0 :: b0 :: c0 :: d0 :: rest, hs => by
    have hs' : (b0 :: c0 :: d0 :: rest).Pairwise (· < ·) := (List.pairwise_cons.mp hs).2
    have hs'' : (c0 :: d0 :: rest).Pairwise (· < ·) := (List.pairwise_cons.mp hs').2
    have hab : a0 < b0 := (List.pairwise_cons.mp hs).1 b0 List.mem_cons_self
    have hbc : b0 < c0 := (List.pairwise_cons.mp hs').1 c0 List.mem_cons_self
    have hcd : c0 < d0 := (List.pairwise_cons.mp hs'').1 d0 List.mem_cons_self
    have ih := hats1D_ordered (b0 :: c0 :: d0 :: rest) hs'
    have eH : hats1D (a0 :: b0 :: c0 :: d0 :: rest) = ⟨b0, a0, c0⟩ :: ⟨c0, b0, d0⟩ :: hats1D (c0 :: d0 :: rest) := by simp [hats1D]
    have eT : hats1D (b0 :: c0 :: d0 :: rest) = ⟨c0, b0, d0⟩ :: hats1D (c0 :: d0 :: rest) := by simp [hats1D]
    rw [eH]
    rw [eT] at ih
    refine List.pairwise_cons.mpr ⟨?_, ih⟩
    intro b hb
    have far := hats1D_bounds (c0 :: d0 :: rest) c0 d0 rest rfl hs''
    have val := hats1D_valid (c0 :: d0 :: rest) hs''
    rcases List.mem_cons.mp hb with rfl | hb
    · exact ⟨hab, hbc, hbc, hcd, le_refl _, le_refl _, by simp⟩
    · have f := far b hb
      have v := val b hb
      refine ⟨hab, hbc, v.1, v.2, by simp only; linarith [f.1], by simp only; linarith [f.2], ?_⟩
      simp only
      constructor
      · intro e; linarith [f.1]
      · intro e; linarith [f.2]

/-- the entry of one dimension is symmetric on the hats of a strictly increasing stripe -/
theorem g1_symm (nodes : List ℚ) (hs : nodes.Pairwise (· < ·)) (a b : Hat1) (ha : a ∈ hats1D nodes) (hb : b ∈ hats1D nodes) :
    g1 a b = g1 b a := by
  have hp := hats1D_ordered nodes hs
  by_cases e : a = b
  · rw [e]
  · rcases List.Pairwise.forall_of_forall_of_flip (R := fun a b => g1 a b = g1 b a) (l := hats1D nodes)
      (fun _ _ => rfl) (hp.imp fun {a b} h => g1_symm_of_ordered a b h)
      (hp.imp fun {a b} h => (g1_symm_of_ordered a b h).symm) with hall
    exact hall ha hb


theorem mem_hatsRaw_cons {s : List ℚ} {rest : List (List ℚ)} {I : List Hat1} (h : I ∈ hatsRaw (s :: rest)) :
    ∃ a I', I = a :: I' ∧ a ∈ hats1D s ∧ I' ∈ hatsRaw rest := by
  rw [hatsRaw_cons, List.mem_flatMap] at h
  obtain ⟨a, ha, hI⟩ := h
  obtain ⟨I', hI', rfl⟩ := List.mem_map.mp hI
  exact ⟨a, I', rfl, ha, hI'⟩

/-- **symmetry**: the value the code computes for the pair `(I, J)` equals the one for `(J, I)` -/
theorem rValue_symm : ∀ (stripes : List (List ℚ)), (∀ s ∈ stripes, s.Pairwise (· < ·)) →
    ∀ I ∈ hatsRaw stripes, ∀ J ∈ hatsRaw stripes, rValue I J = rValue J I
  | [], _, I, hI, J, hJ => by
    simp only [hatsRaw, List.map_nil, cross, List.mem_singleton] at hI hJ
    rw [hI, hJ]
  | s :: rest, hs, I, hI, J, hJ => by
    obtain ⟨a, I', rfl, ha, hI'⟩ := mem_hatsRaw_cons hI
    obtain ⟨b, J', rfl, hb, hJ'⟩ := mem_hatsRaw_cons hJ
    rw [rValue_cons, rValue_cons, g1_symm s (hs s List.mem_cons_self) a b ha hb,
      rValue_symm rest (fun s' h => hs s' (List.mem_cons_of_mem _ h)) I' hI' J' hJ']

theorem wdiag_pos : ∀ (stripes : List (List ℚ)), (∀ s ∈ stripes, s.Pairwise (· < ·)) → ∀ I ∈ hatsRaw stripes, 0 < wdiag I
  | [], _, I, hI => by
    simp only [hatsRaw, List.map_nil, cross, List.mem_singleton] at hI
    rw [hI]; simp [wdiag, lprod]
  | s :: rest, hs, I, hI => by
    obtain ⟨a, I', rfl, ha, hI'⟩ := mem_hatsRaw_cons hI
    rw [wdiag_cons]
    have v := hats1D_valid s (hs s List.mem_cons_self) a ha
    exact mul_pos (by linarith [v.1, v.2]) (wdiag_pos rest (fun s' h => hs s' (List.mem_cons_of_mem _ h)) I' hI')

theorem sum_pos_of_mem {α : Type} (l : List α) (f : α → ℚ) (h0 : ∀ a ∈ l, 0 ≤ f a) (a : α) (ha : a ∈ l) (hpos : 0 < f a) :
    0 < (l.map f).sum := by
  induction l with
  | nil => simp at ha
  | cons b t ih =>
    rw [List.map_cons, List.sum_cons]
    rcases List.mem_cons.mp ha with rfl | hat
    · have : 0 ≤ (t.map f).sum := List.sum_nonneg (by
        intro v hv; obtain ⟨c, hc, rfl⟩ := List.mem_map.mp hv; exact h0 c (List.mem_cons_of_mem _ hc))
      linarith
    · have := ih (fun c hc => h0 c (List.mem_cons_of_mem _ hc)) hat
      linarith [h0 b List.mem_cons_self]

/-- a stripe of `DensityEstimation`: strictly increasing from 0 to 1 -/
def UnitStripe (s : List ℚ) : Prop := s.Pairwise (· < ·) ∧ s.head? = some 0 ∧ s.getLast? = some 1

theorem hatDomains1D_eq (s : List ℚ) (h : UnitStripe s) : hatDomains1D s = hats1D s := by
  obtain ⟨_, h0, h1⟩ := h
  match s, h0, h1 with
  | [], _, _ => rfl
  | [_], _, _ => rfl
  | [_, _], _, _ => rfl
  | [a, b, c], h0, h1 =>
    simp only [List.head?_cons, Option.some.injEq] at h0
    simp only [List.getLast?_cons_cons, List.getLast?_singleton, Option.some.injEq] at h1
    subst h0 h1
    rfl
  | _ :: _ :: _ :: _ :: _, _, _ => rfl

theorem hatsND_eq_hatsRaw (stripes : List (List ℚ)) (h : ∀ s ∈ stripes, UnitStripe s) : hatsND stripes = hatsRaw stripes := by
  unfold hatsND hatsRaw
  congr 1
  exact List.map_congr_left fun s hs => hatDomains1D_eq s (h s hs)

/-- **positive definiteness** of the matrix built by `build_R_matrix_dimension_wise`, any dimension, any stripes, `λ ≥ 0` -/
theorem buildRDW_posdef (stripes : List (List ℚ)) (hv : ∀ s ∈ stripes, UnitStripe s) (lam : ℚ) (hlam : 0 ≤ lam)
    (x : List Hat1 → ℚ) (hx : ∃ I ∈ hatsND stripes, x I ≠ 0) :
    0 < qform (buildRDW stripes lam) ((hatsND stripes).map x) := by
  have hs : ∀ s ∈ stripes, s.Pairwise (· < ·) := fun s h => (hv s h).1
  unfold buildRDW
  rw [hatsND_eq_hatsRaw stripes hv] at hx ⊢
  rw [qform_symFill rValue lam x (hatsRaw stripes) (rValue_symm stripes hs)]
  obtain ⟨I, hI, hxI⟩ := hx
  have hl := (gram_lower_bound stripes hs x).2
  have hpos : 0 < lowND stripes x := by
    unfold lowND
    apply sum_pos_of_mem (hatsRaw stripes) (fun I => wdiag I * x I ^ 2) _ I hI
    · exact mul_pos (wdiag_pos stripes hs I hI) (by positivity)
    · intro J hJ
      exact mul_nonneg (wdiag_pos stripes hs J hJ).le (sq_nonneg _)
  have hsq : 0 ≤ ((hatsRaw stripes).map fun I => x I ^ 2).sum := List.sum_nonneg (by
    intro v hv'; obtain ⟨c, _, rfl⟩ := List.mem_map.mp hv'; exact sq_nonneg _)
  nlinarith [mul_nonneg hlam hsq]


/-! ### vector form -/

theorem hats1D_nodup (s : List ℚ) (hs : s.Pairwise (· < ·)) : (hats1D s).Nodup := by
  have hp := hats1D_ordered s hs
  exact hp.imp fun {a b} h => by
    obtain ⟨_, a2, _, _, h1, _, _⟩ := h
    intro e; rw [e] at a2 h1; linarith

theorem hatsRaw_nodup : ∀ (stripes : List (List ℚ)), (∀ s ∈ stripes, s.Pairwise (· < ·)) → (hatsRaw stripes).Nodup
  | [], _ => by simp [hatsRaw, cross]
  | s :: rest, hs => by
    have ih := hatsRaw_nodup rest (fun s' h => hs s' (List.mem_cons_of_mem _ h))
    rw [hatsRaw_cons, List.nodup_flatMap]
    refine ⟨fun a _ => ih.map (fun I J h => by simpa using h), ?_⟩
    refine (hats1D_nodup s (hs s List.mem_cons_self)).imp ?_
    intro a b hab
    simp only [Function.onFun]
    rw [List.disjoint_left]
    intro I hI hJ
    obtain ⟨I', _, rfl⟩ := List.mem_map.mp hI
    obtain ⟨J', _, hJ'⟩ := List.mem_map.mp hJ
    simp only [List.cons.injEq] at hJ'
    exact hab hJ'.1.symm

/-- every coefficient VECTOR of the right length is the list form of a coefficient function on the (pairwise distinct) hats -/
theorem vector_as_function {α : Type} [BEq α] [LawfulBEq α] (hs : List α) (hn : hs.Nodup) (v : List ℚ) (hl : v.length = hs.length) :
    hs.map (fun I => v.getD (hs.idxOf I) 0) = v := by
  apply List.ext_getElem (by simp [hl])
  intro i h1 h2
  simp only [List.getElem_map]
  have hi : i < hs.length := by simpa using h1
  have : hs.idxOf hs[i] = i := by
    have := List.get_idxOf hn ⟨i, hi⟩
    simpa using this
  rw [this, List.getD_eq_getElem?_getD, List.getElem?_eq_getElem h2]
  rfl

/-- **positive definiteness, vector form**: for every non-zero vector of the right length -/
theorem buildRDW_posdef_vec (stripes : List (List ℚ)) (hv : ∀ s ∈ stripes, UnitStripe s) (lam : ℚ) (hlam : 0 ≤ lam)
    (v : List ℚ) (hl : v.length = (hatsND stripes).length) (hne : ∃ c ∈ v, c ≠ 0) :
    0 < qform (buildRDW stripes lam) v := by
  have hs : ∀ s ∈ stripes, s.Pairwise (· < ·) := fun s h => (hv s h).1
  have hn : (hatsND stripes).Nodup := by rw [hatsND_eq_hatsRaw stripes hv]; exact hatsRaw_nodup stripes hs
  have e := vector_as_function (hatsND stripes) hn v hl
  rw [← e]
  apply buildRDW_posdef stripes hv lam hlam
  obtain ⟨c, hc, hc0⟩ := hne
  obtain ⟨i, hi, rfl⟩ := List.getElem_of_mem hc
  refine ⟨(hatsND stripes)[i]'(by rw [← hl]; exact hi), List.getElem_mem _, ?_⟩
  have hi' : i < (hatsND stripes).length := by rw [← hl]; exact hi
  have : (hatsND stripes).idxOf (hatsND stripes)[i] = i := by
    have := List.get_idxOf hn ⟨i, hi'⟩
    simpa using this
  show v.getD ((hatsND stripes).idxOf (hatsND stripes)[i]) 0 ≠ 0
  rw [this, List.getD_eq_getElem?_getD, List.getElem?_eq_getElem hi]
  exact hc0


end SparseSpace.Gram
