import SparseSpace.Model.Interp
import Mathlib.Tactic.Ring
import Mathlib.Tactic.FieldSimp
import Mathlib.Tactic.Linarith
import Mathlib.Tactic.Positivity
import Mathlib.Algebra.Order.Field.Rat
import Mathlib.Algebra.Order.Field.Basic
import Mathlib.Algebra.BigOperators.Group.List.Basic
import Mathlib.Data.Nat.Find
/-!
# Lemmas on the trapezoidal level grids and on (multi)linear interpolation (L3)

* `levelPoints_nested`, `levelPoints_length`, `levelPoints_sorted`
* `interp1_exact`, `interp1_congr`, `interp1_add`, `interp1_smul`
* `interpN_exact`, `interpN_congr`, `interpN_add`, `interpN_smul`
* `exists_level` : every point of a level grid has a smallest level `≥ lmin`
-/
namespace SparseSpace

/-! ## level points -/

theorem mem_levelIdx (l : Nat) (bd : Bool) (i : Nat) :
    i ∈ levelIdx l bd ↔ (if bd then i ≤ 2 ^ l else 1 ≤ i ∧ i < 2 ^ l) := by
  unfold levelIdx
  cases bd
  · simp only [Bool.false_eq_true, if_false, List.mem_map, List.mem_range]
    constructor
    · rintro ⟨j, hj, rfl⟩; omega
    · rintro ⟨h1, h2⟩; exact ⟨i - 1, by omega, by omega⟩
  · simp only [if_true, List.mem_range]; omega

theorem mem_levelPoints (a b : Rat) (l : Nat) (bd : Bool) (x : Rat) :
    x ∈ levelPoints a b l bd ↔ ∃ i, i ∈ levelIdx l bd ∧ linPt a b (2 ^ l) i = x := by
  unfold levelPoints
  simp only [List.mem_map]

theorem linPt_refine (a b : Rat) (l m i : Nat) :
    linPt a b (2 ^ (l + m)) (i * 2 ^ m) = linPt a b (2 ^ l) i := by
  unfold linPt
  have h1 : ((2 ^ l : Nat) : Rat) ≠ 0 := by positivity
  have h2 : ((2 ^ m : Nat) : Rat) ≠ 0 := by positivity
  rw [pow_add]
  push_cast
  have h1' : (2 : Rat) ^ l ≠ 0 := by positivity
  have h2' : (2 : Rat) ^ m ≠ 0 := by positivity
  field_simp

/-- **nestedness**: the points of level `l` are points of every level `l' ≥ l` -/
theorem levelPoints_nested (a b : Rat) (bd : Bool) {l l' : Nat} (h : l ≤ l') {x : Rat}
    (hx : x ∈ levelPoints a b l bd) : x ∈ levelPoints a b l' bd := by
  obtain ⟨m, rfl⟩ : ∃ m, l' = l + m := ⟨l' - l, by omega⟩
  rw [mem_levelPoints] at hx ⊢
  obtain ⟨i, hi, rfl⟩ := hx
  refine ⟨i * 2 ^ m, ?_, linPt_refine a b l m i⟩
  rw [mem_levelIdx] at hi ⊢
  have hm : 0 < 2 ^ m := Nat.pos_of_ne_zero (by positivity)
  cases bd
  · simp only [Bool.false_eq_true, if_false] at hi ⊢
    obtain ⟨h1, h2⟩ := hi
    constructor
    · exact Nat.mul_pos h1 hm
    · rw [pow_add]; exact Nat.mul_lt_mul_of_pos_right h2 hm
  · simp only [if_true] at hi ⊢
    rw [pow_add]; exact Nat.mul_le_mul_right _ hi

/-- **announced count**: number of returned 1-D points = `level_to_num_points_1d` -/
theorem levelPoints_length (a b : Rat) (l : Nat) (bd : Bool) :
    (levelPoints a b l bd).length = levelNumPoints l bd := by
  unfold levelPoints levelIdx levelNumPoints
  cases bd <;> simp

theorem levelWeights_length (a b : Rat) (l : Nat) (bd : Bool) :
    (levelWeights a b l bd).length = levelNumPoints l bd := by
  unfold levelWeights levelIdx levelNumPoints
  cases bd <;> simp

theorem linPt_lt (a b : Rat) (hab : a < b) (n : Nat) (hn : 0 < n) {i j : Nat} (h : i < j) :
    linPt a b n i < linPt a b n j := by
  unfold linPt
  have hn' : (0 : Rat) < n := by exact_mod_cast hn
  have hstep : 0 < (b - a) / (n : Rat) := div_pos (by linarith) hn'
  have hij : (i : Rat) < j := by exact_mod_cast h
  have := mul_lt_mul_of_pos_left hij hstep
  linarith

theorem linPt_zero (a b : Rat) (n : Nat) : linPt a b n 0 = a := by
  unfold linPt; simp

theorem linPt_last (a b : Rat) (n : Nat) (hn : 0 < n) : linPt a b n n = b := by
  unfold linPt
  have hn' : (n : Rat) ≠ 0 := by positivity
  field_simp
  ring

theorem levelIdx_sorted (l : Nat) (bd : Bool) : (levelIdx l bd).Pairwise (· < ·) := by
  unfold levelIdx
  cases bd
  · simp only [Bool.false_eq_true, if_false]
    rw [List.pairwise_map]
    exact (List.pairwise_lt_range).imp (by intro a b h; omega)
  · simp only [if_true]
    exact List.pairwise_lt_range

theorem levelPoints_sorted (a b : Rat) (hab : a < b) (l : Nat) (bd : Bool) :
    (levelPoints a b l bd).Pairwise (· < ·) := by
  unfold levelPoints
  rw [List.pairwise_map]
  exact (levelIdx_sorted l bd).imp (fun h => linPt_lt a b hab _ (Nat.pos_of_ne_zero (by positivity)) h)

theorem levelPoints_interior (a b : Rat) (hab : a < b) (l : Nat) {x : Rat}
    (hx : x ∈ levelPoints a b l false) : a < x ∧ x < b := by
  rw [mem_levelPoints] at hx
  obtain ⟨i, hi, rfl⟩ := hx
  rw [mem_levelIdx] at hi
  simp only [Bool.false_eq_true, if_false] at hi
  have hn : 0 < 2 ^ l := Nat.pos_of_ne_zero (by positivity)
  constructor
  · have h0 := linPt_lt a b hab _ hn hi.1
    rwa [linPt_zero] at h0
  · have h1 := linPt_lt a b hab _ hn hi.2
    rwa [linPt_last a b _ hn] at h1

/-- the interpolation mesh of one axis is strictly increasing -/
theorem meshAxis_sorted (a b : Rat) (hab : a < b) (l : Nat) (bd : Bool) :
    (meshAxis a b l bd).Pairwise (· < ·) := by
  unfold meshAxis
  cases bd
  · simp only [Bool.false_eq_true, if_false]
    rw [List.pairwise_cons]
    constructor
    · intro y hy
      rcases List.mem_append.1 hy with hy | hy
      · exact (levelPoints_interior a b hab l hy).1
      · simp only [List.mem_singleton] at hy; rw [hy]; exact hab
    · rw [List.pairwise_append]
      refine ⟨levelPoints_sorted a b hab l false, List.pairwise_singleton _ _, ?_⟩
      intro x hx y hy
      simp only [List.mem_singleton] at hy
      rw [hy]; exact (levelPoints_interior a b hab l hx).2
  · simp only [if_true]
    exact levelPoints_sorted a b hab l true

theorem levelPoints_sub_meshAxis (a b : Rat) (l : Nat) (bd : Bool) {x : Rat}
    (hx : x ∈ levelPoints a b l bd) : x ∈ meshAxis a b l bd := by
  unfold meshAxis
  cases bd
  · simp only [Bool.false_eq_true, if_false]
    exact List.mem_cons_of_mem _ (List.mem_append_left _ hx)
  · simpa using hx

/-- every point of some level grid `L ≥ lmin` has a smallest level `k ≥ lmin`; by nestedness the point
belongs to the grid of level `l ≥ lmin` iff `k ≤ l` -/
theorem exists_level (a b : Rat) (bd : Bool) (lmin L : Nat) (hL : lmin ≤ L) (x : Rat)
    (hx : x ∈ levelPoints a b L bd) :
    ∃ k, lmin ≤ k ∧ k ≤ L ∧ ∀ l, lmin ≤ l → (x ∈ levelPoints a b l bd ↔ k ≤ l) := by
  have hex : ∃ l, lmin ≤ l ∧ x ∈ levelPoints a b l bd := ⟨L, hL, hx⟩
  refine ⟨Nat.find hex, (Nat.find_spec hex).1, Nat.find_min' hex ⟨hL, hx⟩, ?_⟩
  intro l hl
  constructor
  · intro h; exact Nat.find_min' hex ⟨hl, h⟩
  · intro h; exact levelPoints_nested a b bd h (Nat.find_spec hex).2

/-! ## 1-D linear interpolation -/

/-- **exact at the nodes** -/
theorem interp1_exact (g : Rat → Rat) : ∀ (ns : List Rat), ns.Pairwise (· < ·) → ∀ x ∈ ns, interp1 ns g x = g x
  | [], _, x, hx => by simp at hx
  | [n], _, x, hx => by
      simp only [List.mem_singleton] at hx
      simp [interp1, hx]
  | n0 :: n1 :: rest, hs, x, hx => by
      have h01 : n0 < n1 := (List.pairwise_cons.1 hs).1 n1 (List.mem_cons_self ..)
      have hs' : (n1 :: rest).Pairwise (· < ·) := (List.pairwise_cons.1 hs).2
      unfold interp1
      rcases List.mem_cons.1 hx with rfl | hx
      · have : x ≤ n1 := le_of_lt h01
        simp [this]
      · rcases List.mem_cons.1 hx with rfl | hx
        · have hne : x - n0 ≠ 0 := by linarith
          simp only [le_refl, decide_true, Bool.true_or, if_true]
          field_simp
          ring
        · have hlt : n1 < x := (List.pairwise_cons.1 hs').1 x hx
          have hne : rest ≠ [] := List.ne_nil_of_mem hx
          have h1 : ¬ x ≤ n1 := not_le.2 hlt
          have h2 : rest.isEmpty = false := by simpa using hne
          simp only [h1, decide_false, h2, Bool.or_self, Bool.false_eq_true, if_false]
          exact interp1_exact g (n1 :: rest) hs' x (List.mem_cons_of_mem _ hx)

/-- the interpolant only depends on the values at the nodes -/
theorem interp1_congr (g g' : Rat → Rat) : ∀ (ns : List Rat), (∀ t ∈ ns, g t = g' t) → ∀ x, interp1 ns g x = interp1 ns g' x
  | [], _, _ => rfl
  | [n], h, _ => by simp [interp1, h n (List.mem_singleton.2 rfl)]
  | n0 :: n1 :: rest, h, x => by
      unfold interp1
      rw [h n0 (List.mem_cons_self ..), h n1 (List.mem_cons_of_mem _ (List.mem_cons_self ..)),
        interp1_congr g g' (n1 :: rest) (fun t ht => h t (List.mem_cons_of_mem _ ht)) x]

theorem interp1_add (g g' : Rat → Rat) : ∀ (ns : List Rat) (x : Rat),
    interp1 ns (fun t => g t + g' t) x = interp1 ns g x + interp1 ns g' x
  | [], _ => by simp [interp1]
  | [n], _ => by simp [interp1]
  | n0 :: n1 :: rest, x => by
      unfold interp1
      rw [interp1_add g g' (n1 :: rest) x]
      split <;> ring

theorem interp1_smul (α : Rat) (g : Rat → Rat) : ∀ (ns : List Rat) (x : Rat),
    interp1 ns (fun t => α * g t) x = α * interp1 ns g x
  | [], _ => by simp [interp1]
  | [n], _ => by simp [interp1]
  | n0 :: n1 :: rest, x => by
      unfold interp1
      rw [interp1_smul α g (n1 :: rest) x]
      split <;> ring

/-! ## tensor interpolation -/

/-- all axes strictly increasing and `x` a mesh point -/
def OnMesh : List (List Rat) → List Rat → Prop
  | [], [] => True
  | ns :: rest, x :: xs => ns.Pairwise (· < ·) ∧ x ∈ ns ∧ OnMesh rest xs
  | _, _ => False

/-- **exact at the mesh points** (tensor version) -/
theorem interpN_exact : ∀ (mesh : List (List Rat)) (f : List Rat → Rat) (x : List Rat),
    OnMesh mesh x → interpN mesh f x = f x
  | [], f, [], _ => rfl
  | [], _, _ :: _, h => by simp [OnMesh] at h
  | _ :: _, _, [], h => by simp [OnMesh] at h
  | ns :: rest, f, x :: xs, h => by
      obtain ⟨hs, hx, hr⟩ := h
      unfold interpN
      rw [interp1_exact _ ns hs x hx]
      exact interpN_exact rest (fun y => f (x :: y)) xs hr

/-- the tensor interpolant only depends on the values at the mesh points -/
theorem interpN_congr : ∀ (mesh : List (List Rat)) (f f' : List Rat → Rat) (x : List Rat),
    (∀ p ∈ cross mesh, f p = f' p) → interpN mesh f x = interpN mesh f' x
  | [], f, f', [], h => h [] (by simp [cross])
  | [], _, _, _ :: _, _ => rfl
  | _ :: _, _, _, [], _ => rfl
  | ns :: rest, f, f', x :: xs, h => by
      unfold interpN
      apply interp1_congr
      intro t ht
      apply interpN_congr rest
      intro p hp
      apply h
      unfold cross
      rw [List.mem_flatMap]
      exact ⟨t, ht, List.mem_map.2 ⟨p, hp, rfl⟩⟩

theorem interpN_add : ∀ (mesh : List (List Rat)) (f f' : List Rat → Rat) (x : List Rat),
    interpN mesh (fun p => f p + f' p) x = interpN mesh f x + interpN mesh f' x
  | [], _, _, [] => rfl
  | [], _, _, _ :: _ => by simp [interpN]
  | _ :: _, _, _, [] => by simp [interpN]
  | ns :: rest, f, f', x :: xs => by
      unfold interpN
      rw [← interp1_add]
      apply interp1_congr
      intro t _
      exact interpN_add rest (fun y => f (t :: y)) (fun y => f' (t :: y)) xs

theorem interpN_smul (α : Rat) : ∀ (mesh : List (List Rat)) (f : List Rat → Rat) (x : List Rat),
    interpN mesh (fun p => α * f p) x = α * interpN mesh f x
  | [], _, [] => rfl
  | [], _, _ :: _ => by simp [interpN]
  | _ :: _, _, [] => by simp [interpN]
  | ns :: rest, f, x :: xs => by
      unfold interpN
      rw [← interp1_smul]
      apply interp1_congr
      intro t _
      exact interpN_smul α rest (fun y => f (t :: y)) xs

/-- two meshes that agree in every axis, or have `x`'s coordinate as a node of both axes, give the same
interpolated value at `x` -/
def MeshAgree : List (List Rat) → List (List Rat) → List Rat → Prop
  | [], [], [] => True
  | ns :: rest, ns' :: rest', x :: xs =>
      (ns = ns' ∨ (ns.Pairwise (· < ·) ∧ ns'.Pairwise (· < ·) ∧ x ∈ ns ∧ x ∈ ns')) ∧ MeshAgree rest rest' xs
  | _, _, _ => False

theorem interpN_meshAgree : ∀ (mesh mesh' : List (List Rat)) (f : List Rat → Rat) (x : List Rat),
    MeshAgree mesh mesh' x → interpN mesh f x = interpN mesh' f x
  | [], [], _, [], _ => rfl
  | ns :: rest, ns' :: rest', f, x :: xs, h => by
      obtain ⟨h1, h2⟩ := h
      unfold interpN
      rcases h1 with rfl | ⟨hs, hs', hx, hx'⟩
      · apply interp1_congr
        intro t _
        exact interpN_meshAgree rest rest' _ xs h2
      · rw [interp1_exact _ ns hs x hx, interp1_exact _ ns' hs' x hx']
        exact interpN_meshAgree rest rest' _ xs h2
  | [], [], _, _ :: _, h => by simp [MeshAgree] at h
  | [], _ :: _, _, _, h => by simp [MeshAgree] at h
  | _ :: _, [], _, _, h => by simp [MeshAgree] at h
  | _ :: _, _ :: _, _, [], h => by simp [MeshAgree] at h

end SparseSpace
