import SparseSpace.Lemmas.RefTreeTiling
/-!
# The initial refinement structure (`initialize_refinement`): tiling, complete tree of depth `lmax`,
coarsening levels
-/
namespace SparseSpace

/-- `initialize_refinement` as one recursion producing the objects directly -/
def initIvals : Nat → Nat → Nat → Rat → Rat → Nat → Nat → Nat → List Ival
  | 0, _, _, p1, p2, lo, hi, _ => [⟨p1, p2, lo, hi, 0⟩]
  | f+1, i1, i2, p1, p2, lo, hi, level =>
    if i1 + 1 ≥ i2 then [⟨p1, p2, lo, hi, 0⟩] else
    let i := (i1 + i2) / 2
    let m := (p1 + p2) / 2
    initIvals f i1 i p1 m lo (level + 1) (level + 1) ++ initIvals f i i2 m p2 (level + 1) hi (level + 1)

theorem initPoints_length : ∀ (f i1 i2 : Nat) (p1 p2 : Rat) (level : Nat),
    (initPoints f i1 i2 p1 p2).length = (initLevels f i1 i2 level).length
  | 0, _, _, _, _, _ => rfl
  | f+1, i1, i2, p1, p2, level => by
    simp only [initPoints, initLevels]
    by_cases h : i1 + 1 ≥ i2
    · simp [h]
    · simp only [h, if_false, List.length_append, List.length_cons, List.length_nil]
      rw [initPoints_length f i1 _ p1 _ (level + 1), initPoints_length f _ i2 _ p2 (level + 1)]

theorem mkIvals_append : ∀ (P : List Rat) (L : List Nat) (m : Rat) (lm : Nat) (Q : List Rat) (M : List Nat),
    P.length = L.length →
    mkIvals (P ++ [m] ++ Q) (L ++ [lm] ++ M) = mkIvals (P ++ [m]) (L ++ [lm]) ++ mkIvals ([m] ++ Q) ([lm] ++ M)
  | [], [], m, lm, Q, M, _ => by
    simp only [List.nil_append]
    have : mkIvals [m] [lm] = [] := by simp [mkIvals]
    rw [this, List.nil_append]
  | [], _ :: _, _, _, _, _, h => by simp at h
  | _ :: _, [], _, _, _, _, h => by simp at h
  | [p], [l], m, lm, Q, M, _ => by
    cases Q <;> cases M <;> simp [mkIvals]
  | [_], _ :: _ :: _, _, _, _, _, h => by simp at h
  | _ :: _ :: _, [_], _, _, _, _, h => by simp at h
  | p :: q :: ps, l :: l2 :: ls, m, lm, Q, M, h => by
    have ih := mkIvals_append (q :: ps) (l2 :: ls) m lm Q M (by simpa using h)
    simp only [List.cons_append] at ih ⊢
    simp only [mkIvals]
    rw [ih]; simp

theorem mk_eq_init : ∀ (f i1 i2 : Nat) (p1 p2 : Rat) (lo hi level : Nat),
    mkIvals ([p1] ++ initPoints f i1 i2 p1 p2 ++ [p2]) ([lo] ++ initLevels f i1 i2 level ++ [hi])
      = initIvals f i1 i2 p1 p2 lo hi level
  | 0, _, _, _, _, _, _, _ => by simp [initPoints, initLevels, initIvals, mkIvals]
  | f+1, i1, i2, p1, p2, lo, hi, level => by
    simp only [initPoints, initLevels, initIvals]
    by_cases h : i1 + 1 ≥ i2
    · simp [h, mkIvals]
    · simp only [h, if_false]
      have e1 : [p1] ++ (initPoints f i1 ((i1 + i2) / 2) p1 ((p1 + p2) / 2) ++ [(p1 + p2) / 2] ++
            initPoints f ((i1 + i2) / 2) i2 ((p1 + p2) / 2) p2) ++ [p2]
          = ([p1] ++ initPoints f i1 ((i1 + i2) / 2) p1 ((p1 + p2) / 2)) ++ [(p1 + p2) / 2] ++
            (initPoints f ((i1 + i2) / 2) i2 ((p1 + p2) / 2) p2 ++ [p2]) := by simp
      have e2 : [lo] ++ (initLevels f i1 ((i1 + i2) / 2) (level + 1) ++ [level + 1] ++
            initLevels f ((i1 + i2) / 2) i2 (level + 1)) ++ [hi]
          = ([lo] ++ initLevels f i1 ((i1 + i2) / 2) (level + 1)) ++ [level + 1] ++
            (initLevels f ((i1 + i2) / 2) i2 (level + 1) ++ [hi]) := by simp
      rw [e1, e2, mkIvals_append _ _ _ _ _ _
        (by simp only [List.length_append, List.length_cons, List.length_nil]
            rw [initPoints_length f i1 _ p1 _ (level + 1)])]
      have := mk_eq_init f i1 ((i1 + i2) / 2) p1 ((p1 + p2) / 2) lo (level + 1) (level + 1)
      have := mk_eq_init f ((i1 + i2) / 2) i2 ((p1 + p2) / 2) p2 (level + 1) hi (level + 1)
      simp only [List.append_assoc] at *
      rw [‹mkIvals _ _ = initIvals f i1 _ _ _ _ _ _›, ‹mkIvals _ _ = initIvals f _ i2 _ _ _ _ _›]

theorem til_init : ∀ (f i1 i2 : Nat) (p1 p2 : Rat) (lo hi level : Nat), p1 < p2 →
    Til p1 lo p2 hi (initIvals f i1 i2 p1 p2 lo hi level)
  | 0, _, _, _, _, _, _, _, h => ⟨rfl, rfl, h, rfl, rfl⟩
  | f+1, i1, i2, p1, p2, lo, hi, level, h => by
    simp only [initIvals]
    by_cases hc : i1 + 1 ≥ i2
    · simp only [hc, if_true]; exact ⟨rfl, rfl, h, rfl, rfl⟩
    · simp only [hc, if_false]
      exact til_append _ (til_init f i1 _ p1 _ lo _ _ (by linarith)) (til_init f _ i2 _ p2 _ hi _ (by linarith))

theorem inner_init : ∀ (f i1 i2 : Nat) (p1 p2 : Rat) (lo hi level : Nat), p1 < p2 →
    innerLevels (initIvals f i1 i2 p1 p2 lo hi level) = initLevels f i1 i2 level
  | 0, _, _, _, _, _, _, _, _ => by simp [initIvals, initLevels, innerLevels]
  | f+1, i1, i2, p1, p2, lo, hi, level, h => by
    simp only [initIvals, initLevels]
    by_cases hc : i1 + 1 ≥ i2
    · simp [hc, innerLevels]
    · simp only [hc, if_false]
      have t1 := til_init f i1 ((i1 + i2) / 2) p1 ((p1 + p2) / 2) lo (level + 1) (level + 1) (by linarith)
      have t2 := til_init f ((i1 + i2) / 2) i2 ((p1 + p2) / 2) p2 (level + 1) hi (level + 1) (by linarith)
      rw [innerLevels_append _ (til_ne t2)]
      have : ∀ (seg : List Ival) {a : Rat} {lo : Nat} {b : Rat} {hi : Nat}, Til a lo b hi seg →
          seg.map (·.l1) = innerLevels seg ++ [hi] := by
        intro seg
        induction seg with
        | nil => intro a lo b hi h; exact absurd h (by simp [Til])
        | cons x xs ih =>
          intro a lo b hi h
          cases xs with
          | nil => obtain ⟨_, _, _, _, h5⟩ := h; simp [innerLevels, h5]
          | cons y ys =>
            obtain ⟨_, _, _, h4⟩ := h
            rw [innerLevels_cons_cons, List.map_cons, ih h4]; simp
      rw [this _ t1, inner_init f i1 _ p1 _ lo _ _ (by linarith), inner_init f _ i2 _ p2 _ hi _ (by linarith)]

/-- **the initial levels form a refinement tree** (for every index range, not only powers of two) -/
theorem tree_init : ∀ (f i1 i2 level : Nat), Tree level (initLevels f i1 i2 level)
  | 0, _, _, _ => Tree.nil _
  | f+1, i1, i2, level => by
    simp only [initLevels]
    by_cases hc : i1 + 1 ≥ i2
    · simp only [hc, if_true]; exact Tree.nil _
    · simp only [hc, if_false]
      exact Tree.node _ _ _ (tree_init f i1 _ (level + 1)) (tree_init f _ i2 (level + 1))

/-! ## the complete tree of depth `k` -/

def completeLevels : Nat → Nat → List Nat
  | 0, _ => []
  | k+1, level => completeLevels k (level + 1) ++ [level + 1] ++ completeLevels k (level + 1)

theorem two_pow_pos' (k : Nat) : 0 < 2 ^ k := Nat.pos_of_ne_zero (by simp)

theorem initLevels_complete : ∀ (k f i1 level : Nat), 2 ^ k ≤ f →
    initLevels f i1 (i1 + 2 ^ k) level = completeLevels k level
  | 0, f, i1, level, hf => by
    cases f with
    | zero => simp at hf
    | succ f => simp [initLevels, completeLevels]
  | k+1, f, i1, level, hf => by
    have hp := two_pow_pos' k
    have h2 : 2 ^ (k + 1) = 2 * 2 ^ k := by rw [Nat.pow_succ]; omega
    cases f with
    | zero => omega
    | succ f =>
      have hc : ¬ (i1 + 1 ≥ i1 + 2 ^ (k + 1)) := by omega
      have hmid : (i1 + (i1 + 2 ^ (k + 1))) / 2 = i1 + 2 ^ k := by omega
      simp only [initLevels, hc, if_false, hmid, completeLevels]
      have e : i1 + 2 ^ (k + 1) = (i1 + 2 ^ k) + 2 ^ k := by omega
      rw [initLevels_complete k f i1 (level + 1) (by omega), e,
        initLevels_complete k f (i1 + 2 ^ k) (level + 1) (by omega)]

/-- every pair of neighbours in the list has maximum `K` -/
def adjMax (K : Nat) : List Nat → Prop
  | x :: y :: r => max x y = K ∧ adjMax K (y :: r)
  | _ => True

theorem adjMax_append (K : Nat) : ∀ (A : List Nat) (m : Nat) (B : List Nat),
    adjMax K (A ++ [m]) → adjMax K (m :: B) → adjMax K (A ++ [m] ++ B)
  | [], m, B, _, h => by simpa using h
  | [x], m, B, h1, h2 => by
    simp only [List.cons_append, List.nil_append, adjMax] at h1 ⊢
    exact ⟨h1.1, h2⟩
  | x :: y :: r, m, B, h1, h2 => by
    simp only [List.cons_append, adjMax] at h1 ⊢
    exact ⟨h1.1, by simpa using adjMax_append K (y :: r) m B (by simpa using h1.2) h2⟩

theorem adjMax_complete : ∀ (k lo hi level : Nat), max lo hi = level →
    adjMax (level + k) ([lo] ++ completeLevels k level ++ [hi])
  | 0, lo, hi, level, h => by simp [completeLevels, adjMax, h]
  | k+1, lo, hi, level, h => by
    have h1 := adjMax_complete k lo (level + 1) (level + 1) (by omega)
    have h2 := adjMax_complete k (level + 1) hi (level + 1) (by omega)
    have e : level + 1 + k = level + (k + 1) := by omega
    rw [e] at h1 h2
    have := adjMax_append (level + (k + 1)) ([lo] ++ completeLevels k (level + 1)) (level + 1)
      (completeLevels k (level + 1) ++ [hi]) h1 (by simpa using h2)
    simpa [completeLevels] using this

theorem mkIvals_props (K : Nat) : ∀ (P : List Rat) (L : List Nat), adjMax K L →
    ∀ x ∈ mkIvals P L, x.c = 0 ∧ max x.l0 x.l1 = K
  | [], _, _ => by simp [mkIvals]
  | [_], _, _ => by simp [mkIvals]
  | _ :: _ :: _, [], _ => by simp [mkIvals]
  | _ :: _ :: _, [_], _ => by simp [mkIvals]
  | p :: q :: ps, l :: m :: ls, h => by
    simp only [adjMax] at h
    intro x hx
    simp only [mkIvals, List.mem_cons] at hx
    rcases hx with rfl | hx
    · exact ⟨rfl, h.1⟩
    · exact mkIvals_props K (q :: ps) (m :: ls) h.2 x hx

/-- **`valid_init`**: the initial object list of a dimension tiles `[a, b]`, its levels form the (complete)
refinement tree, every object has coarsening level `0 = lmax - max(levels)` -/
theorem initObjs_wf (maxv : Nat) (a b : Rat) (hab : a < b) :
    Til a 0 b 0 (initObjs maxv a b) ∧ Tree 0 (innerLevels (initObjs maxv a b)) ∧
    (∀ x ∈ initObjs maxv a b, x.c = 0 ∧ max x.l0 x.l1 = maxv) ∧
    innerLevels (initObjs maxv a b) = completeLevels maxv 0 := by
  unfold initObjs
  simp only []
  refine ⟨?_, ?_, ?_, ?_⟩
  · rw [mk_eq_init]; exact til_init _ _ _ _ _ _ _ _ hab
  · rw [mk_eq_init, inner_init _ _ _ _ _ _ _ _ hab]; exact tree_init _ _ _ _
  · have hc : initLevels (2 ^ maxv) 0 (2 ^ maxv) 0 = completeLevels maxv 0 := by
      have := initLevels_complete maxv (2 ^ maxv) 0 0 (Nat.le_refl _)
      simpa using this
    rw [hc]
    have := adjMax_complete maxv 0 0 0 rfl
    simp only [Nat.zero_add] at this
    exact mkIvals_props maxv _ _ this
  · rw [mk_eq_init, inner_init _ _ _ _ _ _ _ _ hab]
    have := initLevels_complete maxv (2 ^ maxv) 0 0 (Nat.le_refl _)
    simpa using this

end SparseSpace
