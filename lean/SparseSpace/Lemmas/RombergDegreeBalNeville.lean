import SparseSpace.Lemmas.RombergDegreeFullPoly
/-!
# Composite midpoint sums and the Neville (Romberg) table on numbers (C11, balanced grid, degree clause)

* `cellMid f j x W`: composite midpoint sum with `2^j` cells; `cellMid = 2 · cellTrap (j+1) - cellTrap j`, so the exact
  Euler–Maclaurin expansion of the trapezoid sums of `t^p` (`cellTrap_monomial_unit`) gives the one of the midpoint sums:
  `M_j(t^p) = Σ_{i ≤ p} γ_i (2·(1/2)^i - 1) · ((1/2)^j)^i`, odd coefficients vanish.
* `nevStep`, `nextColQ`, `tableQ`: the Romberg table of `BalancedExtrapolationGrid` on numbers.  If the entries of a
  column are `Σ_i β_i ((1/2)^t)^i` (`t` = row index), the extrapolation step `k` multiplies `β_i` by
  `φ_k(i) = (1 - c_k) + c_k 2^i`, `c_k = -1/(4^k - 1)`, which vanishes at `i = 2k` and is `1` at `i = 0`: after `m-1` steps
  the coefficients of `h^2, …, h^{2(m-1)}` are gone.
-/
namespace SparseSpace.Romberg
open Finset

/-- composite midpoint sum with `2^j` cells on `[x, x + W]` -/
def cellMid (f : ℚ → ℚ) : ℕ → ℚ → ℚ → ℚ
  | 0, x, W => W * f (x + W / 2)
  | j + 1, x, W => cellMid f j x (W / 2) + cellMid f j (x + W / 2) (W / 2)

theorem cellTrap_succ (f : ℚ → ℚ) (k : ℕ) (y V : ℚ) :
    cellTrap f (k + 1) y V = cellTrap f k y (V / 2) + cellTrap f k (y + V / 2) (V / 2) := rfl

/-- `M_j = 2 T_{j+1} - T_j` -/
theorem cellMid_eq (f : ℚ → ℚ) (j : ℕ) (x W : ℚ) :
    cellMid f j x W = 2 * cellTrap f (j + 1) x W - cellTrap f j x W := by
  induction j generalizing x W with
  | zero =>
    simp only [cellMid, cellTrap]
    have : x + W / 2 + W / 2 = x + W := by ring
    rw [this]; ring
  | succ j ih =>
    simp only [cellMid, ih]
    rw [cellTrap_succ f (j + 1) x W, cellTrap_succ f j x W]
    ring

theorem cellMid_linear (s : Finset ℕ) (c : ℕ → ℚ) (g : ℕ → ℚ → ℚ) (j : ℕ) (x W : ℚ) :
    cellMid (fun y => ∑ n ∈ s, c n * g n y) j x W = ∑ n ∈ s, c n * cellMid (g n) j x W := by
  rw [cellMid_eq, cellTrap_linear, cellTrap_linear]
  simp only [cellMid_eq]
  rw [Finset.mul_sum, ← Finset.sum_sub_distrib]
  refine Finset.sum_congr rfl fun n _ => by ring

theorem cellMid_shift (n j : ℕ) (x W : ℚ) :
    cellMid (fun y => (y - x) ^ n) j x W = W ^ (n + 1) * cellMid (fun t => t ^ n) j 0 1 := by
  rw [cellMid_eq, cellMid_eq, cellTrap_shift, cellTrap_shift]
  ring

theorem cellMid_one (j : ℕ) : cellMid (fun t : ℚ => t ^ 0) j 0 1 = 1 := by
  rw [cellMid_eq, cellTrap_one, cellTrap_one]; norm_num

/-- exact Euler–Maclaurin expansion of the midpoint sums of `t^p` on `[0,1]`, `p ≥ 1` -/
theorem cellMid_monomial_unit (p j : ℕ) (hp : 1 ≤ p) :
    cellMid (fun t => t ^ p) j 0 1
      = ∑ i ∈ range (p + 1), (gam p i * (2 * (1 / 2) ^ i - 1)) * ((1 / 2 : ℚ) ^ j) ^ i := by
  rw [cellMid_eq, cellTrap_monomial_unit p (j + 1) hp, cellTrap_monomial_unit p j hp, Finset.mul_sum,
    ← Finset.sum_sub_distrib]
  refine Finset.sum_congr rfl fun i _ => ?_
  have h1 : (1 : ℚ) / 2 ^ (j + 1) = (1 / 2) * (1 / 2) ^ j := by rw [one_div_pow, pow_succ]; ring
  have h2 : (1 : ℚ) / 2 ^ j = (1 / 2) ^ j := by rw [one_div_pow]
  rw [h1, h2, mul_pow]
  ring

/-! ## the Neville table on numbers -/

/-- `extrapolate_dicts_one_step` on the quadrature sums -/
def nevStep (left top : ℚ) (k : ℕ) : ℚ :=
  (1 - (-1) / ((4 : ℚ) ^ k - 1)) * left + (-1) / ((4 : ℚ) ^ k - 1) * top

def nextColQ (j : ℕ) : List ℚ → List ℚ
  | top :: left :: rest => nevStep left top j :: nextColQ j (left :: rest)
  | _ => []

def tableQ : ℕ → ℕ → List ℚ → List ℚ
  | 0, _, col => col
  | n + 1, j, col => tableQ n (j + 1) (nextColQ j col)

/-- `Σ_{i ≤ P} β_i · ((1/2)^t)^i` -/
def expan (P : ℕ) (β : ℕ → ℚ) (t : ℕ) : ℚ := ∑ i ∈ range (P + 1), β i * ((1 / 2 : ℚ) ^ t) ^ i

def phi (j i : ℕ) : ℚ := (1 - (-1) / ((4 : ℚ) ^ j - 1)) + (-1) / ((4 : ℚ) ^ j - 1) * 2 ^ i

/-- column whose entries are the expansions at the rows `s, s+1, …, s+n-1` -/
def colOf (P : ℕ) (β : ℕ → ℚ) : ℕ → ℕ → List ℚ
  | _, 0 => []
  | s, n + 1 => expan P β s :: colOf P β (s + 1) n

theorem nevStep_expan (P : ℕ) (β : ℕ → ℚ) (s j : ℕ) :
    nevStep (expan P β (s + 1)) (expan P β s) j = expan P (fun i => β i * phi j i) (s + 1) := by
  simp only [nevStep, expan, Finset.mul_sum]
  rw [← Finset.sum_add_distrib]
  refine Finset.sum_congr rfl fun i _ => ?_
  have hw : (1 / 2 : ℚ) ^ s = 2 * (1 / 2) ^ (s + 1) := by rw [pow_succ]; ring
  rw [hw, mul_pow]
  simp only [phi]
  ring

theorem nextColQ_colOf (P : ℕ) (β : ℕ → ℚ) (j n : ℕ) : ∀ s : ℕ,
    nextColQ j (colOf P β s (n + 1)) = colOf P (fun i => β i * phi j i) (s + 1) n := by
  induction n with
  | zero => intro s; simp [colOf, nextColQ]
  | succ n ih =>
    intro s
    have := ih (s + 1)
    simp only [colOf, nextColQ] at this ⊢
    rw [nevStep_expan, this]

/-- the coefficient functions after `n` extrapolation steps starting with step `j` -/
def elim : ℕ → ℕ → (ℕ → ℚ) → (ℕ → ℚ)
  | 0, _, β => β
  | n + 1, j, β => elim n (j + 1) (fun i => β i * phi j i)

theorem tableQ_colOf (P : ℕ) (k : ℕ) : ∀ (n j : ℕ) (β : ℕ → ℚ) (s : ℕ),
    tableQ n j (colOf P β s (n + k)) = colOf P (elim n j β) (s + n) k := by
  intro n
  induction n with
  | zero => intro j β s; simp [tableQ, elim]
  | succ n ih =>
    intro j β s
    have e1 : n + 1 + k = (n + k) + 1 := by omega
    have e2 : s + (n + 1) = s + 1 + n := by omega
    rw [e1, e2, tableQ, nextColQ_colOf, ih, elim]

theorem elim_zero (i : ℕ) : ∀ (n j : ℕ) (β : ℕ → ℚ), β i = 0 → elim n j β i = 0 := by
  intro n
  induction n with
  | zero => intro j β h; exact h
  | succ n ih =>
    intro j β h
    simp only [elim]
    exact ih (j + 1) _ (by simp [h])

theorem phi_zero (j : ℕ) : phi j 0 = 1 := by simp only [phi, pow_zero]; ring

theorem phi_kill (j : ℕ) (hj : 1 ≤ j) : phi j (2 * j) = 0 := by
  have h4 : (1 : ℚ) < 4 ^ j := one_lt_pow₀ (by norm_num) (by omega)
  have hne : (4 : ℚ) ^ j - 1 ≠ 0 := by linarith
  have e : (2 : ℚ) ^ (2 * j) = 4 ^ j := by rw [pow_mul]; norm_num
  simp only [phi, e]
  field_simp
  ring

theorem elim_const : ∀ (n j : ℕ) (β : ℕ → ℚ), elim n j β 0 = β 0 := by
  intro n
  induction n with
  | zero => intro j β; rfl
  | succ n ih => intro j β; simp only [elim]; rw [ih]; simp [phi_zero]

/-- the steps `j, …, j+n-1` remove the powers `h^{2j}, …, h^{2(j+n-1)}` -/
theorem elim_kill (r : ℕ) : ∀ (n j : ℕ) (β : ℕ → ℚ), 1 ≤ j → j ≤ r → r < j + n → elim n j β (2 * r) = 0 := by
  intro n
  induction n with
  | zero => intro j β _ h1 h2; omega
  | succ n ih =>
    intro j β hj h1 h2
    simp only [elim]
    by_cases hr : r = j
    · subst hr
      exact elim_zero _ n (r + 1) _ (by simp [phi_kill r hj])
    · exact ih (j + 1) _ (by omega) (by omega) (by omega)

/-- **the last entry of the table**: if the `m ≥ 1` rows are `Σ_{i ≤ P} β_i ((1/2)^t)^i`, `t = 0..m-1`, with vanishing
    odd coefficients and `P ≤ 2m-1`, the entry in the last column is `β_0` -/
theorem neville_value (P : ℕ) (β : ℕ → ℚ) (m : ℕ) (hm : 1 ≤ m) (hodd : ∀ i, Odd i → β i = 0) (hP : P ≤ 2 * m - 1) :
    (tableQ (m - 1) 1 (colOf P β 0 m)).getLast? = some (β 0) := by
  obtain ⟨k, rfl⟩ : ∃ k, m = k + 1 := ⟨m - 1, by omega⟩
  have e : k + 1 - 1 = k := by omega
  rw [e, tableQ_colOf P 1 k 1 β 0]
  simp only [colOf, List.getLast?_singleton, Option.some.injEq, expan]
  have hterm : ∀ i ∈ range (P + 1), elim k 1 β i * ((1 / 2 : ℚ) ^ (0 + k)) ^ i = if i = 0 then β 0 else 0 := by
    intro i hi
    have hiP : i ≤ P := by have := mem_range.mp hi; omega
    by_cases h0 : i = 0
    · subst h0; simp [elim_const]
    · rw [if_neg h0]
      rcases Nat.even_or_odd i with ⟨r, hr⟩ | ho
      · have : i = 2 * r := by omega
        rw [this, elim_kill r k 1 β (le_refl 1) (by omega) (by omega), zero_mul]
      · rw [elim_zero i k 1 β (hodd i ho), zero_mul]
  rw [Finset.sum_congr rfl hterm, Finset.sum_ite_eq' (range (P + 1)) 0, if_pos (mem_range.mpr (by omega))]

theorem colOf_eq_map (P : ℕ) (β : ℕ → ℚ) (n : ℕ) : ∀ s : ℕ,
    colOf P β s n = (List.range n).map (fun i => expan P β (s + i)) := by
  induction n with
  | zero => intro s; rfl
  | succ n ih =>
    intro s
    rw [colOf, ih (s + 1), List.range_succ_eq_map, List.map_cons, List.map_map]
    congr 1
    apply List.map_congr_left
    intro i _
    simp only [Function.comp]
    congr 1; omega

/-- the table applied to the midpoint sums of a shifted monomial of degree `n ≤ 2m-1`: the last entry is the exact
    integral `W^(n+1)/(n+1)` -/
theorem neville_shift_monomial (m : ℕ) (hm : 1 ≤ m) (n : ℕ) (hn : n ≤ 2 * m - 1) (x W : ℚ) :
    (tableQ (m - 1) 1 ((List.range m).map (fun i => cellMid (fun y => (y - x) ^ n) i x W))).getLast?
      = some (W ^ (n + 1) / ((n : ℚ) + 1)) := by
  by_cases h0 : n = 0
  · subst h0
    have hrows : (List.range m).map (fun i => cellMid (fun y => (y - x) ^ 0) i x W)
        = colOf 0 (fun i => if i = 0 then W else 0) 0 m := by
      rw [colOf_eq_map]
      apply List.map_congr_left
      intro i _
      rw [cellMid_shift, cellMid_one]
      simp [expan]
    rw [hrows, neville_value 0 (fun i => if i = 0 then W else 0) m hm (fun i hi => by
      have : i ≠ 0 := by rintro rfl; simp at hi
      simp [this]) (by omega)]
    simp
  · have hn1 : 1 ≤ n := by omega
    set β : ℕ → ℚ := fun i => W ^ (n + 1) * (gam n i * (2 * (1 / 2) ^ i - 1)) with hβ
    have hrows : (List.range m).map (fun i => cellMid (fun y => (y - x) ^ n) i x W) = colOf n β 0 m := by
      rw [colOf_eq_map]
      apply List.map_congr_left
      intro i _
      rw [cellMid_shift, cellMid_monomial_unit n i hn1, expan, Finset.mul_sum, Nat.zero_add]
      refine Finset.sum_congr rfl fun t _ => by simp only [hβ]; ring
    rw [hrows, neville_value n β m hm (fun i hi => by simp only [hβ]; rw [gam_odd n i hi]; ring) hn]
    simp only [hβ, gam_zero]
    congr 1
    norm_num
    ring

end SparseSpace.Romberg
