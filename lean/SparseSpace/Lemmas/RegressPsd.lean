import SparseSpace.Lemmas.RegressTensor
import Mathlib.Data.List.Nodup
/-!
# Lemmas about `Model/Regress`, part 7: the tensor-product form, its bridge to the list matrix, and
`MPsd (cMatrixU lv)` for every level vector
-/
namespace SparseSpace.Regress

/-- coefficient functions on multi-indices -/
abbrev CoefF := List Int → ℚ

/-- product kernel `Π_m g_m(r_m, s_m)` -/
def tprod : List (Int → Int → ℚ) → List Int → List Int → ℚ
  | g :: Gs, x :: r, y :: s => g x y * tprod Gs r s
  | _, _, _ => 1

/-- the bilinear form of the product kernel, dimension by dimension -/
def tform : List (List Int) → List (Int → Int → ℚ) → CoefF → CoefF → ℚ
  | L :: Ls, g :: Gs, u, u' =>
    (L.map fun x => (L.map fun y => g x y * tform Ls Gs (fun r => u (x :: r)) (fun s => u' (y :: s))).sum).sum
  | _, _, u, u' => u [] * u' []

theorem tform_add_left (Ls : List (List Int)) (Gs : List (Int → Int → ℚ)) (u v u' : CoefF) :
    tform Ls Gs (u + v) u' = tform Ls Gs u u' + tform Ls Gs v u' := by
  induction Ls generalizing Gs u v u' with
  | nil => simp [tform]; ring
  | cons L Ls ih =>
    cases Gs with
    | nil => simp [tform]; ring
    | cons g Gs =>
      simp only [tform]
      have : ∀ x : Int, (fun r => (u + v) (x :: r)) = (fun r => u (x :: r)) + (fun r => v (x :: r)) := by
        intro x; rfl
      simp only [this, ih, mul_add, List.sum_map_add]

theorem tform_symm (Ls : List (List Int)) (Gs : List (Int → Int → ℚ)) (hG : ∀ g ∈ Gs, ∀ a b, g a b = g b a)
    (u u' : CoefF) : tform Ls Gs u u' = tform Ls Gs u' u := by
  induction Ls generalizing Gs u u' with
  | nil => simp [tform]; ring
  | cons L Ls ih =>
    cases Gs with
    | nil => simp [tform]; ring
    | cons g Gs =>
      simp only [tform]
      rw [sum_swap]
      apply congrArg
      apply List.map_congr_left
      intro y _
      apply congrArg
      apply List.map_congr_left
      intro x _
      rw [hG g (by simp) x y, ih Gs (fun g' hg' => hG g' (by simp [hg']))]

/-- admissible factor: consecutive nodes with a stiffness-type or mass-type symmetric kernel -/
def GoodPair (L : List Int) (g : Int → Int → ℚ) : Prop :=
  (∃ k n, L = consec k n) ∧ (∃ c : ℚ, 0 ≤ c ∧ (Tri g (2 * c) (-c) ∨ Tri g (4 * c) c)) ∧ ∀ a b, g a b = g b a

theorem forall₂_right_mem {α β : Type} {R : α → β → Prop} {l : List α} {l' : List β} (h : List.Forall₂ R l l') :
    ∀ b ∈ l', ∃ a, R a b := by
  induction h with
  | nil => simp
  | cons hab _ ih =>
    intro b hb
    simp only [List.mem_cons] at hb
    rcases hb with rfl | hb
    · exact ⟨_, hab⟩
    · exact ih b hb

theorem tform_nonneg (Ls : List (List Int)) (Gs : List (Int → Int → ℚ)) (h : List.Forall₂ GoodPair Ls Gs) (u : CoefF) :
    0 ≤ tform Ls Gs u u := by
  induction h generalizing u with
  | nil => simp only [tform]; exact mul_self_nonneg _
  | @cons L g Ls Gs hp hrest ih =>
    have hsymm : ∀ g' ∈ Gs, ∀ a b, g' a b = g' b a := by
      intro g' hg'
      obtain ⟨L', hgp⟩ := forall₂_right_mem hrest g' hg'
      exact hgp.2.2
    let F : BForm CoefF :=
      { B := tform Ls Gs
        add_left := fun a b c => tform_add_left Ls Gs a b c
        symm := fun a b => tform_symm Ls Gs hsymm a b
        nonneg := ih }
    obtain ⟨⟨k, n, rfl⟩, ⟨c, hc, hT⟩, _⟩ := hp
    have key : tform (consec k n :: Ls) (g :: Gs) u u = qform F g (fun x => fun r => u (x :: r)) (consec k n) := rfl
    rw [key]
    rcases hT with hT | hT
    · exact qform_nonneg_stiff F _ hc hT k n
    · exact qform_nonneg_mass F _ hc hT k n

/-! ## bridge: the list matrix of a product kernel on a cross product of index lists -/

theorem sum_flatMap' {α β : Type} (l : List α) (f : α → List β) (h : β → ℚ) :
    ((l.flatMap f).map h).sum = (l.map fun a => ((f a).map h).sum).sum := by
  induction l with
  | nil => simp
  | cons a l ih => simp [List.flatMap_cons, ih]

/-- `Σ_{r ∈ cross Ls} u(r) · Σ_{s ∈ cross Ls} Π_m g_m(r_m,s_m) · u'(s)` -/
def sform (Ls : List (List Int)) (Gs : List (Int → Int → ℚ)) (u u' : CoefF) : ℚ :=
  ((cross Ls).map fun r => u r * ((cross Ls).map fun s => tprod Gs r s * u' s).sum).sum

theorem sform_eq_tform (Ls : List (List Int)) (Gs : List (Int → Int → ℚ)) (hl : Ls.length = Gs.length) (u u' : CoefF) :
    sform Ls Gs u u' = tform Ls Gs u u' := by
  induction Ls generalizing Gs u u' with
  | nil =>
    cases Gs with
    | nil => simp [sform, tform, cross, tprod]
    | cons g Gs => simp at hl
  | cons L Ls ih =>
    cases Gs with
    | nil => simp at hl
    | cons g Gs =>
      simp only [List.length_cons, Nat.add_right_cancel_iff] at hl
      simp only [tform]
      have hx : ∀ x y, tform Ls Gs (fun r => u (x :: r)) (fun s => u' (y :: s))
          = sform Ls Gs (fun r => u (x :: r)) (fun s => u' (y :: s)) := fun x y => (ih Gs hl _ _).symm
      simp only [hx]
      unfold sform
      simp only [cross, sum_flatMap', List.map_map, Function.comp_def, tprod]
      apply congrArg
      apply List.map_congr_left
      intro x _
      -- Σ_r u(x::r) * Σ_y Σ_s g x y * tprod r s * u'(y::s)  =  Σ_y g x y * Σ_r u(x::r) * Σ_s tprod r s * u'(y::s)
      have e1 : ∀ r : List Int,
          u (x :: r) * (L.map fun y => ((cross Ls).map fun s => g x y * tprod Gs r s * u' (y :: s)).sum).sum
          = (L.map fun y => g x y * (u (x :: r) * ((cross Ls).map fun s => tprod Gs r s * u' (y :: s)).sum)).sum := by
        intro r
        rw [← sum_map_mul_left']
        apply congrArg
        apply List.map_congr_left
        intro y _
        have : ((cross Ls).map fun s => g x y * tprod Gs r s * u' (y :: s))
            = ((cross Ls).map fun s => g x y * (tprod Gs r s * u' (y :: s))) := by
          apply List.map_congr_left; intro s _; ring
        rw [this, sum_map_mul_left']; ring
      simp only [e1]
      rw [sum_swap]
      apply congrArg
      apply List.map_congr_left
      intro y _
      rw [sum_map_mul_left']

theorem bil_map {α : Type} (f : α → α → ℚ) (idx : List α) (u u' : α → ℚ) :
    dot (idx.map u) (mulVec (full f idx) (idx.map u'))
      = (idx.map fun a => u a * (idx.map fun b => f a b * u' b).sum).sum := by
  have h1 : ∀ (l : List α) (p q : α → ℚ), dot (l.map p) (l.map q) = (l.map fun a => p a * q a).sum := by
    intro l p q
    induction l with
    | nil => simp
    | cons a l ih => simp [ih]
  have h2 : mulVec (full f idx) (idx.map u') = idx.map fun a => (idx.map fun b => f a b * u' b).sum := by
    simp only [full, mulVec, List.map_map, Function.comp_def]
    apply List.map_congr_left
    intro a _
    exact h1 idx (f a) u'
  rw [h2, h1]

/-- a formula that is a finite sum of formulas gives the sum of the bilinear forms -/
theorem bil_sum {α κ : Type} (K : List κ) (fk : κ → α → α → ℚ) (idx : List α) (u u' : α → ℚ) :
    (idx.map fun a => u a * (idx.map fun b => (K.map fun k => fk k a b).sum * u' b).sum).sum
      = (K.map fun k => (idx.map fun a => u a * (idx.map fun b => fk k a b * u' b).sum).sum).sum := by
  induction K with
  | nil => simp
  | cons k K ih =>
    simp only [List.map_cons, List.sum_cons, ← ih, add_mul, List.sum_map_add, mul_add]

/-! ## every vector on a duplicate-free index list is the table of a function -/

theorem exists_fun_of_nodup {α : Type} [DecidableEq α] (idx : List α) (hn : idx.Nodup) (v : Vec) (hv : v.length = idx.length) :
    ∃ u : α → ℚ, v = idx.map u := by
  induction idx generalizing v with
  | nil => cases v with
    | nil => exact ⟨fun _ => 0, rfl⟩
    | cons x v => simp at hv
  | cons a idx ih => cases v with
    | nil => simp at hv
    | cons x v =>
      simp only [List.length_cons, Nat.add_right_cancel_iff] at hv
      obtain ⟨u, hu⟩ := ih (List.nodup_cons.mp hn).2 v hv
      refine ⟨fun b => if b = a then x else u b, ?_⟩
      simp only [List.map_cons, if_true]
      congr 1
      rw [hu]
      apply List.map_congr_left
      intro b hb
      have : b ≠ a := fun e => (List.nodup_cons.mp hn).1 (e ▸ hb)
      simp [this]

theorem nodup_consec (k : Int) (n : Nat) : (consec k n).Nodup := by
  induction n generalizing k with
  | zero => simp [consec]
  | succ n ih =>
    simp only [consec, List.nodup_cons]
    refine ⟨?_, ih (k + 1)⟩
    intro h
    have := mem_consec_ge (k + 1) n k h
    omega

theorem nodup_cross {α : Type} (Ls : List (List α)) (h : ∀ L ∈ Ls, L.Nodup) : (cross Ls).Nodup := by
  induction Ls with
  | nil => simp [cross]
  | cons L Ls ih =>
    simp only [cross]
    rw [List.nodup_flatMap]
    constructor
    · intro x _
      exact (ih (fun L' hL' => h L' (by simp [hL']))).map (fun a b hab => by injection hab)
    · have hL := h L (by simp)
      refine List.Pairwise.imp ?_ hL
      intro a b hab
      simp only [Function.onFun, List.disjoint_left, List.mem_map]
      rintro r ⟨r1, _, rfl⟩ ⟨r2, _, h2⟩
      injection h2 with h3 _
      exact hab h3.symm

end SparseSpace.Regress

namespace SparseSpace.Regress

/-! ## assembly: `build_C_matrix` is positive semi-definite for every level vector -/

theorem lprod_cons (a : ℚ) (l : List ℚ) : lprod (a :: l) = a * lprod l := rfl

theorem lprod_eq_tprod (d : Nat) (Fm : Nat → Int → Int → ℚ) (iv jv : List Int) (hi : iv.length = d) (hj : jv.length = d) :
    lprod ((List.range d).map fun m => Fm m (iv.getD m 0) (jv.getD m 0)) = tprod ((List.range d).map Fm) iv jv := by
  induction d generalizing Fm iv jv with
  | zero => simp [lprod, tprod]
  | succ d ih =>
    cases iv with
    | nil => simp at hi
    | cons x r => cases jv with
      | nil => simp at hj
      | cons y s =>
        simp only [List.length_cons, Nat.add_right_cancel_iff] at hi hj
        rw [List.range_succ_eq_map]
        simp only [List.map_cons, List.map_map, Function.comp_def, lprod_cons, tprod, List.getD_cons_zero,
          List.getD_cons_succ, Nat.succ_eq_add_one]
        rw [← ih (fun m => Fm (m + 1)) r s hi hj]

/-- the 1-D kernel in dimension `m` of the `k`-th summand of `build_C_matrix` -/
def kernU (lv : List Nat) (k m : Nat) : Int → Int → ℚ :=
  if m == k then specS (meshW (lv.getD k 0)) else specM (meshW (lv.getD k 0))

theorem codeU_eq_tprod (lv : List Nat) (iv jv : List Int) (hi : iv.length = lv.length) (hj : jv.length = lv.length) :
    codeU lv iv jv = ((List.range lv.length).map fun k => tprod ((List.range lv.length).map (kernU lv k)) iv jv).sum := by
  unfold codeU
  apply congrArg
  apply List.map_congr_left
  intro k _
  rw [← lprod_eq_tprod lv.length (kernU lv k) iv jv hi hj]
  apply congrArg
  apply List.map_congr_left
  intro m _
  unfold kernU
  split <;> rfl

theorem goodPair_kernU (lv : List Nat) (k m : Nat) (n : Nat) : GoodPair (consec 1 n) (kernU lv k m) := by
  have hpos := meshW_pos (lv.getD k 0)
  have hne := hpos.ne'
  refine ⟨⟨1, n, rfl⟩, ?_, ?_⟩
  · unfold kernU
    split
    · refine ⟨1 / meshW (lv.getD k 0), by positivity, Or.inl ?_⟩
      have := tri_specS (meshW (lv.getD k 0))
      have e1 : 2 * (1 / meshW (lv.getD k 0)) = 2 / meshW (lv.getD k 0) := by ring
      have e2 : -(1 / meshW (lv.getD k 0)) = -1 / meshW (lv.getD k 0) := by ring
      rw [e1, e2]; exact this
    · refine ⟨meshW (lv.getD k 0) / 6, by positivity, Or.inr ?_⟩
      have := tri_specM (meshW (lv.getD k 0))
      have e1 : 4 * (meshW (lv.getD k 0) / 6) = 2 * meshW (lv.getD k 0) / 3 := by ring
      rw [e1]; exact this
  · unfold kernU
    split
    · exact specS_symm _
    · exact specM_symm _

theorem forall₂_map_range {α β γ : Type} (R : β → γ → Prop) (l : List α) (f : α → β) (G : Nat → γ)
    (h : ∀ a i, R (f a) (G i)) : List.Forall₂ R (l.map f) ((List.range l.length).map G) := by
  induction l generalizing G with
  | nil => simp
  | cons a l ih =>
    rw [List.length_cons, List.range_succ_eq_map]
    simp only [List.map_cons, List.map_map]
    exact List.Forall₂.cons (h a 0) (ih (G ∘ Nat.succ) (fun a i => h a _))

theorem indexList_eq_cross_consec (lv : List Nat) : indexList lv = cross (lv.map fun l => consec 1 (2 ^ l - 1)) := by
  unfold indexList
  congr 1
  apply List.map_congr_left
  intro l _
  exact range_map_eq_consec (2 ^ l - 1) 1

theorem length_of_mem_indexList (lv : List Nat) (iv : List Int) (h : iv ∈ indexList lv) : iv.length = lv.length :=
  ((mem_indexList lv iv).mp h).length_eq

/-- **the smoothing matrix of every uniform component grid is positive semi-definite** (any dimension, any levels) -/
theorem mpsd_cMatrixU (lv : List Nat) : MPsd (indexList lv).length (cMatrixU lv) := by
  intro v hv
  set Ls := lv.map fun l => consec 1 (2 ^ l - 1) with hLs
  have hidx : indexList lv = cross Ls := indexList_eq_cross_consec lv
  have hnd : (indexList lv).Nodup := by
    rw [hidx]
    apply nodup_cross
    intro L hL
    simp only [hLs, List.mem_map] at hL
    obtain ⟨l, _, rfl⟩ := hL
    exact nodup_consec _ _
  obtain ⟨u, rfl⟩ := exists_fun_of_nodup (indexList lv) hnd v hv
  rw [cMatrixU_eq_full]
  change 0 ≤ dot ((indexList lv).map u) (mulVec (full (codeU lv) (indexList lv)) ((indexList lv).map u))
  rw [bil_map]
  have e1 : ((indexList lv).map fun a => u a * ((indexList lv).map fun b => codeU lv a b * u b).sum).sum
      = ((indexList lv).map fun a => u a * ((indexList lv).map fun b =>
          ((List.range lv.length).map fun k => tprod ((List.range lv.length).map (kernU lv k)) a b).sum * u b).sum).sum := by
    apply congrArg
    apply List.map_congr_left
    intro a ha
    congr 1
    apply congrArg
    apply List.map_congr_left
    intro b hb
    rw [codeU_eq_tprod lv a b (length_of_mem_indexList lv a ha) (length_of_mem_indexList lv b hb)]
  rw [e1, bil_sum]
  apply List.sum_nonneg
  intro x hx
  simp only [List.mem_map, List.mem_range] at hx
  obtain ⟨k, _, rfl⟩ := hx
  have hs : ((indexList lv).map fun a => u a * ((indexList lv).map fun b =>
      tprod ((List.range lv.length).map (kernU lv k)) a b * u b).sum).sum
      = sform Ls ((List.range lv.length).map (kernU lv k)) u u := by
    unfold sform; rw [hidx]
  rw [hs, sform_eq_tform Ls _ (by simp [hLs])]
  apply tform_nonneg
  rw [hLs]
  exact forall₂_map_range GoodPair lv (fun l => consec 1 (2 ^ l - 1)) (kernU lv k)
    (fun l m => goodPair_kernU lv k m (2 ^ l - 1))

end SparseSpace.Regress
