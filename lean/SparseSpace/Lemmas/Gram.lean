import SparseSpace.Model.Gram
import Mathlib.Tactic.Ring
import Mathlib.Tactic.FieldSimp
import Mathlib.Tactic.Linarith
import Mathlib.Tactic.Positivity
import Mathlib.Algebra.Order.Field.Rat
/-! Helper lemmas for C16: hat functions and the code's antiderivative expressions. -/
namespace SparseSpace.Gram

theorem rabs_eq_abs (a : ℚ) : rabs a = |a| := by
  unfold rabs
  split_ifs with h
  · exact (abs_of_neg h).symm
  · exact (abs_of_nonneg (not_lt.mp h)).symm

theorem rmax_eq_max (a b : ℚ) : rmax a b = max a b := by
  unfold rmax
  split_ifs with h
  · exact (max_eq_right h.le).symm
  · exact (max_eq_left (not_lt.mp h)).symm

theorem rmin_eq_min (a b : ℚ) : rmin a b = min a b := by
  unfold rmin
  split_ifs with h
  · exact (min_eq_right h.le).symm
  · exact (min_eq_left (not_lt.mp h)).symm

/-! ### the code's antiderivatives -/

theorem integralCalc_diff (a b : ℚ) (h : a < b) :
    integralCalc b (1 / (b - a)) a b - integralCalc a (1 / (b - a)) a b = (b - a) / 6 := by
  have h' : b - a ≠ 0 := by linarith
  unfold integralCalc
  field_simp
  ring

theorem integral1_diff (lo p : ℚ) (h : lo < p) :
    integral1 p (1 / (p - lo)) p - integral1 lo (1 / (p - lo)) p = (p - lo) / 3 := by
  have h' : p - lo ≠ 0 := by linarith
  unfold integral1
  field_simp
  ring

theorem integral2_diff (p hi : ℚ) (h : p < hi) :
    integral2 hi (1 / (hi - p)) p - integral2 p (1 / (hi - p)) p = (hi - p) / 3 := by
  have h' : hi - p ≠ 0 := by linarith
  unfold integral2
  field_simp
  ring

/-- adjacent centres: the factor is a sixth of the distance -/
theorem rValue1_adj (I J : Hat1) (h : I.p ≠ J.p) : rValue1 I J = |I.p - J.p| / 6 := by
  unfold rValue1
  rw [if_pos h]
  simp only [rabs_eq_abs, rmin_eq_min, rmax_eq_max]
  rcases lt_or_gt_of_ne h with hlt | hgt
  · rw [min_eq_left hlt.le, max_eq_right hlt.le, abs_of_neg (by linarith : I.p - J.p < 0)]
    have := integralCalc_diff I.p J.p hlt
    rw [show -(I.p - J.p) = J.p - I.p by ring]
    exact this
  · rw [min_eq_right hgt.le, max_eq_left hgt.le, abs_of_pos (by linarith : 0 < I.p - J.p)]
    exact integralCalc_diff J.p I.p hgt

/-- same centre (and, on a tensor grid, the same support): a third of the support width -/
theorem rValue1_same (I J : Hat1) (hp : I.p = J.p) (hhi : J.hi = I.hi) (h1 : I.lo < I.p) (h2 : I.p < I.hi) :
    rValue1 I J = (I.p - I.lo) / 3 + (I.hi - I.p) / 3 := by
  unfold rValue1
  rw [if_neg (by simpa using hp)]
  have e1 : I.p ≠ I.lo := ne_of_gt h1
  have e2 : I.p ≠ J.hi := by rw [hhi]; exact ne_of_lt h2
  simp only [rabs_eq_abs]
  rw [if_pos e1, if_pos e2, ← hp, hhi, abs_of_pos (by linarith : 0 < I.p - I.lo), abs_of_pos (by linarith : 0 < I.hi - I.p)]
  rw [integral1_diff I.lo I.p h1, integral2_diff I.p I.hi h2]

end SparseSpace.Gram
