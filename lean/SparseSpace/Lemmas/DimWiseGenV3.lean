import SparseSpace.Lemmas.DimWiseGen
import Mathlib.Data.Rat.Floor
import Mathlib.Tactic.FieldSimp
import Mathlib.Tactic.Linarith
/-!
# Translator tie for the dimension-wise strategy, part 2: the rounding of version 3

The code computes `x = subtraction_value / dim` in floats and rounds `ceil(x) if x - int(x) > d / dim else int(x)`.
The translator models Python's `/` exactly (`Rat`), `int` as truncation towards zero and `math.ceil` as the rational
ceiling; this equals the hand model's exact reading `v3Exact` (integer `tdiv` / `tmod`).
-/
namespace SparseSpace
open SparseSpace.PyRt

theorem rat_floor_eq (x : ℚ) : x.floor = ⌊x⌋ := rfl

theorem rat_ceil_eq (x : ℚ) : x.ceil = ⌈x⌉ := by
  rw [Rat.ceil_eq_neg_floor_neg, rat_floor_eq, Int.floor_neg, neg_neg]

theorem tmod_nonpos_of_nonpos (a b : Int) (h : a ≤ 0) : a.tmod b ≤ 0 := by
  have h1 := Int.neg_tmod (-a) b
  rw [neg_neg] at h1
  have h2 : 0 ≤ (-a).tmod b := Int.tmod_nonneg b (by omega)
  omega

/-- the exact quotient as integer quotient plus remainder -/
theorem quot_split (sv : Int) (n : Nat) (hn : 1 ≤ n) :
    (sv : ℚ) / ((n : Int) : ℚ) = ((sv.tdiv n : Int) : ℚ) + ((sv.tmod n : Int) : ℚ) / ((n : Int) : ℚ) := by
  have hne : (((n : Int) : ℚ)) ≠ 0 := by
    have : (0 : ℚ) < ((n : Int) : ℚ) := by exact_mod_cast hn
    exact this.ne'
  have e := Int.mul_tdiv_add_tmod sv n
  have eq : (sv : ℚ) = ((n : Int) : ℚ) * ((sv.tdiv n : Int) : ℚ) + ((sv.tmod n : Int) : ℚ) := by exact_mod_cast e.symm
  field_simp
  linarith

theorem gen_trunc (sv : Int) (n : Nat) (hn : 1 ≤ n) : truncQ (trueDiv sv n) = sv.tdiv n := by
  have hpos : (0 : ℚ) < ((n : Int) : ℚ) := by exact_mod_cast hn
  have hnI : (0 : Int) < (n : Int) := by exact_mod_cast hn
  unfold truncQ trueDiv
  rw [quot_split sv n hn]
  by_cases hs : 0 ≤ sv
  · have r0 : 0 ≤ sv.tmod n := Int.tmod_nonneg _ hs
    have r1 : sv.tmod n < n := Int.tmod_lt_of_pos _ hnI
    have q0 : (0 : ℚ) ≤ ((sv.tmod n : Int) : ℚ) / ((n : Int) : ℚ) := div_nonneg (by exact_mod_cast r0) hpos.le
    have q1 : ((sv.tmod n : Int) : ℚ) / ((n : Int) : ℚ) < 1 := by
      rw [div_lt_one hpos]; exact_mod_cast r1
    have t0 : 0 ≤ sv.tdiv n := Int.tdiv_nonneg hs hnI.le
    have hx : (0 : ℚ) ≤ ((sv.tdiv n : Int) : ℚ) + ((sv.tmod n : Int) : ℚ) / ((n : Int) : ℚ) := by
      have : (0 : ℚ) ≤ ((sv.tdiv n : Int) : ℚ) := by exact_mod_cast t0
      linarith
    rw [if_pos hx, rat_floor_eq, Int.floor_eq_iff]
    constructor <;> linarith
  · have hs' : sv ≤ 0 := by omega
    have r0 : sv.tmod n ≤ 0 := tmod_nonpos_of_nonpos _ _ hs'
    have r1 : -(n : Int) < sv.tmod n := Int.lt_tmod_of_pos _ hnI
    have q0 : ((sv.tmod n : Int) : ℚ) / ((n : Int) : ℚ) ≤ 0 := div_nonpos_of_nonpos_of_nonneg (by exact_mod_cast r0) hpos.le
    have q1 : -1 < ((sv.tmod n : Int) : ℚ) / ((n : Int) : ℚ) := by
      rw [lt_div_iff₀ hpos]
      have : (-(n : Int) : ℚ) < ((sv.tmod n : Int) : ℚ) := by exact_mod_cast r1
      linarith
    have hlt : ((sv.tdiv n : Int) : ℚ) + ((sv.tmod n : Int) : ℚ) / ((n : Int) : ℚ) < 0 := by
      rw [← quot_split sv n hn]
      have : (sv : ℚ) < 0 := by exact_mod_cast (by omega : sv < 0)
      exact div_neg_of_neg_of_pos this hpos
    rw [if_neg (by linarith), rat_ceil_eq, Int.ceil_eq_iff]
    constructor <;> linarith

/-- **the rounding of version 3** in the generated code is `v3Exact` -/
theorem gen_v3 (sv : Int) (n d : Nat) (hn : 1 ≤ n) :
    (if decide (trueDiv sv n - ((truncQ (trueDiv sv n) : Int) : ℚ) > trueDiv d n) = true
      then ceilQ (trueDiv sv n) else truncQ (trueDiv sv n)) = v3Exact sv n d := by
  have hpos : (0 : ℚ) < ((n : Int) : ℚ) := by exact_mod_cast hn
  have hnI : (0 : Int) < (n : Int) := by exact_mod_cast hn
  rw [gen_trunc sv n hn]
  unfold v3Exact
  have hfrac : trueDiv sv n - ((sv.tdiv n : Int) : ℚ) = ((sv.tmod n : Int) : ℚ) / ((n : Int) : ℚ) := by
    unfold trueDiv; rw [quot_split sv n hn]; ring
  have hcond : (trueDiv sv n - ((sv.tdiv n : Int) : ℚ) > trueDiv d n) ↔ sv.tmod n > d := by
    rw [hfrac]; unfold trueDiv
    rw [gt_iff_lt, div_lt_div_iff_of_pos_right hpos]
    exact_mod_cast Iff.rfl
  by_cases hc : sv.tmod n > d
  · rw [if_pos (by simpa using hcond.mpr hc), if_pos hc]
    unfold ceilQ trueDiv
    rw [rat_ceil_eq, quot_split sv n hn, Int.ceil_eq_iff]
    have r1 : sv.tmod n < n := Int.tmod_lt_of_pos _ hnI
    have rpos : (0 : ℚ) < ((sv.tmod n : Int) : ℚ) := by
      have : (0 : Int) < sv.tmod n := by omega
      exact_mod_cast this
    have q0 : (0 : ℚ) < ((sv.tmod n : Int) : ℚ) / ((n : Int) : ℚ) := div_pos rpos hpos
    have q1 : ((sv.tmod n : Int) : ℚ) / ((n : Int) : ℚ) < 1 := by
      rw [div_lt_one hpos]; exact_mod_cast r1
    simp only [Int.cast_add, Int.cast_one]
    constructor <;> linarith
  · rw [if_neg (by simpa using fun h => hc (hcond.mp h)), if_neg hc]

end SparseSpace
