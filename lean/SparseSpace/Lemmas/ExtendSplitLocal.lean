import SparseSpace.Model.ExtendSplit
import SparseSpace.Lemmas.CombAlg
/-!
# Soundness of the executable validity check of a local combination (C07)

A grid point of an area whose level vector (per dimension: the coarsest level whose local grid contains the
coordinate) is `t` lies in the component grid of level `v` iff `t ≤ v`.  So the coefficients of the computed grids
containing the point sum to `domSum c t`, and the points of the area are those with `t` in the downward closure of
the support.  `localValid dim lmin c = true` implies the hypotheses of the combination lemma `comb_collapse` for
`J = inDown c`, hence coefficient sum 1 at every point of the area and reproduction of everything the component
operators agree on.
-/
namespace SparseSpace

theorem es_leAll_trans : ∀ a b c : LV, leAll a b = true → leAll b c = true → leAll a c = true
  | [], [], [], _, _ => rfl
  | [], [], _ :: _, _, h => by simp [leAll] at h
  | [], _ :: _, _, h, _ => by simp [leAll] at h
  | _ :: _, [], _, h, _ => by simp [leAll] at h
  | _ :: _, _ :: _, [], _, h => by simp [leAll] at h
  | x :: a, y :: b, z :: c, h1, h2 => by
      simp only [leAll, Bool.and_eq_true, decide_eq_true_eq] at h1 h2 ⊢
      exact ⟨le_trans h1.1 h2.1, es_leAll_trans a b c h1.2 h2.2⟩

theorem mem_belowList (lmin : Int) : ∀ (v t : LV), t.length = v.length → geAll lmin t → leAll t v = true →
    t ∈ belowList lmin v
  | [], [], _, _, _ => by simp [belowList]
  | [], _ :: _, h, _, _ => by simp at h
  | _ :: _, [], h, _, _ => by simp at h
  | y :: v, x :: t, hl, hg, hle => by
      simp only [leAll, Bool.and_eq_true, decide_eq_true_eq] at hle
      have hx : lmin ≤ x := hg x (List.mem_cons_self ..)
      have ih := mem_belowList lmin v t (by simpa using hl) (fun z hz => hg z (List.mem_cons_of_mem _ hz)) hle.2
      simp only [belowList, List.mem_flatMap, List.mem_range, List.mem_map]
      refine ⟨(x - lmin).toNat, by omega, t, ih, ?_⟩
      congr 1
      omega

theorem inDown_iff (c : List (LV × Int)) (t : LV) : inDown c t = true ↔ ∃ p ∈ c, leAll t p.1 = true := by
  simp [inDown, List.any_eq_true]

theorem domSum_eq_zero_of_not_inDown (c : List (LV × Int)) (t : LV) (h : inDown c t = false) : domSum c t = 0 := by
  unfold domSum
  have : c.filter (fun p => leAll t p.1) = [] := by
    rw [List.filter_eq_nil_iff]
    intro p hp hle
    have : inDown c t = true := (inDown_iff c t).2 ⟨p, hp, hle⟩
    rw [h] at this
    cases this
  rw [this]
  rfl

/-- what the executable check establishes -/
structure LocalValid (dim : Nat) (lmin : Int) (c : List (LV × Int)) : Prop where
  nonempty : c ≠ []
  shape : ∀ p ∈ c, p.1.length = dim ∧ geAll lmin p.1
  ident : ∀ t : LV, t.length = dim → geAll lmin t → domSum c t = if inDown c t = true then 1 else 0

theorem localValid_sound (dim : Nat) (lmin : Int) (c : List (LV × Int)) (h : localValid dim lmin c = true) :
    LocalValid dim lmin c := by
  simp only [localValid, Bool.and_eq_true, Bool.not_eq_true', List.all_eq_true, decide_eq_true_eq,
    beq_iff_eq] at h
  obtain ⟨⟨hne, hshape⟩, hchk⟩ := h
  have hshape' : ∀ p ∈ c, p.1.length = dim ∧ geAll lmin p.1 :=
    fun p hp => ⟨(hshape p hp).1, fun x hx => (hshape p hp).2 x hx⟩
  refine ⟨?_, hshape', ?_⟩
  · intro hc
    rw [hc] at hne
    simp at hne
  · intro t ht hmin
    by_cases hd : inDown c t = true
    · rw [if_pos hd]
      obtain ⟨p, hp, hle⟩ := (inDown_iff c t).1 hd
      exact hchk p hp t (mem_belowList lmin p.1 t (by rw [ht, (hshape' p hp).1]) hmin hle)
    · rw [if_neg hd]
      exact domSum_eq_zero_of_not_inDown c t (by simpa using hd)

/-- the downward closure of the support is downward closed -/
theorem inDown_down (c : List (LV × Int)) (a b : LV) (hle : leAll a b = true) (hb : inDown c b = true) :
    inDown c a = true := by
  obtain ⟨p, hp, hbp⟩ := (inDown_iff c b).1 hb
  exact (inDown_iff c a).2 ⟨p, hp, es_leAll_trans a b p.1 hle hbp⟩

/-- **a valid local combination collapses**: for every level `k` of a point of the area and every family `F` of
component results that only depends on `l ⊓ k` (e.g. `F l` = value at the point of the interpolant on the grid of
level `l`, or `[point ∈ grid l]`), the combination of the computed grids equals `F k`. -/
theorem LocalValid.collapse {V : Type} [AddCommGroup V] {dim : Nat} {lmin : Int} {c : List (LV × Int)}
    (h : LocalValid dim lmin c) (k : LV) (hk : k.length = dim) (hkmin : geAll lmin k) (hkJ : inDown c k = true)
    (F : LV → V) (hF : ∀ p ∈ c, F p.1 = F (meet p.1 k)) :
    (c.map fun p => p.2 • F p.1).sum = F k :=
  comb_collapse dim lmin c (fun t => inDown c t = true) h.shape
    (fun a b _ _ _ hle hb => inDown_down c a b hle hb) h.ident k hk hkmin hkJ F hF

/-- at every grid point of the area (level `k` in the downward closure of the support) the coefficients of the
computed grids that contain the point sum to 1 -/
theorem LocalValid.pointwise {dim : Nat} {lmin : Int} {c : List (LV × Int)} (h : LocalValid dim lmin c)
    (k : LV) (hk : k.length = dim) (hkmin : geAll lmin k) (hkJ : inDown c k = true) : domSum c k = 1 := by
  rw [h.ident k hk hkmin, if_pos hkJ]

/-- the coefficients of the computed grids sum to 1 -/
theorem LocalValid.total {dim : Nat} {lmin : Int} {c : List (LV × Int)} (h : LocalValid dim lmin c) :
    (c.map (·.2)).sum = 1 := by
  obtain ⟨p, hp⟩ := List.exists_mem_of_ne_nil c h.nonempty
  have hk := h.shape p hp
  have hJ : inDown c p.1 = true := (inDown_iff c p.1).2 ⟨p, hp, leAll_refl p.1⟩
  have := h.collapse (V := Int) p.1 hk.1 hk.2 hJ (fun _ => 1) (fun _ _ => rfl)
  simpa using this

/-- the identity is invariant under permutation of the list of computed grids -/
theorem es_domSum_perm {c c' : List (LV × Int)} (hp : c.Perm c') (t : LV) : domSum c t = domSum c' t := by
  unfold domSum
  exact ((hp.filter _).map _).sum_eq

end SparseSpace
