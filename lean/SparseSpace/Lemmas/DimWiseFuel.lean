import SparseSpace.Lemmas.DimWisePoints
/-!
# The `while True` loops of `get_subtraction_value` terminate in every well-formed state (C03)

`subValue_fuel_enough` needs `max_level ≥ 2`, `max_level ≤ lmax_d`, non-negative `max_coarsenings` and `dim ≥ 1`;
here these are derived from the state invariant `DWWF` of C06.
-/
namespace SparseSpace

theorem maxLevelScan_ge_init (own : Nat) : ∀ (L : List Nat) (ml : Nat), ml ≤ maxLevelScan own L ml
  | [], _ => Nat.le_refl _
  | t :: ts, ml => by
    simp only [maxLevelScan]
    split
    · omega
    · have := maxLevelScan_ge_init own ts (max ml t); omega

theorem maxLevelScan_ge_head (own t : Nat) (ts : List Nat) (ml : Nat) : t ≤ maxLevelScan own (t :: ts) ml := by
  simp only [maxLevelScan]
  split
  · omega
  · have := maxLevelScan_ge_init own ts (max ml t); omega

theorem maxLevelScan_le (own B : Nat) : ∀ (L : List Nat) (ml : Nat), (∀ t ∈ L, t ≤ B) → ml ≤ B →
    maxLevelScan own L ml ≤ B
  | [], _, _, h => h
  | t :: ts, ml, hL, h => by
    have ht := hL t (by simp)
    simp only [maxLevelScan]
    split
    · omega
    · exact maxLevelScan_le own B ts _ (fun u hu => hL u (by simp [hu])) (by omega)

theorem til_map_l0 : ∀ (seg : List Ival) {a : Rat} {lo : Nat} {b : Rat} {hi : Nat}, Til a lo b hi seg →
    seg.map (·.l0) = lo :: innerLevels seg
  | [], _, _, _, _, h => absurd h (by simp [Til])
  | [x], _, _, _, _, h => by
    obtain ⟨_, h2, _, _, _⟩ := h
    simp [innerLevels, h2]
  | x :: y :: xs, _, _, _, _, h => by
    obtain ⟨_, h2, _, h4⟩ := h
    have := til_map_l0 (y :: xs) h4
    rw [innerLevels_cons_cons, List.map_cons, this, h2]

/-- `get_max_level` in terms of the inner level list `L` of a tiling with end levels 0 -/
theorem maxLevel_eq (objs : List Ival) {a b : Rat} (ht : Til a 0 b 0 objs) (i : Nat) (hi : i < objs.length) :
    ∃ own, (innerLevels objs ++ [0])[i]? = some own ∧
      maxLevel objs i = maxLevelScan own ((innerLevels objs ++ [0]).drop (i + 1))
        (maxLevelScan own ((innerLevels objs).take i).reverse own) := by
  have h1 := til_map_l1 objs ht
  have h0 := til_map_l0 objs ht
  refine ⟨objs[i].l1, ?_, ?_⟩
  · rw [← h1, List.getElem?_map, List.getElem?_eq_getElem hi]; rfl
  · unfold maxLevel
    rw [List.getElem?_eq_getElem hi]
    simp only []
    have e1 : (objs.drop (i + 1)).map (·.l1) = (innerLevels objs ++ [0]).drop (i + 1) := by
      rw [List.map_drop, h1]
    have e2 : (((objs.take (i + 1)).drop 1).reverse).map (·.l0) = ((innerLevels objs).take i).reverse := by
      rw [List.map_reverse, List.map_drop, List.map_take, h0]
      simp
    rw [e1, e2]

/-- in a refinement tree with at least three inner points every point's `max_level` is at least 2 -/
theorem maxLevel_tree_ge_two (L : List Nat) (hT : Tree 0 L) (h3 : 3 ≤ L.length) (i : Nat) (own : Nat)
    (hown : (L ++ [0])[i]? = some own) :
    2 ≤ maxLevelScan own ((L ++ [0]).drop (i + 1)) (maxLevelScan own (L.take i).reverse own) := by
  have hne : L ≠ [] := by intro e; rw [e] at h3; simp at h3
  obtain ⟨L₁, L₂, eL, t₁, t₂⟩ := tree_inv hT hne
  have g₁ := tree_gt t₁
  have g₂ := tree_gt t₂
  have hlen : L.length = L₁.length + 1 + L₂.length := by
    rw [eL]; simp only [List.length_append, List.length_cons, List.length_nil]
  have hlast : ∀ (M : List Nat), M ≠ [] → (∀ x ∈ M, 1 < x) → ∃ t ts, M.reverse = t :: ts ∧ 2 ≤ t := by
    intro M hM hg
    cases hr : M.reverse with
    | nil => simp at hr; exact absurd hr hM
    | cons t ts =>
      refine ⟨t, ts, rfl, ?_⟩
      have : t ∈ M := by rw [← List.mem_reverse, hr]; simp
      have := hg t this; omega
  by_cases hown2 : 2 ≤ own
  · have h1 := maxLevelScan_ge_init own (L.take i).reverse own
    have h2 := maxLevelScan_ge_init own ((L ++ [0]).drop (i + 1)) (maxLevelScan own (L.take i).reverse own)
    omega
  · by_cases hiL : i < L.length
    · -- an inner point of level ≤ 1: the root
      have hget : L[i]? = some own := by
        rw [List.getElem?_append_left hiL] at hown; exact hown
      have hmem : own ∈ L := List.mem_of_getElem? hget
      have hown1 : own = 1 := by have := tree_gt hT own hmem; omega
      subst hown1
      have hi : i = L₁.length := by
        by_contra hne'
        rw [eL] at hget
        by_cases hlt : i < L₁.length
        · rw [List.append_assoc, List.getElem?_append_left hlt] at hget
          have := g₁ 1 (List.mem_of_getElem? hget); omega
        · have hgt : L₁.length + 1 ≤ i := by omega
          rw [List.getElem?_append_right (by simp; omega)] at hget
          have := g₂ 1 (List.mem_of_getElem? hget); omega
      subst hi
      by_cases hL₂ : L₂ = []
      · -- the left subtree is not empty
        have hL₁ : L₁ ≠ [] := by
          intro e; rw [e, hL₂] at hlen; simp at hlen; omega
        have htake : L.take L₁.length = L₁ := by
          rw [eL, List.append_assoc, List.take_left']
          rfl
        obtain ⟨t, ts, hr, ht2⟩ := hlast L₁ hL₁ (fun x hx => by have := g₁ x hx; omega)
        rw [htake, hr]
        have h1 := maxLevelScan_ge_head 1 t ts 1
        have h2 := maxLevelScan_ge_init 1 ((L ++ [0]).drop (L₁.length + 1)) (maxLevelScan 1 (t :: ts) 1)
        omega
      · have hdrop : (L ++ [0]).drop (L₁.length + 1) = L₂ ++ [0] := by
          rw [eL]
          have : L₁ ++ [0 + 1] ++ L₂ ++ [0] = (L₁ ++ [0 + 1]) ++ (L₂ ++ [0]) := by simp
          rw [this, List.drop_left']
          simp
        rw [hdrop]
        cases hL₂c : L₂ with
        | nil => exact absurd hL₂c hL₂
        | cons t ts =>
          have ht2 : 1 < t := g₂ t (by rw [hL₂c]; simp)
          have := maxLevelScan_ge_head 1 t (ts ++ [0]) (maxLevelScan 1 (L.take L₁.length).reverse 1)
          simp only [List.cons_append]
          omega
    · -- the right end point (level 0): the scan runs over all inner points from the right
      have hiN : i = L.length := by
        have : i < (L ++ [0]).length := by
          by_contra hh; rw [List.getElem?_eq_none (by omega)] at hown; simp at hown
        simp at this; omega
      subst hiN
      have hown0 : own = 0 := by
        rw [List.getElem?_append_right (Nat.le_refl _)] at hown
        simpa using hown.symm
      subst hown0
      have hdrop : (L ++ [0]).drop (L.length + 1) = [] := by
        apply List.drop_eq_nil_of_le; simp
      rw [hdrop, List.take_length]
      simp only [maxLevelScan]
      by_cases hL₂ : L₂ = []
      · have hL₁ : L₁ ≠ [] := by
          intro e; rw [e, hL₂] at hlen; simp at hlen; omega
        obtain ⟨t, ts, hr, ht2⟩ := hlast L₁ hL₁ (fun x hx => by have := g₁ x hx; omega)
        rw [eL, hL₂]
        simp only [List.append_nil, List.reverse_append, List.reverse_cons, List.reverse_nil, List.nil_append,
          List.singleton_append, hr]
        have e : ¬ (0 + 1 ≤ 0) := by omega
        simp only [maxLevelScan, e, if_false]
        exact le_trans ht2 (maxLevelScan_ge_head 0 t ts (max 0 (0 + 1)))
      · obtain ⟨t, ts, hr, ht2⟩ := hlast L₂ hL₂ (fun x hx => by have := g₂ x hx; omega)
        rw [eL]
        simp only [List.reverse_append, hr]
        have := le_trans ht2 (maxLevelScan_ge_head 0 t (ts ++ ([0 + 1].reverse ++ L₁.reverse)) 0)
        simpa using this

theorem maxCoarsening_nonneg (objs : List Ival) : 0 ≤ maxCoarsening objs := by
  unfold maxCoarsening
  have : ∀ (L : List Ival) (m : Int), m ≤ L.foldl (fun m x => max m x.c) m := by
    intro L
    induction L with
    | nil => intro m; exact le_refl _
    | cons x xs ih => intro m; simp only [List.foldl_cons]; exact le_trans (le_max_left _ _) (ih _)
  exact this objs 0

/-- **the loops behind every component grid end by `break`** in every well-formed state, for the versions
2, 3, 6, 7, 8 -/
theorem dimPoints_done (a b : List Rat) (lmax0 : Int) (st : DW) (h : DWWF a b lmax0 st) (cfg : PtCfg)
    (hv : cfg.version = 2 ∨ cfg.version = 3 ∨ cfg.version = 6 ∨ cfg.version = 7 ∨ cfg.version = 8)
    (d : Nat) (hd : d < st.dim) (l : Int) : st.dimPointsDone cfg d l = true := by
  have hdc : d < st.m.conts.length := by rw [h.lconts]; exact hd
  have hdl : d < st.lmax.length := by rw [h.llmax]; exact hd
  have hc := List.getElem?_eq_getElem hdc
  have hl := List.getElem?_eq_getElem hdl
  have g := h.geo d _ hc
  have co := h.coars d _ _ hd hc hl
  have hobjs : st.objsOf d = st.m.conts[d].objs := by
    unfold DW.objsOf; simp [List.getD, hc]
  have hlm : st.lmax.getD d 0 = st.lmax[d] := by simp [List.getD, hl]
  unfold DW.dimPointsDone
  simp only [hobjs, List.all_eq_true]
  intro p hp
  obtain ⟨x, i⟩ := p
  have hmz := List.mem_zipIdx hp
  have hi : i < st.m.conts[d].objs.length := by simpa using hmz.2.1
  have hpi : st.m.conts[d].objs[i]? = some x := by
    rw [List.getElem?_eq_getElem hi]
    have := hmz.2.2
    simp only [Nat.sub_zero] at this
    rw [this]
  unfold DW.keepAt
  simp only [hlm]
  apply subValue_fuel_enough _ _ _ _ _ _ _ _ _ hv h.dim_pos
  · -- max_coarsenings is not empty
    unfold DW.maxCoarsenings
    intro e
    have e' : st.m.conts = [] := by simpa using e
    rw [e'] at hdc; simp at hdc
  · intro c hc'
    unfold DW.maxCoarsenings at hc'
    obtain ⟨ct, _, rfl⟩ := List.mem_map.1 hc'
    exact maxCoarsening_nonneg _
  · -- max_level ≤ lmax_d : every level present is ≤ lmax_d
    have hB : ∀ y ∈ st.m.conts[d].objs, ((y.l0 : Nat) : Int) ≤ st.lmax[d] ∧ ((y.l1 : Nat) : Int) ≤ st.lmax[d] := by
      intro y hy
      have := co y hy
      constructor <;> omega
    have hlm0 : 0 ≤ st.lmax[d] := by
      have := hB x (List.mem_of_getElem? hpi); omega
    have hB' : ∀ y ∈ st.m.conts[d].objs, y.l0 ≤ st.lmax[d].toNat ∧ y.l1 ≤ st.lmax[d].toNat := by
      intro y hy; have := hB y hy; constructor <;> omega
    have : maxLevel st.m.conts[d].objs i ≤ st.lmax[d].toNat := by
      unfold maxLevel
      rw [hpi]
      simp only []
      apply maxLevelScan_le
      · intro t ht
        obtain ⟨y, hy, rfl⟩ := List.mem_map.1 ht
        exact (hB' y (List.mem_of_mem_drop hy)).2
      · apply maxLevelScan_le
        · intro t ht
          obtain ⟨y, hy, rfl⟩ := List.mem_map.1 ht
          rw [List.mem_reverse] at hy
          exact (hB' y (List.mem_of_mem_take (List.mem_of_mem_drop hy))).1
        · exact (hB' x (List.mem_of_getElem? hpi)).2
    omega
  · -- max_level ≥ 2
    obtain ⟨own, ho, he⟩ := maxLevel_eq _ g.til i hi
    rw [he]
    have h3 : 3 ≤ (innerLevels st.m.conts[d].objs).length := by
      rw [innerLevels_length]; have := g.len4; omega
    exact maxLevel_tree_ge_two _ g.tree h3 i own ho

end SparseSpace
