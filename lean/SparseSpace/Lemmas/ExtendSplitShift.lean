import SparseSpace.Lemmas.ExtendSplitCont
import SparseSpace.Lemmas.ExtendSplitV0
/-!
# The version-0 local combination depends only on `lmax - coarsening` (C07 → bridge for C05)

When an area of coarsening 0 is extended, the code raises `lmax` by one, replaces the global scheme by the one of the
new `lmax` and adds one to the coarsening value of every object of the container.  The values stored for the
untouched areas stay valid because what version 0 computes in an area is (a permutation of) the standard scheme of
level `lmax - coarsening`, which does not change (`computed_v0_shift`, `localValue_v0_shift`); and on the state level
every surviving leaf keeps its box and its `lmax - coarsening` (`refine_keeps_local_level`).
-/
namespace SparseSpace

/-- the local combination value of an area: `Σ coefficient • Q(coarsened level vector)` over the component grids the
pass of the code actually computes (`Q v` = result of the grid operation on the area with level vector `v`) -/
def localValue {V : Type} [AddCommGroup V] (version dim : Nat) (lmin lmax c : Int) (Q : LV → V) : V :=
  ((computed version dim lmin lmax c).map fun p => p.2 • Q p.1).sum

/-- raising `lmax` and the coarsening together does not change what version 0 computes (as a multiset of
`(coarsened level vector, coefficient)`; the order in which the grids are met differs in general) -/
theorem computed_v0_shift (dim : Nat) (lmin lmax c : Int) (k : Nat) (hd : 2 ≤ dim) (hc : 0 ≤ c) :
    (computed 0 dim lmin (lmax + k) (c + k)).Perm (computed 0 dim lmin lmax c) := by
  have h1 := computed_v0_perm_std dim lmin (lmax + k) (c + k) hd (by omega)
  have h2 := computed_v0_perm_std dim lmin lmax c hd hc
  have : lmax + (k : Int) - (c + k) = lmax - c := by ring
  rw [this] at h1
  exact h1.trans h2.symm

/-- hence the local combination value is the same, for every grid operation `Q` with values in a commutative group -/
theorem localValue_v0_shift {V : Type} [AddCommGroup V] (dim : Nat) (lmin lmax c : Int) (k : Nat) (hd : 2 ≤ dim)
    (hc : 0 ≤ c) (Q : LV → V) :
    localValue 0 dim lmin (lmax + k) (c + k) Q = localValue 0 dim lmin lmax c Q := by
  unfold localValue
  exact ((computed_v0_shift dim lmin lmax c k hd hc).map fun p => p.2 • Q p.1).sum_eq

/-- and it is the value of the standard combination of level `lmax - c` -/
theorem localValue_v0_eq_std {V : Type} [AddCommGroup V] (dim : Nat) (lmin lmax c : Int) (hd : 2 ≤ dim) (hc : 0 ≤ c)
    (Q : LV → V) :
    localValue 0 dim lmin lmax c Q = ((stdScheme dim lmin (lmax - c)).map fun p => p.2 • Q p.1).sum := by
  unfold localValue
  exact ((computed_v0_perm_std dim lmin lmax c hd hc).map fun p => p.2 • Q p.1).sum_eq

/-! ### the state level: `update_values` touches every object exactly once -/

theorem Forest.mapAreas_mapAreas (g h : ESArea → ESArea) : ∀ f : Forest,
    (f.mapAreas g).mapAreas h = f.mapAreas (h ∘ g)
  | .nil => rfl
  | .cons a ch sib => by
      simp only [Forest.mapAreas, Function.comp, Forest.mapAreas_mapAreas g h ch, Forest.mapAreas_mapAreas g h sib]

theorem Forest.mapAreas_congr (g h : ESArea → ESArea) (hgh : ∀ a, g a = h a) : ∀ f : Forest,
    f.mapAreas g = f.mapAreas h
  | .nil => rfl
  | .cons a ch sib => by
      simp only [Forest.mapAreas, hgh, Forest.mapAreas_congr g h hgh ch, Forest.mapAreas_congr g h hgh sib]

/-- `for r in refinementObjects: r.update(1)` on a container that lists every identity once = one `update` of exactly
the objects of the container -/
theorem bumpObjs_eq_map : ∀ (ids : List Nat) (f : Forest), ids.Nodup →
    bumpObjs f ids = f.mapAreas fun b => if b.id ∈ ids then b.bump else b
  | [], f, _ => by
      simp only [bumpObjs, List.foldl_nil, List.not_mem_nil, if_false]
      induction f with
      | nil => rfl
      | cons a ch sib ih1 ih2 => simp only [Forest.mapAreas, ← ih1, ← ih2]
  | i :: ids, f, hnd => by
      rw [List.nodup_cons] at hnd
      simp only [bumpObjs, List.foldl_cons]
      rw [show List.foldl _ _ ids = bumpObjs _ ids from rfl, bumpObjs_eq_map ids _ hnd.2, Forest.mapAreas_mapAreas]
      apply Forest.mapAreas_congr
      intro b
      simp only [Function.comp]
      by_cases hbi : b.id = i
      · have h1 : (b.id == i) = true := by simp [hbi]
        have h2 : b.bump.id ∉ ids := by simp only [ESArea.bump]; rw [hbi]; exact hnd.1
        have h3 : b.id ∈ i :: ids := by simp [hbi]
        rw [if_pos h1, if_neg h2, if_pos h3]
      · have h1 : ¬ (b.id == i) = true := by simp [hbi]
        rw [if_neg h1]
        by_cases hm : b.id ∈ ids
        · rw [if_pos hm, if_pos (List.mem_cons_of_mem _ hm)]
        · have : b.id ∉ i :: ids := by simp [hbi, hm]
          rw [if_neg hm, if_neg this]

/-- the two outcomes of `EState.refine` -/
theorem refine_cases (s : EState) (pos : Nat) (e : Bool) (dims : List Nat) :
    s.refine pos e dims = s ∨
    ∃ i a ch K n' r, s.objs[pos]? = some i ∧ s.forest.find? i = some (a, ch) ∧ ch.isNil = true ∧
      s.newChildren a e dims = some (K, n', r) ∧
      s.refine pos e dims =
        { s with lmax := if r = true then s.lmax + 1 else s.lmax,
                 forest := if r = true then bumpObjs (s.forest.attach i (s.mkOf e dims)) s.objs
                           else s.forest.attach i (s.mkOf e dims),
                 objs := s.objs ++ K.leaves.map (·.id), pop := s.pop ++ [pos], next := n' } := by
  unfold EState.refine
  split
  · exact Or.inl rfl
  · rename_i i hpos
    split
    · exact Or.inl rfl
    · rename_i a ch hfind
      by_cases hnil : ch.isNil = true
      swap
      · have hn' : (!ch.isNil) = true := by simp [hnil]
        simp only [hn', if_true]
        exact Or.inl (by first | rfl | trivial)
      · have hn' : (!ch.isNil) = false := by simp [hnil]
        simp only [hn', Bool.false_eq_true, if_false]
        split
        · exact Or.inl rfl
        · rename_i K n' r hnc
          exact Or.inr ⟨i, a, ch, K, n', r, hpos, hfind, hnil, hnc, rfl⟩

/-- **every leaf that survives a refinement step keeps its box and its `lmax - coarsening`** (the refined object is
replaced by its children, which carry new identities; when `lmax` is raised every other leaf is updated exactly once) -/
theorem refine_keeps_local_level (s : EState) (pos : Nat) (e : Bool) (dims : List Nat) (h1 : s.Inv) (h2 : s.Inv2)
    (l : ESArea) (hl : l ∈ s.forest.leaves) (l' : ESArea) (hl' : l' ∈ (s.refine pos e dims).forest.leaves)
    (hid : l'.id = l.id) :
    l'.box = l.box ∧ (s.refine pos e dims).lmax - l'.coarsening = s.lmax - l.coarsening := by
  have hleafN := Forest.leafIds_nodup s.forest h2.idsNodup
  have hsame : ∀ l0 ∈ s.forest.leaves, l0.id = l.id → l0 = l :=
    fun l0 h0 hh => List.inj_on_of_nodup_map hleafN h0 hl hh
  rcases refine_cases s pos e dims with heq | ⟨i, a, ch, K, n', r, hpos, hfind, hnil, hnc, heq⟩
  · rw [heq] at hl' ⊢
    rw [hsame l' hl' hid]
    exact ⟨rfl, rfl⟩
  · rw [heq] at hl' ⊢
    obtain ⟨haOK, hai⟩ := Forest.all_find i _ a ch h1.all hfind
    have hfresh := newChildren_fresh s a e dims K n' r haOK hnc
    have hmk : s.mkOf e dims a = K := by unfold EState.mkOf; rw [hnc]
    have haleaf : a ∈ s.forest.leaves := Forest.find?_leaf_mem i _ a ch hfind hnil
    have hllt : l.id < s.next :=
      h2.idsLt _ (Forest.leafIds_sub_ids s.forest _ (List.mem_map.2 ⟨l, hl, rfl⟩))
    -- leaves of the forest after attaching, before `update_values`
    have key : ∀ m ∈ (s.forest.attach i (s.mkOf e dims)).leaves, m.id = l.id → m = l := by
      intro m hm hmid
      rw [Forest.leaves_attach, List.mem_flatMap] at hm
      obtain ⟨l0, hl0, hm0⟩ := hm
      by_cases hli : (l0.id == i) = true
      · rw [if_pos hli] at hm0
        have hl0a : l0 = a := List.inj_on_of_nodup_map hleafN hl0 haleaf (by
          have : l0.id = i := by simpa using hli
          rw [this, hai])
        subst hl0a
        by_cases hKn : (s.mkOf e dims l0).isNil = true
        · rw [if_pos hKn] at hm0
          simp only [List.mem_cons, List.not_mem_nil, or_false] at hm0
          subst hm0
          exact hsame m hl0 hmid
        · rw [if_neg hKn, hmk] at hm0
          have := (hfresh.2.1 m.id (Forest.leafIds_sub_ids K _ (List.mem_map.2 ⟨m, hm0, rfl⟩))).1
          omega
      · rw [if_neg hli] at hm0
        simp only [List.mem_cons, List.not_mem_nil, or_false] at hm0
        subst hm0
        exact hsame m hl0 hmid
    cases r with
    | false =>
      simp only [Bool.false_eq_true, if_false] at hl' ⊢
      rw [key l' hl' hid]
      exact ⟨rfl, by simp⟩
    | true =>
      simp only [if_true] at hl' ⊢
      rw [bumpObjs_eq_map _ _ h2.objsNodup, Forest.leaves_mapAreas, List.mem_map] at hl'
      obtain ⟨m, hm, rfl⟩ := hl'
      have hmid : m.id = l.id := by
        rw [← hid]
        split <;> rfl
      have hml := key m hm hmid
      subst hml
      have hin : m.id ∈ s.objs := by
        obtain ⟨k, hk, _⟩ := (h2.live m.id).1 (List.mem_map.2 ⟨m, hl, rfl⟩)
        exact List.mem_iff_getElem?.2 ⟨k, hk⟩
      rw [if_pos hin]
      simp only [ESArea.bump]
      exact ⟨by first | rfl | trivial, by ring⟩

theorem endRound_forest (s : EState) : s.endRound.forest = s.forest ∧ s.endRound.lmax = s.lmax := ⟨rfl, rfl⟩

end SparseSpace
