import SparseSpace.Lemmas.ExtendSplitPush
import SparseSpace.Lemmas.ExtendSplitPushLoop
/-!
# Versions 1 and 2 of `coarsen_grid` with `lmin = 1` compute a valid local combination — all `dim`, `lmax`, `c` (C07)

`computed v dim 1 lmax C` (v = 1, 2) is the push-forward of the global standard scheme along the coarsening map
`phi12` (the `while` loop of the code).  That map has NO lower adjoint on the lattice of level vectors, but on the
SIMPLEX `|l| ≤ lmax + dim - 1` (where the standard scheme lives) it has one, `psi12`:

  `phi12 l ≥ T  ⇔  l ≥ psi12 T`,   `psi12 T = T` if `max T` is below the thresholds (`max T ≤ 1` or
  `C < lmax + 1 - 2·max T + δ`), else `T + C` on the entries equal to `max T`.

Reason: by `v12Loop_ge_iff` the left side says that `l ≥ T` and shaving `l` to height `r = max T - 1` costs more than
the budget `C`; the "no forward problem" bound `C ≥ lmax + 1 - 2·max T + δ` of the code is exactly what makes every
`l` of the simplex with two or more entries above `r` cheap (`wAbove r l ≤ C`, resp. `≤ C + 1` on the top diagonal of
version 1, where the code allows an overdraft of one), so only vectors with a single entry above `r` refuse, and they
refuse iff that entry is `≥ max T + C`.  `pushforward_valid` then reduces validity to C01's identity for the global
scheme; the index set of the local combination is `{T | |psi12 T| ≤ lmax + dim - 1}`.
-/
namespace SparseSpace

/-! ### more on `wAbove`, `kAbove` -/

theorem sum_ge_wAbove_kAbove (r : Int) (hr : 1 ≤ r) : ∀ l : LV, geAll 1 l →
    wAbove r l + (l.length : Int) + kAbove r l * (r - 1) ≤ l.sum
  | [], _ => by simp
  | x :: l, h => by
      have ih := sum_ge_wAbove_kAbove r hr l (fun y hy => h y (List.mem_cons_of_mem _ hy))
      have hx : 1 ≤ x := h x (List.mem_cons_self ..)
      rw [wAbove_cons, kAbove_cons, List.sum_cons, List.length_cons, add_mul]
      generalize kAbove r l * (r - 1) = P at *
      push_cast
      by_cases hrx : r < x
      · rw [if_pos hrx]; omega
      · rw [if_neg hrx]; omega

theorem wAbove_eq_of_kAbove_le_one (r : Int) : ∀ (l : LV) (y : Int), kAbove r l ≤ 1 → y ∈ l → r < y →
    wAbove r l = y - r
  | [], _, _, h, _ => by simp at h
  | x :: l, y, hk, hy, hry => by
      rw [kAbove_cons] at hk
      rw [wAbove_cons]
      have hk0 := kAbove_nonneg r l
      have hkw : kAbove r l = 0 → wAbove r l = 0 := by
        intro h0
        clear hk hy
        induction l with
        | nil => rfl
        | cons z l ih =>
          rw [kAbove_cons] at h0
          have := kAbove_nonneg r l
          rw [wAbove_cons]
          by_cases hz : r < z
          · rw [if_pos hz] at h0; omega
          · rw [if_neg hz] at h0
            rw [ih (by omega) (by omega)]; omega
      rcases List.mem_cons.1 hy with rfl | hy
      · rw [if_pos hry] at hk
        rw [hkw (by omega)]; omega
      · have := kAbove_pos_of_mem r l y hy hry
        by_cases hx : r < x
        · rw [if_pos hx] at hk; omega
        · rw [if_neg hx] at hk
          rw [wAbove_eq_of_kAbove_le_one r l y (by omega) hy hry]; omega

theorem wAbove_ge_add_kAbove (r C : Int) (hC : 0 ≤ C) : ∀ (l : LV) (y : Int), y ∈ l → r + C + 1 ≤ y →
    C + kAbove r l ≤ wAbove r l
  | [], _, h, _ => by simp at h
  | x :: l, y, hy, hry => by
      rw [kAbove_cons, wAbove_cons]
      have hkw := kAbove_le_wAbove r l
      rcases List.mem_cons.1 hy with rfl | hy
      · rw [if_pos (by omega)]; omega
      · have := wAbove_ge_add_kAbove r C hC l y hy hry
        split <;> omega

/-! ### the relative lower adjoint -/

/-- `T + C` on the entries equal to `s` -/
def bumpMax (s C : Int) (T : LV) : LV := T.map fun x => if x = s then x + C else x

theorem leAll_of_leAll_bumpMax (s C : Int) (hC : 0 ≤ C) : ∀ (T l : LV), leAll (bumpMax s C T) l = true → leAll T l = true
  | [], [], _ => rfl
  | [], _ :: _, h => by simp [bumpMax, leAll] at h
  | _ :: _, [], h => by simp [bumpMax, leAll] at h
  | x :: T, y :: l, h => by
      unfold bumpMax at h
      rw [List.map_cons, leAll_cons_cons] at h
      rw [leAll_cons_cons]
      simp only [Bool.and_eq_true, decide_eq_true_eq] at h ⊢
      refine ⟨?_, leAll_of_leAll_bumpMax s C hC T l h.2⟩
      have := h.1
      split at this <;> omega

theorem leAll_bumpMax (s C r : Int) (hr : r < s) : ∀ (T l : LV), leAll T l = true → (∀ y ∈ l, r < y → s + C ≤ y) →
    leAll (bumpMax s C T) l = true
  | [], [], _, _ => rfl
  | [], _ :: _, h, _ => by simp [leAll] at h
  | _ :: _, [], h, _ => by simp [leAll] at h
  | x :: T, y :: l, h, hy => by
      unfold bumpMax
      rw [List.map_cons, leAll_cons_cons]
      rw [leAll_cons_cons] at h
      simp only [Bool.and_eq_true, decide_eq_true_eq] at h ⊢
      refine ⟨?_, leAll_bumpMax s C r hr T l h.2 (fun z hz => hy z (List.mem_cons_of_mem _ hz))⟩
      have hyy := hy y (List.mem_cons_self ..)
      split
      · omega
      · exact h.1

/-- the coarsening map of versions 1 and 2 (`lmin = 1`) as a function of the component grid's level vector -/
def phi12 (version dim : Nat) (lmax C : Int) (lv : LV) : LV :=
  v12Loop version dim 1 lmax C (lmax + (dim : Int) - 1 - lv.sum == 0) C.toNat C lv

/-- its lower adjoint on the simplex -/
def psi12 (version : Nat) (lmax C : Int) (T : LV) : LV :=
  if lvMax T ≤ 1 ∨ C < lmax + 1 - 2 * lvMax T + (if version = 1 then 1 else 2) then T
  else bumpMax (lvMax T) C T

theorem psi12_shape (version : Nat) (lmax C : Int) (hC : 0 ≤ C) (T : LV) (hg : geAll 1 T) :
    (psi12 version lmax C T).length = T.length ∧ geAll 1 (psi12 version lmax C T) := by
  unfold psi12
  by_cases hlow : lvMax T ≤ 1 ∨ C < lmax + 1 - 2 * lvMax T + (if version = 1 then 1 else 2)
  · rw [if_pos hlow]; exact ⟨rfl, hg⟩
  · rw [if_neg hlow]
    refine ⟨by simp [bumpMax], ?_⟩
    intro y hy
    unfold bumpMax at hy
    obtain ⟨x, hx, rfl⟩ := List.mem_map.1 hy
    have := hg x hx
    split <;> omega

/-- **the Galois connection on the simplex**: for a component grid `lv` of diagonal `q ≥ 0` of the standard
scheme of level `lmax` (`lmin = 1`), `phi12 lv ≥ T ⇔ lv ≥ psi12 T` -/
theorem v12_adjoint (version dim : Nat) (lmax C : Int) (hd : 2 ≤ dim) (hC : 0 ≤ C)
    (lv : LV) (q : Int) (hq0 : 0 ≤ q) (hlen : lv.length = dim) (hg : geAll 1 lv)
    (hsum : lv.sum = lmax - 1 - q + (dim : Int))
    (T : LV) (hT : T.length = dim) :
    leAll T (phi12 version dim lmax C lv) = leAll (psi12 version lmax C T) lv := by
  have hTne : T ≠ [] := by intro h; rw [h] at hT; simp at hT; omega
  have hlvne : lv ≠ [] := by intro h; rw [h] at hlen; simp at hlen; omega
  obtain ⟨δ, hδ⟩ : ∃ δ : Int, δ = if version = 1 then 1 else 2 := ⟨_, rfl⟩
  obtain ⟨b, hb⟩ : ∃ b : Int, b = if version = 1 ∧ (lmax + (dim : Int) - 1 - lv.sum == 0) = true then 1 else 0 := ⟨_, rfl⟩
  have hb01 : b = 0 ∨ b = 1 := by
    rw [hb]; split
    · right; rfl
    · left; rfl
  have hδqb : 2 ≤ δ + q + b := by
    by_cases hv : version = 1
    · have h1 : δ = 1 := by simpa [hv] using hδ
      by_cases hq : q = 0
      · have : (lmax + (dim : Int) - 1 - lv.sum == 0) = true := by
          rw [beq_iff_eq]; omega
        have : b = 1 := by simpa [hv, this] using hb
        omega
      · omega
    · have h2 : δ = 2 := by simpa [hv] using hδ
      omega
  rw [Bool.eq_iff_iff]
  unfold phi12
  rw [v12Loop_ge_iff version dim 1 lmax C _ δ b hδ hb T hTne C.toNat C lv (by omega) (by omega) hlvne hg]
  unfold psi12
  rw [← hδ]
  by_cases hlow : lvMax T ≤ 1 ∨ C < lmax + 1 - 2 * lvMax T + δ
  · rw [if_pos hlow]
    exact ⟨fun h => h.1, fun h => ⟨h, Or.inl hlow⟩⟩
  · rw [if_neg hlow]
    have hs2 : 2 ≤ lvMax T := by
      by_contra h; exact hlow (Or.inl (by omega))
    have hCs : lmax + 1 - 2 * lvMax T + δ ≤ C := by
      by_contra h; exact hlow (Or.inr (by omega))
    have hsumineq := sum_ge_wAbove_kAbove (lvMax T - 1) (by omega) lv hg
    rw [hlen, hsum] at hsumineq
    have hK : 2 ≤ kAbove (lvMax T - 1) lv → wAbove (lvMax T - 1) lv ≤ C + b := by
      intro hk
      have := mul_le_mul_of_nonneg_right hk (show (0 : Int) ≤ lvMax T - 1 - 1 by omega)
      generalize kAbove (lvMax T - 1) lv * (lvMax T - 1 - 1) = P at *
      omega
    constructor
    · rintro ⟨hle, hcond⟩
      obtain ⟨y0, hy0, hsy0⟩ := leAll_exists_ge T lv hle _ (lvMax_mem T hTne)
      have hk1 := kAbove_pos_of_mem (lvMax T - 1) lv y0 hy0 (by omega)
      have hwk : C + 1 ≤ wAbove (lvMax T - 1) lv ∧ kAbove (lvMax T - 1) lv ≤ 1 := by
        rcases hcond with h | h | ⟨h1, h2, h3⟩
        · exact absurd h hlow
        · constructor
          · rcases hb01 with h0 | h0 <;> omega
          · by_contra hk
            have := hK (by omega)
            omega
        · exact ⟨by omega, by omega⟩
      apply leAll_bumpMax (lvMax T) C (lvMax T - 1) (by omega) T lv hle
      intro y hy hry
      have := wAbove_eq_of_kAbove_le_one (lvMax T - 1) lv y hwk.2 hy hry
      omega
    · intro hle
      have hle' := leAll_of_leAll_bumpMax (lvMax T) C hC T lv hle
      refine ⟨hle', Or.inr ?_⟩
      have hmem : lvMax T + C ∈ bumpMax (lvMax T) C T := by
        unfold bumpMax
        exact List.mem_map.2 ⟨lvMax T, lvMax_mem T hTne, by simp⟩
      obtain ⟨y, hy, hsy⟩ := leAll_exists_ge _ lv hle _ hmem
      have hwk := wAbove_ge_add_kAbove (lvMax T - 1) C hC lv y hy (by omega)
      have hk1 := kAbove_pos_of_mem (lvMax T - 1) lv y hy (by omega)
      rcases hb01 with h0 | h0
      · left; omega
      · by_cases hw : wAbove (lvMax T - 1) lv > C + b
        · left; exact hw
        · right; exact ⟨h0, by omega, by omega⟩

/-! ### the loop keeps the shape -/

theorem decAll_length (m : Int) (l : LV) : (decAll m l).length = l.length := by simp [decAll]

theorem v12Loop_shape (version dim : Nat) (lmin lmax C : Int) (top : Bool) :
    ∀ (f : Nat) (c : Int) (t : LV), t ≠ [] → geAll lmin t →
      (v12Loop version dim lmin lmax C top f c t).length = t.length ∧
        geAll lmin (v12Loop version dim lmin lmax C top f c t) := by
  intro f
  induction f with
  | zero => intro c t _ hg; exact ⟨rfl, hg⟩
  | succ f ih =>
    intro c t hne hg
    obtain ⟨δ, hδ⟩ : ∃ δ : Int, δ = if version = 1 then 1 else 2 := ⟨_, rfl⟩
    obtain ⟨b, hb⟩ : ∃ b : Int, b = if version = 1 ∧ top = true then 1 else 0 := ⟨_, rfl⟩
    rw [v12Loop_succ version dim lmin lmax C top δ b hδ hb]
    by_cases hcond : c > 0 ∧ lvMax t ≠ lmin ∧ C ≥ lmax + 1 - 2 * lvMax t + δ ∧
        c ≥ ((countEq (lvMax t) t : Nat) : Int) - b
    · rw [if_pos hcond]
      have hmgt : lmin < lvMax t := lt_of_le_of_ne (hg _ (lvMax_mem t hne)) (Ne.symm hcond.2.1)
      have := ih (c - ((countEq (lvMax t) t : Nat) : Int)) (decAll (lvMax t) t) (decAll_ne_nil _ t hne)
        (decAll_geAll lmin _ t hmgt hg)
      rw [decAll_length] at this
      exact this
    · rw [if_neg hcond]; exact ⟨rfl, hg⟩

/-! ### `computed` is the push-forward of the standard scheme -/

theorem computedFrom_v12_eq (version dim : Nat) (lmax c : Int) (hv : version = 1 ∨ version = 2) (hd : 2 ≤ dim) :
    ∀ (L : List (LV × Int)) (dict : List (LV × LV)), (∀ p ∈ L, p.1.length = dim ∧ lmax ≤ p.1.sum) →
      computedFrom version dim 1 lmax c L dict = pushForward (phi12 version dim lmax c) L
  | [], _, _ => rfl
  | p :: rest, dict, h => by
      obtain ⟨lv, q⟩ := p
      have hlv : lv.length = dim := (h (lv, q) (List.mem_cons_self ..)).1
      have hs : lmax ≤ lv.sum := (h (lv, q) (List.mem_cons_self ..)).2
      have ih := computedFrom_v12_eq version dim lmax c hv hd rest dict (fun p hp => h p (List.mem_cons_of_mem _ hp))
      have hcond : (dim < 2 || lv.length != dim) = false := by
        simp only [Bool.or_eq_false_iff, decide_eq_false_iff_not, not_lt, bne_eq_false_iff_eq]
        exact ⟨hd, hlv⟩
      have hv0 : (version == 0) = false := by rcases hv with rfl | rfl <;> rfl
      have hv12 : (version == 1 || version == 2) = true := by rcases hv with rfl | rfl <;> rfl
      have hnsd : lmax + (dim : Int) - 1 - lv.sum < (dim : Int) := by omega
      simp only [computedFrom, coarsenGrid, hcond, hv0, hv12, Bool.false_eq_true, if_false, if_true, hnsd,
        List.singleton_append, es_map_sub_add, ih]
      rfl

theorem computed_v12_eq_push (version dim : Nat) (lmax c : Int) (hv : version = 1 ∨ version = 2) (hd : 2 ≤ dim) :
    computed version dim 1 lmax c = pushForward (phi12 version dim lmax c) (stdScheme dim 1 lmax) := by
  unfold computed
  apply computedFrom_v12_eq version dim lmax c hv hd
  intro p hp
  obtain ⟨q, hq, hmem, _⟩ := (mem_std dim 1 lmax p).1 hp
  obtain ⟨h1, _, h3⟩ := (mem_shift_getGrids 1 dim _ p.1 (by omega) (by omega)).1 hmem
  exact ⟨h1, by rw [h3]; omega⟩

/-! ### C01's identity for the closed-form standard scheme -/

theorem std_domSum (dim : Nat) (lmin lmax : Int) (hd : 1 ≤ dim) (h0 : 0 ≤ lmin) (hl : lmin ≤ lmax)
    (t : LV) (ht : t.length = dim) (hmin : geAll lmin t) :
    domSum (stdScheme dim lmin lmax) t = if t.sum ≤ lmax - lmin + (dim : Int) * lmin then 1 else 0 := by
  rw [es_domSum_perm (std_perm_init dim lmin lmax hd h0 hl) t]
  have hinv := inv_init dim lmin lmax hd h0 hl
  have hdim : (CS.init dim lmax lmin).dim = dim := rfl
  have hlm : (CS.init dim lmax lmin).lmin = lmin := rfl
  rw [coeff_identity _ hinv t (by rw [hdim]; exact ht) (by rw [hlm]; exact hmin)]
  have := mem_I_init dim lmin lmax hd hl t
  by_cases hs : t.sum ≤ lmax - lmin + (dim : Int) * lmin
  · rw [if_pos hs, if_pos (this.2 ⟨ht, hmin, hs⟩)]
  · rw [if_neg hs, if_neg (fun hm => hs (this.1 hm).2.2)]

/-! ### the theorem -/

/-- **versions 1 and 2, `lmin = 1`, every `dim ≥ 2`, `lmax ≥ 1`, coarsening `C ≥ 0`**: the grids the code computes in
an area of coarsening `C` form a valid local combination; its index set (= the levels of the area's grid points) is
`{t | |psi12 t| ≤ lmax + dim - 1}`. -/
theorem v12_push_valid (version dim : Nat) (lmax C : Int) (hv : version = 1 ∨ version = 2) (hd : 2 ≤ dim)
    (hl : 1 ≤ lmax) (hC : 0 ≤ C) :
    LocalValid dim 1 (computed version dim 1 lmax C) ∧
      (∀ t : LV, t.length = dim → geAll 1 t → domSum (computed version dim 1 lmax C) t =
        if (psi12 version lmax C t).sum ≤ lmax - 1 + (dim : Int) then 1 else 0) ∧
      (∀ t : LV, t.length = dim → geAll 1 t → inDown (computed version dim 1 lmax C) t =
        decide ((psi12 version lmax C t).sum ≤ lmax - 1 + (dim : Int))) := by
  have hd1 : 1 ≤ dim := by omega
  rw [computed_v12_eq_push version dim lmax C hv hd]
  have hid : ∀ u : LV, u.length = dim → geAll 1 u →
      domSum (stdScheme dim 1 lmax) u = if decide (u.sum ≤ lmax - 1 + (dim : Int)) = true then 1 else 0 := by
    intro u hu hmin
    rw [std_domSum dim 1 lmax hd1 (by decide) hl u hu hmin]
    simp only [mul_one, decide_eq_true_eq]
  have hmem : ∀ p ∈ stdScheme dim 1 lmax, ∃ q : Int, 0 ≤ q ∧ p.1.length = dim ∧ geAll 1 p.1 ∧
      p.1.sum = lmax - 1 - q + (dim : Int) := by
    intro p hp
    obtain ⟨q, hq, hm, _⟩ := (mem_std dim 1 lmax p).1 hp
    obtain ⟨h1, h2, h3⟩ := (mem_shift_getGrids 1 dim _ p.1 hd1 (by omega)).1 hm
    exact ⟨q, by omega, h1, h2, by rw [h3]; ring⟩
  have hne : stdScheme dim 1 lmax ≠ [] := by
    intro h
    have h1 := hid (List.replicate dim 1) (by simp) (geAll_replicate 1 dim)
    rw [h, domSum_nil, if_pos (by simp; omega)] at h1
    cases h1
  have key := pushforward_valid dim 1 (stdScheme dim 1 lmax) (fun u => decide (u.sum ≤ lmax - 1 + (dim : Int)))
    (phi12 version dim lmax C) (psi12 version lmax C) hne hid
    (fun p hp => by
      obtain ⟨q, hq, _, _, h3⟩ := hmem p hp
      simp only [decide_eq_true_eq]; omega)
    (fun a b _ _ hle hb => by
      simp only [decide_eq_true_eq] at hb ⊢
      exact le_trans (leAll_sum a b hle) hb)
    (fun p hp => by
      obtain ⟨q, _, h1, h2, _⟩ := hmem p hp
      have hpne : p.1 ≠ [] := by intro h; rw [h] at h1; simp at h1; omega
      have := v12Loop_shape version dim 1 lmax C (lmax + (dim : Int) - 1 - p.1.sum == 0) C.toNat C p.1 hpne h2
      exact ⟨this.1.trans h1, this.2⟩)
    (fun t ht hmin => by
      have := psi12_shape version lmax C hC t hmin
      exact ⟨by rw [this.1, ht], this.2⟩)
    (fun t ht _ p hp => by
      obtain ⟨q, hq, h1, h2, h3⟩ := hmem p hp
      exact v12_adjoint version dim lmax C hd hC p.1 q hq h1 h2 h3 t ht)
  refine ⟨key.1, ?_, key.2.2⟩
  intro t ht hmin
  rw [key.2.1 t ht hmin]
  simp only [decide_eq_true_eq]

end SparseSpace
