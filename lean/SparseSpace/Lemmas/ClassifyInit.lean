import SparseSpace.Lemmas.ClassifyScale
/-!
Lemmas for C19, part 4: the scaling fitted at learning time (`MinMaxScaler((0.005, 0.995))`) keeps every sample
it was fitted on inside the range that later calls accept.
-/
namespace SparseSpace.Classify

theorem rmin_le_left (a b : Rat) : rmin a b ≤ a := by
  unfold rmin; split <;> [exact le_of_lt ‹_›; exact le_refl _]

theorem rmin_le_right (a b : Rat) : rmin a b ≤ b := by
  unfold rmin; split <;> [exact le_refl _; exact not_lt.mp ‹_›]

theorem le_rmax_left (a b : Rat) : a ≤ rmax a b := by
  unfold rmax; split <;> [exact le_of_lt ‹_›; exact le_refl _]

theorem le_rmax_right (a b : Rat) : b ≤ rmax a b := by
  unfold rmax; split <;> [exact le_refl _; exact not_lt.mp ‹_›]

theorem getD_zipWith (f : Rat → Rat → Rat) (a b : List Rat) (i : Nat) (ha : i < a.length) (hb : i < b.length) :
    (List.zipWith f a b).getD i 0 = f (a.getD i 0) (b.getD i 0) := by
  simp [List.getD_eq_getElem?_getD, ha, hb]

/-- the running column-wise minimum is below its start value and below every row folded in -/
theorem foldl_rmin (qs : List Pt) : ∀ (m : Pt), (∀ q ∈ qs, q.length = m.length) →
    (qs.foldl (fun m q => List.zipWith rmin m q) m).length = m.length ∧
    ∀ i, i < m.length → (qs.foldl (fun m q => List.zipWith rmin m q) m).getD i 0 ≤ m.getD i 0 ∧
      ∀ q ∈ qs, (qs.foldl (fun m q => List.zipWith rmin m q) m).getD i 0 ≤ q.getD i 0 := by
  induction qs with
  | nil => intro m _; exact ⟨rfl, fun i _ => ⟨le_refl _, fun q hq => absurd hq (by simp)⟩⟩
  | cons q qs ih =>
    intro m hlen
    have hq : q.length = m.length := hlen q (by simp)
    have hm' : (List.zipWith rmin m q).length = m.length := by simp [hq]
    have := ih (List.zipWith rmin m q) (by intro q' hq'; rw [hm']; exact hlen q' (by simp [hq']))
    simp only [List.foldl_cons]
    refine ⟨this.1.trans hm', fun i hi => ?_⟩
    obtain ⟨h1, h2⟩ := this.2 i (by rw [hm']; exact hi)
    rw [getD_zipWith rmin m q i hi (by omega)] at h1
    refine ⟨le_trans h1 (rmin_le_left _ _), fun q' hq' => ?_⟩
    rcases List.mem_cons.mp hq' with h | h
    · subst h; exact le_trans h1 (rmin_le_right _ _)
    · exact h2 q' h

theorem foldl_rmax (qs : List Pt) : ∀ (m : Pt), (∀ q ∈ qs, q.length = m.length) →
    (qs.foldl (fun m q => List.zipWith rmax m q) m).length = m.length ∧
    ∀ i, i < m.length → m.getD i 0 ≤ (qs.foldl (fun m q => List.zipWith rmax m q) m).getD i 0 ∧
      ∀ q ∈ qs, q.getD i 0 ≤ (qs.foldl (fun m q => List.zipWith rmax m q) m).getD i 0 := by
  induction qs with
  | nil => intro m _; exact ⟨rfl, fun i _ => ⟨le_refl _, fun q hq => absurd hq (by simp)⟩⟩
  | cons q qs ih =>
    intro m hlen
    have hq : q.length = m.length := hlen q (by simp)
    have hm' : (List.zipWith rmax m q).length = m.length := by simp [hq]
    have := ih (List.zipWith rmax m q) (by intro q' hq'; rw [hm']; exact hlen q' (by simp [hq']))
    simp only [List.foldl_cons]
    refine ⟨this.1.trans hm', fun i hi => ?_⟩
    obtain ⟨h1, h2⟩ := this.2 i (by rw [hm']; exact hi)
    rw [getD_zipWith rmax m q i hi (by omega)] at h1
    refine ⟨le_trans (le_rmax_left _ _) h1, fun q' hq' => ?_⟩
    rcases List.mem_cons.mp hq' with h | h
    · subst h; exact le_trans (le_rmax_right _ _) h1
    · exact h2 q' h

/-- `np.amin(axis=0)` / `np.amax(axis=0)` of a rectangular non-empty sample array bound every sample -/
theorem colMin_colMax (pts : List Pt) (d : Nat) (hrect : ∀ p ∈ pts, p.length = d) (hne : pts ≠ []) :
    (colMin pts).length = d ∧ (colMax pts).length = d ∧
    ∀ p ∈ pts, ∀ i, i < d → (colMin pts).getD i 0 ≤ p.getD i 0 ∧ p.getD i 0 ≤ (colMax pts).getD i 0 := by
  cases pts with
  | nil => exact absurd rfl hne
  | cons p0 ps =>
    have h0 : p0.length = d := hrect p0 (by simp)
    have hps : ∀ q ∈ ps, q.length = p0.length := fun q hq => (hrect q (by simp [hq])).trans h0.symm
    have hmin := foldl_rmin ps p0 hps
    have hmax := foldl_rmax ps p0 hps
    refine ⟨by simpa [colMin] using hmin.1.trans h0, by simpa [colMax] using hmax.1.trans h0, ?_⟩
    intro p hp i hi
    have hi0 : i < p0.length := by omega
    rcases List.mem_cons.mp hp with h | h
    · subst h; exact ⟨(hmin.2 i hi0).1, (hmax.2 i hi0).1⟩
    · exact ⟨(hmin.2 i hi0).2 p h, (hmax.2 i hi0).2 p h⟩

/-- the fitted axis maps `[lo, hi]` into `[0.005, 0.995]` (a constant dimension goes to `0.005`) -/
theorem fitAxis_bounds (lo hi x : Rat) (h1 : lo ≤ x) (h2 : x ≤ hi) :
    loTarget ≤ scaleCoord (fitAxis lo hi) x ∧ scaleCoord (fitAxis lo hi) x ≤ hiTarget := by
  by_cases hw : hi - lo = 0
  · have hx : x = lo := by linarith
    subst hx
    have : scaleCoord (fitAxis x hi) x = loTarget := scaleCoord_lo (fitAxis x hi)
    rw [this]
    unfold loTarget hiTarget; constructor <;> norm_num
  · have hlt : lo < hi := by
      rcases lt_or_eq_of_le (le_trans h1 h2) with h | h
      · exact h
      · exact absurd (by linarith) hw
    have hreg : (fitAxis lo hi).Regular := by
      refine ⟨hlt, ?_⟩
      simp [fitAxis, hw]
    have e := scaleCoord_mul_width (fitAxis lo hi) hreg x
    have hwp : 0 < hi - lo := by linarith
    simp only [fitAxis] at e
    unfold targetWidth at e
    unfold loTarget hiTarget at *
    constructor
    · by_contra hn
      have hn' : scaleCoord (fitAxis lo hi) x - 1/200 < 0 := by
        have := not_le.mp hn
        simp only [fitAxis] at this ⊢
        linarith
      have : (scaleCoord { lo := lo, hi := hi, f := (99:Rat)/100 / (if hi - lo = 0 then 1 else hi - lo) } x - 1 / 200) * (hi - lo) < 0 :=
        mul_neg_of_neg_of_pos (by simpa [fitAxis, targetWidth] using hn') hwp
      rw [e] at this
      nlinarith
    · by_contra hn
      have hn' : 99/100 < scaleCoord (fitAxis lo hi) x - 1/200 := by
        have := not_le.mp hn
        simp only [fitAxis] at this ⊢
        linarith
      have : (99:Rat)/100 * (hi - lo) < (scaleCoord { lo := lo, hi := hi, f := (99:Rat)/100 / (if hi - lo = 0 then 1 else hi - lo) } x - 1 / 200) * (hi - lo) :=
        mul_lt_mul_of_pos_right (by simpa [fitAxis, targetWidth] using hn') hwp
      rw [e] at this
      nlinarith

theorem getD_eq_getElem' (a : List Rat) (i : Nat) (h : i < a.length) : a.getD i 0 = a[i] := by
  simp [List.getD_eq_getElem?_getD, h]

/-- **the scaling fixed at learning time keeps all of its own data**: every sample of the (rectangular,
non-empty) array the scaler was fitted on is mapped into `[0.005, 0.995]^d`, hence is not out of range -/
theorem fitted_in_range (pts : List Pt) (d : Nat) (hrect : ∀ p ∈ pts, p.length = d) (hne : pts ≠ []) :
    ∀ p ∈ pts, outOfRange (scalePt (fitScaling pts) p) = false := by
  intro p hp
  obtain ⟨hlmin, hlmax, hb⟩ := colMin_colMax pts d hrect hne
  cases hout : outOfRange (scalePt (fitScaling pts) p) with
  | false => rfl
  | true =>
    exfalso
    obtain ⟨v, hv, hviol⟩ := (outOfRange_iff _).mp hout
    obtain ⟨pr, hpr, rfl⟩ := (mem_scalePt_iff _ _ _).mp hv
    obtain ⟨i, hi, hget⟩ := List.mem_iff_getElem.mp hpr
    have hlen : (fitScaling pts).length = d := by simp [fitScaling, hlmin, hlmax]
    have hpl : p.length = d := hrect p hp
    have hid : i < d := by
      have : i < ((fitScaling pts).zip p).length := hi
      simp [hlen, hpl] at this
      exact this
    have h1 : pr.1 = fitAxis ((colMin pts)[i]'(by omega)) ((colMax pts)[i]'(by omega)) := by
      rw [← hget]; simp [fitScaling]
    have h2 : pr.2 = p[i]'(by omega) := by rw [← hget]; simp
    obtain ⟨hlo, hhi⟩ := hb p hp i hid
    rw [getD_eq_getElem' _ i (by omega), getD_eq_getElem' _ i (by omega)] at hlo hhi
    have := fitAxis_bounds ((colMin pts)[i]'(by omega)) ((colMax pts)[i]'(by omega)) (p[i]'(by omega)) hlo hhi
    rw [h1, h2] at hviol
    unfold loTarget hiTarget at this
    unfold thrLo thrHi at hviol
    rcases hviol with h | h <;> linarith [this.1, this.2]

/-- a user range that passes the constructor's check (`hi > lo` in every dimension) gives regular axes -/
theorem givenAxis_regular (los his : List Rat)
    (h : (List.zipWith (fun (h l : Rat) => decide (h ≤ l)) his los).any id = false) :
    ∀ a ∈ List.zipWith givenAxis los his, a.Regular := by
  induction los generalizing his with
  | nil => intro a ha; simp at ha
  | cons l los ih =>
    cases his with
    | nil => intro a ha; simp at ha
    | cons hh his =>
      simp only [List.zipWith_cons_cons, List.any_cons, id_eq, Bool.or_eq_false_iff, decide_eq_false_iff_not, not_le] at h
      intro a ha
      simp only [List.zipWith_cons_cons, List.mem_cons] at ha
      rcases ha with rfl | ha
      · exact ⟨h.1, rfl⟩
      · exact ih his h.2 a ha

/-- the fitted axes: `lo ≤ hi`; regular unless the dimension is constant, in which case the factor is `0.99` -/
theorem fitScaling_axes (pts : List Pt) (d : Nat) (hrect : ∀ p ∈ pts, p.length = d) (hne : pts ≠ []) :
    ∀ a ∈ fitScaling pts, a.lo ≤ a.hi ∧ (a.lo < a.hi → a.Regular) ∧ (a.lo = a.hi → a.f = targetWidth) := by
  obtain ⟨hlmin, hlmax, hb⟩ := colMin_colMax pts d hrect hne
  intro a ha
  obtain ⟨i, hi, hget⟩ := List.mem_iff_getElem.mp ha
  have hlen : (fitScaling pts).length = d := by simp [fitScaling, hlmin, hlmax]
  have hid : i < d := by omega
  have h1 : a = fitAxis ((colMin pts)[i]'(by omega)) ((colMax pts)[i]'(by omega)) := by
    rw [← hget]; simp [fitScaling]
  obtain ⟨p0, hp0⟩ := List.exists_mem_of_ne_nil pts hne
  obtain ⟨hlo, hhi⟩ := hb p0 hp0 i hid
  rw [getD_eq_getElem' (colMin pts) i (by omega)] at hlo
  rw [getD_eq_getElem' (colMax pts) i (by omega)] at hhi
  have hle : (colMin pts)[i]'(by omega) ≤ (colMax pts)[i]'(by omega) := le_trans hlo hhi
  subst h1
  refine ⟨hle, ?_, ?_⟩
  · intro hlt
    simp only [fitAxis] at hlt ⊢
    refine ⟨hlt, ?_⟩
    have : (colMax pts)[i]'(by omega) - (colMin pts)[i]'(by omega) ≠ 0 := by linarith
    simp [this]
  · intro heq
    simp only [fitAxis] at heq ⊢
    have : (colMax pts)[i]'(by omega) - (colMin pts)[i]'(by omega) = 0 := by linarith
    simp [this]

/-! ### a data set scaled beforehand that `_internal_scaling` accepts -/

theorem zipWith_all_eq (l1 l2 : List Rat) (hlen : l1.length = l2.length)
    (h : (List.zipWith (fun (x y : Rat) => decide (x = y)) l1 l2).all id = true) : l1 = l2 := by
  induction l1 generalizing l2 with
  | nil => cases l2 with
    | nil => rfl
    | cons b l2 => simp at hlen
  | cons a l1 ih =>
    cases l2 with
    | nil => simp at hlen
    | cons b l2 =>
      simp only [List.zipWith_cons_cons, List.all_cons, id_eq, Bool.and_eq_true, decide_eq_true_eq] at h
      rw [h.1, ih l2 (by simpa using hlen) h.2]

theorem map_lo_preAxis (a b : Rat) (l1 l2 : List Rat) (hlen : l1.length = l2.length) :
    (List.zipWith (preAxis a b) l1 l2).map (·.lo) = l1 := by
  induction l1 generalizing l2 with
  | nil => simp
  | cons x l1 ih =>
    cases l2 with
    | nil => simp at hlen
    | cons y l2 => simp [preAxis, ih l2 (by simpa using hlen)]

/-- the owner's `scale_range` map and the learning map coincide once factors and origins coincide -/
theorem prePt_eq_scalePt (sc axes : List Axis) (x : Pt) (hf : sc.map (·.f) = axes.map (·.f))
    (hl : sc.map (·.lo) = axes.map (·.lo)) :
    List.zipWith (fun (ax : Axis) v => v * ax.f + (loTarget - ax.lo * ax.f)) axes x = scalePt sc x := by
  unfold scalePt
  induction sc generalizing axes x with
  | nil => cases axes with
    | nil => simp
    | cons b axes => simp at hf
  | cons a sc ih =>
    cases axes with
    | nil => simp at hf
    | cons b axes =>
      cases x with
      | nil => simp
      | cons v x =>
        simp only [List.map_cons, List.cons.injEq] at hf hl
        simp only [List.zipWith_cons_cons, List.cons.injEq]
        refine ⟨?_, ih axes x hf.2 hl.2⟩
        unfold scaleCoord
        rw [hf.1, hl.1]; ring

/-- **a pre-scaled data set is accepted only if its scaling IS the learning scaling**: whenever `_internal_scaling`
accepts a (rectangular, non-empty) data set its owner scaled with `scale_range((a, b))`, the coordinates it uses are
exactly the images of the raw samples under the map stored at learning time -/
theorem prescaled_accepted (st : State) (d : Data) (a b : Rat) (pts : Data) (hne : d ≠ [])
    (hrect : ∀ s ∈ d, s.pt.length = st.sc.length)
    (h : internalPts st ⟨d, some (a, b)⟩ = .ok pts) :
    pts = d.map (fun s => { s with pt := scalePt st.sc s.pt }) := by
  unfold internalPts at h
  simp only at h
  split at h
  next hs =>
    simp only [Except.ok.injEq] at h
    subst h
    unfold sameScaling at hs
    simp only [Bool.and_eq_true, decide_eq_true_eq] at hs
    obtain ⟨⟨⟨⟨_, ha⟩, _⟩, hfac⟩, horig⟩ := hs
    subst ha
    have hcm := colMin_colMax (d.map (·.pt)) st.sc.length
      (by intro p hp; obtain ⟨s, hs, rfl⟩ := List.mem_map.mp hp; exact hrect s hs)
      (by simpa using hne)
    obtain ⟨hlmin, hlmax, _⟩ := hcm
    have hlo := map_lo_preAxis loTarget b (colMin (d.map (·.pt))) (colMax (d.map (·.pt))) (hlmin.trans hlmax.symm)
    have hf : st.sc.map (·.f) = (List.zipWith (preAxis loTarget b) (colMin (d.map (·.pt))) (colMax (d.map (·.pt)))).map (·.f) := by
      apply zipWith_all_eq _ _ _ hfac
      simp [preFactor, hlmin, hlmax]
    unfold preScale
    apply List.map_congr_left
    intro s _
    rw [prePt_eq_scalePt st.sc _ s.pt hf (by rw [hlo]; exact horig)]
  next => exact absurd h (by simp)

end SparseSpace.Classify
