import SparseSpace.Lemmas.Quad
import Mathlib.Data.List.Range
/-! C08: counting, containment, ordering of the 1-D points for every flag combination, and the boundary-off clause of
the trapezoidal family. -/
namespace SparseSpace.Quad

/-- number of dropped points on the lower / upper side -/
def G1.tl (g : G1) : ℕ := if g.touchLo then 1 else 0
def G1.th (g : G1) : ℕ := if g.touchHi then 1 else 0

theorem tl_le (g : G1) : g.tl ≤ 1 := by unfold G1.tl; split_ifs <;> omega
theorem th_le (g : G1) : g.th ≤ 1 := by unfold G1.th; split_ifs <;> omega

theorem numPoints_off (g : G1) (hb : g.boundary = false) : g.numPoints = 2 ^ g.level + 1 - (g.tl + g.th) := by
  simp [G1.numPoints, hb, G1.tl, G1.th]

theorem lowerBorder_off (g : G1) (hb : g.boundary = false) : g.lowerBorder = g.tl := by
  have h1 := tl_le g; have h2 := th_le g; have hN := two_pow_pos g.level
  unfold G1.lowerBorder
  rw [numPoints_off g hb]
  simp only [hb, Bool.not_false, Bool.true_and, G1.nwb]
  by_cases h : 2 ^ g.level + 1 - (g.tl + g.th) < 2 ^ g.level + 1
  · simp only [h, decide_true, if_true]; rfl
  · have : g.tl = 0 := by omega
    simp only [h, decide_false, Bool.false_eq_true, if_false]
    exact this.symm

theorem upperBorder_off (g : G1) (hb : g.boundary = false) : g.upperBorder = 2 ^ g.level + 1 - g.th := by
  have h1 := tl_le g; have h2 := th_le g; have hN := two_pow_pos g.level
  unfold G1.upperBorder
  rw [numPoints_off g hb]
  simp only [hb, Bool.not_false, Bool.true_and, G1.nwb]
  by_cases h : 2 ^ g.level + 1 - (g.tl + g.th) < 2 ^ g.level + 1
  · simp only [h, decide_true, if_true]
    unfold G1.th; split_ifs <;> omega
  · simp only [h, decide_false, Bool.false_eq_true, if_false]
    omega

theorem slice_range (lo up n : ℕ) (h : up ≤ n) : slice lo up (List.range n) = List.range' lo (up - lo) := by
  unfold slice
  rw [List.range_eq_range', List.drop_range', List.take_range'_of_length_ge (by omega)]
  simp

theorem slice_map {α β : Type} (f : α → β) (lo up : ℕ) (l : List α) : slice lo up (l.map f) = (slice lo up l).map f := by
  simp [slice, List.map_take, List.map_drop]

/-- the point list of the model for every flag combination, as an index range (outside the mid-point special case) -/
theorem points1d_general (g : G1) (h1 : ¬ (g.boundary = false ∧ g.numPoints = 1)) :
    points1d g = (List.range' g.lowerBorder (g.upperBorder - g.lowerBorder)).map g.x := by
  unfold points1d
  have hc : (!g.boundary && g.numPoints == 1) = false := by
    cases hb : g.boundary <;> simp_all
  rw [hc]
  simp only [Bool.false_eq_true, if_false]
  rw [linspace_eq, slice_map, slice_range]
  · rfl
  · cases hb : g.boundary
    · rw [upperBorder_off g hb]; simp [G1.nwb]
    · rw [upperBorder_on g hb]

theorem border_diff (g : G1) : g.upperBorder - g.lowerBorder = g.numPoints := by
  have h1 := tl_le g; have h2 := th_le g; have hN := two_pow_pos g.level
  cases hb : g.boundary
  · rw [upperBorder_off g hb, lowerBorder_off g hb, numPoints_off g hb]; omega
  · rw [upperBorder_on g hb, lowerBorder_on g hb, numPoints_on g hb]; omega

/-- **count clause** (trapezoidal family, every level / sub-interval / boundary flag / basis flag):
as many points as announced, and as many weights as points -/
theorem points1d_length (g : G1) : (points1d g).length = g.numPoints := by
  by_cases h1 : g.boundary = false ∧ g.numPoints = 1
  · unfold points1d
    simp [h1.1, h1.2]
  · rw [points1d_general g h1, List.length_map, List.length_range', border_diff]

theorem trapWeights_length (g : G1) : (trapWeights g).length = g.numPoints := by
  simp [trapWeights]


theorem spacing_nonneg (g : G1) (h : g.start ≤ g.stop) : 0 ≤ g.spacing := by
  unfold G1.spacing; rw [nwb_cast]
  apply div_nonneg (by linarith) (by positivity)

theorem spacing_pos (g : G1) (h : g.start < g.stop) : 0 < g.spacing := by
  unfold G1.spacing; rw [nwb_cast]
  apply div_pos (by linarith) (by positivity)

theorem upperBorder_le (g : G1) : g.upperBorder ≤ 2 ^ g.level + 1 := by
  cases hb : g.boundary
  · rw [upperBorder_off g hb]; exact Nat.sub_le _ _
  · rw [upperBorder_on g hb]; simp [G1.nwb]

theorem x_mono (g : G1) (h : g.start < g.stop) {i j : ℕ} (hij : i < j) : g.x i < g.x j := by
  unfold G1.x
  have hs := spacing_pos g h
  have : (i : ℚ) < (j : ℚ) := by exact_mod_cast hij
  nlinarith

theorem x_mem (g : G1) (h : g.start ≤ g.stop) {j : ℕ} (hj : j ≤ 2 ^ g.level) : g.start ≤ g.x j ∧ g.x j ≤ g.stop := by
  have hs := spacing_nonneg g h
  have hl := x_last g
  unfold G1.x at *
  have : (j : ℚ) ≤ ((2 ^ g.level : ℕ) : ℚ) := by exact_mod_cast hj
  constructor
  · have : 0 ≤ (j : ℚ) * g.spacing := mul_nonneg (by positivity) hs
    linarith
  · have : (j : ℚ) * g.spacing ≤ ((2 ^ g.level : ℕ) : ℚ) * g.spacing := mul_le_mul_of_nonneg_right this hs
    linarith

/-- **containment clause**: every returned point lies in the sub-interval, for every flag combination -/
theorem points1d_mem (g : G1) (h : g.start ≤ g.stop) : ∀ x ∈ points1d g, g.start ≤ x ∧ x ≤ g.stop := by
  intro x hx
  by_cases h1 : g.boundary = false ∧ g.numPoints = 1
  · unfold points1d at hx
    simp [h1.1, h1.2] at hx
    subst hx
    constructor <;> linarith
  · rw [points1d_general g h1, List.mem_map] at hx
    obtain ⟨j, hj, rfl⟩ := hx
    rw [List.mem_range'_1] at hj
    have := upperBorder_le g
    exact x_mem g h (by omega)

/-- the returned points are strictly increasing -/
theorem points1d_sorted (g : G1) (h : g.start < g.stop) : (points1d g).Pairwise (· < ·) := by
  by_cases h1 : g.boundary = false ∧ g.numPoints = 1
  · unfold points1d
    simp [h1.1, h1.2]
  · rw [points1d_general g h1, List.pairwise_map]
    exact List.Pairwise.imp (fun hij => x_mono g h hij) List.pairwise_lt_range'


/-! ### boundary off drops exactly the global-boundary points (trapezoidal family) -/

/-- the weighted node `(x_j, h·c_j)` of the complete (boundary-on) composite trapezoidal rule -/
def G1.z (g : G1) (j : ℕ) : ℚ × ℚ :=
  (g.x j, g.spacing * (if j = 0 ∨ j = 2 ^ g.level then (1 / 2 : ℚ) else 1))

/-- the same grid object with `boundary = True` -/
def G1.on (g : G1) : G1 := { g with boundary := true }

theorem zip_on (g : G1) (hm : g.modified = false) :
    List.zip (points1d g.on) (trapWeights g.on) = (List.range (2 ^ g.level + 1)).map g.z := by
  rw [points1d_on g.on rfl, trapWeights_on g.on rfl hm, List.zip_map']
  rfl

theorem tl_eq_one_iff (g : G1) : g.tl = 1 ↔ g.start = g.a := by
  unfold G1.tl G1.touchLo
  by_cases h : g.start = g.a <;> simp [h]

theorem th_eq_one_iff (g : G1) : g.th = 1 ↔ g.stop = g.b := by
  unfold G1.th G1.touchHi
  by_cases h : g.stop = g.b <;> simp [h]

theorem zip_off (g : G1) (hb : g.boundary = false) (hm : g.modified = false) (h1 : g.numPoints ≠ 1) :
    List.zip (points1d g) (trapWeights g) = (List.range' g.tl g.numPoints).map g.z := by
  have hp : points1d g = (List.range g.numPoints).map (fun i => g.x (g.tl + i)) := by
    rw [points1d_general g (fun h => h1 h.2), border_diff, lowerBorder_off g hb, List.range'_eq_map_range, List.map_map]
    rfl
  have hw : trapWeights g = (List.range g.numPoints).map
      (fun i => g.spacing * (if g.tl + i = 0 ∨ g.tl + i = 2 ^ g.level then (1 / 2 : ℚ) else 1)) := by
    unfold trapWeights
    apply List.map_congr_left
    intro i _
    unfold trapWeight weightComposite
    have hc : (!g.boundary && g.numPoints == 1) = false := by simp [h1]
    rw [hc, lowerBorder_off g hb]
    simp only [hm, Bool.false_eq_true, if_false, G1.nwb, Nat.add_sub_cancel]
    congr 1
    simp only [Bool.or_eq_true, beq_iff_eq, Nat.add_comm i g.tl]
  rw [hp, hw, List.zip_map', List.range'_eq_map_range, List.map_map]
  rfl

/-- the predicate "not on the global boundary of this dimension" -/
def G1.interior (g : G1) (pw : ℚ × ℚ) : Bool := decide (pw.1 ≠ g.a ∧ pw.1 ≠ g.b)

theorem filter_on (g : G1) (h1 : g.a ≤ g.start) (h2 : g.start < g.stop) (h3 : g.stop ≤ g.b) :
    ((List.range (2 ^ g.level + 1)).map g.z).filter g.interior = (List.range' g.tl (2 ^ g.level + 1 - (g.tl + g.th))).map g.z := by
  have htl := tl_le g; have hth := th_le g; have hN := two_pow_pos g.level
  rw [List.filter_map]
  congr 1
  have hsplit : List.range (2 ^ g.level + 1)
      = List.range' 0 g.tl ++ (List.range' g.tl (2 ^ g.level + 1 - (g.tl + g.th))
          ++ List.range' (g.tl + (2 ^ g.level + 1 - (g.tl + g.th))) g.th) := by
    rw [List.range_eq_range']
    have e1 := @List.range'_append g.tl (2 ^ g.level + 1 - (g.tl + g.th)) g.th 1
    have e2 := @List.range'_append 0 g.tl (2 ^ g.level + 1 - (g.tl + g.th) + g.th) 1
    simp only [Nat.one_mul, Nat.zero_add] at e1 e2
    rw [e1, e2]
    congr 1; omega
  rw [hsplit, List.filter_append, List.filter_append]
  have hlast := x_last g
  have hA : (List.range' 0 g.tl).filter (g.interior ∘ g.z) = [] := by
    rw [List.filter_eq_nil_iff]
    intro j hj
    rw [List.mem_range'_1] at hj
    have hj0 : j = 0 := by omega
    have : g.tl = 1 := by omega
    have hs := (tl_eq_one_iff g).1 this
    simp [G1.interior, G1.z, hj0, x_zero, hs]
  have hC : (List.range' (g.tl + (2 ^ g.level + 1 - (g.tl + g.th))) g.th).filter (g.interior ∘ g.z) = [] := by
    rw [List.filter_eq_nil_iff]
    intro j hj
    rw [List.mem_range'_1] at hj
    have hjN : j = 2 ^ g.level := by omega
    have : g.th = 1 := by omega
    have hs := (th_eq_one_iff g).1 this
    simp [G1.interior, G1.z, hjN, hlast, hs]
  have hB : (List.range' g.tl (2 ^ g.level + 1 - (g.tl + g.th))).filter (g.interior ∘ g.z)
      = List.range' g.tl (2 ^ g.level + 1 - (g.tl + g.th)) := by
    rw [List.filter_eq_self]
    intro j hj
    rw [List.mem_range'_1] at hj
    have hjN : j ≤ 2 ^ g.level := by omega
    simp only [Function.comp, G1.interior, G1.z]
    apply decide_eq_true
    constructor
    · by_cases hj0 : j = 0
      · have : g.tl ≠ 1 := by omega
        rw [hj0, x_zero]
        exact fun h => this ((tl_eq_one_iff g).2 h)
      · have := x_mono g h2 (Nat.pos_of_ne_zero hj0)
        rw [x_zero] at this
        exact fun h => by linarith
    · by_cases hjl : j = 2 ^ g.level
      · have : g.th ≠ 1 := by omega
        rw [hjl, hlast]
        exact fun h => this ((th_eq_one_iff g).2 h)
      · have := x_mono g h2 (show j < 2 ^ g.level by omega)
        rw [hlast] at this
        exact fun h => by linarith
  rw [hA, hB, hC]
  simp


/-- **boundary-off clause of the trapezoidal family**: the returned (point, weight) list is literally the boundary-on
list with the entries on the global boundary removed — for every level and sub-interval except level 0 on a
sub-interval touching exactly one side of the domain (where the code returns the mid point instead, see
`boundary_off_level0_defect`). -/
theorem boundary_off_drops_exactly (g : G1) (hb : g.boundary = false) (hm : g.modified = false)
    (h1 : g.a ≤ g.start) (h2 : g.start < g.stop) (h3 : g.stop ≤ g.b)
    (hex : ¬ (g.level = 0 ∧ g.tl + g.th = 1)) :
    List.zip (points1d g) (trapWeights g)
      = (List.zip (points1d g.on) (trapWeights g.on)).filter g.interior := by
  rw [zip_on g hm, filter_on g h1 h2 h3, ← numPoints_off g hb]
  by_cases hn : g.numPoints = 1
  · have htl := tl_le g; have hth := th_le g; have hN := two_pow_pos g.level
    have hnp := numPoints_off g hb
    have hN2 : 2 ^ g.level = 2 := by
      by_contra hne
      have h1' : 2 ^ g.level = 1 := by omega
      have hl0 : g.level = 0 := by
        cases hl : g.level with
        | zero => rfl
        | succ k => rw [hl, pow_succ] at h1'; have := two_pow_pos k; omega
      exact hex ⟨hl0, by omega⟩
    have htl1 : g.tl = 1 := by omega
    have hsp := spacing_mul g
    have hN2q : (2 : ℚ) ^ g.level = 2 := by exact_mod_cast hN2
    rw [hN2q] at hsp
    unfold points1d trapWeights trapWeight weightComposite
    simp only [hb, hm, hn, htl1]
    simp
    unfold G1.z G1.x
    have h12 : ¬ ((1 : ℕ) = 0 ∨ 1 = 2 ^ g.level) := by omega
    rw [if_neg h12]
    ext
    · simp; linarith
    · simp
  · exact zip_off g hb hm hn


/-- what the code returns at level 0 with boundary off on a sub-interval touching exactly one side: the mid point
with the full length as weight -/
theorem boundary_off_level0_value (g : G1) (hb : g.boundary = false) (hm : g.modified = false)
    (hl : g.level = 0) (ht : g.tl + g.th = 1) :
    List.zip (points1d g) (trapWeights g) = [((g.stop + g.start) / 2, g.stop - g.start)] := by
  have hn : g.numPoints = 1 := by rw [numPoints_off g hb, hl, ht]; rfl
  have hsp := spacing_mul g
  rw [hl] at hsp
  unfold points1d trapWeights trapWeight weightComposite
  simp only [hb, hm, hn]
  simp
  linarith

/-- **defect (mirrored from the code)**: in that case the boundary-off list is NOT the boundary-on list minus the
global-boundary entries -/
theorem boundary_off_level0_defect (g : G1) (hb : g.boundary = false) (hm : g.modified = false)
    (h1 : g.a ≤ g.start) (h2 : g.start < g.stop) (h3 : g.stop ≤ g.b)
    (hl : g.level = 0) (ht : g.tl + g.th = 1) :
    List.zip (points1d g) (trapWeights g)
      ≠ (List.zip (points1d g.on) (trapWeights g.on)).filter g.interior := by
  rw [boundary_off_level0_value g hb hm hl ht, zip_on g hm, filter_on g h1 h2 h3, hl, ht]
  have htl := tl_le g
  have hlast := x_last g
  rw [hl] at hlast
  simp only [pow_zero, Nat.add_sub_cancel, List.range'_one, List.map_cons, List.map_nil]
  intro h
  have hx : (g.stop + g.start) / 2 = g.x g.tl := by
    have := congrArg (fun l => l.map Prod.fst) h
    simpa [G1.z] using this
  have hcases : g.tl = 0 ∨ g.tl = 1 := by omega
  rcases hcases with h0 | h0
  · rw [h0, x_zero] at hx; linarith
  · rw [h0] at hx; simp only [pow_zero] at hlast; rw [hlast] at hx; linarith


/-! ### Simpson: counts, level-0 fallback -/

theorem simpsonFull_length (h : ℚ) (n : ℕ) : (simpsonFull h n).length = n := by simp [simpsonFull]

/-- at level 0 the Simpson class falls back to the composite trapezoidal weights -/
theorem simpson_level0_eq_trap (g : G1) (hl : g.level = 0) (hm : g.modified = false) :
    simpsonWeights g = trapWeights g := by
  unfold simpsonWeights trapWeights
  have : g.nwb < 3 := by simp [G1.nwb, hl]
  rw [if_pos this]
  apply List.map_congr_left
  intro i _
  unfold trapWeight
  simp [hm]

/-- **count clause for the Simpson family**, every level / sub-interval / boundary flag: as many weights as announced
(the code slices the Simpson weights with the same border indices as the points) -/
theorem simpsonWeights_length (g : G1) : (simpsonWeights g).length = g.numPoints := by
  unfold simpsonWeights
  by_cases h : g.nwb < 3
  · simp [h]
  · have hu := upperBorder_le g
    have hd := border_diff g
    rw [if_neg h]
    simp only [slice, simpsonFull_length, List.length_take, List.length_drop, G1.nwb]
    omega

theorem simpsonWeights_length_on (g : G1) (_hb : g.boundary = true) : (simpsonWeights g).length = g.numPoints :=
  simpsonWeights_length g

end SparseSpace.Quad
