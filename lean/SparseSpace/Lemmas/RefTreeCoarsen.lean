import SparseSpace.Lemmas.RefTreeTiling
/-!
# Coarsening levels (`update_coarsening_values`, `update_values`) (C06)
-/
namespace SparseSpace

/-- coordinates and levels of an object (everything but the coarsening level) -/
def geom (x : Ival) : Rat × Rat × Nat × Nat := (x.s, x.e, x.l0, x.l1)

theorem til_geom : ∀ (L L' : List Ival) {a : Rat} {lo : Nat} {b : Rat} {hi : Nat},
    L.map geom = L'.map geom → Til a lo b hi L → Til a lo b hi L'
  | [], [], _, _, _, _, _, h => h
  | [], _ :: _, _, _, _, _, e, _ => by simp at e
  | _ :: _, [], _, _, _, _, e, _ => by simp at e
  | [x], [x'], a, lo, b, hi, e, h => by
    simp only [List.map_cons, List.map_nil, List.cons.injEq, and_true, geom, Prod.mk.injEq] at e
    obtain ⟨e1, e2, e3, e4⟩ := e
    obtain ⟨h1, h2, h3, h4, h5⟩ := h
    exact ⟨by rw [← e1]; exact h1, by rw [← e3]; exact h2, by rw [← e1, ← e2]; exact h3, by rw [← e2]; exact h4,
      by rw [← e4]; exact h5⟩
  | [_], _ :: _ :: _, _, _, _, _, e, _ => by simp at e
  | _ :: _ :: _, [_], _, _, _, _, e, _ => by simp at e
  | x :: y :: xs, x' :: y' :: xs', a, lo, b, hi, e, h => by
    simp only [List.map_cons, List.cons.injEq] at e
    obtain ⟨ex, ey, er⟩ := e
    have ex' := ex
    simp only [geom, Prod.mk.injEq] at ex'
    obtain ⟨e1, e2, e3, e4⟩ := ex'
    obtain ⟨h1, h2, h3, h4⟩ := h
    have ih := til_geom (y :: xs) (y' :: xs') (by simp [ey, er]) h4
    refine ⟨by rw [← e1]; exact h1, by rw [← e3]; exact h2, by rw [← e1, ← e2]; exact h3, ?_⟩
    rw [← e2, ← e4]; exact ih

theorem innerLevels_geom (L L' : List Ival) (e : L.map geom = L'.map geom) : innerLevels L = innerLevels L' := by
  have h : ∀ M : List Ival, M.map (·.l1) = (M.map geom).map (fun g => g.2.2.2) := by
    intro M; simp [geom, List.map_map, Function.comp_def]
  unfold innerLevels
  rw [h L, h L', e]

theorem setCoarsening_geom (lm : Int) (objs : List Ival) : (setCoarsening lm objs).map geom = objs.map geom := by
  simp [setCoarsening, List.map_map, Function.comp_def, geom]

theorem addCoarsening_geom (v : Int) (objs : List Ival) : (addCoarsening v objs).map geom = objs.map geom := by
  simp [addCoarsening, List.map_map, Function.comp_def, geom]

theorem foldl_min_spec : ∀ (objs : List Ival) (u0 : Int),
    objs.foldl (fun u x => if x.c < u then x.c else u) u0 ≤ u0 ∧
    ∀ x ∈ objs, objs.foldl (fun u x => if x.c < u then x.c else u) u0 ≤ x.c
  | [], u0 => ⟨le_refl _, by simp⟩
  | y :: ys, u0 => by
    obtain ⟨h1, h2⟩ := foldl_min_spec ys (if y.c < u0 then y.c else u0)
    simp only [List.foldl_cons]
    refine ⟨?_, ?_⟩
    · by_cases hy : y.c < u0
      · simp only [hy, if_true] at h1 ⊢; omega
      · simp only [hy, if_false] at h1 ⊢; exact h1
    · intro x hx
      rcases List.mem_cons.1 hx with rfl | hx
      · by_cases hy : x.c < u0
        · simp only [hy, if_true] at h1 ⊢; exact h1
        · simp only [hy, if_false] at h1 ⊢; omega
      · exact h2 x hx

/-- `update_coarsening_values` returns a non-negative number that lifts every coarsening level to `≥ 0` -/
theorem updateDim_spec (objs : List Ival) : 0 ≤ updateDim objs ∧ ∀ x ∈ objs, 0 ≤ x.c + updateDim objs := by
  obtain ⟨h1, h2⟩ := foldl_min_spec objs 0
  unfold updateDim
  exact ⟨by omega, fun x hx => by have := h2 x hx; omega⟩

theorem mem_setCoarsening {lm : Int} {objs : List Ival} {y : Ival} (h : y ∈ setCoarsening lm objs) :
    y.c = lm - ((max y.l0 y.l1 : Nat) : Int) := by
  simp only [setCoarsening, List.mem_map] at h
  obtain ⟨x, _, rfl⟩ := h
  rfl

theorem mem_addCoarsening {v : Int} {objs : List Ival} {y : Ival} (h : y ∈ addCoarsening v objs) :
    ∃ x ∈ objs, y.c = x.c + v ∧ y.l0 = x.l0 ∧ y.l1 = x.l1 := by
  simp only [addCoarsening, List.mem_map] at h
  obtain ⟨x, hx, rfl⟩ := h
  exact ⟨x, hx, rfl, rfl, rfl⟩

/-- **`coarsening_eq`, `coarsening_nonneg`, `lmax_ge_depth`** for one dimension: after
`update_coarsening_values` and (if it returned `v > 0`) `lmax += v; update_values(v)`, every coarsening level
is `lmax_new - max(levels)` and `≥ 0`; in particular `lmax_new ≥` every level present -/
theorem coarsening_update (lm : Int) (objs : List Ival) :
    let objs1 := setCoarsening lm objs
    let v := updateDim objs1
    ∀ y ∈ addCoarsening v objs1,
      y.c = (lm + v) - ((max y.l0 y.l1 : Nat) : Int) ∧ 0 ≤ y.c ∧ ((max y.l0 y.l1 : Nat) : Int) ≤ lm + v := by
  intro objs1 v y hy
  obtain ⟨x, hx, hc, h0, h1⟩ := mem_addCoarsening hy
  have hx' := mem_setCoarsening hx
  have hs := (updateDim_spec objs1).2 x hx
  rw [h0, h1, hc, hx']
  refine ⟨by omega, ?_, ?_⟩
  · rw [hx'] at hs; exact hs
  · rw [hx'] at hs; omega

end SparseSpace
