import SparseSpace.Generated.ExtendSplitGen
import SparseSpace.Model.ExtendSplit
import SparseSpace.Lemmas.CombiGenRt
import SparseSpace.Lemmas.DimWiseGen
import Mathlib.Data.List.Perm.Basic
/-!
# Translator tie for the extend–split strategy, part 1: dictionary of coarsened level vectors, `sorted`, and the
`for` loops of `coarsen_grid` (first maximum, all maxima, counting)

`Generated/ExtendSplitGen.lean` / `Generated/RefObjESGen.lean` are produced by `tools/py2lean`
(specs `extendsplit.json`, `refobj_es.json`).  The lemmas rewrite the generated shapes into `Model/ExtendSplit`.
-/
namespace SparseSpace
open SparseSpace.PyRt

/-! ### the collision dictionary (`RefinementObjectExtendSplit`) -/

theorem gen_add_level (a : GenRO.Area) (k v : LV) :
    GenRO.add_level a k v = { a with levelvec_dict := dictAddLevel a.levelvec_dict k v } := rfl

theorem gen_is_already_calculated (a : GenRO.Area) (k v : LV) :
    GenRO.is_already_calculated a k v = alreadyCalculated a.levelvec_dict k v := by
  unfold GenRO.is_already_calculated alreadyCalculated dictContains dictGet
  induction a.levelvec_dict with
  | nil => simp
  | cons p m ih =>
    by_cases h : (p.1 == k) = true
    · simp [List.find?_cons, h]
    · have h' : (p.1 == k) = false := by simpa using h
      simp only [List.any_cons, h', Bool.false_or, List.find?_cons]
      exact ih

theorem gen_update_area (a : GenRO.Area) (u : Int) :
    GenRO.update a u = { a with coarseningValue := a.coarseningValue + u, levelvec_dict := [] } := rfl

/-! ### maxima -/

theorem maxList_eq_lvMax (l : LV) : PyRt.maxList l = lvMax l := by
  cases l <;> rfl

theorem foldl_max_ge (xs : LV) : ∀ (a : Int), a ≤ xs.foldl max a ∧ (∀ x ∈ xs, x ≤ xs.foldl max a) ∧
    (xs.foldl max a = a ∨ xs.foldl max a ∈ xs) := by
  induction xs with
  | nil => intro a; simp
  | cons y ys ih =>
    intro a
    obtain ⟨h1, h2, h3⟩ := ih (max a y)
    simp only [List.foldl_cons, List.mem_cons]
    refine ⟨by omega, ?_, ?_⟩
    · intro x hx
      rcases hx with rfl | hx
      · omega
      · exact h2 x hx
    · rcases h3 with h | h
      · rcases Int.le_total a y with hay | hay
        · right; left; rw [h]; omega
        · left; rw [h]; omega
      · right; right; exact h

/-- `lvMax l` is an element of `l` that bounds all elements -/
theorem lvMax_spec (l : LV) (h : l ≠ []) : lvMax l ∈ l ∧ ∀ x ∈ l, x ≤ lvMax l := by
  cases l with
  | nil => exact absurd rfl h
  | cons a xs =>
    obtain ⟨h1, h2, h3⟩ := foldl_max_ge xs a
    simp only [lvMax, List.mem_cons]
    refine ⟨?_, ?_⟩
    · rcases h3 with h | h
      · left; exact h
      · right; exact h
    · intro x hx
      rcases hx with rfl | hx
      · exact h1
      · exact h2 x hx

theorem lvMax_unique (l : LV) (m : Int) (hm : m ∈ l) (hb : ∀ x ∈ l, x ≤ m) : lvMax l = m := by
  have hne : l ≠ [] := by intro e; rw [e] at hm; simp at hm
  obtain ⟨h1, h2⟩ := lvMax_spec l hne
  have := hb _ h1
  have := h2 _ hm
  omega

theorem lvMax_perm (l l' : LV) (h : l.Perm l') : lvMax l = lvMax l' := by
  by_cases hne : l = []
  · subst hne; rw [List.nil_perm.mp h] 
  · obtain ⟨h1, h2⟩ := lvMax_spec l hne
    exact (lvMax_unique l' _ (h.mem_iff.mp h1) (fun x hx => h2 x (h.mem_iff.mpr hx))).symm

/-! ### `sorted` -/

theorem insertSorted_perm (x : Int) : ∀ l : LV, (insertSorted x l).Perm (x :: l)
  | [] => List.Perm.refl _
  | y :: ys => by
    unfold insertSorted
    split
    · exact List.Perm.refl _
    · exact ((insertSorted_perm x ys).cons y).trans (List.Perm.swap x y ys)

theorem sorted_perm : ∀ l : LV, (PyRt.sorted l).Perm l
  | [] => List.Perm.refl _
  | x :: l => by
    show (insertSorted x (PyRt.sorted l)).Perm (x :: l)
    exact (insertSorted_perm x _).trans ((sorted_perm l).cons x)

theorem insertSorted_sorted (x : Int) : ∀ l : LV, l.Pairwise (· ≤ ·) → (insertSorted x l).Pairwise (· ≤ ·)
  | [], _ => by simp [insertSorted]
  | y :: ys, h => by
    unfold insertSorted
    rw [List.pairwise_cons] at h
    split
    · rename_i hxy
      rw [List.pairwise_cons]
      refine ⟨?_, List.pairwise_cons.mpr h⟩
      intro z hz
      rcases List.mem_cons.mp hz with rfl | hz
      · exact hxy
      · have := h.1 z hz; omega
    · rename_i hxy
      rw [List.pairwise_cons]
      refine ⟨?_, insertSorted_sorted x ys h.2⟩
      intro z hz
      rcases List.mem_cons.mp ((insertSorted_perm x ys).mem_iff.mp hz) with rfl | hz
      · omega
      · exact h.1 z hz

theorem sorted_sorted : ∀ l : LV, (PyRt.sorted l).Pairwise (· ≤ ·)
  | [] => List.Pairwise.nil
  | x :: l => insertSorted_sorted x _ (sorted_sorted l)

/-- `temp2 = list(reversed(sorted(temp)))`: `temp2[0]` is the maximum and `temp2[1]` the second largest entry (with
multiplicity) — the hand model's `lvMax` / `lvSecond` — for a vector with at least two entries -/
theorem gen_sorted_top (l : LV) (h : 2 ≤ l.length) :
    getItem (List.reverse (PyRt.sorted l)) 0 = lvMax l ∧ getItem (List.reverse (PyRt.sorted l)) 1 = lvSecond l := by
  have hp : (List.reverse (PyRt.sorted l)).Perm l := (List.reverse_perm _).trans (sorted_perm l)
  have hs : (List.reverse (PyRt.sorted l)).Pairwise (· ≥ ·) := by
    rw [List.pairwise_reverse]; exact sorted_sorted l
  generalize List.reverse (PyRt.sorted l) = r at hp hs
  have hlen : r.length = l.length := hp.length_eq
  match r, hlen with
  | a :: b :: rest, _ =>
    rw [List.pairwise_cons] at hs
    have ha : lvMax l = a := lvMax_unique l a (hp.mem_iff.mp (by simp)) (fun x hx => by
      rcases List.mem_cons.mp (hp.mem_iff.mpr hx) with rfl | hx'
      · exact Int.le_refl _
      · exact hs.1 x hx')
    have h0 : getItem (a :: b :: rest) 0 = a := by simp [getItem, pos?]
    have h1 : getItem (a :: b :: rest) 1 = b := by simp [getItem, pos?]
    refine ⟨by rw [h0, ha], ?_⟩
    rw [h1]
    unfold lvSecond
    rw [ha]
    have hpe : (l.erase a).Perm (b :: rest) := by
      have := hp.symm.erase a
      simpa using this
    rw [lvMax_perm _ _ hpe]
    have hs2 := hs.2
    rw [List.pairwise_cons] at hs2
    exact (lvMax_unique (b :: rest) b (by simp) (fun x hx => by
      rcases List.mem_cons.mp hx with rfl | hx'
      · exact Int.le_refl _
      · exact hs2.1 x hx')).symm
  | [], h' => simp at h'; omega
  | [_], h' => simp at h'; omega

end SparseSpace
