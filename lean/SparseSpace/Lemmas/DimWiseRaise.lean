import SparseSpace.Model.DimWise
import SparseSpace.Lemmas.Combi
import Mathlib.Data.List.Perm.Subperm
/-!
# Termination of `raise_lmax`'s `while True` loop (C06 / C03)

Every pass that does not end the loop moves at least one index of the box `[lmin, max lmax)^dim` from the active
to the old set; the old set is duplicate free and never shrinks, so there are at most `(max lmax - lmin)^dim` such
passes: the fuel `raiseFuel` of the model suffices in every state whose scheme satisfies the invariant of C01.
-/
namespace SparseSpace

/-! ## the box -/

/-- all vectors of length `n` with entries in `[lo, hi)` -/
def boxList : Nat → Int → Int → List LV
  | 0, _, _ => [[]]
  | n+1, lo, hi => (List.range (hi - lo).toNat).flatMap fun (k : Nat) => (boxList n lo hi).map fun v => (lo + (k : Int)) :: v

theorem length_flatMap_const {α β : Type} (f : α → List β) (c : Nat) : ∀ (l : List α), (∀ x ∈ l, (f x).length = c) →
    (l.flatMap f).length = l.length * c
  | [], _ => by simp
  | x :: xs, h => by
    rw [List.flatMap_cons, List.length_append, h x (by simp),
      length_flatMap_const f c xs (fun y hy => h y (by simp [hy])), List.length_cons]
    rw [Nat.add_mul, Nat.one_mul, Nat.add_comm]

theorem boxList_length : ∀ (n : Nat) (lo hi : Int), (boxList n lo hi).length = (hi - lo).toNat ^ n
  | 0, _, _ => rfl
  | n+1, lo, hi => by
    simp only [boxList]
    rw [length_flatMap_const _ ((hi - lo).toNat ^ n) _ (fun k _ => by rw [List.length_map, boxList_length n lo hi]),
      List.length_range, Nat.pow_succ, Nat.mul_comm]

theorem mem_boxList : ∀ (n : Nat) (lo hi : Int) (v : LV), v.length = n → (∀ x ∈ v, lo ≤ x ∧ x < hi) →
    v ∈ boxList n lo hi
  | 0, _, _, v, hl, _ => by
    have : v = [] := List.eq_nil_of_length_eq_zero hl
    subst this; simp [boxList]
  | n+1, lo, hi, v, hl, h => by
    cases v with
    | nil => simp at hl
    | cons x xs =>
      have hx := h x (by simp)
      have ih := mem_boxList n lo hi xs (by simpa using hl) (fun y hy => h y (by simp [hy]))
      simp only [boxList, List.mem_flatMap, List.mem_range, List.mem_map]
      refine ⟨(x - lo).toNat, by omega, xs, ih, ?_⟩
      congr 1; omega

/-- membership in the box `[lmin, M)^dim` -/
def inBox (dim : Nat) (lmin M : Int) (v : LV) : Bool :=
  v.length == dim && v.all fun x => decide (lmin ≤ x) && decide (x < M)

/-- number of old indices inside the box -/
def oldInBox (dim : Nat) (lmin M : Int) (s : CS) : Nat := (s.old.filter (inBox dim lmin M)).length

theorem oldInBox_le (dim : Nat) (lmin M : Int) (s : CS) (h : s.old.Nodup) :
    oldInBox dim lmin M s ≤ (M - lmin).toNat ^ dim := by
  unfold oldInBox
  rw [← boxList_length dim lmin M]
  apply List.Subperm.length_le
  apply List.Nodup.subperm (h.filter _)
  intro v hv
  rw [List.mem_filter] at hv
  have hb := hv.2
  simp only [inBox, Bool.and_eq_true, beq_iff_eq, List.all_eq_true, decide_eq_true_eq] at hb
  exact mem_boxList dim lmin M v hb.1 (fun x hx => hb.2 x hx)

/-! ## `update` only appends to the old set -/

theorem update_old (s : CS) (lv : LV) :
    (s.update lv).1.old = if lv ∈ s.active ∧ lv ∉ s.old then s.old ++ [lv] else s.old := by
  by_cases h : lv ∈ s.active
  · rw [update_fst_of_mem s lv h]
    obtain ⟨_, _, h3, _⟩ := refFold_spec lv (List.range s.dim)
      { s with active := s.active.erase lv, old := if s.old.contains lv then s.old else s.old ++ [lv] }
    rw [h3]
    by_cases ho : lv ∈ s.old
    · simp [h, ho]
    · simp [h, ho]
  · rw [update_not_refinable s lv h]; simp [h]

theorem oldInBox_update_ge (dim : Nat) (lmin M : Int) (s : CS) (lv : LV) :
    oldInBox dim lmin M s ≤ oldInBox dim lmin M (s.update lv).1 := by
  unfold oldInBox
  rw [update_old]
  split
  · rw [List.filter_append, List.length_append]; omega
  · exact Nat.le_refl _

/-! ## one pass -/

theorem maxList_ge : ∀ (l : List Int) (u : Int), u ∈ l → u ≤ maxList l := by
  intro l u hu
  cases l with
  | nil => simp at hu
  | cons x xs =>
    simp only [maxList]
    have gen : ∀ (ys : List Int) (m : Int), m ≤ ys.foldl max m ∧ ∀ y ∈ ys, y ≤ ys.foldl max m := by
      intro ys
      induction ys with
      | nil => intro m; exact ⟨le_refl _, by simp⟩
      | cons y ys ih =>
        intro m
        obtain ⟨h1, h2⟩ := ih (max m y)
        simp only [List.foldl_cons]
        refine ⟨le_trans (le_max_left _ _) h1, ?_⟩
        intro z hz
        rcases List.mem_cons.1 hz with rfl | hz
        · exact le_trans (le_max_right _ _) h1
        · exact h2 z hz
    rcases List.mem_cons.1 hu with rfl | hu
    · exact (gen xs u).1
    · exact (gen xs x).2 u hu

/-- an index that passes the test of `raise_lmax` lies in the box -/
theorem raiseCond_inBox (lmax : List Int) (lmin : Int) (dim : Nat) (idx : LV) (hl : idx.length = dim)
    (hg : geAll lmin idx) (hc : raiseCond lmax lmin dim idx = true) :
    inBox dim lmin (maxList lmax) idx = true := by
  simp only [raiseCond, Bool.and_eq_true, List.all_eq_true, List.mem_range] at hc
  simp only [inBox, Bool.and_eq_true, beq_iff_eq, List.all_eq_true, decide_eq_true_eq]
  refine ⟨hl, ?_⟩
  intro x hx
  refine ⟨hg x hx, ?_⟩
  obtain ⟨d, hd, hxd⟩ := List.getElem_of_mem hx
  have := hc.2 d (by rw [← hl]; exact hd)
  rw [List.getElem?_eq_getElem hd, hxd] at this
  cases hu : lmax[d]? with
  | none => rw [hu] at this; simp at this
  | some u =>
    rw [hu] at this
    simp only [decide_eq_true_eq] at this
    have := maxList_ge lmax u (List.mem_of_getElem? hu)
    omega

/-- the body of the `for index in active_indices` loop -/
def raiseBody (lmax : List Int) (lmin : Int) (dim : Nat) (acc : CS × Nat) (idx : LV) : CS × Nat :=
  if raiseCond lmax lmin dim idx then ((acc.1.update idx).1, acc.2 + 1) else acc

theorem raisePass_eq (lmax : List Int) (lmin : Int) (cs : CS) :
    raisePass lmax lmin cs = cs.active.foldl (raiseBody lmax lmin cs.dim) (cs, 0) := rfl

theorem fold_oldInBox_ge (lmax : List Int) (lmin : Int) (dim bd : Nat) (M : Int) : ∀ (l : List LV) (acc : CS × Nat),
    oldInBox bd lmin M acc.1 ≤ oldInBox bd lmin M (l.foldl (raiseBody lmax lmin dim) acc).1
  | [], _ => Nat.le_refl _
  | x :: xs, acc => by
    simp only [List.foldl_cons]
    refine le_trans ?_ (fold_oldInBox_ge lmax lmin dim bd M xs _)
    unfold raiseBody
    split
    · exact oldInBox_update_ge bd lmin M acc.1 x
    · exact Nat.le_refl _

/-- a pass either makes no `update_adaptive_combi` call or moves an index of the box into the old set -/
theorem pass_progress (lmax : List Int) (lmin : Int) (s : CS) (hs : SchemeInv s) (hlm : s.lmin = lmin) :
    ∀ (l : List LV), (∀ x ∈ l, x ∈ s.active) →
      (l.foldl (raiseBody lmax lmin s.dim) (s, 0)).2 = 0 ∨
      oldInBox s.dim lmin (maxList lmax) s + 1 ≤
        oldInBox s.dim lmin (maxList lmax) (l.foldl (raiseBody lmax lmin s.dim) (s, 0)).1
  | [], _ => Or.inl rfl
  | x :: xs, hl => by
    simp only [List.foldl_cons]
    by_cases hc : raiseCond lmax lmin s.dim x = true
    · right
      have hxa : x ∈ s.active := hl x (by simp)
      have hxo : x ∉ s.old := hs.disjoint x hxa
      have hsh := hs.shape x (by unfold I; simp [hxa])
      have hbox := raiseCond_inBox lmax lmin s.dim x hsh.1 (by rw [← hlm]; exact hsh.2) hc
      have hstep : raiseBody lmax lmin s.dim (s, 0) x = ((s.update x).1, 1) := by
        unfold raiseBody; simp [hc]
      rw [hstep]
      refine le_trans ?_ (fold_oldInBox_ge lmax lmin s.dim s.dim (maxList lmax) xs _)
      unfold oldInBox
      rw [update_old, if_pos ⟨hxa, hxo⟩, List.filter_append, List.length_append]
      simp [hbox]
    · have hstep : raiseBody lmax lmin s.dim (s, 0) x = (s, 0) := by
        unfold raiseBody; simp [hc]
      rw [hstep]
      exact pass_progress lmax lmin s hs hlm xs (fun y hy => hl y (by simp [hy]))

/-- **`raise_lmax` terminates**: with the invariant of C01 the loop ends by `refinements == 0` as soon as the fuel
exceeds the number of box indices that are not yet old -/
theorem raiseLoop_done (lmax : List Int) (lmin : Int) : ∀ (fuel : Nat) (s : CS), SchemeInv s → s.lmin = lmin →
    ((maxList lmax - lmin).toNat ^ s.dim - oldInBox s.dim lmin (maxList lmax) s) + 1 ≤ fuel →
    (raiseLoop lmax lmin fuel s).2 = true
  | 0, _, _, _, h => by omega
  | f+1, s, hs, hlm, hf => by
    simp only [raiseLoop]
    by_cases h0 : (raisePass lmax lmin s).2 = 0
    · simp [h0]
    · have hne : ((raisePass lmax lmin s).2 == 0) = false := by simp [h0]
      simp only [hne, Bool.false_eq_true, if_false]
      -- the state after the pass
      have hrun : (raisePass lmax lmin s).1 = runOps s (s.active.filter (raiseCond lmax lmin s.dim)) := by
        rw [raisePass_eq]
        have : ∀ (l : List LV) (acc : CS) (n : Nat),
            (l.foldl (raiseBody lmax lmin s.dim) (acc, n)).1 = runOps acc (l.filter (raiseCond lmax lmin s.dim)) := by
          intro l
          induction l with
          | nil => intro acc n; rfl
          | cons x xs ih =>
            intro acc n
            simp only [List.foldl_cons, List.filter_cons]
            by_cases hx : raiseCond lmax lmin s.dim x = true
            · simp only [raiseBody, hx, if_true]; rw [ih]; rfl
            · simp only [raiseBody, hx]; rw [ih]; rfl
        exact this _ _ _
      have hs' : SchemeInv (raisePass lmax lmin s).1 := by rw [hrun]; exact inv_runOps _ _ hs
      have hdim : (raisePass lmax lmin s).1.dim = s.dim := by rw [hrun]; exact runOps_dim _ _
      have hlm' : (raisePass lmax lmin s).1.lmin = lmin := by rw [hrun, runOps_lmin]; exact hlm
      have hprog := pass_progress lmax lmin s hs hlm s.active (fun x hx => hx)
      rw [← raisePass_eq] at hprog
      rcases hprog with hz | hprog
      · exact absurd hz h0
      · have hle := oldInBox_le s.dim lmin (maxList lmax) (raisePass lmax lmin s).1 hs'.nodupO
        apply raiseLoop_done lmax lmin f _ hs' hlm'
        rw [hdim]
        omega

theorem raiseFuel_enough (lmax : List Int) (lmin : Int) (s : CS) (hs : SchemeInv s) (hlm : s.lmin = lmin) :
    (raiseLoop lmax lmin (raiseFuel lmax lmin s.dim) s).2 = true := by
  apply raiseLoop_done lmax lmin _ s hs hlm
  unfold raiseFuel
  have : (maxList lmax - lmin).toNat ^ s.dim ≤ ((maxList lmax - lmin).toNat + 1) ^ s.dim :=
    Nat.pow_le_pow_left (Nat.le_succ _) _
  omega

end SparseSpace
