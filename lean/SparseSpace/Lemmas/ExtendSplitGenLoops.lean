import SparseSpace.Lemmas.ExtendSplitGen
/-!
# Translator tie for the extend–split strategy, part 2: the loops of `coarsen_grid`
-/
namespace SparseSpace
open SparseSpace.PyRt

/-! ### index bookkeeping -/

theorem range_shift (n off : Nat) :
    (List.range (n + 1)).map (fun k => Int.ofNat (k + off))
      = Int.ofNat off :: (List.range n).map (fun k => Int.ofNat (k + (off + 1))) := by
  rw [List.range_succ_eq_map]
  simp only [List.map_cons, List.map_map, Nat.zero_add]
  congr 1
  apply List.map_congr_left
  intro k _
  simp only [Function.comp]
  congr 1
  omega

theorem getItem_mid (pre : LV) (x : Int) (t : LV) : getItem (pre ++ x :: t) (Int.ofNat pre.length) = x := by
  rw [getItem_ofNat]
  simp [List.getD_eq_getElem?_getD]

theorem setItem_mid (pre : LV) (x v : Int) (t : LV) : setItem (pre ++ x :: t) (Int.ofNat pre.length) v = pre ++ v :: t := by
  rw [setItem_ofNat]
  simp

theorem range_zero_shift (n : Nat) : PyRt.range (Int.ofNat n) = (List.range n).map (fun k => Int.ofNat (k + ([] : LV).length)) := by
  rw [range_eq]
  rfl

/-! ### `for d in range(dim): if temp[d] == maxLevel: temp[d] -= δ; break` -/

theorem forBreak_decFirst (m δ : Int) : ∀ (t pre : LV),
    forBreak ((List.range t.length).map (fun k => Int.ofNat (k + pre.length))) (pre ++ t)
      (fun (temp : LV) (d : Int) => if (getItem temp d == m) = true then (false, setItem temp d (getItem temp d - δ)) else (true, temp))
      = pre ++ decFirst m δ t
  | [], pre => by simp [forBreak, decFirst]
  | x :: t, pre => by
    rw [List.length_cons, range_shift]
    simp only [forBreak, getItem_mid, setItem_mid, decFirst]
    by_cases h : (x == m) = true
    · simp [h]
    · simp only [h, Bool.false_eq_true, if_false, if_true]
      have ih := forBreak_decFirst m δ t (pre ++ [x])
      simp only [List.length_append, List.length_cons, List.length_nil, List.append_assoc, List.cons_append, List.nil_append] at ih
      exact ih

/-- the same loop with `coarsening -= 1` in the branch that breaks -/
theorem forBreak_decFirst_c (m : Int) : ∀ (t pre : LV) (c : Int),
    forBreak ((List.range t.length).map (fun k => Int.ofNat (k + pre.length))) (pre ++ t, c)
      (fun (st : LV × Int) (d : Int) =>
        if (getItem st.1 d == m) = true then (false, (setItem st.1 d (getItem st.1 d - 1), st.2 - 1)) else (true, (st.1, st.2)))
      = (pre ++ decFirst m 1 t, if m ∈ t then c - 1 else c)
  | [], pre, c => by simp [forBreak, decFirst]
  | x :: t, pre, c => by
    rw [List.length_cons, range_shift]
    simp only [forBreak, getItem_mid, setItem_mid, decFirst]
    by_cases h : (x == m) = true
    · have : x = m := by simpa using h
      simp [h, this]
    · have hne : ¬ x = m := by simpa using h
      simp only [h, Bool.false_eq_true, if_false, if_true]
      have ih := forBreak_decFirst_c m t (pre ++ [x]) c
      simp only [List.length_append, List.length_cons, List.length_nil, List.append_assoc, List.cons_append, List.nil_append] at ih
      rw [ih]
      have : (m ∈ x :: t) ↔ m ∈ t := by
        simp only [List.mem_cons]
        constructor
        · rintro (h' | h')
          · exact absurd h'.symm hne
          · exact h'
        · exact Or.inr
      simp only [this]

/-! ### counting the maxima and lowering all of them -/

theorem foldl_count (m : Int) : ∀ (t : LV) (acc : Int),
    List.foldl (fun (occ : Int) (i : Int) => if (i == m) = true then occ + 1 else occ) acc t = acc + (countEq m t : Nat)
  | [], acc => by simp [countEq]
  | x :: t, acc => by
    simp only [List.foldl_cons, foldl_count m t, countEq, List.filter_cons]
    by_cases h : (x == m) = true
    · simp only [h, if_true, List.length_cons]; push_cast; omega
    · simp only [h, Bool.false_eq_true, if_false]

theorem foldl_decAll (m : Int) : ∀ (t pre : LV) (c : Int),
    List.foldl (fun (st : LV × Int) (d : Int) =>
        if (getItem st.1 d == m) = true then (setItem st.1 d (getItem st.1 d - 1), st.2 - 1) else (st.1, st.2))
      (pre ++ t, c) ((List.range t.length).map (fun k => Int.ofNat (k + pre.length)))
      = (pre ++ decAll m t, c - (countEq m t : Nat))
  | [], pre, c => by simp [decAll, countEq]
  | x :: t, pre, c => by
    rw [List.length_cons, range_shift]
    simp only [List.foldl_cons, getItem_mid, setItem_mid]
    by_cases h : (x == m) = true
    · simp only [h, if_true]
      have ih := foldl_decAll m t (pre ++ [x - 1]) (c - 1)
      simp only [List.length_append, List.length_cons, List.length_nil, List.append_assoc, List.cons_append, List.nil_append] at ih
      rw [ih]
      simp only [decAll, countEq, List.map_cons, List.filter_cons, h, if_true, List.length_cons]
      congr 1
      push_cast; omega
    · simp only [h, Bool.false_eq_true, if_false]
      have ih := foldl_decAll m t (pre ++ [x]) c
      simp only [List.length_append, List.length_cons, List.length_nil, List.append_assoc, List.cons_append, List.nil_append] at ih
      rw [ih]
      simp only [decAll, countEq, List.map_cons, List.filter_cons, h, Bool.false_eq_true, if_false]

theorem length_decFirst (m δ : Int) : ∀ t : LV, (decFirst m δ t).length = t.length
  | [] => rfl
  | x :: t => by
    unfold decFirst
    split <;> simp [length_decFirst m δ t]

/-! ### the final shift `[temp[d] - lmin[d] + int(noInitialSplitting) for d in range(len(temp))]` -/

theorem gen_level_coarse (temp : LV) (lmin : Int) (n : Nat) (h : temp.length ≤ n) :
    List.map (fun (d : Int) => getItem temp d - getItem (List.replicate n lmin) d + boolToInt false) (PyRt.range (PyRt.len temp))
      = temp.map (· - lmin) := by
  have e : PyRt.len temp = Int.ofNat temp.length := rfl
  rw [e, range_eq, List.map_map]
  have e2 : (Int.ofNat temp.length).toNat = temp.length := rfl
  rw [e2]
  have := map_range_getD (fun x => x - lmin) temp
  rw [← this]
  apply List.map_congr_left
  intro k hk
  have hk' := List.mem_range.mp hk
  simp only [Function.comp, getItem_ofNat, boolToInt]
  have : (List.replicate n lmin).getD k 0 = lmin := by
    rw [List.getD_eq_getElem?_getD, List.getElem?_replicate]
    have : k < n := by omega
    simp [this]
  rw [this]; simp

end SparseSpace
