import SparseSpace.Model.Hier
import Mathlib.Tactic.Ring
import Mathlib.Tactic.Linarith
import Mathlib.Algebra.BigOperators.Group.List.Basic
import Mathlib.Algebra.Order.Field.Rat
/-! Helper lemmas for C10: shapes, chunks, transposition, and the unidirectional principle. -/
namespace SparseSpace.Hier

/-- `L` is an `a × b` array (list of `a` rows of length `b`) -/
def Rect (L : List Vec) (a b : Nat) : Prop := L.length = a ∧ ∀ v ∈ L, v.length = b

theorem getD_of_lt (l : Vec) (i : Nat) (h : i < l.length) : l.getD i 0 = l[i] := by
  simp [List.getD, List.getElem?_eq_getElem h]

theorem getDL_of_lt (L : List Vec) (i : Nat) (h : i < L.length) : L.getD i [] = L[i] := by
  simp [List.getD, List.getElem?_eq_getElem h]

theorem range_map_getD (l : Vec) (b : Nat) (h : l.length = b) :
    (List.range b).map (fun q => l.getD q 0) = l := by
  apply List.ext_getElem
  · simp [h]
  · intro i h1 h2
    simp only [List.getElem_map, List.getElem_range]
    exact getD_of_lt l i h2

theorem tr_length (cnt : Nat) (L : List Vec) : (tr cnt L).length = cnt := by simp [tr]

theorem tr_rect (cnt : Nat) (L : List Vec) : Rect (tr cnt L) cnt L.length := by
  refine ⟨tr_length cnt L, ?_⟩
  intro v hv
  simp only [tr, List.mem_map, List.mem_range] at hv
  obtain ⟨q, _, rfl⟩ := hv
  simp

theorem tr_getElem (cnt : Nat) (L : List Vec) (q : Nat) (h : q < cnt) :
    (tr cnt L)[q]'(by rw [tr_length]; exact h) = L.map fun v => v.getD q 0 := by
  simp [tr]

/-- transposing twice gives the array back -/
theorem tr_tr (L : List Vec) (a b : Nat) (h : Rect L a b) : tr a (tr b L) = L := by
  obtain ⟨hl, hb⟩ := h
  apply List.ext_getElem
  · rw [tr_length, hl]
  · intro i h1 h2
    rw [tr_length] at h1
    rw [tr_getElem a _ i h1]
    have : ∀ q, ((L.map fun v => v.getD q 0).getD i 0) = (L[i]).getD q 0 := by
      intro q
      rw [getD_of_lt _ i (by simpa using h2)]
      simp
    simp only [tr, List.map_map]
    have e : ((fun v : Vec => v.getD i 0) ∘ fun q => List.map (fun v : Vec => v.getD q 0) L)
        = fun q => (L[i]).getD q 0 := by
      funext q; exact this q
    rw [e]
    exact range_map_getD _ b (hb _ (List.getElem_mem h2))

theorem tr_map_getD (L : List Vec) (a b : Nat) (h : Rect L a b) (q : Nat) (hq : q < L.length) :
    (tr b L).map (fun v => v.getD q 0) = L[q] := by
  have hq' : q < a := h.1 ▸ hq
  rw [← tr_getElem a (tr b L) q hq']
  exact List.getElem_of_eq (tr_tr L a b h) _

/-! ### chunks -/

theorem split_length (m k : Nat) (T : Vec) : (splitChunks m k T).length = k := by
  induction k generalizing T with
  | zero => rfl
  | succ k ih => simp [splitChunks, ih]

theorem split_rect (m k : Nat) (T : Vec) (h : T.length = k * m) : Rect (splitChunks m k T) k m := by
  refine ⟨split_length m k T, ?_⟩
  induction k generalizing T with
  | zero => intro v hv; simp [splitChunks] at hv
  | succ k ih =>
    intro v hv
    simp only [splitChunks, List.mem_cons] at hv
    rcases hv with rfl | hv
    · simp only [List.length_take]
      have : m ≤ T.length := by rw [h]; nlinarith
      omega
    · apply ih (T.drop m) _ v hv
      simp only [List.length_drop, h]
      rw [Nat.succ_mul]; omega

theorem split_flatten (C : List Vec) (k m : Nat) (h : Rect C k m) : splitChunks m k C.flatten = C := by
  obtain ⟨hl, hm⟩ := h
  induction C generalizing k with
  | nil => subst hl; rfl
  | cons c cs ih =>
    subst hl
    have hc : c.length = m := hm c (by simp)
    simp only [List.length_cons, splitChunks, List.flatten_cons]
    rw [List.take_left' hc, List.drop_left' hc, ih cs.length rfl (fun v hv => hm v (by simp [hv]))]

theorem split_getD (m k : Nat) (T : Vec) (i q : Nat) (hi : i < k) (hq : q < m) :
    ((splitChunks m k T).getD i []).getD q 0 = T.getD (i * m + q) 0 := by
  induction k generalizing T i with
  | zero => omega
  | succ k ih =>
    cases i with
    | zero =>
      simp only [splitChunks, List.getD_cons_zero, Nat.zero_mul, Nat.zero_add]
      simp only [List.getD_eq_getElem?_getD, List.getElem?_take, hq, if_true]
    | succ i =>
      simp only [splitChunks, List.getD_cons_succ]
      rw [ih (T.drop m) i (by omega)]
      simp only [List.getD_eq_getElem?_getD, List.getElem?_drop]
      congr 2
      rw [Nat.succ_mul]; omega

/-! ### `mapOpt` -/

theorem mapOpt_some {α β : Type} (f : α → Option β) (l : List α) (r : List β) (h : mapOpt f l = some r) :
    r.length = l.length ∧ ∀ i (hi : i < l.length) (hr : i < r.length), f l[i] = some r[i] := by
  induction l generalizing r with
  | nil =>
    simp only [mapOpt, Option.some.injEq] at h
    subst h; exact ⟨rfl, fun i hi => by simp at hi⟩
  | cons a as ih =>
    simp only [mapOpt] at h
    split at h
    · rename_i b bs hb hbs
      simp only [Option.some.injEq] at h
      subst h
      obtain ⟨l1, l2⟩ := ih bs hbs
      refine ⟨by simp [l1], ?_⟩
      intro i hi hr
      cases i with
      | zero => simpa using hb
      | succ i => simpa using l2 i (by simpa using hi) (by simpa using hr)
    · cases h

/-! ### dot products and matrices -/

theorem mulVec_getElem (B : Mat) (v : Vec) (i : Nat) (h : i < B.length) :
    (mulVec B v)[i]'(by simpa [mulVec] using h) = dot B[i] v := by
  simp [mulVec]

theorem colloc_getElem (D : Dim1) (i : Nat) (h : i < D.xs.length) :
    (colloc D)[i]'(by simp only [colloc, List.length_map]; exact h) = evalRow D (D.xs[i]'h) := by
  simp only [colloc, List.getElem_map, evalRow]

theorem colloc_length (D : Dim1) : (colloc D).length = D.n := by simp [colloc, Dim1.n]

/-- the contract of the linear solve used by the hierarchisation -/
def SolverSound (solver : Mat → Vec → Option Vec) : Prop :=
  ∀ B v α, solver B v = some α → α.length = v.length ∧ mulVec B α = v

theorem poleSolve_sound (solver : Mat → Vec → Option Vec) (hs : SolverSound solver) (D : Dim1) (v α : Vec)
    (hv : v.length = D.n) (h : poleSolve solver D v = some α) :
    α.length = D.n ∧ mulVec (colloc D) α = v := by
  unfold poleSolve at h
  split at h
  · rename_i h1
    split at h
    · rename_i h2
      simp only [Option.some.injEq] at h
      subst h
      have h1' : D.n = 1 := by simpa using h1
      have h2' : colloc D = [[1]] := by simpa using h2
      refine ⟨hv, ?_⟩
      rw [h2']
      rw [h1'] at hv
      match v, hv with
      | [x], _ => simp [mulVec, dot]
    · cases h
  · obtain ⟨l, e⟩ := hs _ _ _ h
    exact ⟨by rw [l, hv], e⟩

/-! ### sizes and indices -/

theorem flatIdx_lt (dims : List Dim1) (p : List Nat) (h : validIdx dims p) : flatIdx dims p < size dims := by
  induction dims generalizing p with
  | nil =>
    cases p with
    | nil => simp [flatIdx, size]
    | cons i is => simp [validIdx] at h
  | cons D rest ih =>
    cases p with
    | nil => simp [validIdx] at h
    | cons i is =>
      simp only [validIdx] at h
      obtain ⟨hi, hr⟩ := h
      have := ih is hr
      simp only [flatIdx, size]
      calc i * size rest + flatIdx rest is < i * size rest + size rest := by omega
        _ = (i + 1) * size rest := by ring
        _ ≤ D.n * size rest := Nat.mul_le_mul_right _ hi

/-- every dimension has as many basis functions as points -/
def WellFormed (dims : List Dim1) : Prop := ∀ D ∈ dims, D.basis.length = D.xs.length

theorem rows_size (dims : List Dim1) (p : List Nat) (hw : WellFormed dims) (hp : validIdx dims p) :
    ((List.zipWith evalRow dims (nodeCoords dims p)).map List.length).foldr (· * ·) 1 = size dims := by
  induction dims generalizing p with
  | nil => simp [size]
  | cons D rest ih =>
    cases p with
    | nil => simp [validIdx] at hp
    | cons i is =>
      simp only [validIdx] at hp
      simp only [nodeCoords, List.zipWith_cons_cons, List.map_cons, List.foldr_cons, size]
      rw [ih is (fun D hD => hw D (by simp [hD])) hp.2]
      have : (evalRow D (D.xs.getD i 0)).length = D.n := by
        simp [evalRow, Dim1.n, hw D (by simp)]
      rw [this]

theorem hier_length (solver : Mat → Vec → Option Vec) (_hs : SolverSound solver) (dims : List Dim1) (T S : Vec)
    (hT : T.length = size dims) (h : hier solver dims T = some S) : S.length = size dims := by
  induction dims generalizing T S with
  | nil => simp only [hier, Option.some.injEq] at h; subst h; exact hT
  | cons D rest ih =>
    simp only [hier] at h
    split at h
    · cases h
    · rename_i cols hcols
      split at h
      · cases h
      · rename_i chunks hch
        simp only [Option.some.injEq] at h
        subst h
        obtain ⟨l1, e1⟩ := mapOpt_some _ _ _ hch
        rw [tr_length] at l1
        -- every chunk has length `size rest`
        have hrect : Rect chunks D.n (size rest) := by
          refine ⟨l1, ?_⟩
          intro v hv
          obtain ⟨i, hi, rfl⟩ := List.getElem_of_mem hv
          have hi' : i < (tr D.n cols).length := by rw [tr_length]; omega
          have := e1 i hi' hi
          apply ih _ _ _ this
          have hr := (tr_rect D.n cols).2 _ (List.getElem_mem hi')
          rw [hr]
          obtain ⟨l0, _⟩ := mapOpt_some _ _ _ hcols
          rw [l0, tr_length]
        have : ∀ (C : List Vec) (a b : Nat), Rect C a b → C.flatten.length = a * b := by
          intro C a b hC
          obtain ⟨hl, hb⟩ := hC
          induction C generalizing a with
          | nil => subst hl; simp
          | cons c cs ihc =>
            subst hl
            simp only [List.flatten_cons, List.length_append, List.length_cons]
            rw [ihc cs.length rfl (fun v hv => hb v (by simp [hv])), hb c (by simp)]
            ring
        simpa [size] using this _ _ _ hrect

/-- **unidirectional principle**: after the dimension-by-dimension pole solves, the tensor-product interpolant
takes the original value at every grid node -/
theorem hier_interp_node (solver : Mat → Vec → Option Vec) (hs : SolverSound solver) (dims : List Dim1)
    (hw : WellFormed dims) (T S : Vec) (hT : T.length = size dims) (h : hier solver dims T = some S)
    (p : List Nat) (hp : validIdx dims p) :
    T[flatIdx dims p]? = some (interp dims (nodeCoords dims p) S) := by
  induction dims generalizing T S p with
  | nil =>
    cases p with
    | cons i is => simp [validIdx] at hp
    | nil =>
      simp only [hier, Option.some.injEq] at h
      subst h
      simp only [size] at hT
      match T, hT with
      | [t], _ => simp [flatIdx, interp, nodeCoords, interpPoint]
  | cons D rest ih =>
    cases p with
    | nil => simp [validIdx] at hp
    | cons i is =>
      simp only [validIdx] at hp
      obtain ⟨hi, his⟩ := hp
      have hwr : WellFormed rest := fun D hD => hw D (by simp [hD])
      simp only [hier] at h
      split at h
      · cases h
      · rename_i cols hcols
        split at h
        · cases h
        · rename_i chunks hch
          simp only [Option.some.injEq] at h
          subst h
          set m := size rest with hm
          set C := splitChunks m D.n T with hC
          have hCrect : Rect C D.n m := split_rect m D.n T (by simpa [size] using hT)
          obtain ⟨lc, ec⟩ := mapOpt_some _ _ _ hcols
          rw [tr_length] at lc
          -- the solved poles form an m × n array
          have hcolsRect : Rect cols m D.n := by
            refine ⟨lc, ?_⟩
            intro v hv
            obtain ⟨q, hq, rfl⟩ := List.getElem_of_mem hv
            have hq' : q < (tr m C).length := by rw [tr_length]; omega
            have hlen : ((tr m C)[q]).length = D.n := by
              rw [(tr_rect m C).2 _ (List.getElem_mem hq'), hCrect.1]
            exact (poleSolve_sound solver hs D _ _ hlen (ec q hq' hq)).1
          obtain ⟨lch, ech⟩ := mapOpt_some _ _ _ hch
          rw [tr_length] at lch
          have hC'rect : Rect (tr D.n cols) D.n m := by
            have := tr_rect D.n cols
            rwa [lc] at this
          have hchRect : Rect chunks D.n m := by
            refine ⟨lch, ?_⟩
            intro v hv
            obtain ⟨j, hj, rfl⟩ := List.getElem_of_mem hv
            have hj' : j < (tr D.n cols).length := by rw [tr_length]; omega
            exact hier_length solver hs rest _ _ (hC'rect.2 _ (List.getElem_mem hj')) (ech j hj' hj)
          have hq : flatIdx rest is < m := flatIdx_lt rest is his
          -- the interpolant splits the surplus array into the chunks again
          have hrowlen : (evalRow D (D.xs.getD i 0)).length = D.n := by
            simp [evalRow, Dim1.n, hw D (by simp)]
          simp only [interp, nodeCoords, List.zipWith_cons_cons, interpPoint]
          rw [rows_size rest is hwr his, hrowlen, split_flatten chunks D.n m hchRect]
          -- inner interpolation of every chunk = entry `q` of the corresponding row of `tr n cols`
          have hinner : chunks.map (interpPoint (List.zipWith evalRow rest (nodeCoords rest is)))
              = (tr D.n cols).map fun v => v.getD (flatIdx rest is) 0 := by
            apply List.ext_getElem
            · simp [lch, tr_length]
            · intro j h1 h2
              simp only [List.getElem_map]
              have hj : j < chunks.length := by simpa using h1
              have hj' : j < (tr D.n cols).length := by simpa using h2
              have := ih hwr _ _ (hC'rect.2 _ (List.getElem_mem hj')) (ech j hj' hj) is his
              simp only [interp] at this
              rw [List.getD_eq_getElem?_getD, this]
              rfl
          have hq2 : flatIdx rest is < (tr m C).length := by rw [tr_length]; exact hq
          have hq3 : flatIdx rest is < cols.length := by rw [lc]; exact hq
          rw [hinner, tr_map_getD cols m D.n hcolsRect _ hq3]
          -- the pole through the node solves the collocation system
          have hlen : ((tr m C)[flatIdx rest is]).length = D.n := by
            rw [(tr_rect m C).2 _ (List.getElem_mem hq2), hCrect.1]
          obtain ⟨_, hsol⟩ := poleSolve_sound solver hs D _ _ hlen (ec _ hq2 hq3)
          have hi2 : i < (colloc D).length := by rw [colloc_length]; exact hi
          have hrow : evalRow D (D.xs.getD i 0) = (colloc D)[i] := by
            rw [colloc_getElem D i hi, getD_of_lt _ _ hi]
          have hiC : i < C.length := by rw [hCrect.1]; exact hi
          have hidx : i * m + flatIdx rest is < T.length := by
            rw [hT]; simp only [size]
            calc i * m + flatIdx rest is < i * m + m := by omega
              _ = (i + 1) * m := by ring
              _ ≤ D.n * m := Nat.mul_le_mul_right _ hi
          have key : dot (colloc D)[i] cols[flatIdx rest is] = T.getD (i * m + flatIdx rest is) 0 := by
            have h1 : dot (colloc D)[i] cols[flatIdx rest is]
                = (mulVec (colloc D) cols[flatIdx rest is]).getD i 0 := by
              rw [getD_of_lt _ i (by simpa [mulVec] using hi2), mulVec_getElem (colloc D) _ i hi2]
            rw [h1, hsol, tr_getElem m C _ hq, getD_of_lt _ i (by simpa using hiC)]
            simp only [List.getElem_map]
            have e1 := split_getD m D.n T i (flatIdx rest is) hi hq
            rw [← hC, getDL_of_lt C i hiC] at e1
            exact e1
          rw [hrow, key]
          simp only [flatIdx]
          rw [getD_of_lt _ _ hidx, List.getElem?_eq_getElem hidx]

end SparseSpace.Hier
