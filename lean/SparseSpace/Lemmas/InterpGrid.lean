import SparseSpace.Lemmas.Interp
import SparseSpace.Lemmas.CombAlg
/-!
# Lemmas on the tensor component grids: membership, announced counts, level vector of a point
-/
namespace SparseSpace

/-! ## cross products -/

/-- `p` has one coordinate from every axis -/
def InAxes {α : Type} : List (List α) → List α → Prop
  | [], [] => True
  | ax :: rest, x :: xs => x ∈ ax ∧ InAxes rest xs
  | _, _ => False

theorem mem_cross {α : Type} : ∀ (axes : List (List α)) (p : List α), p ∈ cross axes ↔ InAxes axes p
  | [], [] => by simp [cross, InAxes]
  | [], _ :: _ => by simp [cross, InAxes]
  | ax :: rest, [] => by simp [cross, InAxes]
  | ax :: rest, x :: xs => by
      unfold cross InAxes
      rw [List.mem_flatMap]
      constructor
      · rintro ⟨t, ht, hp⟩
        rw [List.mem_map] at hp
        obtain ⟨q, hq, heq⟩ := hp
        injection heq with h1 h2
        subst h1; subst h2
        exact ⟨ht, (mem_cross rest q).1 hq⟩
      · rintro ⟨hx, hr⟩
        exact ⟨x, hx, List.mem_map.2 ⟨xs, (mem_cross rest xs).2 hr, rfl⟩⟩

theorem cross_length {α : Type} : ∀ (axes : List (List α)), (cross axes).length = (axes.map List.length).prod
  | [] => by simp [cross]
  | ax :: rest => by
      unfold cross
      rw [List.length_flatMap]
      simp only [List.length_map, cross_length rest, List.map_cons, List.prod_cons]
      rw [List.map_const', List.sum_replicate]
      simp

theorem cross_nodup {α : Type} : ∀ (axes : List (List α)), (∀ ax ∈ axes, ax.Nodup) → (cross axes).Nodup
  | [], _ => by simp [cross]
  | ax :: rest, h => by
      unfold cross
      rw [List.nodup_flatMap]
      constructor
      · intro x _
        exact (cross_nodup rest (fun a ha => h a (List.mem_cons_of_mem _ ha))).map (fun _ _ h => by injection h)
      · have hax : ax.Nodup := h ax (List.mem_cons_self ..)
        refine hax.imp_of_mem ?_
        intro x y _ _ hxy l hl1 hl2
        simp only [List.mem_map] at hl1 hl2
        obtain ⟨q1, _, rfl⟩ := hl1
        obtain ⟨q2, _, heq⟩ := hl2
        injection heq with h3 _
        exact hxy h3.symm

/-! ## component grids -/

theorem gridAxes_map_length : ∀ (bd : Flags) (a b : List Rat) (lv : LV), a.length = lv.length → b.length = lv.length →
    (gridAxes a b lv bd).map List.length = gridNumPoints lv bd
  | bd, [], [], [], _, _ => rfl
  | bd, a :: as, b :: bs, l :: ls, ha, hb => by
      simp only [gridAxes, List.map_cons, gridNumPoints, levelPoints_length]
      congr 1
      exact gridAxes_map_length bd.tl as bs ls (by simpa using ha) (by simpa using hb)
  | bd, [], _ :: _, [], _, hb => by simp at hb
  | bd, _ :: _, _, [], ha, _ => by simp at ha
  | bd, [], _, _ :: _, ha, _ => by simp at ha
  | bd, _ :: _, [], _ :: _, _, hb => by simp at hb

theorem foldl_mul_eq_prod (l : List Nat) : l.foldl (· * ·) 1 = l.prod := by
  rw [List.prod_eq_foldl]

/-- **announced count**: the number of points a component grid returns is the announced
`np.prod(levelToNumPoints(levelvec))` -/
theorem gridPoints_length (a b : List Rat) (lv : LV) (bd : Flags) (ha : a.length = lv.length)
    (hb : b.length = lv.length) : (gridPoints a b lv bd).length = gridNumPointsTotal lv bd := by
  unfold gridPoints gridNumPointsTotal
  rw [cross_length, gridAxes_map_length bd a b lv ha hb, foldl_mul_eq_prod]

theorem weightAxes_map_length : ∀ (bd : Flags) (a b : List Rat) (lv : LV), a.length = lv.length → b.length = lv.length →
    (weightAxes a b lv bd).map List.length = gridNumPoints lv bd
  | bd, [], [], [], _, _ => rfl
  | bd, a :: as, b :: bs, l :: ls, ha, hb => by
      simp only [weightAxes, List.map_cons, gridNumPoints, levelWeights_length]
      congr 1
      exact weightAxes_map_length bd.tl as bs ls (by simpa using ha) (by simpa using hb)
  | bd, [], _ :: _, [], _, hb => by simp at hb
  | bd, _ :: _, _, [], ha, _ => by simp at ha
  | bd, [], _, _ :: _, ha, _ => by simp at ha
  | bd, _ :: _, [], _ :: _, _, hb => by simp at hb

/-- as many weights as points -/
theorem gridWeights_length (a b : List Rat) (lv : LV) (bd : Flags) (ha : a.length = lv.length)
    (hb : b.length = lv.length) : (gridWeights a b lv bd).length = gridNumPointsTotal lv bd := by
  unfold gridWeights gridNumPointsTotal
  rw [List.length_map, cross_length, weightAxes_map_length bd a b lv ha hb, foldl_mul_eq_prod]

/-- the box is non-degenerate in every dimension -/
def BoxOK : List Rat → List Rat → Prop
  | [], [] => True
  | a :: as, b :: bs => a < b ∧ BoxOK as bs
  | _, _ => False

theorem BoxOK_length : ∀ (a b : List Rat), BoxOK a b → a.length = b.length
  | [], [], _ => rfl
  | a :: as, b :: bs, h => by simp [BoxOK_length as bs h.2]
  | [], _ :: _, h => by simp [BoxOK] at h
  | _ :: _, [], h => by simp [BoxOK] at h

/-- no point is returned twice -/
theorem gridPoints_nodup (bd : Flags) : ∀ (a b : List Rat) (lv : LV), BoxOK a b → (gridPoints a b lv bd).Nodup := by
  intro a b lv hab
  unfold gridPoints
  apply cross_nodup
  induction a generalizing b lv bd with
  | nil => intro ax hax; simp [gridAxes] at hax
  | cons a as ih =>
    cases b with
    | nil => simp [BoxOK] at hab
    | cons b bs =>
      cases lv with
      | nil => intro ax hax; simp [gridAxes] at hax
      | cons l ls =>
        intro ax hax
        simp only [gridAxes, List.mem_cons] at hax
        rcases hax with rfl | hax
        · exact (levelPoints_sorted a b hab.1 _ (bd 0)).imp (fun h => ne_of_lt h)
        · exact ih bd.tl bs ls hab.2 ax hax

/-- membership in a component grid, coordinate by coordinate -/
def InGrid : Flags → List Rat → List Rat → LV → List Rat → Prop
  | _, [], [], [], [] => True
  | bd, a :: as, b :: bs, l :: ls, x :: xs => x ∈ levelPoints a b l.toNat (bd 0) ∧ InGrid bd.tl as bs ls xs
  | _, _, _, _, _ => False

theorem mem_gridPoints : ∀ (bd : Flags) (a b : List Rat) (lv : LV) (x : List Rat),
    a.length = lv.length → b.length = lv.length → (x ∈ gridPoints a b lv bd ↔ InGrid bd a b lv x)
  | bd, [], [], [], [], _, _ => by simp [gridPoints, gridAxes, cross, InGrid]
  | bd, [], [], [], _ :: _, _, _ => by simp [gridPoints, gridAxes, cross, InGrid]
  | bd, a :: as, b :: bs, l :: ls, [], _, _ => by
      simp [gridPoints, gridAxes, mem_cross, InAxes, InGrid]
  | bd, a :: as, b :: bs, l :: ls, x :: xs, ha, hb => by
      have ih := mem_gridPoints bd.tl as bs ls xs (by simpa using ha) (by simpa using hb)
      unfold gridPoints at ih ⊢
      rw [mem_cross] at ih ⊢
      simp only [gridAxes, InAxes, InGrid]
      rw [ih]
  | bd, [], _ :: _, [], _, _, hb => by simp at hb
  | bd, _ :: _, _, [], _, ha, _ => by simp at ha
  | bd, [], _, _ :: _, _, ha, _ => by simp at ha
  | bd, _ :: _, [], _ :: _, _, _, hb => by simp at hb

theorem InGrid_length : ∀ (bd : Flags) (a b : List Rat) (lv : LV) (x : List Rat), InGrid bd a b lv x → x.length = lv.length
  | bd, [], [], [], [], _ => rfl
  | bd, a :: as, b :: bs, l :: ls, x :: xs, h => by simp [InGrid_length bd.tl as bs ls xs h.2]
  | bd, [], [], [], _ :: _, h => by simp [InGrid] at h
  | bd, _ :: _, _ :: _, _ :: _, [], h => by simp [InGrid] at h
  | bd, [], _ :: _, _, _, h => by simp [InGrid] at h
  | bd, _ :: _, [], _, _, h => by simp [InGrid] at h
  | bd, [], [], _ :: _, _, h => by simp [InGrid] at h
  | bd, _ :: _, _ :: _, [], _, h => by simp [InGrid] at h

/-- **nestedness of the component grids**: `l ≤ l'` componentwise ⇒ `grid_l ⊆ grid_l'` -/
theorem InGrid_nested : ∀ (bd : Flags) (a b : List Rat) (l l' : LV) (x : List Rat),
    leAll l l' = true → InGrid bd a b l x → InGrid bd a b l' x
  | bd, [], [], [], [], [], _, _ => trivial
  | bd, a :: as, b :: bs, l :: ls, l' :: ls', x :: xs, hle, h => by
      simp only [leAll, Bool.and_eq_true, decide_eq_true_eq] at hle
      exact ⟨levelPoints_nested a b (bd 0) (Int.toNat_le_toNat hle.1) h.1, InGrid_nested bd.tl as bs ls ls' xs hle.2 h.2⟩
  | bd, [], [], [], _ :: _, _, hle, _ => by simp [leAll] at hle
  | bd, _, _, _ :: _, [], _, hle, _ => by simp [leAll] at hle
  | bd, [], [], [], [], _ :: _, _, h => by simp [InGrid] at h
  | bd, _ :: _, _ :: _, _ :: _, _ :: _, [], _, h => by simp [InGrid] at h
  | bd, [], _ :: _, _, _, _, _, h => by simp [InGrid] at h
  | bd, _ :: _, [], _, _, _, _, h => by simp [InGrid] at h
  | bd, [], [], _ :: _, _, _, _, h => by simp [InGrid] at h
  | bd, _ :: _, _ :: _, [], _, _, _, h => by simp [InGrid] at h

/-- **level vector of a point**: a point of some component grid `L ≥ lmin` has a smallest level vector
`k ≥ lmin`, and it lies in the grid of `l ≥ lmin` iff `k ≤ l` componentwise -/
theorem exists_levelvec (lmin : Int) (h0 : 0 ≤ lmin) : ∀ (bd : Flags) (a b : List Rat) (L : LV) (x : List Rat),
    geAll lmin L → InGrid bd a b L x →
    ∃ k : LV, k.length = L.length ∧ geAll lmin k ∧ leAll k L = true ∧ InGrid bd a b k x ∧
      ∀ l : LV, l.length = L.length → geAll lmin l → (InGrid bd a b l x ↔ leAll k l = true)
  | bd, [], [], [], [], _, _ => by
      refine ⟨[], rfl, fun _ h => by simp at h, rfl, trivial, ?_⟩
      intro l hl _
      have : l = [] := List.eq_nil_of_length_eq_zero hl
      subst this
      simp [InGrid, leAll]
  | bd, a :: as, b :: bs, L :: Ls, x :: xs, hL, h => by
      have hL0 : lmin ≤ L := hL L (List.mem_cons_self ..)
      obtain ⟨ks, hks1, hks2, hks3, hks4, hks5⟩ :=
        exists_levelvec lmin h0 bd.tl as bs Ls xs (fun y hy => hL y (List.mem_cons_of_mem _ hy)) h.2
      obtain ⟨k, hk1, hk2, hk3⟩ :=
        exists_level a b (bd 0) lmin.toNat L.toNat (Int.toNat_le_toNat hL0) x h.1
      have hkk : ((k : Int)).toNat = k := Int.toNat_natCast k
      refine ⟨(k : Int) :: ks, by simp [hks1], ?_, ?_, ?_, ?_⟩
      · intro y hy
        rcases List.mem_cons.1 hy with rfl | hy
        · omega
        · exact hks2 y hy
      · simp only [leAll, Bool.and_eq_true, decide_eq_true_eq]
        exact ⟨by omega, hks3⟩
      · refine ⟨?_, hks4⟩
        rw [hkk]
        exact (hk3 k hk1).2 (le_refl _)
      · intro l hl hlmin
        cases l with
        | nil => simp at hl
        | cons l ls =>
          have hl0 : lmin ≤ l := hlmin l (List.mem_cons_self ..)
          simp only [InGrid, leAll, Bool.and_eq_true, decide_eq_true_eq]
          rw [hks5 ls (by simpa using hl) (fun y hy => hlmin y (List.mem_cons_of_mem _ hy)),
            hk3 l.toNat (Int.toNat_le_toNat hl0)]
          constructor
          · rintro ⟨h1, h2⟩; exact ⟨by omega, h2⟩
          · rintro ⟨h1, h2⟩; exact ⟨by omega, h2⟩
  | bd, [], [], [], _ :: _, _, h => by simp [InGrid] at h
  | bd, _ :: _, _ :: _, _ :: _, [], _, h => by simp [InGrid] at h
  | bd, [], _ :: _, _, _, _, h => by simp [InGrid] at h
  | bd, _ :: _, [], _, _, _, h => by simp [InGrid] at h
  | bd, [], [], _ :: _, _, _, h => by simp [InGrid] at h
  | bd, _ :: _, _ :: _, [], _, _, h => by simp [InGrid] at h

/-! ## the interpolation mesh of a component grid -/

/-- a point of the component grid `k` is a mesh point of the mesh of `k` -/
theorem onMesh_of_inGrid : ∀ (bd : Flags) (a b : List Rat) (k : LV) (x : List Rat),
    BoxOK a b → InGrid bd a b k x → OnMesh (meshAxes a b k bd) x
  | bd, [], [], [], [], _, _ => trivial
  | bd, a :: as, b :: bs, k :: ks, x :: xs, hab, h =>
      ⟨meshAxis_sorted a b hab.1 _ (bd 0), levelPoints_sub_meshAxis a b _ (bd 0) h.1, onMesh_of_inGrid bd.tl as bs ks xs hab.2 h.2⟩
  | bd, [], [], [], _ :: _, _, h => by simp [InGrid] at h
  | bd, _ :: _, _ :: _, _ :: _, [], _, h => by simp [InGrid] at h
  | bd, [], _ :: _, _, _, _, h => by simp [InGrid] at h
  | bd, _ :: _, [], _, _, _, h => by simp [InGrid] at h
  | bd, [], [], _ :: _, _, _, h => by simp [InGrid] at h
  | bd, _ :: _, _ :: _, [], _, _, h => by simp [InGrid] at h

/-- the meshes of `l` and of `l ⊓ k` agree at a point of the component grid `k` -/
theorem meshAgree_meet : ∀ (bd : Flags) (a b : List Rat) (l k : LV) (x : List Rat),
    BoxOK a b → l.length = k.length → InGrid bd a b k x →
    MeshAgree (meshAxes a b l bd) (meshAxes a b (meet l k) bd) x
  | bd, [], [], [], [], [], _, _, _ => trivial
  | bd, a :: as, b :: bs, l :: ls, k :: ks, x :: xs, hab, hl, h => by
      simp only [meet_cons, meshAxes, MeshAgree]
      refine ⟨?_, meshAgree_meet bd.tl as bs ls ks xs hab.2 (by simpa using hl) h.2⟩
      by_cases hkl : k ≤ l
      · right
        have hmin : min l k = k := by omega
        rw [hmin]
        exact ⟨meshAxis_sorted a b hab.1 _ (bd 0), meshAxis_sorted a b hab.1 _ (bd 0),
          levelPoints_sub_meshAxis a b _ (bd 0) (levelPoints_nested a b (bd 0) (Int.toNat_le_toNat hkl) h.1),
          levelPoints_sub_meshAxis a b _ (bd 0) h.1⟩
      · left
        have hmin : min l k = l := by omega
        rw [hmin]
  | bd, [], [], _ :: _, [], _, _, hl, _ => by simp at hl
  | bd, [], [], [], _ :: _, _, _, hl, _ => by simp at hl
  | bd, [], [], [], [], _ :: _, _, _, h => by simp [InGrid] at h
  | bd, _ :: _, _ :: _, _, _ :: _, [], _, _, h => by simp [InGrid] at h
  | bd, [], _ :: _, _, _, _, _, _, h => by simp [InGrid] at h
  | bd, _ :: _, [], _, _, _, _, _, h => by simp [InGrid] at h
  | bd, [], [], _, _ :: _, _, _, _, h => by simp [InGrid] at h
  | bd, _ :: _, _ :: _, _, [], _, _, _, h => by simp [InGrid] at h

end SparseSpace
