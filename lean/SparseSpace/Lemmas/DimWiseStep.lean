import SparseSpace.Lemmas.RefTreePost
import SparseSpace.Lemmas.RefTreeRebal
import SparseSpace.Lemmas.RefTreeCoarsen
import SparseSpace.Lemmas.RefTreeInit
import SparseSpace.Model.DimWise
import SparseSpace.Lemmas.Combi
import SparseSpace.Lemmas.DimWiseRaise
/-!
# One `refine()` call of the dimension-wise strategy keeps the whole state well formed (C06, used by C03)
-/
namespace SparseSpace

/-- geometry of one container: tiling of `[a, b]`, refinement tree, cursors reset -/
structure ContGeo (a b : Rat) (c : Cont) : Prop where
  til : Til a 0 b 0 c.objs
  tree : Tree 0 (innerLevels c.objs)
  reset : c.Reset
  len4 : 4 ≤ c.objs.length

/-- coarsening clause: `coarsening_level = lmax_d - max(levels)`, never negative -/
def CoarsOK (lm : Int) (objs : List Ival) : Prop :=
  ∀ x ∈ objs, x.c = lm - ((max x.l0 x.l1 : Nat) : Int) ∧ 0 ≤ x.c

/-- state invariant; `k` = number of leading dimensions whose coarsening levels are up to date
(`k = dim` between two `refine()` calls); `lmax0` = the start level -/
structure DWInv (a b : List Rat) (lmax0 : Int) (k : Nat) (st : DW) : Prop where
  dim_pos : 1 ≤ st.dim
  lmin0 : 0 ≤ st.lmin
  lmin_le : st.lmin ≤ lmax0
  llmax : st.lmax.length = st.dim
  lconts : st.m.conts.length = st.dim
  cur : st.m.cur = 0
  geo : ∀ d c, st.m.conts[d]? = some c → ContGeo (a.getD d 0) (b.getD d 0) c
  coars : ∀ d c lm, d < k → st.m.conts[d]? = some c → st.lmax[d]? = some lm → CoarsOK lm c.objs
  reach : ∃ ops, st.cs = runOps (CS.init st.dim lmax0 st.lmin) ops

/-- the well-formedness of a state between two `refine()` calls -/
def DWWF (a b : List Rat) (lmax0 : Int) (st : DW) : Prop := DWInv a b lmax0 st.dim st

theorem DWInv.scheme {a b : List Rat} {lmax0 : Int} {k : Nat} {st : DW} (h : DWInv a b lmax0 k st) :
    SchemeInv st.cs ∧ st.cs.dim = st.dim ∧ st.cs.lmin = st.lmin := by
  obtain ⟨ops, e⟩ := h.reach
  rw [e]
  exact ⟨inv_runOps _ ops (inv_init st.dim st.lmin lmax0 h.dim_pos h.lmin0 h.lmin_le), runOps_dim _ _, runOps_lmin _ _⟩

/-! ## `raise_lmax` only uses `update_adaptive_combi` -/

theorem runOps_append (s : CS) (o1 o2 : List LV) : runOps (runOps s o1) o2 = runOps s (o1 ++ o2) := by
  simp [runOps, List.foldl_append]

theorem raisePass_runOps (lmax : List Int) (lmin : Int) (cs : CS) :
    (raisePass lmax lmin cs).1 = runOps cs (cs.active.filter (raiseCond lmax lmin cs.dim)) := by
  unfold raisePass
  generalize cs.active = l
  generalize hn : (0 : Nat) = n
  clear hn
  have : ∀ (l : List LV) (acc : CS) (n : Nat),
      (l.foldl (fun (acc : CS × Nat) idx =>
          if raiseCond lmax lmin cs.dim idx then ((acc.1.update idx).1, acc.2 + 1) else acc) (acc, n)).1
        = runOps acc (l.filter (raiseCond lmax lmin cs.dim)) := by
    intro l
    induction l with
    | nil => intro acc n; rfl
    | cons x xs ih =>
      intro acc n
      simp only [List.foldl_cons, List.filter_cons]
      by_cases hx : raiseCond lmax lmin cs.dim x = true
      · simp only [hx, if_true]
        rw [ih]; rfl
      · simp only [hx]
        rw [ih]; rfl
  exact this l cs n

theorem raiseLoop_runOps (lmax : List Int) (lmin : Int) : ∀ (fuel : Nat) (cs : CS),
    ∃ ops, (raiseLoop lmax lmin fuel cs).1 = runOps cs ops
  | 0, cs => ⟨[], rfl⟩
  | f+1, cs => by
    simp only [raiseLoop]
    by_cases h : (raisePass lmax lmin cs).2 = 0
    · simp only [h, beq_self_eq_true, if_true]
      exact ⟨_, raisePass_runOps lmax lmin cs⟩
    · have : ((raisePass lmax lmin cs).2 == 0) = false := by simp [h]
      simp only [this, Bool.false_eq_true, if_false]
      obtain ⟨ops, e⟩ := raiseLoop_runOps lmax lmin f (raisePass lmax lmin cs).1
      rw [e, raisePass_runOps, runOps_append]
      exact ⟨_, rfl⟩

/-! ## coarsening update of one dimension -/

theorem getD_eq_of_getElem? {α : Type} {l : List α} {d : Nat} {x y : α} (h : l[d]? = some x) : l.getD d y = x := by
  simp [List.getD, h]

theorem postDim_spec (a b : List Rat) (lmax0 : Int) (st : DW) (d : Nat) (hd : d < st.dim)
    (h : DWInv a b lmax0 d st) :
    DWInv a b lmax0 (d + 1) (st.postDim d).1 ∧ (st.postDim d).1.dim = st.dim ∧ (st.postDim d).2 = true := by
  have hdc : d < st.m.conts.length := by rw [h.lconts]; exact hd
  have hdl : d < st.lmax.length := by rw [h.llmax]; exact hd
  obtain ⟨c, hc⟩ : ∃ c, st.m.conts[d]? = some c := ⟨_, List.getElem?_eq_getElem hdc⟩
  obtain ⟨lm, hl⟩ : ∃ lm, st.lmax[d]? = some lm := ⟨_, List.getElem?_eq_getElem hdl⟩
  have hgeo := h.geo d c hc
  have hdim : (st.postDim d).1.dim = st.dim := by
    unfold DW.postDim
    simp only [hc, hl]
    split <;> rfl
  have hflag : (st.postDim d).2 = true := by
    unfold DW.postDim
    simp only [hc, hl]
    split
    · have hsch := h.scheme
      have := raiseFuel_enough (st.lmax.set d (lm + updateDim (setCoarsening lm c.objs))) st.lmin st.cs hsch.1 hsch.2.2
      rw [hsch.2.1] at this
      exact this
    · rfl
  refine ⟨?_, hdim, hflag⟩
  unfold DW.postDim
  simp only [hc, hl]
  have hspec := coarsening_update lm c.objs
  simp only [] at hspec
  by_cases hu : updateDim (setCoarsening lm c.objs) > 0
  · simp only [hu, if_true]
    refine ⟨h.dim_pos, h.lmin0, h.lmin_le, by simp [h.llmax], by simp [h.lconts], h.cur, ?_, ?_, ?_⟩
    · intro d' c' hc'
      simp only [List.getElem?_set] at hc'
      by_cases hdd : d = d'
      · subst hdd
        simp only [hdc, if_true, Option.some.injEq] at hc'
        subst hc'
        have e := (addCoarsening_geom (updateDim (setCoarsening lm c.objs)) (setCoarsening lm c.objs)).trans
          (setCoarsening_geom lm c.objs)
        exact ⟨til_geom _ _ e.symm hgeo.til, by rw [innerLevels_geom _ _ e]; exact hgeo.tree, hgeo.reset,
          by simpa [addCoarsening, setCoarsening] using hgeo.len4⟩
      · simp only [hdd, if_false] at hc'
        exact h.geo d' c' hc'
    · intro d' c' lm' hd' hc' hl'
      simp only [List.getElem?_set] at hc' hl'
      by_cases hdd : d = d'
      · subst hdd
        simp only [hdc, hdl, if_true, Option.some.injEq] at hc' hl'
        subst hc'; subst hl'
        intro x hx
        have := hspec x hx
        exact ⟨this.1, this.2.1⟩
      · simp only [hdd, if_false] at hc' hl'
        exact h.coars d' c' lm' (by omega) hc' hl'
    · obtain ⟨ops, e⟩ := h.reach
      obtain ⟨ops', e'⟩ := raiseLoop_runOps (st.lmax.set d (lm + updateDim (setCoarsening lm c.objs))) st.lmin
        (raiseFuel (st.lmax.set d (lm + updateDim (setCoarsening lm c.objs))) st.lmin st.dim) st.cs
      refine ⟨ops ++ ops', ?_⟩
      simp only []
      rw [e', e, runOps_append]
  · have hu0 : updateDim (setCoarsening lm c.objs) = 0 := by
      have := (updateDim_spec (setCoarsening lm c.objs)).1; omega
    simp only [hu, if_false]
    refine ⟨h.dim_pos, h.lmin0, h.lmin_le, h.llmax, by simp [h.lconts], h.cur, ?_, ?_, h.reach⟩
    · intro d' c' hc'
      simp only [List.getElem?_set] at hc'
      by_cases hdd : d = d'
      · subst hdd
        simp only [hdc, if_true, Option.some.injEq] at hc'
        subst hc'
        have e := setCoarsening_geom lm c.objs
        exact ⟨til_geom _ _ e.symm hgeo.til, by rw [innerLevels_geom _ _ e]; exact hgeo.tree, hgeo.reset,
          by simpa [setCoarsening] using hgeo.len4⟩
      · simp only [hdd, if_false] at hc'
        exact h.geo d' c' hc'
    · intro d' c' lm' hd' hc' hl'
      simp only [List.getElem?_set] at hc'
      by_cases hdd : d = d'
      · subst hdd
        simp only [hdc, if_true, Option.some.injEq] at hc'
        subst hc'
        rw [hl] at hl'; simp only [Option.some.injEq] at hl'; subst hl'
        intro x hx
        have hx' := mem_setCoarsening hx
        have := (updateDim_spec (setCoarsening lm c.objs)).2 x hx
        rw [hu0] at this
        exact ⟨hx', by omega⟩
      · simp only [hdd, if_false] at hc'
        exact h.coars d' c' lm' (by omega) hc' hl'

theorem postDims_spec (a b : List Rat) (lmax0 : Int) : ∀ (n k : Nat) (st : DW), k + n = st.dim →
    DWInv a b lmax0 k st →
    DWInv a b lmax0 (k + n) (DW.postDims st (List.range' k n)).1 ∧ (DW.postDims st (List.range' k n)).1.dim = st.dim ∧
      (DW.postDims st (List.range' k n)).2 = true
  | 0, k, st, _, h => by simpa [DW.postDims] using h
  | n+1, k, st, hk, h => by
    obtain ⟨h1, h2, h2'⟩ := postDim_spec a b lmax0 st k (by omega) h
    obtain ⟨h3, h4, h4'⟩ := postDims_spec a b lmax0 n (k + 1) (st.postDim k).1 (by rw [h2]; omega) h1
    simp only [List.range'_succ, DW.postDims]
    exact ⟨by rw [show k + (n + 1) = k + 1 + n by omega]; exact h3, by rw [h4, h2], by rw [h2', h4']; rfl⟩

theorem postDim_lmin (st : DW) (d : Nat) : (st.postDim d).1.lmin = st.lmin := by
  unfold DW.postDim
  cases st.m.conts[d]? with
  | none => rfl
  | some c =>
    cases st.lmax[d]? with
    | none => rfl
    | some lm =>
      simp only []
      split <;> rfl

theorem postDims_lmin : ∀ (ds : List Nat) (s : DW), (DW.postDims s ds).1.lmin = s.lmin
  | [], _ => rfl
  | d :: ds, s => by
    simp only [DW.postDims]
    rw [postDims_lmin ds, postDim_lmin]

/-! ## rebalancing of all dimensions -/

theorem rebalanceAll_spec (dec : Nat → Nat → Nat → Bool) : ∀ (conts : List Cont),
    (∀ c ∈ conts, ∃ o t, rebalance dec c.objs = some (o, t)) →
    ∃ conts' cmps, rebalanceAll dec conts = some (conts', cmps) ∧ conts'.length = conts.length ∧
      ∀ (d : Nat) (c : Cont), conts[d]? = some c →
        ∃ o t, rebalance dec c.objs = some (o, t) ∧ conts'[d]? = some { c with objs := o }
  | [], _ => ⟨[], [], rfl, rfl, by simp⟩
  | c :: cs, h => by
    obtain ⟨o, t, ho⟩ := h c (by simp)
    obtain ⟨cs', ts, h1, h2, h3⟩ := rebalanceAll_spec dec cs (fun c' hc' => h c' (by simp [hc']))
    refine ⟨{ c with objs := o } :: cs', t :: ts, by simp [rebalanceAll, ho, h1], by simp [h2], ?_⟩
    intro d c' hc'
    cases d with
    | zero =>
      simp only [List.getElem?_cons_zero, Option.some.injEq] at hc'
      subst hc'
      exact ⟨o, t, ho, by simp⟩
    | succ d =>
      simp only [List.getElem?_cons_succ] at hc' ⊢
      exact h3 d c' hc'

/-! ## the whole step -/

theorem splitSel_length_ge : ∀ (L : List Ival) (P : Nat → Bool), L.length ≤ (splitSel P L).length
  | [], _ => Nat.le_refl _
  | x :: xs, P => by
    have ih := splitSel_length_ge xs (fun i => P (i + 1))
    simp only [splitSel, List.length_append, List.length_cons]
    by_cases hp : P 0 = true
    · simp only [hp, if_true, Ival.split, List.length_cons, List.length_nil]; omega
    · simp only [hp]; simp; omega

theorem stepSpec_geo {a b : Rat} {c : Cont} (bens : List Rat) (tol : Rat) (h : ContGeo a b c) :
    ContGeo a b (c.stepSpec bens tol) :=
  ⟨til_splitSel _ _ h.til, by
      have := tree_splitSel c.objs (Pb bens tol) h.til (by simpa using h.tree)
      simpa [Cont.stepSpec] using this,
    ⟨rfl, rfl, rfl⟩,
    le_trans h.len4 (splitSel_length_ge _ _)⟩

/-- **every `refine()` call keeps the state well formed**, for every benefit table, margin, rebalancing switch
and every outcome `dec` of the rebalancing comparisons; it never fails; and it refines exactly the positions
whose benefit reaches `margin · max benefit`, each once (strictly ascending order) -/
theorem step_wf (a b : List Rat) (lmax0 : Int) (st : DW) (h : DWWF a b lmax0 st)
    (bens : List (List Rat)) (margin : Rat) (rebalancing : Bool) (dec : Nat → Nat → Nat → Bool) :
    ∃ out, st.step bens margin rebalancing dec = some out ∧ DWWF a b lmax0 out.st ∧ out.st.dim = st.dim ∧
      out.st.lmin = st.lmin ∧ out.raiseDone = true ∧
      out.refined.Pairwise posLt ∧
      (∀ d i, (d, i) ∈ out.refined ↔ ∃ c : Cont, st.m.conts[d]? = some c ∧ i < c.objs.length ∧
          Pb (bens.getD d []) (maxBenefit bens * margin) i = true) := by
  obtain ⟨m1, ps, hr, hcur1, hlen1, hconts1, hpw, hmem⟩ := refineStep_spec st.m bens margin h.cur
    (fun c hc => by
      obtain ⟨d, hd⟩ := List.getElem?_of_mem hc
      exact (h.geo d c hd).reset.ready)
    (fun c hc => by
      obtain ⟨d, hd⟩ := List.getElem?_of_mem hc
      exact ⟨_, _, _, _, (h.geo d c hd).til⟩)
  -- geometry after selection, split, removal, sort
  have hgeo1 : ∀ d c, m1.conts[d]? = some c → ContGeo (a.getD d 0) (b.getD d 0) c := by
    intro d c hc
    have hdlt : d < st.m.conts.length := by
      rw [← hlen1]; by_contra hh; rw [List.getElem?_eq_none (by omega)] at hc; simp at hc
    have hc0 : st.m.conts[d]? = some st.m.conts[d] := List.getElem?_eq_getElem hdlt
    have := hconts1 d _ hc0
    rw [this] at hc; simp only [Option.some.injEq] at hc
    subst hc
    exact stepSpec_geo _ _ (h.geo d _ hc0)
  -- rebalancing
  have hreb : ∃ conts cmps,
      (if rebalancing then rebalanceAll dec m1.conts else some (m1.conts, [])) = some (conts, cmps) ∧
      conts.length = st.dim ∧ ∀ d c, conts[d]? = some c → ContGeo (a.getD d 0) (b.getD d 0) c := by
    cases rebalancing with
    | false => exact ⟨m1.conts, [], rfl, by rw [hlen1, h.lconts], hgeo1⟩
    | true =>
      obtain ⟨conts', cmps, h1, h2, h3⟩ := rebalanceAll_spec dec m1.conts (fun c hc => by
        obtain ⟨d, hd⟩ := List.getElem?_of_mem hc
        have g := hgeo1 d c hd
        obtain ⟨o, t, e, _⟩ := rebalance_spec dec c.objs _ _ g.til g.tree
        exact ⟨o, t, e⟩)
      refine ⟨conts', cmps, by simp [h1], by rw [h2, hlen1, h.lconts], ?_⟩
      intro d c hc
      have hdlt : d < m1.conts.length := by
        rw [← h2]; by_contra hh; rw [List.getElem?_eq_none (by omega)] at hc; simp at hc
      have hc1 : m1.conts[d]? = some m1.conts[d] := List.getElem?_eq_getElem hdlt
      obtain ⟨o, t, e, hc'⟩ := h3 d _ hc1
      rw [hc'] at hc; simp only [Option.some.injEq] at hc
      subst hc
      have g := hgeo1 d _ hc1
      obtain ⟨o', t', e', t1, t2, fr⟩ := rebalance_spec dec m1.conts[d].objs _ _ g.til g.tree
      rw [e] at e'; simp only [Option.some.injEq, Prod.mk.injEq] at e'
      obtain ⟨rfl, rfl⟩ := e'
      have hlen : o.length = m1.conts[d].objs.length := by
        have := congrArg List.length fr; simpa using this
      exact ⟨t1, t2, g.reset, by show 4 ≤ o.length; rw [hlen]; exact g.len4⟩
  obtain ⟨conts, cmps, hrb, hlc, hgc⟩ := hreb
  -- coarsening update and raise_lmax per dimension
  have hinv0 : DWInv a b lmax0 0 { st with m := { m1 with conts := conts } } :=
    ⟨h.dim_pos, h.lmin0, h.lmin_le, h.llmax, hlc, hcur1, hgc, fun d c lm hd => by omega, h.reach⟩
  have hp := postDims_spec a b lmax0 st.dim 0 { st with m := { m1 with conts := conts } } (by simp) hinv0
  have hrange : List.range st.dim = List.range' 0 st.dim := List.range_eq_range'
  refine ⟨{ st := (DW.postDims { st with m := { m1 with conts := conts } } (List.range' 0 st.dim)).1,
            refined := ps, cmps := cmps,
            raiseDone := (DW.postDims { st with m := { m1 with conts := conts } } (List.range' 0 st.dim)).2 },
    ?_, ?_, ?_, ?_, hp.2.2, hpw, hmem⟩
  · unfold DW.step
    simp only [hr, hrb, hrange]
  · simp only [DWWF]
    have := hp.1
    simp only [Nat.zero_add] at this
    rw [hp.2.1]; exact this
  · exact hp.2.1
  · exact postDims_lmin _ _

/-- the initial state is well formed -/
theorem completeLevels_length : ∀ (k level : Nat), (completeLevels k level).length + 1 = 2 ^ k
  | 0, _ => rfl
  | k+1, level => by
    have := completeLevels_length k (level + 1)
    simp only [completeLevels, List.length_append, List.length_cons, List.length_nil]
    rw [Nat.pow_succ]; omega

theorem initObjs_length (maxv : Nat) (a b : Rat) (hab : a < b) : (initObjs maxv a b).length = 2 ^ maxv := by
  obtain ⟨t1, _, _, t4⟩ := initObjs_wf maxv a b hab
  have h1 : (innerLevels (initObjs maxv a b)).length = (initObjs maxv a b).length - 1 := innerLevels_length
  rw [t4] at h1
  have h2 := completeLevels_length maxv 0
  have h3 : (initObjs maxv a b).length ≠ 0 := by
    intro e; exact til_ne t1 (List.eq_nil_of_length_eq_zero e)
  omega

theorem init_wf (lmin lmax : Nat) (a b : List Rat) (hlen : a.length = b.length) (hd : 1 ≤ a.length)
    (hl : lmin ≤ lmax) (h2 : 2 ≤ lmax) (hab : ∀ d, d < a.length → a.getD d 0 < b.getD d 0) :
    DWWF a b lmax (DW.init lmin lmax a b) := by
  have hzl : (List.zipWith (fun x y => ({ objs := initObjs lmax x y } : Cont)) a b).length = a.length := by
    simp [hlen]
  refine ⟨hd, by simp [DW.init], by simp [DW.init]; exact_mod_cast hl, by simp [DW.init], by simp [DW.init, hlen],
    rfl, ?_, ?_, ⟨[], rfl⟩⟩
  · intro d c hc
    simp only [DW.init] at hc
    have hdlt : d < a.length := by
      rw [← hzl]; by_contra hh; rw [List.getElem?_eq_none (by omega)] at hc; simp at hc
    have hdb : d < b.length := by omega
    rw [List.getElem?_zipWith, List.getElem?_eq_getElem hdlt, List.getElem?_eq_getElem hdb] at hc
    simp only [Option.map_some, Option.bind_some, Option.some.injEq] at hc
    subst hc
    have ha : a.getD d 0 = a[d] := by simp [List.getD, List.getElem?_eq_getElem hdlt]
    have hb : b.getD d 0 = b[d] := by simp [List.getD, List.getElem?_eq_getElem hdb]
    have hlt := hab d hdlt
    rw [ha, hb] at hlt ⊢
    obtain ⟨t1, t2, _, _⟩ := initObjs_wf lmax a[d] b[d] hlt
    refine ⟨t1, t2, ⟨rfl, rfl, rfl⟩, ?_⟩
    show 4 ≤ (initObjs lmax a[d] b[d]).length
    rw [initObjs_length lmax _ _ hlt]
    calc 4 = 2 ^ 2 := rfl
      _ ≤ 2 ^ lmax := Nat.pow_le_pow_right (by omega) h2
  · intro d c lm _ hc hlm
    simp only [DW.init] at hc hlm
    have hdlt : d < a.length := by
      rw [← hzl]; by_contra hh; rw [List.getElem?_eq_none (by omega)] at hc; simp at hc
    have hdb : d < b.length := by omega
    rw [List.getElem?_zipWith, List.getElem?_eq_getElem hdlt, List.getElem?_eq_getElem hdb] at hc
    simp only [Option.map_some, Option.bind_some, Option.some.injEq] at hc
    subst hc
    rw [List.getElem?_replicate] at hlm
    simp only [hdlt, if_true, Option.some.injEq] at hlm
    subst hlm
    have hlt := hab d hdlt
    have ha : a.getD d 0 = a[d] := by simp [List.getD, List.getElem?_eq_getElem hdlt]
    have hb : b.getD d 0 = b[d] := by simp [List.getD, List.getElem?_eq_getElem hdb]
    rw [ha, hb] at hlt
    obtain ⟨_, _, t3, _⟩ := initObjs_wf lmax a[d] b[d] hlt
    intro x hx
    have := t3 x hx
    rw [this.1, this.2]
    exact ⟨by omega, le_refl _⟩

/-- the cursor effect of an evaluation (`evaluate_operation` ends with `clear_new_objects()`) does not influence the
next `refine()` at all -/
theorem step_evaluate (st : DW) (bens : List (List Rat)) (margin : Rat) (rebalancing : Bool)
    (dec : Nat → Nat → Nat → Bool) : st.evaluate.step bens margin rebalancing dec = st.step bens margin rebalancing dec := by
  unfold DW.step DW.evaluate
  simp only [refineStep_clearNew]

end SparseSpace
