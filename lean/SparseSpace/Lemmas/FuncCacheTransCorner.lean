import SparseSpace.Lemmas.FuncCacheTrans
/-! Helper lemmas for C12 (extension): the CORNER-SUM analytic integrals (GenzOszillatory, GenzCornerPeak).

    If `G 0, G 1, …, G N` is a chain of antiderivatives on a domain `D` (`(G (k+1))' = G k`), then integrating
    `G k (φ + Σ c_d x_d)` over one more dimension replaces `G k` by `G (k+1)`, divides by the coefficient and takes the
    difference of the two ends — by induction on the dimension the iterated integral is the signed corner sum of
    `G (k+n)`; a dimension with coefficient 0 contributes its length. -/
namespace SparseSpace.AnalyticTrans
open SparseSpace.AnalyticInt intervalIntegral

/-- a chain of antiderivatives on `D` up to index `N` -/
structure AntiChain (G : ℕ → ℝ → ℝ) (D : Set ℝ) (N : ℕ) : Prop where
  deriv : ∀ k, k < N → ∀ u ∈ D, HasDerivAt (G (k + 1)) (G k u) u
  cont : ∀ k, k ≤ N → ContinuousOn (G k) D

/-- the box never leaves the domain: adding `x * c` for `x` between start and end keeps `D` -/
def Adm (D : Set ℝ) (dims : List (ℝ × ℝ × ℝ)) : Prop :=
  ∀ d ∈ dims, ∀ u ∈ D, ∀ x ∈ Set.uIcc d.2.1 d.2.2, u + x * d.1 ∈ D

theorem nonzero_iff (c : ℝ) : nonzero c = true ↔ c ≠ 0 := by
  unfold nonzero
  simp only [Nat.cast_zero, Bool.or_eq_true, decide_eq_true_eq]
  constructor
  · rintro (h | h) <;> [exact ne_of_lt h; exact ne_of_gt h]
  · intro h; exact lt_or_gt_of_ne h

theorem adm_tail {D : Set ℝ} {d : ℝ × ℝ × ℝ} {r : List (ℝ × ℝ × ℝ)} (h : Adm D (d :: r)) : Adm D r :=
  fun d' hd' => h d' (List.mem_cons_of_mem _ hd')

theorem adm_filter {D : Set ℝ} {dims : List (ℝ × ℝ × ℝ)} (p : ℝ × ℝ × ℝ → Bool) (h : Adm D dims) :
    Adm D (dims.filter p) :=
  fun d hd => h d (List.mem_of_mem_filter hd)

theorem continuousOn_cornerSum (G : ℝ → ℝ) (D : Set ℝ) (hG : ContinuousOn G D) (r : List (ℝ × ℝ × ℝ))
    (hr : Adm D r) : ContinuousOn (cornerSum G r) D := by
  induction r with
  | nil => exact hG
  | cons d r ih =>
    obtain ⟨c, s, e⟩ := d
    have ih' := ih (adm_tail hr)
    have hsh : ∀ v ∈ Set.uIcc s e, ContinuousOn (fun u => cornerSum G r (u + v * c)) D := by
      intro v hv
      apply ih'.comp (by fun_prop)
      intro u hu
      exact hr (c, s, e) (by simp) u hu v hv
    exact (hsh e Set.right_mem_uIcc).sub (hsh s Set.left_mem_uIcc)

theorem hasDerivAt_cornerSum (G : ℕ → ℝ → ℝ) (D : Set ℝ) (N : ℕ) (hG : AntiChain G D N) (m : ℕ) (hm : m < N)
    (r : List (ℝ × ℝ × ℝ)) (hr : Adm D r) :
    ∀ u ∈ D, HasDerivAt (cornerSum (G (m + 1)) r) (cornerSum (G m) r u) u := by
  induction r with
  | nil => exact hG.deriv m hm
  | cons d r ih =>
    obtain ⟨c, s, e⟩ := d
    intro u hu
    have ih' := ih (adm_tail hr)
    have he := ih' (u + e * c) (hr (c, s, e) (by simp) u hu e Set.right_mem_uIcc)
    have hs := ih' (u + s * c) (hr (c, s, e) (by simp) u hu s Set.left_mem_uIcc)
    exact (he.comp_add_const u (e * c)).sub (hs.comp_add_const u (s * c))

theorem cornerSum_const_mul (a : ℝ) (T : ℝ → ℝ) (r : List (ℝ × ℝ × ℝ)) (φ : ℝ) :
    cornerSum (fun u => a * T u) r φ = a * cornerSum T r φ := by
  induction r generalizing φ with
  | nil => rfl
  | cons d r ih => obtain ⟨c, s, e⟩ := d; simp only [cornerSum, ih]; ring

/-- `Σ_d c_d x_d` -/
noncomputable def lin (dims : List (ℝ × ℝ × ℝ)) (xs : List ℝ) : ℝ :=
  (List.zipWith (fun (d : ℝ × ℝ × ℝ) x => d.1 * x) dims xs).sum

/-- the box of a list of dimensions -/
def boxOf (dims : List (ℝ × ℝ × ℝ)) : List (ℝ × ℝ) := dims.map (·.2)

/-- **the corner-sum theorem** -/
theorem iint_corner (G : ℕ → ℝ → ℝ) (D : Set ℝ) (N : ℕ) (hG : AntiChain G D N) (dims : List (ℝ × ℝ × ℝ))
    (hadm : Adm D dims) (k : ℕ) (hk : k + (dims.filter (fun d => nonzero d.1)).length ≤ N) (φ : ℝ) (hφ : φ ∈ D) :
    iint (boxOf dims) (fun xs => G k (φ + lin dims xs)) =
      ((dims.filter (fun d => !nonzero d.1)).map (fun d => d.2.2 - d.2.1)).prod *
      (1 / ((dims.filter (fun d => nonzero d.1)).map (·.1)).prod) *
      cornerSum (G (k + (dims.filter (fun d => nonzero d.1)).length)) (dims.filter (fun d => nonzero d.1)) φ := by
  induction dims generalizing φ with
  | nil => simp [iint, boxOf, lin, cornerSum]
  | cons d r ih =>
    obtain ⟨c, s, e⟩ := d
    have hr := adm_tail hadm
    simp only [boxOf, List.map_cons, iint]
    have hlin : ∀ x xs, φ + lin ((c, s, e) :: r) (x :: xs) = (φ + x * c) + lin r xs := by
      intro x xs; simp only [lin, List.zipWith_cons_cons, List.sum_cons]; ring
    simp_rw [hlin]
    by_cases hc : nonzero c = true
    · -- a dimension with a non-zero coefficient
      have hc0 : c ≠ 0 := (nonzero_iff c).1 hc
      simp only [List.filter_cons, hc, if_true, Bool.not_true, Bool.false_eq_true, if_false, List.map_cons,
        List.prod_cons, List.length_cons] at hk ⊢
      set nz := r.filter (fun d => nonzero d.1) with hnz
      set m := k + nz.length with hm
      have hmN : m < N := by omega
      have hnzadm : Adm D nz := adm_filter _ hr
      have hcongr : ∀ x ∈ Set.uIcc s e, iint (boxOf r) (fun xs => G k ((φ + x * c) + lin r xs)) =
          ((r.filter (fun d => !nonzero d.1)).map (fun d => d.2.2 - d.2.1)).prod * (1 / (nz.map (·.1)).prod) *
            cornerSum (G m) nz (φ + x * c) := by
        intro x hx
        exact ih hr (by omega) (φ + x * c) (hadm (c, s, e) (by simp) φ hφ x hx)
      have hb : boxOf r = List.map (fun d => d.2) r := rfl
      rw [← hb, integral_congr hcongr, integral_const_mul]
      -- FTC in the new dimension
      have hd : ∀ x ∈ Set.uIcc s e, HasDerivAt (fun x => cornerSum (G (m + 1)) nz (φ + x * c) / c)
          (cornerSum (G m) nz (φ + x * c)) x := by
        intro x hx
        have hu := hadm (c, s, e) (by simp) φ hφ x hx
        have h1 := hasDerivAt_cornerSum G D N hG m hmN nz hnzadm (φ + x * c) hu
        have h2 : HasDerivAt (fun x : ℝ => φ + x * c) c x := by
          simpa using ((hasDerivAt_id x).mul_const c).const_add φ
        have h3 := (h1.comp x h2).div_const c
        have : cornerSum (G m) nz (φ + x * c) = cornerSum (G m) nz (φ + x * c) * c / c := by field_simp
        rw [this]; exact h3
      have hint : IntervalIntegrable (fun x => cornerSum (G m) nz (φ + x * c)) MeasureTheory.volume s e := by
        apply ContinuousOn.intervalIntegrable
        apply (continuousOn_cornerSum (G m) D (hG.cont m (by omega)) nz hnzadm).comp (by fun_prop)
        intro x hx
        exact hadm (c, s, e) (by simp) φ hφ x hx
      rw [integral_eq_sub_of_hasDerivAt hd hint]
      simp only [cornerSum]
      have : k + (nz.length + 1) = m + 1 := by omega
      rw [this]
      field_simp
    · -- a dimension with coefficient 0 contributes its length
      have hc' : nonzero c = false := by simpa using hc
      have hc0 : c = 0 := by
        by_contra h; exact hc ((nonzero_iff c).2 h)
      simp only [List.filter_cons, hc', Bool.false_eq_true, if_false, Bool.not_false, if_true, List.map_cons,
        List.prod_cons] at hk ⊢
      subst hc0
      simp only [mul_zero, add_zero]
      have hb : boxOf r = List.map (fun d => d.2) r := rfl
      rw [← hb, ih hr hk φ hφ, integral_const, smul_eq_mul]
      ring

/-! ### GenzOszillatory -/

/-- `cos` shifted by `k` quarter periods: `oszG (k+1)` is an antiderivative of `oszG k` -/
noncomputable def oszG (k : ℕ) (θ : ℝ) : ℝ := Real.cos (θ - k * (Real.pi / 2))

theorem oszG_chain (N : ℕ) : AntiChain oszG Set.univ N := by
  constructor
  · intro k _ u _
    have h1 : HasDerivAt (fun θ : ℝ => θ - ((k + 1 : ℕ) : ℝ) * (Real.pi / 2)) 1 u := by
      simpa using (hasDerivAt_id u).sub_const (((k + 1 : ℕ) : ℝ) * (Real.pi / 2))
    have h2 := h1.cos
    have : oszG k u = -Real.sin (u - ((k + 1 : ℕ) : ℝ) * (Real.pi / 2)) * 1 := by
      have e : u - ((k + 1 : ℕ) : ℝ) * (Real.pi / 2) = (u - k * (Real.pi / 2)) - Real.pi / 2 := by
        push_cast; ring
      rw [e, Real.sin_sub_pi_div_two]; simp [oszG]
    rw [this]; exact h2
  · intro k _
    unfold oszG
    exact (Real.continuous_cos.comp (by fun_prop)).continuousOn

theorem negOnePow_eq (k : ℕ) : (negOnePow k : ℝ) = (-1) ^ k := by
  unfold negOnePow
  by_cases h : k % 2 = 0
  · simp [h, (Nat.even_iff.2 h).neg_one_pow]
  · have : k % 2 = 1 := by omega
    simp [h, (Nat.odd_iff.2 this).neg_one_pow]

/-- the code's closed form of the `n`-th antiderivative: sign `(-1)^⌊n/2⌋`, `sin` for odd and `cos` for even `n` -/
theorem oszG_eq (n : ℕ) (θ : ℝ) :
    oszG n θ = negOnePow (n / 2) * (if n % 2 = 1 then Real.sin θ else Real.cos θ) := by
  rw [negOnePow_eq]
  unfold oszG
  have hn : n = 2 * (n / 2) + n % 2 := (Nat.div_add_mod n 2).symm
  rcases Nat.mod_two_eq_zero_or_one n with h | h
  · have e : θ - (n : ℝ) * (Real.pi / 2) = θ - ((n / 2 : ℕ) : ℝ) * Real.pi := by
      have : (n : ℝ) = 2 * ((n / 2 : ℕ) : ℝ) := by
        have := hn; rw [h, add_zero] at this; exact_mod_cast this
      rw [this]; ring
    rw [e, Real.cos_sub_nat_mul_pi]; simp [h]
  · have e : θ - (n : ℝ) * (Real.pi / 2) = (θ - Real.pi / 2) - ((n / 2 : ℕ) : ℝ) * Real.pi := by
      have : (n : ℝ) = 2 * ((n / 2 : ℕ) : ℝ) + 1 := by
        have := hn; rw [h] at this; exact_mod_cast this
      rw [this]; ring
    rw [e, Real.cos_sub_nat_mul_pi, Real.cos_sub_pi_div_two]; simp [h]

theorem lin_zip (c s e xs : List ℝ) (hs : s.length = c.length) (he : e.length = c.length) :
    lin (List.zip c (List.zip s e)) xs = (List.zipWith (fun c x => c * x) c xs).sum := by
  unfold lin
  congr 1
  induction c generalizing s e xs with
  | nil => simp
  | cons a c ih =>
    cases s with
    | nil => simp at hs
    | cons s0 s =>
      cases e with
      | nil => simp at he
      | cons e0 e =>
        cases xs with
        | nil => simp
        | cons x xs => simp [ih s e xs (by simpa using hs) (by simpa using he)]

theorem boxOf_zip (c s e : List ℝ) (hs : s.length = c.length) (he : e.length = c.length) :
    boxOf (List.zip c (List.zip s e)) = List.zip s e := by
  unfold boxOf
  induction c generalizing s e with
  | nil => cases s <;> simp at hs ⊢
  | cons a c ih =>
    cases s with
    | nil => simp at hs
    | cons s0 s =>
      cases e with
      | nil => simp at he
      | cons e0 e => simp [ih s e (by simpa using hs) (by simpa using he)]

/-- GenzOszillatory: every coefficient vector (zeros allowed), every offset, every box -/
theorem osz_integral (c : List ℝ) (o : ℝ) (s e : List ℝ) (hs : s.length = c.length) (he : e.length = c.length) :
    iint (List.zip s e) (evalOsz c o) = anaOsz c o s e := by
  set dims := List.zip c (List.zip s e) with hdims
  set nz := dims.filter (fun d => nonzero d.1) with hnz
  have h1 : evalOsz c o = fun xs => oszG 0 (2 * Real.pi * o + lin dims xs) := by
    funext xs
    simp only [evalOsz, addLoop_eq, NumOps.cos, NumOps.pi, oszG, hdims, lin_zip c s e xs hs he]
    push_cast; simp
  have hadm : Adm Set.univ dims := fun _ _ _ _ _ _ => Set.mem_univ _
  have := iint_corner oszG Set.univ (0 + nz.length) (oszG_chain _) dims hadm 0 le_rfl (2 * Real.pi * o) (Set.mem_univ _)
  rw [boxOf_zip c s e hs he] at this
  rw [h1, this]
  simp only [anaOsz, ← hdims, ← hnz, mulLoop_eq, NumOps.cos, NumOps.sin, NumOps.pi, zero_add]
  push_cast
  by_cases h0 : nz.length = 0
  · have : nz = [] := List.length_eq_zero_iff.1 h0
    simp [this, cornerSum, oszG]
    ring
  · simp only [h0, if_false]
    have hG : oszG nz.length = fun θ => negOnePow (nz.length / 2) *
        (if nz.length % 2 = 1 then Real.sin θ else Real.cos θ) := by
      funext θ; exact oszG_eq _ θ
    rw [hG, cornerSum_const_mul]
    by_cases hodd : nz.length % 2 = 1
    · simp only [hodd, if_true]; ring
    · simp only [hodd, if_false]; ring

/-! ### GenzCornerPeak -/

/-- the `j`-th antiderivative of `u ↦ u^(-(n+1))` on `u > 0`: `(-1)^j (n-j)!/n! · u^(-(n+1-j))` -/
noncomputable def cpG (n j : ℕ) (u : ℝ) : ℝ :=
  (-1) ^ j * ((n - j).factorial : ℝ) / (n.factorial : ℝ) * (u ^ (n + 1 - j))⁻¹

theorem cpG_chain (n : ℕ) : AntiChain (cpG n) (Set.Ioi 0) n := by
  constructor
  · intro k hk u hu
    have hu0 : u ≠ 0 := ne_of_gt hu
    obtain ⟨m, hm⟩ := Nat.exists_eq_add_of_lt hk
    have e1 : n - (k + 1) = m := by omega
    have e2 : n + 1 - (k + 1) = m + 1 := by omega
    have e3 : n - k = m + 1 := by omega
    have e4 : n + 1 - k = m + 2 := by omega
    have hfun : cpG n (k + 1) = fun u => ((-1) ^ (k + 1) * (m.factorial : ℝ) / (n.factorial : ℝ)) * (u ^ (m + 1))⁻¹ := by
      funext v; simp only [cpG, e1, e2]
    have hval : cpG n k u = ((-1) ^ (k + 1) * (m.factorial : ℝ) / (n.factorial : ℝ)) *
        (-(((m + 1 : ℕ) : ℝ) * u ^ (m + 1 - 1)) / (u ^ (m + 1)) ^ 2) := by
      simp only [cpG, e3, e4, Nat.factorial_succ, Nat.add_sub_cancel]
      have hnf : (n.factorial : ℝ) ≠ 0 := by exact_mod_cast n.factorial_ne_zero
      push_cast
      field_simp
      ring
    rw [hfun, hval]
    have h1 : HasDerivAt (fun u : ℝ => u ^ (m + 1)) (((m + 1 : ℕ) : ℝ) * u ^ (m + 1 - 1)) u :=
      hasDerivAt_pow (m + 1) u
    exact (h1.inv (pow_ne_zero _ hu0)).const_mul _
  · intro k _
    unfold cpG
    apply ContinuousOn.mul continuousOn_const
    apply ContinuousOn.inv₀ (continuous_pow _).continuousOn
    intro u hu
    exact pow_ne_zero _ (ne_of_gt hu)

theorem factorial_eq (n : ℕ) : factorial n = n.factorial := by
  induction n with
  | zero => rfl
  | succ n ih => simp [factorial, ih, Nat.factorial_succ]

theorem map_fst_zip (c s e : List ℝ) (hs : s.length = c.length) (he : e.length = c.length) :
    (List.zip c (List.zip s e)).map (·.1) = c := by
  induction c generalizing s e with
  | nil => simp
  | cons a c ih =>
    cases s with
    | nil => simp at hs
    | cons s0 s =>
      cases e with
      | nil => simp at he
      | cons e0 e => simp [ih s e (by simpa using hs) (by simpa using he)]

/-- GenzCornerPeak on its domain: positive coefficients, boxes in the non-negative orthant -/
theorem cornerPeak_integral (c s e : List ℝ) (hc : ∀ x ∈ c, 0 < x)
    (hbox : ∀ se ∈ List.zip s e, 0 ≤ se.1 ∧ se.1 ≤ se.2)
    (hs : s.length = c.length) (he : e.length = c.length) :
    iint (List.zip s e) (evalCornerPeak c) = anaCornerPeak c s e := by
  set dims := List.zip c (List.zip s e) with hdims
  set n := c.length with hn
  have hnf : (n.factorial : ℝ) ≠ 0 := by exact_mod_cast n.factorial_ne_zero
  have hmem : ∀ d ∈ dims, 0 < d.1 ∧ 0 ≤ d.2.1 ∧ d.2.1 ≤ d.2.2 := by
    intro d hd
    have h1 := List.of_mem_zip hd
    exact ⟨hc _ h1.1, hbox _ h1.2⟩
  have hnzall : dims.filter (fun d => nonzero d.1) = dims := by
    apply List.filter_eq_self.2
    intro d hd
    exact (nonzero_iff d.1).2 (ne_of_gt (hmem d hd).1)
  have hzall : dims.filter (fun d => !nonzero d.1) = [] := by
    apply List.filter_eq_nil_iff.2
    intro d hd
    simp [(nonzero_iff d.1).2 (ne_of_gt (hmem d hd).1)]
  have hlen : dims.length = n := by simp [hdims, hs, he, hn]
  have h1 : evalCornerPeak c = fun xs => cpG n 0 (1 + lin dims xs) := by
    funext xs
    simp only [evalCornerPeak, addLoop_eq, cpG, hdims, lin_zip c s e xs hs he, ← hn, Nat.sub_zero]
    push_cast
    field_simp
  have hadm : Adm (Set.Ioi 0) dims := by
    intro d hd u hu x hx
    obtain ⟨hc0, hs0, hse⟩ := hmem d hd
    rw [Set.uIcc_of_le hse] at hx
    have : 0 ≤ x * d.1 := mul_nonneg (le_trans hs0 hx.1) hc0.le
    exact Set.mem_Ioi.2 (by have := Set.mem_Ioi.1 hu; linarith)
  have := iint_corner (cpG n) (Set.Ioi 0) n (cpG_chain n) dims hadm 0 (by rw [hnzall, hlen]; omega) 1
    (Set.mem_Ioi.2 one_pos)
  rw [boxOf_zip c s e hs he, hnzall, hzall, hlen] at this
  rw [h1, this]
  have hG : cpG n (0 + n) = fun u => ((-1) ^ n / (n.factorial : ℝ)) * (1 / u) := by
    funext u
    simp only [cpG, zero_add, Nat.sub_self, Nat.factorial_zero, Nat.cast_one]
    have : n + 1 - n = 1 := by omega
    rw [this, pow_one]; ring
  rw [hG, cornerSum_const_mul]
  simp only [anaCornerPeak, ← hdims, ← hn, mulLoop_eq, negOnePow_eq, factorial_eq, List.map_nil, List.prod_nil]
  have hmap : (dims.map (·.1)) = c := by rw [hdims]; exact map_fst_zip c s e hs he
  rw [hmap]
  push_cast
  have hcp : c.prod ≠ 0 := by
    apply List.prod_ne_zero
    intro h0; exact lt_irrefl _ (hc 0 h0)
  field_simp

end SparseSpace.AnalyticTrans
