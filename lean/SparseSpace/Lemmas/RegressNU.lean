import SparseSpace.Lemmas.RegressQuad
/-!
# Lemmas about `Model/Regress`, part 5: the entries of `build_C_matrix_dimension_wise` and concrete evaluations
-/
namespace SparseSpace.Regress

/-! ## what the `n == d` branch computes, case by case (`ti = (li, p, ui)`, `tj = (lj, q, uj)`) -/

/-- same node: `1/h_left + 1/h_right` (correct) -/
theorem stiffNU_same_point (same : Bool) (li p ui lj uj : ℚ) (h1 : li < p) (h2 : p < ui) (h3 : lj < p) (h4 : p < uj) :
    stiffNU same (li, p, ui) (lj, p, uj) = 1 / (p - li) + 1 / (ui - p) := by
  unfold stiffNU
  have n1 : ¬ ui < lj := by linarith
  have n2 : ¬ uj < li := by linarith
  have a : p - li ≠ 0 := by linarith
  have b : ui - p ≠ 0 := by linarith
  simp only [n1, n2, decide_false, Bool.or_self, Bool.false_eq_true, if_false, decide_true, Bool.or_true, if_true]
  exact nonuniform_stiff_diag _ _ a b

/-- different nodes whose supports are not strictly separated: `-1/(q-p)` — correct for neighbours (`ui = q`),
but also returned when the supports only TOUCH (`ui = lj`), where `∫ φ_i' φ_j' = 0` -/
theorem stiffNU_not_separated (li p ui lj q uj : ℚ) (hpq : p < q) (h1 : ¬ ui < lj) (h2 : ¬ uj < li) :
    stiffNU false (li, p, ui) (lj, q, uj) = -1 / (q - p) := by
  unfold stiffNU
  have hne : ¬ p = q := ne_of_lt hpq
  have b : q - p ≠ 0 := by linarith
  simp only [h1, h2, hne, hpq, decide_false, Bool.or_self, Bool.false_eq_true, if_false, if_true]
  exact nonuniform_stiff_off _ b

/-- the defect: supports `[li, ui]` and `[ui, uj]` share one point, the entry is not 0 -/
theorem stiffNU_touching (li p ui q uj : ℚ) (h1 : li < p) (h2 : p < ui) (h3 : ui < q) (_h4 : q < uj) :
    stiffNU false (li, p, ui) (ui, q, uj) = -1 / (q - p) ∧ -1 / (q - p) ≠ 0 := by
  have hpq : p < q := by linarith
  refine ⟨stiffNU_not_separated li p ui ui q uj hpq (lt_irrefl ui) (by intro h; linarith), ?_⟩
  have : q - p ≠ 0 := by linarith
  intro h
  have := div_eq_zero_iff.mp h
  rcases this with h | h
  · norm_num at h
  · exact this h

/-- strictly separated supports: 0 (correct) -/
theorem stiffNU_separated (same : Bool) (ti tj : ℚ × ℚ × ℚ) (h : ti.2.2 < tj.1) : stiffNU same ti tj = 0 := by
  unfold stiffNU
  simp [h]

/-- the `n ≠ d` branch for the same node: `∫ φ_p² = (h_left + h_right)/3` (correct) -/
theorem massNU_same_point (li p ui lj : ℚ) (h1 : li < p) (h2 : p < ui) :
    massNU (li, p, ui) (lj, p, ui) = (p - li) / 3 + (ui - p) / 3 := by
  unfold massNU
  have a : p ≠ li := ne_of_gt h1
  have b : p ≠ ui := ne_of_lt h2
  have e1 : absR (p - li) = p - li := by rw [absR_eq_abs, abs_of_pos (by linarith)]
  have e2 : absR (ui - p) = ui - p := by rw [absR_eq_abs, abs_of_pos (by linarith)]
  simp only [ne_eq, not_true_eq_false, if_false, a, b, not_false_eq_true, if_true, e1, e2]
  exact nonuniform_mass_diag li p ui h1 h2

/-- the `n ≠ d` branch for two different nodes `p < q`: the SQUARE of `(q-p)/6`, whether or not the nodes are
neighbours (`∫ φ_p φ_q` is `(q-p)/6` for neighbours and 0 otherwise) -/
theorem massNU_different (ti tj : ℚ × ℚ × ℚ) (h : ti.2.1 < tj.2.1) :
    massNU ti tj = ((tj.2.1 - ti.2.1) / 6) ^ 2 := by
  unfold massNU
  have hne : ti.2.1 ≠ tj.2.1 := ne_of_lt h
  have e : absR (ti.2.1 - tj.2.1) = tj.2.1 - ti.2.1 := by
    rw [absR_eq_abs, abs_of_neg (by linarith)]; ring
  simp only [ne_eq, hne, not_false_eq_true, if_true, h, e]
  rw [nonuniform_mass_off _ _ h]
  ring

/-! ## concrete evaluations (used by the counterexamples) -/

theorem resU_12_diag : resU [1, 2] [1, 1] [1, 1] = 8 / 3 := by
  norm_num [resU, termU, facU, lprod, pow2, List.range, List.range.loop]

theorem gramU_12_diag : gramU [1, 2] [1, 1] [1, 1] = 10 / 3 := by
  norm_num [gramU, specS, specM, meshW, lprod, pow2, List.range, List.range.loop]

theorem pointsNU_quarter :
    pointsNU [[0, 1/4, 1/2, 3/4, 1]] = [[(0, 1/4, 1/2)], [(1/4, 1/2, 3/4)], [(1/2, 3/4, 1)]] := by
  simp [pointsNU, triples, triplesAux, cross]

theorem cMatrixNU_quarter :
    cMatrixNU [[0, 1/4, 1/2, 3/4, 1]] = [[8, -4, -2], [-4, 8, -4], [-2, -4, 8]] := by
  unfold cMatrixNU
  rw [pointsNU_quarter]
  simp only [mirrored, List.length_cons, List.length_nil, List.range, List.range.loop, List.map_cons, List.map_nil,
    List.getElem?_cons_zero, List.getElem?_cons_succ]
  norm_num [resNU, termNU, stiffNU, massNU, sameDomain, lprod, negMMB, List.range, List.range.loop]

theorem pointsNU_graded :
    pointsNU [[0, 1/2, 5/8, 3/4, 7/8, 1]] =
      [[(0, 1/2, 5/8)], [(1/2, 5/8, 3/4)], [(5/8, 3/4, 7/8)], [(3/4, 7/8, 1)]] := by
  simp [pointsNU, triples, triplesAux, cross]

theorem cMatrixNU_graded :
    cMatrixNU [[0, 1/2, 5/8, 3/4, 7/8, 1]] =
      [[10, -8, -4, 0], [-8, 16, -8, -4], [-4, -8, 16, -8], [0, -4, -8, 16]] := by
  unfold cMatrixNU
  rw [pointsNU_graded]
  simp only [mirrored, List.length_cons, List.length_nil, List.range, List.range.loop, List.map_cons, List.map_nil,
    List.getElem?_cons_zero, List.getElem?_cons_succ]
  norm_num [resNU, termNU, stiffNU, massNU, sameDomain, lprod, negMMB, List.range, List.range.loop]

theorem pointsNU_2d :
    pointsNU [[0, 1/2, 1], [0, 1/4, 1/2, 1]] = [[(0, 1/2, 1), (0, 1/4, 1/2)], [(0, 1/2, 1), (1/4, 1/2, 1)]] := by
  simp [pointsNU, triples, triplesAux, cross]

theorem cMatrixNU_2d :
    cMatrixNU [[0, 1/2, 1], [0, 1/4, 1/2, 1]] = [[8/3, 191/144], [191/144, 17/6]] := by
  unfold cMatrixNU
  rw [pointsNU_2d]
  simp only [mirrored, List.length_cons, List.length_nil, List.range, List.range.loop, List.map_cons, List.map_nil,
    List.getElem?_cons_zero, List.getElem?_cons_succ]
  norm_num [resNU, termNU, stiffNU, massNU, sameDomain, lprod, negMMB, List.range, List.range.loop, integralCalc,
    integral1, integral2, absR]

end SparseSpace.Regress
