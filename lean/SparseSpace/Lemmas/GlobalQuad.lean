import SparseSpace.Model.GlobalQuad
import Mathlib.Tactic.Ring
import Mathlib.Tactic.Linarith
import Mathlib.Tactic.FieldSimp
import Mathlib.Algebra.Order.Field.Rat
/-! Helper lemmas for C09: the plain trapezoidal weights (structural form, integral identity, sign). -/
namespace SparseSpace.GlobalQuad

/-- half of the cell to the left of `x` (none: `x` is the first point) -/
def lp (prev : Option Rat) (x : Rat) : Rat :=
  match prev with
  | none => 0
  | some p => (x - p) / 2

/-- structural form of the unmodified weights: `w_i = (x_i - x_{i-1})/2 + (x_{i+1} - x_i)/2`, one-sided at the ends -/
def trapAux : Option Rat → List Rat → List Rat
  | _, [] => []
  | prev, x :: rest => (lp prev x + (match rest with | [] => 0 | y :: _ => (y - x) / 2)) :: trapAux (some x) rest

theorem cwLoop_false (n : Nat) : ∀ (xs : List Rat) (i : Nat) (pp p : Rat), i + xs.length = n →
    cwLoop false n i pp p xs = trapAux (if i = 0 then none else some p) xs := by
  intro xs
  induction xs with
  | nil => intro i pp p _; simp [cwLoop, trapAux]
  | cons x rest ih =>
    intro i pp p h
    have h' : (i + 1) + rest.length = n := by simp [List.length] at h; omega
    rw [cwLoop, ih (i + 1) p x h']
    simp only [trapAux, Bool.false_and, Bool.not_false, if_true]
    have e1 : (if i + 1 = 0 then (none : Option Rat) else some x) = some x := by simp
    rw [e1]
    congr 1
    cases rest with
    | nil =>
      have hn : ¬ (i + 1 < n) := by simp [List.length] at h; omega
      rcases Nat.eq_zero_or_pos i with rfl | hi
      · simp [hn, lp]
      · have : i ≠ 0 := by omega
        simp [this, hn, lp]
    | cons y r =>
      have hn : i + 1 < n := by simp [List.length] at h; omega
      rcases Nat.eq_zero_or_pos i with rfl | hi
      · simp [hn, lp, hd1]
      · have : i ≠ 0 := by omega
        simp [this, hn, lp, hd1]

theorem trapAux_length : ∀ (xs : List Rat) (prev : Option Rat), (trapAux prev xs).length = xs.length := by
  intro xs; induction xs with
  | nil => intro _; simp [trapAux]
  | cons x r ih => intro prev; simp [trapAux, ih]

/-- the unmodified branch of `compute_weights` never fails and is the structural form -/
theorem computeWeights_plain (g : List Rat) (a b : Rat) :
    computeWeights g a b false = .ok (trapAux none g) := by
  simp [computeWeights, cwLoop_false g.length g 0 0 0 (by simp)]

/-- key identity: weighted sum = half left cell at the first point + integral of the interpolant -/
theorem trapAux_dot : ∀ (xs fs : List Rat) (prev : Option Rat), xs.length = fs.length →
    dot (trapAux prev xs) fs =
      (match xs, fs with | x :: _, f :: _ => lp prev x * f | _, _ => 0) + plIntegral xs fs := by
  intro xs
  induction xs with
  | nil => intro fs prev _; cases fs <;> simp [trapAux, dot, plIntegral]
  | cons x rest ih =>
    intro fs prev h
    cases fs with
    | nil => simp at h
    | cons f frest =>
      have h' : rest.length = frest.length := by simpa using h
      simp only [trapAux, dot]
      rw [ih frest (some x) h']
      cases rest with
      | nil =>
        cases frest with
        | nil => simp [plIntegral]
        | cons _ _ => simp at h'
      | cons y r =>
        cases frest with
        | nil => simp at h'
        | cons gy fr => simp only [plIntegral, lp]; ring

theorem dot_trap_eq_plIntegral (xs fs : List Rat) (h : xs.length = fs.length) :
    dot (trapAux none xs) fs = plIntegral xs fs := by
  rw [trapAux_dot xs fs none h]
  cases xs <;> cases fs <;> simp [lp]

/-! ### sign -/

theorem trapAux_nonneg : ∀ (xs : List Rat) (prev : Option Rat), sortedLe xs = true →
    (∀ p x, prev = some p → xs.head? = some x → p ≤ x) → ∀ w ∈ trapAux prev xs, 0 ≤ w := by
  intro xs
  induction xs with
  | nil => intro prev _ _ w hw; simp [trapAux] at hw
  | cons x rest ih =>
    intro prev hs hp w hw
    simp only [trapAux, List.mem_cons] at hw
    rcases hw with rfl | hw
    · have h1 : 0 ≤ lp prev x := by
        cases prev with
        | none => simp [lp]
        | some p => have := hp p x rfl (by simp); simp only [lp]; linarith
      cases rest with
      | nil => simpa using h1
      | cons y r =>
        have : x ≤ y := by simp [sortedLe] at hs; exact hs.1
        simp only; linarith
    · cases rest with
      | nil => simp [trapAux] at hw
      | cons y r =>
        have hxy : x ≤ y := by simp [sortedLe] at hs; exact hs.1
        have hs' : sortedLe (y :: r) = true := by simp [sortedLe] at hs; exact hs.2
        exact ih (some x) hs' (by intro p z hp hz; simp at hp hz; subst hp; subst hz; exact hxy) w hw

/-! ### linear functions -/

/-- the interpolant of the samples of a linear function integrates to the exact integral (telescoping) -/
theorem plIntegral_linear (α β : Rat) : ∀ (rest : List Rat) (x : Rat),
    plIntegral (x :: rest) ((x :: rest).map fun t => α * t + β) =
      α * (((x :: rest).getLast (by simp)) * ((x :: rest).getLast (by simp)) - x * x) / 2
        + β * (((x :: rest).getLast (by simp)) - x) := by
  intro rest
  induction rest with
  | nil => intro x; simp [plIntegral]
  | cons y r ih =>
    intro x
    have := ih y
    simp only [List.map_cons] at this ⊢
    simp only [plIntegral, List.getLast_cons_cons]
    rw [this]; ring

/-! ### slices -/

theorem dot_snoc : ∀ (ws iv : List Rat) (z : Rat), ws.length = iv.length + 1 →
    dot ws (iv ++ [z]) = dot ws.dropLast iv + ws.getLastD 0 * z := by
  intro ws
  induction ws with
  | nil => intro iv z h; simp at h
  | cons w r ih =>
    intro iv z h
    cases iv with
    | nil =>
      cases r with
      | nil => simp [dot]
      | cons _ _ => simp at h
    | cons f iv' =>
      cases r with
      | nil => simp at h
      | cons w' r' =>
        have h' : (w' :: r').length = iv'.length + 1 := by simpa using h
        have := ih iv' z h'
        simp only [List.cons_append, dot, List.dropLast_cons_cons, List.getLastD_cons] at this ⊢
        rw [this]; simp; ring

/-- pairing the full weight vector with zero-padded values = pairing the `[1:-1]` slice with the interior values -/
theorem dot_zeroPad (ws iv : List Rat) (h : ws.length = iv.length + 2) :
    dot ws (0 :: (iv ++ [0])) = dot (dropEnds ws) iv := by
  cases ws with
  | nil => simp at h
  | cons w r =>
    have h' : r.length = iv.length + 1 := by simpa using h
    simp only [dot, dropEnds, List.drop_one, List.tail_cons]
    rw [dot_snoc r iv 0 h']; ring

theorem dropEnds_zeroEnds (ws : List Rat) : dropEnds (zeroEnds ws) = dropEnds ws := by
  simp [dropEnds, zeroEnds]

/-! ### tensor product -/

theorem dot_append : ∀ (a b c d : List Rat), a.length = c.length → dot (a ++ b) (c ++ d) = dot a c + dot b d := by
  intro a
  induction a with
  | nil => intro b c d h; cases c <;> simp [dot] at h ⊢
  | cons x a ih =>
    intro b c d h
    cases c with
    | nil => simp at h
    | cons y c => simp only [List.cons_append, dot]; rw [ih b c d (by simpa using h)]; ring

theorem dot_map_mul (w f : Rat) : ∀ (vs gs : List Rat), dot (vs.map fun v => w * v) (gs.map fun g => f * g) = w * f * dot vs gs := by
  intro vs
  induction vs with
  | nil => intro gs; simp [dot]
  | cons v vs ih =>
    intro gs
    cases gs with
    | nil => simp [dot]
    | cons g gs => simp only [List.map_cons, dot]; rw [ih gs]; ring

/-- the tensor rule applied to a product function factorises -/
theorem dot_tensor : ∀ (ws fs vs gs : List Rat), vs.length = gs.length →
    dot (tensor ws vs) (tensor fs gs) = dot ws fs * dot vs gs := by
  intro ws
  induction ws with
  | nil => intro fs vs gs _; simp [tensor, dot]
  | cons w ws ih =>
    intro fs vs gs h
    cases fs with
    | nil => simp [tensor, dot]
    | cons f fs =>
      have := ih fs vs gs h
      simp only [tensor, List.flatMap_cons] at this ⊢
      rw [dot_append _ _ _ _ (by simp [h]), dot_map_mul, this]
      simp only [dot]; ring

end SparseSpace.GlobalQuad
