import SparseSpace.Generated.GlobalTrapGen
import SparseSpace.Model.GlobalQuad
import SparseSpace.Lemmas.CombiGenRt
import SparseSpace.Lemmas.GlobalQuadMod
import Mathlib.Tactic.Ring
import Mathlib.Tactic.FieldSimp
import Mathlib.Tactic.Linarith
/-!
# Translator tie for the global trapezoidal rule (C09): `GlobalTrapezoidalGrid.compute_weights` generated from `Grid.py`
agrees with `Model/GlobalQuad` (`cwLoop`, `computeWeights`)

The generated loop runs over the indices and accumulates into the array `weights` (`weights[i] += …`, reading
`grid_1D[i-2 … i+2]`); the hand model is one structural pass that carries the two previous points.
-/
namespace SparseSpace.GlobalQuad
open SparseSpace.PyRt

/-! ### generic loop lemmas -/

theorem foldl_congr_inv {α β : Type} (f f' : β → α → β) (P : β → Prop) : ∀ (l : List α) (init : β), P init →
    (∀ b a, a ∈ l → P b → f b a = f' b a ∧ P (f' b a)) → List.foldl f init l = List.foldl f' init l
  | [], _, _, _ => rfl
  | x :: l, init, hi, h => by
    obtain ⟨h1, h2⟩ := h init x (by simp) hi
    simp only [List.foldl_cons, h1]
    exact foldl_congr_inv f f' P l _ h2 (fun b a ha hb => h b a (by simp [ha]) hb)

theorem getItemR_nat (l : List Rat) (k : Nat) : getItem l (Int.ofNat k) = l.getD k 0 := by
  unfold getItem pos?
  by_cases h : k < l.length
  · simp [h]
  · simp [h]; rfl

theorem setItemR_nat (l : List Rat) (k : Nat) (v : Rat) : setItem l (Int.ofNat k) v = l.set k v := by
  unfold setItem pos?
  by_cases h : k < l.length
  · simp [h]
  · simp [h]
    rw [List.set_eq_of_length_le (by omega)]

/-- `for i in range(n): w[i] = w[i] + c(i)` on an array of length `n` of zeros yields `[c 0, …, c (n-1)]` -/
theorem foldl_set_add (c : Nat → Rat) : ∀ (m : Nat) (pre : List Rat),
    List.foldl (fun (w : List Rat) (k : Nat) => w.set (pre.length + k) (w.getD (pre.length + k) 0 + c (pre.length + k)))
      (pre ++ List.replicate m 0) (List.range m) = pre ++ (List.range m).map (fun k => c (pre.length + k))
  | 0, pre => by simp
  | m + 1, pre => by
    rw [List.range_succ_eq_map, List.foldl_cons, List.foldl_map, List.map_cons, List.map_map]
    have h0 : (pre ++ List.replicate (m + 1) (0 : Rat)).set (pre.length + 0)
        ((pre ++ List.replicate (m + 1) (0 : Rat)).getD (pre.length + 0) 0 + c (pre.length + 0))
        = (pre ++ [c pre.length]) ++ List.replicate m 0 := by
      simp [List.replicate_succ, List.getD_eq_getElem?_getD]
    rw [h0]
    have ih := foldl_set_add c m (pre ++ [c pre.length])
    simp only [List.length_append, List.length_cons, List.length_nil, Nat.zero_add] at ih
    have e : (fun (w : List Rat) (k : Nat) => w.set (pre.length + (k + 1)) (w.getD (pre.length + (k + 1)) 0 + c (pre.length + (k + 1))))
        = fun w k => w.set (pre.length + 1 + k) (w.getD (pre.length + 1 + k) 0 + c (pre.length + 1 + k)) := by
      funext w k
      rw [show pre.length + (k + 1) = pre.length + 1 + k by omega]
    simp only [Nat.succ_eq_add_one] at *
    rw [e, ih]
    simp only [List.append_assoc, List.cons_append, List.nil_append, Nat.add_zero, Function.comp]
    congr 2
    apply List.map_congr_left
    intro k _
    show c (pre.length + 1 + k) = c (pre.length + (k + 1))
    rw [show pre.length + (k + 1) = pre.length + 1 + k by omega]

/-! ### the contribution of index `i`, read from the grid by index -/

/-- what the generated loop adds to `weights[i]` (left neighbour part + right neighbour part), with the points read by
index (`0` for an index outside the grid, as `hd1` / `hd2` of the hand model) -/
def cwC (md : Bool) (n : Nat) (g : List Rat) (i : Nat) : Rat :=
  (if i = 0 then 0
   else if md && i == 1 then
     (g.getD (i + 1) 0 - g.getD (i - 1) 0) * (g.getD (i + 1) 0 - g.getD (i - 1) 0) / (2 * (g.getD (i + 1) 0 - g.getD i 0))
   else if md && i == 2 then
     (g.getD i 0 - g.getD (i - 2) 0) - (g.getD i 0 - g.getD (i - 2) 0) * (g.getD i 0 - g.getD (i - 2) 0) / (2 * (g.getD i 0 - g.getD (i - 1) 0))
   else if !(md && i + 2 == n) then (g.getD i 0 - g.getD (i - 1) 0) / 2
   else 0)
  + (if i + 1 < n then
      if md && i + 2 == n then
        (if i > 1 then (g.getD (i + 1) 0 - g.getD (i - 1) 0) * (g.getD (i + 1) 0 - g.getD (i - 1) 0) / (2 * (g.getD i 0 - g.getD (i - 1) 0)) else 0)
      else if md && i + 3 == n then
        (if i > 1 then (g.getD (i + 2) 0 - g.getD i 0) - (g.getD (i + 2) 0 - g.getD i 0) * (g.getD (i + 2) 0 - g.getD i 0) / (2 * (g.getD (i + 1) 0 - g.getD i 0)) else 0)
      else if !(md && i == 1) then (g.getD (i + 1) 0 - g.getD i 0) / 2
      else 0
     else 0)

theorem getD_append_mid (pre : List Rat) (x : Rat) (rest : List Rat) :
    (pre ++ x :: rest).getD pre.length 0 = x ∧ (pre ++ x :: rest).getD (pre.length + 1) 0 = hd1 rest ∧
    (pre ++ x :: rest).getD (pre.length + 2) 0 = hd2 rest := by
  refine ⟨by simp [List.getD_eq_getElem?_getD], ?_, ?_⟩
  · cases rest with
    | nil => simp [List.getD_eq_getElem?_getD, hd1]
    | cons y r => simp [List.getD_eq_getElem?_getD, hd1, List.getElem?_append_right]
  · cases rest with
    | nil => simp [List.getD_eq_getElem?_getD, hd2]
    | cons y r =>
      cases r with
      | nil => simp [List.getD_eq_getElem?_getD, hd2, List.getElem?_append_right]
      | cons z r' => simp [List.getD_eq_getElem?_getD, hd2, List.getElem?_append_right]

/-- the structural pass of the hand model is the list of the per-index contributions -/
theorem cwLoop_eq_map (md : Bool) (n : Nat) : ∀ (suf pre : List Rat) (pp p : Rat),
    (1 ≤ pre.length → p = (pre ++ suf).getD (pre.length - 1) 0) →
    (2 ≤ pre.length → pp = (pre ++ suf).getD (pre.length - 2) 0) →
    cwLoop md n pre.length pp p suf = (List.range suf.length).map (fun k => cwC md n (pre ++ suf) (pre.length + k))
  | [], _, _, _, _, _ => by simp [cwLoop]
  | x :: rest, pre, pp, p, hp, hpp => by
    obtain ⟨g0, g1, g2⟩ := getD_append_mid pre x rest
    rw [cwLoop, List.length_cons, List.range_succ_eq_map, List.map_cons, List.map_map]
    have ih := cwLoop_eq_map md n rest (pre ++ [x]) p x
      (by intro _; simp [List.getD_eq_getElem?_getD])
      (by
        intro h2
        have h1 : 1 ≤ pre.length := by simp at h2; omega
        rw [hp h1]
        simp only [List.length_append, List.length_cons, List.length_nil, List.append_assoc, List.cons_append, List.nil_append]
        congr 1)
    simp only [List.length_append, List.length_cons, List.length_nil, List.append_assoc, List.cons_append, List.nil_append] at ih
    rw [ih]
    congr 1
    · -- the head: index `pre.length`
      simp only [cwC, Nat.add_zero, g0, g1, g2]
      by_cases h0 : pre.length = 0
      · simp [h0]
      · have h1 : 1 ≤ pre.length := by omega
        rw [← hp h1]
        by_cases h2 : 2 ≤ pre.length
        · rw [← hpp h2]
        · have : pre.length = 1 := by omega
          simp [this]
    · apply List.map_congr_left
      intro k _
      simp only [Function.comp]
      rw [show pre.length + 1 + k = pre.length + (k + 1) by omega]

/-! ### Python indices `i`, `i ± 1`, `i ± 2` as list positions -/

theorem getItemR_add (l : List Rat) (k j : Nat) : getItem l (Int.ofNat k + Int.ofNat j) = l.getD (k + j) 0 := by
  rw [show Int.ofNat k + Int.ofNat j = Int.ofNat (k + j) from rfl, getItemR_nat]

theorem getItemR_sub (l : List Rat) (k j : Nat) (h : j ≤ k) : getItem l (Int.ofNat k - Int.ofNat j) = l.getD (k - j) 0 := by
  rw [show Int.ofNat k - Int.ofNat j = Int.ofNat (k - j) by simp [Int.ofNat_eq_natCast, Int.ofNat_sub h], getItemR_nat]

theorem set_set_same (w : List Rat) (k : Nat) (u v : Rat) : (w.set k u).set k v = w.set k v := by simp

theorem getD_set_same (w : List Rat) (k : Nat) (u : Rat) (h : k < w.length) : (w.set k u).getD k 0 = u := by
  simp [List.getD_eq_getElem?_getD, h]

theorem set_getD_self (w : List Rat) (k : Nat) : w.set k (w.getD k 0 + 0) = w := by
  by_cases h : k < w.length
  · simp [List.getD_eq_getElem?_getD, h]
  · rw [List.set_eq_of_length_le (by omega)]

/-- closes one case of the step characterisation: evaluate the conditions, then compare branch by branch -/
local macro "fin_step" : tactic => `(tactic|
  (simp [cwC, *] <;>
   ((try split_ifs) <;> first | omega | rfl | (simp only [add_zero, *]; done) | (congr 1; ring) | (simp [*] <;> ring))))

/-- the generated function outside the two closed-form cases (3 and 4 points of the modified basis): the array of the
per-index contributions, with the two ends zeroed for the modified basis -/
theorem gen_eq_map (g : List Rat) (a b : Rat) (md : Bool) (h34 : md = true → g.length ≠ 3 ∧ g.length ≠ 4) :
    GenGT.compute_weights g a b md =
      (if md then setItem (setItem ((List.range g.length).map (cwC md g.length g)) 0 0) (-1) 0
       else (List.range g.length).map (cwC md g.length g)) := by
  unfold GenGT.compute_weights
  have c3 : (md && (PyRt.len g == (3 : Int))) = false := by
    rcases md with _ | _
    · rfl
    · have := (h34 rfl).1
      simp [PyRt.len]; omega
  have c4 : (md && (PyRt.len g == (4 : Int))) = false := by
    rcases md with _ | _
    · rfl
    · have := (h34 rfl).2
      simp [PyRt.len]; omega
  dsimp only
  rw [c3, c4]
  simp only [Bool.false_eq_true, if_false]
  rw [foldl_congr_inv (α := Int) (β := List Rat) (P := fun w => w.length = g.length)
    (f' := fun w i => w.set i.toNat (w.getD i.toNat 0 + cwC md g.length g i.toNat))]
  · have hc := foldl_set_add (cwC md g.length g) g.length []
    simp only [List.length_nil, Nat.zero_add, List.nil_append] at hc
    simp only [PyRt.range2, PyRt.range, PyRt.len, List.foldl_map, Int.ofNat_eq_natCast, sub_zero, Int.toNat_natCast, zero_add,
      Int.cast_zero, hc]
    rcases md with _ | _ <;> simp
  · simp [PyRt.len]
  · intro w i hi hw
    refine ⟨?_, by simp [hw]⟩
    simp only [PyRt.range2, PyRt.range, PyRt.len, List.mem_map, List.mem_range] at hi
    obtain ⟨k, hk, rfl⟩ := hi
    simp only [PyRt.len, Int.ofNat_eq_natCast, sub_zero, Int.toNat_natCast, zero_add] at hk ⊢
    have ew : ∀ w' : List Rat, getItem w' (↑k : Int) = w'.getD k 0 := fun w' => getItemR_nat w' k
    have es : ∀ (w' : List Rat) (v : Rat), setItem w' (↑k : Int) v = w'.set k v := fun w' v => setItemR_nat w' k v
    have e1 : getItem g ((↑k : Int) + 1) = g.getD (k + 1) 0 := getItemR_add g k 1
    have e2 : getItem g ((↑k : Int) + 2) = g.getD (k + 2) 0 := getItemR_add g k 2
    have em1 : 1 ≤ k → getItem g ((↑k : Int) - 1) = g.getD (k - 1) 0 := getItemR_sub g k 1
    have em2 : 2 ≤ k → getItem g ((↑k : Int) - 2) = g.getD (k - 2) 0 := getItemR_sub g k 2
    have d0 : ((↑k : Int) > 0) ↔ (0 < k) := by omega
    have d1 : ((↑k : Int) > 1) ↔ (1 < k) := by omega
    have b1 : ((↑k : Int) == 1) = (k == 1) := by rw [Bool.eq_iff_iff]; simp only [beq_iff_eq]; omega
    have b2 : ((↑k : Int) == 2) = (k == 2) := by rw [Bool.eq_iff_iff]; simp only [beq_iff_eq]; omega
    have dl : ((↑k : Int) < ↑g.length - 1) ↔ (k + 1 < g.length) := by omega
    have bn2 : ((↑k : Int) == ↑g.length - 2) = (k + 2 == g.length) := by rw [Bool.eq_iff_iff]; simp only [beq_iff_eq]; omega
    have bn3 : ((↑k : Int) == ↑g.length - 3) = (k + 3 == g.length) := by rw [Bool.eq_iff_iff]; simp only [beq_iff_eq]; omega
    simp only [decide_eq_true_eq, ew, es, e1, e2, d0, d1, b1, b2, dl, bn2, bn3]
    have gs : ∀ u : Rat, (w.set k u).getD k 0 = u := fun u => getD_set_same w k u (by omega)
    clear c3 c4 h34 hw ew es e1 e2 d0 d1 b1 b2 dl bn2 bn3
    generalize g.length = n at hk ⊢
    have gs' : ∀ u : Rat, (w.set k u)[k]?.getD 0 = u := fun u => by
      have := gs u; rwa [List.getD_eq_getElem?_getD] at this
    have sg : w.set k (w[k]?.getD 0) = w := by
      have := set_getD_self w k; rwa [add_zero, List.getD_eq_getElem?_getD] at this
    clear gs hk
    rcases Nat.eq_zero_or_pos k with rfl | hpos
    · rcases md with _ | _
      · fin_step
      · fin_step
    · simp only [em1 hpos]
      rcases (show k = 1 ∨ 2 ≤ k by omega) with rfl | h2
      · rcases md with _ | _
        · fin_step
        · fin_step
      · simp only [em2 h2]
        rcases (show k = 2 ∨ 3 ≤ k by omega) with rfl | h3
        · rcases md with _ | _
          · fin_step
          · fin_step
        · rcases md with _ | _
          · fin_step
          · fin_step

/-! ### agreement with the hand model -/

theorem map_cwC_eq_cwLoop (md : Bool) (g : List Rat) :
    (List.range g.length).map (cwC md g.length g) = cwLoop md g.length 0 0 0 g := by
  have h := cwLoop_eq_map md g.length g [] 0 0 (by simp) (by simp)
  simp only [List.length_nil, List.nil_append, Nat.zero_add] at h
  rw [h]

theorem set_last_zero : ∀ (l : List Rat), l ≠ [] → l.set (l.length - 1) 0 = l.dropLast ++ [0]
  | [], h => absurd rfl h
  | [x], _ => rfl
  | x :: y :: r, _ => by
    have ih := set_last_zero (y :: r) (by simp)
    simp only [List.length_cons, Nat.add_sub_cancel] at ih ⊢
    rw [List.set_cons_succ, ih]
    simp

/-- `weights[0] = 0.0; weights[-1] = 0.0` on an array of at least two entries -/
theorem setItem_ends (l : List Rat) (h : 2 ≤ l.length) : setItem (setItem l 0 0) (-1) 0 = zeroEnds l := by
  rcases l with _ | ⟨x, _ | ⟨y, r⟩⟩
  · simp at h
  · simp at h
  · have e1 : setItem (x :: y :: r) 0 0 = 0 :: y :: r := by simp [setItem, pos?]
    rw [e1]
    have e2 : setItem ((0 : Rat) :: y :: r) (-1) 0 = ((0 : Rat) :: y :: r).set ((y :: r).length) 0 := by
      simp [setItem, pos?]
    rw [e2, show (y :: r).length = r.length + 1 from rfl, List.set_cons_succ]
    have := set_last_zero (y :: r) (by simp)
    simp only [List.length_cons, Nat.add_sub_cancel] at this
    simp only [this, zeroEnds, dropEnds, List.drop_one, List.tail_cons]

/-- **plain rule**: for every grid the generated function returns the hand model's structural pass -/
theorem gen_plain (g : List Rat) (a b : Rat) : GenGT.compute_weights g a b false = cwLoop false g.length 0 0 0 g := by
  rw [gen_eq_map g a b false (by simp)]
  simp [map_cwC_eq_cwLoop]

/-- **modified basis**: whenever the hand model returns weights (no `IndexError` / `ZeroDivisionError` / failed
self-assert), the generated function returns the same list -/
theorem gen_modified (g ws : List Rat) (a b : Rat) (h : computeWeights g a b true = .ok ws) :
    GenGT.compute_weights g a b true = ws := by
  rcases g with _ | ⟨x0, _ | ⟨x1, _ | ⟨x2, _ | ⟨x3, _ | ⟨x4, r⟩⟩⟩⟩⟩
  · simp [computeWeights, computeWeightsMod] at h
  · simp only [computeWeights, if_true, computeWeightsMod] at h
    split_ifs at h
    obtain rfl := Except.ok.inj h
    rw [gen_eq_map _ a b true (by simp)]
    simp [cwC, setItem, pos?]
  · simp [computeWeights, computeWeightsMod] at h
  · simp only [computeWeights, if_true, computeWeightsMod] at h
    split_ifs at h
    obtain rfl := Except.ok.inj h
    simp [GenGT.compute_weights, PyRt.len, setItem, pos?, List.replicate]
  · simp only [computeWeights, if_true, computeWeightsMod] at h
    split_ifs at h
    obtain rfl := Except.ok.inj h
    simp [GenGT.compute_weights, PyRt.len, setItem, getItem, pos?, List.replicate]
    ring
  · have h5 := SparseSpace.GlobalQuad.computeWeights_mod_ge5 _ ws a b (by simp) h
    rw [gen_eq_map _ a b true (by simp), if_pos rfl, map_cwC_eq_cwLoop, setItem_ends _ (by simp [cwLoop_length]), h5]

end SparseSpace.GlobalQuad
