import SparseSpace.Lemmas.RefTreeTiling
/-!
# Rebalancing (C06): `rebalance_interval` keeps tiling and refinement tree for EVERY outcome of its comparisons
-/
namespace SparseSpace

/-! ## the paired level update -/

theorem addLevel_zero (l : Nat) : addLevel l 0 = l := by simp [addLevel]
theorem addLevel_one (l : Nat) : addLevel l 1 = l + 1 := by simp [addLevel]
theorem addLevel_neg_one (l : Nat) : addLevel l (-1) = l - 1 := by simp [addLevel]; omega

/-- what the rebalancing never touches -/
def frame (x : Ival) : Rat × Rat × Int := (x.s, x.e, x.c)

theorem applyDeltas_ne : ∀ (ds : List Int) (carry : Int) (seg : List Ival), seg ≠ [] → applyDeltas ds carry seg ≠ []
  | _, _, [], h => absurd rfl h
  | [], _, _ :: _, _ => by simp [applyDeltas]
  | _ :: _, _, [_], _ => by simp [applyDeltas]
  | _ :: _, _, _ :: _ :: _, _ => by simp [applyDeltas]

/-- the paired update `levels[1] += δ; next.levels[0] += δ` keeps the tiling (coordinates, agreement on the
shared point, both end levels) and changes the inner levels by `δ` -/
theorem applyDeltas_til : ∀ (seg : List Ival) (ds : List Int) (carry : Int) {a : Rat} {lo : Nat} {b : Rat} {hi : Nat},
    Til a lo b hi seg → ds.length + 1 = seg.length →
    Til a (addLevel lo carry) b hi (applyDeltas ds carry seg) ∧
    innerLevels (applyDeltas ds carry seg) = List.zipWith addLevel (innerLevels seg) ds ∧
    (applyDeltas ds carry seg).map frame = seg.map frame
  | [], _, _, _, _, _, _, h, _ => absurd h (by simp [Til])
  | [x], ds, carry, a, lo, b, hi, h, hl => by
    have : ds = [] := by cases ds with
      | nil => rfl
      | cons _ _ => simp at hl
    subst this
    obtain ⟨h1, h2, h3, h4, h5⟩ := h
    refine ⟨⟨h1, by show addLevel x.l0 carry = addLevel lo carry; rw [h2], h3, h4, h5⟩, ?_, ?_⟩
    · simp [applyDeltas, innerLevels]
    · simp [applyDeltas, frame]
  | x :: y :: xs, ds, carry, a, lo, b, hi, h, hl => by
    cases ds with
    | nil => simp at hl
    | cons d ds =>
      obtain ⟨h1, h2, h3, h4⟩ := h
      obtain ⟨ih1, ih2, ih3⟩ := applyDeltas_til (y :: xs) ds d h4 (by simpa using hl)
      have hne := applyDeltas_ne ds d (y :: xs) (by simp)
      refine ⟨?_, ?_, ?_⟩
      · show Til a (addLevel lo carry) b hi
          ({ x with l0 := addLevel x.l0 carry, l1 := addLevel x.l1 d } :: applyDeltas ds d (y :: xs))
        rw [til_cons]
        exact ⟨h1, by show addLevel x.l0 carry = addLevel lo carry; rw [h2], h3, Or.inr ih1⟩
      · show innerLevels ({ x with l0 := addLevel x.l0 carry, l1 := addLevel x.l1 d } :: applyDeltas ds d (y :: xs)) = _
        cases hr : applyDeltas ds d (y :: xs) with
        | nil => exact absurd hr hne
        | cons z zs =>
          rw [innerLevels_cons_cons, ← hr, ih2, innerLevels_cons_cons]
          simp
      · show List.map frame ({ x with l0 := addLevel x.l0 carry, l1 := addLevel x.l1 d } :: applyDeltas ds d (y :: xs)) = _
        rw [List.map_cons, ih3]; simp [frame]

theorem til_map_l1 : ∀ (seg : List Ival) {a : Rat} {lo : Nat} {b : Rat} {hi : Nat}, Til a lo b hi seg →
    seg.map (·.l1) = innerLevels seg ++ [hi]
  | [], _, _, _, _, h => absurd h (by simp [Til])
  | [x], _, _, _, _, h => by
    obtain ⟨_, _, _, _, h5⟩ := h
    simp [innerLevels, h5]
  | x :: y :: xs, _, _, _, _, h => by
    obtain ⟨_, _, _, h4⟩ := h
    have := til_map_l1 (y :: xs) h4
    rw [innerLevels_cons_cons, List.map_cons, this]; simp

/-- cutting a tiling after `k` objects -/
theorem til_cut (seg : List Ival) (k : Nat) {a : Rat} {lo : Nat} {b : Rat} {hi : Nat}
    (h : Til a lo b hi seg) (hk0 : 0 < k) (hk : k < seg.length) :
    ∃ m lm, Til a lo m lm (seg.take k) ∧ Til m lm b hi (seg.drop k) ∧
      innerLevels seg = innerLevels (seg.take k) ++ [lm] ++ innerLevels (seg.drop k) := by
  have h1 : seg.take k ≠ [] := by
    intro e; have := congrArg List.length e
    rw [List.length_take, List.length_nil] at this; omega
  have h2 : seg.drop k ≠ [] := by
    intro e; have := congrArg List.length e
    rw [List.length_drop, List.length_nil] at this; omega
  have hsplit : seg = seg.take k ++ seg.drop k := (List.take_append_drop k seg).symm
  obtain ⟨m, lm, t1, t2, _⟩ := til_split_append (seg.take k) h1 h2 (by rw [← hsplit]; exact h)
  refine ⟨m, lm, t1, t2, ?_⟩
  conv_lhs => rw [hsplit]
  rw [innerLevels_append _ h2, til_map_l1 _ t1]

/-! ## the first loop of `rebalance_interval` -/

theorem scan_append (level : Nat) : ∀ (xs ys : List Nat) (i : Nat) (r : Scan),
    scanLevels level (xs ++ ys) i r = scanLevels level ys (i + xs.length) (scanLevels level xs i r)
  | [], ys, i, r => by simp [scanLevels]
  | x :: xs, ys, i, r => by
    simp only [List.cons_append, scanLevels, List.length_cons]
    rw [scan_append level xs ys]
    congr 1; omega

theorem scan_skip (level : Nat) : ∀ (xs : List Nat) (i : Nat) (r : Scan),
    (∀ x ∈ xs, x ≠ level ∧ x ≠ level + 1) → scanLevels level xs i r = r
  | [], _, _, _ => rfl
  | x :: xs, i, r, h => by
    have hx := h x (by simp)
    have e1 : (x == level) = false := by simp [hx.1]
    have e2 : (x == level + 1) = false := by simp [hx.2]
    simp only [scanLevels, e1, e2, Bool.false_eq_true, if_false]
    exact scan_skip level xs (i + 1) r (fun y hy => h y (by simp [hy]))

/-- a (possibly empty) subtree below `level`, scanned before the root was seen -/
theorem scan_left (level : Nat) (L₁ : List Nat) (h : Tree level L₁) :
    ∃ p1l, scanLevels level L₁ 0 {} = { pl := none, p1l := p1l, p1r := none, ok := true } ∧
      ((L₁ = [] ∧ p1l = none) ∨
       ∃ A A', L₁ = A ++ [level + 1] ++ A' ∧ p1l = some A.length ∧ Tree (level + 1) A ∧ Tree (level + 1) A') := by
  by_cases hne : L₁ = []
  · subst hne; exact ⟨none, rfl, Or.inl ⟨rfl, rfl⟩⟩
  · obtain ⟨A, A', e, tA, tA'⟩ := tree_inv h hne
    refine ⟨some A.length, ?_, Or.inr ⟨A, A', e, rfl, tA, tA'⟩⟩
    subst e
    have gA := tree_gt tA
    have gA' := tree_gt tA'
    rw [List.append_assoc, scan_append, scan_skip level A 0 {} (fun x hx => by have := gA x hx; omega),
      scan_append]
    have e1 : (level + 1 == level) = false := by simp
    simp only [scanLevels, e1, Bool.false_eq_true, if_false, beq_self_eq_true, if_true, Option.isNone_none,
      Bool.and_self, Nat.zero_add]
    rw [scan_skip level A' _ _ (fun x hx => by have := gA' x hx; omega)]

/-- the result of the scan on a refinement tree: position of the root, of the roots of its two subtrees -/
theorem scan_tree (b' : Nat) (L₁ L₂ : List Nat) (hi : Nat) (h₁ : Tree (b' + 1) L₁) (h₂ : Tree (b' + 1) L₂)
    (hhi : hi ≤ b') :
    ∃ p1l p1r, scanLevels (b' + 1) (L₁ ++ [b' + 1] ++ L₂ ++ [hi]) 0 {}
        = { pl := some L₁.length, p1l := p1l, p1r := p1r, ok := true } ∧
      ((L₁ = [] ∧ p1l = none) ∨
       ∃ A A', L₁ = A ++ [b' + 2] ++ A' ∧ p1l = some A.length ∧ Tree (b' + 2) A ∧ Tree (b' + 2) A') ∧
      ((L₂ = [] ∧ p1r = none) ∨
       ∃ B D, L₂ = B ++ [b' + 2] ++ D ∧ p1r = some (L₁.length + 1 + B.length) ∧ Tree (b' + 2) B ∧ Tree (b' + 2) D) := by
  obtain ⟨p1l, hs, hl⟩ := scan_left (b' + 1) L₁ h₁
  have hroot : ∀ r : Scan, scanLevels (b' + 1) [b' + 1] L₁.length r
      = (if (b' + 1 == b' + 1 + 1) then r else { r with pl := some L₁.length }) := by
    intro r; simp [scanLevels]
  have hlast : ∀ (i : Nat) (r : Scan), scanLevels (b' + 1) [hi] i r = r :=
    fun i r => scan_skip _ _ _ _ (fun x hx => by simp at hx; subst hx; omega)
  by_cases hne : L₂ = []
  · subst hne
    refine ⟨p1l, none, ?_, hl, Or.inl ⟨rfl, rfl⟩⟩
    rw [List.append_nil, List.append_assoc, scan_append, hs, scan_append, Nat.zero_add, hroot, hlast]
    simp
  · obtain ⟨B, D, e, tB, tD⟩ := tree_inv h₂ hne
    refine ⟨p1l, some (L₁.length + 1 + B.length), ?_, hl, Or.inr ⟨B, D, e, rfl, tB, tD⟩⟩
    subst e
    have gB := tree_gt tB
    have gD := tree_gt tD
    have e0 : L₁ ++ [b' + 1] ++ (B ++ [b' + 1 + 1] ++ D) ++ [hi]
        = L₁ ++ ([b' + 1] ++ (B ++ ([b' + 1 + 1] ++ (D ++ [hi])))) := by simp
    rw [e0, scan_append, hs, scan_append, Nat.zero_add, hroot, scan_append,
      scan_skip (b' + 1) B _ _ (fun x hx => by have := gB x hx; omega), scan_append]
    have e1 : (b' + 1 + 1 == b' + 1) = false := by simp
    have e2 : (b' + 1 == b' + 1 + 1) = false := by simp
    simp only [scanLevels, e1, e2, Bool.false_eq_true, if_false, beq_self_eq_true, if_true,
      Option.isNone_none, Option.isNone_some, Option.isSome_some, Bool.and_false, Bool.false_and]
    rw [scan_append, scan_skip (b' + 1) D _ _ (fun x hx => by have := gD x hx; omega), hlast]
    simp only [List.length_singleton, List.length_cons, List.length_nil]

/-! ## the level changes of the two rotation loops -/

def liftDs (k : Nat) (v : Int) (r : Option (List Int × Option Nat)) : Option (List Int × Option Nat) :=
  match r with
  | none => none
  | some (ds, p) => some (List.replicate k v ++ ds, p)

theorem liftDs_zero (v : Int) (r : Option (List Int × Option Nat)) : liftDs 0 v r = r := by
  cases r with
  | none => rfl
  | some q => obtain ⟨ds, p⟩ := q; simp [liftDs]

theorem liftDs_succ (k : Nat) (v : Int) (r : Option (List Int × Option Nat)) :
    liftDs (k + 1) v r = (match liftDs k v r with | none => none | some (ds, p) => some (v :: ds, p)) := by
  cases r with
  | none => rfl
  | some q => obtain ⟨ds, p⟩ := q; simp [liftDs, List.replicate_succ]

theorem deltasR_prefix (level pl pr : Nat) : ∀ (P rest : List Nat) (j : Nat) (nl : Bool), j + P.length ≤ pl + 1 →
    deltasR level pl pr (P ++ rest) j nl = liftDs P.length 1 (deltasR level pl pr rest (j + P.length) nl)
  | [], rest, j, nl, _ => by simp [liftDs_zero]
  | x :: xs, rest, j, nl, h => by
    have hj : j ≤ pl := by simp at h; omega
    have ih := deltasR_prefix level pl pr xs rest (j + 1) nl (by simp at h ⊢; omega)
    simp only [List.cons_append, deltasR, hj, if_true, List.length_cons]
    rw [ih]
    have : j + (xs.length + 1) = j + 1 + xs.length := by omega
    rw [this]
    cases deltasR level pl pr rest (j + 1 + xs.length) nl with
    | none => rfl
    | some q => obtain ⟨ds, p⟩ := q; simp [liftDs, List.replicate_succ]

theorem deltasR_mid (level pl pr : Nat) : ∀ (B rest : List Nat) (j : Nat), pl < j → (∀ x ∈ B, x ≠ level + 1) →
    deltasR level pl pr (B ++ rest) j false = liftDs B.length 0 (deltasR level pl pr rest (j + B.length) false)
  | [], rest, j, _, _ => by simp [liftDs_zero]
  | x :: xs, rest, j, hj, h => by
    have hj' : ¬ j ≤ pl := by omega
    have hx : (x == level + 1) = false := by simpa using h x (by simp)
    have ih := deltasR_mid level pl pr xs rest (j + 1) (by omega) (fun y hy => h y (by simp [hy]))
    simp only [List.cons_append, deltasR, hj', if_false, hx, Bool.false_and, Bool.false_eq_true,
      Bool.or_self, List.length_cons]
    rw [ih]
    have : j + (xs.length + 1) = j + 1 + xs.length := by omega
    rw [this]
    cases deltasR level pl pr rest (j + 1 + xs.length) false with
    | none => rfl
    | some q => obtain ⟨ds, p⟩ := q; simp [liftDs, List.replicate_succ]

theorem deltasR_tail (level pl pr : Nat) : ∀ (D : List Nat) (j : Nat), pl < j → (∀ x ∈ D, x ≠ level + 1) →
    deltasR level pl pr D j true = some (List.replicate D.length (-1), none)
  | [], _, _, _ => rfl
  | x :: xs, j, hj, h => by
    have hj' : ¬ j ≤ pl := by omega
    have hx : (x == level + 1) = false := by simpa using h x (by simp)
    have ih := deltasR_tail level pl pr xs (j + 1) (by omega) (fun y hy => h y (by simp [hy]))
    simp only [deltasR, hj', if_false, hx, Bool.false_and, Bool.false_eq_true, Bool.or_false, ih, if_true,
      List.length_cons, List.replicate_succ]

/-- the first rotation loop on `L₁ ++ [level] ++ B ++ [level+1] ++ D` -/
theorem deltasR_tree (level : Nat) (L₁ B D : List Nat) (hB : ∀ x ∈ B, x ≠ level + 1) (hD : ∀ x ∈ D, x ≠ level + 1) :
    deltasR level L₁.length (L₁.length + 1 + B.length) (L₁ ++ [level] ++ (B ++ [level + 1] ++ D)) 0 false
      = some (List.replicate (L₁.length + 1) 1 ++ (List.replicate B.length 0 ++ (-1 :: List.replicate D.length (-1))),
              some (L₁.length + 1 + B.length)) := by
  have e0 : L₁ ++ [level] ++ (B ++ [level + 1] ++ D) = (L₁ ++ [level]) ++ (B ++ ((level + 1) :: D)) := by simp
  rw [e0, deltasR_prefix _ _ _ _ _ _ _ (by simp only [List.length_append, List.length_cons, List.length_nil]; omega), deltasR_mid _ _ _ _ _ _ (by simp only [List.length_append, List.length_cons, List.length_nil]; omega) hB]
  have hj' : ¬ (0 + (L₁ ++ [level]).length + B.length ≤ L₁.length) := by simp only [List.length_append, List.length_cons, List.length_nil]; omega
  have hpr : (0 + (L₁ ++ [level]).length + B.length != L₁.length + 1 + B.length) = false := by simp
  simp only [deltasR, hj', if_false, beq_self_eq_true, hpr, Bool.and_false, Bool.false_eq_true, Bool.or_true,
    if_true]
  rw [deltasR_tail _ _ _ _ _ (by simp only [List.length_append, List.length_cons, List.length_nil]; omega) hD]
  simp [liftDs]

theorem deltasL_suffix (level pl p1l : Nat) : ∀ (S : List Nat) (j : Nat) (nl : Bool), pl ≤ j →
    deltasL level pl p1l S j nl = some (List.replicate S.length 1, none)
  | [], _, _, _ => rfl
  | x :: xs, j, nl, hj => by
    have ih := deltasL_suffix level pl p1l xs (j + 1) nl (by omega)
    simp only [deltasL, ge_iff_le, hj, if_true, ih, List.length_cons, List.replicate_succ]

theorem deltasL_mid (level pl p1l : Nat) : ∀ (A' rest : List Nat) (j : Nat), j + A'.length ≤ pl →
    (∀ x ∈ A', x ≠ level) →
    deltasL level pl p1l (A' ++ rest) j false = liftDs A'.length 0 (deltasL level pl p1l rest (j + A'.length) false)
  | [], rest, j, _, _ => by simp [liftDs_zero]
  | x :: xs, rest, j, hj, h => by
    have hj' : ¬ pl ≤ j := by simp at hj; omega
    have hx : (x == level) = false := by simpa using h x (by simp)
    have ih := deltasL_mid level pl p1l xs rest (j + 1) (by simp at hj ⊢; omega) (fun y hy => h y (by simp [hy]))
    simp only [List.cons_append, deltasL, ge_iff_le, hj', if_false, Bool.false_eq_true, hx, Bool.false_and,
      Bool.and_self, List.length_cons]
    rw [ih]
    have : j + (xs.length + 1) = j + 1 + xs.length := by omega
    rw [this]
    cases deltasL level pl p1l rest (j + 1 + xs.length) false with
    | none => rfl
    | some q => obtain ⟨ds, p⟩ := q; simp [liftDs, List.replicate_succ]

theorem deltasL_prefix (level pl p1l : Nat) : ∀ (A rest : List Nat) (j : Nat), j + A.length ≤ pl →
    (∀ x ∈ A, x - 1 ≠ level) →
    deltasL level pl p1l (A ++ rest) j true = liftDs A.length (-1) (deltasL level pl p1l rest (j + A.length) true)
  | [], rest, j, _, _ => by simp [liftDs_zero]
  | x :: xs, rest, j, hj, h => by
    have hj' : ¬ pl ≤ j := by simp at hj; omega
    have hx : (x - 1 == level) = false := by simpa using h x (by simp)
    have ih := deltasL_prefix level pl p1l xs rest (j + 1) (by simp at hj ⊢; omega) (fun y hy => h y (by simp [hy]))
    simp only [List.cons_append, deltasL, ge_iff_le, hj', if_false, if_true, hx, Bool.false_and,
      Bool.false_eq_true, Bool.not_false, Bool.and_self, List.length_cons]
    rw [ih]
    have : j + (xs.length + 1) = j + 1 + xs.length := by omega
    rw [this]
    cases deltasL level pl p1l rest (j + 1 + xs.length) true with
    | none => rfl
    | some q => obtain ⟨ds, p⟩ := q; simp [liftDs, List.replicate_succ]

/-- the second rotation loop on `A ++ [level+1] ++ A' ++ [level] ++ L₂` -/
theorem deltasL_tree (level : Nat) (A A' L₂ : List Nat) (hA : ∀ x ∈ A, x - 1 ≠ level) (hA' : ∀ x ∈ A', x ≠ level) :
    deltasL level (A.length + 1 + A'.length) A.length (A ++ [level + 1] ++ A' ++ [level] ++ L₂) 0 true
      = some (List.replicate A.length (-1) ++ (-1 :: (List.replicate A'.length 0 ++ List.replicate (L₂.length + 1) 1)),
              some A.length) := by
  have e0 : A ++ [level + 1] ++ A' ++ [level] ++ L₂ = A ++ ((level + 1) :: (A' ++ (level :: L₂))) := by simp
  rw [e0, deltasL_prefix _ _ _ _ _ _ (by omega) hA]
  have hj' : ¬ (A.length + 1 + A'.length ≤ 0 + A.length) := by omega
  have hp : (0 + A.length != A.length) = false := by simp
  simp only [deltasL, ge_iff_le, hj', if_false, if_true, Nat.add_sub_cancel, beq_self_eq_true, hp, Bool.and_false,
    Bool.false_eq_true, Bool.not_true, Bool.and_false]
  rw [deltasL_mid _ _ _ _ _ _ (by omega) hA', deltasL_suffix _ _ _ _ _ _ (by omega)]
  simp [liftDs]

/-! ## effect of the level changes on the level list -/

theorem zipWith_addLevel_replicate (v : Int) : ∀ (P : List Nat),
    List.zipWith addLevel P (List.replicate P.length v) = P.map (fun l => addLevel l v)
  | [] => rfl
  | x :: xs => by simp [List.replicate_succ, zipWith_addLevel_replicate v xs]

theorem zipWith_addLevel_append (P Q : List Nat) (dp dq : List Int) (h : P.length = dp.length) :
    List.zipWith addLevel (P ++ Q) (dp ++ dq) = List.zipWith addLevel P dp ++ List.zipWith addLevel Q dq :=
  List.zipWith_append h

/-! ## the recursion -/

/-- invariant of a segment `objs[start:end]` handled by `rebalance_interval(start, end, b' + 1, …)` -/
structure SegOK (a : Rat) (lo : Nat) (b : Rat) (hi : Nat) (b' : Nat) (seg : List Ival) : Prop where
  til : Til a lo b hi seg
  lo_le : lo ≤ b'
  hi_le : hi ≤ b'
  tree : Tree b' (innerLevels seg)

theorem innerLevels_of_til_append {A B : List Ival} {a : Rat} {lo : Nat} {m : Rat} {lm : Nat} {b : Rat} {hi : Nat}
    (hA : Til a lo m lm A) (hB : Til m lm b hi B) :
    innerLevels (A ++ B) = innerLevels A ++ [lm] ++ innerLevels B := by
  rw [innerLevels_append _ (til_ne hB), til_map_l1 _ hA]

/-- cut after `k` objects, recurse on both parts, glue -/
theorem rebal_combine (dec : Nat → Nat → Nat → Bool) (f b' : Nat)
    (IH : ∀ (seg : List Ival) (a : Rat) (lo : Nat) (b : Rat) (hi : Nat), SegOK a lo b hi (b' + 1) seg →
      seg.length ≤ f + 2 → ∃ seg' tr, rebalSeg dec f (b' + 1 + 1) seg = some (seg', tr) ∧
        SegOK a lo b hi (b' + 1) seg' ∧ seg'.map frame = seg.map frame)
    (seg' : List Ival) (k : Nat) {a : Rat} {lo : Nat} {b : Rat} {hi : Nat} (X Y : List Nat)
    (ht : Til a lo b hi seg') (hl : innerLevels seg' = X ++ [b' + 1] ++ Y) (hk : X.length + 1 = k)
    (tX : Tree (b' + 1) X) (tY : Tree (b' + 1) Y) (hlo : lo ≤ b') (hhi : hi ≤ b') (hlen : seg'.length ≤ f + 3) :
    ∃ sa ta sb tb, rebalSeg dec f (b' + 1 + 1) (seg'.take k) = some (sa, ta) ∧
      rebalSeg dec f (b' + 1 + 1) (seg'.drop k) = some (sb, tb) ∧
      SegOK a lo b hi b' (sa ++ sb) ∧ (sa ++ sb).map frame = seg'.map frame := by
  have hn : (innerLevels seg').length = seg'.length - 1 := innerLevels_length
  have hn' : (innerLevels seg').length = X.length + 1 + Y.length := by
    rw [hl]; simp only [List.length_append, List.length_cons, List.length_nil]
  have hk0 : 0 < k := by omega
  have hkn : k < seg'.length := by omega
  obtain ⟨m, lm, t1, t2, hcut⟩ := til_cut seg' k ht hk0 hkn
  have hlt : (innerLevels (seg'.take k)).length = X.length := by
    rw [innerLevels_length, List.length_take]; omega
  have hsplit := hcut
  rw [hl, List.append_assoc, List.append_assoc] at hsplit
  have h1 := List.append_inj hsplit hlt.symm
  have hX : innerLevels (seg'.take k) = X := h1.1.symm
  have h2 : b' + 1 = lm ∧ Y = innerLevels (seg'.drop k) := by
    have := h1.2; simpa using this
  obtain ⟨hlm, hY⟩ := h2
  subst hlm
  have okA : SegOK a lo m (b' + 1) (b' + 1) (seg'.take k) := ⟨t1, by omega, Nat.le_refl _, by rw [hX]; exact tX⟩
  have okB : SegOK m (b' + 1) b hi (b' + 1) (seg'.drop k) := ⟨t2, Nat.le_refl _, by omega, by rw [← hY]; exact tY⟩
  obtain ⟨sa, ta, ra, oa, fa⟩ := IH _ _ _ _ _ okA (by rw [List.length_take]; omega)
  obtain ⟨sb, tb, rb, ob, fb⟩ := IH _ _ _ _ _ okB (by rw [List.length_drop]; omega)
  refine ⟨sa, ta, sb, tb, ra, rb, ⟨til_append _ oa.til ob.til, hlo, hhi, ?_⟩, ?_⟩
  · rw [innerLevels_of_til_append oa.til ob.til]
    exact Tree.node b' _ _ oa.tree ob.tree
  · rw [List.map_append, fa, fb, ← List.map_append, List.take_append_drop]

theorem map_add_one_eq (P : List Nat) : P.map (fun l => addLevel l 1) = P.map (· + 1) := by
  apply List.map_congr_left; intro x _; exact addLevel_one x

theorem map_sub_one_eq (P : List Nat) : P.map (fun l => addLevel l (-1)) = P.map (· - 1) := by
  apply List.map_congr_left; intro x _; exact addLevel_neg_one x

theorem map_zero_eq (P : List Nat) : P.map (fun l => addLevel l 0) = P := by
  conv_rhs => rw [← List.map_id P]
  apply List.map_congr_left; intro x _; exact addLevel_zero x

/-- **`rebalance_interval` for EVERY outcome of its comparisons**: on a segment that is a tiling whose inner
levels form a refinement tree no `assert` fails, the fuel suffices, and the result is again such a segment with
the same coordinates, end levels and coarsening values -/
theorem rebalSeg_spec (dec : Nat → Nat → Nat → Bool) : ∀ (fuel b' : Nat) (seg : List Ival) (a : Rat) (lo : Nat)
    (b : Rat) (hi : Nat), SegOK a lo b hi b' seg → seg.length ≤ fuel + 2 →
    ∃ seg' tr, rebalSeg dec fuel (b' + 1) seg = some (seg', tr) ∧ SegOK a lo b hi b' seg' ∧
      seg'.map frame = seg.map frame
  | 0, b', seg, a, lo, b, hi, ok, hlen => by
    refine ⟨seg, [], ?_, ok, rfl⟩
    simp only [rebalSeg]
    rw [if_pos hlen]
  | f+1, b', seg, a, lo, b, hi, ok, hlen => by
    by_cases hn : seg.length ≤ 2
    · refine ⟨seg, [], ?_, ok, rfl⟩
      simp only [rebalSeg]
      rw [if_pos hn]
    · have IH := fun seg a lo b hi h1 h2 => rebalSeg_spec dec f (b' + 1) seg a lo b hi h1 h2
      have hL : (innerLevels seg).length = seg.length - 1 := innerLevels_length
      have hne : innerLevels seg ≠ [] := by
        intro e; rw [e] at hL; simp at hL; omega
      obtain ⟨L₁, L₂, eL, t₁, t₂⟩ := tree_inv ok.tree hne
      have hlv1 : seg.map (·.l1) = L₁ ++ [b' + 1] ++ L₂ ++ [hi] := by
        rw [til_map_l1 _ ok.til, eL]
      obtain ⟨p1l, p1r, hscan, hleft, hright⟩ := scan_tree b' L₁ L₂ hi t₁ t₂ ok.hi_le
      have htake : (seg.map (·.l1)).take (seg.length - 1) = innerLevels seg := by
        rw [til_map_l1 _ ok.til, List.take_append_of_le_length (by omega), List.take_of_length_le (by omega)]
      have hlen3 : seg.length ≤ f + 3 := by omega
      have hLlen : (innerLevels seg).length = L₁.length + 1 + L₂.length := by
        rw [eL]; simp only [List.length_append, List.length_cons, List.length_nil]
      simp only [rebalSeg]
      rw [if_neg hn, hlv1, hscan]
      simp only [Bool.not_true, Bool.false_eq_true, if_false]
      rw [← hlv1, htake]
      -- first comparison: right child of the root
      by_cases hR : ∃ pr, p1r = some pr ∧ dec L₁.length pr seg.length = true
      · obtain ⟨pr, hp, hd⟩ := hR
        rcases hright with ⟨_, hnone⟩ | ⟨B, D, eL₂, hpr, tB, tD⟩
        · rw [hnone] at hp; simp at hp
        · rw [hp] at hpr; simp only [Option.some.injEq] at hpr
          subst hpr
          have gB := tree_gt tB
          have gD := tree_gt tD
          have hds := deltasR_tree (b' + 1) L₁ B D (fun x hx => by have := gB x hx; omega)
            (fun x hx => by have := gD x hx; omega)
          have eL' : innerLevels seg = L₁ ++ [b' + 1] ++ (B ++ [b' + 1 + 1] ++ D) := by rw [eL, eL₂]
          have hpick : pickRot dec L₁.length (some (L₁.length + 1 + B.length)) seg.length
              = some (L₁.length + 1 + B.length) := by simp [pickRot, hd]
          simp only [hp, hpick]
          have hlt : L₁.length < L₁.length + 1 + B.length := by omega
          simp only [hlt, decide_true, Bool.not_true, Bool.false_eq_true, if_false]
          rw [eL', hds]
          simp only []
          -- the rotated segment
          set ds : List Int := List.replicate (L₁.length + 1) 1 ++ (List.replicate B.length 0 ++ (-1 :: List.replicate D.length (-1))) with hdsdef
          have hdl : ds.length + 1 = seg.length := by
            have h3 : L₂.length = B.length + 1 + D.length := by
              rw [eL₂]; simp only [List.length_append, List.length_cons, List.length_nil]
            simp only [hdsdef, List.length_append, List.length_replicate, List.length_cons]
            omega
          obtain ⟨tl, il, fr⟩ := applyDeltas_til seg ds 0 ok.til hdl
          rw [addLevel_zero] at tl
          have il' : innerLevels (applyDeltas ds 0 seg)
              = (L₁.map (· + 1) ++ [b' + 1 + 1] ++ B) ++ [b' + 1] ++ D.map (· - 1) := by
            rw [il, eL', hdsdef]
            have e1 : L₁ ++ [b' + 1] ++ (B ++ [b' + 1 + 1] ++ D) = (L₁ ++ [b' + 1]) ++ (B ++ ((b' + 1 + 1) :: D)) := by simp
            rw [e1, zipWith_addLevel_append _ _ _ _ (by simp), zipWith_addLevel_append _ _ _ _ (by simp)]
            have e2 : List.replicate (L₁.length + 1) (1 : Int) = List.replicate (L₁ ++ [b' + 1]).length 1 := by simp
            have e3 : (-1 : Int) :: List.replicate D.length (-1) = List.replicate ((b' + 1 + 1) :: D).length (-1) := by
              simp [List.replicate_succ]
            rw [e2, e3, zipWith_addLevel_replicate, zipWith_addLevel_replicate, zipWith_addLevel_replicate,
              map_add_one_eq, map_sub_one_eq, map_zero_eq]
            simp
          have hlen' : (applyDeltas ds 0 seg).length ≤ f + 3 := by
            have := congrArg List.length fr; simp at this; omega
          obtain ⟨sa, ta, sb, tb, ra, rb, okr, frr⟩ := rebal_combine dec f b' IH (applyDeltas ds 0 seg)
            (L₁.length + 1 + B.length + 1) (L₁.map (· + 1) ++ [b' + 1 + 1] ++ B) (D.map (· - 1)) tl il'
            (by simp only [List.length_append, List.length_map, List.length_cons, List.length_nil])
            (Tree.node _ _ _ (tree_shift_up t₁) tB) (tree_shift_down tD) ok.lo_le ok.hi_le hlen'
          rw [ra, rb]
          exact ⟨_, _, rfl, okr, by rw [frr, fr]⟩
      · have hgoR : pickRot dec L₁.length p1r seg.length = none := by
          cases hp : p1r with
          | none => rfl
          | some pr =>
            have : dec L₁.length pr seg.length = false := by
              cases hd : dec L₁.length pr seg.length with
              | false => rfl
              | true => exact absurd ⟨pr, hp, hd⟩ hR
            simp [pickRot, this]
        simp only [hgoR]
        -- second comparison: left child of the root
        by_cases hLq : ∃ q, p1l = some q ∧ dec L₁.length q seg.length = true
        · obtain ⟨q, hp, hd⟩ := hLq
          rcases hleft with ⟨_, hnone⟩ | ⟨A, A', eL₁, hq, tA, tA'⟩
          · rw [hnone] at hp; simp at hp
          · rw [hp] at hq; simp only [Option.some.injEq] at hq
            subst hq
            have gA := tree_gt tA
            have gA' := tree_gt tA'
            have hds := deltasL_tree (b' + 1) A A' L₂ (fun x hx => by have := gA x hx; omega)
              (fun x hx => by have := gA' x hx; omega)
            have eL' : innerLevels seg = A ++ [b' + 1 + 1] ++ A' ++ [b' + 1] ++ L₂ := by rw [eL, eL₁]
            have hpl : L₁.length = A.length + 1 + A'.length := by
              rw [eL₁]; simp only [List.length_append, List.length_cons, List.length_nil]
            have hpick : pickRot dec L₁.length (some A.length) seg.length = some A.length := by
              simp [pickRot, hd]
            simp only [hp, hpick]
            have hlt : A.length < L₁.length := by omega
            simp only [hlt, decide_true, Bool.not_true, Bool.false_eq_true, if_false]
            rw [eL', hpl, hds]
            simp only []
            set ds : List Int := List.replicate A.length (-1) ++ (-1 :: (List.replicate A'.length 0 ++ List.replicate (L₂.length + 1) 1)) with hdsdef
            have hdl : ds.length + 1 = seg.length := by
              simp only [hdsdef, List.length_append, List.length_replicate, List.length_cons]
              omega
            obtain ⟨tl, il, fr⟩ := applyDeltas_til seg ds 0 ok.til hdl
            rw [addLevel_zero] at tl
            have il' : innerLevels (applyDeltas ds 0 seg)
                = A.map (· - 1) ++ [b' + 1] ++ (A' ++ [b' + 1 + 1] ++ L₂.map (· + 1)) := by
              rw [il, eL', hdsdef]
              have e1 : A ++ [b' + 1 + 1] ++ A' ++ [b' + 1] ++ L₂ = A ++ (((b' + 1 + 1) :: A') ++ ((b' + 1) :: L₂)) := by simp
              have e4 : (-1 : Int) :: (List.replicate A'.length 0 ++ List.replicate (L₂.length + 1) 1)
                  = [(-1 : Int)] ++ (List.replicate A'.length 0 ++ List.replicate (L₂.length + 1) 1) := rfl
              have e5 : (b' + 1 + 1) :: A' ++ (b' + 1) :: L₂ = [b' + 1 + 1] ++ (A' ++ (b' + 1) :: L₂) := rfl
              rw [e1, e4, e5, zipWith_addLevel_append _ _ _ _ (by simp), zipWith_addLevel_append _ _ _ _ (by simp),
                zipWith_addLevel_append _ _ _ _ (by simp)]
              have e3 : List.replicate (L₂.length + 1) (1 : Int) = List.replicate ((b' + 1) :: L₂).length 1 := by simp
              rw [e3, zipWith_addLevel_replicate, zipWith_addLevel_replicate, zipWith_addLevel_replicate,
                map_add_one_eq, map_sub_one_eq, map_zero_eq]
              simp [addLevel_neg_one]
            have hlen' : (applyDeltas ds 0 seg).length ≤ f + 3 := by
              have := congrArg List.length fr; simp at this; omega
            obtain ⟨sa, ta, sb, tb, ra, rb, okr, frr⟩ := rebal_combine dec f b' IH (applyDeltas ds 0 seg)
              (A.length + 1) (A.map (· - 1)) (A' ++ [b' + 1 + 1] ++ L₂.map (· + 1)) tl il' (by simp)
              (tree_shift_down tA) (Tree.node _ _ _ tA' (tree_shift_up t₂)) ok.lo_le ok.hi_le hlen'
            rw [ra, rb]
            exact ⟨_, _, rfl, okr, by rw [frr, fr]⟩
        · have hgoL : pickRot dec L₁.length p1l seg.length = none := by
            cases hp : p1l with
            | none => rfl
            | some q =>
              have : dec L₁.length q seg.length = false := by
                cases hd : dec L₁.length q seg.length with
                | false => rfl
                | true => exact absurd ⟨q, hp, hd⟩ hLq
              simp [pickRot, this]
          simp only [hgoL]
          obtain ⟨sa, ta, sb, tb, ra, rb, okr, frr⟩ := rebal_combine dec f b' IH seg (L₁.length + 1) L₁ L₂ ok.til eL rfl
            t₁ t₂ ok.lo_le ok.hi_le hlen3
          rw [ra, rb]
          exact ⟨_, _, rfl, okr, frr⟩

/-- **`rebalance(d)`** on a container whose objects tile `[a, b]` with a refinement tree -/
theorem rebalance_spec (dec : Nat → Nat → Nat → Bool) (objs : List Ival) (a b : Rat)
    (ht : Til a 0 b 0 objs) (hv : Tree 0 (innerLevels objs)) :
    ∃ objs' tr, rebalance dec objs = some (objs', tr) ∧ Til a 0 b 0 objs' ∧ Tree 0 (innerLevels objs') ∧
      objs'.map frame = objs.map frame := by
  obtain ⟨s', tr, h1, h2, h3⟩ := rebalSeg_spec dec objs.length 0 objs a 0 b 0 ⟨ht, Nat.le_refl _, Nat.le_refl _, hv⟩ (by omega)
  exact ⟨s', tr, h1, h2.til, h2.tree, h3⟩

end SparseSpace
