import SparseSpace.Lemmas.QuadTensor
/-! C08: the boundary-off clause of the trapezoidal family lifted to the tensor grid (every dimension). -/
namespace SparseSpace.Quad

/-- conjunction of per-dimension predicates along a tuple -/
def allP {α : Type} : List (α → Bool) → List α → Bool
  | q :: qs, x :: xs => q x && allP qs xs
  | _, _ => true

theorem flatMap_filter' {α β : Type} (q : α → Bool) (l : List α) (f : α → List β) :
    (l.filter q).flatMap f = l.flatMap (fun x => if q x then f x else []) := by
  induction l with
  | nil => rfl
  | cons x xs ih =>
    by_cases h : q x <;> simp [h, ih]

/-- the cross product of filtered lists is the filtered cross product -/
theorem cross_filter {δ α : Type} (L : δ → List α) (Q : δ → α → Bool) (ds : List δ) :
    cross (ds.map fun d => (L d).filter (Q d)) = (cross (ds.map L)).filter (allP (ds.map Q)) := by
  induction ds with
  | nil => simp [cross, allP]
  | cons d ds ih =>
    simp only [List.map_cons, cross]
    rw [ih, flatMap_filter', List.filter_flatMap]
    congr 1
    funext x
    by_cases h : Q d x
    · simp only [h, if_true, List.filter_map]
      congr 1
      apply List.filter_congr
      intro t _
      simp [allP, h]
    · simp only [h, Bool.false_eq_true, if_false, List.filter_map]
      symm
      rw [List.map_eq_nil_iff, List.filter_eq_nil_iff]
      intro t _
      simp [allP, h]

/-- a tensor node: the point tuple and the product weight of a tuple of weighted 1-D nodes -/
def node (r : List (ℚ × ℚ)) : List ℚ × ℚ := (r.map Prod.fst, (r.map Prod.snd).prod)

theorem zip_flatMap_chunks {α β γ : Type} (p : List α) (w : List β) (A : α → List γ) (B : β → List ℚ) (c : ℕ)
    (hpw : p.length = w.length) (hA : ∀ x, (A x).length = c) (hB : ∀ v, (B v).length = c) :
    List.zip (p.flatMap A) (w.flatMap B) = (List.zip p w).flatMap (fun xv => List.zip (A xv.1) (B xv.2)) := by
  induction p generalizing w with
  | nil => simp
  | cons x p ih =>
    cases w with
    | nil => simp at hpw
    | cons v w =>
      simp only [List.length_cons, Nat.add_right_cancel_iff] at hpw
      simp only [List.flatMap_cons, List.zip_cons_cons]
      rw [List.zip_append (by rw [hA, hB]), ih w hpw]

/-- the zipped tensor rule is the image of the cross product of the zipped 1-D rules -/
theorem zip_cross {δ : Type} (P W : δ → List ℚ) (ds : List δ) (h : ∀ d ∈ ds, (P d).length = (W d).length) :
    List.zip (cross (ds.map P)) ((cross (ds.map W)).map List.prod)
      = (cross (ds.map fun d => List.zip (P d) (W d))).map node := by
  induction ds with
  | nil => simp [cross, node]
  | cons d ds ih =>
    have hd := h d (by simp)
    have ih' := ih (fun e he => h e (by simp [he]))
    have hlen : (cross (ds.map P)).length = (cross (ds.map W)).length := by
      rw [cross_length, cross_length]; simp only [List.map_map]; congr 1
      apply List.map_congr_left; intro e he; exact h e (by simp [he])
    simp only [List.map_cons, cross, List.map_flatMap, List.map_map]
    rw [zip_flatMap_chunks (P d) (W d) _ _ (cross (ds.map P)).length hd (by intro x; simp) (by intro v; simp [hlen])]
    congr 1
    funext xv
    have e1 : List.map (List.prod ∘ fun t => xv.2 :: t) (cross (List.map W ds))
        = List.map (fun s => xv.2 * s) (List.map List.prod (cross (List.map W ds))) := by
      simp [List.map_map, Function.comp]
    rw [e1, List.zip_map, ih', List.map_map]
    apply List.map_congr_left
    intro r _
    simp [node, Prod.map]


theorem allP_map_fst {α β : Type} (qs : List (α → Bool)) (r : List (α × β)) :
    allP (qs.map fun q (pw : α × β) => q pw.1) r = allP qs (r.map Prod.fst) := by
  induction qs generalizing r with
  | nil => simp [allP]
  | cons q qs ih =>
    cases r with
    | nil => simp [allP]
    | cons x r => simp [allP, ih]

/-- "no coordinate of the point lies on the global boundary of its dimension" -/
def interiorT (gs : List G1) (pw : List ℚ × ℚ) : Bool :=
  allP (gs.map fun g x => decide (x ≠ g.a ∧ x ≠ g.b)) pw.1

/-- **boundary-off clause in every dimension**: the tensor grid with boundary off is literally the boundary-on tensor
grid with the (point, weight) entries that have a coordinate on the global boundary removed -/
theorem tensor_boundary_off_drops_exactly (gs : List G1)
    (h : ∀ g ∈ gs, g.boundary = false ∧ g.modified = false ∧ g.a ≤ g.start ∧ g.start < g.stop ∧ g.stop ≤ g.b
      ∧ ¬ (g.level = 0 ∧ g.tl + g.th = 1)) :
    List.zip (tensorPoints .trap gs) (tensorWeights .trap gs)
      = (List.zip (tensorPoints .trap (gs.map G1.on)) (tensorWeights .trap (gs.map G1.on))).filter (interiorT gs) := by
  unfold tensorPoints tensorWeights
  rw [zip_cross (coords .trap) (weights .trap) gs (fun g _ => (weights_length_trap g).symm),
    zip_cross (coords .trap) (weights .trap) (gs.map G1.on) (fun g _ => (weights_length_trap g).symm),
    List.map_map, List.filter_map]
  have e1 : (gs.map fun g => List.zip (coords .trap g) (weights .trap g))
      = gs.map fun g => (List.zip (points1d g.on) (trapWeights g.on)).filter g.interior := by
    apply List.map_congr_left
    intro g hg
    obtain ⟨hb, hm, h1, h2, h3, hex⟩ := h g hg
    exact boundary_off_drops_exactly g hb hm h1 h2 h3 hex
  rw [e1, cross_filter (fun g : G1 => List.zip (points1d g.on) (trapWeights g.on)) G1.interior gs]
  congr 1
  apply List.filter_congr
  intro r _
  simp only [Function.comp, interiorT, node]
  rw [← allP_map_fst, List.map_map]
  rfl

end SparseSpace.Quad
