import SparseSpace.Lemmas.Combi
import Mathlib.Data.Nat.Choose.Basic
import Mathlib.Data.List.Nodup
import Mathlib.Algebra.BigOperators.Group.Finset.Basic
import Mathlib.Algebra.BigOperators.Group.Finset.Piecewise
/-!
# Auxiliary lemmas for `CombiStd` (closed-form scheme = freshly initialised adaptive scheme)

* `lookup`: the coefficient a scheme assigns to a level vector, and its elementary properties;
* `wprod`: the weight with which an index-set element `g` contributes to the coefficient of `l`
  (per-element stencil collapse for the predicate "key equals `l`", mirror of `contrib'_eq`);
* `cube`: the `2^dim` vectors `l + z`, `z ∈ {0,1}^dim`, and the truncated alternating sum over it (`cube_sum`);
* `altSum`: the recursion `A(n+1, r) = A(n, r) - A(n, r-1)` and its closed form `(-1)^r * C(n, r)` (Pascal).
-/
namespace SparseSpace

/-- coefficient of level vector `l` in a scheme (0 if absent) -/
def lookup (c : List (LV × Int)) (l : LV) : Int := ((c.filter (fun p => p.1 == l)).map (·.2)).sum

theorem lookup_eq_sumP (c : List (LV × Int)) (l : LV) : lookup c l = sumP (fun k => k == l) c := rfl

theorem lookup_of_not_mem : ∀ (c : List (LV × Int)) (l : LV), l ∉ keys c → lookup c l = 0
  | [], _, _ => rfl
  | p :: c, l, h => by
    simp only [keys, List.map_cons, List.mem_cons, not_or] at h
    have ih := lookup_of_not_mem c l h.2
    rw [lookup_eq_sumP] at ih ⊢
    rw [sumP_cons, ih]
    have : (p.1 == l) = false := by
      simp only [beq_eq_false_iff_ne, ne_eq]
      exact fun e => h.1 e.symm
    simp [this]

theorem lookup_of_mem : ∀ (c : List (LV × Int)) (l : LV) (v : Int), (keys c).Nodup → (l, v) ∈ c → lookup c l = v
  | [], _, _, _, h => by simp at h
  | p :: c, l, v, hnd, h => by
    simp only [keys, List.map_cons, List.nodup_cons] at hnd
    rw [lookup_eq_sumP, sumP_cons]
    rcases List.mem_cons.mp h with h | h
    · subst h
      have := lookup_of_not_mem c l hnd.1
      rw [lookup_eq_sumP] at this
      rw [this]; simp
    · have hl : l ∈ keys c := List.mem_map.mpr ⟨(l, v), h, rfl⟩
      have hne : (p.1 == l) = false := by
        simp only [beq_eq_false_iff_ne, ne_eq]
        intro e; apply hnd.1; rw [e]; exact hl
      have := lookup_of_mem c l v hnd.2 h
      rw [lookup_eq_sumP] at this
      rw [this]; simp [hne]

theorem lookup_coeffsOf (lmin : Int) (idx : List LV) (l : LV) :
    lookup (coeffsOf lmin idx) l = sumP (fun k => k == l) (stencilEntries lmin idx) := by
  rw [lookup_eq_sumP, coeffsOf_eq, sumP_filter_ne_zero]
  have := (dict_spec (fun k => k == l) (stencilEntries lmin idx) [] (by simp [keys])).2.1
  rw [this]; simp

/-! ### per-element collapse for the predicate "key = l" -/

/-- weight of the index-set element `g` in the coefficient of `l`: `∏ ([g_i = l_i] - [g_i = l_i + 1])` -/
def wprod : LV → LV → Int
  | [], [] => 1
  | g :: gs, l :: ls => (ind (decide (g = l)) - ind (decide (g = l + 1))) * wprod gs ls
  | _, _ => 0

def contribE (lmin : Int) (g l : LV) : Int :=
  ((stencils lmin g).map fun st => sgnP st * ind (decide (List.zipWith (· + ·) g st = l))).sum

theorem sum_map_mul_left' {α : Type} (c : Int) (f : α → Int) (l : List α) :
    (l.map fun a => c * f a).sum = c * (l.map f).sum := by
  induction l with
  | nil => simp
  | cons a l ih => simp [ih, mul_add]

theorem ind_cons_eq (a b : Int) (as bs : LV) :
    ind (decide (a :: as = b :: bs)) = ind (decide (a = b)) * ind (decide (as = bs)) := by
  by_cases h1 : a = b <;> by_cases h2 : as = bs <;> simp [ind, h1, h2]

theorem contribE_cons_aux (lmin : Int) (g s l : Int) (gs ls : LV) :
    ((stencils lmin gs).map fun st =>
        sgnP (s :: st) * ind (decide (List.zipWith (· + ·) (g :: gs) (s :: st) = l :: ls))).sum
      = (if s = 0 then 1 else -1) * ind (decide (g + s = l)) * contribE lmin gs ls := by
  unfold contribE
  rw [← sum_map_mul_left']
  congr 1
  apply List.map_congr_left
  intro st _
  rw [List.zipWith_cons_cons, ind_cons_eq]
  simp only [sgnP]
  ring

theorem contribE_eq (lmin : Int) : ∀ (g l : LV), g.length = l.length → geAll lmin l →
    contribE lmin g l = wprod g l
  | [], [], _, _ => by simp [contribE, stencils, sgnP, ind, wprod]
  | g :: gs, l :: ls, hlen, hl => by
    have hlen' : gs.length = ls.length := by simpa using hlen
    rw [geAll_cons] at hl
    have ih := contribE_eq lmin gs ls hlen' hl.2
    have h0 := contribE_cons_aux lmin g 0 l gs ls
    have h1 := contribE_cons_aux lmin g (-1) l gs ls
    have hneg : ((-1 : Int) = 0) = False := by simp
    simp only [if_true, hneg, if_false, add_zero] at h0 h1
    simp only [wprod]
    by_cases hgl : g ≤ lmin
    · have : contribE lmin (g :: gs) (l :: ls) = 1 * ind (decide (g = l)) * contribE lmin gs ls := by
        rw [← h0]
        conv_lhs => unfold contribE
        simp only [stencils, hgl, if_true, List.flatMap_cons, List.flatMap_nil, List.append_nil,
          List.map_map, Function.comp_def]
      rw [this, ih]
      have : decide (g = l + 1) = false := by simp; omega
      rw [this]; simp [ind]
    · have : contribE lmin (g :: gs) (l :: ls) = 1 * ind (decide (g = l)) * contribE lmin gs ls
          + -1 * ind (decide (g + -1 = l)) * contribE lmin gs ls := by
        rw [← h0, ← h1]
        conv_lhs => unfold contribE
        simp only [stencils, hgl, if_false, List.flatMap_cons, List.flatMap_nil, List.append_nil,
          List.map_map, List.map_append, List.sum_append, Function.comp_def]
      rw [this, ih]
      have : decide (g + -1 = l) = decide (g = l + 1) := by
        apply decide_eq_decide.mpr; omega
      rw [this]; ring
  | [], _ :: _, hl, _ => by simp at hl
  | _ :: _, [], hl, _ => by simp at hl

theorem lv_beq_eq_decide (a b : LV) : (a == b) = decide (a = b) := by
  by_cases h : a = b <;> simp [h]

theorem sumP_eq_entries_one (lmin : Int) (g l : LV) :
    sumP (fun k => k == l) ((stencils lmin g).map fun st => (List.zipWith (· + ·) g st, updCoeff st))
      = contribE lmin g l := by
  rw [sumP_map]
  unfold contribE
  congr 1
  apply List.map_congr_left
  intro st hst
  have := (mem_stencils lmin g st hst).2.1
  simp only []
  rw [updCoeff_eq_sgnP st this, lv_beq_eq_decide]

/-! ### the cube `l + {0,1}^dim` -/

def cube : LV → List LV
  | [] => [[]]
  | x :: xs => (cube xs).map (x :: ·) ++ (cube xs).map ((x + 1) :: ·)

theorem mem_cube : ∀ (l g : LV), g ∈ cube l →
    g.length = l.length ∧ ∀ lmin, geAll lmin l → geAll lmin g
  | [], g, h => by
    simp only [cube, List.mem_singleton] at h
    subst h; exact ⟨rfl, fun _ h => h⟩
  | x :: xs, g, h => by
    simp only [cube, List.mem_append, List.mem_map] at h
    rcases h with ⟨g', hg', rfl⟩ | ⟨g', hg', rfl⟩
    · obtain ⟨h1, h2⟩ := mem_cube xs g' hg'
      refine ⟨by simp [h1], fun lmin hl => ?_⟩
      rw [geAll_cons] at hl ⊢
      exact ⟨hl.1, h2 lmin hl.2⟩
    · obtain ⟨h1, h2⟩ := mem_cube xs g' hg'
      refine ⟨by simp [h1], fun lmin hl => ?_⟩
      rw [geAll_cons] at hl ⊢
      exact ⟨by omega, h2 lmin hl.2⟩

theorem nodup_cube : ∀ l : LV, (cube l).Nodup
  | [] => by simp [cube]
  | x :: xs => by
    have ih := nodup_cube xs
    simp only [cube]
    rw [List.nodup_append]
    refine ⟨ih.map (fun a b e => (List.cons.inj e).2), ih.map (fun a b e => (List.cons.inj e).2), ?_⟩
    intro a ha b hb e
    rw [List.mem_map] at ha hb
    obtain ⟨a', _, rfl⟩ := ha
    obtain ⟨b', _, rfl⟩ := hb
    have := (List.cons.inj e).1
    omega

theorem wprod_ne_zero : ∀ (g l : LV), wprod g l ≠ 0 → g ∈ cube l
  | [], [], _ => by simp [cube]
  | g :: gs, l :: ls, h => by
    simp only [wprod] at h
    have h2 : wprod gs ls ≠ 0 := fun e => h (by rw [e]; ring)
    have ih := wprod_ne_zero gs ls h2
    simp only [cube, List.mem_append, List.mem_map]
    by_cases h0 : g = l
    · exact Or.inl ⟨gs, ih, by rw [h0]⟩
    · by_cases h1 : g = l + 1
      · exact Or.inr ⟨gs, ih, by rw [h1]⟩
      · exfalso; apply h; simp [ind, h0, h1]
  | [], _ :: _, h => by simp [wprod] at h
  | _ :: _, [], h => by simp [wprod] at h

/-- exchange of the summation over a duplicate-free list `A` for one over a duplicate-free list `C` that
contains the support of `f` on `A` -/
theorem sum_swap (f : LV → Int) (A C : List LV) (hA : A.Nodup) (hC : C.Nodup)
    (hf : ∀ g ∈ A, f g ≠ 0 → g ∈ C) :
    (A.map f).sum = (C.map fun g => if g ∈ A then f g else 0).sum := by
  rw [← List.sum_toFinset f hA, ← List.sum_toFinset _ hC]
  have h1 : ∀ g ∈ A.toFinset, f g = if g ∈ C.toFinset then f g else 0 := by
    intro g hg
    rw [List.mem_toFinset] at hg
    by_cases h0 : f g = 0
    · simp [h0]
    · simp [hf g hg h0]
  rw [Finset.sum_congr rfl h1, Finset.sum_ite_mem]
  have h2 : ∀ g ∈ C.toFinset, (if g ∈ A then f g else 0) = if g ∈ A.toFinset then f g else 0 := by
    intro g _
    simp only [List.mem_toFinset]
  rw [Finset.sum_congr rfl h2, Finset.sum_ite_mem, Finset.inter_comm]

/-! ### the truncated alternating sum -/

/-- `A(n, r) = Σ_{z ∈ {0,1}^n, |z| ≤ r} (-1)^{|z|}` by its recursion -/
def altSum : Nat → Int → Int
  | 0, r => if 0 ≤ r then 1 else 0
  | n + 1, r => altSum n r - altSum n (r - 1)

/-- `(-1)^r * C(n, r)` (zero for negative `r`) -/
def altC (n : Nat) (r : Int) : Int := if r < 0 then 0 else (-1) ^ r.toNat * (n.choose r.toNat : Int)

theorem altSum_succ : ∀ (n : Nat) (r : Int), altSum (n + 1) r = altC n r
  | 0, r => by
    simp only [altSum, altC]
    by_cases hr : r < 0
    · rw [if_neg (by omega), if_neg (by omega), if_pos hr]; rfl
    · by_cases h0 : r = 0
      · subst h0; simp
      · obtain ⟨k, hk⟩ : ∃ k, r.toNat = k + 1 := ⟨r.toNat - 1, by omega⟩
        rw [if_pos (by omega), if_pos (by omega), if_neg hr, hk, Nat.choose_zero_succ]; simp
  | n + 1, r => by
    have e : altSum (n + 2) r = altSum (n + 1) r - altSum (n + 1) (r - 1) := rfl
    rw [e, altSum_succ n r, altSum_succ n (r - 1)]
    unfold altC
    by_cases hr : r < 0
    · rw [if_pos hr, if_pos (by omega), if_pos hr]; rfl
    · by_cases h0 : r = 0
      · subst h0; simp
      · obtain ⟨k, hk⟩ : ∃ k, r.toNat = k + 1 := ⟨r.toNat - 1, by omega⟩
        have hk' : (r - 1).toNat = k := by omega
        rw [if_neg hr, if_neg (by omega), if_neg hr, hk, hk', Nat.choose_succ_succ n k, pow_succ]
        push_cast
        ring

theorem cube_sum : ∀ (l : LV) (N : Int),
    ((cube l).map fun g => if g.sum ≤ N then wprod g l else 0).sum = altSum l.length (N - l.sum)
  | [], N => by
    by_cases h : 0 ≤ N <;> simp [cube, wprod, altSum, h]
  | x :: xs, N => by
    have ih0 := cube_sum xs (N - x)
    have ih1 := cube_sum xs (N - x - 1)
    simp only [cube, List.map_append, List.map_map, List.sum_append, Function.comp_def, List.length_cons,
      altSum]
    have e0 : ((cube xs).map fun g => if (x :: g).sum ≤ N then wprod (x :: g) (x :: xs) else 0)
        = (cube xs).map fun g => if g.sum ≤ N - x then wprod g xs else 0 := by
      apply List.map_congr_left
      intro g _
      have hc : ((x :: g).sum ≤ N) ↔ (g.sum ≤ N - x) := by rw [List.sum_cons]; omega
      simp only [wprod, hc]
      simp [ind]
    have e1 : ((cube xs).map fun g => if ((x + 1) :: g).sum ≤ N then wprod ((x + 1) :: g) (x :: xs) else 0)
        = (cube xs).map fun g => (-1) * (if g.sum ≤ N - x - 1 then wprod g xs else 0) := by
      apply List.map_congr_left
      intro g _
      have hc : (((x + 1) :: g).sum ≤ N) ↔ (g.sum ≤ N - x - 1) := by rw [List.sum_cons]; omega
      simp only [wprod, hc]
      split <;> simp [ind]
    rw [e0, e1, sum_map_mul_left', ih0, ih1, List.sum_cons]
    have a0 : N - x - xs.sum = N - (x + xs.sum) := by ring
    have a1 : N - x - 1 - xs.sum = N - (x + xs.sum) - 1 := by ring
    rw [a0, a1]; ring

end SparseSpace
