import SparseSpace.Lemmas.QuadLeja
import Mathlib.LinearAlgebra.Vandermonde
/-! C08 (extension): a functional that vanishes on a degree-graded basis vanishes on all polynomials of lower degree;
consequence: the code's Legendre collocation system and the moment system have the same solutions. -/
namespace SparseSpace.Quad
open Polynomial

theorem graded_vanish (Λ : ℚ[X] → ℚ) (hadd : ∀ p q, Λ (p + q) = Λ p + Λ q) (hsm : ∀ c p, Λ (C c * p) = c * Λ p)
    (φ : ℕ → ℚ[X]) (n : ℕ) (hdeg : ∀ j, j < n → (φ j).degree = (j : WithBot ℕ)) (hz : ∀ j, j < n → Λ (φ j) = 0) :
    ∀ N, N ≤ n → ∀ p : ℚ[X], p.degree < (N : WithBot ℕ) → Λ p = 0 := by
  have h0 : Λ 0 = 0 := by simpa using hsm 0 0
  intro N
  induction N with
  | zero =>
    intro _ p hp
    have : p = 0 := by
      by_contra hne
      have := degree_eq_natDegree hne
      rw [this] at hp
      exact absurd hp (by simp)
    rw [this]; exact h0
  | succ N ih =>
    intro hN p hp
    by_cases hlt : p.degree < (N : WithBot ℕ)
    · exact ih (by omega) p hlt
    · have hp0 : p ≠ 0 := by
        intro h; rw [h, degree_zero] at hlt; exact hlt (WithBot.bot_lt_coe _)
      have hpN : p.degree = (N : WithBot ℕ) := by
        rw [degree_eq_natDegree hp0] at hp hlt ⊢
        have h1 : p.natDegree < N + 1 := by exact_mod_cast hp
        have h2 : ¬ p.natDegree < N := by exact_mod_cast hlt
        have : p.natDegree = N := by omega
        rw [this]
      have hφ := hdeg N (by omega)
      have hφ0 : φ N ≠ 0 := by
        intro h; rw [h, degree_zero] at hφ; exact absurd hφ (by simp)
      have hlc : (φ N).leadingCoeff ≠ 0 := leadingCoeff_ne_zero.2 hφ0
      set c : ℚ := p.leadingCoeff / (φ N).leadingCoeff with hc
      have hc0 : c ≠ 0 := div_ne_zero (leadingCoeff_ne_zero.2 hp0) hlc
      have hq : (p - C c * φ N).degree < (N : WithBot ℕ) := by
        rw [← hpN]
        apply degree_sub_lt_left
        · rw [degree_C_mul hc0, hφ, hpN]
        · exact hp0
        · rw [leadingCoeff_mul, leadingCoeff_C, hc]; field_simp
      have := ih (by omega) _ hq
      have e : p = (p - C c * φ N) + C c * φ N := by ring
      rw [e, hadd, this, hsm, hz N (by omega)]
      ring

/-- `∫_0^1 p(t) dt` of a rational polynomial: `Σ_k coeff_k / (k+1)` -/
noncomputable def int01 (p : ℚ[X]) : ℚ := p.sum fun k a => a / ((k : ℚ) + 1)

theorem int01_add (p q : ℚ[X]) : int01 (p + q) = int01 p + int01 q := by
  unfold int01
  exact sum_add_index p q _ (fun i => by simp) (fun a b c => by ring)

theorem int01_C_mul (c : ℚ) (p : ℚ[X]) : int01 (C c * p) = c * int01 p := by
  unfold int01
  rw [← smul_eq_C_mul, sum_smul_index p c _ (fun i => by simp), Polynomial.sum, Polynomial.sum, Finset.mul_sum]
  apply Finset.sum_congr rfl
  intro k _
  ring

theorem int01_X_pow (k : ℕ) : int01 (X ^ k) = 1 / ((k : ℚ) + 1) := by
  unfold int01
  rw [X_pow_eq_monomial, sum_monomial_index _ _ (by simp)]

theorem quad_eval_add (ts w : List ℚ) (p q : ℚ[X]) :
    quad ts w (fun t => (p + q).eval t) = quad ts w (fun t => p.eval t) + quad ts w (fun t => q.eval t) := by
  rw [← quad_add]; apply quad_congr; intro x; simp

theorem quad_eval_C_mul (ts w : List ℚ) (c : ℚ) (p : ℚ[X]) :
    quad ts w (fun t => (C c * p).eval t) = c * quad ts w (fun t => p.eval t) := by
  rw [← quad_smul]; apply quad_congr; intro x; simp

/-- **the code's collocation system ⇒ exactness**: let `φ_0, …, φ_{n-1}` be ANY polynomials with `deg φ_j = j` (the
code uses `φ_j = sqrt(2j+1)·P*_j`, the orthonormal shifted Legendre polynomials).  If `Σ_i w_i φ_j(t_i) = ∫_0^1 φ_j` for
all `j < n` (for the Legendre basis the right-hand side is `δ_{j0}`: `w` is the first row of the inverse of
`V[i,j] = φ_j(t_i)`), then `Σ_i w_i p(t_i) = ∫_0^1 p` for EVERY polynomial of degree < n. -/
theorem collocation_system_exact (φ : ℕ → ℚ[X]) (n : ℕ) (hdeg : ∀ j, j < n → (φ j).degree = (j : WithBot ℕ))
    (ts w : List ℚ) (hsys : ∀ j, j < n → quad ts w (fun t => (φ j).eval t) = int01 (φ j))
    (p : ℚ[X]) (hp : p.degree < (n : WithBot ℕ)) :
    quad ts w (fun t => p.eval t) = int01 p := by
  have := graded_vanish (fun q => quad ts w (fun t => q.eval t) - int01 q)
    (fun a b => by simp only [quad_eval_add, int01_add]; ring)
    (fun c a => by simp only [quad_eval_C_mul, int01_C_mul]; ring)
    φ n hdeg (fun j hj => by simp only [hsys j hj, sub_self]) n le_rfl p hp
  linarith

/-- in particular the code's system implies the moment system the model solves -/
theorem collocation_system_moments (φ : ℕ → ℚ[X]) (n : ℕ) (hdeg : ∀ j, j < n → (φ j).degree = (j : WithBot ℕ))
    (ts w : List ℚ) (hsys : ∀ j, j < n → quad ts w (fun t => (φ j).eval t) = int01 (φ j))
    (k : ℕ) (hk : k < n) : quad ts w (fun t => t ^ k) = 1 / ((k : ℚ) + 1) := by
  have h := collocation_system_exact φ n hdeg ts w hsys (X ^ k) (by rw [degree_X_pow]; exact_mod_cast hk)
  rw [int01_X_pow] at h
  rw [← h]
  apply quad_congr; intro x; simp

theorem quad_ofFn (n : ℕ) (t v : Fin n → ℚ) (f : ℚ → ℚ) :
    quad (List.ofFn t) (List.ofFn v) f = ∑ i : Fin n, v i * f (t i) := by
  unfold quad
  induction n with
  | zero => simp
  | succ n ih =>
    rw [List.ofFn_succ, List.ofFn_succ, List.zipWith_cons_cons, List.sum_cons, Fin.sum_univ_succ,
      ih (fun i => t i.succ) (fun i => v i.succ)]

/-- **uniqueness**: for pairwise distinct points the moment system (hence, by the previous theorems, the code's
collocation system) has at most one solution — the first row of `numpy.linalg.inv(V)` under the exact-solve contract,
and the model's certified weights, are the same vector -/
theorem moment_system_unique (n : ℕ) (t v v' : Fin n → ℚ) (ht : Function.Injective t)
    (h : ∀ k, k < n → quad (List.ofFn t) (List.ofFn v) (fun x => x ^ k) = 1 / ((k : ℚ) + 1))
    (h' : ∀ k, k < n → quad (List.ofFn t) (List.ofFn v') (fun x => x ^ k) = 1 / ((k : ℚ) + 1)) : v = v' := by
  have hz : (fun i => v i - v' i) = 0 := by
    apply Matrix.eq_zero_of_forall_pow_sum_mul_pow_eq_zero ht
    intro k
    have e1 := h k k.2
    have e2 := h' k k.2
    rw [quad_ofFn] at e1 e2
    simp only [sub_mul, Finset.sum_sub_distrib, e1, e2, sub_self]
  funext i
  have := congrFun hz i
  simp only [Pi.zero_apply] at this
  linarith

end SparseSpace.Quad
