import SparseSpace.Lemmas.DataSetScale
/-! Lemmas for C18, part 3: `revert_scaling` undoes every sequence of non-overriding scalings. -/
namespace SparseSpace.DSM

/-- the three scaling operations -/
inductive ScOp where
  | range (lo hi : Rat)
  | factor (f : Fac)
  | shift (v : Fac)

/-- run one scaling operation of the model -/
def ScOp.apply (s : DS) (ov : Bool) : ScOp → DS × Option Err
  | .range lo hi => scaleRange s lo hi ov
  | .factor f => scaleFactor s f ov
  | .shift v => shiftValue s v ov

/-- admissible arguments for data of dimension `d`: a proper range, a non-zero factor, arguments of the right length -/
def ScOp.Valid (d : Nat) : ScOp → Prop
  | .range lo hi => lo < hi
  | .factor f => f.fits d = true ∧ f.nonzero
  | .shift v => v.fits d = true

/-- `s` is `s0` after a first scaling and any number of further scalings: scaled, original minimum remembered,
    every sample is the image of the corresponding sample of `s0` under a per-dimension affine map whose linear
    part is the (non-zero) scaling factor the object keeps -/
structure ScaledFrom (s0 s : DS) (d : Nat) : Prop where
  scaled : s.scaled = true
  dim : s.dim = d
  omin : s.omin = colMins s0.rows
  shuffled : s.shuffled = s0.shuffled
  flat : s.flat = s0.flat
  rep : ∃ f B, s.factor = some f ∧ f.fits d = true ∧ f.nonzero ∧ B.length = d ∧
        s.samples = s0.samples.map (fun p => (mmRow (f.toVec d) B p.1, p.2))

theorem rect_of_samples {s : DS} {d : Nat} (h : Rect d s.rows) : ∀ p ∈ s.samples, p.1.length = d :=
  fun p hp => h p.1 (List.mem_map.mpr ⟨p, hp, rfl⟩)

theorem zipWith_mul_one {A : Row} {d : Nat} (hA : A.length = d) : List.zipWith (· * ·) A (List.replicate d 1) = A := by
  apply List.ext_getElem
  · simp [hA]
  · intro i h1 h2; simp

theorem map_congr_mem {α β : Type} {f g : α → β} {l : List α} (h : ∀ a ∈ l, f a = g a) : l.map f = l.map g :=
  List.map_congr_left h

/-- the first scaling (of an unscaled set, or an overriding one) -/
theorem first_establishes {s0 : DS} {d : Nat} {op : ScOp} {ov : Bool}
    (hne : s0.samples ≠ []) (hrect : Rect d s0.rows) (hdim : s0.dim = d) (hv : op.Valid d)
    (hfirst : s0.scaled = false ∨ ov = true) :
    (op.apply s0 ov).2 = none ∧ ScaledFrom s0 (op.apply s0 ov).1 d := by
  have hrne : s0.rows ≠ [] := by simpa [DS.rows] using hne
  have hlen := rect_of_samples hrect
  cases op with
  | range lo hi =>
    obtain ⟨mn, hmn, hmnl, _⟩ := colMins_spec hrne hrect
    obtain ⟨mx, hmx, hmxl, _⟩ := colMaxs_spec hrne hrect
    have := scaleRange_first (lo := lo) (hi := hi) (ov := ov) hv hmn hmx hfirst
    simp only [ScOp.apply, this]
    refine ⟨trivial, ⟨rfl, hdim, hmn.symm, rfl, rfl, ?_⟩⟩
    exact ⟨.vec (mmScale lo hi mn mx), mmOff lo mn (mmScale lo hi mn mx), rfl,
      by simp [Fac.fits, mmScale_length hmnl hmxl], mmScale_nonzero hv,
      by simp [mmOff, hmnl, mmScale_length hmnl hmxl], rfl⟩
  | factor f =>
    obtain ⟨mn, mx, h⟩ := facShift_first s0 false f ov d hfirst hne hrect hv.1
    simp only [ScOp.apply, scaleFactor, h]
    refine ⟨trivial, ⟨rfl, hdim, rfl, rfl, rfl, ?_⟩⟩
    refine ⟨f, List.replicate d 0, rfl, hv.1, hv.2, by simp, ?_⟩
    apply map_congr_mem
    intro p hp
    simp [mulRow_eq hv.1 (hlen p hp)]
  | shift v =>
    obtain ⟨mn, mx, h⟩ := facShift_first s0 true v ov d hfirst hne hrect hv
    simp only [ScOp.apply, shiftValue, h]
    refine ⟨trivial, ⟨rfl, hdim, rfl, rfl, rfl, ?_⟩⟩
    refine ⟨.scalar 1, v.toVec d, rfl, rfl, one_ne_zero, Fac.toVec_length hv, ?_⟩
    apply map_congr_mem
    intro p hp
    simp [addRow_eq hv (hlen p hp), Fac.toVec]

theorem ScaledFrom.rows_ne {s0 s : DS} {d : Nat} (h : ScaledFrom s0 s d) (hne : s0.samples ≠ []) : s.samples ≠ [] := by
  obtain ⟨f, B, _, _, _, _, hs⟩ := h.rep
  rw [hs]; simpa using hne

theorem ScaledFrom.rect {s0 s : DS} {d : Nat} (h : ScaledFrom s0 s d) (hrect : Rect d s0.rows) : Rect d s.rows := by
  obtain ⟨f, B, _, hfit, _, hB, hs⟩ := h.rep
  intro r hr
  simp only [DS.rows, hs, List.map_map, List.mem_map, Function.comp] at hr
  obtain ⟨p, hp, rfl⟩ := hr
  exact mmRow_length (Fac.toVec_length hfit) hB (rect_of_samples hrect p hp)

/-- a further non-overriding scaling keeps the invariant -/
theorem step_preserves {s0 s : DS} {d : Nat} {op : ScOp}
    (hne : s0.samples ≠ []) (hrect : Rect d s0.rows) (h : ScaledFrom s0 s d) (hv : op.Valid d) :
    (op.apply s false).2 = none ∧ ScaledFrom s0 (op.apply s false).1 d := by
  have hsne := h.rows_ne hne
  have hsrect := h.rect hrect
  have hlen := rect_of_samples hrect
  obtain ⟨f, B, hfac, hfit, hnz, hB, hs⟩ := h.rep
  have hA := Fac.toVec_length hfit
  cases op with
  | range lo hi =>
    have hrne : s.rows ≠ [] := by simpa [DS.rows] using hsne
    obtain ⟨mn, hmn, hmnl, _⟩ := colMins_spec hrne hsrect
    obtain ⟨mx, hmx, hmxl, _⟩ := colMaxs_spec hrne hsrect
    have hsl := mmScale_length (lo := lo) (hi := hi) hmnl hmxl
    have hvf : (Fac.vec (mmScale lo hi mn mx)).fits d = true := by simp [Fac.fits, hsl]
    have := scaleRange_further (lo := lo) (hi := hi) hv hmn hmx h.scaled hfac
    simp only [ScOp.apply, this]
    obtain ⟨hmv, hmf, hmn0⟩ := Fac.mul_spec hfit hvf
    refine ⟨trivial, ⟨h.scaled, h.dim, h.omin, h.shuffled, h.flat, ?_⟩⟩
    refine ⟨f.mul (.vec (mmScale lo hi mn mx)),
      List.zipWith (· + ·) (List.zipWith (· * ·) B (mmScale lo hi mn mx)) (mmOff lo mn (mmScale lo hi mn mx)), rfl, hmf, hmn0 hnz (mmScale_nonzero hv), ?_, ?_⟩
    rotate_left
    · simp only [hs, List.map_map]
      apply map_congr_mem
      intro p hp
      simp only [Function.comp]
      rw [mmRow_comp hA hB hsl (by simp [mmOff, hmnl, hsl]) (hlen p hp), hmv]
      rfl
    · simp [mmOff, hmnl, hsl, hB]
  | factor g =>
    obtain ⟨mn, mx, hfs⟩ := facShift_further s false g f h.scaled hsne (by rw [h.dim]; exact hv.1) hfac
    simp only [ScOp.apply, scaleFactor, hfs]
    obtain ⟨hmv, hmf, hmn0⟩ := Fac.mul_spec hfit hv.1
    refine ⟨trivial, ⟨h.scaled, h.dim, h.omin, h.shuffled, h.flat, ?_⟩⟩
    refine ⟨f.mul g, List.zipWith (· + ·) (List.zipWith (· * ·) B (g.toVec d)) (List.replicate d 0), rfl, hmf,
      hmn0 hnz hv.2, ?_, ?_⟩
    rotate_left
    · simp only [hs, List.map_map]
      apply map_congr_mem
      intro p hp
      simp only [Function.comp, Bool.false_eq_true, if_false]
      rw [mulRow_eq hv.1 (mmRow_length hA hB (hlen p hp)),
        mmRow_comp hA hB (Fac.toVec_length hv.1) (by simp) (hlen p hp), hmv]
    · simp [hB, Fac.toVec_length hv.1]
  | shift v =>
    obtain ⟨mn, mx, hfs⟩ := facShift_further s true v f h.scaled hsne (by rw [h.dim]; exact hv) hfac
    simp only [ScOp.apply, shiftValue, hfs]
    refine ⟨trivial, ⟨h.scaled, h.dim, h.omin, h.shuffled, h.flat, ?_⟩⟩
    refine ⟨f, List.zipWith (· + ·) (List.zipWith (· * ·) B (List.replicate d 1)) (v.toVec d), rfl, hfit, hnz, ?_, ?_⟩
    rotate_left
    · simp only [hs, List.map_map]
      apply map_congr_mem
      intro p hp
      simp only [Function.comp, if_true]
      rw [addRow_eq hv (mmRow_length hA hB (hlen p hp)),
        mmRow_comp hA hB (by simp) (Fac.toVec_length hv) (hlen p hp), zipWith_mul_one hA]
    · simp [hB, Fac.toVec_length hv]

/-- what a successful non-overriding `scale_factor` / `shift_value` changes (opaque form of `facShift_further`) -/
theorem facShift_further_spec (s : DS) (shift : Bool) (f g : Fac)
    (hsc : s.scaled = true) (hne : s.samples ≠ []) (hfit : f.fits s.dim = true) (hg : s.factor = some g) :
    ∃ S, facShift s shift f false = (S, none) ∧
      S.samples = s.samples.map (fun p => ((if shift then f.addRow else f.mulRow) p.1, p.2)) ∧
      S.factor = some (if shift then g else g.mul f) ∧ S.scaled = true ∧ S.dim = s.dim ∧ S.omin = s.omin ∧
      S.omax = s.omax ∧ S.shuffled = s.shuffled ∧ S.flat = s.flat := by
  obtain ⟨mn, mx, h⟩ := facShift_further s shift f g hsc hne hfit hg
  exact ⟨_, h, rfl, rfl, hsc, rfl, rfl, rfl, rfl, rfl⟩

theorem undo_row {A B r : Row} {d : Nat} (hA : A.length = d) (hB : B.length = d) (hr : r.length = d)
    (hnz : ∀ x ∈ A, x ≠ 0) :
    mmRow (A.map (1 / ·)) (List.replicate d 0) (mmRow A B r) =
      List.zipWith (· + ·) r (List.zipWith (· * ·) B (A.map (1 / ·))) := by
  apply List.ext_getElem
  · simp [mmRow, hA, hB, hr]
  · intro i h1 h2
    have hi : i < A.length := by simp [mmRow, hA, hB, hr] at h1; omega
    have : A[i] ≠ 0 := hnz _ (List.getElem_mem hi)
    simp only [mmRow, List.getElem_zipWith, List.getElem_map, List.getElem_replicate]
    field_simp
    ring

theorem shift_back_row {r C m : Row} {d : Nat} (hr : r.length = d) (hC : C.length = d) (hm : m.length = d) :
    (Fac.vec (List.zipWith (fun c o => -(c - o)) (List.zipWith (· + ·) m C) m)).addRow (List.zipWith (· + ·) r C) = r := by
  apply List.ext_getElem
  · simp [Fac.addRow, hr, hC, hm]
  · intro i h1 h2
    simp only [Fac.addRow, List.getElem_zipWith]
    ring

/-- `revert_scaling` after a first scaling and any number of further ones returns the samples of `s0` and
    resets the attributes -/
theorem revert_from {s0 s : DS} {d : Nat} (hne : s0.samples ≠ []) (hrect : Rect d s0.rows) (h : ScaledFrom s0 s d) :
    (revert s).2 = none ∧ (revert s).1.samples = s0.samples ∧ (revert s).1.scaled = false ∧
    (revert s).1.range = none ∧ (revert s).1.factor = none ∧ (revert s).1.omin = none ∧ (revert s).1.omax = none ∧
    (revert s).1.dim = d ∧ (revert s).1.shuffled = s0.shuffled ∧ (revert s).1.flat = s0.flat := by
  have hsne := h.rows_ne hne
  have hlen := rect_of_samples hrect
  have hrne : s0.rows ≠ [] := by simpa [DS.rows] using hne
  obtain ⟨f, B, hfac, hfit, hnz, hB, hs⟩ := h.rep
  have hA := Fac.toVec_length hfit
  obtain ⟨fi, hinv, hfifit, hfiv⟩ := Fac.inv_spec hfit hnz
  -- first half: divide by the factor
  obtain ⟨S1, hS1, hS1s, hS1f, hS1sc, hS1d, hS1o, hS1x, hS1sh, hS1fl⟩ :=
    facShift_further_spec s false fi f h.scaled hsne (by rw [h.dim]; exact hfifit) hfac
  have hstep1 : revertStep1 s = (S1, none) := by
    unfold revertStep1
    rw [hfac]; simp only [hinv]; exact hS1
  set C := List.zipWith (· * ·) B ((f.toVec d).map (1 / ·)) with hC
  have hCl : C.length = d := by simp [hC, hB, hA]
  have hS1samples : S1.samples = s0.samples.map (fun p => (List.zipWith (· + ·) p.1 C, p.2)) := by
    rw [hS1s, hs, List.map_map]
    apply map_congr_mem
    intro p hp
    simp only [Function.comp, Bool.false_eq_true, if_false]
    rw [mulRow_eq hfifit (mmRow_length hA hB (hlen p hp)), hfiv,
      undo_row hA hB (hlen p hp) (Fac.toVec_nonzero hnz)]
  have hS1rows : S1.rows = s0.rows.map (fun r => List.zipWith (· + ·) r C) := by
    simp [DS.rows, hS1samples, List.map_map, Function.comp_def]
  obtain ⟨m0, hm0, hm0l, _⟩ := colMins_spec hrne hrect
  have hcur : colMins S1.rows = some (List.zipWith (· + ·) m0 C) := by
    rw [hS1rows, colMins_shift hCl hrect, hm0]; rfl
  have hom : S1.omin = some m0 := by rw [hS1o, h.omin, hm0]
  -- second half: shift the minimum back onto the original minimum
  set sh := List.zipWith (fun c o => -(c - o)) (List.zipWith (· + ·) m0 C) m0 with hsh
  have hshl : sh.length = d := by simp [hsh, hm0l, hCl]
  have hS1ne : S1.samples ≠ [] := by rw [hS1samples]; simpa using hne
  obtain ⟨S2, hS2, hS2s, _, _, hS2d, _, _, hS2sh, hS2fl⟩ :=
    facShift_further_spec S1 true (.vec sh) (f.mul fi) hS1sc hS1ne (by simp [Fac.fits, hS1d, h.dim, hshl]) hS1f
  have hS2samples : S2.samples = s0.samples := by
    rw [hS2s, hS1samples, List.map_map]
    conv_rhs => rw [← List.map_id s0.samples]
    apply map_congr_mem
    intro p hp
    simp only [Function.comp, if_true, id]
    rw [hsh, shift_back_row (hlen p hp) hCl hm0l]
  have hrev : revert s = ({ S2 with scaled := false, range := none, factor := none, omin := none, omax := none }, none) := by
    unfold revert
    rw [hstep1]
    simp only [hcur, hom]
    unfold shiftValue
    rw [hS2]
  rw [hrev]
  exact ⟨rfl, hS2samples, rfl, rfl, rfl, rfl, rfl, by simp [hS2d, hS1d, h.dim], by simp [hS2sh, hS1sh, h.shuffled],
    by simp [hS2fl, hS1fl, h.flat]⟩

/-! ### labels stay where they are in every outcome of a scaling operation -/

theorem scaleRange_labels (s : DS) (lo hi : Rat) (ov : Bool) : (scaleRange s lo hi ov).1.labels = s.labels := by
  unfold scaleRange
  split
  · rfl
  · split
    · split
      · simp [DS.labels, List.map_map, Function.comp_def]
      · split <;> simp [DS.labels, List.map_map, Function.comp_def]
    · rfl

theorem facShift_labels (s : DS) (shift : Bool) (f : Fac) (ov : Bool) : (facShift s shift f ov).1.labels = s.labels := by
  unfold facShift
  simp only
  split
  · split
    · next h => simp [DS.labels, h]
    · split
      · rfl
      · split
        · simp [DS.labels, List.map_map, Function.comp_def]
        · rfl
  · split
    · rfl
    · split
      · next h => simp [DS.labels, h]
      · split
        · split
          · simp [DS.labels, List.map_map, Function.comp_def]
          · split <;> simp [DS.labels, List.map_map, Function.comp_def]
        · rfl

theorem revert_labels (s : DS) : (revert s).1.labels = s.labels := by
  have h1 : (revertStep1 s).1.labels = s.labels := by
    unfold revertStep1
    split
    · rfl
    · split
      · rfl
      · exact facShift_labels _ _ _ _
  unfold revert
  split
  · next s1 e he => rw [← h1, he]
  · next s1 he =>
    split
    · next cur om _ _ =>
      split
      · next s2 e he2 =>
        have := facShift_labels s1 true (.vec (List.zipWith (fun c o => -(c - o)) cur om)) false
        unfold shiftValue at he2
        rw [he2] at this
        rw [this, ← h1, he]
      · next s2 he2 =>
        have := facShift_labels s1 true (.vec (List.zipWith (fun c o => -(c - o)) cur om)) false
        unfold shiftValue at he2
        rw [he2] at this
        rw [he] at h1
        simp only [DS.labels] at this h1 ⊢
        rw [this, h1]
    · rw [← h1, he]
end SparseSpace.DSM
