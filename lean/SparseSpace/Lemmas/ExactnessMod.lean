import SparseSpace.Lemmas.Exactness1D
/-!
# C04: the modified (extrapolating) boundary rule and the boundary-free rule

* `modQuad_affine_exact` : `compute_weights(.., modified_basis=True)` integrates every affine function exactly on every
  strictly increasing node list with at least four nodes, and on three nodes when the inner node is the midpoint;
* `quadNB_eq_quad`       : with `boundary=False` the rule is the standard rule applied to the function with its boundary
  values replaced by zero; for functions vanishing at both ends it IS the standard rule.
-/
namespace SparseSpace.Exact

/-- exact integral of `α + β x` over `[p,q]` -/
def affInt (α β p q : Rat) : Rat := α * (q - p) + β * (q * q - p * p) / 2

theorem leftPiece_affine (α β x0 x1 x2 : Rat) (h : x1 ≠ x2) :
    leftPiece (fun x => α + β * x) x0 x1 x2 = affInt α β x0 x2 := by
  have hne : x2 - x1 ≠ 0 := sub_ne_zero.2 (Ne.symm h)
  unfold leftPiece affInt
  field_simp
  ring

theorem rightPiece_affine (α β y2 y1 y0 : Rat) (h : y2 ≠ y1) :
    rightPiece (fun x => α + β * x) y2 y1 y0 = affInt α β y2 y0 := by
  have hne : y1 - y2 ≠ 0 := sub_ne_zero.2 (Ne.symm h)
  unfold rightPiece affInt
  field_simp
  ring

theorem modTail_affine (α β : Rat) : ∀ (L : List Rat) (p : Rat), StrictSorted (p :: L) → 2 ≤ L.length →
    modTail (fun x => α + β * x) (p :: L) = affInt α β p (lastOf p L)
  | [], _, _, h => by simp at h
  | [_], _, _, h => by simp at h
  | [y1, y0], p, hs, _ => by
      simp only [modTail, lastOf]
      exact rightPiece_affine α β p y1 y0 (ne_of_lt hs.1)
  | q :: r1 :: r2 :: rest, p, hs, _ => by
      have ih := modTail_affine α β (r1 :: r2 :: rest) q hs.2 (by simp)
      simp only [lastOf] at ih ⊢
      have hunf : modTail (fun x => α + β * x) (p :: q :: r1 :: r2 :: rest)
          = (q - p) * ((α + β * p) + (α + β * q)) / 2 + modTail (fun x => α + β * x) (q :: r1 :: r2 :: rest) := rfl
      rw [hunf, ih]
      unfold affInt
      ring

/-- **the modified rule integrates affine functions exactly** (`a`, `b` = first and last node) -/
theorem modQuad_affine_exact (α β : Rat) (xs : List Rat) (a : Rat) (xs' : List Rat) (hxs : xs = a :: xs')
    (hs : StrictSorted xs) (hlen : 4 ≤ xs.length ∨ (xs.length = 3 ∧ xs'.headD 0 = (a + lastOf a xs') / 2)) :
    modQuad (fun x => α + β * x) a (lastOf a xs') xs = affInt α β a (lastOf a xs') := by
  subst hxs
  match xs', hs, hlen with
  | [], _, h => rcases h with h | h <;> simp at h
  | [_], _, h => rcases h with h | h <;> simp at h
  | [x1, x2], _, h =>
      rcases h with h | h
      · simp at h
      · simp only [List.headD_cons, lastOf] at h
        simp only [modQuad, lastOf, affInt]
        rw [h.2]
        ring
  | [x1, x2, x3], hs, _ =>
      have hne : x2 - x1 ≠ 0 := ne_of_gt (sub_pos.2 hs.2.1)
      simp only [modQuad, lastOf, affInt]
      field_simp
      ring
  | x1 :: x2 :: x3 :: x4 :: rest, hs, _ =>
      have h1 := leftPiece_affine α β a x1 x2 (ne_of_lt hs.2.1)
      have h2 := modTail_affine α β (x3 :: x4 :: rest) x2 hs.2.2 (by simp)
      simp only [lastOf] at h2 ⊢
      have hunf : modQuad (fun x => α + β * x) a (lastOf x4 rest) (a :: x1 :: x2 :: x3 :: x4 :: rest)
          = leftPiece (fun x => α + β * x) a x1 x2 + modTail (fun x => α + β * x) (x2 :: x3 :: x4 :: rest) := rfl
      rw [hunf, h1, h2]
      unfold affInt
      ring

/-! ## boundary = False -/

theorem weightsFrom_length : ∀ (xs : List Rat) (prev : Option Rat), (weightsFrom prev xs).length = xs.length
  | [], _ => rfl
  | _ :: rest, _ => by simp [weightsFrom, weightsFrom_length rest]

theorem dot_dropLast : ∀ (ws vs : List Rat), ws.length = vs.length →
    dot ws.dropLast vs.dropLast + ws.getLastD 0 * vs.getLastD 0 = dot ws vs
  | [], [], _ => by simp [dot]
  | [w], [v], _ => by simp [dot]
  | w :: w' :: ws, v :: v' :: vs, h => by
      have ih := dot_dropLast (w' :: ws) (v' :: vs) (by simpa using h)
      simp only [List.dropLast_cons_cons, dot, List.getLastD_cons] at ih ⊢
      rw [← ih]
      ring
  | [], _ :: _, h => by simp at h
  | _ :: _, [], h => by simp at h
  | [_], _ :: _ :: _, h => by simp at h
  | _ :: _ :: _, [_], h => by simp at h

theorem dot_map_congr (ws : List Rat) (u v : Rat → Rat) : ∀ (xs : List Rat), (∀ z ∈ xs, u z = v z) →
    ∀ ws : List Rat, dot ws (xs.map u) = dot ws (xs.map v)
  | [], _, ws => by simp
  | x :: xs, h, ws => by
      cases ws with
      | nil => simp [dot]
      | cons w ws' =>
          simp only [List.map_cons, dot]
          rw [h x (by simp), dot_map_congr ws u v xs (fun z hz => h z (List.mem_cons_of_mem _ hz)) ws']

theorem mem_dropLast_lt : ∀ (xs : List Rat) (p : Rat), StrictSorted (p :: xs) →
    ∀ z ∈ (p :: xs).dropLast, z < lastOf p xs
  | [], _, _, z, hz => by simp at hz
  | y :: rest, p, hs, z, hz => by
      simp only [List.dropLast_cons_cons, List.mem_cons] at hz
      simp only [lastOf]
      rcases hz with rfl | hz
      · exact lt_of_lt_of_le hs.1 (head_le_lastOf hs.2)
      · exact mem_dropLast_lt rest y hs.2 z hz

/-- **`boundary=False`**: dropping the first and last node (and their weights) is the standard rule applied to the
function with zero boundary values -/
theorem quadNB_eq_quad (u : Rat → Rat) (a : Rat) (xs' : List Rat) (hs : StrictSorted (a :: xs')) (hne : xs' ≠ []) :
    quadNB u (a :: xs') = quad (zeroBd a (lastOf a xs') u) (a :: xs') := by
  cases xs' with
  | nil => exact absurd rfl hne
  | cons y rest =>
    set b := lastOf a (y :: rest) with hb
    set z := zeroBd a b u with hz
    have hza : z a = 0 := by simp [hz, zeroBd]
    have hzb : z b = 0 := by simp [hz, zeroBd]
    unfold quadNB quad weights
    have hw : weightsFrom none (a :: y :: rest) = (0 + (y - a) / 2) :: weightsFrom (some a) (y :: rest) := rfl
    rw [hw]
    simp only [List.tail_cons, List.map_cons, dot, hza, mul_zero, zero_add]
    have hlen : (weightsFrom (some a) (y :: rest)).length = ((y :: rest).map z).length := by
      rw [weightsFrom_length]; simp
    have hd := dot_dropLast (weightsFrom (some a) (y :: rest)) ((y :: rest).map z) hlen
    rw [← List.map_cons, ← hd]
    have hlast : ((y :: rest).map z).getLastD 0 = 0 := by
      rw [getLastD_map z rest y]
      simpa [lastOf, hb] using hzb
    rw [hlast, mul_zero, add_zero, ← List.map_dropLast]
    apply dot_map_congr [] u z
    intro x hx
    have hlt : x < b := by
      have := mem_dropLast_lt rest y hs.2 x hx
      simpa [hb, lastOf] using this
    have hgt : a < x := sorted_head_lt hs x (List.dropLast_subset _ hx)
    simp [hz, zeroBd, ne_of_gt hgt, ne_of_lt hlt]
where
  getLastD_map (z : Rat → Rat) : ∀ (rest : List Rat) (y : Rat), ((y :: rest).map z).getLastD 0 = z (lastOf y rest)
    | [], y => by simp [lastOf]
    | y' :: rest, y => by
        have := getLastD_map z rest y'
        simp only [List.map_cons, List.getLastD_cons, lastOf] at this ⊢
        exact this

theorem quad_congr (u v : Rat → Rat) (xs : List Rat) (h : ∀ z ∈ xs, u z = v z) : quad u xs = quad v xs := by
  rw [quad_eq_trap, quad_eq_trap]
  exact trap_congr u v xs h

/-- for a function that vanishes at both ends the boundary-free rule is the standard rule -/
theorem quadNB_eq_quad_of_zero (u : Rat → Rat) (a : Rat) (xs' : List Rat) (hs : StrictSorted (a :: xs')) (hne : xs' ≠ [])
    (ha : u a = 0) (hb : u (lastOf a xs') = 0) : quadNB u (a :: xs') = quad u (a :: xs') := by
  rw [quadNB_eq_quad u a xs' hs hne]
  apply quad_congr
  intro z _
  unfold zeroBd
  split
  · next h => rcases h with h | h <;> rw [h] <;> simp [ha, hb]
  · rfl

end SparseSpace.Exact
