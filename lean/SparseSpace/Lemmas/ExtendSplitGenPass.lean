import SparseSpace.Lemmas.ExtendSplitGenMain
import SparseSpace.Lemmas.ExtendSplitV0
/-!
# Translator tie for the extend–split strategy, part 4: a pass over a scheme and the prefix of
`evaluate_operation_area_complete_flexibel`
-/
namespace SparseSpace
open SparseSpace.PyRt

/-- the loop `for component_grid in scheme: modified_levelvec, do_compute = self.coarsen_grid(component_grid.levelvector, area)`
of `evaluate_operation_area_complete_flexibel` / `evaluate_operation_area`, over the GENERATED `coarsen_grid`: the list of
`(coarsened level vector (absolute), coefficient)` of the grids that are computed; the area (its collision dictionary) is
threaded through -/
def genPass (g : GenES.State) (lmin : Int) : List (LV × Int) → GenRO.Area → List (LV × Int)
  | [], _ => []
  | (lv, coeff) :: rest, a =>
      (if (GenES.coarsen_grid g lv a).2.2 then [((GenES.coarsen_grid g lv a).2.1.map (· + lmin), coeff)] else [])
        ++ genPass g lmin rest (GenES.coarsen_grid g lv a).1

/-- a pass over the generated `coarsen_grid` is the hand model's `computedFrom` -/
theorem gen_pass (g : GenES.State) (V n : Nat) (lmin lmax : Int)
    (hV : V = 0 ∨ V = 1 ∨ V = 2) (hv : g.version = (V : Int)) (hdim : g.dim = (n : Int)) (hn : 2 ≤ n)
    (hlmin : g.lmin = List.replicate n lmin) (hlmax : getItem g.lmax 0 = lmax) (hnis : g.noInitialSplitting = false) :
    ∀ (sch : List (LV × Int)) (a : GenRO.Area),
      (∀ p ∈ sch, p.1.length = n ∧ (V ≠ 0 → lmax + (n : Int) - 1 - p.1.sum < (n : Int))) →
      genPass g lmin sch a = computedFrom V n lmin lmax a.coarseningValue sch a.levelvec_dict
  | [], _, _ => rfl
  | (lv, coeff) :: rest, a, h => by
    obtain ⟨hl, hnsd⟩ := h (lv, coeff) (by simp)
    obtain ⟨co, dc, d', h1, h2⟩ := gen_coarsen_grid g lv a V n lmin lmax hV hv hdim hn hl hlmin hlmax hnis hnsd
    have ih := gen_pass g V n lmin lmax hV hv hdim hn hlmin hlmax hnis rest { a with levelvec_dict := d' }
      (fun p hp => h p (by simp [hp]))
    simp only [genPass, computedFrom, h1, h2]
    rw [ih]

theorem std_length (n : Nat) (lmin lmax : Int) (hn : 1 ≤ n) : ∀ p ∈ stdScheme n lmin lmax, p.1.length = n := by
  intro p hp
  obtain ⟨j, hj, hg, _⟩ := (mem_std n lmin lmax p).1 hp
  exact ((mem_shift_getGrids lmin n _ p.1 hn (by omega)).1 hg).1

/-- an area as `RefinementObjectExtendSplit.__init__` creates it (empty dictionary) with coarsening `c` -/
def freshArea (c : Int) : GenRO.Area := { (default : GenRO.Area) with coarseningValue := c, levelvec_dict := [] }

/-! ### the prefix of `evaluate_operation_area_complete_flexibel` -/

/-- the statements of `evaluate_operation_area_complete_flexibel` before `self.initialize_error(...)`: the area gets an
empty dictionary and `coarseningValue = max(coarsening, 0)`; the scheme is the current one for `coarsening ≥ 0`, else
`getCombiScheme(lmin, lmax + abs(coarsening))` of the scheme object — the hand model's `flexEval` -/
theorem gen_flex_prefix (g : GenES.State) (area : GenRO.Area) (c : Int) (b1 b2 b3 b4 b5 : Bool) :
    GenES.evaluate_operation_area_complete_flexibel g area c b1 b2 b3 b4 b5
      = ({ area with levelvec_dict := [], coarseningValue := (flexEval (getItem g.lmax 0) c).1 },
         if c ≥ 0 then g.scheme
         else Gen.getCombiScheme g.combischeme (getItem g.lmin 0) (flexEval (getItem g.lmax 0) c).2 false) := by
  unfold GenES.evaluate_operation_area_complete_flexibel flexEval
  by_cases h : c ≥ 0
  · simp [h]
  · simp [h, PyRt.abs]

end SparseSpace
