import SparseSpace.Lemmas.StdCombiHat
import Mathlib.Tactic.NormNum
/-!
# C02 — the standard combination equals the sparse-grid interpolant

Theorems about `Model/Interp` + `Model/StdCombi` (mirror of `StandardCombi` with `Integration`/`Interpolation` on a
`TrapezoidalGrid`) and `stdScheme` of `Model/Combi` (mirror of the non-adaptive `CombiScheme.getCombiScheme`), for EVERY
dimension `dim ≥ 1`, every `0 ≤ lmin ≤ lmax` (the property asks `1 ≤ lmin`), every box `a < b` over the rationals,
boundary points on or off, every function `f : ℚ^dim → ℚ` (vector-valued outputs are treated component by component by
the code and by the model).

The scheme's index set is `I (CS.init dim lmax lmin)`, by `mem_I_init` the simplex
`{k : |k| = dim, k ≥ lmin, Σ k_d ≤ lmax - lmin + dim·lmin}`; `std_valid` (from C01's `coeff_identity`,
`downward_closed` and `std_perm_init`) says that `stdScheme` satisfies the inclusion–exclusion identity on it.
All combination statements are instances of the combination lemma `comb_collapse` (L2) and hold verbatim for every
reachable state of the adaptive scheme (`adaptive_valid` + the `valid_*` theorems of `Lemmas/StdCombi`).

Boundary flags are per dimension (`Flags`, `Grid.get_boundaries()`): `TrapezoidalGrid(boundary=flag)` is `Flags.const flag`,
a `MixedGrid` of `TrapezoidalGrid1D`s (or `set_boundaries`) gives arbitrary flags.  EVERY theorem below holds for arbitrary
flags.  `points_not_zero` (mirrored by `pointNotZero`: only the dimensions without boundary points have an excluded boundary;
tolerance `1e-12` of the box width) cannot mistake a grid point for a point of the excluded boundary as long as all levels are
`≤ 39` (`2^39 < 10^12`), the hypothesis `lmax ≤ 39` of the interpolation theorems.
`count_before_area_counterexample`: the announced count reads grid state that does not exist before the first point request.
-/
namespace SparseSpace.C02
open SparseSpace

/-- the index set of the truncated standard scheme is the simplex -/
theorem index_set_simplex (dim : Nat) (lmin lmax : Int) (hd : 1 ≤ dim) (h : lmin ≤ lmax) (k : LV) :
    k ∈ I (CS.init dim lmax lmin) ↔
      k.length = dim ∧ geAll lmin k ∧ k.sum ≤ lmax - lmin + (dim : Int) * lmin :=
  mem_I_init dim lmin lmax hd h k

/-! ### nested grids, announced counts -/

/-- **nestedness (1-D)**: the level-`l` points are level-`l'` points for `l ≤ l'`, boundary on or off -/
theorem levelPoints_nested (a b : Rat) (bd : Bool) {l l' : Nat} (h : l ≤ l') {x : Rat}
    (hx : x ∈ levelPoints a b l bd) : x ∈ levelPoints a b l' bd :=
  SparseSpace.levelPoints_nested a b bd h hx

/-- **nestedness of the component grids**: `l ≤ l'` componentwise ⇒ `grid_l ⊆ grid_l'` -/
theorem gridPoints_nested (a b : List Rat) (bd : Flags) (l l' : LV) (ha : a.length = l.length) (hb : b.length = l.length)
    (hle : leAll l l' = true) (x : List Rat) (hx : x ∈ gridPoints a b l bd) : x ∈ gridPoints a b l' bd := by
  have hl := leAll_length l l' hle
  rw [mem_gridPoints bd a b l x ha hb] at hx
  rw [mem_gridPoints bd a b l' x (by omega) (by omega)]
  exact InGrid_nested bd a b l l' x hle hx

/-- **announced 1-D count** `2^l + 1 - 2·[¬boundary]` = number of returned points -/
theorem levelPoints_card (a b : Rat) (l : Nat) (bd : Bool) :
    (levelPoints a b l bd).length = 2 ^ l + 1 - (if bd then 0 else 2) :=
  levelPoints_length a b l bd

/-- **the reported number of points of a component grid matches the points (and weights) it returns**, and no point
is returned twice -/
theorem component_count (a b : List Rat) (hab : BoxOK a b) (lv : LV) (bd : Flags) (ha : a.length = lv.length) :
    (gridPoints a b lv bd).length = gridNumPointsTotal lv bd ∧
    (gridWeights a b lv bd).length = gridNumPointsTotal lv bd ∧
    (gridPoints a b lv bd).Nodup := by
  have hb : b.length = lv.length := by rw [← BoxOK_length a b hab]; exact ha
  exact ⟨gridPoints_length a b lv bd ha hb, gridWeights_length a b lv bd ha hb, gridPoints_nodup bd a b lv hab⟩

/-! ### the combination -/

/-- **every point of the union grid has component-grid coefficients summing to 1** -/
theorem std_point_coeff_sum (dim : Nat) (lmin lmax : Int) (hd : 1 ≤ dim) (h0 : 0 ≤ lmin) (h : lmin ≤ lmax)
    (a b : List Rat) (ha : a.length = dim) (hb : b.length = dim) (bd : Flags) (x : List Rat)
    (hx : x ∈ unionPoints a b bd (stdScheme dim lmin lmax)) :
    pointCoeffSum a b bd (stdScheme dim lmin lmax) x = 1 :=
  valid_point_coeff_sum (std_valid dim lmin lmax hd h0 h) h0 a b ha hb bd x hx

/-- **the union of the component-grid points is exactly the sparse grid** `⋃ {grid_k : k in the simplex}` -/
theorem union_is_sparse_grid (dim : Nat) (lmin lmax : Int) (hd : 1 ≤ dim) (h0 : 0 ≤ lmin) (h : lmin ≤ lmax)
    (a b : List Rat) (ha : a.length = dim) (hb : b.length = dim) (bd : Flags) (x : List Rat) :
    x ∈ unionPoints a b bd (stdScheme dim lmin lmax) ↔
      ∃ k : LV, (k.length = dim ∧ geAll lmin k ∧ k.sum ≤ lmax - lmin + (dim : Int) * lmin) ∧
        x ∈ gridPoints a b k bd := by
  rw [valid_union (std_valid dim lmin lmax hd h0 h) a b ha hb bd x]
  constructor
  · rintro ⟨k, hk, hxk⟩; exact ⟨k, (mem_I_init dim lmin lmax hd h k).1 hk, hxk⟩
  · rintro ⟨k, hk, hxk⟩; exact ⟨k, (mem_I_init dim lmin lmax hd h k).2 hk, hxk⟩

/-- **nodal exactness**: at every sparse-grid point the combined interpolant of an ARBITRARY function returns the
mesh value of `f` there — `f x`, unless `points_not_zero` declares `x` a boundary point (boundary off only) -/
theorem std_nodal_exact (dim : Nat) (lmin lmax : Int) (hd : 1 ≤ dim) (h0 : 0 ≤ lmin) (h : lmin ≤ lmax)
    (a b : List Rat) (hab : BoxOK a b) (ha : a.length = dim) (bd : Flags) (f : List Rat → Rat) (x : List Rat)
    (hx : x ∈ unionPoints a b bd (stdScheme dim lmin lmax)) :
    combiInterp a b bd (stdScheme dim lmin lmax) f x = meshVal a b bd f x :=
  valid_nodal_exact (std_valid dim lmin lmax hd h0 h) h0 a b hab ha bd f x hx

/-- **nodal reproduction**: at every sparse-grid point the combined interpolant of an ARBITRARY function returns `f x`,
boundary points on or off (all levels `≤ 39`, see the header) -/
theorem std_nodal_reproduction (dim : Nat) (lmin lmax : Int) (hd : 1 ≤ dim) (h0 : 0 ≤ lmin) (h : lmin ≤ lmax)
    (h39 : lmax ≤ 39)
    (a b : List Rat) (hab : BoxOK a b) (ha : a.length = dim) (bd : Flags) (f : List Rat → Rat) (x : List Rat)
    (hx : x ∈ unionPoints a b bd (stdScheme dim lmin lmax)) :
    combiInterp a b bd (stdScheme dim lmin lmax) f x = f x := by
  rw [std_nodal_exact dim lmin lmax hd h0 h a b hab ha bd f x hx]
  have hb : b.length = dim := by rw [← BoxOK_length a b hab]; exact ha
  rw [mem_unionPoints] at hx
  obtain ⟨p, hp, hxp⟩ := hx
  have hlen := ((std_valid dim lmin lmax hd h0 h).shape p hp).1
  rw [mem_gridPoints bd a b p.1 x (by omega) (by omega)] at hxp
  have hnz := pointNotZero_of_inGrid a b hab bd p.1
    (fun y hy => le_trans (std_levels_le dim lmin lmax hd h0 h p hp y hy) h39) x hxp
  unfold meshVal
  rw [if_pos hnz]

/-- **the boundary test of `points_not_zero` fires only on points of the excluded boundary** (dimensions without boundary
points) of the interpolation meshes of the scheme, for every box and all flags (this was false of the unrepaired `np.isclose` test for boxes far from the origin) -/
theorem no_false_boundary (dim : Nat) (lmin lmax : Int) (hd : 1 ≤ dim) (h0 : 0 ≤ lmin) (h : lmin ≤ lmax) (h39 : lmax ≤ 39)
    (a b : List Rat) (hab : BoxOK a b) (bd : Flags) : NoFalseBoundary a b bd (stdScheme dim lmin lmax) :=
  noFalseBoundary_of_levels a b hab bd _
    (fun p hp y hy => le_trans (std_levels_le dim lmin lmax hd h0 h p hp y hy) h39)

/-- the combined interpolant is linear in the function ("by linearity: every nodal unit function and every
hierarchical basis function") -/
theorem combi_interp_linear (a b : List Rat) (bd : Flags) (c : List (LV × Int)) (α β : Rat) (f g : List Rat → Rat)
    (x : List Rat) :
    combiInterp a b bd c (fun q => α * f q + β * g q) x
      = α * combiInterp a b bd c f x + β * combiInterp a b bd c g x :=
  combiInterp_lin a b bd c α β f g x

/-- **interpolation is exact on the sparse-grid space**: for every level `k` of the index set and every tensor product
`u = u_1 ⊗ … ⊗ u_d` of functions piecewise linear on the level-`k_i` grids (vanishing at the ends when boundary points
are off), the combined interpolant equals `u` at EVERY point of the box (all levels `≤ 39`, see the header). -/
theorem std_space_interp_exact (dim : Nat) (lmin lmax : Int) (hd : 1 ≤ dim) (h0 : 0 ≤ lmin) (h : lmin ≤ lmax)
    (h39 : lmax ≤ 39)
    (a b : List Rat) (hab : BoxOK a b) (ha : a.length = dim) (bd : Flags)
    (k : LV) (hk : k ∈ I (CS.init dim lmax lmin)) (us : List (Rat → Rat)) (hus : PLvec a b k us)
    (hz : ZeroEndsVec bd a b us) (x : List Rat) (hx : InBox a b x) :
    combiInterp a b bd (stdScheme dim lmin lmax) (tprod us) x = tprod us x :=
  valid_pl_interp (std_valid dim lmin lmax hd h0 h) a b hab ha bd k hk us hus x hx
    (hmv_of_noFalseBoundary a b bd _ us hz (no_false_boundary dim lmin lmax hd h0 h h39 a b hab bd))

/-- **integration is exact on the sparse-grid space**: the combined integral of such a `u` is the product of the
level-`k_i` trapezoidal values of the `u_i` = sums of their cell trapezoids (`trap1_eq_cellSum`) = `∫ u` -/
theorem std_space_integral_exact (dim : Nat) (lmin lmax : Int) (hd : 1 ≤ dim) (h0 : 0 ≤ lmin) (h : lmin ≤ lmax)
    (a b : List Rat) (hab : BoxOK a b) (ha : a.length = dim) (bd : Flags)
    (k : LV) (hk : k ∈ I (CS.init dim lmax lmin)) (us : List (Rat → Rat)) (hus : PLvec a b k us)
    (hz : ZeroEndsVec bd a b us) :
    combiIntegral a b bd (stdScheme dim lmin lmax) (tprod us) = trapProd bd a b k us :=
  valid_pl_integral (std_valid dim lmin lmax hd h0 h) a b hab ha bd k hk us hus hz

/-- the 1-D rule of level `k` applied to `u ∈ V_k` is the sum of the trapezoids of the cells, i.e. the exact integral of
the piecewise-linear `u` -/
theorem trap_is_cell_sum (a b : Rat) (l : Nat) (bd : Bool) (u : Rat → Rat) (hz : ZeroEnds a b bd u) :
    trap1 a b l bd u = cellSum a b l u :=
  trap1_eq_cellSum a b l bd u hz

/-- **every tensor hat whose level lies in the index set is interpolated exactly**, everywhere in the box -/
theorem std_hat_interp_exact (dim : Nat) (lmin lmax : Int) (hd : 1 ≤ dim) (h0 : 0 ≤ lmin) (h : lmin ≤ lmax)
    (h39 : lmax ≤ 39)
    (a b : List Rat) (hab : BoxOK a b) (ha : a.length = dim) (bd : Flags)
    (k : LV) (hk : k ∈ I (CS.init dim lmax lmin)) (i : List Nat) (hi : HatIdx bd k i)
    (x : List Rat) (hx : InBox a b x) :
    combiInterp a b bd (stdScheme dim lmin lmax) (tprod (hatVec a b k i)) x = tprod (hatVec a b k i) x := by
  have hkl : a.length = k.length := by rw [ha, ((mem_I_init dim lmin lmax hd h k).1 hk).1]
  exact std_space_interp_exact dim lmin lmax hd h0 h h39 a b hab ha bd k hk _ (hatVec_PLvec bd a b k i hab hkl hi)
    (hatVec_zeroEnds bd a b k i hab hkl hi) x hx

/-- **every tensor hat whose level lies in the index set is integrated exactly**: the combined integral is the closed
form `Π h_d` (`h_d/2` for the boundary hats) -/
theorem std_hat_integral_exact (dim : Nat) (lmin lmax : Int) (hd : 1 ≤ dim) (h0 : 0 ≤ lmin) (h : lmin ≤ lmax)
    (a b : List Rat) (hab : BoxOK a b) (ha : a.length = dim) (bd : Flags)
    (k : LV) (hk : k ∈ I (CS.init dim lmax lmin)) (i : List Nat) (hi : HatIdx bd k i) :
    combiIntegral a b bd (stdScheme dim lmin lmax) (tprod (hatVec a b k i)) = hatIntegral a b k i := by
  have hkl : a.length = k.length := by rw [ha, ((mem_I_init dim lmin lmax hd h k).1 hk).1]
  rw [std_space_integral_exact dim lmin lmax hd h0 h a b hab ha bd k hk _ (hatVec_PLvec bd a b k i hab hkl hi)
    (hatVec_zeroEnds bd a b k i hab hkl hi)]
  exact trapProd_hatVec bd a b k i hab hkl hi

/-- the reported combined integral is `get_points_and_weights` applied to `f` -/
theorem combi_integral_eq_weights (a b : List Rat) (bd : Flags) (c : List (LV × Int)) (f : List Rat → Rat) :
    combiIntegral a b bd c f = ((combiPointsWeights a b bd c).map fun e => f e.1 * e.2).sum :=
  combiIntegral_eq_weights a b bd c f

/-! ### the repaired boundary test on the former witness; the remaining behaviour that contradicts the property -/

/-- the former witness of the `np.isclose` defect (boundary points off, box `[2^20, 2^20+16]`, `lmin = lmax = 1`, whose only
sparse-grid point is the midpoint): the constant function `1` is reproduced there -/
theorem nodal_far_box_reproduced :
    combiInterp [1048576] [1048592] (Flags.const false) (stdScheme 1 1 1) (fun _ => 1) [1048584] = 1 := by
  have hab : BoxOK [1048576] [1048592] := ⟨by norm_num, trivial⟩
  have hx : ([1048584] : List Rat) ∈ unionPoints [1048576] [1048592] (Flags.const false) (stdScheme 1 1 1) := by
    rw [mem_unionPoints]
    refine ⟨([1], 1), by decide, ?_⟩
    rw [mem_gridPoints (Flags.const false) _ _ _ _ rfl rfl]
    refine ⟨?_, trivial⟩
    show (1048584 : Rat) ∈ levelPoints 1048576 1048592 1 false
    rw [mem_levelPoints]
    exact ⟨1, by decide, by norm_num [linPt]⟩
  exact std_nodal_reproduction 1 1 1 (le_refl _) (by norm_num) (le_refl _) (by norm_num) _ _ hab rfl (Flags.const false) _ _ hx

/-- boundary points on in dimension 0, off in dimension 1 (a `MixedGrid`, or `set_boundaries`) -/
def flagsOnOff : Flags := fun d => d == 0

/-- the former witness of the mixed-flags defect (box `[0,1]²`, flags (on, off), `lmin = lmax = 1`, `f ≡ 1`, sparse-grid point
`(0, 1/2)` on the boundary of the dimension that owns boundary points): reproduced -/
theorem mixed_flags_reproduced :
    combiInterp [0, 0] [1, 1] flagsOnOff (stdScheme 2 1 1) (fun _ => 1) [0, 1/2] = 1 := by
  have hab : BoxOK [0, 0] [1, 1] := ⟨by norm_num, by norm_num, trivial⟩
  have hx : ([0, 1/2] : List Rat) ∈ unionPoints [0, 0] [1, 1] flagsOnOff (stdScheme 2 1 1) := by
    rw [mem_unionPoints]
    refine ⟨([1, 1], 1), by decide, ?_⟩
    rw [mem_gridPoints flagsOnOff _ _ _ _ rfl rfl]
    refine ⟨?_, ?_, trivial⟩
    · show (0 : Rat) ∈ levelPoints 0 1 1 true
      rw [mem_levelPoints]
      exact ⟨0, by decide, by norm_num [linPt]⟩
    · show (1/2 : Rat) ∈ levelPoints 0 1 1 false
      rw [mem_levelPoints]
      exact ⟨1, by decide, by norm_num [linPt]⟩
  exact std_nodal_reproduction 2 1 1 (by norm_num) (by norm_num) (le_refl _) (by norm_num) _ _ hab rfl flagsOnOff _ _ hx

/-- "the announced count is always available" is false: before any area was set on the grid
`level_to_num_points_1d` is an `AttributeError` (`none`) -/
theorem count_before_area_counterexample :
    ¬ (∀ (areaSet : Bool) (l : Nat) (bd : Bool), ∃ n, levelNumPoints? areaSet l bd = some n) := by
  intro h
  obtain ⟨n, hn⟩ := h false 1 true
  simp [levelNumPoints?] at hn

/-! ### non-vacuity: the hypotheses are satisfiable on non-trivial objects -/

theorem example_box : BoxOK [0, 0] [1, 2] := ⟨by norm_num, by norm_num, trivial⟩
example : ([2, 2] : LV) ∈ I (CS.init 2 3 1) := by decide
example : (([2, 2] : LV), (1 : Int)) ∈ stdScheme 2 1 3 := by decide
example : (stdScheme 2 1 3).length = 5 := by decide

/-- a sparse-grid point that lies on the component grids (2,2), (3,1)… of the 2-D scheme `lmin = 1, lmax = 3`, whatever
the boundary flags of the two dimensions -/
theorem example_point (bd : Flags) : ([1/4, 1] : List Rat) ∈ unionPoints [0, 0] [1, 2] bd (stdScheme 2 1 3) := by
  rw [mem_unionPoints]
  refine ⟨([2, 2], 1), by decide, ?_⟩
  rw [mem_gridPoints bd _ _ _ _ rfl rfl]
  have h2 : Int.toNat 2 = 2 := rfl
  refine ⟨?_, ?_, trivial⟩
  · rw [mem_levelPoints, h2]
    refine ⟨1, ?_, by norm_num [linPt]⟩
    rw [mem_levelIdx]; cases bd 0 <;> simp
  · rw [mem_levelPoints, h2]
    refine ⟨2, ?_, by norm_num [linPt]⟩
    rw [mem_levelIdx]; cases bd.tl 0 <;> simp

/-- coefficient sums: any flags, in particular mixed ones -/
example (bd : Flags) : pointCoeffSum [0, 0] [1, 2] bd (stdScheme 2 1 3) [1/4, 1] = 1 :=
  std_point_coeff_sum 2 1 3 (by norm_num) (by norm_num) (by norm_num) _ _ rfl rfl bd _ (example_point bd)

example (bd : Flags) (f : List Rat → Rat) :
    combiInterp [0, 0] [1, 2] bd (stdScheme 2 1 3) f [1/4, 1] = f [1/4, 1] :=
  std_nodal_reproduction 2 1 3 (by norm_num) (by norm_num) (by norm_num) (by norm_num) _ _ example_box rfl bd
    f _ (example_point _)

theorem example_hatIdx (bd : Flags) : HatIdx bd [2, 1] [3, 1] := by
  refine ⟨?_, ?_, trivial⟩
  · rw [mem_levelIdx]; cases bd 0 <;> decide
  · rw [mem_levelIdx]; cases bd.tl 0 <;> decide

/-- a tensor hat of level (2,1) ∈ index set, any boundary flags: interpolated exactly at a point that is on no grid -/
example (bd : Flags) :
    combiInterp [0, 0] [1, 2] bd (stdScheme 2 1 3) (tprod (hatVec [0, 0] [1, 2] [2, 1] [3, 1])) [1/3, 5/7]
    = tprod (hatVec [0, 0] [1, 2] [2, 1] [3, 1]) [1/3, 5/7] :=
  std_hat_interp_exact 2 1 3 (by norm_num) (by norm_num) (by norm_num) (by norm_num) _ _ example_box rfl bd
    [2, 1] (by decide) [3, 1] (example_hatIdx _) _
    ⟨by norm_num, by norm_num, by norm_num, by norm_num, trivial⟩

/-- … and integrated exactly, whatever the boundary flags of the two dimensions: `h_1 · h_2 = 1/4 · 1` -/
example (bd : Flags) : combiIntegral [0, 0] [1, 2] bd (stdScheme 2 1 3) (tprod (hatVec [0, 0] [1, 2] [2, 1] [3, 1])) = 1 / 4 := by
  rw [std_hat_integral_exact 2 1 3 (by norm_num) (by norm_num) (by norm_num) _ _ example_box rfl bd
    [2, 1] (by decide) [3, 1] (example_hatIdx bd)]
  have h2 : Int.toNat 2 = 2 := rfl
  have h1 : Int.toNat 1 = 1 := rfl
  simp only [hatIntegral, h1, h2]
  norm_num

end SparseSpace.C02
