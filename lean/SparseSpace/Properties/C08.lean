import SparseSpace.Lemmas.QuadTensor
import SparseSpace.Lemmas.QuadTensorDrop
import SparseSpace.Lemmas.QuadMod
import SparseSpace.Lemmas.QuadGauss
import SparseSpace.Lemmas.QuadLejaBasis
import Mathlib.Tactic.NormNum
/-!
# C08 — local tensor quadrature grids honour their exactness and point contracts

Theorems about `Model/Quad` (mirror of `Grid1d.set_current_area`, `TrapezoidalGrid1D`, `SimpsonGrid1D`,
`Grid.setCurrentArea / getPoints / get_weights / levelToNumPoints` of `sparseSpACE/Grid.py`), for EVERY level,
every global interval `[a,b]`, every sub-interval `[start,stop]`, every boundary / modified-basis flag, every dimension.

Reading (DESIGN.md C08): the sum / exactness clauses speak of the complete rule (boundary on, or modified basis);
with boundary off the trapezoidal clause "drops exactly the global-boundary points" applies.  Simpson's degree 3 is
claimed for `n ≥ 3` points (level ≥ 1); at level 0 the class itself falls back to the trapezoid.

One behaviour of the code contradicts the property as stated; it is mirrored in the model and proved here as a
`…_defect` theorem (general, not only on a witness):
* `trap_boundary_off_level0_defect`  — level 0, boundary off, sub-interval touching exactly one side of the domain.
(`SimpsonGrid(boundary=False)` used to return fewer weights than points; repaired in /repo by slicing the weights with
`lowerBorder:upperBorder`, mirrored here — see `simpson_count`.)

Clenshaw–Curtis, Leja, Gauss–Legendre, Lagrange and B-spline have no exact model (cosines, `fmin`, `leggauss`, linear
solves); they are validated by the oracle of `harness/c08.py` only.
-/
namespace SparseSpace.C08
open SparseSpace.Quad

/-! ## 1-D trapezoidal family -/

/-- **count clause**: as many points as `level_to_num_points_1d` announces and as many weights as points — every level,
sub-interval, boundary flag and basis flag -/
theorem trap_count (g : G1) :
    (points1d g).length = g.numPoints ∧ (trapWeights g).length = g.numPoints :=
  ⟨points1d_length g, trapWeights_length g⟩

/-- **containment clause**: every returned point lies in `[start, stop]`, and the points are strictly increasing —
every level, sub-interval and flag combination -/
theorem trap_points_inside_sorted (g : G1) (h : g.start < g.stop) :
    (∀ x ∈ points1d g, g.start ≤ x ∧ x ≤ g.stop) ∧ (points1d g).Pairwise (· < ·) :=
  ⟨points1d_mem g (le_of_lt h), points1d_sorted g h⟩

/-- the complete rule is the sum of its panel trapezoids `h·(f(x_j)+f(x_{j+1}))/2`, for EVERY integrand `f` -/
theorem trap_eq_panels (g : G1) (hb : g.boundary = true) (hm : g.modified = false) (f : ℚ → ℚ) :
    quad (points1d g) (trapWeights g) f
      = S (fun j => g.spacing * ((f (g.x j) + f (g.x (j + 1))) / 2)) (2 ^ g.level) :=
  SparseSpace.Quad.trap_eq_panels g hb hm f

/-- **sum clause** (complete rule): the weights sum to the length of the sub-interval -/
theorem trap_sum_weights (g : G1) (hb : g.boundary = true) (hm : g.modified = false) :
    (trapWeights g).sum = g.stop - g.start :=
  SparseSpace.Quad.trap_sum_weights g hb hm

/-- **exactness clause, nominal degree 1** (complete rule): `Σ w_i (α + β x_i) = ∫_start^stop (α + β x) dx` -/
theorem trap_exact_degree1 (g : G1) (hb : g.boundary = true) (hm : g.modified = false) (α β : ℚ) :
    quad (points1d g) (trapWeights g) (fun x => α + β * x)
      = α * (g.stop - g.start) + β * ((g.stop ^ 2 - g.start ^ 2) / 2) :=
  trap_exact_affine g hb hm α β

/-- **boundary-off clause**: with boundary points switched off the returned (point, weight) list is literally the
boundary-on list with the entries lying on the global boundary `{a, b}` removed; the remaining points and weights are
unchanged.  Holds for every level and every sub-interval `a ≤ start < stop ≤ b`, except level 0 on a sub-interval
touching exactly one side of the domain (see `trap_boundary_off_level0_defect`). -/
theorem trap_boundary_off_drops_exactly (g : G1) (hb : g.boundary = false) (hm : g.modified = false)
    (h1 : g.a ≤ g.start) (h2 : g.start < g.stop) (h3 : g.stop ≤ g.b)
    (hex : ¬ (g.level = 0 ∧ g.tl + g.th = 1)) :
    List.zip (points1d g) (trapWeights g)
      = (List.zip (points1d g.on) (trapWeights g.on)).filter g.interior :=
  boundary_off_drops_exactly g hb hm h1 h2 h3 hex

/-- **genuine defect (mirrored from the code)**: at level 0, boundary off, on a sub-interval touching exactly one side
of the domain the code returns the MID point with weight `stop − start` — not the remaining end point with weight
`(stop − start)/2`; the boundary-off clause fails for every such grid. -/
theorem trap_boundary_off_level0_defect (g : G1) (hb : g.boundary = false) (hm : g.modified = false)
    (h1 : g.a ≤ g.start) (h2 : g.start < g.stop) (h3 : g.stop ≤ g.b)
    (hl : g.level = 0) (ht : g.tl + g.th = 1) :
    List.zip (points1d g) (trapWeights g) = [((g.stop + g.start) / 2, g.stop - g.start)]
    ∧ List.zip (points1d g) (trapWeights g)
        ≠ (List.zip (points1d g.on) (trapWeights g.on)).filter g.interior :=
  ⟨boundary_off_level0_value g hb hm hl ht, boundary_off_level0_defect g hb hm h1 h2 h3 hl ht⟩

/-- modified basis (boundary off), ≥ 3 points: the rule is the complete rule in which the dropped boundary values are
replaced by linear extrapolation — for EVERY integrand the difference is `h/2` times the second differences at the
touched ends -/
theorem trap_modified_eq_extrapolated (g : G1) (hb : g.boundary = false) (hm : g.modified = true)
    (hn : 3 ≤ g.numPoints) (f : ℚ → ℚ) :
    quad (points1d g) (trapWeights g) f
      = quad (points1d g.full) (trapWeights g.full) f
        + (g.tl : ℚ) * (g.spacing / 2) * (2 * f (g.x 1) - f (g.x 2) - f (g.x 0))
        + (g.th : ℚ) * (g.spacing / 2)
            * (2 * f (g.x (2 ^ g.level - 1)) - f (g.x (2 ^ g.level - 2)) - f (g.x (2 ^ g.level))) :=
  SparseSpace.Quad.trap_modified_eq_extrapolated g hb hm hn f

/-- **sum + exactness clauses for the modified basis** (the other complete rule): exact for degree ≤ 1 on the interior
points, for every level and sub-interval on which the rule has at least one point -/
theorem trap_modified_exact_degree1 (g : G1) (hb : g.boundary = false) (hm : g.modified = true)
    (hn : 1 ≤ g.numPoints) (α β : ℚ) :
    quad (points1d g) (trapWeights g) (fun x => α + β * x)
      = α * (g.stop - g.start) + β * ((g.stop ^ 2 - g.start ^ 2) / 2) :=
  trap_modified_exact_affine g hb hm hn α β

/-! ## 1-D Simpson family -/

/-- the complete Simpson rule (level ≥ 1) is the sum of its panels `h/3·(f(x_{2j}) + 4 f(x_{2j+1}) + f(x_{2j+2}))`,
for EVERY integrand — the weights are the ones the code builds by `w[1:-1:2] *= 4; w[2:-1:2] *= 2` -/
theorem simpson_eq_panels (g : G1) (hb : g.boundary = true) (k : ℕ) (hl : g.level = k + 1) (f : ℚ → ℚ) :
    quad (points1d g) (simpsonWeights g) f
      = S (fun j => g.spacing / 3 * (f (g.x (2 * j)) + 4 * f (g.x (2 * j + 1)) + f (g.x (2 * j + 2)))) (2 ^ k) :=
  SparseSpace.Quad.simpson_eq_panels g hb k hl f

/-- **count + sum clauses** (complete Simpson rule, every level ≥ 1) -/
theorem simpson_count_sum (g : G1) (hb : g.boundary = true) (k : ℕ) (hl : g.level = k + 1) :
    (points1d g).length = g.numPoints ∧ (simpsonWeights g).length = g.numPoints
    ∧ (simpsonWeights g).sum = g.stop - g.start :=
  ⟨points1d_length g, simpsonWeights_length_on g hb, simpson_sum_weights g hb k hl⟩

/-- **exactness clause, nominal degree 3** (complete rule, `n ≥ 3` points): every cubic is integrated exactly -/
theorem simpson_exact_degree3 (g : G1) (hb : g.boundary = true) (k : ℕ) (hl : g.level = k + 1) (c0 c1 c2 c3 : ℚ) :
    quad (points1d g) (simpsonWeights g) (fun x => c0 + c1 * x + c2 * x ^ 2 + c3 * x ^ 3)
      = c0 * (g.stop - g.start) + c1 * ((g.stop ^ 2 - g.start ^ 2) / 2)
        + c2 * ((g.stop ^ 3 - g.start ^ 3) / 3) + c3 * ((g.stop ^ 4 - g.start ^ 4) / 4) :=
  simpson_exact_cubic g hb k hl c0 c1 c2 c3

/-- at level 0 (two points) the Simpson class returns the trapezoidal weights, for every flag — so there it is exact
for degree ≤ 1 by `trap_exact_degree1` -/
theorem simpson_level0_is_trapezoid (g : G1) (hl : g.level = 0) (hm : g.modified = false) :
    simpsonWeights g = trapWeights g :=
  simpson_level0_eq_trap g hl hm

/-- **count clause for the Simpson family**: for every level, sub-interval and boundary flag the class returns as many
points as it announces and as many weights as points (the weights are sliced by `lowerBorder:upperBorder` like the
points) -/
theorem simpson_count (g : G1) :
    (points1d g).length = g.numPoints ∧ (simpsonWeights g).length = g.numPoints :=
  ⟨points1d_length g, simpsonWeights_length g⟩

/-! ## tensor product (every dimension) -/

/-- **count clause** for the tensor grid, every family / flag combination: `len(getPoints()) = Π levelToNumPoints`
and as many weights -/
theorem tensor_count (f : Family) (gs : List G1) :
    (tensorPoints f gs).length = (levelToNumPoints gs).prod
    ∧ (tensorWeights f gs).length = (levelToNumPoints gs).prod :=
  ⟨tensorPoints_length f gs, by cases f <;> [exact tensorWeights_length_trap gs; exact tensorWeights_length_simpson gs]⟩

/-- **containment clause** for the tensor grid: every coordinate of every point lies in its `[start_d, stop_d]` -/
theorem tensor_points_inside (f : Family) (gs : List G1) (h : ∀ g ∈ gs, g.start ≤ g.stop) (t : List ℚ)
    (ht : t ∈ tensorPoints f gs) : List.Forall₂ (fun x (g : G1) => g.start ≤ x ∧ x ≤ g.stop) t gs :=
  tensorPoints_mem f gs h t ht

/-- **sum clause** for the complete tensor rules: the weights sum to the volume of the sub-box -/
theorem tensor_sum_weights (gs : List G1) :
    ((∀ g ∈ gs, g.boundary = true ∧ g.modified = false) →
        (tensorWeights .trap gs).sum = (gs.map fun g => g.stop - g.start).prod)
    ∧ ((∀ g ∈ gs, g.boundary = true ∧ 1 ≤ g.level) →
        (tensorWeights .simpson gs).sum = (gs.map fun g => g.stop - g.start).prod) :=
  ⟨tensor_trap_sum_weights gs, tensor_simpson_sum_weights gs⟩

/-- **tensor lift of exactness (general)**: a product rule applied to a product integrand is the product of the 1-D
quadrature sums — for arbitrary 1-D rules with as many weights as points -/
theorem tensor_product_rule {δ : Type} (P W : δ → List ℚ) (Fn : δ → ℚ → ℚ) (ds : List δ)
    (h : ∀ d ∈ ds, (P d).length = (W d).length) :
    quadT (cross (ds.map P)) ((cross (ds.map W)).map List.prod) (prodF (ds.map Fn))
      = (ds.map fun d => quad (P d) (W d) (Fn d)).prod :=
  quadT_cross P W Fn ds h

/-- tensor trapezoidal rule (complete): exact for products of per-dimension affine functions, every dimension -/
theorem tensor_trap_exact (ds : List (G1 × ℚ × ℚ)) (h : ∀ d ∈ ds, d.1.boundary = true ∧ d.1.modified = false) :
    quadT (tensorPoints .trap (ds.map (·.1))) (tensorWeights .trap (ds.map (·.1)))
        (prodF (ds.map fun d x => d.2.1 + d.2.2 * x))
      = (ds.map fun d => d.2.1 * (d.1.stop - d.1.start) + d.2.2 * ((d.1.stop ^ 2 - d.1.start ^ 2) / 2)).prod :=
  SparseSpace.Quad.tensor_trap_exact ds h

/-- tensor Simpson rule (complete, levels ≥ 1): exact for products of per-dimension cubics, every dimension -/
theorem tensor_simpson_exact (ds : List (G1 × ℚ × ℚ × ℚ × ℚ)) (h : ∀ d ∈ ds, d.1.boundary = true ∧ 1 ≤ d.1.level) :
    quadT (tensorPoints .simpson (ds.map (·.1))) (tensorWeights .simpson (ds.map (·.1)))
        (prodF (ds.map fun d x => d.2.1 + d.2.2.1 * x + d.2.2.2.1 * x ^ 2 + d.2.2.2.2 * x ^ 3))
      = (ds.map fun d => d.2.1 * (d.1.stop - d.1.start) + d.2.2.1 * ((d.1.stop ^ 2 - d.1.start ^ 2) / 2)
            + d.2.2.2.1 * ((d.1.stop ^ 3 - d.1.start ^ 3) / 3) + d.2.2.2.2 * ((d.1.stop ^ 4 - d.1.start ^ 4) / 4)).prod :=
  SparseSpace.Quad.tensor_simpson_exact ds h

/-- **boundary-off clause of the trapezoidal family in every dimension**: the boundary-off tensor grid is literally the
boundary-on tensor grid with the (point, weight) entries having a coordinate on the global boundary removed; the
remaining points and weights are unchanged (same exclusion as in 1-D: no dimension at level 0 touching one side) -/
theorem tensor_boundary_off_drops_exactly (gs : List G1)
    (h : ∀ g ∈ gs, g.boundary = false ∧ g.modified = false ∧ g.a ≤ g.start ∧ g.start < g.stop ∧ g.stop ≤ g.b
      ∧ ¬ (g.level = 0 ∧ g.tl + g.th = 1)) :
    List.zip (tensorPoints .trap gs) (tensorWeights .trap gs)
      = (List.zip (tensorPoints .trap (gs.map G1.on)) (tensorWeights .trap (gs.map G1.on))).filter (interiorT gs) :=
  SparseSpace.Quad.tensor_boundary_off_drops_exactly gs h

/-! ## Gauss–Legendre under the `leggauss` contract (extension) -/

/-- **affine transport of exactness.**  `GaussLegendreGrid1D` maps the reference rule `(ξ, ω) = leggauss(n)` on `[-1,1]`
to nodes `(ξ+1)·(e−s)/2 + s` and weights `ω·(e−s)/2`.  CONTRACT (assumed, `leggauss` is not modelled): the reference rule
has the exact moments `Σ ω_i ξ_i^k = ∫_{-1}^{1} t^k dt` for all `k ≤ m` (`m = 2n − 1` for `leggauss(n)`).  Then the rule
on `[s, e]` has the exact moments up to the same degree `m` — for every sub-interval. -/
theorem gauss_legendre_exact (ξ ω : List ℚ) (m : ℕ)
    (contract : ∀ k, k ≤ m → quad ξ ω (fun t => t ^ k) = (1 - (-1) ^ (k + 1)) / (k + 1))
    (s e : ℚ) (k : ℕ) (hk : k ≤ m) :
    quad (glPoints ξ s (e - s)) (glWeights ω (e - s)) (fun x => x ^ k) = (e ^ (k + 1) - s ^ (k + 1)) / (k + 1) :=
  gl_moments ξ ω m (contract_of_moments ξ ω m contract) s e k hk

/-- the same for every polynomial of degree ≤ m, stated through the fundamental theorem of calculus:
`Σ w_i P'(x_i) = P(e) − P(s)` for every polynomial `P` of degree ≤ m+1 -/
theorem gauss_legendre_exact_poly (ξ ω : List ℚ) (m : ℕ)
    (contract : ∀ k, k ≤ m → quad ξ ω (fun t => t ^ k) = (1 - (-1) ^ (k + 1)) / (k + 1))
    (s e : ℚ) (P : Polynomial ℚ) (hP : P.natDegree ≤ m + 1) :
    quad (glPoints ξ s (e - s)) (glWeights ω (e - s)) (fun x => (Polynomial.derivative P).eval x) = P.eval e - P.eval s :=
  gl_affine_transport ξ ω m (contract_of_moments ξ ω m contract) s e P hP

/-! ## Leja family: weights from a linear system (extension)

`LejaGrid1D.compute_1D_quad_weights` returns the first row of `inv(V)`, `V[i,j] = φ_j(t_i)` with the orthonormal shifted
Legendre polynomials `φ_j`; the reference points `t_i ∈ [0,1]` (from `fmin`, with `boundary=False`: the points kept after
slicing) are an ARBITRARY input.  `lejaRefWeights` (Model/QuadLeja, executed by the driver op `leja` and compared with the
implementation's weights on the implementation's own points) solves the equivalent moment system exactly and returns a
result only with its certificate.  Contracts (not modelled): exact solve by `numpy.linalg.inv`; `eval_sh_legendre(j,·)` is
a polynomial of degree `j` with `∫_0^1 φ_j = δ_{j0}`. -/

/-- **count, sum and exactness clauses for the Leja family**: for ANY list of `n` reference points, every output `w` of
the model's weight computation gives, on every interval `[s, s+L]` (`coords = t·L + s`, `weights = w·L`): `n` points and
`n` weights; weights summing to the length `L`; exact moments `Σ w_i x_i^k = ∫ x^k` for all `k ≤ n−1` (nominal degree
`n − 1`).  With `boundary=False` (after the repair) the code runs the same computation on the `n'` kept points, so this
is exactness to degree `n' − 1` on them. -/
theorem leja_exact (ts w : List ℚ) (h : lejaRefWeights ts = some w) (s L : ℚ) :
    ((lejaPoints ts s L).length = ts.length ∧ (lejaWeights w L).length = ts.length)
    ∧ (1 ≤ ts.length → (lejaWeights w L).sum = L)
    ∧ ∀ k, k < ts.length →
        quad (lejaPoints ts s L) (lejaWeights w L) (fun x => x ^ k) = ((s + L) ^ (k + 1) - s ^ (k + 1)) / (k + 1) :=
  ⟨leja_lengths ts w h s L, leja_sum_weights ts w h s L, fun k hk => leja_moments ts w h s L k hk⟩

/-- the same for every polynomial of degree ≤ n−1 (`Σ w_i P'(x_i) = P(s+L) − P(s)` for every `P` of degree ≤ n) -/
theorem leja_exact_poly (ts w : List ℚ) (h : lejaRefWeights ts = some w) (s L : ℚ) (P : Polynomial ℚ)
    (hP : P.natDegree ≤ ts.length) :
    quad (lejaPoints ts s L) (lejaWeights w L) (fun x => (Polynomial.derivative P).eval x) = P.eval (s + L) - P.eval s :=
  SparseSpace.Quad.leja_exact_poly ts w h s L P hP

/-- boundary-off variant: the kept points are a slice `ts[lo:up]` of the reference points; the rule built on them is
exact to degree `n' − 1`, `n'` = number of kept points -/
theorem leja_boundary_off_exact (ts w : List ℚ) (lo up : ℕ) (h : lejaRefWeights (slice lo up ts) = some w) (s L : ℚ)
    (k : ℕ) (hk : k < (slice lo up ts).length) :
    quad (lejaPoints (slice lo up ts) s L) (lejaWeights w L) (fun x => x ^ k)
      = ((s + L) ^ (k + 1) - s ^ (k + 1)) / (k + 1) :=
  leja_moments (slice lo up ts) w h s L k hk

/-- **the code's own linear system**: for ANY polynomials `φ_j` with `deg φ_j = j` (the code: orthonormal shifted Legendre),
every `w` with `Σ_i w_i φ_j(t_i) = ∫_0^1 φ_j` for `j < n` — i.e. the first row of an exact inverse of `V[i,j] = φ_j(t_i)`
when `∫_0^1 φ_j = δ_{j0}` — integrates EVERY polynomial of degree < n exactly on `[0,1]`, in particular it solves the
moment system `Σ_i w_i t_i^k = 1/(k+1)` the model solves -/
theorem leja_collocation_system_exact (φ : ℕ → Polynomial ℚ) (n : ℕ)
    (hdeg : ∀ j, j < n → (φ j).degree = (j : WithBot ℕ)) (ts w : List ℚ)
    (hsys : ∀ j, j < n → quad ts w (fun t => (φ j).eval t) = int01 (φ j)) :
    (∀ p : Polynomial ℚ, p.degree < (n : WithBot ℕ) → quad ts w (fun t => p.eval t) = int01 p)
    ∧ ∀ k, k < n → quad ts w (fun t => t ^ k) = 1 / ((k : ℚ) + 1) :=
  ⟨fun p hp => collocation_system_exact φ n hdeg ts w hsys p hp,
   fun k hk => collocation_system_moments φ n hdeg ts w hsys k hk⟩

/-- **uniqueness for pairwise distinct points**: the system has at most one solution, so the exact-solve result of the
code and the model's certified weights are the same vector (Vandermonde determinant) -/
theorem leja_weights_unique (n : ℕ) (t v v' : Fin n → ℚ) (ht : Function.Injective t)
    (h : ∀ k, k < n → quad (List.ofFn t) (List.ofFn v) (fun x => x ^ k) = 1 / ((k : ℚ) + 1))
    (h' : ∀ k, k < n → quad (List.ofFn t) (List.ofFn v') (fun x => x ^ k) = 1 / ((k : ℚ) + 1)) : v = v' :=
  moment_system_unique n t v v' ht h h'

/-! ## non-vacuity: concrete grids meeting the hypotheses -/

/-- sub-box `[3/2, 2]` of `[0, 2]`, level 3 -/
def gOn : G1 := { a := 0, b := 2, start := 3 / 2, stop := 2, level := 3, boundary := true, modified := false }
def gOff : G1 := { gOn with boundary := false }
def gMod : G1 := { gOn with boundary := false, modified := true }
/-- level 0, boundary off, touching only the upper side -/
def gL0 : G1 := { a := 0, b := 2, start := 3 / 2, stop := 2, level := 0, boundary := false, modified := false }

example : gOn.boundary = true ∧ gOn.modified = false ∧ gOn.level = 2 + 1 ∧ gOn.start < gOn.stop := by
  norm_num [gOn]
example : gOn.numPoints = 9 ∧ gOff.numPoints = 8 := by
  constructor <;> norm_num [G1.numPoints, G1.touchLo, G1.touchHi, gOn, gOff]
example : (trapWeights gOn).sum = 1 / 2 := by rw [trap_sum_weights gOn rfl rfl]; norm_num [gOn]
/-- the hypotheses of `trap_boundary_off_drops_exactly` hold for `gOff` (one point is dropped: 8 of 9 remain) -/
example : gOff.boundary = false ∧ gOff.modified = false ∧ gOff.a ≤ gOff.start ∧ gOff.start < gOff.stop ∧ gOff.stop ≤ gOff.b
    ∧ ¬ (gOff.level = 0 ∧ gOff.tl + gOff.th = 1) := by
  norm_num [gOff, gOn]
/-- … and of its tensor version for the 2-D grid `[gOff, gFull]` (`gFull` = the whole interval at level 1) -/
def gFull : G1 := { a := 0, b := 2, start := 0, stop := 2, level := 1, boundary := false, modified := false }
example : ∀ g ∈ [gOff, gFull], g.boundary = false ∧ g.modified = false ∧ g.a ≤ g.start ∧ g.start < g.stop ∧ g.stop ≤ g.b
    ∧ ¬ (g.level = 0 ∧ g.tl + g.th = 1) := by
  intro g hg
  simp only [List.mem_cons, List.mem_nil_iff, or_false] at hg
  rcases hg with rfl | rfl <;> norm_num [gOff, gOn, gFull]
example : gOff.tl + gOff.th = 1 := by norm_num [G1.tl, G1.th, G1.touchLo, G1.touchHi, gOff, gOn]
/-- the level-0 defect: hypotheses hold for `gL0`; the code returns `[(7/4, 1/2)]` instead of `[(3/2, 1/4)]` -/
example : List.zip (points1d gL0) (trapWeights gL0) = [((7 : ℚ) / 4, (1 : ℚ) / 2)] := by
  rw [(trap_boundary_off_level0_defect gL0 rfl rfl (by norm_num [gL0]) (by norm_num [gL0]) (by norm_num [gL0]) rfl
    (by norm_num [G1.tl, G1.th, G1.touchLo, G1.touchHi, gL0])).1]
  norm_num [gL0]
/-- Simpson, boundary off, on the former witness of the repaired defect: 8 points and 8 weights -/
example : (points1d gOff).length = 8 ∧ (simpsonWeights gOff).length = 8 := by
  rw [(simpson_count gOff).1, (simpson_count gOff).2]
  norm_num [G1.numPoints, G1.touchLo, G1.touchHi, gOff, gOn]
/-- modified basis: `gMod` has 8 ≥ 3 points -/
example : gMod.boundary = false ∧ gMod.modified = true ∧ 3 ≤ gMod.numPoints := by
  norm_num [G1.numPoints, G1.touchLo, G1.touchHi, gMod, gOn]
/-- a 2-D complete tensor rule: ∫∫ (1 + x)(2y) over [3/2,2]×[3/2,2] = (1/2 + 7/8)·(7/4) -/
example : quadT (tensorPoints .trap [gOn, gOn]) (tensorWeights .trap [gOn, gOn])
    (prodF [fun x => 1 + 1 * x, fun y => 0 + 2 * y]) = (1 / 2 + 7 / 8) * (7 / 4) := by
  have := tensor_trap_exact [(gOn, 1, 1), (gOn, 0, 2)] (by simp [gOn])
  simp only [List.map_cons, List.map_nil] at this
  rw [this]
  norm_num [gOn]

/-- the contract is satisfiable: the 1-point Gauss rule `ξ = [0], ω = [2]` is exact to degree `m = 1` -/
example : ∀ k : ℕ, k ≤ 1 → quad [0] [2] (fun t => t ^ k) = (1 - (-1) ^ (k + 1)) / ((k : ℚ) + 1) := by
  intro k hk
  rcases (show k = 0 ∨ k = 1 by omega) with h | h <;> subst h <;> norm_num [quad]

/-- Leja: the model's weight computation succeeds on the 3 points `0, 1/2, 1` (Simpson's weights), and these weights
also satisfy the code's own Legendre system (kernel evaluation of the executable model) -/
example : lejaRefWeights [0, 1 / 2, 1] = some [1 / 6, 2 / 3, 1 / 6] := by decide +kernel
example : codeSystemOk [0, 1 / 2, 1] [1 / 6, 2 / 3, 1 / 6] = true := by decide +kernel
/-- … also on the 2 points kept by a boundary-off slice, and on 4 unevenly spaced points with a zero weight -/
example : lejaRefWeights (slice 1 3 [0, 1 / 3, 1 / 2, 1]) = some [0, 1] := by decide +kernel
example : lejaRefWeights [0, 1 / 3, 1 / 2, 1] = some [1 / 6, 0, 2 / 3, 1 / 6] := by decide +kernel

end SparseSpace.C08
