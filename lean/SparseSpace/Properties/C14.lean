import SparseSpace.Lemmas.AdaptDriverResume
import SparseSpace.Lemmas.AdaptDriverErr
/-!
# C14 — interrupted, saved or resumed refinement ends where an uninterrupted run ends

Theorems about `Model/AdaptDriver`: `performSpatiallyAdaptiv(L1)` followed by `continue_adaptive_refinement(L2)`
(with or without `save_to_file`/`restore_from_file` in between) against one `performSpatiallyAdaptiv(L2)`, for
EVERY strategy (abstract `eval`/`refine`), EVERY interruption index and all limits.

Both disciplines of the code are strictly re-entrant: extend–split (`incMachine`) since repo commit 48b37d3
(`evaluate_operation` ends with `clear_new_objects()`), dimension-wise (`scrMachine`) since the volumes are reset at the
start of every evaluation — `incremental_reentrant`, `scratch_reentrant`; hence `resume_eq_single` applies to both at every
interruption state (`resume_incremental`, `resume_scratch`).  That the re-entrance hypothesis cannot be dropped for
arbitrary strategies is shown on `leakyMachine` (the extend–split discipline before that commit).

Full statement of the property (NOT provable for arbitrary strategies: `resume_eq_single_fails_without_reentrance`):

    ∀ M L1 L2 s0 r, L1.grow L2 → run M L2 f s0 = some r →
      ∃ r2, resume M L1 L2 f1 f2 s0 = some r2 ∧ SameStructureSchemeResultPoints r2.state r.state

Proved part (`_partial` in the sense of DEV.md): `resume_from_index`, `resume_sim`, `resume_eq_single` — the same conclusion
under the per-state hypothesis `ReentrantAt` (checked by the harness at every explored stop of the real code).
-/
namespace SparseSpace.C14
open SparseSpace.Adapt

variable {S : Type}

/-- **every interruption index.**  A run with limits `L2` stops after `r.refines` refinements.  Interrupt it after ANY
evaluation `i ≤ r.refines` (for whatever reason), keep the arrays, and call the loop again with `L2`.  If `eval` is
re-entrant at that state, the continued run stops, after `r.refines - i` further refinements, in a state
`Q`-equivalent to the final state of the uninterrupted run, with the same final error and point count; its arrays
are those of the uninterrupted run with ONE extra entry (the re-evaluation) after position `i`. -/
theorem resume_from_index {M : Machine S} {R Q : S → S → Prop} (hS : Sim M R)
    (hQ : ∀ s t, R s t → Q (M.eval s).1 (M.eval t).1)
    (L2 : Limits) (fuel : Nat) (s0 : S) (r : Result S) (hr : run M L2 fuel s0 = some r)
    (i : Nat) (hi : i ≤ r.refines) (hre : ReentrantAt M R Q (stateAt M s0 i) (obsAt M s0 i))
    (f2 : Nat) (hf2 : r.refines < f2 + i) :
    ∃ r2, loop M L2 f2 (stateAt M s0 i) (Hist.empty.pushAll (obsList M s0 (i + 1))) 0 = some r2 ∧
      Q r.state r2.state ∧ r2.last.err = r.last.err ∧ r2.last.pts = r.last.pts ∧ (i < r.refines → r2.last = r.last) ∧
      r2.refines + i = r.refines ∧
      r2.hist = (Hist.empty.pushAll (obsList M s0 (i + 1))).pushAll
        ((M.eval (stateAt M s0 i)).2 :: (obsList M s0 r.evals).drop (i + 1)) := by
  obtain ⟨m, _, hb, hat, hrr⟩ := (loop_eq_some_iff M L2 fuel s0 Hist.empty 0 r).1 hr
  have em : r.refines = m := by rw [hrr]; simp
  have ee : r.evals = m + 1 := by rw [hrr]; simp
  rw [em] at hi hf2
  obtain ⟨r2, h1, h2, h3, h4, h5, h6, _, h8⟩ :=
    resume_from_index_aux hS hQ L2 s0 Hist.empty m i hi hb hat hre f2 hf2
  refine ⟨r2, h1, ?_, ?_, ?_, ?_, ?_, ?_⟩
  · rw [hrr]; exact h2
  · rw [hrr]; exact h3
  · rw [hrr]; exact h4
  · rw [em, hrr]; exact h5
  · rw [em]; exact h6
  · rw [ee]; exact h8

/-- **stop with limits `L1`, continue with larger limits `L2`.**  If the limits only grow, the interrupted run stops
no later than the uninterrupted one, and — given re-entrance at the state where it stopped — `resume` ends in a state
`Q`-equivalent to that of the single run, with the same final error and point count and the same total number of
refinements. -/
theorem resume_sim {M : Machine S} {R Q : S → S → Prop} (hS : Sim M R)
    (hQ : ∀ s t, R s t → Q (M.eval s).1 (M.eval t).1)
    (L1 L2 : Limits) (hg : L1.grow L2) (f f1 f2 : Nat) (s0 : S) (r r1 : Result S)
    (hr : run M L2 f s0 = some r) (hr1 : run M L1 f1 s0 = some r1)
    (hre : ReentrantAt M R Q r1.state r1.last) (hf2 : r.refines < f2 + r1.refines) :
    r1.refines ≤ r.refines ∧
    ∃ r2, resume M L1 L2 f1 f2 s0 = some r2 ∧ Q r.state r2.state ∧
      r2.last.err = r.last.err ∧ r2.last.pts = r.last.pts ∧ r1.refines + r2.refines = r.refines ∧
      r2.hist = r1.hist.pushAll ((M.eval r1.state).2 :: (obsList M s0 r.evals).drop r1.evals) := by
  obtain ⟨m, _, hb, hat, hrr⟩ := (loop_eq_some_iff M L2 f s0 Hist.empty 0 r).1 hr
  obtain ⟨i, _, hb1, hat1, hrr1⟩ := (loop_eq_some_iff M L1 f1 s0 Hist.empty 0 r1).1 hr1
  have em : r.refines = m := by rw [hrr]; simp
  have ei : r1.refines = i := by rw [hrr1]; simp
  have eev : r1.evals = i + 1 := by rw [hrr1]; simp
  have est : r1.state = stateAt M s0 i := by rw [hrr1]
  have ela : r1.last = obsAt M s0 i := by rw [hrr1]
  have ehi : r1.hist = Hist.empty.pushAll (obsList M s0 (i + 1)) := by rw [hrr1]
  have him : i ≤ m := by
    by_contra hc
    have h1 := hb1 m (by omega)
    rw [stop_of_grow hg _ hat] at h1
    exact absurd h1 (by simp)
  rw [est, ela] at hre
  rw [em, ei] at hf2
  obtain ⟨r2, h1, h2, h3, h4, _, h6, h7⟩ :=
    resume_from_index hS hQ L2 f s0 r hr i (by rw [em]; exact him) hre f2 (by rw [em]; exact hf2)
  refine ⟨by rw [em, ei]; exact him, r2, ?_, h2, h3, h4, by rw [ei]; omega, ?_⟩
  · unfold resume
    rw [hr1]
    show loop M L2 f2 r1.state r1.hist 0 = some r2
    rw [est, ehi]; exact h1
  · rw [ehi, est, eev]; exact h7

/-- **the strict form**: `eval` is re-entrant on the stopped state (evaluating again without refining gives the same
state and the same observation) and the limits only grow ⇒ stop-and-continue ends in the SAME state with the same
observation as the single run; its arrays are the single run's with the entry of the interruption index doubled. -/
theorem resume_eq_single (M : Machine S) (L1 L2 : Limits) (hg : L1.grow L2) (f f1 f2 : Nat) (s0 : S)
    (r r1 : Result S) (hr : run M L2 f s0 = some r) (hr1 : run M L1 f1 s0 = some r1)
    (hre : M.eval r1.state = (r1.state, r1.last)) (hf2 : r.refines < f2 + r1.refines) :
    ∃ r2, resume M L1 L2 f1 f2 s0 = some r2 ∧ r2.state = r.state ∧ r2.last.err = r.last.err ∧
      r2.last.pts = r.last.pts ∧ r1.refines + r2.refines = r.refines ∧
      r2.hist = r1.hist.pushAll (r1.last :: (obsList M s0 r.evals).drop r1.evals) := by
  have hre' : ReentrantAt M (· = ·) (· = ·) r1.state r1.last :=
    ⟨by rw [hre], by rw [hre], by rw [hre], by rw [hre]⟩
  obtain ⟨_, r2, h1, h2, h3, h4, h5, h6⟩ :=
    resume_sim (Sim.eq M) (fun s t h => by rw [h]) L1 L2 hg f f1 f2 s0 r r1 hr hr1 hre' hf2
  refine ⟨r2, h1, h2.symm, h3, h4, h5, ?_⟩
  rw [h6, hre]

/-- **save + restore in between changes nothing**, under the contract that `restore_from_file ∘ save_to_file` is the
identity on instances (`dill` is not modelled; the contract is checked by the harness on every explored stop) -/
theorem restore_id {B : Type} (save : S → B) (restore : B → S) (hid : ∀ s, restore (save s) = s)
    (M : Machine S) (L1 L2 : Limits) (f1 f2 : Nat) (s : S) (view : S → Obs) :
    resumeVia save restore M L1 L2 f1 f2 s = resume M L1 L2 f1 f2 s ∧
    ∀ x, view (restore (save x)) = view x :=
  ⟨resumeVia_eq_resume save restore hid M L1 L2 f1 f2 s, fun x => by rw [hid]⟩

/-! ### the two disciplines of the code -/

/-- **the dimension-wise discipline is strictly re-entrant**, with or without reference solution: the evaluation
recomputes result and indicators from the refinement alone. -/
theorem scratch_reentrant (s : AccState) :
    scrMachine.eval (scrMachine.eval s).1 = ((scrMachine.eval s).1, (scrMachine.eval s).2) := by
  show scrEval (scrEval s).1 = ((scrEval s).1, (scrEval s).2)
  have hst : (scrEval (scrEval s).1).1 = (scrEval s).1 := by simp only [scrEval]
  exact Prod.ext hst (by show (scrEval (scrEval s).1).1.obs = (scrEval s).1.obs; rw [hst])

/-- two areas, reference 1, two scripted splits -/
def esStart : AccState := ⟨0, [1/2, 1/4], 0, [0, 0], [(0, [1/4, 1/8]), (0, [1/8, 1/16])], some 1⟩

def stopAt3 : Limits := ⟨-1, 1, some 2⟩   -- stops as soon as there are 3 areas
def stopAt4 : Limits := ⟨-1, 1, some 3⟩   -- stops as soon as there are 4 areas

/-- **the extend–split discipline is strictly re-entrant** (mirror of the code since commit 48b37d3): for EVERY state,
evaluating the evaluated state again — no refinement in between — returns the same state and the same observation,
because the first evaluation has marked all areas as accounted for. -/
theorem incremental_reentrant (s : AccState) :
    incMachine.eval (incMachine.eval s).1 = ((incMachine.eval s).1, (incMachine.eval s).2) := by
  show incEval (incEval s).1 = ((incEval s).1, (incEval s).2)
  have hst : (incEval (incEval s).1).1 = (incEval s).1 := by
    have h0 : sumR ([] : List Rat) = 0 := rfl
    simp only [incEval]
    simp [h0]
  exact Prod.ext hst (by show (incEval (incEval s).1).1.obs = (incEval s).1.obs; rw [hst])

/-- **hence stop-and-continue of the extend–split discipline ends where the single run ends**, for all limits that grow,
all start states and every interruption index: `resume_eq_single` with its hypothesis discharged by
`incremental_reentrant` (every stopped state is an evaluated state). -/
theorem resume_incremental (L1 L2 : Limits) (hg : L1.grow L2) (f f1 f2 : Nat) (s0 : AccState)
    (r r1 : Result AccState) (hr : run incMachine L2 f s0 = some r) (hr1 : run incMachine L1 f1 s0 = some r1)
    (hf2 : r.refines < f2 + r1.refines) :
    ∃ r2, resume incMachine L1 L2 f1 f2 s0 = some r2 ∧ r2.state = r.state ∧ r2.last.err = r.last.err ∧
      r2.last.pts = r.last.pts ∧ r1.refines + r2.refines = r.refines := by
  obtain ⟨i, _, _, _, hrr1⟩ := (loop_eq_some_iff incMachine L1 f1 s0 Hist.empty 0 r1).1 hr1
  have hre : incMachine.eval r1.state = (r1.state, r1.last) := by
    rw [hrr1]
    exact incremental_reentrant (iter incMachine s0 i)
  obtain ⟨r2, h1, h2, h3, h4, h5, _⟩ := resume_eq_single incMachine L1 L2 hg f f1 f2 s0 r r1 hr hr1 hre hf2
  exact ⟨r2, h1, h2, h3, h4, h5⟩

/-- the discipline of the code BEFORE commit 48b37d3, kept only as an abstract machine: the evaluation adds the new areas
but does not record that it did -/
def leakyEval (s : AccState) : AccState × Obs :=
  let s' := { s with acc := s.acc + sumR (s.areas.drop s.startNew), vols := s.areas }
  (s', s'.obs)

def leakyMachine : Machine AccState := ⟨leakyEval, accRefine true⟩

/-- **the re-entrance hypothesis cannot be dropped**: for arbitrary machines "limits grow ⇒ stop-and-continue ends with the
result of the single run" is false — `leakyMachine`, limits `max 2 → max 3`: single run 9/16, stop+continue 15/16. -/
theorem resume_eq_single_fails_without_reentrance :
    ¬ ∀ (M : Machine AccState) (L1 L2 : Limits) (s0 : AccState), L1.grow L2 →
      (resume M L1 L2 5 5 s0).map (·.state.acc) = (run M L2 5 s0).map (·.state.acc) := by
  intro h
  have h1 := h leakyMachine stopAt3 stopAt4 esStart ⟨by decide +kernel, by decide, by show (2 : Int) ≤ 3; decide⟩
  have h2 : (resume leakyMachine stopAt3 stopAt4 5 5 esStart).map (·.state.acc) = some (15/16) := by decide +kernel
  have h3 : (run leakyMachine stopAt4 5 esStart).map (·.state.acc) = some (9/16) := by decide +kernel
  rw [h2, h3] at h1
  exact absurd h1 (by decide +kernel)

/-- **stop-and-continue of the dimension-wise discipline ends where the single run ends** (all growing limits, all start
states, with or without reference) -/
theorem resume_scratch (L1 L2 : Limits) (hg : L1.grow L2) (f f1 f2 : Nat) (s0 : AccState)
    (r r1 : Result AccState) (hr : run scrMachine L2 f s0 = some r) (hr1 : run scrMachine L1 f1 s0 = some r1)
    (hf2 : r.refines < f2 + r1.refines) :
    ∃ r2, resume scrMachine L1 L2 f1 f2 s0 = some r2 ∧ r2.state = r.state ∧ r2.last.err = r.last.err ∧
      r2.last.pts = r.last.pts ∧ r1.refines + r2.refines = r.refines := by
  obtain ⟨i, _, _, _, hrr1⟩ := (loop_eq_some_iff scrMachine L1 f1 s0 Hist.empty 0 r1).1 hr1
  have hre : scrMachine.eval r1.state = (r1.state, r1.last) := by
    rw [hrr1]
    exact scratch_reentrant (iter scrMachine s0 i)
  obtain ⟨r2, h1, h2, h3, h4, h5, _⟩ := resume_eq_single scrMachine L1 L2 hg f f1 f2 s0 r r1 hr hr1 hre hf2
  exact ⟨r2, h1, h2, h3, h4, h5⟩

/-- the former witness of the defect (no reference, same tolerance, larger maximum): error = total indicator -/
def dwStart : AccState := ⟨0, [1/2, 1/4], 0, [0, 0], [(0, [1/4, 1/8]), (0, [1/8, 1/16])], none⟩

def tolSmallMax : Limits := ⟨5/8, 1, some 10⟩
def tolLargeMax : Limits := ⟨5/8, 1, some 20⟩

/-! ### non-vacuity -/

/-- the same script with a reference: the from-scratch discipline resumes correctly (instance of `resume_sim`) -/
def dwStartRef : AccState := { dwStart with ref := some 1 }

example : (run scrMachine stopAt4 5 dwStartRef).map (fun r => (r.state.acc, r.state.areas, r.last.err, r.hist.pts)) =
    some (9/16, [1/4, 1/8, 1/8, 1/16], 7/16, [2, 3, 4]) := by decide +kernel
example : (resume scrMachine stopAt3 stopAt4 5 5 dwStartRef).map
    (fun r => (r.state.acc, r.state.areas, r.last.err, r.hist.pts)) =
    some (9/16, [1/4, 1/8, 1/8, 1/16], 7/16, [2, 3, 3, 4]) := by decide +kernel
-- the former defect witness: the run stopped by tolerance stays stopped when continued with a larger maximum
example : (run scrMachine tolLargeMax 5 dwStart).map (fun r => (r.refines, r.state.areas.length, r.last.err)) =
    some (1, 3, 5/8) := by decide +kernel
example : (resume scrMachine tolSmallMax tolLargeMax 5 5 dwStart).map (fun r => (r.refines, r.state.areas.length, r.last.err)) =
    some (0, 3, 5/8) := by decide +kernel
example : tolSmallMax.grow tolLargeMax := ⟨by decide +kernel, by decide, by show (10 : Int) ≤ 20; decide⟩
-- the extend–split witness: single run and stop+continue now agree (9/16, same areas), arrays differ by the doubled entry
example : (run incMachine stopAt4 5 esStart).map (fun r => (r.state.acc, r.state.areas, r.hist.pts)) =
    some (9/16, [1/4, 1/8, 1/8, 1/16], [2, 3, 4]) := by decide +kernel
example : (resume incMachine stopAt3 stopAt4 5 5 esStart).map (fun r => (r.state.acc, r.state.areas, r.hist.pts)) =
    some (9/16, [1/4, 1/8, 1/8, 1/16], [2, 3, 3, 4]) := by decide +kernel
example : stopAt3.grow stopAt4 := ⟨by decide +kernel, by decide, by show (2 : Int) ≤ 3; decide⟩
-- a strictly re-entrant machine (hypothesis of `resume_eq_single`): the replay of a recorded stream
example : (streamMachine ⟨0, 0, 0⟩).eval [⟨1/2, 5, 1⟩, ⟨1/4, 9, 1/2⟩] = ([⟨1/2, 5, 1⟩, ⟨1/4, 9, 1/2⟩], ⟨1/2, 5, 1⟩) := rfl
example : (⟨1/4, 1, some 4⟩ : Limits).grow ⟨1/8, 2, some 20⟩ :=
  ⟨by decide +kernel, by decide, by show (4 : Int) ≤ 20; decide⟩

end SparseSpace.C14
