import SparseSpace.Lemmas.UQ
/-!
# C15 — the weighted UQ quadrature is a probability measure; moments transform correctly

Theorems about `Model/UQ` (mirror of `GlobalTrapezoidalGridWeighted.compute_weights / get_middle_weighted`,
`UncertaintyQuantification.moments_to_expectation_variance / calculate_expectation_and_variance /
_prepare_distributions`), for every grid (any number of points, finite or infinite end points), every
distribution (it enters through its interval moments `m0`, `m1` resp. through `cdf`, `ppf`) and every finite
quadrature rule (weights of either sign).

Two clauses of the property are FALSE of the unchanged code; the model mirrors the code and the
counterexamples are proved below (`finite_box_mass_counterexample`, `shared_spec_counterexample`).
-/
namespace SparseSpace.C15
open SparseSpace SparseSpace.UQ

/-! ## weights -/

/-- **sum of the weights**: whatever the first moments are (exact or not), and for finite and infinite end
intervals alike, the un-clipped weights sum to the probability mass of the grid's range,
`Σ m0 = cdf(x_n) − cdf(x_0)`.  They sum to 1 iff that mass is 1. -/
theorem w_sum (x0 : Ext) (segs : List Seg) :
    (rawWeights x0 segs).sum = (segs.map (·.m0)).sum := by
  unfold rawWeights
  rw [accW_sum]
  ring

example : (rawWeights .ninf [⟨.fin (-1), 1/4, -1/2⟩, ⟨.fin 1, 1/2, 1/8⟩, ⟨.pinf, 1/4, 1/2⟩]).sum = 1 := by
  rw [w_sum]; norm_num

/-- **non-negativity**: if on every finite interval the mean lies in the interval (`x1·m0 ≤ m1 ≤ x2·m0`,
`x1 < x2`) and the mass of the infinite end intervals is non-negative, every un-clipped weight is ≥ 0. -/
theorem w_nonneg (x0 : Ext) (segs : List Seg) (h : Bracket x0 segs) :
    ∀ w ∈ rawWeights x0 segs, 0 ≤ w :=
  accW_nonneg 0 (le_refl 0) x0 segs h

/-- with boundary points and under the bracketing hypothesis the code returns exactly the un-clipped weights:
no clipping, no assertion; they are ≥ 0 and sum to the mass -/
theorem weights_boundary (x0 : Ext) (segs : List Seg) (hne : segs ≠ []) (h : Bracket x0 segs) :
    computeWeights true x0 segs = .ok (rawWeights x0 segs) ∧
    (∀ w ∈ rawWeights x0 segs, 0 ≤ w) ∧
    (rawWeights x0 segs).sum = (segs.map (·.m0)).sum := by
  refine ⟨?_, w_nonneg x0 segs h, w_sum x0 segs⟩
  unfold computeWeights
  have hlen : segs.length + 1 ≠ 1 := by
    cases segs with
    | nil => exact absurd rfl hne
    | cons s ss => simp
  simp only [hlen, if_false, Bool.not_true, Bool.false_and, Bool.true_or, Bool.false_eq_true,
    clipAll_of_nonneg _ (w_nonneg x0 segs h), if_true]

/-- **probability measure, boundary = True**: bracketing + total mass 1 ⇒ weights ≥ 0 with sum 1 -/
theorem weights_probability_boundary (x0 : Ext) (segs : List Seg) (h : Bracket x0 segs)
    (hmass : (segs.map (·.m0)).sum = 1) :
    ∃ w, computeWeights true x0 segs = .ok w ∧ (∀ x ∈ w, 0 ≤ x) ∧ w.sum = 1 := by
  have hne : segs ≠ [] := by
    intro h0; subst h0; simp at hmass
  obtain ⟨h1, h2, h3⟩ := weights_boundary x0 segs hne h
  exact ⟨_, h1, h2, by rw [h3, hmass]⟩

example : Bracket (.fin 0) [⟨.fin (1/2), 1/2, 1/8⟩, ⟨.fin 1, 1/2, 3/8⟩] := by
  simp only [UQ.Bracket, SegOK]; norm_num

/-- whatever the moments are, a returned weight vector is non-negative (clipping) -/
theorem weights_nonneg_always (bd : Bool) (x0 : Ext) (segs : List Seg) (w : List Rat)
    (h : computeWeights bd x0 segs = .ok w) : ∀ x ∈ w, 0 ≤ x := by
  unfold computeWeights at h
  simp only at h
  split at h
  · injection h with h; subst h; intro x hx; simp at hx; subst hx; norm_num
  · split at h
    · injection h with h; subst h; intro x hx
      simp only [List.mem_cons, List.not_mem_nil, or_false] at hx
      rcases hx with rfl | rfl | rfl <;> norm_num
    · split at h
      · cases h
      · cases hc : clipAll (rawWeights x0 segs) with
        | error e => simp [hc] at h
        | ok w0 =>
          simp only [hc] at h
          have hw0 := clipAll_ok_nonneg _ _ hc
          split at h
          · injection h with h; subst h; exact hw0
          · exact (renorm_ok w0 w hw0 h).1

/-- **probability measure, boundary = False**: whatever the moments and the mass of the box are, a returned
weight vector is non-negative and sums to 1 (clipping + renormalisation) -/
theorem weights_probability_noboundary (x0 : Ext) (segs : List Seg) (w : List Rat)
    (h : computeWeights false x0 segs = .ok w) : (∀ x ∈ w, 0 ≤ x) ∧ w.sum = 1 := by
  refine ⟨weights_nonneg_always false x0 segs w h, ?_⟩
  unfold computeWeights at h
  simp only at h
  split at h
  · injection h with h; subst h; simp
  · split at h
    · injection h with h; subst h; simp
    · split at h
      · cases h
      · cases hc : clipAll (rawWeights x0 segs) with
        | error e => simp [hc] at h
        | ok w0 =>
          simp only [hc] at h
          exact (renorm_ok w0 w (clipAll_ok_nonneg _ _ hc) h).2

example : computeWeights false .ninf
    [⟨.fin (-1), 1/4, -1/2⟩, ⟨.fin 0, 1/4, -1/8⟩, ⟨.fin 1, 1/4, 1/8⟩, ⟨.pinf, 1/4, 1/2⟩]
    = .ok [0, 3/8, 1/4, 3/8, 0] := by
  simp [computeWeights, rawWeights, accW, w2, clipAll, clip, renorm, interior]
  norm_num

/-- **uniform distribution**: for EVERY strictly increasing grid in `[a,b]` the weighted weights computed
from the closed-form moments of `Uniform(a,b)` are the unweighted trapezoidal weights divided by `b − a` -/
theorem uniform_eq_trap (a b : Rat) (hab : a < b) (x0 : Rat) (xs : List Rat)
    (hinc : Incr x0 xs) (hlo : a ≤ x0) (hx0 : x0 ≤ b) (hhi : ∀ x ∈ xs, x ≤ b) :
    rawWeights (.fin x0) (uniSegs a b x0 xs) = (trapWeights x0 xs).map (· / (b - a)) := by
  unfold rawWeights trapWeights
  have := accW_uniform a b hab 0 x0 xs hinc hlo hx0 hhi
  simpa using this

example : Incr 0 [1/4, 1, 2] ∧ rawWeights (.fin 0) (uniSegs 0 2 0 [1/4, 1, 2]) = [1/16, 1/4, 7/16, 1/4] := by
  constructor
  · simp only [Incr]; norm_num
  · rw [uniform_eq_trap 0 2 (by norm_num) 0 _ (by simp only [Incr]; norm_num) (by norm_num) (by norm_num)
      (by intro x hx; simp at hx; rcases hx with rfl | rfl | rfl <;> norm_num)]
    simp [trapWeights, trapAcc]; norm_num

/-- … and with boundary points the code returns exactly these (no clipping fires): the full statement of the
uniform clause for `boundary=True` -/
theorem uniform_eq_trap_boundary (a b : Rat) (hab : a < b) (x0 : Rat) (xs : List Rat) (hne : xs ≠ [])
    (hinc : Incr x0 xs) (hlo : a ≤ x0) (hx0 : x0 ≤ b) (hhi : ∀ x ∈ xs, x ≤ b) :
    computeWeights true (.fin x0) (uniSegs a b x0 xs) = .ok ((trapWeights x0 xs).map (· / (b - a))) := by
  have hL : 0 < b - a := by linarith
  have hraw := uniform_eq_trap a b hab x0 xs hinc hlo hx0 hhi
  have hnn : ∀ v ∈ rawWeights (.fin x0) (uniSegs a b x0 xs), 0 ≤ v := by
    rw [hraw]
    intro v hv
    simp only [List.mem_map] at hv
    obtain ⟨t, ht, rfl⟩ := hv
    exact div_nonneg (trapAcc_nonneg 0 (le_refl 0) x0 xs hinc t ht) (le_of_lt hL)
  unfold computeWeights
  have h1 : ¬ ((uniSegs a b x0 xs).length + 1 = 1) := by
    rw [uniSegs_length]
    cases xs with
    | nil => exact absurd rfl hne
    | cons x xs => simp
  have hclip := clipAll_of_nonneg _ hnn
  simp only [h1, if_false, Bool.not_true, Bool.false_and, Bool.true_or, Bool.false_eq_true, hclip, if_true]
  rw [hraw]

/-- boundary = False, uniform distribution: a returned weight vector is the unweighted trapezoidal rule's
interior weights normalised to sum 1 (boundary weights removed) -/
theorem uniform_eq_trap_noboundary (a b : Rat) (hab : a < b) (x0 : Rat) (xs : List Rat) (hn : 3 ≤ xs.length)
    (hinc : Incr x0 xs) (hlo : a ≤ x0) (hx0 : x0 ≤ b) (hhi : ∀ x ∈ xs, x ≤ b) (w : List Rat)
    (h : computeWeights false (.fin x0) (uniSegs a b x0 xs) = .ok w) :
    w = 0 :: (interior (trapWeights x0 xs)).map (· / (interior (trapWeights x0 xs)).sum) ++ [0] := by
  have hL : 0 < b - a := by linarith
  have hraw : rawWeights (.fin x0) (uniSegs a b x0 xs) = (trapWeights x0 xs).map (· / (b - a)) := by
    unfold rawWeights trapWeights
    have := accW_uniform a b hab 0 x0 xs hinc hlo hx0 hhi
    simpa using this
  have hnn : ∀ v ∈ rawWeights (.fin x0) (uniSegs a b x0 xs), 0 ≤ v := by
    rw [hraw]
    intro v hv
    simp only [List.mem_map] at hv
    obtain ⟨t, ht, rfl⟩ := hv
    exact div_nonneg (trapAcc_nonneg 0 (le_refl 0) x0 xs hinc t ht) (le_of_lt hL)
  unfold computeWeights at h
  simp only [uniSegs_length] at h
  have h1 : ¬ (xs.length + 1 = 1) := by omega
  have h3 : ¬ (xs.length + 1 = 3) := by omega
  have h4 : xs.length + 1 > 3 := by omega
  simp only [h1, h3, h4, if_false, Bool.not_false, decide_false, Bool.and_false, Bool.false_eq_true,
    decide_true, Bool.or_true, Bool.not_true, clipAll_of_nonneg _ hnn] at h
  unfold renorm at h
  simp only at h
  split at h
  · cases h
  · rename_i hs
    injection h with h
    rw [← h, hraw, interior_map, sum_map_div] at *
    have hs' : (interior (trapWeights x0 xs)).sum ≠ 0 := by
      intro h0; apply hs; rw [h0]; simp
    congr 1
    congr 1
    rw [List.map_map]
    apply List.map_congr_left
    intro v _
    simp only [Function.comp]
    field_simp


example : computeWeights false (.fin 0) (uniSegs 0 2 0 [1/4, 1, 3/2, 2]) = .ok [0, 4/13, 5/13, 4/13, 0] := by
  simp [computeWeights, rawWeights, uniSegs, accW, w2, uniM0, uniM1, clamp, clipAll, clip, renorm, interior]
  norm_num

/-! ## weighted midpoint -/

/-- **strictly inside**: for every interval `a < b` other than `(-inf, inf)` the returned midpoint lies strictly
inside, whatever `cdf` and `ppf` do (the code's fallbacks); on `(-inf, inf)` it does iff `ppf` returns a
finite value. -/
theorem mid_inside (cdf : Ext → Rat) (ppf : Rat → Ext) (a b : Ext) (hab : a.lt b = true)
    (hfull : a = .ninf → b = .pinf → ∃ q, ppf (cdfMid cdf a b) = .fin q) :
    ∃ m, middleWeighted cdf ppf a b = some m ∧ inside a m b = true := by
  unfold middleWeighted
  simp only
  by_cases hin : inside a (ppf (cdfMid cdf a b)) b = true
  · exact ⟨_, by simp [hin], hin⟩
  · simp only [hin]
    have hpos := eps14_pos
    cases a <;> cases b <;> simp [Ext.lt] at hab
    · -- (-inf, y)
      rename_i y
      refine ⟨.fin (y + -eps14), by simp [Ext.half, insideO, inside, Ext.lt, Ext.isInf, Ext.addRat], ?_⟩
      simp [inside, Ext.lt]; linarith
    · -- (-inf, inf)
      obtain ⟨q, hq⟩ := hfull rfl rfl
      rw [hq] at hin
      simp [inside, Ext.lt] at hin
    · -- (x, y)
      rename_i x y
      have h1 : x < (x + y) / 2 := by linarith
      have h2 : (x + y) / 2 < y := by linarith
      refine ⟨.fin ((x + y) / 2), by simp [Ext.half, insideO, inside, Ext.lt, h1, h2], ?_⟩
      simp [inside, Ext.lt, h1, h2]
    · -- (x, inf)
      rename_i x
      refine ⟨.fin (x + eps14), by simp [Ext.half, insideO, inside, Ext.lt, Ext.isInf, Ext.addRat], ?_⟩
      simp [inside, Ext.lt]; linarith

/-- **equal probability**: if `cdf` is monotone, `cdf a < cdf b` and `ppf` inverts `cdf` at the target value
`c = (cdf a + cdf b)/2` (`cdf (ppf c) = c`), the returned midpoint is `ppf c`, lies strictly inside and splits
the probability of `[a,b]` into two equal parts. -/
theorem mid_halves (cdf : Ext → Rat) (ppf : Rat → Ext) (a b : Ext)
    (hmono : ∀ x y, x.lt y = true → cdf x ≤ cdf y) (hlt : cdf a < cdf b)
    (hinv : cdf (ppf (cdfMid cdf a b)) = cdfMid cdf a b) :
    ∃ m, middleWeighted cdf ppf a b = some m ∧ inside a m b = true ∧
      cdf m - cdf a = cdf b - cdf m := by
  have hc : cdfMid cdf a b = (cdf a + cdf b) / 2 := rfl
  have hin : inside a (ppf (cdfMid cdf a b)) b = true := by
    unfold inside
    rw [Bool.and_eq_true]
    constructor
    · rcases Ext.lt_total a (ppf (cdfMid cdf a b)) with h | h | h
      · exact h
      · exfalso; rw [← h] at hinv; rw [hc] at hinv; linarith
      · exfalso; have := hmono _ _ h; rw [hinv, hc] at this; linarith
    · rcases Ext.lt_total (ppf (cdfMid cdf a b)) b with h | h | h
      · exact h
      · exfalso; rw [h] at hinv; rw [hc] at hinv; linarith
      · exfalso; have := hmono _ _ h; rw [hinv, hc] at this; linarith
  refine ⟨ppf (cdfMid cdf a b), ?_, hin, ?_⟩
  · unfold middleWeighted; simp [hin]
  · rw [hinv, hc]; ring

/-- non-vacuity: `Uniform(0,4)` restricted to the interval (1,3): cdf x = clamp(x)/4, ppf c = 4c -/
example : ∃ m, middleWeighted (fun x => match x with | .fin q => max 0 (min q 4) / 4 | .ninf => 0 | .pinf => 1)
    (fun c => .fin (4 * c)) (.fin 1) (.fin 3) = some m ∧ inside (.fin 1) m (.fin 3) = true := by
  refine ⟨.fin 2, ?_, ?_⟩
  · simp [middleWeighted, cdfMid, inside, Ext.lt]; norm_num
  · simp [inside, Ext.lt]; norm_num

/-! ## expectation and variance -/

/-- **affine law** for ANY finite rule whose weights sum to 1 — weights of either sign, e.g. the combined rule
of the combination technique — including the code's sign flip of negative variances:
`E[c f + e] = c E[f] + e`, `Var[c f + e] = c² Var[f]` -/
theorem affine_moments (c e : Rat) (r : Rule) (hs : wsum r = 1) :
    E (affine c e r) = c * E r + e ∧ Var (affine c e r) = c * c * Var r := by
  have hE : E (affine c e r) = c * E r + e := by rw [E_affine, hs]; ring
  refine ⟨hE, ?_⟩
  unfold Var
  rw [hE, E2_affine, hs, ← flipNeg_mul_sq]
  congr 1
  ring

/-- the same for a rule of total mass `S` (what happens when the weights do not sum to 1) -/
theorem affine_moments_mass (c e : Rat) (r : Rule) :
    E (affine c e r) = c * E r + e * wsum r ∧
    E2 (affine c e r) - E (affine c e r) * E (affine c e r) =
      c * c * (E2 r - E r * E r) + (1 - wsum r) * (2 * c * e * E r + e * e * wsum r) := by
  refine ⟨E_affine c e r, ?_⟩
  rw [E_affine, E2_affine]
  ring

/-- **constant model**: expectation = the constant, variance = 0 -/
theorem const_moments (k : Rat) (r : Rule) (hs : wsum r = 1) :
    E (constRule k r) = k ∧ Var (constRule k r) = 0 := by
  have hE : E (constRule k r) = k := by rw [E_const, hs]; ring
  refine ⟨hE, ?_⟩
  unfold Var
  rw [hE, E2_const, hs]
  have : k * k * 1 - k * k = 0 := by ring
  rw [this]
  simp [flipNeg]

/-- **variance is never negative** as reported — a theorem of the sign flip alone, for every rule -/
theorem var_nonneg (r : Rule) : 0 ≤ Var r := flipNeg_nonneg _

/-- with non-negative weights of sum 1 the un-flipped `E[f²] − E[f]²` is itself ≥ 0 (the flip never fires and
the reported number is the variance of a genuine discrete probability measure) -/
theorem var_eq_raw_of_nonneg_weights (r : Rule) (hw : ∀ p ∈ r, 0 ≤ p.1) (hs : wsum r = 1) :
    0 ≤ E2 r - E r * E r ∧ Var r = E2 r - E r * E r := by
  have h := rawVar_nonneg r hw hs
  refine ⟨h, ?_⟩
  unfold Var flipNeg
  simp [not_lt.mpr h]

/-- with weights of both signs (combination technique) the un-flipped value can be negative; the code then
reports its absolute value: rule `W = [1,-1,1]`, `f = [0,1,0]` has `ΣW = 1`, `E[f²] − E[f]² = −2`, reported `2` -/
theorem flip_fires_witness :
    wsum [(1, 0), (-1, 1), (1, 0)] = 1 ∧
    E2 [(1, 0), (-1, 1), (1, 0)] - E [(1, 0), (-1, 1), (1, 0)] * E [(1, 0), (-1, 1), (1, 0)] = -2 ∧
    Var [(1, 0), (-1, 1), (1, 0)] = 2 := by
  refine ⟨by simp [wsum], by simp [E, E2]; norm_num, ?_⟩
  simp [Var, E, E2, flipNeg]; norm_num

example : wsum [(3/2, 1), (-1/2, 5)] = 1 ∧ E (affine 3 (-1) [(3/2, 1), (-1/2, 5)]) = 3 * E [(3/2, 1), (-1/2, 5)] + -1 := by
  constructor
  · simp [wsum]; norm_num
  · exact (affine_moments 3 (-1) _ (by simp [wsum]; norm_num)).1

/-- **bookkeeping of `calculate_expectation_and_variance`**: the split of the integral vector of `[f, f²]` at
`len // 2` and `moments_to_expectation_variance` return, per output component, `E` and the flipped `Var` -/
theorem calc_exp_var (W : List Rat) (cols : List (List Rat)) :
    calcExpVar (integralVec W cols) =
      (cols.map (fun c => E (W.zip c)), cols.map (fun c => Var (W.zip c))) :=
  calcExpVar_integralVec W cols

example : calcExpVar (integralVec [1/2, 1/2] [[0, 1], [1, 4], [5, 5]]) = ([1/2, 5/2, 5], [1/4, 9/4, 0]) := by
  rw [calc_exp_var]
  simp [E, Var, E2, flipNeg]; norm_num

/-! ## the combined rule -/

/-- tensor product of 1-D rules: the weights sum to the product of the 1-D sums -/
theorem tensor_sum (ws : List (List Rat)) : (tensorW ws).sum = (ws.map List.sum).prod := tensorW_sum ws

/-- **the combined rule has total weight 1**: 1-D weights of sum 1 in every dimension of every component grid
and combination coefficients of sum 1 (C01 `coeff_total`) give `ΣW = 1` — although single weights are negative -/
theorem combined_sum_one (comps : List (Rat × List (List Rat)))
    (h1 : ∀ p ∈ comps, ∀ w ∈ p.2, w.sum = 1) (hc : (comps.map (·.1)).sum = 1) :
    (combineW (comps.map fun p => (p.1, tensorW p.2))).sum = 1 := by
  rw [combineW_sum, List.map_map]
  have : (comps.map ((fun p : Rat × List Rat => p.1 * p.2.sum) ∘ fun p => (p.1, tensorW p.2)))
      = comps.map (·.1) := by
    apply List.map_congr_left
    intro p hp
    simp only [Function.comp]
    rw [tensor_sum]
    have hprod : (p.2.map List.sum).prod = 1 := by
      apply List.prod_eq_one
      intro x hx
      simp only [List.mem_map] at hx
      obtain ⟨w, hw, rfl⟩ := hx
      exact h1 p hp w hw
    rw [hprod]; ring
  rw [this, hc]

/-- hence the moment laws hold for the combined rule applied to any model values `f` (one per node) -/
theorem combined_affine (comps : List (Rat × List (List Rat))) (f : List Rat) (c e k : Rat)
    (h1 : ∀ p ∈ comps, ∀ w ∈ p.2, w.sum = 1) (hc : (comps.map (·.1)).sum = 1)
    (hlen : (combineW (comps.map fun p => (p.1, tensorW p.2))).length = f.length) :
    let r := (combineW (comps.map fun p => (p.1, tensorW p.2))).zip f
    E (affine c e r) = c * E r + e ∧ Var (affine c e r) = c * c * Var r ∧
    E (constRule k r) = k ∧ Var (constRule k r) = 0 := by
  intro r
  have hs : wsum r = 1 := by
    rw [wsum_zip _ _ hlen]; exact combined_sum_one comps h1 hc
  exact ⟨(affine_moments c e r hs).1, (affine_moments c e r hs).2, (const_moments k r hs).1, (const_moments k r hs).2⟩

/-- non-vacuity: scheme (1,2):+1, (2,1):+1, (1,1):−1 with 1-D rules of sum 1; the combined weights contain −1/4… -/
example : combineW ([((1 : Rat), [[(1/2 : Rat), 1/2], [1/4, 1/2, 1/4]]), (1, [[1/4, 1/2, 1/4], [1/2, 1/2]]),
    (-1, [[1/2, 1/2], [1/2, 1/2]])].map fun p => (p.1, tensorW p.2))
    = [1/8, 1/4, 1/8, 1/8, 1/4, 1/8, 1/8, 1/8, 1/4, 1/4, 1/8, 1/8, -1/4, -1/4, -1/4, -1/4] := by
  simp [combineW, tensorW]; norm_num

/-! ## the two clauses that are false of the unchanged code -/

/-- **finding 1 (mass of a finite box)**: for a distribution whose support is larger than the box `[a,b]`
(`("Normal", μ, σ)` with finite `a`, `b`) and `boundary=True` nothing normalises the weights: bracketing holds,
the code returns the weights, and they sum to the mass of the box — here `3/4`, not 1.  Consequently a
constant model `k` gets expectation `3k/4` and variance `3k²/16`. -/
theorem finite_box_mass_counterexample :
    Bracket (.fin 0) [⟨.fin 1, 1/4, 1/8⟩, ⟨.fin 2, 1/2, 3/4⟩] ∧
    computeWeights true (.fin 0) [⟨.fin 1, 1/4, 1/8⟩, ⟨.fin 2, 1/2, 3/4⟩] = .ok [1/8, 3/8, 1/4] ∧
    ([1/8, 3/8, 1/4] : List Rat).sum = 3/4 ∧
    E (constRule 2 [(1/8, 0), (3/8, 0), (1/4, 0)]) = 3/2 ∧
    Var (constRule 2 [(1/8, 0), (3/8, 0), (1/4, 0)]) = 3/4 := by
  refine ⟨by simp only [UQ.Bracket, SegOK]; norm_num, ?_, by norm_num, ?_, ?_⟩
  · simp [computeWeights, rawWeights, accW, w2, clipAll, clip]; norm_num
  · simp [constRule, E]; norm_num
  · simp [constRule, Var, E, E2, flipNeg]; norm_num

/-- **finding 2 (shared distribution object)**: `_prepare_distributions` keys the distribution objects by the
user's tuple only, so two `"Uniform"` dimensions with different domains share the object built for the first:
for `a = [0,1]`, `b = [2,3]` dimension 1 uses `Uniform(0,2)` on the grid `[1,2,3]`; the weights are
`[1/4,1/4,0]`, sum `1/2`, instead of the trapezoidal weights over the interval length `[1/4,1/2,1/4]`. -/
theorem shared_spec_counterexample :
    effDomains [.uniform, .uniform] [(0, 2), (1, 3)] = [some (0, 2), some (0, 2)] ∧
    rawWeights (.fin 1) (uniSegs 0 2 1 [2, 3]) = [1/4, 1/4, 0] ∧
    (trapWeights 1 [2, 3]).map (· / (3 - 1)) = [1/4, 1/2, 1/4] := by
  refine ⟨by simp [effDomains, reuseIdx, firstIdx], ?_, ?_⟩
  · simp [rawWeights, uniSegs, accW, w2, uniM0, uniM1, clamp]; norm_num
  · simp [trapWeights, trapAcc]; norm_num

/-- the proposed repair (`reuseIdxKeyed`: the domain is part of the dictionary key for Uniform/Triangle): every
dimension then uses an object of its own spec and, for the bounded families, built for its own domain -/
theorem keyed_reuse_own_domain (dims : List (Spec × (Rat × Rat))) (d : Nat) (hd : d < dims.length) :
    ∃ i p, (reuseIdxKeyed dims)[d]? = some i ∧ dims[i]? = some p ∧ p.1 = (dims[d]).1 ∧
      ((∀ mu sg, p.1 ≠ .normal mu sg) → p.2 = (dims[d]).2) := by
  unfold reuseIdxKeyed
  simp only
  have hk : (dims.map (fun p => keyOf p.1 p.2))[d]? = some (keyOf (dims[d]).1 (dims[d]).2) := by
    simp [List.getElem?_map, List.getElem?_eq_getElem hd]
  have hget := firstIdx_get _ _ (List.mem_of_getElem? hk)
  rw [List.getElem?_map] at hget
  cases hp : dims[firstIdx (keyOf (dims[d]).1 (dims[d]).2) (dims.map fun p => keyOf p.1 p.2)]? with
  | none => rw [hp] at hget; simp at hget
  | some p =>
    rw [hp] at hget
    simp only [Option.map_some, Option.some.injEq] at hget
    obtain ⟨h1, h2⟩ := keyOf_eq _ _ _ _ hget
    exact ⟨_, p, by rw [List.getElem?_map, hk]; rfl, hp, h1, h2⟩

example : reuseIdx [.uniform, .uniform] = [0, 0] ∧ reuseIdxKeyed [(.uniform, (0, 2)), (.uniform, (1, 3))] = [0, 1] := by
  constructor <;> simp [reuseIdx, reuseIdxKeyed, firstIdx, keyOf]

end SparseSpace.C15
