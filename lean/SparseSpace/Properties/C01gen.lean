import SparseSpace.Lemmas.CombiGenMain
import SparseSpace.Properties.C01
/-!
# C01, translator tie — the definitions GENERATED from `sparseSpACE/combiScheme.py` satisfy C01

`Generated/CombiGen.lean` is produced by `tools/py2lean` from the Python source on every run of the check.
Part A: every generated definition agrees with the hand-written model `Model/Combi` for all inputs
(`toCS` reads a hand-model state out of the generated state record, `withCS` writes one back; Python `int`
dimensions are `Int`, the hand model uses `Nat`).  Part B: the C01 theorems, stated for the generated definitions.
-/
namespace SparseSpace.C01gen
open SparseSpace SparseSpace.PyRt

/-! ## Part A — generated definition = hand model, for all inputs -/

/-- `CombiScheme.getGrids` (the generated fuel recursion never runs out of fuel: `gen_getGrids_fuel_irrelevant`) -/
theorem getGrids_agrees (dim_left values_left : Int) :
    Gen.getGrids dim_left values_left = SparseSpace.getGrids dim_left.toNat values_left := gen_getGrids _ _

theorem getGrids_fuel_irrelevant (fuel : Nat) (d v : Int) (h : d.toNat ≤ fuel) :
    Gen.getGrids.fuel fuel d v = Gen.getGrids d v := gen_getGrids_fuel_irrelevant fuel d v h

theorem init_active_agrees (lmax lmin dim : Int) :
    Gen.init_active_index_set lmax lmin dim = initActive lmax lmin dim.toNat := gen_init_active _ _ _

theorem init_old_agrees (lmax lmin dim : Int) :
    Gen.init_old_index_set lmax lmin dim = initOld lmax lmin dim.toNat := gen_init_old _ _ _

/-- `init_adaptive_combi_scheme` on any object: the hand model's `CS.init`, the flag set, `dim` untouched -/
theorem init_adaptive_agrees (g : Gen.CombiScheme) (lmax lmin : Int) :
    toCS (Gen.init_adaptive_combi_scheme g lmax lmin) = CS.init g.dim.toNat lmax lmin ∧
    (Gen.init_adaptive_combi_scheme g lmax lmin).initialized_adaptive = true ∧
    (Gen.init_adaptive_combi_scheme g lmax lmin).dim = g.dim := by
  exact ⟨toCS_init_adaptive g lmax lmin, by rw [gen_init_adaptive], by rw [gen_init_adaptive]; rfl⟩

theorem is_refinable_agrees (g : Gen.CombiScheme) (lv : LV) :
    Gen.is_refinable g lv = (toCS g).active.contains lv := rfl

/-- `__refine_scheme(d, levelvec)` for a loop index `d = 0, 1, 2, …` (any state, any vector) -/
theorem refine_scheme_agrees (g : Gen.CombiScheme) (d : Nat) (lv : LV) :
    Gen.__refine_scheme g (Int.ofNat d) lv
      = (withCS g ((toCS g).refineScheme d lv).1, ((toCS g).refineScheme d lv).2) := gen_refine_scheme g d lv

/-- `update_adaptive_combi(levelvec)`: new state AND return value, for every state and every vector -/
theorem update_agrees (g : Gen.CombiScheme) (lv : LV) :
    Gen.update_adaptive_combi g lv
      = (withCS g ((toCS g).update lv).1, ((toCS g).update lv).2.map (·.map Int.ofNat)) := gen_update g lv

theorem update_state_agrees (g : Gen.CombiScheme) (lv : LV) :
    toCS (Gen.update_adaptive_combi g lv).1 = ((toCS g).update lv).1 := toCS_update g lv

/-- `get_coefficients_to_index_set(index_set)`; hypothesis: the vectors of the index set have `dim` entries -/
theorem coefficients_agree (g : Gen.CombiScheme) (idx : List LV) (h : ∀ l ∈ idx, l.length = g.dim.toNat) :
    Gen.get_coefficients_to_index_set g idx = (coeffsOf g.lmin idx).map mkCGI := gen_coefficients g idx h

/-- adaptive branch of `getCombiScheme`: the code passes `active | old` (the hand model's `CS.coeffs` uses
`old | active`, the same set in another order — see `scheme_perm_hand_model`) -/
theorem getCombiScheme_adaptive_agrees (g : Gen.CombiScheme) (lmin lmax : Int) (p : Bool) (hi : g.initialized_adaptive = true)
    (h : ∀ l ∈ setUnion g.active_index_set g.old_index_set, l.length = g.dim.toNat) :
    Gen.getCombiScheme g lmin lmax p = (coeffsOf g.lmin (setUnion g.active_index_set g.old_index_set)).map mkCGI :=
  gen_getCombiScheme_adaptive g lmin lmax p hi h

/-- closed-form branch of `getCombiScheme`: Python's float quotient is the exact integer of the hand model -/
theorem getCombiScheme_std_agrees (g : Gen.CombiScheme) (lmin lmax : Int) (p : Bool) (hi : g.initialized_adaptive = false) :
    Gen.getCombiScheme g lmin lmax p = (stdScheme g.dim.toNat lmin lmax).map mkCGI :=
  gen_getCombiScheme_std g lmin lmax p hi

theorem scheme_perm_hand_model (g : Gen.CombiScheme) (h : SchemeInv (toCS g)) :
    (coeffsOf g.lmin (setUnion g.active_index_set g.old_index_set)).Perm (toCS g).coeffs := genScheme_perm (toCS g) h

theorem get_index_set_agrees (g : Gen.CombiScheme) : Gen.get_index_set g = (toCS g).indexSet := rfl

theorem in_index_set_agrees (g : Gen.CombiScheme) (lv : LV) :
    Gen.in_index_set g lv = ((toCS g).active.contains lv || (toCS g).old.contains lv) := rfl

theorem is_old_index_agrees (g : Gen.CombiScheme) (lv : LV) : Gen.is_old_index g lv = (toCS g).old.contains lv := rfl

theorem has_forward_neighbour_agrees (g : Gen.CombiScheme) (lv : LV) :
    Gen.has_forward_neighbour g lv = (List.range g.dim.toNat).any fun k =>
      g.active_index_set.contains (bump lv k 1) || g.old_index_set.contains (bump lv k 1) := gen_has_forward_neighbour g lv

/-- a whole history of generated updates is the hand model's `runOps` -/
theorem history_agrees (g : Gen.CombiScheme) (ops : List LV) : toCS (genRun g ops) = runOps (toCS g) ops :=
  toCS_genRun ops g

/-! non-vacuity of Part A: the hypotheses are met and both sides are non-trivial -/
example : Gen.getGrids 3 3 = [[1, 1, 3], [1, 2, 2], [1, 3, 1], [2, 1, 2], [2, 2, 1], [3, 1, 1]] := by decide
example : (Gen.update_adaptive_combi (genInit 2 3 1) [1, 3]).2 = some [1] := by decide
example : (Gen.update_adaptive_combi (genInit 2 3 1) [1, 3]).1.active_index_set = [[2, 2], [3, 1], [1, 4]] := by decide
example : ∀ l ∈ setUnion (genInit 2 3 1).active_index_set (genInit 2 3 1).old_index_set,
    l.length = (genInit 2 3 1).dim.toNat := by decide
example : (Gen.get_coefficients_to_index_set (genInit 2 3 1) [[1, 1], [1, 2], [2, 1]]).map (·.levelvector)
    = [[1, 1], [1, 2], [2, 1]] := by decide

/-! ## Part B — the C01 theorems for the generated definitions -/

/-- initialisation establishes the invariant -/
theorem gen_inv_init (dim lmin lmax : Int) (hd : 1 ≤ dim) (h0 : 0 ≤ lmin) (h : lmin ≤ lmax) :
    SchemeInv (toCS (genInit dim lmax lmin)) := by
  rw [toCS_genInit]
  exact C01.inv_init dim.toNat lmin lmax (by omega) h0 h

/-- one generated update on an arbitrary vector keeps it -/
theorem gen_inv_update (g : Gen.CombiScheme) (lv : LV) (h : SchemeInv (toCS g)) :
    SchemeInv (toCS (Gen.update_adaptive_combi g lv).1) := by
  rw [toCS_update]; exact C01.inv_update _ lv h

/-- every state reachable by generated updates satisfies the invariant -/
theorem gen_inv_reachable (dim lmin lmax : Int) (hd : 1 ≤ dim) (h0 : 0 ≤ lmin) (h : lmin ≤ lmax) (ops : List LV) :
    SchemeInv (toCS (genRun (genInit dim lmax lmin) ops)) := by
  rw [toCS_genRun, toCS_genInit]
  exact C01.inv_reachable dim.toNat lmin lmax (by omega) h0 h ops

/-- a request on a vector that is not active changes nothing and returns `None` -/
theorem gen_update_not_refinable (g : Gen.CombiScheme) (lv : LV) (h : lv ∉ g.active_index_set) :
    Gen.update_adaptive_combi g lv = (g, none) := by
  rw [gen_update, C01.update_not_refinable (toCS g) lv h]; rfl

/-- old and active are disjoint, no active index has a forward neighbour, the index set is downward closed -/
theorem gen_index_set_clauses (g : Gen.CombiScheme) (h : SchemeInv (toCS g)) :
    (∀ l ∈ g.active_index_set, l ∉ g.old_index_set) ∧
    (∀ l ∈ g.active_index_set, ∀ d < g.dim.toNat, bump l d 1 ∉ g.old_index_set ++ g.active_index_set) ∧
    (∀ l t : LV, l ∈ g.old_index_set ++ g.active_index_set → t.length = g.dim.toNat → geAll g.lmin t → leAll t l = true →
      t ∈ g.old_index_set ++ g.active_index_set) :=
  ⟨h.disjoint, h.noFwd, fun l t hl ht hmin hle => C01.downward_closed (toCS g) h l t hl ht hmin hle⟩

/-- **inclusion–exclusion identity for the generated `getCombiScheme`** -/
theorem gen_coeff_identity (g : Gen.CombiScheme) (hi : g.initialized_adaptive = true) (h : SchemeInv (toCS g))
    (lmin lmax : Int) (p : Bool) (t : LV) (ht : t.length = g.dim.toNat) (hmin : geAll g.lmin t) :
    domSumQ (Gen.getCombiScheme g lmin lmax p) t = if t ∈ g.old_index_set ++ g.active_index_set then 1 else 0 := by
  rw [gen_scheme_of_inv g lmin lmax p hi h, domSumQ_map_mkCGI, domSum_perm _ _ (scheme_perm_hand_model g h),
    C01.coeff_identity (toCS g) h t ht hmin]
  show ((if t ∈ g.old_index_set ++ g.active_index_set then (1 : Int) else 0 : Int) : Rat) = _
  split <;> simp

/-- returned grids lie in the index set, have non-zero coefficient and are returned once -/
theorem gen_coeff_support (g : Gen.CombiScheme) (hi : g.initialized_adaptive = true) (h : SchemeInv (toCS g))
    (lmin lmax : Int) (p : Bool) :
    (∀ c ∈ Gen.getCombiScheme g lmin lmax p, c.levelvector ∈ g.old_index_set ++ g.active_index_set ∧ c.coefficient ≠ 0) ∧
    ((Gen.getCombiScheme g lmin lmax p).map (·.levelvector)).Nodup := by
  rw [gen_scheme_of_inv g lmin lmax p hi h]
  have hperm := scheme_perm_hand_model g h
  have hs := C01.coeff_support (toCS g) h
  constructor
  · intro c hc
    obtain ⟨q, hq, rfl⟩ := List.mem_map.mp hc
    have := hs.1 q (hperm.mem_iff.mp hq)
    refine ⟨this.1, ?_⟩
    simp only [mkCGI]
    exact_mod_cast this.2
  · rw [List.map_map]
    have : ((fun c : ComponentGridInfo => c.levelvector) ∘ mkCGI) = fun q : LV × Int => q.1 := rfl
    rw [this]
    exact (hperm.map _).nodup_iff.mpr hs.2

/-- the returned coefficients sum to 1 -/
theorem gen_coeff_total (g : Gen.CombiScheme) (hi : g.initialized_adaptive = true) (h : SchemeInv (toCS g))
    (lmin lmax : Int) (p : Bool) : ((Gen.getCombiScheme g lmin lmax p).map (·.coefficient)).sum = 1 := by
  rw [gen_scheme_of_inv g lmin lmax p hi h, sum_map_mkCGI, ((scheme_perm_hand_model g h).map _).sum_eq,
    C01.coeff_total (toCS g) h]
  simp

/-- **all of the above for every history of generated calls**: construct, initialise, update arbitrarily, ask for
the scheme — the coefficients of the returned grids dominating `t` sum to `[t ∈ index set]` -/
theorem gen_reachable_scheme_valid (dim lmin lmax : Int) (hd : 1 ≤ dim) (h0 : 0 ≤ lmin) (h : lmin ≤ lmax)
    (ops : List LV) (l1 l2 : Int) (p : Bool) (t : LV) (ht : t.length = dim.toNat) (hmin : geAll lmin t) :
    let g := genRun (genInit dim lmax lmin) ops
    domSumQ (Gen.getCombiScheme g l1 l2 p) t = if t ∈ g.old_index_set ++ g.active_index_set then 1 else 0 := by
  intro g
  have hs : SchemeInv (toCS g) := gen_inv_reachable dim lmin lmax hd h0 h ops
  have hk := genRun_keeps ops (genInit dim lmax lmin)
  have hdim : g.dim = dim := hk.1.trans (genInit_dim _ _ _)
  have hflag : g.initialized_adaptive = true := hk.2.trans (genInit_flag _ _ _)
  have hlm : g.lmin = lmin := by
    have : (toCS g).lmin = lmin := by
      show (toCS (genRun (genInit dim lmax lmin) ops)).lmin = lmin
      rw [toCS_genRun, runOps_lmin, toCS_genInit]; rfl
    exact this
  exact gen_coeff_identity g hflag hs l1 l2 p t (by rw [hdim]; exact ht) (by rw [hlm]; exact hmin)

/-- **closed form = fresh adaptive scheme, on the generated definitions**: `getCombiScheme(lmin, lmax)` of an object
that was only constructed and `getCombiScheme()` after `init_adaptive_combi_scheme(lmax, lmin)` return the same
grids with the same coefficients (as multisets) -/
theorem gen_std_perm_init (dim lmin lmax : Int) (hd : 1 ≤ dim) (h0 : 0 ≤ lmin) (h : lmin ≤ lmax) (l1 l2 : Int) (p p' : Bool) :
    (Gen.getCombiScheme (Gen.__init__ dim) lmin lmax p).Perm (Gen.getCombiScheme (genInit dim lmax lmin) l1 l2 p') := by
  have hs := gen_inv_init dim lmin lmax hd h0 h
  rw [gen_getCombiScheme_std _ lmin lmax p rfl, gen_scheme_of_inv _ l1 l2 p' (genInit_flag _ _ _) hs]
  apply List.Perm.map
  have h1 := C01.std_perm_init dim.toNat lmin lmax (by omega) h0 h
  have h2 := scheme_perm_hand_model _ hs
  rw [toCS_genInit] at h2
  have e2 : (Gen.__init__ dim).dim = dim := rfl
  rw [e2]
  exact h1.trans h2.symm

/-! non-vacuity of Part B -/
example : SchemeInv (toCS (genRun (genInit 2 3 1) [[1, 3], [2, 2]])) :=
  gen_inv_reachable 2 1 3 (by decide) (by decide) (by decide) _
example : (genRun (genInit 2 3 1) [[1, 3], [2, 2]]).active_index_set = [[3, 1], [1, 4], [2, 3]] := by decide
example : domSumQ (Gen.getCombiScheme (genRun (genInit 2 3 1) [[1, 3], [2, 2]])) [1, 2] = 1 :=
  by
    have := gen_reachable_scheme_valid 2 1 3 (by decide) (by decide) (by decide) [[1, 3], [2, 2]] 1 2 true [1, 2] rfl
      (by simp [geAll])
    rw [this, if_pos (by decide)]
example : (Gen.getCombiScheme (Gen.__init__ 3) 1 3).length = 10 := by decide

end SparseSpace.C01gen
