import SparseSpace.Lemmas.RegressNU
import SparseSpace.Lemmas.RegressPsd
import SparseSpace.Lemmas.RegressConv
/-!
# C20 — regression solves the regularised least-squares problem on every component grid

Theorems about `Model/Regress` (mirror of `Regression` in `sparseSpACE/GridOperation.py`): for every dimension, level
vector / coordinate lists, data set, targets, regularisation value and matrix choice.

Clauses of the property and where they are carried:
* design matrix holds the basis values at the training points — `design_entry_uniform`, `design_entry_nonuniform`;
* smoothing matrix = Gram matrix of the basis gradients — `stiffness_mass_expressions(_nonuniform)`, `C_uniform_formula`,
  `C_uniform_eq_gram_partial` (FALSE in general for the code as it is: `C_uniform_anisotropic_counterexample`,
  `C_dimwise_entries` / `C_dimwise_touching_counterexample` / `C_dimwise_2d_counterexample`);
* symmetric — `C_uniform_symm` (all dimensions), `C_mirrored_symm` (both variants, by construction);
* positive semi-definite — `C_uniform_psd` (every dimension and level vector), `C_uniform_energy_1d` (1-D:
  `vᵀCv = ∫(u')²`); FALSE for the dimension-wise matrix: `C_dimwise_not_psd_counterexample`;
* surpluses satisfy the normal equations of the stated problem — `normal_equations_regularised`, `normal_equations_iff`,
  `normal_equations_identity`, `normal_equations_C_uniform`, `normal_equations_plain` (contract: `numpy.linalg.lstsq`
  returns an exact solution of the system the code assembles);
* every optimisation variant returns coefficients that sum to one — `opticom_sum_one`, `opticom_defined_iff`;
* data scaling at construction — `scaling_in_range`.
-/
namespace SparseSpace.C20
open SparseSpace.Regress

/-! ## design matrix -/

/-- `build_A_matrix`: one row per sample, one column per interior multi-index `1 ≤ i_d ≤ 2^{l_d}-1` (in
`itertools.product` order), entry = product over the dimensions of the nodal hat function of node `i_d·2^{-l_d}`. -/
theorem design_entry_uniform (lv : List Nat) (X : List (List ℚ)) :
    designU lv X = X.map (fun x => (indexList lv).map fun iv => hatSpecUd lv iv x)
    ∧ (∀ iv, iv ∈ indexList lv ↔
        List.Forall₂ (fun (i : Int) (l : Nat) => 1 ≤ i ∧ i ≤ ((2 ^ l - 1 : Nat) : Int)) iv lv)
    ∧ (indexList lv).length = (lv.map fun l => 2 ^ l - 1).prod :=
  ⟨designU_eq_spec lv X, mem_indexList lv, length_indexList lv⟩

example : designU [1, 2] [[1/4, 3/8]] = [[1/4, 1/4, 0]] := by
  norm_num [designU, indexList, cross, hatUd, hatU, absR, pow2, List.range, List.range.loop]

/-- `build_A_matrix_dimension_wise`: on strictly increasing coordinate lists from 0 to 1 the entries are the products
of the nodal hat functions of the interior nodes (exact arithmetic; the float near-tie defect of the one-sided
clipping — a sample one ulp left of a node counted twice — was repaired in /repo by commit 5ee8ac8). -/
theorem design_entry_nonuniform (stripes : List (List ℚ)) (h : ∀ s ∈ stripes, StripeOk s) (X : List (List ℚ)) :
    designNU stripes X = X.map fun x => (pointsNU stripes).map fun tv => hatSpecNUd tv x :=
  designNU_eq_spec stripes h X

example : StripeOk [0, 1/4, 1/2, 1] := by
  refine ⟨?_, rfl, rfl⟩
  norm_num [List.pairwise_cons]

example : designNU [[0, 1/4, 1/2, 1]] [[3/8], [3/4]] = [[1/2, 1/2], [0, 1/2]] := by
  norm_num [designNU, pointsNU, triples, triplesAux, cross, hatNUd, hatNU, clipUp, clipLo]

/-! ## the code's expressions for the 1-D integrals -/

/-- uniform mesh of width `h = 2^{-l}`: `2^{l+1} = 2/h`, `-2^l = -1/h`, `1/(2^{l-1}·3) = 2h/3`, `1/(2^{l-1}·12) = h/6` -/
theorem stiffness_mass_expressions (l : Nat) :
    pow2 (l + 1) = 2 / meshW l ∧ -(pow2 l) = -1 / meshW l ∧
    1 / (pow2 l / 2 * 3) = 2 * meshW l / 3 ∧ 1 / (pow2 l / 2 * 12) = meshW l / 6 :=
  ⟨uniform_stiff_diag l, uniform_stiff_off l, uniform_mass_diag l, uniform_mass_off l⟩

/-- non-uniform mesh: `b1·m1² + b2·m2² = 1/h_l + 1/h_r`, `-(m·m·b) = -1/h`, the `integral_calc` difference is
`(b-a)/6`, the two one-sided cubic integrals add up to `(h_l + h_r)/3` -/
theorem stiffness_mass_expressions_nonuniform (a p c : ℚ) (h1 : a < p) (h2 : p < c) :
    (p - a) * (1 / (p - a)) ^ 2 + (c - p) * (1 / (c - p)) ^ 2 = 1 / (p - a) + 1 / (c - p) ∧
    negMMB (1 / (c - p)) (c - p) = -1 / (c - p) ∧
    integralCalc c (1 / (c - p)) p c - integralCalc p (1 / (c - p)) p c = (c - p) / 6 ∧
    (integral1 p (1 / (p - a)) p - integral1 a (1 / (p - a)) p)
      + (integral2 c (1 / (c - p)) p - integral2 p (1 / (c - p)) p) = (p - a) / 3 + (c - p) / 3 :=
  ⟨nonuniform_stiff_diag _ _ (by linarith) (by linarith), nonuniform_stiff_off _ (by linarith),
   nonuniform_mass_off p c h2, nonuniform_mass_diag a p c h1 h2⟩

example : (0 : ℚ) < 1/4 ∧ (1/4 : ℚ) < 1/2 := by norm_num

/-! ## smoothing matrix of a uniform component grid -/

/-- what `build_C_matrix` computes, for every level vector: the full symmetric matrix with entries
`Σ_k S^{(h_k)}(i_k,j_k) · Π_{m≠k} M^{(h_k)}(i_m,j_m)` (`S`, `M` the 1-D stiffness / mass matrices) -/
theorem C_uniform_formula (lv : List Nat) :
    cMatrixU lv = (indexList lv).map fun iv => (indexList lv).map fun jv => codeU lv iv jv :=
  cMatrixU_eq_full lv

/-- full statement (`cMatrixU lv` has the entries `gramU lv` for EVERY level vector) is false of the code;
proved: it is the Gram matrix of the basis gradients whenever all levels coincide (in particular in 1-D). -/
theorem C_uniform_eq_gram_partial (lv : List Nat) (l0 : Nat) (h : ∀ l ∈ lv, l = l0) :
    cMatrixU lv = (indexList lv).map fun iv => (indexList lv).map fun jv => gramU lv iv jv := by
  rw [cMatrixU_eq_full]
  simp only [← resU_eq_codeU, resU_eq_gramU_of_isotropic lv l0 h]

example : ∀ l ∈ [2, 2, 2], l = 2 := by simp

/-- the defect: on the anisotropic grid of level (1,2) the diagonal entry is 8/3, the Gram matrix has 10/3 -/
theorem C_uniform_anisotropic_counterexample :
    ¬ (∀ (lv : List Nat) (iv jv : List Int), resU lv iv jv = gramU lv iv jv) := by
  intro h
  have := h [1, 2] [1, 1] [1, 1]
  rw [resU_12_diag, gramU_12_diag] at this
  norm_num at this

/-- symmetric for every dimension and level vector: entrywise and as a bilinear form -/
theorem C_uniform_symm (lv : List Nat) :
    (∀ iv jv, resU lv iv jv = resU lv jv iv) ∧ MSymm (indexList lv).length (cMatrixU lv) :=
  ⟨resU_symm lv, msymm_cMatrixU lv⟩

/-- both variants fill `C[i][j] = C[j][i] = res`: the returned matrix is symmetric by construction -/
theorem C_mirrored_symm (lv : List Nat) (stripes : List (List ℚ)) :
    (∀ i j, i < (indexList lv).length → j < (indexList lv).length → ent (cMatrixU lv) i j = ent (cMatrixU lv) j i) ∧
    (∀ i j, i < (pointsNU stripes).length → j < (pointsNU stripes).length →
      ent (cMatrixNU stripes) i j = ent (cMatrixNU stripes) j i) :=
  ⟨fun i j hi hj => mirrored_symm _ _ i j hi hj, fun i j hi hj => mirrored_symm _ _ i j hi hj⟩

/-- **positive semi-definite for every dimension and every level vector**: `build_C_matrix(lv) = Σ_k ⊗_m F_{k,m}` with
tridiagonal Toeplitz factors; the quadratic form of each tensor product is a sum of cell energies, evaluated dimension
by dimension (`Lemmas/RegressTensor`, `Lemmas/RegressPsd`). -/
theorem C_uniform_psd (lv : List Nat) : MPsd (indexList lv).length (cMatrixU lv) := mpsd_cMatrixU lv

example : (indexList [1, 2]).length = 3 := by rw [length_indexList]; rfl

/-- in 1-D the quadratic form of `build_C_matrix` is `2^l·Σ_cells (Δu)² = ∫ (u')²` of the piecewise-linear
interpolant `u` of the coefficients (zero at the boundary) — which identifies `C` as the gradient Gram matrix. -/
theorem C_uniform_energy_1d (l : Nat) (v : Vec) (hv : v.length = 2 ^ l - 1) :
    dot v (mulVec (cMatrixU [l]) v) = pow2 l * energy 0 v := cMatrixU_1d_quadform l v hv

example : dot [1, 2, -1] (mulVec (cMatrixU [2]) [1, 2, -1]) = 4 * (1 + 1 + 9 + 1) := by
  rw [cMatrixU_1d_quadform 2 _ (by norm_num)]
  norm_num [energy, pow2]

/-! ## smoothing matrix of a dimension-wise (non-uniform) grid: the code as it is -/

/-- the entries `build_C_matrix_dimension_wise` computes in 1-D, case by case: right on the diagonal, for neighbours
and for strictly separated supports; `-1/(q-p)` instead of 0 for supports that only touch; the `n ≠ d` factor of two
different nodes is the SQUARE of `(q-p)/6` whether or not they are neighbours. -/
theorem C_dimwise_entries (li p ui q uj : ℚ) (h1 : li < p) (h2 : p < ui) (h3 : ui ≤ q) (h4 : q < uj) :
    stiffNU true (li, p, ui) (li, p, ui) = 1 / (p - li) + 1 / (ui - p) ∧
    stiffNU false (li, p, ui) (p, ui, uj) = -1 / (ui - p) ∧
    (ui < q → stiffNU false (li, p, ui) (ui, q, uj) = -1 / (q - p) ∧ -1 / (q - p) ≠ 0) ∧
    massNU (li, p, ui) (li, p, ui) = (p - li) / 3 + (ui - p) / 3 ∧
    massNU (li, p, ui) (ui, q, uj) = ((q - p) / 6) ^ 2 := by
  refine ⟨stiffNU_same_point true li p ui li ui h1 h2 h1 h2, ?_, ?_, massNU_same_point li p ui li h1 h2, ?_⟩
  · exact stiffNU_not_separated li p ui p ui uj h2 (by intro h; linarith) (by intro h; linarith)
  · intro h; exact stiffNU_touching li p ui q uj h1 h2 h h4
  · exact massNU_different (li, p, ui) (ui, q, uj) (by simp only; linarith)

example : (0 : ℚ) < 1/4 ∧ (1/4 : ℚ) < 1/2 ∧ (1/2 : ℚ) ≤ 3/4 ∧ (3/4 : ℚ) < 1 := by norm_num

/-- the repo's own test grid `[0, ¼, ½, ¾, 1]`: entry (0,2) is −2, but the hat functions of ¼ and ¾ have supports that
share only the point ½, so `∫ φ₀' φ₂' = 0` -/
theorem C_dimwise_touching_counterexample :
    ent (cMatrixNU [[0, 1/4, 1/2, 3/4, 1]]) 0 2 = -2 := by
  rw [cMatrixNU_quarter]; norm_num [ent]

/-- not positive semi-definite: on the refinement-tree grid `[0, ½, ⅝, ¾, ⅞, 1]` the constant coefficient vector has
`vᵀCv = −6` (its true energy is `1/½ + 1/⅛ = 10`) -/
theorem C_dimwise_not_psd_counterexample :
    ¬ (∀ (stripes : List (List ℚ)) (v : Vec), v.length = (pointsNU stripes).length →
        0 ≤ dot v (mulVec (cMatrixNU stripes) v)) := by
  intro h
  have := h [[0, 1/2, 5/8, 3/4, 7/8, 1]] [1, 1, 1, 1] (by rw [pointsNU_graded]; rfl)
  rw [cMatrixNU_graded] at this
  norm_num [mulVec, dot] at this

/-- dimension 2, grid `[0,½,1] × [0,¼,½,1]`: the code returns `[[8/3, 191/144], [191/144, 17/6]]`; the Gram matrix of
the gradients is `[[10/3, -7/6], [-7/6, 3]]` -/
theorem C_dimwise_2d_counterexample :
    cMatrixNU [[0, 1/2, 1], [0, 1/4, 1/2, 1]] = [[8/3, 191/144], [191/144, 17/6]] :=
  cMatrixNU_2d

/-! ## normal equations -/

/-- **regularised problem.**  If `α` solves the system the code hands to `numpy.linalg.lstsq`,
`((1/m)·AᵀA + λM) α = (1/m)·Aᵀy` (`lhs`, `rhs` are `build_left_matrix` / `build_right_vector`), `λ ≥ 0` and `M` is
symmetric positive semi-definite, then `α` minimises `(1/m)·Σ(Aα−y)² + λ·αᵀMα` over all coefficient vectors. -/
theorem normal_equations_regularised (n : Nat) (A : Mat) (y : Vec) (lam : ℚ) (M : Mat) (α : Vec)
    (hA : Rows n A) (hy : y.length = A.length) (hα : α.length = n)
    (hM : Rows n M) (hMl : M.length = n) (hsymm : MSymm n M) (hpsd : MPsd n M) (hlam : 0 ≤ lam)
    (hsolve : mulVec (lhs n A y lam M) α = rhs n A y) :
    ∀ β : Vec, β.length = n → objective A y lam M α ≤ objective A y lam M β := by
  intro β hβ
  have hc : (0 : ℚ) ≤ 1 / (y.length : ℚ) := by positivity
  have hw := weak_of_system (1 / (y.length : ℚ)) lam n A y M α hA hM hMl hsolve
  exact quadF_min_of_weak (1 / (y.length : ℚ)) lam n A y M α β hc hlam hy hα hβ hsymm hpsd hw

/-- … and conversely: the system the code assembles is exactly the optimality condition of the stated problem —
`α` solves it **iff** `α` minimises the regularised functional -/
theorem normal_equations_iff (n : Nat) (A : Mat) (y : Vec) (lam : ℚ) (M : Mat) (α : Vec)
    (hA : Rows n A) (hy : y.length = A.length) (hα : α.length = n)
    (hM : Rows n M) (hMl : M.length = n) (hsymm : MSymm n M) (hpsd : MPsd n M) (hlam : 0 ≤ lam) :
    mulVec (lhs n A y lam M) α = rhs n A y ↔
      ∀ β : Vec, β.length = n → objective A y lam M α ≤ objective A y lam M β :=
  ⟨normal_equations_regularised n A y lam M α hA hy hα hM hMl hsymm hpsd hlam,
   fun hmin => system_of_min (1 / (y.length : ℚ)) lam n A y M α hA hM hMl hy hα hsymm hmin⟩

/-- matrix choice `'I'`: no further hypothesis, every dimension, uniform and dimension-wise design matrices alike -/
theorem normal_equations_identity (n : Nat) (A : Mat) (y : Vec) (lam : ℚ) (α : Vec)
    (hA : Rows n A) (hy : y.length = A.length) (hα : α.length = n) (hlam : 0 ≤ lam)
    (hsolve : mulVec (lhs n A y lam (idMat n)) α = rhs n A y) :
    ∀ β : Vec, β.length = n → objective A y lam (idMat n) α ≤ objective A y lam (idMat n) β :=
  normal_equations_regularised n A y lam (idMat n) α hA hy hα (rows_idMat n) (length_idMat n)
    (msymm_idMat n) (mpsd_idMat n) hlam hsolve

/-- matrix choice `'C'` on a uniform component grid of ANY dimension and level vector, any data set: the surpluses
returned by `solve_regression_smooth` minimise the functional regularised with the code's smoothing matrix -/
theorem normal_equations_C_uniform (lv : List Nat) (X : List (List ℚ)) (y : Vec) (lam : ℚ) (α : Vec)
    (hy : y.length = X.length) (hα : α.length = (indexList lv).length) (hlam : 0 ≤ lam)
    (hsolve : mulVec (lhs (indexList lv).length (designU lv X) y lam (cMatrixU lv)) α
      = rhs (indexList lv).length (designU lv X) y) :
    ∀ β : Vec, β.length = (indexList lv).length →
      objective (designU lv X) y lam (cMatrixU lv) α ≤ objective (designU lv X) y lam (cMatrixU lv) β := by
  have hA : Rows (indexList lv).length (designU lv X) := by
    intro r hr; simp only [designU, List.mem_map] at hr; obtain ⟨x, _, rfl⟩ := hr; simp
  exact normal_equations_regularised _ _ y lam _ α hA (by rw [hy]; simp [designU]) hα
    (rows_cMatrixU lv) (length_cMatrixU lv) (msymm_cMatrixU lv) (mpsd_cMatrixU lv) hlam hsolve

/-- **plain least squares** (`regularization == 0`: `lstsq(A, y)`): a solution of the normal equations `AᵀA α = Aᵀy`
minimises `Σ(Aα−y)²` -/
theorem normal_equations_plain (n : Nat) (A : Mat) (y : Vec) (α : Vec)
    (hA : Rows n A) (hy : y.length = A.length) (hα : α.length = n)
    (hsolve : mulVec (AtA n A) α = Atv n A y) :
    ∀ β : Vec, β.length = n →
      dot (vsub (mulVec A α) y) (vsub (mulVec A α) y) ≤ dot (vsub (mulVec A β) y) (vsub (mulVec A β) y) := by
  intro β hβ
  have hw : ∀ δ : Vec, δ.length = n →
      1 * dot (mulVec A δ) (mulVec A α) + 0 * dot δ (mulVec (idMat n) α) = 1 * dot (mulVec A δ) y := by
    intro δ _
    have := congrArg (dot δ) hsolve
    rw [mulVec_AtA n A α hA, ← dot_mulVec_Atv n A δ _ hA, ← dot_mulVec_Atv n A δ _ hA] at this
    linarith
  have := quadF_min_of_weak 1 0 n A y (idMat n) α β (by norm_num) (le_refl 0) hy hα hβ (msymm_idMat n) (mpsd_idMat n) hw
  simpa [quadF] using this

/-- non-vacuity: two samples, one basis function, `λ = 1`, `M = I`: `α = 1` solves `(½·2 + 1) α = ½·4` -/
example : mulVec (lhs 1 [[1], [1]] [1, 3] 1 (idMat 1)) [1] = rhs 1 [[1], [1]] [1, 3] := by
  norm_num [lhs, rhs, AtA, Atv, madd, msmul, outer, vsmul, vadd, zeroMat, zeroVec, idMat, mulVec, dot]

example : mulVec (AtA 1 [[1], [1]]) [2] = Atv 1 [[1], [1]] [1, 3] := by
  norm_num [AtA, Atv, madd, outer, vsmul, vadd, zeroMat, zeroVec, mulVec, dot]

/-! ## coefficient optimisation -/

/-- all three variants end with a division by the sum: whenever they return coefficients at all (sum ≠ 0, for
option 3 also no zero error), these sum to one and there is one per component grid -/
theorem opticom_sum_one :
    (∀ sol r : Vec, opticom12 sol = some r → r.sum = 1 ∧ r.length = sol.length) ∧
    (∀ coefs errs r : Vec, coefs.length = errs.length → opticom3 coefs errs = some r →
      r.sum = 1 ∧ r.length = coefs.length) := by
  constructor
  · intro sol r h; exact normalize?_sum sol r h
  · intro coefs errs r hl h
    unfold opticom3 errWeights? at h
    split at h
    · simp at h
    · simp only [Option.bind_some] at h
      have := normalize?_sum _ r h
      refine ⟨this.1, ?_⟩
      rw [this.2, List.length_zipWith, hl]; simp

/-- … and they return coefficients exactly when the sum of the raw coefficients is not zero (otherwise the code
divides by zero and stores `nan`/`inf`) -/
theorem opticom_defined_iff (sol : Vec) : (opticom12 sol).isSome ↔ sol.sum ≠ 0 := normalize?_isSome sol

example : opticom12 [3, -1, 2] = some [3/4, -1/4, 1/2] := by
  simp [opticom12, normalize?]; norm_num

example : opticom3 [1, -1, 1] [1/2, 1/4, 1] = some [-2, 4, -1] := by
  simp [opticom3, errWeights?, normalize?]; norm_num

/-! ## data scaling at construction -/

/-- `MinMaxScaler` with `lo ≤ hi` (default `[0.05, 0.95]`) maps every sample into `[lo, hi]`, so every training point
lies strictly inside the domain `[0,1]^d` of the hat functions -/
theorem scaling_in_range (lo hi : ℚ) (h : lo ≤ hi) (col : List ℚ) : ∀ v ∈ scaleCol lo hi col, lo ≤ v ∧ v ≤ hi :=
  scaleCol_range lo hi h col

example : scaleCol (1/20) (19/20) [0, 1/2, 2] = [1/20, 11/40, 19/20] := by
  norm_num [scaleCol, lmin, lmax]

end SparseSpace.C20
