import SparseSpace.Lemmas.ClassifyOps
import SparseSpace.Lemmas.ClassifyInit
/-!
# C19 — classification assigns the arg-max density class under the learning scaling

Theorems about `Model/Classify` (mirror of `Classification` in `sparseSpACE/DEMachineLearning.py`), for EVERY
density oracle `dens : class → position → ℚ`, every dimension, data set, learned state and every finite history of
later `__call__` / `test_data` / `evaluate` calls.  The learned combination objects are the parameter `dens`
(their correctness is C02/C16); the densities fed to the executable model in the correspondence check are read
from the implementation.

Reading fixed here.  "Learned range" = the set the code accepts: scaled coordinates in `[0.0049, 0.9951]`, i.e. the
box `[lo, hi]` fixed at learning widened by `(hi - lo) / 9900` per dimension (`removed_iff_out_of_range`).  "Class" =
the LABEL of the classificator with the first maximal density (`_learning_data.get_labels()[np.argmax(row)]`).

History: the unchanged code had four defects that earlier versions of this file proved as counterexamples
(`evaluate()` raising after `test_data`, class index returned instead of the label, pre-scaled data with another origin
accepted, 1-D `IndexError`).  All four are repaired in the code; the model mirrors the repaired code and the
counterexamples are replaced by the positive statements `evaluate_after_history`, `test_extends_evaluation`,
`class_is_argmax` (label clause), `prescaled_accepted_is_learning_scaling`, `removal_1d_example`.
-/
namespace SparseSpace.C19
open SparseSpace.Classify

/-! ## concrete objects for the non-vacuity examples -/

/-- scaling learned from data with range `[0,2] × [-1,3]` -/
def exSc : Scaling := [⟨0, 2, 99/200⟩, ⟨-1, 3, 99/400⟩]
def exDens : Nat → Pt → Rat := fun c p => if c = 0 then 1 - p.sum else if c = 1 then p.sum - 1 else 0
/-- a learned object: three classificators, two stored test samples -/
def exSt : State :=
  { sc := exSc, fitted := true, omitted := [], learning := [⟨[1/200, 1/200], 0⟩, ⟨[199/200, 199/200], 1⟩, ⟨[1/2, 1/2], 2⟩],
    testing := [⟨[1/4, 1/4], 0⟩, ⟨[3/4, 3/4], 0⟩], classes := [0, 1], densities := [[1/2, -1/2, 0], [-1/2, 1/2, 0]],
    performed := true, k := 3 }
/-- later data: inside, on the edge, in the tolerance band, outside, unlabelled; `(1, 1)` is an exact tie of all three classes → class 0 -/
def exIn : Input :=
  { data := [⟨[1/2, 0], 0⟩, ⟨[2, 3], 1⟩, ⟨[-1/10000, 1], -1⟩, ⟨[5, 1], 1⟩, ⟨[1, 1], 2⟩, ⟨[1, 1 - 800/99], 0⟩], pre := none }

/-! ## 1. arg-max -/

/-- the clauses "arg-max with first-maximum tie-break, returned as the label of that class" for one position -/
def IsArgmaxClass (dens : Nat → Pt → Rat) (st : State) (p : Pt) (c : Int) : Prop :=
  ∃ j, j < st.k ∧ (∀ c', c' < st.k → dens c' p ≤ dens j p) ∧ (∀ c', c' < j → dens c' p < dens j p) ∧
    c = (labelSet st.learning).getD j (-1) ∧
    ((labelSet st.learning).length = st.k → (labelSet st.learning)[j]? = some c)

theorem isArgmaxClass_classAt (dens : Nat → Pt → Rat) (st : State) (hk : 0 < st.k) (p : Pt) :
    IsArgmaxClass dens st p (classAt dens st p) := by
  have ha := argmax_densRow dens st.k hk p
  refine ⟨argmaxFirst (densRow dens st.k p), ha.1, ha.2.1, ha.2.2, rfl, ?_⟩
  intro hlen
  unfold classAt classOf
  rw [List.getD_eq_getElem?_getD, List.getElem?_eq_getElem (by rw [hlen]; exact ha.1)]
  rfl

/-- **class_is_argmax** (`__call__`): every returned pair (position, class): some classificator index `j < k` has a
density at that position that no class exceeds and that every smaller index stays strictly below (numpy's first
maximum), and the returned class is the LABEL of that classificator (the `j`-th label of the learning data, one
classificator per label); the position is the (kept) scaled position of a sample of the input. -/
theorem class_is_argmax (dens : Nat → Pt → Rat) (st st' : State) (inp : Input) (r : CallResult)
    (hk : 0 < st.k) (h : call dens st inp = .ok (st', r)) :
    ∀ qc ∈ r.evaluated, IsArgmaxClass dens st qc.1 qc.2 ∧
      ∃ pts, internalPts st inp = .ok pts ∧ ∃ s ∈ pts, outOfRange s.pt = false ∧ qc.1 = s.pt := by
  obtain ⟨_, _, pts, hpts, _, _, hev, _⟩ := call_ok h
  intro qc hqc
  rw [hev] at hqc
  obtain ⟨s, hs, rfl⟩ := List.mem_map.mp hqc
  refine ⟨isArgmaxClass_classAt dens st hk s.pt, pts, hpts, s, (List.mem_filter.mp hs).1, ?_, rfl⟩
  have := (List.mem_filter.mp hs).2
  simpa using this

/-- **class_is_argmax** (`test_data`): the same for every tested sample; tested samples are exactly the labelled
in-range ones. -/
theorem class_is_argmax_test (dens : Nat → Pt → Rat) (st st' : State) (inp : Input) (r : TestResult)
    (hk : 0 < st.k) (h : test dens st inp = .ok (st', r)) :
    ∀ sc ∈ r.used, IsArgmaxClass dens st sc.1.pt sc.2 ∧ 0 ≤ sc.1.label ∧ outOfRange sc.1.pt = false := by
  obtain ⟨_, _, pts, _, _, _, hu, _, _, _⟩ := test_ok h
  intro sc hsc
  rw [hu] at hsc
  obtain ⟨s, hs, rfl⟩ := List.mem_map.mp hsc
  have hlab : decide (0 ≤ s.label) = true := (List.mem_filter.mp hs).2
  have hin : (!outOfRange s.pt) = true := (List.mem_filter.mp (List.mem_filter.mp hs).1).2
  exact ⟨isArgmaxClass_classAt dens st hk s.pt, by simpa using hlab, by simpa using hin⟩

example : 0 < exSt.k ∧ (labelSet exSt.learning).length = exSt.k ∧ (call exDens exSt exIn).map (·.2.evaluated) =
    .ok [([101/400, 101/400], 0), ([199/200, 199/200], 1), ([9901/2000000, 1/2], 0), ([1/2, 1/2], 0)] := by
  decide +kernel

/-! ## 2. the scaling applied to later data is the learning scaling -/

/-- later calls never touch what was fixed at learning time (`_data_range`, `_scale_factor`, number of
classificators, learning data) -/
theorem later_calls_keep_scaling (dens : Nat → Pt → Rat) (st : State) (ops : List Op) :
    SameLearned st (run dens st ops) := (run_extends dens st ops).same

/-- **scaling_is_learning_scaling**: after ANY history of later calls, `__call__` on a data set that was not scaled
beforehand classifies exactly the samples whose image under the affine map stored at learning time
(`st.sc`, the state BEFORE the history) is in range, at exactly those images, in input order; the other images are
what is removed. -/
theorem scaling_is_learning_scaling (dens : Nat → Pt → Rat) (st st' : State) (ops : List Op) (inp : Input)
    (r : CallResult) (hpre : inp.pre = none) (h : call dens (run dens st ops) inp = .ok (st', r)) :
    r.evaluated.map (·.1) = (inp.data.map (fun s => scalePt st.sc s.pt)).filter (fun y => !outOfRange y) ∧
    r.removed = (inp.data.map (fun s => { s with pt := scalePt st.sc s.pt })).filter (fun s => outOfRange s.pt) := by
  obtain ⟨_, _, pts, hpts, _, _, hev, hrem⟩ := call_ok h
  have hsc : (run dens st ops).sc = st.sc := (run_extends dens st ops).same.sc.symm
  unfold internalPts at hpts
  rw [hpre] at hpts
  simp only at hpts
  split at hpts
  · exact absurd hpts (by simp)
  · simp only [Except.ok.injEq] at hpts
    subst hpts
    rw [hev, hrem, hsc]
    refine ⟨?_, rfl⟩
    simp only [keptOf, List.map_map, List.filter_map]
    rfl

/-- the RESULT of `__call__` (returned samples, classes, removed samples — or the error) does not depend on the
history of earlier `__call__` / `test_data` / `evaluate` calls at all -/
theorem call_history_independent (dens : Nat → Pt → Rat) (st : State) (ops : List Op) (inp : Input) :
    (call dens (run dens st ops) inp).map (·.2) = (call dens st inp).map (·.2) :=
  (call_congr dens (run_extends dens st ops).same inp).symm

/-- … and neither does the result of `test_data` (tested samples with classes, set-aside samples, removed samples,
summary) -/
theorem test_history_independent (dens : Nat → Pt → Rat) (st : State) (ops : List Op) (inp : Input) :
    (test dens (run dens st ops) inp).map (·.2) = (test dens st inp).map (·.2) :=
  (test_congr dens (run_extends dens st ops).same inp).symm

example : (call exDens (run exDens exSt [.test exIn, .call exIn, .evaluate, .test exIn]) exIn).map (·.2)
    = (call exDens exSt exIn).map (·.2) ∧ (run exDens exSt [.test exIn, .call exIn]).classes ≠ exSt.classes :=
  ⟨call_history_independent _ _ _ _, by decide +kernel⟩

/-! ## 3. removed ⇔ out of range -/

/-- **removed_iff_out_of_range**: for a data set not scaled beforehand, under a learning scaling whose every axis
has `lo < hi` and factor `0.99 / (hi - lo)`: a sample is removed (reported, not classified) iff one of its
coordinates lies more than `(hi - lo) / 9900` outside `[lo, hi]`; otherwise its image is among the returned samples.
Nothing is lost: returned + removed = input. -/
theorem removed_iff_out_of_range (dens : Nat → Pt → Rat) (st st' : State) (inp : Input) (r : CallResult)
    (hpre : inp.pre = none) (hreg : ∀ a ∈ st.sc, a.Regular) (h : call dens st inp = .ok (st', r)) :
    (∀ s ∈ inp.data,
      let far := ∃ p ∈ st.sc.zip s.pt, p.2 < p.1.lo - (p.1.hi - p.1.lo) / 9900 ∨ p.1.hi + (p.1.hi - p.1.lo) / 9900 < p.2
      ({ s with pt := scalePt st.sc s.pt } ∈ r.removed ↔ far) ∧
      (scalePt st.sc s.pt ∈ r.evaluated.map (·.1) ↔ ¬ far)) ∧
    r.evaluated.length + r.removed.length = inp.data.length := by
  have h0 := scaling_is_learning_scaling dens st st' [] inp r hpre (by simpa [run] using h)
  obtain ⟨hev, hrem⟩ := h0
  refine ⟨?_, ?_⟩
  · intro s hs
    have hiff := outOfRange_scalePt_iff st.sc hreg s.pt
    constructor
    · rw [hrem, List.mem_filter]
      constructor
      · rintro ⟨_, hout⟩
        exact hiff.mp hout
      · intro hfar
        exact ⟨List.mem_map.mpr ⟨s, hs, rfl⟩, hiff.mpr hfar⟩
    · rw [hev, List.mem_filter]
      constructor
      · rintro ⟨_, hin⟩ hfar
        have := hiff.mpr hfar
        rw [this] at hin
        simp at hin
      · intro hnf
        refine ⟨List.mem_map.mpr ⟨s, hs, rfl⟩, ?_⟩
        cases hb : outOfRange (scalePt st.sc s.pt) with
        | false => rfl
        | true => exact absurd (hiff.mp hb) hnf
  · have h1 : r.evaluated.length = (r.evaluated.map (·.1)).length := by simp
    rw [h1, hev, hrem]
    have := List.length_eq_length_filter_add (fun s : Sample => outOfRange s.pt)
      (l := inp.data.map (fun s => ({ s with pt := scalePt st.sc s.pt } : Sample)))
    simp only [List.length_map] at this
    rw [this, Nat.add_comm]
    congr 1
    rw [← List.length_map (f := fun s : Sample => s.pt)
      (as := List.filter (fun x => !outOfRange x.pt) (inp.data.map (fun s => ({ s with pt := scalePt st.sc s.pt } : Sample))))]
    simp [List.filter_map, Function.comp_def]

/-- a sample inside the box `[lo, hi]` fixed at learning is never removed -/
theorem inside_learned_box_kept (sc : Scaling) (hreg : ∀ a ∈ sc, a.Regular) (x : Pt)
    (hin : ∀ p ∈ sc.zip x, p.1.lo ≤ p.2 ∧ p.2 ≤ p.1.hi) : outOfRange (scalePt sc x) = false :=
  inside_box_kept sc hreg x hin

example : (∀ a ∈ exSc, a.Regular) ∧ exIn.pre = none ∧
    (call exDens exSt exIn).map (·.2.removed) = .ok [⟨[62/25, 1/2], 1⟩, ⟨[1/2, -3/2], 0⟩] := by
  refine ⟨?_, rfl, by decide +kernel⟩
  intro a ha
  simp only [exSc, List.mem_cons, List.not_mem_nil, or_false] at ha
  rcases ha with rfl | rfl <;> constructor <;> norm_num [targetWidth]

/-! ## 4. unlabelled samples are set aside; the summary is consistent -/

/-- **summary_consistent**: for every successful `test_data`: the tested samples are the labelled in-range ones, the
unlabelled in-range ones are set aside, `total` = number tested (`≥ 1`), `wrong` = number of tested samples whose
returned class differs from the label, `wrong ≤ total`, `percentage = 1 - wrong / total ∈ [0, 1]`, and
tested + set aside + removed = input (labels are `≥ -1` in every `DataSet`). -/
theorem summary_consistent (dens : Nat → Pt → Rat) (st st' : State) (inp : Input) (r : TestResult)
    (hlab : ∀ s ∈ inp.data, -1 ≤ s.label) (h : test dens st inp = .ok (st', r)) :
    r.summary.total = r.used.length ∧ 0 < r.summary.total ∧
    r.summary.wrong = r.used.countP (fun p => decide (p.1.label ≠ p.2)) ∧
    r.summary.wrong ≤ r.summary.total ∧
    r.summary.pct = 1 - (r.summary.wrong : Rat) / (r.summary.total : Rat) ∧
    0 ≤ r.summary.pct ∧ r.summary.pct ≤ 1 ∧
    (∀ p ∈ r.used, 0 ≤ p.1.label) ∧ (∀ s ∈ r.omitted, s.label = -1) ∧
    r.used.length + r.omitted.length + r.removed.length = inp.data.length := by
  obtain ⟨_, _, pts, hpts, _, _, hu, ho, hrem, hsum⟩ := test_ok h
  obtain ⟨hl, hpos, htot, hwrong, hpct⟩ := summarize_ok hsum
  have hulen : r.used.length = (labelled (keptOf pts)).length := by rw [hu]; simp
  have hle : r.summary.wrong ≤ r.summary.total := by
    rw [hwrong, htot]; exact mismatches_le _ _
  have htq : (0 : Rat) < (r.summary.total : Rat) := by
    rw [htot]; exact_mod_cast hpos
  have hwq : (r.summary.wrong : Rat) ≤ (r.summary.total : Rat) := by exact_mod_cast hle
  have hw0 : (0 : Rat) ≤ (r.summary.wrong : Rat) := by exact_mod_cast Nat.zero_le _
  have hfrac1 : (r.summary.wrong : Rat) / (r.summary.total : Rat) ≤ 1 := (div_le_one htq).mpr hwq
  have hfrac0 : 0 ≤ (r.summary.wrong : Rat) / (r.summary.total : Rat) := div_nonneg hw0 htq.le
  have hptslen : pts.length = inp.data.length := by
    unfold internalPts at hpts
    split at hpts
    · split at hpts
      · exact absurd hpts (by simp)
      · simp only [Except.ok.injEq] at hpts; subst hpts; simp
    · split at hpts
      · simp only [Except.ok.injEq] at hpts; subst hpts; simp [preScale]
      · exact absurd hpts (by simp)
  have hptslab : ∀ s ∈ pts, -1 ≤ s.label := by
    unfold internalPts at hpts
    split at hpts
    · split at hpts
      · exact absurd hpts (by simp)
      · simp only [Except.ok.injEq] at hpts; subst hpts
        intro s hs
        obtain ⟨s0, hs0, rfl⟩ := List.mem_map.mp hs
        exact hlab s0 hs0
    · split at hpts
      · simp only [Except.ok.injEq] at hpts; subst hpts
        intro s hs
        unfold preScale at hs
        obtain ⟨s0, hs0, rfl⟩ := List.mem_map.mp hs
        exact hlab s0 hs0
      · exact absurd hpts (by simp)
  refine ⟨by rw [htot, hulen]; simp, by rw [htot]; exact hpos, ?_, hle, hpct, by rw [hpct]; linarith, by rw [hpct]; linarith, ?_, ?_, ?_⟩
  · rw [hwrong, mismatches_eq_countP, hu, List.zip_map', List.countP_map, List.countP_map]
    rfl
  · intro p hp
    rw [hu] at hp
    obtain ⟨s, hs, rfl⟩ := List.mem_map.mp hp
    have : decide (0 ≤ s.label) = true := (List.mem_filter.mp hs).2
    simpa using this
  · intro s hs
    rw [ho] at hs
    simpa [unlabelled] using (List.mem_filter.mp hs).2
  · rw [hulen, ho, hrem, ← hptslen]
    have hk : (labelled (keptOf pts)).length + (unlabelled (keptOf pts)).length = (keptOf pts).length := by
      have := List.length_eq_length_filter_add (fun s : Sample => decide (0 ≤ s.label)) (l := keptOf pts)
      rw [this]
      unfold labelled unlabelled
      congr 1
      apply congrArg
      apply List.filter_congr
      intro s hs
      have hs' : -1 ≤ s.label := hptslab s (List.mem_filter.mp hs).1
      by_cases h0 : 0 ≤ s.label
      · simp [h0]; omega
      · simp [h0]; omega
    have hp := List.length_eq_length_filter_add (fun s : Sample => outOfRange s.pt) (l := pts)
    unfold keptOf removedOf at *
    omega

example : (∀ s ∈ exIn.data, -1 ≤ s.label) ∧
    (test exDens exSt exIn).map (fun x => (x.2.summary, x.2.omitted, x.1.classes)) =
      .ok (⟨1, 3, 2/3⟩, [⟨[49505/10000000, 1/2], -1⟩], [0, 1, 0, 1, 0]) := by
  decide +kernel

/-! ## 5. later calls do not change what was assigned to earlier data -/

/-- **earlier_classes_stable**: for every history of later calls (a) everything fixed at learning is unchanged,
(b) the stored classes, density rows, test samples and set-aside samples of earlier calls are a PREFIX of the later
ones (only appended to, never overwritten or reordered), (c) test set and stored classes grow by the same amount,
(d) the stored classes remain the class of the first arg-max of the stored density rows, and (e) re-submitting any
earlier data set gives the same result as the first time (`call_history_independent`). -/
theorem earlier_classes_stable (dens : Nat → Pt → Rat) (st : State) (ops : List Op) :
    Extends st (run dens st ops) ∧ (Aligned st → Aligned (run dens st ops)) :=
  ⟨run_extends dens st ops, run_aligned dens st ops⟩

/-- `__call__` leaves the object EXACTLY as it was (the density rows it appends are deleted again) -/
theorem call_leaves_state (dens : Nat → Pt → Rat) (st st' : State) (inp : Input) (r : CallResult)
    (h : call dens st inp = .ok (st', r)) : st' = st := by
  obtain ⟨_, _, _, _, _, hst, _, _⟩ := call_ok h
  exact hst

/-- learning on a fresh object establishes `Aligned` and one stored class per testing sample -/
theorem learned_state_aligned (dens : Nat → Pt → Rat) (st st' : State) (hc : st.classes = []) (hd : st.densities = [])
    (h : perform dens st = .ok st') : Aligned st' ∧ st'.classes.length = st'.testing.length := by
  obtain ⟨_, _, _, _, _, ht, _, _, hemp, hne⟩ := perform_ok h
  by_cases hte : st.testing = []
  · obtain ⟨h1, h2⟩ := hemp hte
    unfold Aligned
    rw [h1, h2, hc, hd, ht, hte]
    exact ⟨rfl, rfl⟩
  · obtain ⟨h1, h2⟩ := hne hte
    unfold Aligned
    rw [h1, h2, hd, ht]
    simp [densRows]

example : Aligned exSt ∧ (run exDens exSt [.test exIn, .call exIn]).classes = [0, 1, 0, 1, 0] :=
  ⟨by unfold Aligned; decide +kernel, by decide +kernel⟩

/-! ## 6. `evaluate()`: consistent right after learning; DEFECT after `test_data` -/

/-- `evaluate()` right after learning: wrong / total / percentage of the stored test part -/
theorem evaluate_consistent (st : State) (sm : Summary) (h : evaluate st = .ok sm) :
    sm.total = st.testing.length ∧ 0 < sm.total ∧
    sm.wrong = ((st.testing.map (·.label)).zip st.classes).countP (fun p => decide (p.1 ≠ (p.2 : Int))) ∧
    sm.wrong ≤ sm.total ∧ sm.pct = 1 - (sm.wrong : Rat) / (sm.total : Rat) := by
  obtain ⟨_, _, hlen, hs⟩ := evaluate_ok h
  obtain ⟨_, hpos, htot, hwrong, hpct⟩ := summarize_ok hs
  refine ⟨by rw [htot, hlen], by rw [htot]; exact hpos, by rw [hwrong, mismatches_eq_countP], ?_, hpct⟩
  rw [hwrong, htot]; exact mismatches_le _ _

/-- **evaluate() after any history** (the former defect `evaluate_after_test_fails`, repaired in the code): from a
learned object with one stored class per test sample, after ANY history of `__call__` / `test_data` / `evaluate` calls
the object still has one stored class per test sample, and — if it has test samples at all — `evaluate()` returns the
summary of ALL of them (those set apart at learning and those of every `test_data` call), consistent in the sense of
`evaluate_consistent`. -/
theorem evaluate_after_history (dens : Nat → Pt → Rat) (st : State) (ops : List Op) (hp : st.performed = true)
    (hbal : st.testing.length = st.classes.length) :
    (run dens st ops).testing.length = (run dens st ops).classes.length ∧
    ((run dens st ops).testing ≠ [] → ∃ sm, evaluate (run dens st ops) = .ok sm ∧
      summarize ((run dens st ops).testing.map (·.label)) (run dens st ops).classes = .ok sm) := by
  have he := run_extends dens st ops
  have hb := he.balance
  have hlen : (run dens st ops).testing.length = (run dens st ops).classes.length := by omega
  refine ⟨hlen, fun hne => ?_⟩
  exact evaluate_of_balanced _ (he.same.performed ▸ hp) hne hlen

/-- one successful `test_data` extends the object's own evaluation additively: the test set grows by the tested
samples, and `evaluate()` afterwards counts `total + total'` samples with `wrong + wrong'` mismatches, where
`(wrong', total')` is the summary `test_data` returned -/
theorem test_extends_evaluation (dens : Nat → Pt → Rat) (st st' : State) (inp : Input) (r : TestResult) (sm : Summary)
    (h : test dens st inp = .ok (st', r)) (hev : evaluate st = .ok sm) :
    st'.testing = st.testing ++ r.used.map (·.1) ∧ st'.classes = st.classes ++ r.used.map (·.2) ∧
    ∃ sm', evaluate st' = .ok sm' ∧ sm'.total = sm.total + r.summary.total ∧
      sm'.wrong = sm.wrong + r.summary.wrong := by
  obtain ⟨hp, hne0, hlen, hs⟩ := evaluate_ok hev
  obtain ⟨_, _, pts, _, _, hst, hu, _, _, hsum⟩ := test_ok h
  obtain ⟨_, _, htot, hwrong, _⟩ := summarize_ok hs
  obtain ⟨hl2, _, htot2, hwrong2, _⟩ := summarize_ok hsum
  have ht : st'.testing = st.testing ++ r.used.map (·.1) := by
    rw [hst, hu, List.map_map]; simp [Function.comp_def]
  have hc : st'.classes = st.classes ++ r.used.map (·.2) := by
    rw [hst, hu, List.map_map]; simp [Function.comp_def]
  have hlen' : st'.testing.length = st'.classes.length := by rw [ht, hc]; simp [hlen]
  have hne' : st'.testing ≠ [] := by rw [ht]; simp [hne0]
  have hp' : st'.performed = true := by rw [hst]; exact hp
  obtain ⟨sm', he', hs'⟩ := evaluate_of_balanced st' hp' hne' hlen'
  obtain ⟨_, _, htot', hwrong', _⟩ := summarize_ok hs'
  refine ⟨ht, hc, sm', he', ?_, ?_⟩
  · rw [htot', htot, htot2, hst]; simp
  · rw [hwrong', hwrong, hwrong2, hst]
    simp only [List.map_append]
    rw [mismatches_append _ _ _ _ (by simpa using hlen)]

theorem evaluate_after_test_example :
    (evaluate exSt = .ok ⟨1, 2, 1/2⟩) ∧ evaluate (step exDens exSt (.test exIn)) = .ok ⟨2, 5, 3/5⟩ ∧
    (step exDens exSt (.test exIn)).omitted = [⟨[9901/2000000, 1/2], -1⟩] := by
  decide +kernel

/-! ## 7. the learning scaling itself; set-aside at initialisation -/

/-- without a user range the first stage of `_initialize` fits the scaling to the labelled samples, sets the
unlabelled ones aside (scaled, not removed), and EVERY labelled sample is in range under the fitted scaling
(column minimum ↦ 0.005, maximum ↦ 0.995) -/
theorem learning_data_in_range (raw : Data) (d : Nat) (hrect : ∀ s ∈ raw, s.pt.length = d)
    (sc : Scaling) (fitted : Bool) (scaled om : Data) (h : initScale raw none = .ok (sc, fitted, scaled, om)) :
    fitted = true ∧ sc = fitScaling ((labelled raw).map (·.pt)) ∧
    scaled = (labelled raw).map (fun s => { s with pt := scalePt sc s.pt }) ∧
    om = (unlabelled raw).map (fun s => { s with pt := scalePt sc s.pt }) ∧
    ∀ s ∈ scaled, outOfRange s.pt = false := by
  unfold initScale at h
  simp only at h
  split at h
  · exact absurd h (by simp)
  next hne =>
  simp only [Except.ok.injEq, Prod.mk.injEq] at h
  obtain ⟨h1, h2, h3, h4⟩ := h
  subst h1
  refine ⟨h2.symm, rfl, ?_, h4.symm, ?_⟩
  · rw [← h3]
    apply List.map_congr_left
    intro s _
    rw [sklPt_eq_scalePt]
  · intro s hs
    rw [← h3] at hs
    obtain ⟨s0, hs0, rfl⟩ := List.mem_map.mp hs
    simp only
    rw [sklPt_eq_scalePt]
    apply fitted_in_range ((labelled raw).map (·.pt)) d
    · intro p hp
      obtain ⟨s1, hs1, rfl⟩ := List.mem_map.mp hp
      exact hrect s1 (List.mem_filter.mp hs1).1
    · intro hnil
      apply hne
      have : labelled raw = [] := by simpa using hnil
      simp [this]
    · exact List.mem_map.mpr ⟨s0, hs0, rfl⟩

example : (initScale [⟨[0, 4], 1⟩, ⟨[2, 0], 0⟩, ⟨[1, 1], -1⟩, ⟨[1, 3], 0⟩] none).map (fun x => (x.1, x.2.1, x.2.2.2)) =
    .ok ([⟨0, 2, 99/200⟩, ⟨0, 4, 99/400⟩], true, [⟨[1/2, 101/400], -1⟩]) := by
  decide +kernel

/-- with a user `data_range` the first stage of `_initialize` either refuses it (some `hi ≤ lo`) or fixes the scaling
`f = 0.99 / (hi - lo)` — every axis regular, so `removed_iff_out_of_range` applies —, removes the labelled samples
that are out of range under it and sets the unlabelled ones aside -/
theorem user_range_scaling (raw : Data) (los his : List Rat) (sc : Scaling) (fitted : Bool) (scaled om : Data)
    (h : initScale raw (some (los, his)) = .ok (sc, fitted, scaled, om)) :
    fitted = false ∧ sc = List.zipWith givenAxis los his ∧ (∀ a ∈ sc, a.Regular) ∧
    scaled = keptOf ((labelled raw).map (fun s => { s with pt := scalePt sc s.pt })) ∧
    om = (unlabelled raw).map (fun s => { s with pt := scalePt sc s.pt }) := by
  unfold initScale at h
  simp only at h
  split at h
  · exact absurd h (by simp)
  split at h
  · exact absurd h (by simp)
  next hok =>
  simp only [Except.ok.injEq, Prod.mk.injEq] at h
  obtain ⟨h1, h2, h3, h4⟩ := h
  subst h1
  refine ⟨h2.symm, rfl, ?_, h3.symm, h4.symm⟩
  exact givenAxis_regular los his (by simpa using hok)

/-- without a user range every fitted axis has `lo ≤ hi`; it is regular unless the dimension is constant in the
labelled data (then the scaler's convention `f = 0.99` applies and `lo` is mapped to `0.005`) -/
theorem fitted_scaling_axes (raw : Data) (d : Nat) (hrect : ∀ s ∈ raw, s.pt.length = d)
    (sc : Scaling) (fitted : Bool) (scaled om : Data) (h : initScale raw none = .ok (sc, fitted, scaled, om)) :
    ∀ a ∈ sc, a.lo ≤ a.hi ∧ (a.lo < a.hi → a.Regular) ∧ (a.lo = a.hi → a.f = targetWidth) := by
  have hsc := (learning_data_in_range raw d hrect sc fitted scaled om h).2.1
  have hne : (labelled raw).map (·.pt) ≠ [] := by
    unfold initScale at h
    simp only at h
    split at h
    · exact absurd h (by simp)
    next hne =>
    intro hnil
    apply hne
    have : labelled raw = [] := by simpa using hnil
    simp [this]
  rw [hsc]
  apply fitScaling_axes _ d _ hne
  intro p hp
  obtain ⟨s1, hs1, rfl⟩ := List.mem_map.mp hp
  exact hrect s1 (List.mem_filter.mp hs1).1

example : (initScale [⟨[0, 4], 1⟩, ⟨[2, 0], 0⟩, ⟨[1, 1], -1⟩, ⟨[5, 3], 0⟩] (some ([0, 0], [2, 4]))).map (fun x => (x.1, x.2.2.1)) =
    .ok ([⟨0, 2, 99/200⟩, ⟨0, 4, 99/400⟩], [⟨[1/200, 199/200], 1⟩, ⟨[199/200, 1/200], 0⟩]) ∧
    (initScale [⟨[0, 4], 1⟩] (some ([0, 0], [2, 0]))).map (·.1) = .error .invalidRange := by
  decide +kernel

/-! ## 8. the returned class is a label (the former defect "class index ≠ label", repaired in the code) -/

/-- with labels `{1, 2}` the sample whose largest density is the one of label 1 is returned as class 1 and counted as
correct (`IsArgmaxClass` states this in general: the class is the `j`-th label of the learning data) -/
theorem class_is_label_example :
    let st : State := { exSt with learning := [⟨[1/200, 1/200], 1⟩, ⟨[199/200, 199/200], 2⟩], k := 2 }
    labelSet st.learning = [1, 2] ∧
    (test exDens st ⟨[⟨[1/2, 0], 1⟩], none⟩).map (fun x => (x.2.used, x.2.summary)) =
      .ok ([(⟨[101/400, 101/400], 1⟩, 1)], ⟨0, 1, 1⟩) := by
  decide +kernel

/-! ## 9. data sets scaled beforehand (the former defect "other origin accepted", repaired in the code) -/

/-- **a pre-scaled data set is accepted only if its scaling IS the learning scaling**: whenever `_internal_scaling`
accepts a (rectangular, non-empty) data set its owner scaled with `scale_range`, the coordinates used are exactly
the images of the raw samples under the map stored at learning time — so `scaling_is_learning_scaling` extends to
pre-scaled input; every other pre-scaling is refused -/
theorem prescaled_accepted_is_learning_scaling (st : State) (d : Data) (a b : Rat) (pts : Data) (hne : d ≠ [])
    (hrect : ∀ s ∈ d, s.pt.length = st.sc.length) (h : internalPts st ⟨d, some (a, b)⟩ = .ok pts) :
    pts = d.map (fun s => { s with pt := scalePt st.sc s.pt }) :=
  prescaled_accepted st d a b pts hne hrect h

/-- same widths, other origin (`[2,4] × [1,5]` against the learned `[0,2] × [-1,3]`): refused; the learning box itself,
scaled by its owner: accepted, at the learning positions; another target range: refused -/
theorem prescaled_example :
    (call exDens exSt ⟨[⟨[2, 1], 0⟩, ⟨[4, 5], 1⟩, ⟨[3, 3], 0⟩], some (1/200, 199/200)⟩).map (·.2) = .error .scalingMismatch ∧
    (call exDens exSt ⟨[⟨[0, -1], 0⟩, ⟨[2, 3], 1⟩, ⟨[1, 1], 0⟩], some (1/200, 199/200)⟩).map (fun x => x.2.evaluated.map (·.1)) =
      .ok [[1/200, 1/200], [199/200, 199/200], [1/2, 1/2]] ∧
    (call exDens exSt ⟨[⟨[0, -1], 0⟩, ⟨[2, 3], 1⟩], some (0, 1)⟩).map (·.2) = .error .scalingMismatch := by
  decide +kernel

/-- one-dimensional data (after the repair of `DataSet.same_scaling`): several out-of-range samples are removed and
reported, the others classified — the instance of `removed_iff_out_of_range` that used to raise `IndexError` -/
theorem removal_1d_example :
    let st : State := { exSt with sc := [⟨0, 2, 99/200⟩] }
    (call exDens st ⟨[⟨[1], 0⟩, ⟨[5], 0⟩, ⟨[7], 1⟩], none⟩).map (·.2) =
      .ok ⟨[([1/2], 0)], [⟨[62/25], 0⟩, ⟨[347/100], 1⟩]⟩ := by
  decide +kernel

end SparseSpace.C19
