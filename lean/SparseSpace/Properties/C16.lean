import SparseSpace.Lemmas.GramMisc
import SparseSpace.Lemmas.GramSimpson
import SparseSpace.Lemmas.GramUniform
import SparseSpace.Lemmas.GramPaths
/-!
# C16 — density estimation solves the right linear system

Theorems about `Model/Gram` (mirror of `DensityEstimation` in `sparseSpACE/GridOperation.py`, grids without boundary
points), for EVERY dimension, every list of strictly increasing stripes from 0 to 1 (uniform or produced by dimension-wise
refinement), every level vector, every `λ ≥ 0`, every coefficient vector, every data set.

* matrix = Gram matrix + λ·I:  `entry_same`, `entry_adjacent`, `entries_are_L2_products`, `entry_is_product`,
  `uniform_rule`, `uniform_matrix_eq`, `quadratic_form`
* symmetric positive definite: `matrix_symmetric`, `gram_lower_bound`, `matrix_positive_definite`, `matrix_positive_definite_vec`, `uniform_matrix_positive_definite`
* mass-lumped form = diagonal: `lumped_is_diagonal`, `uniform_lumped_is_gram_diagonal`
* right-hand side = signed sample mean of the basis functions: `rhs_is_sample_mean`, `rhs_large_grid_is_sample_mean`, `uniform_rhs_paths_agree`
* hat evaluations agree, cell boundaries included: `hat_paths_agree`, `hat_vectorized_agrees_on_support`, `hat_node_values`, `uniform_hat_paths_agree`
* normalisation: `normalised_weighted`, `normalised_uniform`
-/
namespace SparseSpace.C16
open SparseSpace SparseSpace.Gram

/-- example grid used for the non-vacuity checks: a 2-D dimension-wise refined grid -/
def exStripes : List (List ℚ) := [[0, 1/4, 1/2, 1], [0, 1/2, 3/4, 7/8, 1]]

theorem exStripes_unit : ∀ s ∈ exStripes, UnitStripe s := by
  intro s hs
  simp only [exStripes, List.mem_cons, List.not_mem_nil, or_false] at hs
  rcases hs with rfl | rfl <;> (unfold UnitStripe; decide +kernel)

/-- `mass_same`: the code's antiderivatives `integral_1`, `integral_2` give a third of the support width -/
theorem entry_same (I J : Hat1) (hp : I.p = J.p) (hhi : J.hi = I.hi) (h1 : I.lo < I.p) (h2 : I.p < I.hi) :
    rValue1 I J = (I.p - I.lo) / 3 + (I.hi - I.p) / 3 := rValue1_same I J hp hhi h1 h2

example : rValue1 ⟨1/4, 0, 1/2⟩ ⟨1/4, 0, 1/2⟩ = 1/6 := by decide +kernel

/-- `mass_adj`: the code's antiderivative `integral_calc` gives a sixth of the distance of the centres -/
theorem entry_adjacent (I J : Hat1) (h : I.p ≠ J.p) : rValue1 I J = |I.p - J.p| / 6 := rValue1_adj I J h

example : rValue1 ⟨1/4, 0, 1/2⟩ ⟨1/2, 1/4, 1⟩ = 1/24 := by decide +kernel

/-- the 1-D entries (adjacency test + antiderivative expressions) are the L2 scalar products of the piecewise-linear
    hats: squared hat over its two cells; product of neighbours over the shared cell (it vanishes elsewhere);
    zero for hats with disjoint supports.  Cell integrals are Simpson values, exact for these integrands (`simpson_exact`). -/
theorem entries_are_L2_products :
    (∀ h : Hat1, h.lo < h.p → h.p < h.hi →
      g1 h h = simpson (fun x => hatSpec h x * hatSpec h x) h.lo h.p + simpson (fun x => hatSpec h x * hatSpec h x) h.p h.hi) ∧
    (∀ a b : Hat1, a.lo < a.p → a.p < a.hi → b.p < b.hi → a.hi = b.p → b.lo = a.p →
      g1 a b = simpson (fun x => hatSpec a x * hatSpec b x) a.p b.p ∧ g1 b a = g1 a b ∧
      ∀ x, x ≤ a.p ∨ b.p ≤ x → hatSpec a x * hatSpec b x = 0) ∧
    (∀ a b : Hat1, a.p < a.hi → b.lo < b.p → a.hi ≤ b.lo → g1 a b = 0 ∧ g1 b a = 0 ∧ ∀ x, hatSpec a x * hatSpec b x = 0) := by
  refine ⟨g1_same_is_L2, ?_, g1_apart_is_L2⟩
  intro a b ha1 ha2 hb2 e1 e2
  refine ⟨g1_adj_is_L2 a b ha1 ha2 hb2 e1 e2, ?_, adj_product_zero_outside a b e1 e2⟩
  have hb1 : b.lo < b.p := by rw [e2, ← e1]; exact ha2
  exact (g1_symm_of_ordered a b ⟨ha1, ha2, hb1, hb2, e1.le, e2.ge, by constructor <;> intro <;> [exact e2.symm; exact e1]⟩).symm

/-- Simpson's rule is the exact integral of a product of two affine functions (difference of the antiderivative) -/
theorem simpson_is_exact (α β γ δ a b : ℚ) :
    simpson (fun x => (α + β * x) * (γ + δ * x)) a b
      = (α * γ * b + (α * δ + β * γ) * b ^ 2 / 2 + β * δ * b ^ 3 / 3) - (α * γ * a + (α * δ + β * γ) * a ^ 2 / 2 + β * δ * a ^ 3 / 3) :=
  simpson_exact α β γ δ a b

/-- d-dimensional entry (`calculate_R_value_analytically`): adjacency in every dimension, then the product of the 1-D factors -/
theorem entry_is_product (a b : Hat1) (I J : List Hat1) : rValue (a :: I) (b :: J) = g1 a b * rValue I J := rValue_cons a b I J

example : rValue [⟨1/4, 0, 1/2⟩, ⟨1/2, 0, 3/4⟩] [⟨1/2, 1/4, 1⟩, ⟨1/2, 0, 3/4⟩] = 1/24 * (1/4) := by decide +kernel

/-- uniform grids: the `1/(2^{l-1}·3)` / `1/(2^{l-1}·12)` rule with its overlap test `max(..) >= min(..)` on the indices
    is the analytic entry of the hats on the nodes `i/2^l` -/
theorem uniform_rule (l : ℕ) (i j : ℤ) : (uEntry1 l i j).getD 0 = g1 (uHat l i) (uHat l j) := uEntry1_eq_g1 l i j

example : uEntry1 3 2 3 = some (1/48) ∧ uEntry1 3 2 4 = none ∧ uEntry1 3 2 2 = some (1/12) := by decide +kernel

/-- `build_R_matrix` (uniform code path) builds exactly the matrix `build_R_matrix_dimension_wise` builds on the uniform stripes -/
theorem uniform_matrix_eq (lv : List ℕ) (lam : ℚ) : buildRU lv lam = buildRDW (uStripes lv) lam := buildRU_eq_buildRDW lv lam

example : buildRU [2, 1] (1/4) = [[11/36, 1/72, 0], [1/72, 11/36, 1/72], [0, 1/72, 11/36]] := by decide +kernel

/-- **symmetry**: the value computed from `(I, J)` equals the value computed from `(J, I)` (the loops compute one of the
    two and write it to both positions) -/
theorem matrix_symmetric (stripes : List (List ℚ)) (hv : ∀ s ∈ stripes, UnitStripe s)
    (I J : List Hat1) (hI : I ∈ hatsND stripes) (hJ : J ∈ hatsND stripes) : rValue I J = rValue J I := by
  rw [hatsND_eq_hatsRaw stripes hv] at hI hJ
  exact rValue_symm stripes (fun s h => (hv s h).1) I hI J hJ

/-- the matrix assembled by the loops IS `Gram + λ·I`: its quadratic form on any coefficient vector `x` (a function on the
    basis functions, listed in grid order) is the Gram bilinear form plus `λ·|x|²` -/
theorem quadratic_form (stripes : List (List ℚ)) (hv : ∀ s ∈ stripes, UnitStripe s) (lam : ℚ) (x : List Hat1 → ℚ) :
    qform (buildRDW stripes lam) ((hatsND stripes).map x)
      = bil rValue (hatsND stripes) x x + lam * ((hatsND stripes).map fun I => x I ^ 2).sum := by
  unfold buildRDW
  rw [hatsND_eq_hatsRaw stripes hv]
  exact qform_symFill rValue lam x _ (rValue_symm stripes fun s h => (hv s h).1)

/-- **coercivity of the Gram matrix in every dimension**: `Σ_I (Π_d (hi_d − lo_d)/6)·x_I² ≤ xᵀ G x`
    (induction over the dimension: block structure `G = G₁ ⊗ G_rest`, 1-D bound by induction over the node list) -/
theorem gram_lower_bound (stripes : List (List ℚ)) (hs : ∀ s ∈ stripes, s.Pairwise (· < ·)) (x : List Hat1 → ℚ) :
    0 ≤ lowND stripes x ∧ lowND stripes x ≤ bil rValue (hatsRaw stripes) x x :=
  SparseSpace.Gram.gram_lower_bound stripes hs x

/-- **positive definiteness**, every dimension, every grid, every `λ ≥ 0`, every non-zero coefficient vector -/
theorem matrix_positive_definite (stripes : List (List ℚ)) (hv : ∀ s ∈ stripes, UnitStripe s) (lam : ℚ) (hlam : 0 ≤ lam)
    (x : List Hat1 → ℚ) (hx : ∃ I ∈ hatsND stripes, x I ≠ 0) :
    0 < qform (buildRDW stripes lam) ((hatsND stripes).map x) := buildRDW_posdef stripes hv lam hlam x hx

/-- the same for coefficient VECTORS: every non-zero vector of length `N` (the hats of a grid are pairwise distinct, so
    every vector is the list form of a coefficient function) -/
theorem matrix_positive_definite_vec (stripes : List (List ℚ)) (hv : ∀ s ∈ stripes, UnitStripe s) (lam : ℚ) (hlam : 0 ≤ lam)
    (v : List ℚ) (hl : v.length = (hatsND stripes).length) (hne : ∃ c ∈ v, c ≠ 0) :
    0 < qform (buildRDW stripes lam) v := buildRDW_posdef_vec stripes hv lam hlam v hl hne

example : qform (buildRDW exStripes (1/8)) [1, -1, 0, 2, 0, -3] = 461/192 := by decide +kernel

example : ∃ I ∈ hatsND exStripes, (fun (I : List Hat1) => if I = [⟨1/4, 0, 1/2⟩, ⟨1/2, 0, 3/4⟩] then (1 : ℚ) else 0) I ≠ 0 :=
  ⟨[⟨1/4, 0, 1/2⟩, ⟨1/2, 0, 3/4⟩], by decide +kernel, by simp⟩

/-- the hypotheses are jointly satisfiable: instantiation on the example grid -/
example : 0 < qform (buildRDW exStripes (1/8)) ((hatsND exStripes).map
    fun (I : List Hat1) => if I = [⟨1/4, 0, 1/2⟩, ⟨1/2, 0, 3/4⟩] then (1 : ℚ) else 0) :=
  matrix_positive_definite exStripes exStripes_unit (1/8) (by norm_num) _
    ⟨[⟨1/4, 0, 1/2⟩, ⟨1/2, 0, 3/4⟩], by decide +kernel, by simp⟩

example : rValue [⟨1/4, 0, 1/2⟩, ⟨3/4, 1/2, 7/8⟩] [⟨1/2, 1/4, 1⟩, ⟨1/2, 0, 3/4⟩] = rValue [⟨1/2, 1/4, 1⟩, ⟨1/2, 0, 3/4⟩] [⟨1/4, 0, 1/2⟩, ⟨3/4, 1/2, 7/8⟩] :=
  matrix_symmetric exStripes exStripes_unit _ _ (by decide +kernel) (by decide +kernel)

/-- positive definiteness of the uniform component-grid matrix `build_R_matrix(levelvec)` -/
theorem uniform_matrix_positive_definite (lv : List ℕ) (lam : ℚ) (hlam : 0 ≤ lam)
    (x : List Hat1 → ℚ) (hx : ∃ I ∈ hatsND (uStripes lv), x I ≠ 0) :
    0 < qform (buildRU lv lam) ((hatsND (uStripes lv)).map x) := by
  rw [buildRU_eq_buildRDW]
  exact buildRDW_posdef (uStripes lv) (uStripes_unit lv) lam hlam x hx

/-- mass lumping, dimension-wise grids: the returned vector is the diagonal of the full system matrix -/
theorem lumped_is_diagonal (stripes : List (List ℚ)) (lam : ℚ) :
    buildRDWlumped stripes lam = diagOf (buildRDW stripes lam) := by
  unfold buildRDWlumped buildRDW
  rw [diagOf_symFill]

example : buildRDWlumped exStripes 0 = [1/24, 1/48, 1/72, 1/16, 1/32, 1/48] := by decide +kernel

/-- mass lumping, uniform grids: the returned scalar `diag_val` is every diagonal entry of the Gram matrix
    (as coded, `lambd` is NOT added in this branch) -/
theorem uniform_lumped_is_gram_diagonal (lv : List ℕ) :
    diagOf (buildRU lv 0) = (uIndexList lv).map fun _ => uDiag lv := by
  unfold buildRU
  rw [diagOf_symFill]
  simp

/-- right-hand side (small-grid path): entry `i` is the signed sample mean `(1/M) Σ_x s_x·φ_i(x)` of the
    piecewise-linear basis function (`s_x` the class label, 1 without classes) — for data anywhere, grid lines included -/
theorem rhs_is_sample_mean (stripes : List (List ℚ)) (hv : ∀ s ∈ stripes, UnitStripe s) (data : List (List ℚ)) (sg : List ℚ) :
    bSmallDW stripes data sg
      = (hatsND stripes).map fun h => ((List.zipWith (fun x s => hatSpecND h x * s) data sg).sum) * (1 / (data.length : ℚ)) := by
  unfold bSmallDW
  apply List.map_congr_left
  intro h hh
  rw [hatsND_eq_hatsRaw stripes hv] at hh
  have hval : ∀ a ∈ h, a.lo < a.p ∧ a.p < a.hi := hatsRaw_valid stripes (fun s hs => (hv s hs).1) h hh
  have e : (fun (x : List ℚ) (s : ℚ) => hatCV h x * s) = fun x s => hatSpecND h x * s := by
    funext x s; rw [hatCV_eq_spec h x hval]
  rw [e]

/-- the same for the large-grid path (`N >= 200`: per sample only the hats around it, scalar hat, supports by `get_hat_domain`) -/
theorem rhs_large_grid_is_sample_mean (stripes : List (List ℚ)) (hv : ∀ s ∈ stripes, UnitStripe s) (data : List (List ℚ)) (sg : List ℚ)
    (hd : ∀ x ∈ data, x.length = stripes.length) :
    bLargeDW stripes data sg
      = (hatsND stripes).map fun h => ((List.zipWith (fun x s => hatSpecND h x * s) data sg).sum) * (1 / (data.length : ℚ)) := by
  rw [bLargeDW_eq_bSmallDW stripes hv data sg hd]
  exact rhs_is_sample_mean stripes hv data sg

/-- uniform grids: both right-hand-side implementations (all hats clipped / `get_hats_in_support` + unclipped hats) agree
    for data in the closed unit cube, samples on grid lines and on the boundary included -/
theorem uniform_rhs_paths_agree (lv : List ℕ) (data : List (List ℚ)) (sg : List ℚ)
    (hd : ∀ x ∈ data, x.length = lv.length ∧ ∀ c ∈ x, 0 ≤ c ∧ c ≤ 1) : bLargeU lv data sg = bSmallU lv data sg :=
  bLargeU_eq_bSmallU lv data sg hd

example : bSmallU [2, 1] [[1/4, 1/2], [1/2, 1/2], [0, 1], [1/8, 7/8], [3/4, 1/4]] [1, 1, 1, 1, 1] = [9/40, 1/5, 1/10] := by decide +kernel

/-- **the hat code paths agree at every point** (cell boundaries, support ends, the domain boundary and points outside
    the support included): scalar `hat_function_non_symmetric` = `..._completely_vectorized` = the piecewise-linear hat -/
theorem hat_paths_agree (h : List Hat1) (x : List ℚ) (hv : ∀ a ∈ h, a.lo < a.p ∧ a.p < a.hi) :
    hatNS h x = hatSpecND h x ∧ hatCV h x = hatSpecND h x := ⟨hatNS_eq_spec h x hv, hatCV_eq_spec h x hv⟩

/-- `hat_function_non_symmetric_vectorized` (switches by `np.ceil`, no clipping; only ever called for the hats around
    the point) agrees on the closed support, for supports inside the unit interval -/
theorem hat_vectorized_agrees_on_support (h : List Hat1) (x : List ℚ)
    (hv : ∀ a ∈ h, a.lo < a.p ∧ a.p < a.hi ∧ a.p - a.lo < 1 ∧ a.hi - a.p < 1)
    (hx : ∀ a c, (a, c) ∈ h.zip x → a.lo ≤ c ∧ c ≤ a.hi) : hatV h x = hatSpecND h x := hatV_eq_spec h x hv hx

example : hatV [⟨1/4, 0, 1/2⟩, ⟨1/2, 1/4, 3/4⟩] [1/2, 1/2] = 0 ∧ hatV [⟨1/4, 0, 1/2⟩, ⟨1/2, 1/4, 3/4⟩] [1/4, 1/2] = 1
    ∧ hatV [⟨1/4, 0, 1/2⟩] [3/4] = -1 := by decide +kernel

/-- value 1 at the own node, 0 at the neighbouring nodes (support ends) and beyond, between 0 and 1 everywhere -/
theorem hat_node_values (h : Hat1) (h1 : h.lo < h.p) (h2 : h.p < h.hi) :
    hatSpec h h.p = 1 ∧ hatSpec h h.lo = 0 ∧ hatSpec h h.hi = 0 ∧ ∀ x, 0 ≤ hatSpec h x ∧ hatSpec h x ≤ 1 :=
  ⟨hatSpec_at_p h h1 h2, hatSpec_outside h h.lo (Or.inl (le_refl _)), hatSpec_outside h h.hi (Or.inr (le_refl _)),
    fun x => ⟨hatSpec_nonneg h h1 h2 x, hatSpec_le_one h h1 h2 x⟩⟩

/-- uniform grids: `hat_function` / `..._completely_vectorized` is the hat on the nodes `(i∓1)/2^l, i/2^l`, and the unclipped
    `hat_function_in_support(_vectorized)` agrees with it whenever `|2^l x − i| ≤ 1` -/
theorem uniform_hat_paths_agree (l : ℕ) (i : ℤ) (x : ℚ) :
    hatU1 l i x = hatSpec (uHat l i) x ∧ (|(2 : ℚ) ^ l * x - i| ≤ 1 → hatUin1 l i x = hatU1 l i x) :=
  ⟨hatU1_eq_spec l i x, hatUin1_eq_hatU1 l i x⟩

/-- **normalisation**, quadrature-weighted form (dimension-wise grids; non-negative weights with positive sum): whenever
    the weighted mean of the positive parts is non-zero, the returned surpluses have it equal to one -/
theorem normalised_weighted (classes : Bool) (w alpha : List ℚ) (hw : ∀ v ∈ w, 0 ≤ v) (hsum : 0 < w.sum) :
    let a1 := if classes then alpha.map (· - dot alpha w / w.sum) else alpha
    dot (posPart a1) w / w.sum ≠ 0 → dot (posPart (normaliseW classes w alpha)) w / w.sum = 1 :=
  normaliseW_mean_one classes w alpha hw hsum

example : normaliseW true [1/8, 3/16] [1, 3] = [-5/2, 5/3] := by decide +kernel

/-- **normalisation**, uniform grids (plain mean over the grid points) -/
theorem normalised_uniform (classes : Bool) (alpha : List ℚ) (hlen : alpha ≠ []) :
    let a1 := if classes then alpha.map (· - alpha.sum / (alpha.length : ℚ)) else alpha
    (posPart a1).sum / (a1.length : ℚ) ≠ 0 →
      (posPart (normaliseU classes alpha)).sum / ((normaliseU classes alpha).length : ℚ) = 1 :=
  normaliseU_mean_one classes alpha hlen

example : normaliseU false [1, -1, 2] = [1, -1, 2] ∧ normaliseU false [2, -1, 4] = [1, -1/2, 2] := by decide +kernel

end SparseSpace.C16
