import SparseSpace.Lemmas.AdaptDriverErr
/-!
# C13 — the adaptive driver honours its stopping rules and reports truthful numbers

Theorems about `Model/AdaptDriver` (mirror of `SpatiallyAdaptivBase.continue_adaptive_refinement`,
`Integration.get_global_error_estimate`, `RefinementContainer.set_benefit/get_total_error/get_max_benefit`,
`Function.f_dict`), for EVERY refinement strategy (abstract state type, abstract `eval`/`refine`), every limits,
every fuel, every history, every vector length.
-/
namespace SparseSpace.C13
open SparseSpace.Adapt

variable {S : Type}

/-- the stopping rule in the words of the property: the error is at most the tolerance and the minimum point count
is reached, or the point count EXCEEDS the maximum -/
def StopRule (L : Limits) (o : Obs) : Prop :=
  (o.err ≤ L.tol ∧ L.minE ≤ (o.pts : Int)) ∨ ∃ m, L.maxE = some m ∧ m < (o.pts : Int)

/-- the coded tests (`<=`, `>=`, strict `>`, `None` = no maximum) decide exactly that rule -/
theorem stopNow_iff (L : Limits) (o : Obs) : stopNow L o = true ↔ StopRule L o := by
  unfold stopNow StopRule
  rw [Bool.or_eq_true, Bool.and_eq_true, decide_eq_true_eq, decide_eq_true_eq]
  cases L.maxE with
  | none => simp
  | some m => simp

/-- **stops at the first evaluation satisfying the rule, never refines after it.**
If the loop returns, the number `i` of refinements it made is the LEAST evaluation index at which the rule holds;
the returned instance is the one right after evaluation `i` (not refined again), the returned error / point count
are those of evaluation `i`, and exactly `i + 1` evaluations were made. -/
theorem stops_at_first (M : Machine S) (L : Limits) (fuel : Nat) (s : S) (r : Result S)
    (h : run M L fuel s = some r) :
    StopRule L (obsAt M s r.refines) ∧ (∀ j, j < r.refines → ¬ StopRule L (obsAt M s j)) ∧
    r.state = stateAt M s r.refines ∧ r.last = obsAt M s r.refines ∧ r.evals = r.refines + 1 ∧ r.refines < fuel := by
  obtain ⟨i, hi, hb, hat, hr⟩ := (loop_eq_some_iff M L fuel s Hist.empty 0 r).1 h
  have e : r.refines = i := by rw [hr]; simp
  rw [e]
  refine ⟨(stopNow_iff L _).1 hat, ?_, by rw [hr], by rw [hr], by rw [hr]; simp, hi⟩
  intro j hj hc
  have := hb j hj
  rw [(stopNow_iff L _).2 hc] at this
  exact absurd this (by simp)

/-- **termination is exactly "the rule is met somewhere below the fuel"**, and the result does not depend on the
fuel: the loop does not return iff no evaluation below the fuel meets the rule; more fuel never changes a result. -/
theorem stops_iff (M : Machine S) (L : Limits) (fuel : Nat) (s : S) :
    (run M L fuel s = none ↔ ∀ i, i < fuel → ¬ StopRule L (obsAt M s i)) ∧
    (∀ r fuel', fuel ≤ fuel' → run M L fuel s = some r → run M L fuel' s = some r) := by
  constructor
  · rw [run, loop_eq_none_iff]
    constructor
    · intro h i hi hc
      have := h i hi
      rw [(stopNow_iff L _).2 hc] at this
      exact absurd this (by simp)
    · intro h i hi
      cases hs : stopNow L (obsAt M s i) with
      | false => rfl
      | true => exact absurd ((stopNow_iff L _).1 hs) (h i hi)
  · intro r fuel' hle hr
    exact loop_fuel_mono M L fuel fuel' s Hist.empty 0 r hle hr

/-- **one entry per evaluation in every history array**, for a fresh run and for a continued one (arrays are
appended to, never reset): the three arrays grow by exactly the observations of the evaluations made. -/
theorem arrays_len (M : Machine S) (L : Limits) (fuel : Nat) (s : S) (h : Hist) (r : Result S)
    (hr : loop M L fuel s h 0 = some r) :
    r.hist.errs = h.errs ++ (obsList M s r.evals).map (·.err) ∧
    r.hist.pts = h.pts ++ (obsList M s r.evals).map (·.pts) ∧
    r.hist.surs = h.surs ++ (obsList M s r.evals).map (·.sur) ∧
    r.hist.errs.length = h.errs.length + r.evals ∧
    r.hist.pts.length = h.pts.length + r.evals ∧
    r.hist.surs.length = h.surs.length + r.evals := by
  obtain ⟨i, _, _, _, hrr⟩ := (loop_eq_some_iff M L fuel s h 0 r).1 hr
  have e : r.evals = i + 1 := by rw [hrr]; simp
  have eh : r.hist = h.pushAll (obsList M s (i + 1)) := by rw [hrr]
  rw [e, eh, pushAll_errs, pushAll_pts, pushAll_surs]
  simp [obsList_length]

/-- replaying a recorded stream: the `i`-th evaluation of the stream machine sees the `i`-th recorded observation
(the padding value is never looked at below the length) -/
theorem stream_obsAt (d : Obs) : ∀ (l : List Obs) (i : Nat) (hi : i < l.length), obsAt (streamMachine d) l i = l[i]
  | [], i, hi => by simp at hi
  | o :: l, 0, _ => rfl
  | o :: l, i + 1, hi => by
    have := stream_obsAt d l i (by simpa using hi)
    rw [obsAt_succ']
    simpa [streamMachine] using this

/-! ### reported error -/

/-- **error estimates are never negative** (every norm, every vector length, relative or absolute) -/
theorem error_nonneg (p : Norm) (ref res : List Rat) (e : Rat) (h : globalError p ref res = some e) : 0 ≤ e := by
  unfold globalError at h
  split at h
  · rw [← Option.some.inj h]; exact normVal_nonneg p _
  · split at h
    · cases h
    · rw [← Option.some.inj h]; exact normVal_nonneg p _

/-- **the reported error is truthful**: with a reference that is zero, or has no zero component, the error is
defined, and it vanishes exactly when the reported result EQUALS the reference. -/
theorem error_zero_iff (p : Norm) (ref res : List Rat) (hne : ref ≠ []) (hlen : res.length = ref.length)
    (hz : (∀ r ∈ ref, r = 0) ∨ (∀ r ∈ ref, r ≠ 0)) :
    ∃ e, globalError p ref res = some e ∧ (e = 0 ↔ res = ref) := by
  have hres : res ≠ [] := by
    intro h; rw [h] at hlen; exact hne (List.length_eq_zero_iff.mp hlen.symm)
  rcases hz with hz | hz
  · refine ⟨normVal p res, by simp [globalError, all_eq_zero_true.mpr hz], ?_⟩
    rw [normVal_eq_zero p res hres]
    constructor
    · intro h
      apply List.ext_getElem hlen
      intro i h1 h2
      rw [h _ (List.getElem_mem h1), hz _ (List.getElem_mem h2)]
    · intro h x hx; rw [h] at hx; exact hz x hx
  · have hall : ref.all (· == 0) = false := by
      obtain ⟨y, hy⟩ := List.exists_mem_of_ne_nil ref hne
      rw [Bool.eq_false_iff]
      intro hc
      exact hz y hy (all_eq_zero_true.mp hc y hy)
    refine ⟨normVal p (relDev ref res), by simp only [globalError, hall, any_eq_zero_false.mpr hz]; simp, ?_⟩
    have hrd : relDev ref res ≠ [] := by
      intro h
      have := relDev_length ref res hlen
      rw [h] at this
      exact hne (List.length_eq_zero_iff.mp this.symm)
    rw [normVal_eq_zero p _ hrd]
    exact relDev_all_zero_iff ref res hlen hz

/-- scalar integrand: in every norm the reported error is the relative deviation `|(ref - res)/ref|` (its square for
the 2-norm, which the model keeps squared), and the absolute value `|res|` for a zero reference -/
theorem error_scalar (r x : Rat) :
    globalError .inf [r] [x] = some (if r = 0 then |x| else |(r - x) / r|) ∧
    globalError .one [r] [x] = some (if r = 0 then |x| else |(r - x) / r|) ∧
    globalError .two [r] [x] = some (if r = 0 then x * x else ((r - x) / r) * ((r - x) / r)) := by
  by_cases hr : r = 0
  · subst hr
    simp [globalError, normVal, maxR, absR_eq_abs]
  · simp [globalError, normVal, relDev, maxR, absR_eq_abs, hr]

/-- `np.inf` norm with a reference without zero component: the reported error is the LARGEST component-wise
relative deviation -/
theorem error_inf_is_max (ref res : List Rat) (hne : ref ≠ []) (hlen : res.length = ref.length)
    (hz : ∀ r ∈ ref, r ≠ 0) :
    ∃ e, globalError .inf ref res = some e ∧ (∀ x ∈ relDev ref res, |x| ≤ e) ∧ ∃ x ∈ relDev ref res, |x| = e := by
  have hall : ref.all (· == 0) = false := by
    obtain ⟨y, hy⟩ := List.exists_mem_of_ne_nil ref hne
    rw [Bool.eq_false_iff]
    intro hc
    exact hz y hy (all_eq_zero_true.mp hc y hy)
  have hrd : relDev ref res ≠ [] := by
    intro h
    have := relDev_length ref res hlen
    rw [h] at this
    exact hne (List.length_eq_zero_iff.mp this.symm)
  refine ⟨normVal .inf (relDev ref res), by simp only [globalError, hall, any_eq_zero_false.mpr hz]; simp, ?_⟩
  exact normVal_inf_spec _ hrd

/-- **per-object error estimates are never negative**: `ErrorCalculatorExtendSplit` and
`ErrorCalculatorSingleDimVolumeGuided` return `LA.norm(abs(v), norm) / len(v) ** (1/norm)` of a difference / volume
vector `v` (= `normVal p v`); `RefinementObjectExtendSplit.set_error` may divide it by `2 ** dim`. -/
theorem estimate_nonneg (p : Norm) (v : List Rat) (dim : Nat) :
    0 ≤ normVal p v ∧ 0 ≤ normVal p v / (2 : Rat) ^ dim :=
  ⟨normVal_nonneg p v, div_nonneg (normVal_nonneg p v) (pow_nonneg (by norm_num) dim)⟩

/-- **benefits and surplus errors are never negative**: a non-negative error over a non-negative number of
evaluations gives a non-negative benefit (also for 0 evaluations); the total of non-negative errors and the maximum
benefit (which starts from 0) are non-negative, and the maximum dominates every benefit. -/
theorem benefit_nonneg (e n : Rat) (he : 0 ≤ e) (hn : 0 ≤ n) (errors benefits : List Rat)
    (herr : ∀ x ∈ errors, 0 ≤ x) :
    0 ≤ benefit e n ∧ 0 ≤ totalError errors ∧ 0 ≤ maxBenefit benefits ∧ ∀ b ∈ benefits, b ≤ maxBenefit benefits :=
  ⟨benefit_nonneg' e n he hn, foldAdd_nonneg errors 0 (le_refl _) herr, foldMaxB_ge benefits 0,
   fun b hb => foldMaxB_ge_mem benefits 0 b hb⟩

/-! ### point counts -/

/-- **the reported point count is the number of distinct evaluation points**: after any sequence of calls the
cache lists every requested point exactly once and nothing else, and calls only append to it. -/
theorem points_count_distinct {P : Type} [DecidableEq P] (bs : List (List P)) :
    (cacheRun ([] : List P) bs).Nodup ∧ (∀ p, p ∈ cacheRun ([] : List P) bs ↔ ∃ b ∈ bs, p ∈ b) ∧
    ∀ b, cacheRun ([] : List P) bs <+: cacheRun ([] : List P) (bs ++ [b]) := by
  refine ⟨nodup_cacheRun bs [] List.nodup_nil, fun p => by simp [mem_cacheRun], fun b => ?_⟩
  have : cacheRun ([] : List P) (bs ++ [b]) = cacheCall (cacheRun [] bs) b := by
    simp [cacheRun, List.foldl_append]
  rw [this]
  exact prefix_cacheCall b _

/-- **point counts never decrease**: for a strategy whose evaluation only CALLS the cached integrand (no reset),
whose refinement does not touch the cache and whose reported count is the cache size, the point-count array of a run
is non-decreasing. -/
theorem points_monotone {P : Type} [DecidableEq P] (M : Machine S) (cache : S → List P)
    (hEval : ∀ s, ∃ bs, cache (M.eval s).1 = cacheRun (cache s) bs)
    (hRef : ∀ s, cache (M.refine s) = cache s)
    (hPts : ∀ s, (M.eval s).2.pts = (cache (M.eval s).1).length)
    (L : Limits) (fuel : Nat) (s : S) (r : Result S) (hr : run M L fuel s = some r) :
    r.hist.pts.Pairwise (· ≤ ·) := by
  obtain ⟨h1, h2, _⟩ := arrays_len M L fuel s Hist.empty r hr
  rw [h2, obsList_eq_map]
  simp only [Hist.empty, List.nil_append, List.map_map]
  rw [List.pairwise_map]
  exact List.Pairwise.imp (fun {a b} hab => pts_mono M cache hEval hRef hPts s a b (Nat.le_of_lt hab))
    List.pairwise_lt_range

/-! ### non-vacuity: concrete objects meeting the hypotheses -/

/-- a recorded stream: errors 1/2, 1/4, 1/8, 1/16 with 5, 9, 17, 33 points -/
def demo : List Obs := [⟨1/2, 5, 1⟩, ⟨1/4, 9, 1/2⟩, ⟨1/8, 17, 1/4⟩, ⟨1/16, 33, 1/8⟩]

-- tolerance reached at index 1 but the minimum only at index 2; the maximum (32) is exceeded only at index 3
example : (run (streamMachine ⟨0, 0, 0⟩) ⟨1/4, 10, some 32⟩ 4 demo).map (fun r => (r.refines, r.evals, r.hist.pts)) =
    some (2, 3, [5, 9, 17]) := by decide +kernel
-- limits already met at the first evaluation: maximum below the first count
example : (run (streamMachine ⟨0, 0, 0⟩) ⟨-1, 1, some 4⟩ 4 demo).map (fun r => (r.refines, r.evals)) = some (0, 1) := by
  decide +kernel
-- `pts = max` does NOT stop (strict): with max 17 the run goes on to index 3
example : (run (streamMachine ⟨0, 0, 0⟩) ⟨-1, 1, some 17⟩ 4 demo).map (fun r => r.refines) = some 3 := by decide +kernel
-- never stops within the fuel
example : (run (streamMachine ⟨0, 0, 0⟩) ⟨-1, 1, none⟩ 4 demo).isNone = true := by decide +kernel
example : StopRule ⟨1/4, 10, some 32⟩ ⟨1/8, 17, 1/4⟩ := Or.inl ⟨by decide +kernel, by decide⟩
-- error formula: vector valued, reference (1/2, 2), result (3/8, 2): relative deviations (1/4, 0)
example : globalError .inf [1/2, 2] [3/8, 2] = some (1/4) := by decide +kernel
example : globalError .one [1/2, 2] [3/8, 2] = some (1/8) := by decide +kernel
example : globalError .two [1/2, 2] [3/8, 2] = some (1/32) := by decide +kernel
example : globalError .inf [0, 0] [3/8, -2] = some 2 := by decide +kernel
example : globalError .inf [0, 2] [3/8, 2] = none := by decide +kernel
example : cacheRun ([] : List (List Int)) [[[0,0],[0,1]], [[0,1],[1,1]], [[0,0]]] = [[0,0],[0,1],[1,1]] := by decide +kernel
example : benefit (1/2) 0 = 1/2 ∧ benefit (1/2) 4 = 1/8 := by decide +kernel

/-- a toy strategy for `points_monotone`: state = (cache, level); evaluating level `n` requests the points
`0 .. 2^n` (nested grids: most of them are already cached); refining raises the level -/
def toyM : Machine (List Nat × Nat) where
  eval := fun s => ((cacheCall s.1 (List.range (2 ^ s.2 + 1)), s.2),
                    ⟨0, (cacheCall s.1 (List.range (2 ^ s.2 + 1))).length, 0⟩)
  refine := fun s => (s.1, s.2 + 1)

example : ∀ s, ∃ bs, (toyM.eval s).1.1 = cacheRun s.1 bs := fun s => ⟨[List.range (2 ^ s.2 + 1)], rfl⟩
example : ∀ s, (toyM.refine s).1 = s.1 := fun _ => rfl
example : ∀ s, (toyM.eval s).2.pts = ((toyM.eval s).1.1).length := fun _ => rfl
example : (run toyM ⟨-1, 1, some 8⟩ 6 ([], 1)).map (fun r => r.hist.pts) = some [3, 5, 9] := by decide +kernel

end SparseSpace.C13
