import SparseSpace.Model.Combi
namespace SparseSpace.C01
theorem placeholder : True := trivial
end SparseSpace.C01
