import SparseSpace.Lemmas.Combi
import SparseSpace.Lemmas.CombiStd
import SparseSpace.Lemmas.CombAdaptive
/-!
# C01 — the adaptive combination scheme is always a valid inclusion–exclusion scheme

Theorems about `Model/Combi` (mirror of `sparseSpACE/combiScheme.py`), for every dimension `dim ≥ 1`, every
`0 ≤ lmin ≤ lmax` and every finite sequence of update requests on ARBITRARY level vectors.
-/
namespace SparseSpace.C01
open SparseSpace

/-- initialisation establishes the invariant -/
theorem inv_init (dim : Nat) (lmin lmax : Int) (hd : 1 ≤ dim) (h0 : 0 ≤ lmin) (h : lmin ≤ lmax) :
    SchemeInv (CS.init dim lmax lmin) := SparseSpace.inv_init dim lmin lmax hd h0 h

/-- one update request on an arbitrary level vector (refinable or not, any length, any entries) keeps it -/
theorem inv_update (s : CS) (lv : LV) (h : SchemeInv s) : SchemeInv (s.update lv).1 :=
  SparseSpace.inv_update s lv h

/-- every reachable state satisfies the invariant -/
theorem inv_reachable (dim : Nat) (lmin lmax : Int) (hd : 1 ≤ dim) (h0 : 0 ≤ lmin) (h : lmin ≤ lmax)
    (ops : List LV) : SchemeInv (runOps (CS.init dim lmax lmin) ops) :=
  SparseSpace.inv_runOps _ ops (inv_init dim lmin lmax hd h0 h)

/-- a request on a vector that is not active changes nothing and returns `None` -/
theorem update_not_refinable (s : CS) (lv : LV) (h : lv ∉ s.active) : s.update lv = (s, none) :=
  SparseSpace.update_not_refinable s lv h

/-- the index set is downward closed above `lmin` (full componentwise order, not only neighbours) -/
theorem downward_closed (s : CS) (h : SchemeInv s) (l t : LV) (hl : l ∈ I s)
    (ht : t.length = s.dim) (hmin : geAll s.lmin t) (hle : leAll t l = true) : t ∈ I s :=
  SparseSpace.downward_closed s h l t hl ht hmin hle

/-- old and active are disjoint; no active index has a forward neighbour in the index set -/
theorem disjoint_and_no_forward (s : CS) (h : SchemeInv s) :
    (∀ l ∈ s.active, l ∉ s.old) ∧ (∀ l ∈ s.active, ∀ d < s.dim, bump l d 1 ∉ I s) :=
  ⟨h.disjoint, h.noFwd⟩

/-- **inclusion–exclusion identity**: the coefficients of the returned grids dominating `t` sum to `[t ∈ I]` -/
theorem coeff_identity (s : CS) (h : SchemeInv s) (t : LV) (ht : t.length = s.dim) (hmin : geAll s.lmin t) :
    domSum s.coeffs t = if t ∈ I s then 1 else 0 :=
  SparseSpace.coeff_identity s h t ht hmin

/-- returned grids lie in the index set, have non-zero coefficient and are returned once -/
theorem coeff_support (s : CS) (h : SchemeInv s) :
    (∀ p ∈ s.coeffs, p.1 ∈ I s ∧ p.2 ≠ 0) ∧ (s.coeffs.map (·.1)).Nodup :=
  SparseSpace.coeff_support s h

/-- the coefficients sum to 1 -/
theorem coeff_total (s : CS) (h : SchemeInv s) : (s.coeffs.map (·.2)).sum = 1 :=
  SparseSpace.coeff_total s h

/-- all of the above for every reachable state, in one statement -/
theorem reachable_scheme_valid (dim : Nat) (lmin lmax : Int) (hd : 1 ≤ dim) (h0 : 0 ≤ lmin) (h : lmin ≤ lmax)
    (ops : List LV) (t : LV) (ht : t.length = dim) (hmin : geAll lmin t) :
    let s := runOps (CS.init dim lmax lmin) ops
    domSum s.coeffs t = if t ∈ I s then 1 else 0 := by
  intro s
  have hs : SchemeInv s := inv_reachable dim lmin lmax hd h0 h ops
  have hdim : s.dim = dim := SparseSpace.runOps_dim _ ops
  have hlm : s.lmin = lmin := SparseSpace.runOps_lmin _ ops
  exact coeff_identity s hs t (by rw [hdim]; exact ht) (by rw [hlm]; exact hmin)

/-- non-vacuity: a concrete reachable state (dim 2, lmin 1, lmax 3, two updates) and a concrete `t` -/
example : (runOps (CS.init 2 3 1) [[1,3],[2,2]]).active = [[3,1],[1,4],[2,3]] := by decide
example : domSum (runOps (CS.init 2 3 1) [[1,3],[2,2]]).coeffs [1,2] = 1 := by decide
example : domSum (runOps (CS.init 2 3 1) [[1,3],[2,2]]).coeffs [3,2] = 0 := by decide

/-- **closed form = fresh adaptive scheme**: the non-adaptive `(-1)^q·C(dim-1,q)` scheme returned by
`getCombiScheme(lmin, lmax)` and the scheme of a freshly initialised adaptive `CombiScheme` contain the same
(level vector, coefficient) pairs (as multisets — what comparing the sorted lists observes) -/
theorem std_perm_init (dim : Nat) (lmin lmax : Int) (hd : 1 ≤ dim) (h0 : 0 ≤ lmin) (h : lmin ≤ lmax) :
    (stdScheme dim lmin lmax).Perm (CS.init dim lmax lmin).coeffs :=
  SparseSpace.std_perm_init dim lmin lmax hd h0 h

/-- the same coefficient-wise -/
theorem std_eq_init_lookup (dim : Nat) (lmin lmax : Int) (hd : 1 ≤ dim) (h0 : 0 ≤ lmin) (h : lmin ≤ lmax) (l : LV) :
    lookup (stdScheme dim lmin lmax) l = lookup (CS.init dim lmax lmin).coeffs l :=
  SparseSpace.std_eq_init_lookup dim lmin lmax hd h0 h l

/-- consequence used by C02/C03/C07: on every state satisfying the invariant the combination of any family `F`
that only depends on `l ⊓ k` (k in the index set) collapses to `F k` -/
theorem combination_collapses {V : Type} [AddCommGroup V] (s : CS) (h : SchemeInv s)
    (k : LV) (hkI : k ∈ I s) (F : LV → V) (hF : ∀ p ∈ s.coeffs, F p.1 = F (meet p.1 k)) :
    (s.coeffs.map fun p => p.2 • F p.1).sum = F k :=
  SparseSpace.adaptive_collapse s h k hkI F hF

example : (stdScheme 3 1 3).Perm (CS.init 3 3 1).coeffs := std_perm_init 3 1 3 (by decide) (by decide) (by decide)

end SparseSpace.C01
