import SparseSpace.Lemmas.GlobalQuadMod
/-!
# C09 — global adaptive 1-D quadrature rules on every refinement-tree grid

Theorems about `Model/GlobalQuad` (mirror of `GlobalTrapezoidalGrid.compute_weights` and `GlobalGrid.set_grid`,
`sparseSpACE/Grid.py`), for EVERY point list (any length, any rationals; sortedness only where stated).
`plIntegral` is the cell-by-cell integral of the piecewise-linear interpolant, defined independently of the
weight formulas.  The high-order / hierarchical families have no exact model here (validated by the oracle).
-/
namespace SparseSpace.C09
open SparseSpace SparseSpace.GlobalQuad

/-- **boundary points on**: the rule equals the exact integral of the piecewise-linear interpolant
(every point list, every value table; the unmodified branch never raises) -/
theorem trap_eq_plIntegral (pts vals : List Rat) (a b : Rat) (h : pts.length = vals.length) :
    ∃ ws, computeWeights pts a b false = .ok ws ∧ ws.length = pts.length ∧ dot ws vals = plIntegral pts vals :=
  ⟨trapAux none pts, computeWeights_plain pts a b, trapAux_length pts none, dot_trap_eq_plIntegral pts vals h⟩

example : computeWeights [0, 1/2, 3/4, 1] 0 1 false = .ok [1/4, 3/8, 1/4, 1/8] := by
  rw [computeWeights_plain]; norm_num [trapAux, lp]

/-- **boundary points off** (no modified basis): `set_grid` keeps exactly the points `[1:-1]` with their
unchanged weights, and the rule is the integral of the interpolant with ZERO boundary values -/
theorem trap_zero_boundary (pts ivals : List Rat) (levels : List Int) (a b : Rat)
    (hl : ivals.length + 2 = pts.length) (hlev : levels.length = pts.length) (hs : sortedLe pts = true) :
    ∃ g ws, setGrid false false a b pts levels = .ok g ∧ computeWeights pts a b false = .ok ws ∧
      g.coords = dropEnds pts ∧ g.weights = dropEnds ws ∧ dot g.weights ivals = plIntegralZero pts ivals := by
  refine ⟨⟨dropEnds pts, dropEnds (trapAux none pts), (levels.drop 1).dropLast⟩, trapAux none pts, ?_, computeWeights_plain pts a b, rfl, rfl, ?_⟩
  · simp [setGrid, hlev, hs, computeWeights_plain, dropEnds]
  · show dot (dropEnds (trapAux none pts)) ivals = plIntegral pts (0 :: (ivals ++ [0]))
    rw [← dot_zeroPad _ _ (by rw [trapAux_length]; omega)]
    exact dot_trap_eq_plIntegral pts _ (by simp; omega)

/-- **modified basis** (boundary points off): on every strictly increasing grid with ≥ 3 points from `a` to `b`
`set_grid` succeeds — no division by zero and the code's own self-assert `Σw ≈ b-a` is satisfied, in fact
`Σw = b-a` exactly — keeps exactly the interior points, and the rule equals the exact integral of the
piecewise-linear interpolant of the interior values continued into both boundary cells by linear
extrapolation from the two nearest interior points (constant for a single interior point).
Covers all special cases of the code: 3 points, 4 points, 5 points (`i == 2 == len-3`), ≥ 6 points. -/
theorem modTrap_eq_plIntegral_extrap (pts ivals : List Rat) (levels : List Int) (a b : Rat)
    (h3 : 3 ≤ pts.length) (hl : ivals.length + 2 = pts.length) (hlev : levels.length = pts.length)
    (hs : pts.Pairwise (· < ·)) (ha : pts.head? = some a) (hb : pts.getLast? = some b) :
    ∃ g, setGrid false true a b pts levels = .ok g ∧ g.coords = dropEnds pts ∧
      sumR g.weights = b - a ∧ dot g.weights ivals = plIntegralExtrap pts ivals := by
  obtain ⟨ws, hw, _, hsum, hint⟩ := mod_core pts a b h3 hs ha hb
  refine ⟨⟨dropEnds pts, dropEnds ws, (levels.drop 1).dropLast⟩, ?_, rfl, hsum, hint ivals hl⟩
  simp [setGrid, hlev, sortedLe_of_pairwise pts hs, hw, dropEnds]

example : ([0, 1/8, 1/4, 1/2, 1] : List Rat).Pairwise (· < ·) := by norm_num

/-- the same for the raw return value of `compute_weights` (whatever the code returns, if it returns) -/
theorem modTrap_weights_eq_plIntegral_extrap (pts ivals ws : List Rat) (a b : Rat)
    (h3 : 3 ≤ pts.length) (hl : ivals.length + 2 = pts.length)
    (hs : pts.Pairwise (· < ·)) (ha : pts.head? = some a) (hb : pts.getLast? = some b)
    (hw : computeWeights pts a b true = .ok ws) :
    sumR (dropEnds ws) = b - a ∧ dot (dropEnds ws) ivals = plIntegralExtrap pts ivals := by
  obtain ⟨ws', hw', _, hsum, hint⟩ := mod_core pts a b h3 hs ha hb
  rw [hw'] at hw
  have : ws' = ws := by injection hw
  subst this
  exact ⟨hsum, hint ivals hl⟩

/-- **linear exactness, boundary points on**: every linear function is integrated exactly over
`[first point, last point]`, for every non-empty point list (sorted or not) -/
theorem trap_linear_exact (α β x : Rat) (rest : List Rat) (a b : Rat) :
    ∃ ws, computeWeights (x :: rest) a b false = .ok ws ∧
      dot ws ((x :: rest).map fun t => α * t + β) =
        α * (((x :: rest).getLast (by simp)) * ((x :: rest).getLast (by simp)) - x * x) / 2
          + β * (((x :: rest).getLast (by simp)) - x) := by
  refine ⟨trapAux none (x :: rest), computeWeights_plain _ a b, ?_⟩
  rw [dot_trap_eq_plIntegral _ _ (by simp)]
  exact plIntegral_linear α β rest x

/-- **linear exactness, modified basis**: with at least two interior points every linear function is integrated
exactly over `[a,b]` by the interior points alone -/
theorem modTrap_linear_exact (α β : Rat) (pts : List Rat) (levels : List Int) (a b : Rat)
    (h4 : 4 ≤ pts.length) (hlev : levels.length = pts.length)
    (hs : pts.Pairwise (· < ·)) (ha : pts.head? = some a) (hb : pts.getLast? = some b) :
    ∃ g, setGrid false true a b pts levels = .ok g ∧
      dot g.weights (g.coords.map fun t => α * t + β) = α * (b * b - a * a) / 2 + β * (b - a) := by
  obtain ⟨g, hg, hc, _, hint⟩ := modTrap_eq_plIntegral_extrap pts ((dropEnds pts).map fun t => α * t + β) levels a b
    (by omega) (by rw [List.length_map, dropEnds_length]; omega) hlev hs ha hb
  refine ⟨g, hg, ?_⟩
  rw [hc, hint, plIntegralExtrap_linear α β pts h4 hs]
  match pts, h4 with
  | x :: rest, _ =>
    have hx : x = a := by simpa using ha
    have hl := getLast_of_getLast? (x :: rest) (by simp) b hb
    rw [plIntegral_linear α β rest x, hl, hx]

/-- three points (ONE interior point) with the modified basis: the rule is `(b-a)·f(x₁)`; it is exact for all
linear functions iff `x₁` is the midpoint — and no one-point rule whatsoever can do better, so the
linear-exactness clause is read for grids with ≥ 2 interior points or a centred single one -/
theorem modTrap_three (a x1 b : Rat) (h : a < x1) (h' : x1 < b) :
    computeWeights [a, x1, b] a b true = .ok [0, b - a, 0] ∧
    ((∀ α β : Rat, dot [b - a] [α * x1 + β] = α * (b * b - a * a) / 2 + β * (b - a)) ↔ x1 = (a + b) / 2) ∧
    (∀ w : Rat, w * 1 = b - a → w * x1 = (b * b - a * a) / 2 → x1 = (a + b) / 2) := by
  refine ⟨?_, ⟨?_, ?_⟩, ?_⟩
  · obtain ⟨ws, hw, _, _, _⟩ := mod_core [a, x1, b] a b (by simp) (by simp [h, h', lt_trans h h']) rfl rfl
    have : computeWeights [a, x1, b] a b true = .ok [0, b - a, 0] ∨ computeWeights [a, x1, b] a b true = .error .assert := by
      simp only [computeWeights, if_true, computeWeightsMod]; split_ifs <;> simp
    rcases this with h1 | h1
    · exact h1
    · rw [h1] at hw; cases hw
  · intro hall
    have h1 := hall 1 0
    simp [dot] at h1
    have hne : b - a ≠ 0 := by intro hh; linarith
    have : (b - a) * x1 = (b - a) * ((a + b) / 2) := by rw [h1]; ring
    exact mul_left_cancel₀ hne this
  · intro hx α β; subst hx; simp [dot]; ring
  · intro w hw1 hw2
    have hne : b - a ≠ 0 := by intro hh; linarith
    have : (b - a) * x1 = (b - a) * ((a + b) / 2) := by
      rw [← hw1]; simp only [mul_one]; rw [hw2]; rw [mul_one] at hw1; rw [hw1]; ring
    exact mul_left_cancel₀ hne this

/-- **non-negative weights, unmodified rule**: sorted points (`≤`, duplicates allowed) give weights `≥ 0` -/
theorem trap_nonneg (pts : List Rat) (a b : Rat) (hs : sortedLe pts = true) :
    ∃ ws, computeWeights pts a b false = .ok ws ∧ ∀ w ∈ ws, 0 ≤ w :=
  ⟨trapAux none pts, computeWeights_plain pts a b,
    trapAux_nonneg pts none hs (by intro p x hp _; cases hp)⟩

example : sortedLe [0, 1/2, 1/2, 3/4, 1] = true := by norm_num [sortedLe]

/-- … and the restriction to the unmodified rule is necessary: a graded grid with a negative modified weight -/
theorem modTrap_can_be_negative :
    ∃ ws, computeWeights [0, 1/2, 5/8, 3/4, 7/8, 1] 0 1 true = .ok ws ∧ ∃ w ∈ ws, w < 0 := by
  obtain ⟨ws, hw, _, _, hint⟩ := mod_core [0, 1/2, 5/8, 3/4, 7/8, 1] 0 1 (by simp) (by norm_num) rfl rfl
  refine ⟨ws, hw, ?_⟩
  have h5 := computeWeights_mod_ge5 _ ws 0 1 (by simp) hw
  refine ⟨-7/8, ?_, by norm_num⟩
  rw [h5]
  norm_num [zeroEnds, dropEnds, cwLoop, hd1, hd2]

/-- **the weights depend on the point set only**: the level lists are an input of `set_grid` but never reach the
weight function — two calls with the same points and different (equally long) level lists return identical
coordinates and weights, for every flag combination, including the failing ones -/
theorem weights_depend_on_points_only (boundary md : Bool) (a b : Rat) (pts : List Rat) (lv1 lv2 : List Int)
    (h1 : lv1.length = pts.length) (h2 : lv2.length = pts.length) :
    (setGrid boundary md a b pts lv1).map (fun g => (g.coords, g.weights)) =
    (setGrid boundary md a b pts lv2).map (fun g => (g.coords, g.weights)) := by
  unfold setGrid
  simp only [h1, h2]
  split_ifs <;> first | rfl | (cases computeWeights pts a b md <;> rfl)

example : (setGrid true false 0 1 [0, 1/2, 1] [0, 1, 0]).map (fun g => g.weights) = .ok [1/4, 1/2, 1/4] := by
  simp only [setGrid]
  norm_num [sortedLe, computeWeights_plain, trapAux, lp, Except.map]

/-- **tensor lift** (`get_weights` = products of the 1-D weights in `itertools.product` order): the 2-D rule
applied to a product function is the product of the 1-D rules, so every exactness statement above lifts to
products — in particular bilinear functions are integrated exactly on every pair of point lists with boundary -/
theorem tensor_exact (ws fs vs gs : List Rat) (h : vs.length = gs.length) :
    dot (tensor ws vs) (tensor fs gs) = dot ws fs * dot vs gs := dot_tensor ws fs vs gs h

theorem tensor_bilinear_exact (α₁ β₁ α₂ β₂ x y : Rat) (rx ry : List Rat) (a b c d : Rat) :
    ∃ ws vs, computeWeights (x :: rx) a b false = .ok ws ∧ computeWeights (y :: ry) c d false = .ok vs ∧
      dot (tensor ws vs) (tensor ((x :: rx).map fun t => α₁ * t + β₁) ((y :: ry).map fun t => α₂ * t + β₂)) =
        (α₁ * (((x :: rx).getLast (by simp)) * ((x :: rx).getLast (by simp)) - x * x) / 2
          + β₁ * (((x :: rx).getLast (by simp)) - x)) *
        (α₂ * (((y :: ry).getLast (by simp)) * ((y :: ry).getLast (by simp)) - y * y) / 2
          + β₂ * (((y :: ry).getLast (by simp)) - y)) := by
  obtain ⟨ws, hw, hws⟩ := trap_linear_exact α₁ β₁ x rx a b
  obtain ⟨vs, hv, hvs⟩ := trap_linear_exact α₂ β₂ y ry c d
  refine ⟨ws, vs, hw, hv, ?_⟩
  have hl : vs.length = ((y :: ry).map fun t => α₂ * t + β₂).length := by
    rw [computeWeights_plain] at hv
    have : vs = trapAux none (y :: ry) := by injection hv with h; exact h.symm
    rw [this, trapAux_length]; simp
  rw [dot_tensor _ _ _ _ hl, hws, hvs]

example : tensor [1/4, 1/2, 1/4] [1/2, 1/2] = [1/8, 1/8, 1/4, 1/4, 1/8, 1/8] := by
  norm_num [tensor]

end SparseSpace.C09
