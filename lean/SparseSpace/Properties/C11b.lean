import SparseSpace.Lemmas.RombergDegreeFullUnit
import SparseSpace.Lemmas.RombergDegreeBal
/-!
# C11 (extension) — degree of exactness `2m+1` of the default Romberg variant, for EVERY depth `m`

Replaces the partial statement `C11.romberg_degree_partial` (degree `≤ 3`).  All statements are about the model
definitions of `Model/Romberg` that the driver executes (`setGrid`, `EG.weights`, `weights`, `dot`, `coeff`), about
`cellTrap` (`Lemmas/RombergDegree`: composite trapezoid sum with `2^j` cells) and about

* `polyInt p a b = Σ_n p_n · (b^(n+1) - a^(n+1)) / (n+1)`, the exact integral `∫_a^b p` of a polynomial `p : ℚ[X]`,
* `completeGrid a b m`, the complete dyadic grid of depth `m` on `[a,b]` with its refinement levels.

Route: Faulhaber's formula (Mathlib `sum_range_pow`) gives the exact Euler–Maclaurin expansion of the trapezoid sums of
`t^p` on `[0,1]` in EVEN powers of the step width (`B_1` is cancelled by the end-point correction, `B_i = 0` for odd
`i ≥ 3`); the Romberg coefficients annihilate the powers `h^2, …, h^{2m}` (`C11.romberg_coeff_order`) and sum to one
(`C11.romberg_coeff_sum`); Taylor expansion at the left end point transports the monomials to any interval and any
polynomial.  `GROUPED` / `GROUPED_OPTIMIZED`: the complete grid is one default container (`C11.container_default_is_romberg`).
`UNIT` with Romberg slices: the slices below a support pair tile it, so the sliced rule is `Σ_j c_{m,j} T_j` as well.
Balanced extrapolation grid (degree `2m-1`, `m ≥ 1`): its rows on a complete tree are the composite midpoint sums
`M_j = 2 T_{j+1} - T_j` (same even expansion), and step `k` of its Romberg table removes the `h^{2k}` term.
-/
namespace SparseSpace.C11b
open SparseSpace SparseSpace.Romberg Polynomial

/-- **exact Euler–Maclaurin expansion of the trapezoid sums of a monomial**: for `p ≥ 1` there are coefficients
    `γ_0 = 1/(p+1) = ∫_0^1 t^p`, `γ_i = 0` for every odd `i`, such that for EVERY `j` the composite trapezoid sum of `t^p`
    with `2^j` cells on `[0,1]` is `Σ_{i ≤ p} γ_i · (1/2^j)^i` — an expansion in even powers of the step width with
    coefficients independent of the step width (`γ_i = B_i · C(p+1,i) / (p+1)`, Bernoulli numbers) -/
theorem trapezoid_monomial_expansion (p : ℕ) (hp : 1 ≤ p) :
    ∃ γ : ℕ → ℚ, γ 0 = 1 / ((p : ℚ) + 1) ∧ (∀ i, Odd i → γ i = 0) ∧
      ∀ j : ℕ, cellTrap (fun t => t ^ p) j 0 1 = ∑ i ∈ Finset.range (p + 1), γ i * (1 / 2 ^ j) ^ i :=
  ⟨gam p, gam_zero p, fun i hi => gam_odd p i hi, fun j => cellTrap_monomial_unit p j hp⟩

/-- non-vacuity: `t^4` with 1, 2 and 4 cells — `1/5 + (1/3) h² - (1/30) h⁴` -/
example : cellTrap (fun t => t ^ 4) 0 0 1 = 1 / 2 ∧ cellTrap (fun t => t ^ 4) 1 0 1 = 9 / 32 ∧
    cellTrap (fun t => t ^ 4) 2 0 1 = 113 / 512 := by
  refine ⟨?_, ?_, ?_⟩ <;> simp only [cellTrap] <;> norm_num

/-- **Romberg's rule of depth `m` has degree of exactness `2m+1`**: `Σ_{j ≤ m} c_{m,j} T_j(p) = ∫_x^{x+W} p` for every
    polynomial `p` of degree `≤ 2m+1`, every `m ≥ 0`, every interval `[x, x+W]` (`T_j` = composite trapezoid sum with
    `2^j` cells, `c_{m,j}` = the coded coefficients of exponent 2 on any interval `a ≠ b`) -/
theorem romberg_rule_degree (a b : ℚ) (hab : a ≠ b) (m : ℕ) (p : ℚ[X]) (hp : p.natDegree ≤ 2 * m + 1) (x W : ℚ) :
    ∑ j ∈ Finset.range (m + 1), coeff a b 2 m j * cellTrap (fun y => p.eval y) j x W = polyInt p x (x + W) :=
  romberg_poly a b hab m p hp x W

/-- the monomial case written out -/
theorem romberg_rule_degree_monomial (a b : ℚ) (hab : a ≠ b) (m n : ℕ) (hn : n ≤ 2 * m + 1) (x W : ℚ) :
    ∑ j ∈ Finset.range (m + 1), coeff a b 2 m j * cellTrap (fun y => y ^ n) j x W
      = ((x + W) ^ (n + 1) - x ^ (n + 1)) / ((n : ℚ) + 1) :=
  romberg_monomial a b hab m n hn x W

/-- non-vacuity, and the bound is sharp for `m = 1` (Simpson's rule): `t^3` is integrated exactly, `t^4` is not -/
example : ∑ j ∈ Finset.range 2, coeff 0 1 2 1 j * cellTrap (fun y => y ^ 3) j 0 1 = 1 / 4 ∧
    ∑ j ∈ Finset.range 2, coeff 0 1 2 1 j * cellTrap (fun y => y ^ 4) j 0 1 ≠ 1 / 5 := by
  have c0 : coeff 0 1 2 1 0 = -1 / 3 := by decide +kernel
  have c1 : coeff 0 1 2 1 1 = 4 / 3 := by decide +kernel
  refine ⟨?_, ?_⟩ <;> simp only [Finset.sum_range_succ, Finset.sum_range_zero, c0, c1, cellTrap] <;> norm_num

/-- **degree clause (generalises `C11.romberg_degree_partial` from degree 3 to degree `2m+1`, every `m ≥ 0`)**:
    whenever `set_grid` and `get_weights` succeed with default containers and all slices of the grid form ONE container
    of `2^m` slices (what `GROUPED` / `GROUPED_OPTIMIZED` produce on the complete dyadic grid of depth `m`, see
    `romberg_degree_complete_grid`), `integrate` is exact for every polynomial of degree `≤ 2m+1`:
    `Σ_i w_i p(x_i) = ∫_a^b p` -/
theorem romberg_degree (cfg : Cfg) (grid : List ℚ) (lv : List ℕ) (st : EG) (ws : List ℚ)
    (hcv : cfg.contVer = .default) (h1 : setGrid cfg grid lv = some st) (h2 : st.weights cfg = some ws)
    (c : List Slice) (hc : st.containers = [c]) (m : ℕ) (hm : c.length = 2 ^ m)
    (p : ℚ[X]) (hp : p.natDegree ≤ 2 * m + 1) :
    dot ws (st.grid.map (fun y => p.eval y)) = polyInt p st.a st.b :=
  single_container_poly cfg grid lv st ws hcv h1 h2 c hc m hm p hp

/-- the same for the monomials `y^n`, `n ≤ 2m+1`: `Σ_i w_i x_i^n = (b^(n+1) - a^(n+1)) / (n+1)` -/
theorem romberg_degree_monomial (cfg : Cfg) (grid : List ℚ) (lv : List ℕ) (st : EG) (ws : List ℚ)
    (hcv : cfg.contVer = .default) (h1 : setGrid cfg grid lv = some st) (h2 : st.weights cfg = some ws)
    (c : List Slice) (hc : st.containers = [c]) (m : ℕ) (hm : c.length = 2 ^ m) (n : ℕ) (hn : n ≤ 2 * m + 1) :
    dot ws (st.grid.map (fun y => y ^ n)) = (st.b ^ (n + 1) - st.a ^ (n + 1)) / ((n : ℚ) + 1) := by
  have h := romberg_degree cfg grid lv st ws hcv h1 h2 c hc m hm (X ^ n) (by rw [natDegree_X_pow]; exact hn)
  simp only [eval_pow, eval_X] at h
  rw [h, polyInt_X_pow]

/-- non-vacuity: the complete grid of depth 2 on `[1,3]` with `GROUPED` slices is one container of `4 = 2^2` slices
    and both calls succeed (hypotheses of `romberg_degree` with `m = 2`); the returned weights (Boole's rule) integrate
    `y^5` exactly and do not integrate `y^6` exactly — the degree `2m+1` is sharp here -/
example : (setGrid ⟨.grouped, .romberg, .default, false⟩ [1, 3/2, 2, 5/2, 3] [0, 2, 1, 2, 0]).map
      (fun st => (st.containers.map List.length, st.a, st.b, st.weights ⟨.grouped, .romberg, .default, false⟩))
    = some ([4], 1, 3, some [7/45, 32/45, 4/15, 32/45, 7/45]) := by decide +kernel
example : dot [7/45, 32/45, 4/15, 32/45, 7/45] ([1, 3/2, 2, 5/2, 3].map (fun y : ℚ => y ^ 5)) = (3 ^ 6 - 1 ^ 6) / 6 ∧
    dot [7/45, 32/45, 4/15, 32/45, 7/45] ([1, 3/2, 2, 5/2, 3].map (fun y : ℚ => y ^ 6)) ≠ (3 ^ 7 - 1 ^ 7) / 7 := by
  refine ⟨?_, ?_⟩ <;> simp only [dot, List.map] <;> norm_num

/-- **the degree clause on the complete dyadic grid, unconditional**: for every interval `a < b`, every depth `m ≥ 0`,
    grouping `GROUPED` or `GROUPED_OPTIMIZED`, either slice version, default containers, with or without
    `force_balanced_refinement_tree`: `set_grid` + `get_weights` on the complete dyadic grid of depth `m` return
    `2^m + 1` weights, and `integrate` is exact for every polynomial of degree `≤ 2m+1` -/
theorem romberg_degree_complete_grid (cfg : Cfg) (hg : cfg.grouping ≠ .unit) (hcv : cfg.contVer = .default)
    (a b : ℚ) (hab : a < b) (m : ℕ) (p : ℚ[X]) (hp : p.natDegree ≤ 2 * m + 1) :
    ∃ ws, weights cfg (completeGrid a b m).1 (completeGrid a b m).2 = .ok ws ∧ ws.length = 2 ^ m + 1 ∧
      dot ws ((completeGrid a b m).1.map (fun y => p.eval y)) = polyInt p a b :=
  complete_grid_degree cfg hg hcv a b hab m p hp

/-- non-vacuity: `completeGrid` is the complete dyadic grid with the levels of the refinement -/
example : completeGrid 1 3 2 = ([1, 3/2, 2, 5/2, 3], [0, 2, 1, 2, 0]) ∧
    completeGrid 0 1 3 = ([0, 1/8, 1/4, 3/8, 1/2, 5/8, 3/4, 7/8, 1], [0, 3, 2, 3, 1, 3, 2, 3, 0]) ∧
    completeGrid (-1) 1 0 = ([-1, 1], [0, 0]) := by decide +kernel

/-- **`UNIT` grouping with Romberg slices on a complete grid is Romberg's rule**: on the complete dyadic grid of depth
    `m` (any container version, with or without forced completion) the weights are returned and, for EVERY integrand
    `f`, `integrate` equals `Σ_{j ≤ m} c_{m,j} T_j(f)` (the slices below a support pair tile it, so the level-`j`
    contributions of all slices add up to the composite trapezoid sum with `2^j` cells) -/
theorem unit_complete_grid_is_romberg (cfg : Cfg) (hg : cfg.grouping = .unit) (hsv : cfg.sliceVer = .romberg)
    (a b : ℚ) (hab : a < b) (m : ℕ) :
    ∃ ws, weights cfg (completeGrid a b m).1 (completeGrid a b m).2 = .ok ws ∧
      ws.length = (completeGrid a b m).1.length ∧
      ∀ f : ℚ → ℚ, dot ws ((completeGrid a b m).1.map f)
        = ∑ j ∈ Finset.range (m + 1), coeff a b 2 m j * cellTrap f j a (b - a) :=
  complete_unit_is_romberg cfg hg hsv _ _ a b _ m hab (completeGrid_zip a b m).1 (completeGrid_zip a b m).2
    (completeInner_cseg m (a, 0) (b, 0))

/-- the degree clause for `UNIT` grouping with Romberg slices on the complete dyadic grid -/
theorem romberg_degree_complete_grid_unit (cfg : Cfg) (hg : cfg.grouping = .unit) (hsv : cfg.sliceVer = .romberg)
    (a b : ℚ) (hab : a < b) (m : ℕ) (p : ℚ[X]) (hp : p.natDegree ≤ 2 * m + 1) :
    ∃ ws, weights cfg (completeGrid a b m).1 (completeGrid a b m).2 = .ok ws ∧ ws.length = 2 ^ m + 1 ∧
      dot ws ((completeGrid a b m).1.map (fun y => p.eval y)) = polyInt p a b :=
  complete_grid_degree_unit cfg hg hsv a b hab m p hp

/-- **the degree clause of C11 for the default Romberg variants**: slice version and container version
    `ROMBERG_DEFAULT`, ALL three groupings (`UNIT`, `GROUPED`, `GROUPED_OPTIMIZED`), with or without
    `force_balanced_refinement_tree`, every interval `a < b`, every depth `m ≥ 0`: on the complete dyadic grid of depth
    `m`, `set_grid` + `get_weights` return `2^m + 1` weights and `integrate` is exact for every polynomial of degree
    `≤ 2m+1` -/
theorem romberg_degree_default_variants (cfg : Cfg) (hsv : cfg.sliceVer = .romberg) (hcv : cfg.contVer = .default)
    (a b : ℚ) (hab : a < b) (m : ℕ) (p : ℚ[X]) (hp : p.natDegree ≤ 2 * m + 1) :
    ∃ ws, weights cfg (completeGrid a b m).1 (completeGrid a b m).2 = .ok ws ∧ ws.length = 2 ^ m + 1 ∧
      dot ws ((completeGrid a b m).1.map (fun y => p.eval y)) = polyInt p a b := by
  by_cases hg : cfg.grouping = .unit
  · exact romberg_degree_complete_grid_unit cfg hg hsv a b hab m p hp
  · exact romberg_degree_complete_grid cfg hg hcv a b hab m p hp

/-- non-vacuity: the three groupings (and forced completion) on the complete grid of depth 2 on `[1,3]` all return
    Boole's weights -/
example : weights ⟨.unit, .romberg, .default, false⟩ (completeGrid 1 3 2).1 (completeGrid 1 3 2).2
      = .ok [7/45, 32/45, 4/15, 32/45, 7/45] ∧
    weights ⟨.grouped, .romberg, .default, true⟩ (completeGrid 1 3 2).1 (completeGrid 1 3 2).2
      = .ok [7/45, 32/45, 4/15, 32/45, 7/45] ∧
    weights ⟨.optimized, .romberg, .default, false⟩ (completeGrid 1 3 2).1 (completeGrid 1 3 2).2
      = .ok [7/45, 32/45, 4/15, 32/45, 7/45] := by decide +kernel

/-! ## the balanced extrapolation grid: degree `2m-1` -/

/-- **exact Euler–Maclaurin expansion of the composite midpoint sums of a monomial** (`cellMid f j x W`: midpoint sum
    with `2^j` cells; `cellMid = 2·cellTrap (j+1) - cellTrap j`): coefficients independent of `j`, odd ones vanish,
    constant term `1/(p+1)` -/
theorem midpoint_monomial_expansion (p : ℕ) (hp : 1 ≤ p) :
    ∃ γ : ℕ → ℚ, γ 0 = 1 / ((p : ℚ) + 1) ∧ (∀ i, Odd i → γ i = 0) ∧
      ∀ j : ℕ, cellMid (fun t => t ^ p) j 0 1 = ∑ i ∈ Finset.range (p + 1), γ i * ((1 / 2 : ℚ) ^ j) ^ i := by
  refine ⟨fun i => gam p i * (2 * (1 / 2) ^ i - 1), ?_, ?_, fun j => cellMid_monomial_unit p j hp⟩
  · simp only [gam_zero, pow_zero]; ring
  · intro i hi; simp only [gam_odd p i hi, zero_mul]

example : cellMid (fun t => t ^ 2) 0 0 1 = 1 / 4 ∧ cellMid (fun t => t ^ 2) 1 0 1 = 5 / 16 := by
  refine ⟨?_, ?_⟩ <;> simp only [cellMid] <;> norm_num

/-- **the balanced extrapolation grid on a complete grid is the Romberg table of the midpoint sums**: on the complete
    dyadic grid of depth `m ≥ 1`, `BalancedExtrapolationGrid.set_grid` + `get_weights` return one weight per point, and
    for EVERY integrand `f` the value of `integrate` is the last entry of the numeric Romberg table (`tableQ`: steps
    `k = 1..m-1` with the coded factor `-1/(4^k - 1)`) built from the composite midpoint sums `M_0(f), …, M_{m-1}(f)` -/
theorem balanced_complete_grid_is_romberg_table (a b : ℚ) (hab : a < b) (m : ℕ) (hm : 1 ≤ m) :
    ∃ ws, balancedWeights (completeGrid a b m).1 (completeGrid a b m).2 = some ws ∧
      ws.length = (completeGrid a b m).1.length ∧
      ∀ f : ℚ → ℚ, (tableQ (m - 1) 1 ((List.range m).map (fun i => cellMid f i a (b - a)))).getLast?
        = some (dot ws ((completeGrid a b m).1.map f)) := by
  obtain ⟨ws, h1, h2, _, h3⟩ := complete_balanced_is_neville a b hab m hm
  exact ⟨ws, h1, h2, h3⟩

/-- **the Romberg table removes the error terms**: if the `m ≥ 1` rows are `Σ_{i ≤ P} β_i ((1/2)^t)^i`, `t = 0..m-1`, with
    vanishing odd coefficients and `P ≤ 2m-1`, the last entry of the table is `β_0` -/
theorem romberg_table_value (P : ℕ) (β : ℕ → ℚ) (m : ℕ) (hm : 1 ≤ m) (hodd : ∀ i, Odd i → β i = 0)
    (hP : P ≤ 2 * m - 1) :
    (tableQ (m - 1) 1 ((List.range m).map (fun t => ∑ i ∈ Finset.range (P + 1), β i * ((1 / 2 : ℚ) ^ t) ^ i))).getLast?
      = some (β 0) := by
  have h := neville_value P β m hm hodd hP
  rw [colOf_eq_map] at h
  simpa [expan] using h

/-- **degree clause of C11 for the balanced grid**: on the complete dyadic grid of depth `m ≥ 1` on any interval
    `a < b`, `BalancedExtrapolationGrid` returns `2^m + 1` weights and `integrate` is exact for every polynomial of
    degree `≤ 2m-1` -/
theorem balanced_degree (a b : ℚ) (hab : a < b) (m : ℕ) (hm : 1 ≤ m) (p : ℚ[X]) (hp : p.natDegree ≤ 2 * m - 1) :
    ∃ ws, balancedWeights (completeGrid a b m).1 (completeGrid a b m).2 = some ws ∧ ws.length = 2 ^ m + 1 ∧
      dot ws ((completeGrid a b m).1.map (fun y => p.eval y)) = polyInt p a b :=
  complete_balanced_degree a b hab m hm p hp

/-- the same for the monomials `y^n`, `n ≤ 2m-1` -/
theorem balanced_degree_monomial (a b : ℚ) (hab : a < b) (m : ℕ) (hm : 1 ≤ m) (n : ℕ) (hn : n ≤ 2 * m - 1) :
    ∃ ws, balancedWeights (completeGrid a b m).1 (completeGrid a b m).2 = some ws ∧
      dot ws ((completeGrid a b m).1.map (fun y => y ^ n)) = (b ^ (n + 1) - a ^ (n + 1)) / ((n : ℚ) + 1) := by
  obtain ⟨ws, h1, _, h3⟩ := balanced_degree a b hab m hm (X ^ n) (by rw [natDegree_X_pow]; exact hn)
  simp only [eval_pow, eval_X] at h3
  exact ⟨ws, h1, by rw [h3, polyInt_X_pow]⟩

/-- non-vacuity: depth 3 on `[1,3]` (boundary weights 0); `y^5` is integrated exactly (`2m-1 = 5`), `y^6` is not — the
    degree is sharp; depth 0 (the unrefined grid) is rejected by the code (`AssertionError`), hence `m ≥ 1` -/
example : balancedWeights (completeGrid 1 3 3).1 (completeGrid 1 3 3).2
      = some [0, 32/45, -4/9, 32/45, 2/45, 32/45, -4/9, 32/45, 0] ∧
    balancedWeights (completeGrid 0 1 0).1 (completeGrid 0 1 0).2 = none := by decide +kernel
example : dot [0, 32/45, -4/9, 32/45, 2/45, 32/45, -4/9, 32/45, 0] ((completeGrid 1 3 3).1.map (fun y : ℚ => y ^ 5))
      = (3 ^ 6 - 1 ^ 6) / 6 ∧
    dot [0, 32/45, -4/9, 32/45, 2/45, 32/45, -4/9, 32/45, 0] ((completeGrid 1 3 3).1.map (fun y : ℚ => y ^ 6))
      ≠ (3 ^ 7 - 1 ^ 7) / 7 := by
  have hg : (completeGrid 1 3 3).1 = [1, 5/4, 3/2, 7/4, 2, 9/4, 5/2, 11/4, 3] := by decide +kernel
  rw [hg]
  refine ⟨?_, ?_⟩ <;> simp only [dot, List.map] <;> norm_num

/-- `polyInt` is the exact integral: value on monomials -/
theorem polyInt_monomial (n : ℕ) (a b : ℚ) : polyInt (X ^ n) a b = (b ^ (n + 1) - a ^ (n + 1)) / ((n : ℚ) + 1) :=
  polyInt_X_pow n a b

/-- `polyInt` satisfies the fundamental theorem of calculus: `∫_a^b R' = R(b) - R(a)` for every polynomial `R` -/
theorem polyInt_derivative (R : ℚ[X]) (a b : ℚ) : polyInt (derivative R) a b = R.eval b - R.eval a := by
  rw [← polyIntL_apply]; exact polyIntL_derivative a b R

end SparseSpace.C11b
