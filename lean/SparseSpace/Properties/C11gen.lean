import SparseSpace.Lemmas.RombergGen
import SparseSpace.Properties.C11
/-!
# C11gen — translator tie for the Romberg coefficients and point weights

`Generated/RombergGen.lean`, `RombergTrapGen.lean`, `RombergSimpGen.lean` are produced by `tools/py2lean` from
`sparseSpACE/Extrapolation.py` on every run of the check:

* the class family `ExtrapolationCoefficients` / `RombergLinearCoefficients` / `RombergDefaultCoefficients` /
  `RombergSimpsonCoefficients` (`get_step_width`, `get_romberg_coefficient`, the three `get_coefficient`); an object of the
  family is `GenRC.Obj` = (class, attributes) and `obj.get_coefficient(m, j)` dispatches on the class;
* `RombergTrapezoidalWeights` and `RombergSimpsonWeights` (`get_boundary_point_weight`, `get_inner_point_weight`, and the
  inherited `get_step_width`, `get_extrapolation_coefficient` of `RombergWeights`), whose attribute
  `extrapolation_factory` is an object of the family.

The theorems say that the generated definitions are the hand model `Model/Romberg` for all natural levels (Python `int`s
are `Int` in the generated code; the model's levels are `Nat`), and restate the coefficient theorems of C11 on the
generated functions.  Which class `ExtrapolationCoefficientsFactory.get` builds for an `ExtrapolationVersion` is not
translated: the Simpson weight theorems carry the hypothesis that the coefficient object is a `RombergSimpsonCoefficients`.
-/
namespace SparseSpace.C11gen
open SparseSpace SparseSpace.Romberg

/-- `get_step_width(j) = (b - a) / 2 ** j` -/
theorem step_width_agrees (s : GenRC.State) (j : Nat) : GenRC.get_step_width s (Int.ofNat j) = stepWidth s.a s.b j :=
  gen_step_width s j

/-- the product loop of `get_romberg_coefficient(m, j, exponent)` is the model's `coeff`, for every exponent -/
theorem romberg_coefficient_agrees (s : GenRC.State) (m j e : Nat) :
    GenRC.get_romberg_coefficient s (Int.ofNat m) (Int.ofNat j) (Int.ofNat e) = coeff s.a s.b e m j :=
  gen_romberg_coefficient s m j e

/-- dynamic dispatch: `obj.get_coefficient(m, j)` on an object of the family is the model's coefficient with the exponent of
the object's class — 1 linear, 2 default, 3 Simpson -/
theorem get_coefficient_agrees (o : GenRC.Obj) (m j : Nat) :
    GenRC.Obj.get_coefficient o (Int.ofNat m) (Int.ofNat j) = coeff o.st.a o.st.b (expOf o.cls) m j ∧
    GenRC.Obj.get_step_width o (Int.ofNat j) = stepWidth o.st.a o.st.b j :=
  ⟨gen_get_coefficient o m j, gen_obj_step_width o j⟩

theorem class_exponents :
    expOf .RombergLinearCoefficients = 1 ∧ expOf .RombergDefaultCoefficients = 2 ∧ expOf .RombergSimpsonCoefficients = 3 :=
  ⟨rfl, rfl, rfl⟩

/-- `RombergTrapezoidalWeights`: both point weights, read from the coefficient object (interval and class of THAT object) -/
theorem trapezoidal_weights_agree (s : GenRT.State) (l m : Nat) (hl : l ≤ m) :
    GenRT.get_boundary_point_weight s (Int.ofNat m) =
      trapBoundary s.extrapolation_factory.st.a s.extrapolation_factory.st.b (expOf s.extrapolation_factory.cls) m ∧
    GenRT.get_inner_point_weight s (Int.ofNat l) (Int.ofNat m) =
      trapInner s.extrapolation_factory.st.a s.extrapolation_factory.st.b (expOf s.extrapolation_factory.cls) l m :=
  ⟨gen_trap_boundary s m, gen_trap_inner s l m hl⟩

/-- `RombergSimpsonWeights`: both point weights (level-0 row `/ 2`, other rows `/ 3`; factor 4 at the point's own level, 2
above it) -/
theorem simpson_weights_agree (s : GenRS.State) (l m : Nat) (hl : l ≤ m)
    (hc : s.extrapolation_factory.cls = .RombergSimpsonCoefficients) :
    GenRS.get_boundary_point_weight s (Int.ofNat m) = simpBoundary s.extrapolation_factory.st.a s.extrapolation_factory.st.b m ∧
    GenRS.get_inner_point_weight s (Int.ofNat l) (Int.ofNat m) = simpInner s.extrapolation_factory.st.a s.extrapolation_factory.st.b l m :=
  ⟨gen_simp_boundary s m hc, gen_simp_inner s l m hl hc⟩

/-- the methods the weight classes inherit from `RombergWeights` only forward to the coefficient object -/
theorem weights_forwarders_agree (s : GenRT.State) (s' : GenRS.State) (m j : Nat) :
    GenRT.get_extrapolation_coefficient s (Int.ofNat m) (Int.ofNat j) =
      coeff s.extrapolation_factory.st.a s.extrapolation_factory.st.b (expOf s.extrapolation_factory.cls) m j ∧
    GenRT.get_step_width s (Int.ofNat j) = stepWidth s.extrapolation_factory.st.a s.extrapolation_factory.st.b j ∧
    GenRS.get_extrapolation_coefficient s' (Int.ofNat m) (Int.ofNat j) =
      coeff s'.extrapolation_factory.st.a s'.extrapolation_factory.st.b (expOf s'.extrapolation_factory.cls) m j ∧
    GenRS.get_step_width s' (Int.ofNat j) = stepWidth s'.extrapolation_factory.st.a s'.extrapolation_factory.st.b j :=
  ⟨gen_get_coefficient _ m j, gen_obj_step_width _ j, gen_get_coefficient _ m j, gen_obj_step_width _ j⟩

/-- transfer of `C11.romberg_coeff_sum`: the generated coefficients of a row sum to one, for every class of the family -/
theorem gen_coeff_sum (o : GenRC.Obj) (m : Nat) (hab : o.st.a ≠ o.st.b) :
    sumRange 0 (m + 1) (fun j => GenRC.Obj.get_coefficient o (Int.ofNat m) (Int.ofNat j)) = 1 := by
  simp only [gen_get_coefficient]
  exact C11.romberg_coeff_sum o.st.a o.st.b (expOf o.cls) m hab (by cases o.cls <;> simp [expOf])

/-- transfer of `C11.romberg_coeff_order`: the generated coefficients annihilate the powers `1..m` of the nodes `h_j ^ e` -/
theorem gen_coeff_order (o : GenRC.Obj) (m r : Nat) (hab : o.st.a ≠ o.st.b) (hr1 : 1 ≤ r) (hrm : r ≤ m) :
    sumRange 0 (m + 1) (fun j => GenRC.Obj.get_coefficient o (Int.ofNat m) (Int.ofNat j) *
      (GenRC.Obj.get_step_width o (Int.ofNat j) ^ expOf o.cls) ^ r) = 0 := by
  simp only [gen_get_coefficient, gen_obj_step_width, stepWidth_eq]
  exact C11.romberg_coeff_order o.st.a o.st.b (expOf o.cls) m r hab (by cases o.cls <;> simp [expOf]) hr1 hrm

end SparseSpace.C11gen
