import SparseSpace.Lemmas.DimWiseGenRaise
import SparseSpace.Properties.C03
/-!
# C03, translator tie — the integer / decision logic of the dimension-wise strategy GENERATED from
`sparseSpACE/spatiallyAdaptiveSingleDimension2.py` agrees with the hand model `Model/DimWise`

`Generated/DimWiseGen.lean` is produced by `tools/py2lean --spec tools/py2lean/specs/dimwise.json` on every run of
the check.  It contains `is_child`, `modify_according_to_levelvec`, `get_max_level` and the slice of
`get_subtraction_value` for the versions 2, 3, 6, 7, 8 (the property's versions; the branches of versions 4 / 5 are dead
under `version ∈ {2,3,6,7,8}` and are cut by the translator, which guards the slice with that test).
`toObj` / `toCont` read a hand-model interval list as the records the generated code reads.
-/
namespace SparseSpace.C03gen
open SparseSpace SparseSpace.PyRt

/-! ## Part A — generated definition = hand model -/

/-- `modify_according_to_levelvec` (all integers, all level vectors, every dimension index) -/
theorem modify_agrees (g : GenDW.State) (m : Int) (d : Nat) (ml : Int) (lv : List Int) :
    GenDW.modify_according_to_levelvec g m (Int.ofNat d) ml lv
      = modifyLv m (lv.getD d 0) (g.lmin.getD d 0) (g.lmax.getD d 0) ml := gen_modify g m d ml lv

theorem is_child_agrees (g : GenDW.State) (a p b : Int) :
    GenDW.is_child g a p b = (decide (a < p) && decide (b < p) && decide (1 < p)) := gen_is_child g a p b

/-- the counting comprehension `sum([1 for i in range(n) if max_coarsenings[i] >= thr])` -/
theorem count_agrees (mcs : List Int) (n : Nat) (thr : Int) (h : n ≤ mcs.length) :
    PyRt.sum (List.map (fun (_ : Int) => (1 : Int))
      (List.filter (fun (i : Int) => decide (getItem mcs i ≥ thr)) (PyRt.range (Int.ofNat n)))) = cntGe n mcs thr :=
  gen_count mcs n thr h

/-- the float rounding of version 3, modelled exactly, is the hand model's `v3Exact` -/
theorem v3_rounding_agrees (sv : Int) (n d : Nat) (hn : 1 ≤ n) :
    (if decide (trueDiv sv n - ((truncQ (trueDiv sv n) : Int) : Rat) > trueDiv d n) = true
      then ceilQ (trueDiv sv n) else truncQ (trueDiv sv n)) = v3Exact sv n d := gen_v3 sv n d hn

/-- `get_max_level` (two index-walking `while` loops) on any interval list, valid index, empty cache entry -/
theorem max_level_agrees (g : GenDW.State) (objs : List Ival) (i : Nat) (x : Ival) (d : Int)
    (hx : objs[i]? = some x) (hmiss : dictContains g.max_level_dict [d, Int.ofNat i] = false) :
    GenDW.get_max_level g (toCont objs) (toObj x) (Int.ofNat i) d = ((maxLevel objs i : Nat) : Int) :=
  gen_max_level g objs i x d hx hmiss

/-- … and with a cache entry that is consistent with the objects -/
theorem max_level_cached_agrees (g : GenDW.State) (objs : List Ival) (i : Nat) (x : Ival) (d : Int)
    (hx : objs[i]? = some x)
    (hcons : dictContains g.max_level_dict [d, Int.ofNat i] = true →
      dictGet g.max_level_dict [d, Int.ofNat i] = ((maxLevel objs i : Nat) : Int)) :
    GenDW.get_max_level g (toCont objs) (toObj x) (Int.ofNat i) d = ((maxLevel objs i : Nat) : Int) :=
  gen_max_level_cached g objs i x d hx hcons

/-- `get_subtraction_value` given the value of `get_max_level`: new state (the cache entry) and value -/
theorem subtraction_value_agrees (g : GenDW.State) (obj : GenDW.RefinementObjectSingleDimension)
    (cont : GenDW.RefinementContainer) (i : Int) (mcs : List Int) (d n V : Nat) (lv : List Int)
    (hV : V = 2 ∨ V = 3 ∨ V = 6 ∨ V = 7 ∨ V = 8) (hv : g.version = (V : Int)) (hdim : g.dim = (n : Int))
    (hn : 1 ≤ n) (hd : d < n) (hlen : mcs.length = n)
    (hml : 0 ≤ GenDW.get_max_level g cont obj i (Int.ofNat d)) :
    GenDW.get_subtraction_value g obj cont i mcs (Int.ofNat d) lv
      = (dwCached g d i (GenDW.get_max_level g cont obj i (Int.ofNat d)),
         (subValue V n d v3Exact (g.lmin.getD d 0) (g.lmax.getD d 0) mcs
            (GenDW.get_max_level g cont obj i (Int.ofNat d)).toNat (lv.getD d 0)).1) :=
  gen_subtraction_value g obj cont i mcs d n V lv hV hv hdim hn hd hlen hml

/-- **`get_subtraction_value` end to end**: on the container of dimension `d` (hand-model intervals `objs`), object `i`,
the value is the hand model's `subValue` at `maxLevel objs i` — what `DW.keepAt` uses — and the cache receives that
maximum level.  Hypotheses: version among 2,3,6,7,8; `d < dim`, `len(max_coarsenings) = dim`; a valid index; the cache
entry absent or consistent. -/
theorem subtraction_value_full (g : GenDW.State) (objs : List Ival) (i : Nat) (x : Ival) (mcs : List Int) (d n V : Nat)
    (lv : List Int) (hV : V = 2 ∨ V = 3 ∨ V = 6 ∨ V = 7 ∨ V = 8) (hv : g.version = (V : Int)) (hdim : g.dim = (n : Int))
    (hn : 1 ≤ n) (hd : d < n) (hlen : mcs.length = n) (hx : objs[i]? = some x)
    (hcons : dictContains g.max_level_dict [Int.ofNat d, Int.ofNat i] = true →
      dictGet g.max_level_dict [Int.ofNat d, Int.ofNat i] = ((maxLevel objs i : Nat) : Int)) :
    GenDW.get_subtraction_value g (toObj x) (toCont objs) (Int.ofNat i) mcs (Int.ofNat d) lv
      = (dwCached g d (Int.ofNat i) ((maxLevel objs i : Nat) : Int),
         (subValue V n d v3Exact (g.lmin.getD d 0) (g.lmax.getD d 0) mcs (maxLevel objs i) (lv.getD d 0)).1) := by
  have hm := gen_max_level_cached g objs i x (Int.ofNat d) hx hcons
  have h := gen_subtraction_value g (toObj x) (toCont objs) (Int.ofNat i) mcs d n V lv hV hv hdim hn hd hlen
    (by rw [hm]; exact Int.natCast_nonneg _)
  rw [h, hm]
  simp

/-- after the call the cache entry is present and holds the maximum level (so it stays consistent) -/
theorem cache_after (g : GenDW.State) (d : Nat) (i ml : Int) :
    dictContains (dwCached g d i ml).max_level_dict [Int.ofNat d, i] = true :=
  dictContains_dictSet_self _ _ _

/-- `update_coarsening_values(container, d)`: the container with the coarsening levels written and the amount by which
`lmax[d]` must be raised, for every interval list -/
theorem update_coarsening_agrees (g : GenDW.State) (objs : List Ival) (d : Nat) :
    GenDW.update_coarsening_values g (toCont objs) (Int.ofNat d)
      = (toCont (setCoarsening (g.lmax.getD d 0) objs), updateDim (setCoarsening (g.lmax.getD d 0) objs)) :=
  gen_update_coarsening g objs d

/-- `raise_lmax(d, value)` with `dim_adaptive`: `lmax[d] += value` and the hand model's `raiseLoop` (same fuel) on the
scheme object `self.combischeme` (class `CombiScheme`, generated in `CombiGen.lean`, tie of C01) -/
theorem raise_lmax_agrees (g : GenDW.State) (d n : Nat) (value : Int) (hda : g.dim_adaptive = true)
    (hdim : g.dim = Int.ofNat n) (hl : g.lmax.length = n) (hinv : SchemeInv (toCS g.combischeme))
    (hcd : (toCS g.combischeme).dim = n)
    (hlo : getItem g.lmin 0 ≤ maxList (g.lmax.set d (g.lmax.getD d 0 + value))) :
    GenDW.raise_lmax g (Int.ofNat d) value
      = { g with lmax := g.lmax.set d (g.lmax.getD d 0 + value),
                 combischeme := withCS g.combischeme
                   (raiseLoop (g.lmax.set d (g.lmax.getD d 0 + value)) (getItem g.lmin 0)
                     (raiseFuel (g.lmax.set d (g.lmax.getD d 0 + value)) (getItem g.lmin 0) n) (toCS g.combischeme)).1 } :=
  gen_raise_lmax g d n value hda hdim hl hinv hcd hlo

/-! non-vacuity: concrete containers, all five versions -/
def exObjs : List Ival := [⟨0, 1/4, 0, 2, 0⟩, ⟨1/4, 1/2, 2, 1, 0⟩, ⟨1/2, 5/8, 1, 3, 0⟩, ⟨5/8, 3/4, 3, 2, 0⟩, ⟨3/4, 1, 2, 0, 0⟩]
def exState (v : Int) : GenDW.State :=
  { (default : GenDW.State) with version := v, dim := 3, lmax := [7, 7, 7], lmin := [1, 1, 1], max_level_dict := [] }

example : (List.range 5).map (fun i => GenDW.get_max_level (exState 6) (toCont exObjs) (toObj (exObjs.getD i ival0)) i 1)
    = [2, 3, 3, 3, 3] := by decide
example : (GenDW.get_subtraction_value (exState 8) (toObj (exObjs.getD 0 ival0)) (toCont exObjs) 0 [2, 5, 0] 1 [4, 4, 4]).2 = 3 := by
  decide
example : (GenDW.get_subtraction_value (exState 6) (toObj (exObjs.getD 2 ival0)) (toCont exObjs) 2 [2, 5, 0] 1 [4, 4, 4]).1.max_level_dict
    = [([1, 2], 3)] := by decide

/-! ## Part B — key statements of C03 for the generated definitions -/

/-- **threshold monotone in the level** (generated `get_subtraction_value`): an interval end kept at the component
level `lv[d]` is kept at every level vector `lv'` with `lv'[d] ≥ lv[d]` -/
theorem gen_threshold_mono (g : GenDW.State) (objs : List Ival) (i : Nat) (x : Ival) (mcs : List Int) (d n V : Nat)
    (lv lv' : List Int) (hV : V = 2 ∨ V = 3 ∨ V = 6 ∨ V = 7 ∨ V = 8) (hv : g.version = (V : Int)) (hdim : g.dim = (n : Int))
    (hn : 1 ≤ n) (hd : d < n) (hlen : mcs.length = n) (hx : objs[i]? = some x)
    (hcons : dictContains g.max_level_dict [Int.ofNat d, Int.ofNat i] = true →
      dictGet g.max_level_dict [Int.ofNat d, Int.ofNat i] = ((maxLevel objs i : Nat) : Int))
    (hle : lv.getD d 0 ≤ lv'.getD d 0) (l1 : Nat)
    (hk : keepEnd l1 (lv.getD d 0)
      (GenDW.get_subtraction_value g (toObj x) (toCont objs) (Int.ofNat i) mcs (Int.ofNat d) lv).2 = true) :
    keepEnd l1 (lv'.getD d 0)
      (GenDW.get_subtraction_value g (toObj x) (toCont objs) (Int.ofNat i) mcs (Int.ofNat d) lv').2 = true := by
  rw [subtraction_value_full g objs i x mcs d n V lv hV hv hdim hn hd hlen hx hcons] at hk
  rw [subtraction_value_full g objs i x mcs d n V lv' hV hv hdim hn hd hlen hx hcons]
  exact C03.threshold_mono V n d v3Exact _ _ mcs _ _ _ hle l1 hk

/-- **the fuel of the generated `while True` loops suffices** (versions 6, 7, 8): under the hypotheses of
`C03.subValue_fuel_enough` the loop has ended by `break` within the fuel expression of the spec, and ANY larger fuel
gives the same loop result — the fuel expression is irrelevant for the value -/
theorem gen_fuel_enough (dim d : Nat) (mcs : List Int) (lmaxd : Int) (ml : Nat) (hd : 1 ≤ dim) (hne : mcs ≠ [])
    (hnn : ∀ c ∈ mcs, 0 ≤ c) (hsv : (ml : Int) ≤ lmaxd) (hml : 2 ≤ ml) (e : Nat) :
    (whileSt (subFuel (lmaxd - ml) + e) (0, 0) (step6 dim d mcs (lmaxd - ml))).2
      = (whileSt (subFuel (lmaxd - ml)) (0, 0) (step6 dim d mcs (lmaxd - ml))).2 ∧
    (whileSt (subFuel (lmaxd - ml) + e) (0, 0) (step7 dim mcs (lmaxd - ml))).2
      = (whileSt (subFuel (lmaxd - ml)) (0, 0) (step7 dim mcs (lmaxd - ml))).2 ∧
    (whileSt (subFuel (lmaxd - ml) + e) (0, 0) (step8 dim d mcs (lmaxd - ml) ml)).2
      = (whileSt (subFuel (lmaxd - ml)) (0, 0) (step8 dim d mcs (lmaxd - ml) ml)).2 := by
  have h6 := C03.subValue_fuel_enough 6 dim d v3Exact 0 lmaxd mcs ml 0 (by decide) hd hne hnn hsv hml
  have h7 := C03.subValue_fuel_enough 7 dim d v3Exact 0 lmaxd mcs ml 0 (by decide) hd hne hnn hsv hml
  have h8 := C03.subValue_fuel_enough 8 dim d v3Exact 0 lmaxd mcs ml 0 (by decide) hd hne hnn hsv hml
  simp only [subValue] at h6 h7 h8
  refine ⟨?_, ?_, ?_⟩
  · rw [while_step6, while_step6, subLoop6_more _ _ _ _ _ _ _ h6]
  · rw [while_step7, while_step7, subLoop7_more _ _ _ _ _ _ h7]
  · rw [while_step8, while_step8, subLoop8_more _ _ _ _ _ _ _ _ h8]

/-- **the `while True` loop of the generated `raise_lmax` ends** (by `refinements == 0`, within the fuel of the spec) and
leaves a scheme that satisfies the C01 invariant: transfer of `C06.raiseLoop_terminates` -/
theorem gen_raise_lmax_ends (g : GenDW.State) (d n : Nat) (value : Int) (hda : g.dim_adaptive = true)
    (hdim : g.dim = Int.ofNat n) (hl : g.lmax.length = n) (hinv : SchemeInv (toCS g.combischeme))
    (hcd : (toCS g.combischeme).dim = n) (hlm : (toCS g.combischeme).lmin = getItem g.lmin 0)
    (hlo : getItem g.lmin 0 ≤ maxList (g.lmax.set d (g.lmax.getD d 0 + value))) :
    (raiseLoop (g.lmax.set d (g.lmax.getD d 0 + value)) (getItem g.lmin 0)
      (raiseFuel (g.lmax.set d (g.lmax.getD d 0 + value)) (getItem g.lmin 0) n) (toCS g.combischeme)).2 = true ∧
    SchemeInv (toCS (GenDW.raise_lmax g (Int.ofNat d) value).combischeme) := by
  constructor
  · have := C06.raiseLoop_terminates (g.lmax.set d (g.lmax.getD d 0 + value)) (getItem g.lmin 0) (toCS g.combischeme) hinv hlm
    rw [hcd] at this
    exact this
  · rw [gen_raise_lmax g d n value hda hdim hl hinv hcd hlo]
    obtain ⟨ops, hops⟩ := raiseLoop_runOps (g.lmax.set d (g.lmax.getD d 0 + value)) (getItem g.lmin 0)
      (raiseFuel (g.lmax.set d (g.lmax.getD d 0 + value)) (getItem g.lmin 0) n) (toCS g.combischeme)
    show SchemeInv (toCS (withCS g.combischeme _))
    rw [toCS_withCS _ _ (by rw [hops, runOps_dim]; rfl), hops]
    exact inv_runOps _ _ hinv

def exRaise : GenDW.State :=
  { (default : GenDW.State) with version := 6, dim := 2, lmax := [2, 2], lmin := [1, 1], dim_adaptive := true, combischeme := genInit 2 2 1 }

example : (GenDW.raise_lmax exRaise 0 1).lmax = [3, 2] ∧
    (GenDW.raise_lmax exRaise 0 1).combischeme.active_index_set = [[1, 2], [3, 1]] := by decide
example : (GenDW.update_coarsening_values (exState 6) (toCont exObjs) 1).2 = 0 ∧
    ((GenDW.update_coarsening_values (exState 6) (toCont exObjs) 1).1.get_objects.map (·.coarsening_level)) = [5, 5, 4, 4, 5] := by decide

example : keepEnd 2 4 (GenDW.get_subtraction_value (exState 6) (toObj (exObjs.getD 0 ival0)) (toCont exObjs) 0 [2, 5, 0] 1 [4, 4, 4]).2 = false ∧
    keepEnd 2 7 (GenDW.get_subtraction_value (exState 6) (toObj (exObjs.getD 0 ival0)) (toCont exObjs) 0 [2, 5, 0] 1 [4, 7, 4]).2 = true := by
  decide

end SparseSpace.C03gen
