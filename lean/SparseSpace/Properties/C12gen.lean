import SparseSpace.Lemmas.FuncCacheGen
import SparseSpace.Properties.C12
/-!
# C12, translator tie — the evaluation cache of `Function` GENERATED from `sparseSpACE/Function.py` agrees with
`Model/FuncCache` at `Cfg.current` (the code as it is)

`Generated/FuncCacheGen.lean` is produced by `tools/py2lean --spec specs/funccache.json` on every run: `__call__` in its
two typed readings (`call_point`: one point; `call_batch`: a list of points, the empty batch included), `reset_dictionary`,
`deactivate_caching`, `get_f_dict_size`, `get_f_dict_points`; `eval` / `eval_vectorized` / `output_length` are the abstract
parameter.  `toAbs F` feeds a modelled function `F : Fn` to the generated code, `toSt` reads the hand-model state.
-/
namespace SparseSpace.C12gen
open SparseSpace SparseSpace.FuncCache SparseSpace.PyRt

/-! ## Part A — generated definition = hand model -/

/-- `__call__(point)`: state and value of the hand model's `single` (the flag `miss` = `eval` was called) -/
theorem call_point_agrees (F : Fn) (g : GenFC.State) (p : Pt) (hp : p ≠ []) (hF : WellDeclared F)
    (hs : Coherent F (toSt g)) (hn : (keys g.f_dict).Nodup) :
    ∃ miss, single Cfg.current F (toSt g) p
      = (toSt (GenFC.call_point (toAbs F) g p).1, Out.value (GenFC.call_point (toAbs F) g p).2 miss) :=
  gen_call_point F g p hp hF hs hn

/-- `__call__(batch)`, the empty batch included: always evaluates, always writes `f_dict`, never looks at `do_cache` -/
theorem call_batch_agrees (F : Fn) (g : GenFC.State) (ps : List Pt) (hF : WellDeclared F) (hn : (keys g.f_dict).Nodup) :
    batch Cfg.current F (toSt g) ps
      = (toSt (GenFC.call_batch (toAbs F) g ps).1, Out.values (GenFC.call_batch (toAbs F) g ps).2) :=
  gen_call_batch F g ps hF hn

theorem reset_agrees (F : Fn) (g : GenFC.State) :
    toSt (GenFC.reset_dictionary g) = (step Cfg.current F (toSt g) .reset).1 := rfl

theorem deactivate_agrees (F : Fn) (g : GenFC.State) :
    toSt (GenFC.deactivate_caching g) = (step Cfg.current F (toSt g) .deactivate).1 := rfl

theorem size_agrees (F : Fn) (g : GenFC.State) :
    (step Cfg.current F (toSt g) .size).2 = .count (GenFC.get_f_dict_size g).toNat := rfl

theorem points_agree (g : GenFC.State) : GenFC.get_f_dict_points g = keys (toSt g).fdict := rfl

/-- the dictionary operations of the generated code are the hand model's (`d.get`, `d[k] = v` on duplicate-free keys,
`d.update(zip(..))`) -/
theorem dict_agrees (d : Dict) (p : Pt) (v : Val) (ps : List Pt) (vs : List Val) (h : (keys d).Nodup) :
    dictGet? d p = dget d p ∧ dictSet d p v = dset d p v ∧ dictUpdateZip d ps vs = dupdate d ps vs :=
  ⟨dictGet?_eq_dget d p, dictSet_eq_dset d p v h, (dictUpdateZip_eq_dupdate ps vs d h).1⟩

/-- a whole history of generated calls (from `__init__`) is the hand model's run: states, returned values, invariant -/
theorem history_agrees (F : Fn) (hF : WellDeclared F) (ops : List Op) (ha : ∀ o ∈ ops, o.accepted Cfg.current = true) :
    toSt (genRun (toAbs F) genInit ops).1 = (run Cfg.current F St.init ops).1 ∧
    (genRun (toAbs F) genInit ops).2 = (run Cfg.current F St.init ops).2.map Out.vals :=
  let h := gen_run F hF ops genInit (ginv_init F) ha
  ⟨h.1, h.2.1⟩

/-- **no aliasing**: by the translator's ownership analysis (trusted; value semantics itself cannot see aliasing) the
arrays returned by `__call__` (both readings) and `get_f_dict_points` are fresh objects — they share no memory with
`f_dict` / `old_f_dict` or the arguments, so a caller that changes a returned array in place cannot corrupt the cache.
`np.array(..)` copies, `np.asarray(..)` and `d.get(..)` do not; stored rows are `f_values.copy()`. -/
theorem results_fresh :
    GenFC.call_point.result_is_fresh = true ∧ GenFC.call_batch.result_is_fresh = true ∧
    GenFC.get_f_dict_points.result_is_fresh = true := ⟨rfl, rfl, rfl⟩

/-! non-vacuity -/
def exF : Fn := Fn.generic (fun p => p.take 1) 1
example : (GenFC.call_point (toAbs exF) genInit [1, 2]).2 = [1] ∧
    (GenFC.call_point (toAbs exF) genInit [1, 2]).1.f_dict = [([1, 2], [1])] := by decide
example : (genRun (toAbs exF) genInit [.batch [[1, 2], [0, 0]], .single [1, 2], .reset, .single [5]]).2
    = [some [[1], [0]], some [[1]], none, some [[5]]] := by decide
example : GenFC.get_f_dict_size (genRun (toAbs exF) genInit [.deactivate, .single [1], .single [1], .batch [[2]]]).1 = 2 := by decide

/-! ## Part B — the C12 cache theorems for the generated definitions -/

/-- **cache transparency, generated**: for every history of accepted operations on the generated definitions the
returned values are those of the pure function — `[eval p]` for a point, `map eval ps` for a batch — whatever the
caching switch, earlier evaluations and resets -/
theorem gen_cache_transparent (F : Fn) (hF : WellDeclared F) (ops : List Op) (ha : ∀ o ∈ ops, o.accepted Cfg.current = true) :
    (genRun (toAbs F) genInit ops).2 = ops.map (specVals F) := by
  rw [(history_agrees F hF ops ha).2]
  exact C12.cache_transparent Cfg.current F hF St.init (coherent_init F) ops ha

/-- **the counter, generated**: after every history `get_f_dict_size()` is the number of DISTINCT points evaluated since
the last `reset_dictionary()` and `get_f_dict_points()` lists them without repetition -/
theorem gen_counter (F : Fn) (hF : WellDeclared F) (ops : List Op) (ha : ∀ o ∈ ops, o.accepted Cfg.current = true) :
    GenFC.get_f_dict_size (genRun (toAbs F) genInit ops).1 = ((trace Cfg.current ops).evaluated.toFinset.card : Int) ∧
    GenFC.get_f_dict_points (genRun (toAbs F) genInit ops).1 = (trace Cfg.current ops).counted ∧
    (GenFC.get_f_dict_points (genRun (toAbs F) genInit ops).1).Nodup := by
  have h1 := (history_agrees F hF ops ha).1
  have hx := C12.size_exact Cfg.current F hF ops
  have hd := C12.size_distinct_full Cfg.current rfl F hF ops
  have hk : keys (toSt (genRun (toAbs F) genInit ops).1).fdict = (trace Cfg.current ops).counted := by rw [h1]; exact hx.2.1
  have hlen : (toSt (genRun (toAbs F) genInit ops).1).fdict.length = (trace Cfg.current ops).evaluated.toFinset.card := by
    rw [h1]
    rw [run_append] at hd
    simpa [run, step] using hd
  refine ⟨?_, hk, ?_⟩
  · show PyRt.len (genRun (toAbs F) genInit ops).1.f_dict = _
    unfold PyRt.len
    have : (genRun (toAbs F) genInit ops).1.f_dict.length = (trace Cfg.current ops).evaluated.toFinset.card := hlen
    rw [this]; rfl
  · show (keys (toSt (genRun (toAbs F) genInit ops).1).fdict).Nodup
    rw [hk]; exact hx.2.2.1

end SparseSpace.C12gen
