import SparseSpace.Lemmas.ExtendSplitCont
import SparseSpace.Lemmas.ExtendSplitV0
import SparseSpace.Lemmas.ExtendSplitFuel
import SparseSpace.Lemmas.ExtendSplitShift
import SparseSpace.Lemmas.ExtendSplitV12Bounded
/-!
# C07 — extend–split areas tile the domain and each carries a valid local combination

Theorems about `Model/ExtendSplit` (mirror of `spatiallyAdaptiveExtendSplit.py`, `RefinementObject.py`,
`RefinementContainer.py`).  "Reachable" = `(EState.init …).run ops` for an ARBITRARY list of operations
`refine pos ext dims | endRound` with arbitrary arguments: any position, any outcome of the extend/split
decision, any list of split dimensions (malformed ones leave the state unchanged, as in the model's guard).
All of: every dimension `dim ≥ 1` (local combination: `dim ≥ 2`, the code indexes the second largest level),
every proper rational domain box, every `lmin`, `lmax`, number of splits before extending, versions, automatic
decision on/off, single-dimension splitting on/off.

`Tiles P cs` (Lemmas/ExtendSplitBox): all `cs` are proper sub-boxes of `P`, every point of `P` lies in one of
them, they are pairwise separated by a coordinate hyperplane, and their volumes add up to the volume of `P`.
-/
namespace SparseSpace.C07
open SparseSpace

/-! ## clause 1: children partition their parent (both split modes) -/

/-- `split_area_arbitrary_dim`: the 2^dim children tile the parent -/
theorem children_partition_all (b : Box) (h : Proper b) : Tiles b (splitAll b) := tiles_splitAll b h

/-- `split_area_single_dim(d)`: the two children tile the parent -/
theorem children_partition_single (b : Box) (d : Nat) (hd : d < b.length) (h : Proper b) :
    Tiles b [(splitDim b d).1, (splitDim b d).2] := tiles_splitDim b d hd h

/-- what `Tiles` means for points: union = parent, pairwise disjoint interiors, exact volume sum -/
theorem tiles_meaning (P : Box) (cs : List Box) (h : Tiles P cs) :
    (∀ x, boxContains P x = true ↔ ∃ c ∈ cs, boxContains c x = true) ∧
    (cs.Pairwise fun a b => ∀ x, ¬ (boxInterior a x = true ∧ boxInterior b x = true)) ∧
    (cs.map boxVol).sum = boxVol P :=
  ⟨h.union, h.disjoint, h.vol⟩

example : Proper [((0 : Rat), 1), (-3, 6)] := by
  intro iv h
  simp only [List.mem_cons, List.not_mem_nil, or_false] at h
  rcases h with rfl | rfl <;> norm_num

/-! ## reachable states -/

/-- a state reached from the initial one by an arbitrary operation list -/
def reach (dim : Nat) (lmin lmax nrbe : Int) (version : Nat) (auto single : Bool) (root : Box) (ops : List ESOp) : EState :=
  (EState.init dim lmin lmax nrbe version auto single root).run ops

theorem reach_inv (dim : Nat) (lmin lmax nrbe : Int) (version : Nat) (auto single : Bool) (root : Box) (ops : List ESOp)
    (hd : 1 ≤ dim) (hp : Proper root) (hl : root.length = dim) :
    (reach dim lmin lmax nrbe version auto single root ops).Inv ∧
    (reach dim lmin lmax nrbe version auto single root ops).Inv2 :=
  ⟨es_inv_run ops _ (es_inv_init dim lmin lmax nrbe version auto single root hd hp hl),
   inv2_run ops _ (es_inv_init dim lmin lmax nrbe version auto single root hd hp hl)
     (inv2_init dim lmin lmax nrbe version auto single root hl)⟩

theorem run_root (ops : List ESOp) : ∀ s : EState, (s.run ops).root = s.root := by
  induction ops with
  | nil => intro s; rfl
  | cons op ops ih =>
    intro s
    show ((s.step op).run ops).root = s.root
    rw [ih]
    cases op with
    | refine pos e dims =>
      simp only [EState.step, EState.refine]
      split
      · rfl
      · split
        · rfl
        · split
          · rfl
          · split <;> rfl
    | endRound => rfl

theorem run_single (ops : List ESOp) : ∀ s : EState, (s.run ops).single = s.single := by
  induction ops with
  | nil => intro s; rfl
  | cons op ops ih =>
    intro s
    show ((s.step op).run ops).single = s.single
    rw [ih]
    cases op with
    | refine pos e dims =>
      simp only [EState.step, EState.refine]
      split
      · rfl
      · split
        · rfl
        · split
          · rfl
          · split <;> rfl
    | endRound => rfl

/-! ## clause 2: the leaves tile the domain, for every refinement history -/

/-- **the leaves of the refinement tree tile the domain** after every history -/
theorem leaves_tile (dim : Nat) (lmin lmax nrbe : Int) (version : Nat) (auto single : Bool) (root : Box) (ops : List ESOp)
    (hd : 1 ≤ dim) (hp : Proper root) (hl : root.length = dim) :
    Tiles root ((reach dim lmin lmax nrbe version auto single root ops).forest.leaves.map (·.box)) := by
  have h := (reach_inv dim lmin lmax nrbe version auto single root ops hd hp hl).1
  have hr : (reach dim lmin lmax nrbe version auto single root ops).root = root := by
    unfold reach; rw [run_root]; rfl
  have := leaves_tile_forest _ _ h.wf h.tops
  rw [hr] at this
  exact this

/-- **between refinement rounds (after `apply_remove`) the objects of the container are exactly the leaves** -/
theorem container_is_leaves (dim : Nat) (lmin lmax nrbe : Int) (version : Nat) (auto single : Bool) (root : Box)
    (ops : List ESOp) (hd : 1 ≤ dim) (hp : Proper root) (hl : root.length = dim)
    (hpop : (reach dim lmin lmax nrbe version auto single root ops).pop = []) :
    (reach dim lmin lmax nrbe version auto single root ops).objects.Perm
      (reach dim lmin lmax nrbe version auto single root ops).forest.leaves :=
  objects_perm_leaves _ (reach_inv dim lmin lmax nrbe version auto single root ops hd hp hl).2 hpop

/-- **the areas of the container tile the domain** between refinement rounds -/
theorem container_tiles (dim : Nat) (lmin lmax nrbe : Int) (version : Nat) (auto single : Bool) (root : Box)
    (ops : List ESOp) (hd : 1 ≤ dim) (hp : Proper root) (hl : root.length = dim)
    (hpop : (reach dim lmin lmax nrbe version auto single root ops).pop = []) :
    Tiles root ((reach dim lmin lmax nrbe version auto single root ops).objects.map (·.box)) :=
  (leaves_tile dim lmin lmax nrbe version auto single root ops hd hp hl).perm
    ((container_is_leaves dim lmin lmax nrbe version auto single root ops hd hp hl hpop).symm.map (·.box))

/-- after `endRound` nothing awaits removal (so the two theorems above apply after every completed round) -/
theorem endRound_pop (s : EState) : s.endRound.pop = [] := rfl

/-! ## clause 3: every point of the domain is assigned to exactly one leaf -/

/-- without `split_single_dim`: `get_points_in_areas_recursive(root_cell, ·)` sends every point of the domain to a
leaf that contains it — also on shared faces, where the first child in list order wins (the assignment is a
function, so the leaf is unique) -/
theorem assign_unique (dim : Nat) (lmin lmax nrbe : Int) (version : Nat) (auto : Bool) (root : Box) (ops : List ESOp)
    (hd : 1 ≤ dim) (hp : Proper root) (hl : root.length = dim) (x : EPt) (hx : boxContains root x = true) :
    ∃ a, (reach dim lmin lmax nrbe version auto false root ops).assign x = some a ∧
      a ∈ (reach dim lmin lmax nrbe version auto false root ops).forest.leaves ∧ boxContains a.box x = true := by
  have h := (reach_inv dim lmin lmax nrbe version auto false root ops hd hp hl).1
  have hr : (reach dim lmin lmax nrbe version auto false root ops).root = root := by
    unfold reach; rw [run_root]; rfl
  have hs : (reach dim lmin lmax nrbe version auto false root ops).single = false := by
    unfold reach; rw [run_single]; rfl
  have hcover := h.tops.cover x (by rw [hr]; exact hx)
  obtain ⟨c, hc, hcx⟩ := hcover
  obtain ⟨t, ht, rfl⟩ := List.mem_map.1 hc
  unfold EState.assign
  rw [hs]
  simp only [Bool.false_eq_true, if_false]
  exact assign_spec x _ h.wf ⟨t, ht, hcx⟩

/-- the list form `get_points_in_areas_recursive(root_cell, points)` (without `split_single_dim`): every offered
point of the domain is in the point list of some leaf that contains it, and all leaves whose lists contain it have
the same box — every evaluation point is handed to exactly one leaf -/
theorem assign_lists_unique (dim : Nat) (lmin lmax nrbe : Int) (version : Nat) (auto : Bool) (root : Box)
    (ops : List ESOp) (hd : 1 ≤ dim) (hp : Proper root) (hl : root.length = dim) (pts : List EPt) (p : EPt)
    (hpp : p ∈ pts) (hx : boxContains root p = true) :
    (∃ a ps, (a, ps) ∈ (reach dim lmin lmax nrbe version auto false root ops).forest.assignAll pts ∧ p ∈ ps ∧
        boxContains a.box p = true) ∧
    (∀ a ps a' ps', (a, ps) ∈ (reach dim lmin lmax nrbe version auto false root ops).forest.assignAll pts → p ∈ ps →
        (a', ps') ∈ (reach dim lmin lmax nrbe version auto false root ops).forest.assignAll pts → p ∈ ps' →
        a.box = a'.box) := by
  obtain ⟨a, h1, _, h3⟩ := assign_unique dim lmin lmax nrbe version auto root ops hd hp hl p hx
  have hs : (reach dim lmin lmax nrbe version auto false root ops).single = false := by
    unfold reach; rw [run_single]; rfl
  unfold EState.assign at h1
  rw [hs] at h1
  simp only [Bool.false_eq_true, if_false] at h1
  constructor
  · obtain ⟨ps, k1, k2⟩ := assignAll_complete _ pts p a hpp h1
    exact ⟨a, ps, k1, k2, h3⟩
  · intro b ps b' ps' k1 k2 k1' k2'
    obtain ⟨_, c, hc, hcb⟩ := assignAll_spec _ pts b p ⟨ps, k1, k2⟩
    obtain ⟨_, c', hc', hcb'⟩ := assignAll_spec _ pts b' p ⟨ps', k1', k2'⟩
    rw [hc] at hc'
    simp only [Option.some.injEq] at hc'
    subst hc'
    rw [← hcb, ← hcb']

/-- a point in the interior of a leaf is assigned to that leaf (so the assignment agrees with the geometry
wherever the geometry decides) -/
theorem assign_interior_leaf (dim : Nat) (lmin lmax nrbe : Int) (version : Nat) (auto single : Bool) (root : Box)
    (ops : List ESOp) (hd : 1 ≤ dim) (hp : Proper root) (hl : root.length = dim) (x : EPt) (l : ESArea)
    (hlf : l ∈ (reach dim lmin lmax nrbe version auto single root ops).forest.leaves)
    (hx : boxInterior l.box x = true) :
    ∃ a, (reach dim lmin lmax nrbe version auto single root ops).forest.assign x = some a ∧ a.box = l.box := by
  have h := (reach_inv dim lmin lmax nrbe version auto single root ops hd hp hl).1
  obtain ⟨a, h1, _, h3⟩ := assign_interior x _ _ h.wf h.tops l hlf hx
  exact ⟨a, h1, h3⟩

/-- with `split_single_dim` the root's child list IS the container list (the code aliases the two Python lists);
between rounds first-wins over the container sends every point of the domain to a container object that is a leaf
and contains the point -/
theorem assign_unique_single (dim : Nat) (lmin lmax nrbe : Int) (version : Nat) (auto single : Bool) (root : Box)
    (ops : List ESOp) (hd : 1 ≤ dim) (hp : Proper root) (hl : root.length = dim)
    (hpop : (reach dim lmin lmax nrbe version auto single root ops).pop = [])
    (x : EPt) (hx : boxContains root x = true) :
    ∃ a, assignObjs (reach dim lmin lmax nrbe version auto single root ops).forest x
        (reach dim lmin lmax nrbe version auto single root ops).objs = some a ∧
      a ∈ (reach dim lmin lmax nrbe version auto single root ops).forest.leaves ∧ boxContains a.box x = true := by
  obtain ⟨h1, h2⟩ := reach_inv dim lmin lmax nrbe version auto single root ops hd hp hl
  set s := reach dim lmin lmax nrbe version auto single root ops with hs
  have hperm := objs_perm_leafIds s h2 hpop
  have hleaf : ∀ i ∈ s.objs, ∃ l ch, s.forest.find? i = some (l, ch) ∧ ch.isNil = true := by
    intro i hi
    obtain ⟨l, hl', rfl⟩ := List.mem_map.1 (hperm.mem_iff.1 hi)
    obtain ⟨ch, hf, hn⟩ := Forest.find?_of_leaf s.forest h2.idsNodup l hl'
    exact ⟨l, ch, hf, hn⟩
  have hT := leaves_tile dim lmin lmax nrbe version auto single root ops hd hp hl
  obtain ⟨c, hc, hcx⟩ := hT.cover x hx
  obtain ⟨l, hl', rfl⟩ := List.mem_map.1 hc
  obtain ⟨ch, hf, _⟩ := Forest.find?_of_leaf s.forest h2.idsNodup l hl'
  have hex : ∃ i ∈ s.objs, ∃ l ch, s.forest.find? i = some (l, ch) ∧ boxContains l.box x = true :=
    ⟨l.id, hperm.mem_iff.2 (List.mem_map.2 ⟨l, hl', rfl⟩), l, ch, hf, hcx⟩
  obtain ⟨a, k1, ⟨i, hi, ch', hf'⟩, k3⟩ := assignObjs_spec s.forest x s.objs hleaf hex
  obtain ⟨l2, ch2, hf2, hn2⟩ := hleaf i hi
  rw [hf2] at hf'
  simp only [Option.some.injEq, Prod.mk.injEq] at hf'
  obtain ⟨rfl, rfl⟩ := hf'
  exact ⟨l2, k1, Forest.find?_leaf_mem i _ l2 ch2 hf2 hn2, k3⟩

/-! ## clause 4: coarsening values never become negative (and never exceed `lmax - lmax₀`) -/

theorem coarsening_nonneg (dim : Nat) (lmin lmax nrbe : Int) (version : Nat) (auto single : Bool) (root : Box)
    (ops : List ESOp) (hd : 1 ≤ dim) (hp : Proper root) (hl : root.length = dim) :
    ∀ a ∈ (reach dim lmin lmax nrbe version auto single root ops).forest.nodes,
      0 ≤ a.coarsening ∧ a.coarsening ≤ (reach dim lmin lmax nrbe version auto single root ops).lmax - lmax := by
  obtain ⟨h1, h2⟩ := reach_inv dim lmin lmax nrbe version auto single root ops hd hp hl
  have h0 : (reach dim lmin lmax nrbe version auto single root ops).lmax0 = lmax := by
    unfold reach
    have : ∀ (ops : List ESOp) (s : EState), (s.run ops).lmax0 = s.lmax0 := by
      intro ops
      induction ops with
      | nil => intro s; rfl
      | cons op ops ih =>
        intro s
        show ((s.step op).run ops).lmax0 = s.lmax0
        rw [ih]
        cases op with
        | refine pos e dims =>
          simp only [EState.step, EState.refine]
          split
          · rfl
          · split
            · rfl
            · split
              · rfl
              · split <;> rfl
        | endRound => rfl
    rw [this]; rfl
  intro a ha
  refine ⟨((Forest.all_iff_nodes _ _).1 h1.all a ha).1, ?_⟩
  have := (Forest.all_iff_nodes _ _).1 h2.bound a ha
  rw [h0] at this
  exact this

/-- the clause at the USE site: whatever coarsening the error estimate of `automatic_extend_split` requests (any
integer — `get_parent_split_operation` counts it down below 0 on grids without boundary points), the value the area
carries while `coarsen_grid` reads it is non-negative, and the level that is evaluated, `lmax_used − value`, is the
requested level `lmax − coarsening` -/
theorem coarsening_nonneg_when_used (lmax c : Int) :
    0 ≤ (flexEval lmax c).1 ∧ (flexEval lmax c).2 - (flexEval lmax c).1 = lmax - c ∧ lmax ≤ (flexEval lmax c).2 := by
  unfold flexEval
  by_cases h : c ≥ 0
  · simp only [h, if_true]
    omega
  · simp only [h, if_false]
    omega

example : flexEval 3 (-2) = (0, 5) := by decide
example : flexEval 3 1 = (1, 3) := by decide

/-! ## clause 5: the local combination -/

/-- **version 0**: in a fresh area of coarsening `c ≥ 0` the component grids actually computed — the collision
dictionary included — with their coefficients are exactly those of the standard scheme of level `lmax - c` -/
theorem v0_local_is_standard (dim : Nat) (lmin lmax c : Int) (hd : 2 ≤ dim) (hc : 0 ≤ c) :
    (computed 0 dim lmin lmax c).Perm (stdScheme dim lmin (lmax - c)) :=
  computed_v0_perm_std dim lmin lmax c hd hc

/-- hence (with C01's identity for the standard scheme) at a grid point of level `t` of the area the coefficients
of the computed grids containing it sum to 1 iff `t` lies in the sparse-grid simplex of level `lmax - c`, else 0 -/
theorem v0_pointwise (dim : Nat) (lmin lmax c : Int) (hd : 2 ≤ dim) (h0 : 0 ≤ lmin) (hc : 0 ≤ c)
    (hl : lmin ≤ lmax - c) (t : LV) (ht : t.length = dim) (hmin : geAll lmin t) :
    domSum (computed 0 dim lmin lmax c) t =
      if t.sum ≤ (lmax - c) - lmin + (dim : Int) * lmin then 1 else 0 := by
  have hd1 : 1 ≤ dim := by omega
  rw [es_domSum_perm ((v0_local_is_standard dim lmin lmax c hd hc).trans (std_perm_init dim lmin (lmax - c) hd1 h0 hl)) t]
  have hinv := SparseSpace.inv_init dim lmin (lmax - c) hd1 h0 hl
  have hdim : (CS.init dim (lmax - c) lmin).dim = dim := rfl
  have hlm : (CS.init dim (lmax - c) lmin).lmin = lmin := rfl
  rw [coeff_identity _ hinv t (by rw [hdim]; exact ht) (by rw [hlm]; exact hmin)]
  have := mem_I_init dim lmin (lmax - c) hd1 hl t
  by_cases hs : t.sum ≤ (lmax - c) - lmin + (dim : Int) * lmin
  · rw [if_pos hs, if_pos (this.2 ⟨ht, hmin, hs⟩)]
  · rw [if_neg hs, if_neg (fun hm => hs (this.1 hm).2.2)]

/-- and the local combination reproduces: for every point level `k` of the simplex and every family `F` of
component results that only depends on `l ⊓ k` (nodal interpolants at a grid point of level `k`), the combination
of the computed grids is `F k` -/
theorem v0_reproduces {V : Type} [AddCommGroup V] (dim : Nat) (lmin lmax c : Int) (hd : 2 ≤ dim) (h0 : 0 ≤ lmin)
    (hc : 0 ≤ c) (hl : lmin ≤ lmax - c) (k : LV) (hk : k.length = dim) (hkmin : geAll lmin k)
    (hks : k.sum ≤ (lmax - c) - lmin + (dim : Int) * lmin)
    (F : LV → V) (hF : ∀ p ∈ computed 0 dim lmin lmax c, F p.1 = F (meet p.1 k)) :
    ((computed 0 dim lmin lmax c).map fun p => p.2 • F p.1).sum = F k := by
  have hd1 : 1 ≤ dim := by omega
  have hperm := (v0_local_is_standard dim lmin lmax c hd hc).trans (std_perm_init dim lmin (lmax - c) hd1 h0 hl)
  rw [(hperm.map fun p => p.2 • F p.1).sum_eq]
  exact adaptive_collapse _ (SparseSpace.inv_init dim lmin (lmax - c) hd1 h0 hl) k
    ((mem_I_init dim lmin (lmax - c) hd1 hl k).2 ⟨hk, hkmin, hks⟩) F
    (fun p hp => hF p (hperm.mem_iff.2 hp))

/-- in every reachable state the hypotheses `0 ≤ c` and `lmin ≤ lmax - c` of the two theorems above hold for every
area (given `lmin ≤` the initial `lmax`) -/
theorem reachable_level_ok (dim : Nat) (lmin lmax nrbe : Int) (version : Nat) (auto single : Bool) (root : Box)
    (ops : List ESOp) (hd : 1 ≤ dim) (hp : Proper root) (hl : root.length = dim) (hlm : lmin ≤ lmax) :
    ∀ a ∈ (reach dim lmin lmax nrbe version auto single root ops).forest.nodes,
      0 ≤ a.coarsening ∧ lmin ≤ (reach dim lmin lmax nrbe version auto single root ops).lmax - a.coarsening := by
  intro a ha
  have := coarsening_nonneg dim lmin lmax nrbe version auto single root ops hd hp hl a ha
  exact ⟨this.1, by omega⟩

/-- **all versions, per state**: the executable check `localValid` (which the driver evaluates on every area of
every explored state) is sound: `true` implies the dominated-sum identity for the downward closure of the support,
hence coefficient sum 1 at every grid point of the area, total sum 1 and reproduction -/
theorem localValid_sound (dim : Nat) (lmin : Int) (c : List (LV × Int)) (h : localValid dim lmin c = true) :
    (∀ k : LV, k.length = dim → geAll lmin k → inDown c k = true → domSum c k = 1) ∧
    (c.map (·.2)).sum = 1 ∧
    (∀ {V : Type} [AddCommGroup V] (k : LV), k.length = dim → geAll lmin k → inDown c k = true →
      ∀ F : LV → V, (∀ p ∈ c, F p.1 = F (meet p.1 k)) → (c.map fun p => p.2 • F p.1).sum = F k) := by
  have hv := SparseSpace.localValid_sound dim lmin c h
  exact ⟨fun k hk hm hJ => hv.pointwise k hk hm hJ, hv.total, fun k hk hm hJ F hF => hv.collapse k hk hm hJ F hF⟩

/-! ### the version-0 local combination depends only on `lmax - coarsening` (bridge for C05) -/

/-- raising `lmax` and the coarsening value together (what an extend of another area of coarsening 0 does to every
other area, `k` times) leaves the list of `(coarsened level vector, coefficient)` computed by version 0 unchanged up to
order -/
theorem v0_local_depends_on_difference (dim : Nat) (lmin lmax c : Int) (k : Nat) (hd : 2 ≤ dim) (hc : 0 ≤ c) :
    (computed 0 dim lmin (lmax + k) (c + k)).Perm (computed 0 dim lmin lmax c) :=
  computed_v0_shift dim lmin lmax c k hd hc

/-- hence the local combination value `Σ coefficient • Q(coarsened level vector)` of the area is unchanged, for every
grid operation `Q` with values in a commutative group — the hypothesis of C05's `incremental_eq_spec` -/
theorem v0_local_value_invariant {V : Type} [AddCommGroup V] (dim : Nat) (lmin lmax c : Int) (k : Nat) (hd : 2 ≤ dim)
    (hc : 0 ≤ c) (Q : LV → V) :
    localValue 0 dim lmin (lmax + k) (c + k) Q = localValue 0 dim lmin lmax c Q :=
  localValue_v0_shift dim lmin lmax c k hd hc Q

/-- state level: in every reachable state, every leaf that survives a `refine` operation (same identity before and
after) keeps its box and its `lmax - coarsening` — whatever was refined, extend or split, `lmax` raised or not -/
theorem surviving_leaf_keeps_level (dim : Nat) (lmin lmax nrbe : Int) (version : Nat) (auto single : Bool) (root : Box)
    (ops : List ESOp) (hd : 1 ≤ dim) (hp : Proper root) (hl : root.length = dim) (pos : Nat) (e : Bool) (dims : List Nat)
    (l : ESArea) (hlf : l ∈ (reach dim lmin lmax nrbe version auto single root ops).forest.leaves) (l' : ESArea)
    (hlf' : l' ∈ ((reach dim lmin lmax nrbe version auto single root ops).refine pos e dims).forest.leaves)
    (hid : l'.id = l.id) :
    l'.box = l.box ∧
    ((reach dim lmin lmax nrbe version auto single root ops).refine pos e dims).lmax - l'.coarsening =
      (reach dim lmin lmax nrbe version auto single root ops).lmax - l.coarsening := by
  obtain ⟨h1, h2⟩ := reach_inv dim lmin lmax nrbe version auto single root ops hd hp hl
  exact refine_keeps_local_level _ pos e dims h1 h2 l hlf l' hlf' hid

/-! ### versions 1 and 2 with `lmin = 1`: exhaustive on a finite parameter box -/

/-- versions 1 and 2, `lmin = 1`, `dim ∈ {2,3,4}`, `lmax ≤ 5`, EVERY coarsening `0 ≤ c ≤ lmax` (kernel evaluation of
all 120 parameter tuples; the computed scheme depends on nothing else, so this covers every history with `lmax ≤ 5`):
the computed grids form a valid local combination — coefficient sum 1 at every grid point of the area, total sum 1,
reproduction.  BOUNDED: the statement for all `dim`, `lmax` is open (no counterexample for `dim ≤ 5`, `lmax ≤ 7`). -/
theorem v12_local_valid_lmin1_bounded (ver dim : Nat) (lmax c : Int) (hv : ver = 1 ∨ ver = 2)
    (hd : 2 ≤ dim ∧ dim ≤ 4) (hl : 1 ≤ lmax ∧ lmax ≤ 5) (hc : 0 ≤ c ∧ c ≤ lmax) :
    (∀ k : LV, k.length = dim → geAll 1 k → inDown (computed ver dim 1 lmax c) k = true →
        domSum (computed ver dim 1 lmax c) k = 1) ∧
    ((computed ver dim 1 lmax c).map (·.2)).sum = 1 ∧
    (∀ {V : Type} [AddCommGroup V] (k : LV), k.length = dim → geAll 1 k → inDown (computed ver dim 1 lmax c) k = true →
      ∀ F : LV → V, (∀ p ∈ computed ver dim 1 lmax c, F p.1 = F (meet p.1 k)) →
        ((computed ver dim 1 lmax c).map fun p => p.2 • F p.1).sum = F k) :=
  localValid_sound dim 1 _ (v12_localValid_lmin1_bounded ver dim lmax c hv hd hl hc)

/-- termination of the model of the `while coarsening > 0` loop of versions 1 and 2: the fuel `coarsening` suffices
(more fuel never changes the result), for every non-empty level vector -/
theorem coarsen_loop_fuel (version dim : Nat) (lmin lmax cSave : Int) (topDiag : Bool) (c : Int) (t : LV) (ht : t ≠ [])
    (k : Nat) : v12Loop version dim lmin lmax cSave topDiag (c.toNat + k) c t
      = v12Loop version dim lmin lmax cSave topDiag c.toNat c t :=
  v12Loop_fuel version dim lmin lmax cSave topDiag c t ht k

/-! ## the defect: versions 1 and 2 with `lmin ≥ 2`

The full statement "for every version 0–2 the computed grids of every area of every reachable state form a valid
local combination" is FALSE of the code: versions 1 and 2 compute `num_sub_diagonal` (and the forward-problem bound)
as if `lmin = 1`.  Witness: dim 2, `lmin = 2`, `lmax = 3`, `number_of_refinements_before_extend = 0`; one extend of
area 0 raises `lmax` to 4 and the coarsening of the other areas to 1; there the computed grids are
`(2,3):+1, (3,3):+1, (3,2):+1, (2,2):−1, (2,2):−1`, so at a point of level `(2,3)` the coefficients sum to 2. -/

theorem v1_counterexample_computed :
    computed 1 2 2 4 1 = [([2, 3], 1), ([3, 3], 1), ([3, 2], 1), ([2, 2], -1), ([2, 2], -1)] := by decide

theorem v12_local_invalid :
    (inDown (computed 1 2 2 4 1) [2, 3] = true ∧ domSum (computed 1 2 2 4 1) [2, 3] = 2) ∧
    (inDown (computed 2 2 2 4 1) [2, 3] = true ∧ domSum (computed 2 2 2 4 1) [2, 3] = 2) := by decide

/-- the negation of the all-versions statement, on the concrete witness -/
theorem v12_counterexample :
    ¬ (∀ (version : Nat) (dim : Nat) (lmin lmax c : Int) (t : LV), version ≤ 2 → 2 ≤ dim → 0 ≤ c → lmin ≤ lmax - c →
        t.length = dim → geAll lmin t → inDown (computed version dim lmin lmax c) t = true →
        domSum (computed version dim lmin lmax c) t = 1) := by
  intro h
  have := h 1 2 2 4 1 [2, 3] (by decide) (by decide) (by decide) (by decide) rfl
    (by intro x hx; simp at hx; rcases hx with rfl | rfl <;> decide) v12_local_invalid.1.1
  rw [v12_local_invalid.1.2] at this
  exact absurd this (by decide)

/-- the witness is a reachable configuration: level parameters of the second area after one extend -/
theorem v12_witness_reachable :
    let s := reach 2 2 3 0 1 false false [(0, 1), (0, 1)] [.refine 0 false [], .endRound]
    s.lmax = 4 ∧ (s.objects.map (·.coarsening)) = [1, 1, 1, 0] := by
  decide

/-! ## non-vacuity -/

-- a concrete reachable state: dim 2, unit square, split of area 0, then extend of one of its children
example : ((reach 2 1 2 1 0 false false [(0, 1), (0, 1)]
    [.refine 0 false [], .endRound, .refine 3 false [], .endRound]).objects.map (·.coarsening)) = [1, 1, 1, 1, 1, 1, 0] := by
  decide
example : (reach 2 1 2 1 0 false false [(0, 1), (0, 1)]
    [.refine 0 false [], .endRound, .refine 3 false [], .endRound]).lmax = 3 := by decide
-- single-dimension splitting with a scripted dimension list
example : ((reach 2 1 2 1 0 false true [(0, 1), (0, 1)] [.refine 0 false [1], .endRound]).objects.length) = 5 := by
  decide
-- version 0 with coarsening: collisions resolved by the dictionary
example : computed 0 2 1 3 1 = [([1, 2], 1), ([2, 1], 1), ([1, 1], -1)] := by decide
example : stdScheme 2 1 2 = [([1, 2], 1), ([2, 1], 1), ([1, 1], -1)] := by decide
example : localValid 2 1 (computed 0 3 1 3 1) = false := by decide   -- wrong dimension is rejected
example : localValid 3 1 (computed 0 3 1 4 2) = true := by decide
example : localValid 2 2 (computed 1 2 2 4 1) = false := by decide
example : localValid 2 1 (computed 1 2 1 3 1) = true := by decide
-- versions 1 and 2 do not compute a standard scheme in general (here: the box `≤ (2,2,2)` plus the three axes to 3)
example : (computed 1 3 1 4 1).length = 19 ∧ (stdScheme 3 1 3).length = 10 ∧ (stdScheme 3 1 2).length = 4 := by decide
-- (lmax, c) vs (lmax+1, c+1): the same grids, often even in the same order …
example : computed 0 3 1 4 2 = computed 0 3 1 3 1 := by decide
-- … but not always in the same order, so `Perm` (not `=`) is the right statement
example : computed 0 3 1 6 1 ≠ computed 0 3 1 5 0 := by decide

end SparseSpace.C07
