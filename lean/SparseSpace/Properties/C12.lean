import SparseSpace.Lemmas.FuncCache
import SparseSpace.Lemmas.FuncCacheAnalytic
import SparseSpace.Lemmas.FuncCacheTransCorner
import Mathlib.Data.Finset.Card
/-!
# C12 — function evaluation is cache-transparent and matches its analytic integral

Part A: theorems about `Model/FuncCache` (mirror of `Function.__call__`, `reset_dictionary`, `deactivate_caching`,
`get_f_dict_size`, `eval_vectorized` of `sparseSpACE/Function.py`) for EVERY evaluated function `F` that is
consistent with its own declaration (`WellDeclared`), every dimension, every output length and every finite
sequence of single / batch / repeated evaluations, resets, deactivation and size queries.

Part B: theorems about `Model/AnalyticInt` (mirror of the `eval` / `getAnalyticSolutionIntegral` pairs of the
polynomial built-in classes): the rational number computed by the code's formula, embedded in `ℝ`, IS the iterated
interval integral (Mathlib `intervalIntegral`) of the point evaluation over every box, in every dimension.

Two clauses of the property are FALSE of the current code and are mirrored, with counterexamples and `_partial`
theorems carrying the exact guard: the empty batch (raises `IndexError`) and the evaluation counter when single
points are evaluated while caching is deactivated (they are not counted).  `FunctionMultilinear`'s analytic
integral is wrong off boxes with unit sides (counterexample, `_partial`, and the theorem for the repaired formula).
-/
namespace SparseSpace.C12
open SparseSpace.FuncCache SparseSpace.AnalyticInt

/-! ## Part A — the cache

Every theorem is proved for all four variants `cfg` of `Function.__call__` (with / without the proposed repairs
fix-1 "empty batch" and fix-5 "count uncached single points"); the statements about the code AS IT IS are the
instances at `Cfg.current` collected at the end of this part. -/

/-- **cache transparency.**  From every coherent state (in particular the initial one and every reachable one,
`reachable_coherent`), for every sequence of accepted operations, the values returned by the implementation model
are the values of the pure function: a single point gives `[eval p]`, a batch gives `map eval ps` — independently
of the state, i.e. of caching being on or off, of earlier evaluations (single or batch) of the same point and of
resets.  (`specVals` has no state argument.) -/
theorem cache_transparent (cfg : Cfg) (F : Fn) (hF : WellDeclared F) (s : St) (hs : Coherent F s) (ops : List Op)
    (ha : ∀ o ∈ ops, o.accepted cfg = true) :
    (run cfg F s ops).2.map Out.vals = ops.map (specVals F) :=
  run_vals cfg F hF ops s hs ha

/-- every state reachable from `Function.__init__` (by ANY operations, accepted or raising) is coherent -/
theorem reachable_coherent (cfg : Cfg) (F : Fn) (hF : WellDeclared F) (ops : List Op) :
    Coherent F (run cfg F St.init ops).1 :=
  run_coherent cfg F hF ops _ (coherent_init F)

/-- single = batch component: after two arbitrary histories `h₁`, `h₂`, the value of `p` passed singly equals row `i`
of any batch that has `p` at position `i` -/
theorem single_eq_batch_component (cfg : Cfg) (F : Fn) (hF : WellDeclared F) (h₁ h₂ : List Op) (p : Pt)
    (ps : List Pt) (i : Nat) (hp : p ≠ []) (hi : ps[i]? = some p) :
    ∃ miss rows, (step cfg F (run cfg F St.init h₁).1 (.single p)).2 = .value (F.eval p) miss ∧
      (step cfg F (run cfg F St.init h₂).1 (.batch ps)).2 = .values rows ∧ rows[i]? = some (F.eval p) := by
  obtain ⟨m, hm⟩ := single_value cfg F _ p hF (reachable_coherent cfg F hF h₁) hp
  have hne : ps ≠ [] := by intro h; simp [h] at hi
  refine ⟨m, ps.map F.eval, hm, ?_, ?_⟩
  · simp [step, batch_spec cfg F _ ps hF hne]
  · simp [List.getElem?_map, hi]

/-- **shapes**: a batch of `n ≥ 1` points returns `n` rows of `output_length()` entries, a single point one such row -/
theorem shapes (cfg : Cfg) (F : Fn) (hF : WellDeclared F) (s : St) (hs : Coherent F s) :
    (∀ ps, ps ≠ [] → ∃ rows, (step cfg F s (.batch ps)).2 = .values rows ∧ rows.length = ps.length ∧
        ∀ r ∈ rows, r.length = F.outLen) ∧
    (∀ p, p ≠ [] → ∃ v miss, (step cfg F s (.single p)).2 = .value v miss ∧ v.length = F.outLen) := by
  constructor
  · intro ps hp
    refine ⟨ps.map F.eval, by simp [step, batch_spec cfg F s ps hF hp], by simp, ?_⟩
    intro r hr
    obtain ⟨p, _, rfl⟩ := List.mem_map.1 hr
    exact hF.1 p
  · intro p hp
    obtain ⟨m, hm⟩ := single_value cfg F s p hF hs hp
    exact ⟨F.eval p, m, by simpa [step] using hm, hF.1 p⟩

/-- the empty-batch clause of the property, `(step F s (.batch [])).2 = .values []` (shape `(0, output_length())`),
holds with fix-1 … -/
theorem empty_batch_full (cfg : Cfg) (h : cfg.emptyOk = true) (F : Fn) (s : St) :
    step cfg F s (.batch []) = (s, .values []) ∧ (step cfg F s (.batch [])).2.vals = specVals F (.batch []) := by
  simp [step, batch_nil, onEmpty, h, Out.vals, specVals]

/-- … and is false without it: `coordinates[0]` raises `IndexError` for every function and every state -/
theorem empty_batch_counterexample (cfg : Cfg) (h : cfg.emptyOk = false) (F : Fn) (s : St) :
    step cfg F s (.batch []) = (s, .error .index) ∧ (step cfg F s (.batch [])).2.vals ≠ specVals F (.batch []) := by
  simp [step, batch_nil, onEmpty, h, Out.vals, specVals]

/-- **the counter, exactly.**  After every history the dictionary holds, without repetition, exactly the points of
`(trace cfg ops).counted`: all batch points and the single points evaluated while caching was on (all single points
with fix-5), since the last reset; a size query appended to the history returns their number.  Every counted point
was evaluated since the last reset, so the counter never exceeds the number of distinct points evaluated. -/
theorem size_exact (cfg : Cfg) (F : Fn) (hF : WellDeclared F) (ops : List Op) :
    (run cfg F St.init (ops ++ [.size])).2.getLast? = some (.count (trace cfg ops).counted.length) ∧
    keys (run cfg F St.init ops).1.fdict = (trace cfg ops).counted ∧
    (trace cfg ops).counted.Nodup ∧
    (trace cfg ops).counted.length ≤ (trace cfg ops).evaluated.toFinset.card := by
  have hl : Link _ (trace cfg ops) := run_link cfg F hF ops St.init Trace.init (coherent_init F) link_init
  have hi : TInv (trace cfg ops) := tinv_foldl cfg ops Trace.init tinv_init
  refine ⟨?_, hl.1, hi.1, ?_⟩
  · rw [run_append]
    have : (run cfg F St.init ops).1.fdict.length = (trace cfg ops).counted.length := by
      rw [← hl.1]; simp [keys]
    simp [run, step, this]
  · rw [← List.toFinset_card_of_nodup hi.1]
    apply Finset.card_le_card
    intro p hp
    rw [List.mem_toFinset] at hp ⊢
    exact hi.2 p hp

/-- **the counter clause of the property, with its exact guard** (`_partial`): if no single point is evaluated while
caching is deactivated — or if fix-5 is present — the counter equals the number of distinct points evaluated since
the last reset.  (Full statement for today's code: the same without the hypothesis `hg`; it is false, see
`size_counterexample`.) -/
theorem size_distinct_partial (cfg : Cfg) (F : Fn) (hF : WellDeclared F) (ops : List Op)
    (hg : cfg.countUncached = true ∨ noSingleWhileOff true ops = true) :
    (run cfg F St.init (ops ++ [.size])).2.getLast? = some (.count (trace cfg ops).evaluated.toFinset.card) := by
  have h := size_exact cfg F hF ops
  have hi : TInv (trace cfg ops) := tinv_foldl cfg ops Trace.init tinv_init
  have hf : TFull (trace cfg ops) := tfull_foldl cfg ops Trace.init tfull_init hg
  rw [h.1]
  congr 2
  rw [← List.toFinset_card_of_nodup hi.1]
  congr 1
  ext p
  simp only [List.mem_toFinset]
  exact ⟨hi.2 p, hf p⟩

/-- the counter clause at full strength, for the code with fix-5 -/
theorem size_distinct_full (cfg : Cfg) (h : cfg.countUncached = true) (F : Fn) (hF : WellDeclared F) (ops : List Op) :
    (run cfg F St.init (ops ++ [.size])).2.getLast? = some (.count (trace cfg ops).evaluated.toFinset.card) :=
  size_distinct_partial cfg F hF ops (Or.inl h)

/-- without fix-5 the unguarded counter clause is false: deactivate caching, evaluate one point singly — one distinct
point has been evaluated, the counter says 0 (for every function) -/
theorem size_counterexample (cfg : Cfg) (h : cfg.countUncached = false) (F : Fn) (p : Pt) (hp : p ≠ []) :
    let ops := [Op.deactivate, Op.single p]
    (run cfg F St.init (ops ++ [.size])).2.getLast? = some (.count 0) ∧
      (trace cfg ops).evaluated.toFinset.card = 1 := by
  constructor
  · have h' := single_off_state cfg F { St.init with doCache := false } p rfl h
    simp only [List.cons_append, List.nil_append, run, step, h']
    rfl
  · simp [trace, Trace.step, Trace.init, hp]

/-- **hit / miss**: in every reachable state a single-point call invokes `eval` iff caching is off or the point is not
among the counted points of the history — so with caching on `eval` runs once per distinct point between resets, and
again after a reset -/
theorem hit_miss (cfg : Cfg) (F : Fn) (hF : WellDeclared F) (ops : List Op) (p : Pt) (hp : p ≠ []) :
    (step cfg F (run cfg F St.init ops).1 (.single p)).2 =
      .value (F.eval p) (!((trace cfg ops).cacheOn && decide (p ∈ (trace cfg ops).counted))) := by
  have hl : Link _ (trace cfg ops) := run_link cfg F hF ops St.init Trace.init (coherent_init F) link_init
  have hc := reachable_coherent cfg F hF ops
  have := (single_spec cfg F _ p hF hc hp hl.2.2).1
  simp only [step, this]
  rw [hl.1, hl.2.1]

/-- the base-class `eval_vectorized` (loop over `eval`) satisfies the declaration as soon as `eval` has the declared
length; an override does as soon as it computes `eval` row by row (for the transcendental built-ins that premise is
validated by the oracle at 1e-12, for `FunctionLinear` it is `linear_override_wellDeclared`) -/
theorem generic_wellDeclared (eval : Pt → Val) (n : Nat) (h : ∀ p, (eval p).length = n) :
    WellDeclared (Fn.generic eval n) :=
  ⟨h, fun ps => genericVec_eq_map eval n h ps⟩

theorem override_wellDeclared (eval vec : Pt → Val) (n : Nat) (h : ∀ p, (eval p).length = n)
    (hv : ∀ p, vec p = eval p) : WellDeclared (Fn.override eval vec n) :=
  ⟨h, fun ps => by simp [Fn.override, funext hv]⟩

/-- `FunctionLinear`: the vectorised override `np.prod(coordinates * coeffs, axis=-1)` computes `eval` -/
theorem linear_override_wellDeclared (c : List Rat) : WellDeclared (linearFn c) := by
  refine override_wellDeclared _ _ 1 (fun _ => rfl) (fun p => ?_)
  have : ∀ (x : List Rat) (r : Rat), mulLoop r (List.zipWith (fun x c => x * c) x c)
      = mulLoop r (List.zipWith (fun c x => c * x) c x) := by
    intro x
    induction c generalizing x with
    | nil => cases x <;> simp [mulLoop]
    | cons a c ih =>
      cases x with
      | nil => simp [mulLoop]
      | cons y x =>
        intro r
        have h := ih x (r * (a * y))
        simp only [mulLoop] at h ⊢
        simp only [List.zipWith_cons_cons, List.foldl_cons]
        rw [Rat.mul_comm y a]; exact h
  simp only [evalLinearVec, evalLinear, this]

/-- the other exact built-in classes use the base-class `eval_vectorized` and return scalars -/
theorem builtin_wellDeclared (v : Rat) (k : Nat) (c : List Rat) :
    WellDeclared (constFn v) ∧ WellDeclared (polynomialFn k c) ∧ WellDeclared (multilinearFn c) :=
  ⟨generic_wellDeclared _ 1 (fun _ => rfl), generic_wellDeclared _ 1 (fun _ => rfl),
   generic_wellDeclared _ 1 (fun _ => rfl)⟩

/-! ### the code AS IT IS (`Cfg.current`; to be replaced by the `_full` theorems when fix-1 / fix-5 land) -/

/-- the code has both repairs -/
theorem current_code : Cfg.current.emptyOk = true ∧ Cfg.current.countUncached = true := ⟨rfl, rfl⟩

/-- the empty batch returns shape `(0, output_length())` -/
theorem current_empty_batch (F : Fn) (s : St) : step Cfg.current F s (.batch []) = (s, .values []) :=
  (empty_batch_full Cfg.current current_code.1 F s).1

/-- the counter equals the number of distinct points evaluated since the last reset, for every history -/
theorem current_counter (F : Fn) (hF : WellDeclared F) (ops : List Op) :
    (run Cfg.current F St.init (ops ++ [.size])).2.getLast? =
      some (.count (trace Cfg.current ops).evaluated.toFinset.card) :=
  size_distinct_full Cfg.current current_code.2 F hF ops

/-! non-vacuity of Part A: a concrete well-declared function (FunctionLinear([1,2])), a concrete history with
    repetition, batch, deactivation and reset -/
example : (run Cfg.current (linearFn [1, 2]) St.init
    [.single [1/2, 1/4], .batch [[1/2, 1/4], [1, 1]], .single [1, 1], .size, .deactivate, .single [3, 1], .size,
     .reset, .size, .single [1, 1], .batch []]).2 =
    [.value [1/4] true, .values [[1/4], [2]], .value [2] false, .count 2, .unit, .value [6] true, .count 3,
     .unit, .count 0, .value [2] true, .values []] := by decide +kernel
example : (run ⟨true, true⟩ (linearFn [1, 2]) St.init
    [.deactivate, .single [3, 1], .size, .batch []]).2 = [.unit, .value [6] true, .count 1, .values []] := by
  decide +kernel
example : noSingleWhileOff true [.single [1], .deactivate, .batch [[2], [1]], .reset, .size] = true := by decide
example : noSingleWhileOff true [.deactivate, .single [1]] = false := by decide
example : (trace Cfg.current [.single [1], .deactivate, .single [2], .batch [[1], [3]]]).counted = [[1], [2], [3]] := by
  decide +kernel
example : (trace ⟨false, true⟩ [.single [1], .deactivate, .single [2], .batch [[1], [3]]]).counted = [[1], [2], [3]] := by
  decide +kernel

/-! ## Part B — analytic integrals of the polynomial classes

`iint box g` is the iterated interval integral `∫ x₀ in a₀..b₀, … ∫ x_{n-1} in a_{n-1}..b_{n-1}, g [x₀,…,x_{n-1}]`
(defined in Lemmas/FuncCacheAnalytic by recursion on the box, with Mathlib's `intervalIntegral`; no formula of the
code enters its definition).  `castL` embeds rational lists in `ℝ`.  The left-hand sides are the integrals of the
REAL function given by the code's `eval` loop; the right-hand sides are the RATIONAL numbers the code's formula
computes (the same polymorphic term the driver executes), for all rational coefficients and boxes (also with
`end < start`, and boxes not containing the origin). -/

/-- `ConstantValue` -/
theorem const_integral (v : ℚ) (s e : List ℚ) :
    iint (List.zip (castL s) (castL e)) (evalConst (v : ℝ)) = ((anaConst v s e : ℚ) : ℝ) := by
  rw [cast_anaConst]; exact AnalyticInt.const_integral _ _ _

/-- `FunctionLinear` -/
theorem linear_integral (c s e : List ℚ) (hs : s.length = c.length) (he : e.length = c.length) :
    iint (List.zip (castL s) (castL e)) (evalLinear (castL c)) = ((anaLinear c s e : ℚ) : ℝ) := by
  rw [cast_anaLinear]
  exact AnalyticInt.linear_integral _ _ _ (by simp [castL_length, hs]) (by simp [castL_length, he])

/-- `FunctionPolynomial`, every degree -/
theorem polynomial_integral (k : Nat) (c s e : List ℚ) (hs : s.length = c.length) (he : e.length = c.length) :
    iint (List.zip (castL s) (castL e)) (evalPolynomial k (castL c)) = ((anaPolynomial k c s e : ℚ) : ℝ) := by
  rw [cast_anaPolynomial]
  exact AnalyticInt.polynomial_integral k _ _ _ (by simp [castL_length, hs]) (by simp [castL_length, he])

/-- `Polynomial1d`, every coefficient list -/
theorem poly1d_integral (cs : List ℚ) (a b : ℚ) :
    ∫ x in (a : ℝ)..(b : ℝ), evalPoly1d (castL cs) x = ((anaPoly1d cs a b : ℚ) : ℝ) := by
  rw [cast_anaPoly1d]; exact AnalyticInt.poly1d_integral _ _ _

/-- `FunctionMultilinear` with the REPAIRED formula of handoff/C12-fix-2.diff: correct on every box -/
theorem multilinear_fixed_integral (c s e : List ℚ) (hs : s.length = c.length) (he : e.length = c.length) :
    iint (List.zip (castL s) (castL e)) (evalMultilinear (castL c)) = ((anaMultilinearFixed c s e : ℚ) : ℝ) := by
  rw [cast_anaMultilinearFixed]
  exact AnalyticInt.multilinear_fixed_integral _ _ _ (by simp [castL_length, hs]) (by simp [castL_length, he])

/-- `FunctionMultilinear` AS CODED (`_partial`): correct on boxes whose sides all have length 1 (e.g. the unit cube).
Full statement: the same without `h1`; false, see `multilinear_code_wrong`. -/
theorem multilinear_code_partial (c s e : List ℚ) (hs : s.length = c.length) (he : e.length = c.length)
    (h1 : ∀ se ∈ List.zip s e, se.2 - se.1 = 1) :
    iint (List.zip (castL s) (castL e)) (evalMultilinear (castL c)) = ((anaMultilinear c s e : ℚ) : ℝ) := by
  rw [cast_anaMultilinear, multilinear_code_unit_sides]
  · exact AnalyticInt.multilinear_fixed_integral _ _ _ (by simp [castL_length, hs]) (by simp [castL_length, he])
  · intro se hse
    unfold castL at hse
    rw [List.zip_map] at hse
    obtain ⟨ab, hab, rfl⟩ := List.mem_map.1 hse
    have := h1 ab hab
    simp only [Prod.map]
    exact_mod_cast this

/-- the coded formula of `FunctionMultilinear` is wrong: `f(x,y) = x + 2y` on `[0,2]×[0,3]` has integral 24, the code
returns 11 -/
theorem multilinear_code_wrong :
    anaMultilinear (α := ℚ) [1, 2] [0, 0] [2, 3] = 11 ∧
    iint (List.zip (castL [0, 0]) (castL [2, 3])) (evalMultilinear (castL [1, 2])) = 24 := by
  constructor
  · decide +kernel
  · rw [multilinear_fixed_integral [1, 2] [0, 0] [2, 3] rfl rfl]
    have : anaMultilinearFixed (α := ℚ) [1, 2] [0, 0] [2, 3] = 24 := by decide +kernel
    rw [this]; norm_num

/-- the formula of the code under test (what the driver executes) is today the coded one: fix-2 is absent -/
theorem current_multilinear_is_repaired (c s e : List ℚ) :
    anaMultilinearCurrent c s e = anaMultilinearFixed c s e := by
  simp [anaMultilinearCurrent, multilinearRepaired]

/-! non-vacuity of Part B: concrete values of the executed formulas -/
example : anaPolynomial (α := ℚ) 2 [1, 2] [0, 0] [2, 3] = 48 := by decide +kernel
example : anaLinear (α := ℚ) [1, 2] [1, -1] [2, 3] = 12 := by decide +kernel
example : anaPoly1d (α := ℚ) [1, 2, 3] 1 2 = 11 := by decide +kernel
example : anaConst (α := ℚ) 3 [0, 1] [2, 3] = 12 := by decide +kernel
example : ∀ se ∈ List.zip [(1 : ℚ), -2] [(2 : ℚ), -1], se.2 - se.1 = 1 := by decide +kernel

/-! ## Part C — analytic integrals of the transcendental classes

`Model/AnalyticTrans` writes each `eval` / `getAnalyticSolutionIntegral` pair once over a carrier with the class
`NumOps` (exp, cos, sin, arctan, real power, π).  The driver runs the `Float` instance (ops `anaT`, `evlT`, tied to the
Python values at 1e-12); the theorems below are about the `ℝ` instance (`instNumOpsReal`: Mathlib's `Real.exp`, …) of
THE SAME terms: the formula equals the iterated interval integral `iint` of the modelled point evaluation, in every
dimension, for all real parameters and boxes subject to the stated side conditions (each is the domain of the class
or a condition without which the code itself divides by zero). -/
section PartC
open SparseSpace.AnalyticTrans

/-- GenzProductPeak: every box (any order of start/end), every midpoint, coefficients ≠ 0 (`coeffs ** (-2)`) -/
theorem productPeak_integral (c m s e : List ℝ) (hc : ∀ x ∈ c, x ≠ 0)
    (hm : m.length = c.length) (hs : s.length = c.length) (he : e.length = c.length) :
    iint (List.zip s e) (evalProductPeak c m) = anaProductPeak c m s e :=
  AnalyticTrans.productPeak_integral c m s e hc hm hs he

/-- GenzC0: every position of the kink relative to the box (left of it, inside, right of it, on an end: the four
branches of the code), coefficients ≠ 0 (the formula divides by them), `start ≤ end` -/
theorem c0_integral (c m s e : List ℝ) (hc : ∀ x ∈ c, x ≠ 0) (hse : ∀ se ∈ List.zip s e, se.1 ≤ se.2)
    (hm : m.length = c.length) (hs : s.length = c.length) (he : e.length = c.length) :
    iint (List.zip s e) (evalC0 c m) = anaC0 c m s e :=
  AnalyticTrans.c0_integral c m s e hc hse hm hs he

/-- GenzDiscontinious: every position of the border (beyond the box → 0, inside → integral up to the border, before
the box start → early `return 0.0`), coefficients ≠ 0 of either sign, `start ≤ end` -/
theorem disc_integral (c b s e : List ℝ) (hc : ∀ x ∈ c, x ≠ 0) (hse : ∀ se ∈ List.zip s e, se.1 ≤ se.2)
    (hb : b.length = c.length) (hs : s.length = c.length) (he : e.length = c.length) :
    iint (List.zip s e) (evalDisc c b) = anaDisc c b s e :=
  AnalyticTrans.disc_integral c b s e hc hse hb hs he

/-- GenzDiscontinious2: both components of the value and of the integral are those of GenzDiscontinious -/
theorem disc2_integral (c b s e : List ℝ) (hc : ∀ x ∈ c, x ≠ 0) (hse : ∀ se ∈ List.zip s e, se.1 ≤ se.2)
    (hb : b.length = c.length) (hs : s.length = c.length) (he : e.length = c.length) :
    anaDisc2 c b s e = [iint (List.zip s e) (fun xs => (evalDisc2 c b xs).getD 0 0),
                        iint (List.zip s e) (fun xs => (evalDisc2 c b xs).getD 1 0)] := by
  have h := AnalyticTrans.disc_integral c b s e hc hse hb hs he
  simp only [anaDisc2, evalDisc2, List.getD_cons_zero, List.getD_cons_succ]
  rw [← h]

/-- FunctionExpVar: every dimension `n` (exponent `1/n`, prefactor `(1+1/n)^n`), every box; the real power is numpy's
on the function's domain `x ≥ 0` -/
theorem expVar_integral (s e : List ℝ) (he : e.length = s.length) :
    iint (List.zip s e) evalExpVar = anaExpVar s e :=
  AnalyticTrans.expVar_integral s e he

/-- GenzOszillatory: every coefficient vector INCLUDING zero coefficients (their dimensions contribute their length;
all zero: the repaired branch), every offset, every box: sign `(-1)^⌊n/2⌋`, `sin` for an odd and `cos` for an even number
`n` of non-zero coefficients, signed sum over the `2^n` corners -/
theorem osz_integral (c : List ℝ) (o : ℝ) (s e : List ℝ) (hs : s.length = c.length) (he : e.length = c.length) :
    iint (List.zip s e) (evalOsz c o) = anaOsz c o s e :=
  AnalyticTrans.osz_integral c o s e hs he

/-- GenzCornerPeak on its domain (positive coefficients, boxes in the non-negative orthant, so that `1 + Σ c x > 0`):
factor `(-1)^n / (n! Π c)` times the signed corner sum of `1/(1 + Σ c v)` -/
theorem cornerPeak_integral (c s e : List ℝ) (hc : ∀ x ∈ c, 0 < x)
    (hbox : ∀ se ∈ List.zip s e, 0 ≤ se.1 ∧ se.1 ≤ se.2)
    (hs : s.length = c.length) (he : e.length = c.length) :
    iint (List.zip s e) (evalCornerPeak c) = anaCornerPeak c s e :=
  AnalyticTrans.cornerPeak_integral c s e hc hbox hs he

/-- the engine behind the last two: for a chain of antiderivatives `G 0, …, G N` on a domain that the box never leaves,
the iterated integral of `G k (φ + Σ c_d x_d)` is `Π_{c_d = 0} (e_d - s_d) · (Π_{c_d ≠ 0} c_d)⁻¹ ·` signed corner sum
of `G (k + #non-zero)` -/
theorem corner_sum_integral (G : ℕ → ℝ → ℝ) (D : Set ℝ) (N : ℕ) (hG : AntiChain G D N) (dims : List (ℝ × ℝ × ℝ))
    (hadm : Adm D dims) (k : ℕ) (hk : k + (dims.filter (fun d => nonzero d.1)).length ≤ N) (φ : ℝ) (hφ : φ ∈ D) :
    iint (boxOf dims) (fun xs => G k (φ + lin dims xs)) =
      ((dims.filter (fun d => !nonzero d.1)).map (fun d => d.2.2 - d.2.1)).prod *
      (1 / ((dims.filter (fun d => nonzero d.1)).map (·.1)).prod) *
      cornerSum (G (k + (dims.filter (fun d => nonzero d.1)).length)) (dims.filter (fun d => nonzero d.1)) φ :=
  iint_corner G D N hG dims hadm k hk φ hφ

/-! non-vacuity of Part C: the side conditions are satisfiable by concrete boxes / parameters, and both chains exist -/
example : (∀ x ∈ [(1 : ℝ), 3 / 2], x ≠ 0) ∧ (∀ se ∈ List.zip [(0 : ℝ), 1 / 2] [(1 : ℝ), 2], se.1 ≤ se.2) := by
  constructor <;> (simp; try norm_num)
example : (∀ x ∈ [(1 : ℝ), 3 / 2], 0 < x) ∧ (∀ se ∈ List.zip [(0 : ℝ), 1 / 2] [(1 : ℝ), 2], 0 ≤ se.1 ∧ se.1 ≤ se.2) := by
  constructor <;> (simp; try norm_num)
example : AntiChain oszG Set.univ 5 := oszG_chain 5
example : AntiChain (cpG 3) (Set.Ioi 0) 3 := cpG_chain 3
/-- the formulas are not trivially 0: a 1-dimensional instance of each engine evaluated by hand -/
example : anaExpVar [(0 : ℝ)] [1] = 1 := by
  simp [anaExpVar, mulLoop_eq, NumOps.rpow]
example : anaOsz [(0 : ℝ)] 0 [0] [3] = 3 := by
  simp [anaOsz, nonzero, mulLoop_eq, NumOps.cos, NumOps.pi]

end PartC

end SparseSpace.C12
