import SparseSpace.Lemmas.DimWiseKeep
import SparseSpace.Lemmas.DimWiseKeepAll
import SparseSpace.Lemmas.DimWiseKeepMain
/-!
# C04c — does the dimension-wise refinement keep the initial sparse-grid space? (rebalancing OFF)

Extension goal handed over: "for every history of `DW.run` with rebalancing off and coarsening version 3, 6, 7 or 8,
every reachable state satisfies `Exact.keepsInitial (DW.toExact st …) = true`".

RESULT: the goal is **false** for every one of the four versions as soon as `dim ≥ 3` and `lmax − lmin ≥ 3`.
The counterexamples below are kernel-evaluated on the refinement model; each of them was replayed on the real
implementation (`SpatiallyAdaptiveSingleDimensions2`, `rebalancing=False`, `margin=1`, scripted error estimator) with the
same outcome: the tensor hat `φ_{2,3} ⊗ φ_{2,3} ⊗ φ_{2,3}` (level vector `(2,2,2)` of the initial `(lmin,lmax) = (1,4)`
index set, exact integral `1/64`, value `1` at `(3/4,3/4,3/4)`) is integrated to `0` and interpolated to `0`.

POSITIVE SIDE (second half of the file): in the complementary class `dim = 2` or `lmax − lmin ≤ 2` the goal is PROVED for every
history without rebalancing (unbounded number of `refine()` calls): `dimwise_keeps_initial_of_class`,
`dimwise_keeps_initial_v678`, `dimwise_keeps_initial_v6_dim2`, `dimwise_keeps_initial_v6_span2`, and for version 3 with exact
rounding `dimwise_keeps_initial_v3_exact`.  The class is sharp: the counterexamples have `dim = 3`, `lmax − lmin = 3`.
-/
namespace SparseSpace.C04c
open SparseSpace

/-- benefit row: `1` for object `i`, `0` elsewhere -/
def one (n i : Nat) : List Rat := (List.range n).map fun j => if j == i then 1 else 0
/-- benefit row: nothing to refine -/
def zer (n : Nat) : List Rat := List.replicate n 0
/-- rebalancing is OFF in all histories of this file; the comparison outcomes are never used -/
def noDec : Nat → Nat → Nat → Bool := fun _ _ _ => false

def a3 : List Rat := [0, 0, 0]
def b3 : List Rat := [1, 1, 1]

/-- the start configuration of all counterexamples: unit cube, `lmin = 1`, `lmax = 4` -/
def start : DW := DW.init 1 4 a3 b3

/-- the lost function: the level-2 hat at `3/4` in every dimension -/
def lostHat : List Exact.Fn1 := [.hat 0 1 2 3, .hat 0 1 2 3, .hat 0 1 2 3]

/-- versions 6 and 8: step 1 refines the interval `[0, 1/16]` of every dimension, step 2 the interval `[0, 1/32]` of the
dimensions 1 and 2 (margin 1, rebalancing off) -/
def hist68 : List StepIn :=
  [⟨[one 16 0, one 16 0, one 16 0], 1, false, noDec⟩,
   ⟨[zer 17, one 17 0, one 17 0], 1, false, noDec⟩]

/-- version 7: the left-most interval is refined six times in the dimensions 0 and 1, three times in dimension 2 -/
def hist7 : List StepIn :=
  [⟨[one 16 0, one 16 0, one 16 0], 1, false, noDec⟩,
   ⟨[one 17 0, one 17 0, one 17 0], 1, false, noDec⟩,
   ⟨[one 18 0, one 18 0, one 18 0], 1, false, noDec⟩,
   ⟨[one 19 0, one 19 0, zer 19], 1, false, noDec⟩,
   ⟨[one 20 0, one 20 0, zer 19], 1, false, noDec⟩,
   ⟨[one 21 0, one 21 0, zer 19], 1, false, noDec⟩]

/-- version 3: the left-most interval of every dimension is refined five times -/
def hist3 : List StepIn :=
  [⟨[one 16 0, one 16 0, one 16 0], 1, false, noDec⟩,
   ⟨[one 17 0, one 17 0, one 17 0], 1, false, noDec⟩,
   ⟨[one 18 0, one 18 0, one 18 0], 1, false, noDec⟩,
   ⟨[one 19 0, one 19 0, one 19 0], 1, false, noDec⟩,
   ⟨[one 20 0, one 20 0, one 20 0], 1, false, noDec⟩]

/-- the rounding of version 3 as IEEE doubles perform it at the one argument that matters below:
`5/3 - int(5/3) = 0.66666666666666674 > 2/3 = 0.66666666666666663`, so the code takes the ceiling for
`(sv, dim, d) = (5, 3, 2)` where exact arithmetic (`v3Exact`) takes the floor -/
def v3Float (sv : Int) (dim d : Nat) : Int :=
  if sv = 5 ∧ dim = 3 ∧ d = 2 then 2 else v3Exact sv dim d

/-- what a counterexample state shows: reached by the history, `lmax`, `max_coarsenings`; (H_keep) fails and the lost
level vector is `(2,2,2)`, which belongs to the initial index set; the combined integral of the lost hat is `0`
instead of `1/64`, the combined interpolant at `(3/4,3/4,3/4)` is `0` instead of `1` -/
def Refutes (h : List StepIn) (cfg : PtCfg) (lmax mcs : List Int) : Prop :=
  ∃ st, start.run h = some st ∧ st.lmax = lmax ∧ st.maxCoarsenings = mcs ∧
    Exact.keepsInitial (st.toExact cfg a3 b3 4) = false ∧
    Exact.lostLevel (st.toExact cfg a3 b3 4) = some [2, 2, 2] ∧
    [2, 2, 2] ∈ Exact.initIdx 3 1 4 ∧
    (st.toExact cfg a3 b3 4).integral .std lostHat = 0 ∧
    (st.toExact cfg a3 b3 4).value .std lostHat [3/4, 3/4, 3/4] = 0

instance (h : List StepIn) (cfg : PtCfg) (lmax mcs : List Int) : Decidable (Refutes h cfg lmax mcs) := by
  unfold Refutes; infer_instance

/-- **version 6 (the default) and version 8 lose the initial space after two `refine()` calls without rebalancing**:
every dimension gets the loop value `m = 1` (sum 3), but `raise_lmax` has enlarged the index set only by
`max(lmax) − lmax₀ = 2`, so the witness `(3,3,3)` of `(2,2,2)` is not in the index set -/
theorem keeps_initial_false_v6_v8 : ∀ v ∈ [6, 8], Refutes hist68 { version := v } [5, 6, 6] [1, 2, 2] := by
  decide +kernel

/-- **version 3 with the rounding the code performs in floats loses the initial space** (five `refine()` calls without
rebalancing): `sv = 5` in all three dimensions is shared as `2 + 2 + 2 = 6 > 5` -/
theorem keeps_initial_false_v3_float : Refutes hist3 { version := 3, v3r := v3Float } [9, 9, 9] [5, 5, 5] := by
  decide +kernel

set_option maxRecDepth 100000 in
/-- **version 7 loses the initial space** (six `refine()` calls without rebalancing): `max_coarsenings = (6,6,3)`, the loop
values are `m = 3, 3, 1` (sum 7) for the untouched level-2 subtrees, but `max(lmax) − lmax₀ = 6` -/
theorem keeps_initial_false_v7 : ∃ st, start.run hist7 = some st ∧ st.lmax = [10, 10, 7] ∧ st.maxCoarsenings = [6, 6, 3] ∧
    Exact.keepsInitial (st.toExact { version := 7 } a3 b3 4) = false ∧
    [2, 2, 2] ∈ Exact.initIdx 3 1 4 ∧
    (st.toExact { version := 7 } a3 b3 4).integral .std lostHat = 0 := by
  decide +kernel

set_option maxRecDepth 100000 in
/-- the histories themselves are harmless: on the version-6 history the versions 3 and 7 keep the initial space, and on
the version-3 history version 3 with EXACT rounding (`v3Exact`) does, with the exact integral `1/64` -/
theorem keeps_initial_true_on_the_same_histories :
    (∀ v ∈ [3, 7], ∃ st, start.run hist68 = some st ∧ Exact.keepsInitial (st.toExact { version := v } a3 b3 4) = true) ∧
    (∃ st, start.run hist3 = some st ∧ Exact.keepsInitial (st.toExact { version := 3 } a3 b3 4) = true ∧
      (st.toExact { version := 3 } a3 b3 4).integral .std lostHat = 1 / 64) := by
  decide +kernel

/-! ## what IS true for every history without rebalancing (all versions, dimensions, level pairs) -/

/-- a history in which every `refine()` call has rebalancing switched off -/
def NoRebalancing (ins : List StepIn) : Prop := ∀ i ∈ ins, i.rebalancing = false

/-- every history without rebalancing runs through and keeps `DWWF` (C06) and the invariant `NRInv` -/
theorem run_nr (a b : List Rat) (lmax0 : Nat) : ∀ (ins : List StepIn) (st : DW), NoRebalancing ins →
    DWWF a b lmax0 st → NRInv a b lmax0 st →
    ∃ st', st.run ins = some st' ∧ DWWF a b lmax0 st' ∧ NRInv a b lmax0 st' ∧ st'.dim = st.dim ∧ st'.lmin = st.lmin
  | [], st, _, h, hn => ⟨st, rfl, h, hn, rfl, rfl⟩
  | i :: is, st, hnr, h, hn => by
    have hi : i.rebalancing = false := hnr i (by simp)
    obtain ⟨out, h1, h2, h3, h3', _⟩ := step_wf a b lmax0 st h i.bens i.margin i.rebalancing i.dec
    have hn2 : NRInv a b lmax0 out.st := step_nr a b lmax0 st h hn i.bens i.margin i.dec out (by rw [← hi]; exact h1)
    obtain ⟨st', h4, h5, h6, h7, h8⟩ := run_nr a b lmax0 is out.st (fun j hj => hnr j (by simp [hj])) h2 hn2
    exact ⟨st', by simp only [DW.run, h1]; exact h4, h5, h6, by rw [h7, h3], by rw [h8, h3']⟩

/-- **all histories without rebalancing** from every start configuration (`dim ≥ 1`, `lmin ≤ lmax`, `2 ≤ lmax`,
non-degenerate box): no `refine()` fails and in the reached state
1. (levels are kept) every point of the initial level-`lmax` grid of every dimension is still an interval end WITH ITS
   INITIAL LEVEL, and every interval has an end of level `≥ lmax` (so every point created by refinement has a level
   `> lmax`, and `lmax_d ≥ lmax`);
2. (index set) every level vector `r` with `lmin ≤ r_d ≤ lmax_d`, `Σ r ≤ max(lmax) + (dim-1)·lmin`, in which a component
   above `lmin` forces the other components strictly below their `lmax_k`, belongs to the index set. -/
theorem all_histories_no_rebalancing (lmin lmax : Nat) (a b : List Rat) (hlen : a.length = b.length) (hd : 1 ≤ a.length)
    (hl : lmin ≤ lmax) (h2 : 2 ≤ lmax) (hab : ∀ d, d < a.length → a.getD d 0 < b.getD d 0)
    (ins : List StepIn) (hnr : NoRebalancing ins) :
    ∃ st, (DW.init lmin lmax a b).run ins = some st ∧ st.dim = a.length ∧ st.lmin = lmin ∧
      (∀ d, d < st.dim → ∀ x ∈ initObjs lmax (a.getD d 0) (b.getD d 0), ∃ y ∈ st.objsOf d, y.e = x.e ∧ y.l1 = x.l1) ∧
      (∀ d, d < st.dim → ∀ y ∈ st.objsOf d, lmax ≤ max y.l0 y.l1) ∧
      (∀ r : LV, r.length = st.dim →
        (∀ d, d < st.dim → st.lmin ≤ r.getD d 0 ∧ r.getD d 0 ≤ st.lmax.getD d 0) →
        r.sum ≤ maxList st.lmax + st.lmin * ((st.dim : Int) - 1) →
        (∀ d, d < st.dim → st.lmin < r.getD d 0 → ∀ k, k < st.dim → k ≠ d → r.getD k 0 < st.lmax.getD k 0) →
        r ∈ st.cs.old ++ st.cs.active) := by
  have hwf := init_wf lmin lmax a b hlen hd hl h2 hab
  have hn0 := init_nr lmin lmax a b hlen hd hl hab
  obtain ⟨st, h1, h3, h4, h5, h6⟩ := run_nr a b lmax ins _ hnr hwf hn0
  have hobjs : ∀ d, d < st.dim → st.m.conts[d]? = some (st.m.conts.getD d { objs := [] }) := by
    intro d hd'
    have : d < st.m.conts.length := by rw [h3.lconts]; exact hd'
    simp [List.getD, List.getElem?_eq_getElem this]
  refine ⟨st, h1, by rw [h5]; rfl, by rw [h6]; rfl, ?_, ?_, ?_⟩
  · intro d hd' x hx
    exact h4.keepPts d _ (hobjs d hd') x hx
  · intro d hd' y hy
    exact h4.deep d _ (hobjs d hd') y hy
  · intro r hr hbox hsum hside
    exact index_set_contains a b lmax st h3 h4.noRaise _ r hr (Nat.le_refl _) hbox hsum hside

/-- corollary: the "open" box-simplex `lmin ≤ r_d < lmax_d`, `Σ r ≤ max(lmax) + (dim-1)·lmin` -/
theorem index_set_contains_open_simplex (lmin lmax : Nat) (a b : List Rat) (hlen : a.length = b.length) (hd : 1 ≤ a.length)
    (hl : lmin ≤ lmax) (h2 : 2 ≤ lmax) (hab : ∀ d, d < a.length → a.getD d 0 < b.getD d 0)
    (ins : List StepIn) (hnr : NoRebalancing ins) :
    ∃ st, (DW.init lmin lmax a b).run ins = some st ∧
      ∀ r : LV, r.length = st.dim → (∀ d, d < st.dim → st.lmin ≤ r.getD d 0 ∧ r.getD d 0 < st.lmax.getD d 0) →
        r.sum ≤ maxList st.lmax + st.lmin * ((st.dim : Int) - 1) → r ∈ st.cs.old ++ st.cs.active := by
  obtain ⟨st, h1, _, _, _, _, h6⟩ := all_histories_no_rebalancing lmin lmax a b hlen hd hl h2 hab ins hnr
  refine ⟨st, h1, fun r hr hbox hsum => h6 r hr (fun d hd' => ⟨(hbox d hd').1, le_of_lt (hbox d hd').2⟩) hsum
    (fun d _ _ k hk _ => (hbox k hk).2)⟩

/-- non-vacuity: on the state of the version-6 counterexample (`lmax = (5,6,6)`, bound `Σ r ≤ 8`) the theorem puts
`(3,3,2)` and the corner `(1,6,1)` into the index set — and `(3,3,3)` (sum 9), the only possible witness for the lost
level `(2,2,2)`, is NOT in it -/
example : ∃ st, start.run hist68 = some st ∧ ([3, 3, 2] : LV) ∈ st.cs.old ++ st.cs.active ∧
    ([1, 6, 1] : LV) ∈ st.cs.old ++ st.cs.active := by
  obtain ⟨st, h1, hdimA, hlm, _, _, h6⟩ := all_histories_no_rebalancing 1 4 a3 b3 rfl (by decide) (by decide) (by decide)
    (by intro d hd; have : d = 0 ∨ d = 1 ∨ d = 2 := by simp [a3] at hd; omega
        rcases this with rfl | rfl | rfl <;> simp [a3, b3])
    hist68 (by intro i hi; simp [hist68] at hi; rcases hi with rfl | rfl <;> rfl)
  obtain ⟨st', h1', hl', _⟩ := keeps_initial_false_v6_v8 6 (by simp)
  have hst : st' = st := by
    have : some st' = some st := by rw [← h1', ← h1]; rfl
    exact Option.some.inj this
  subst hst
  have hdim : st'.dim = 3 := hdimA
  rw [hdim, hlm, hl'] at h6
  refine ⟨st', h1, ?_, ?_⟩
  · exact h6 [3, 3, 2] rfl (by decide) (by decide) (by decide)
  · exact h6 [1, 6, 1] rfl (by decide) (by decide) (by decide)

theorem witness_not_in_index_set :
    ∃ st, start.run hist68 = some st ∧ ([3, 3, 3] : LV) ∉ st.cs.old ++ st.cs.active := by
  decide +kernel

/-! ## the positive side: (H_keep) holds for EVERY history without rebalancing when `dim = 2` or `lmax − lmin ≤ 2` -/

/-- **the general form**: every configuration of the component grids that satisfies `LoopOK` (proved for the versions 6, 7, 8: `loopOK_678`, and for
version 3 with a rounding that shares `sv` correctly, e.g. the exact one: `loopOK_3`, `v3Exact_ok`), every start
configuration with `dim = 2` or `lmax ≤ lmin + 2` (`dim ≥ 1`, `lmin < lmax`, `2 ≤ lmax`, non-degenerate box), every
history without rebalancing (any number of `refine()` calls, any benefit tables and margins): the history runs through
and the reached state satisfies C04's (H_keep) — hence (C04 `keepsInitial_integral_exact`, `keepsInitial_interp_exact`)
the whole initial sparse-grid space is still integrated and interpolated exactly.
Witness for `k0`: `r_d = lmin` if `k0_d ≤ max(lmin,1)`, `r_d = lmax_d` if `k0_d = lmax`, else `r_d = k0_d + max m_i` over the
ends `i` of level `≤ k0_d` (`DW.rOf`); `r` is in the index set (`index_set_contains`) because at most two dimensions are
above `lmin` and two loop values together never exceed `max(lmax) − lmax₀` (`mMax_pair`, `pair_bound`). -/
theorem dimwise_keeps_initial_of_class (lmin lmax : Nat) (a b : List Rat) (hlen : a.length = b.length)
    (hd : 1 ≤ a.length) (hl : lmin < lmax) (h2 : 2 ≤ lmax) (hab : ∀ d, d < a.length → a.getD d 0 < b.getD d 0)
    (hclass : a.length = 2 ∨ lmax ≤ lmin + 2) (cfg : PtCfg) (hv : LoopOK cfg)
    (ins : List StepIn) (hnr : NoRebalancing ins) :
    ∃ st, (DW.init lmin lmax a b).run ins = some st ∧ Exact.keepsInitial (st.toExact cfg a b lmax) = true := by
  have hwf := init_wf lmin lmax a b hlen hd (le_of_lt hl) h2 hab
  have hn0 := init_nr lmin lmax a b hlen hd (le_of_lt hl) hab
  obtain ⟨st, h1, h3, h4, h5, h6⟩ := run_nr a b lmax ins _ hnr hwf hn0
  have hub := run_ub ins _ st (init_ub lmin lmax a b hd (le_of_lt hl)) h1
  have hdim : st.dim = a.length := h5
  have hlmin : st.lmin = (lmin : Int) := h6
  refine ⟨st, h1, ?_⟩
  apply keepsInitial_of_shape a b lmax st h3 h4 hub cfg hv h2 (by rw [hlmin]; exact_mod_cast hl) hdim.symm
    (by rw [hdim, hlen]) (fun d hdd => hab d (by rw [← hdim]; exact hdd))
  intro k0 hk0
  rcases hclass with h2d | hsp
  · rw [hdim, h2d] at hk0 ⊢
    exact twoAbove_dim2 _ _
  · exact twoAbove_span2 st.dim st.lmin lmax (by rw [hdim]; exact hd) h3.lmin_le
      (by rw [hlmin]; exact_mod_cast hsp) k0 hk0

/-- the loops of the versions 6, 7 and 8 all satisfy `LoopOK` -/
theorem loopOK_678 (cfg : PtCfg) (hv : cfg.version = 6 ∨ cfg.version = 7 ∨ cfg.version = 8) : LoopOK cfg := by
  rcases hv with h | h | h
  · exact loopOK_6 cfg h
  · exact loopOK_7 cfg h
  · exact loopOK_8 cfg h

/-- **versions 6, 7, 8; `dim = 2` or `lmax − lmin ≤ 2`**: every reachable state of every history without rebalancing keeps
the initial space (the form `∀ st, run = some st → …`) -/
theorem dimwise_keeps_initial_v678 (lmin lmax : Nat) (a b : List Rat) (hlen : a.length = b.length)
    (hd : 1 ≤ a.length) (hl : lmin < lmax) (h2 : 2 ≤ lmax) (hab : ∀ d, d < a.length → a.getD d 0 < b.getD d 0)
    (hclass : a.length = 2 ∨ lmax ≤ lmin + 2) (cfg : PtCfg) (hv : cfg.version = 6 ∨ cfg.version = 7 ∨ cfg.version = 8)
    (ins : List StepIn) (hnr : NoRebalancing ins) (st : DW) (hrun : (DW.init lmin lmax a b).run ins = some st) :
    Exact.keepsInitial (st.toExact cfg a b lmax) = true := by
  obtain ⟨st', h1, h2'⟩ := dimwise_keeps_initial_of_class lmin lmax a b hlen hd hl h2 hab hclass cfg
    (loopOK_678 cfg hv) ins hnr
  rw [hrun] at h1
  rw [Option.some.inj h1]; exact h2'

/-- **version 6 (the default), `dim = 2`**: every reachable state of every history without rebalancing keeps the initial
space -/
theorem dimwise_keeps_initial_v6_dim2 (lmin lmax : Nat) (a b : List Rat) (ha : a.length = 2) (hb : b.length = 2)
    (hl : lmin < lmax) (h2 : 2 ≤ lmax) (hab : ∀ d, d < 2 → a.getD d 0 < b.getD d 0)
    (cfg : PtCfg) (hv : cfg.version = 6) (ins : List StepIn) (hnr : NoRebalancing ins) (st : DW)
    (hrun : (DW.init lmin lmax a b).run ins = some st) :
    Exact.keepsInitial (st.toExact cfg a b lmax) = true := by
  obtain ⟨st', h1, h2'⟩ := dimwise_keeps_initial_of_class lmin lmax a b (by rw [ha, hb]) (by omega) hl h2
    (by rw [ha]; exact hab) (Or.inl ha) cfg (loopOK_6 cfg hv) ins hnr
  rw [hrun] at h1
  rw [Option.some.inj h1]; exact h2'

/-- **version 6, `lmax − lmin ≤ 2`** (any dimension) -/
theorem dimwise_keeps_initial_v6_span2 (lmin lmax : Nat) (a b : List Rat) (hlen : a.length = b.length)
    (hd : 1 ≤ a.length) (hl : lmin < lmax) (h2 : 2 ≤ lmax) (hspan : lmax ≤ lmin + 2)
    (hab : ∀ d, d < a.length → a.getD d 0 < b.getD d 0)
    (cfg : PtCfg) (hv : cfg.version = 6) (ins : List StepIn) (hnr : NoRebalancing ins) (st : DW)
    (hrun : (DW.init lmin lmax a b).run ins = some st) :
    Exact.keepsInitial (st.toExact cfg a b lmax) = true := by
  obtain ⟨st', h1, h2'⟩ := dimwise_keeps_initial_of_class lmin lmax a b hlen hd hl h2 hab (Or.inr hspan) cfg
    (loopOK_6 cfg hv) ins hnr
  rw [hrun] at h1
  rw [Option.some.inj h1]; exact h2'

/-- **version 3 with EXACT rounding** (`v3Exact`; the code rounds in floats, which is NOT covered — compare
`keeps_initial_false_v3_float`), `dim = 2` or `lmax − lmin ≤ 2` -/
theorem dimwise_keeps_initial_v3_exact (lmin lmax : Nat) (a b : List Rat) (hlen : a.length = b.length)
    (hd : 1 ≤ a.length) (hl : lmin < lmax) (h2 : 2 ≤ lmax) (hab : ∀ d, d < a.length → a.getD d 0 < b.getD d 0)
    (hclass : a.length = 2 ∨ lmax ≤ lmin + 2)
    (ins : List StepIn) (hnr : NoRebalancing ins) (st : DW) (hrun : (DW.init lmin lmax a b).run ins = some st) :
    Exact.keepsInitial (st.toExact { version := 3 } a b lmax) = true := by
  obtain ⟨st', h1, h2'⟩ := dimwise_keeps_initial_of_class lmin lmax a b hlen hd hl h2 hab hclass { version := 3 }
    (loopOK_3 _ rfl v3Exact_ok) ins hnr
  rw [hrun] at h1
  rw [Option.some.inj h1]; exact h2'

/-- a two-dimensional history (`lmin = 1`, `lmax = 2`, unit square): step 1 refines `[1/4, 1/2]` of dimension 0, step 2
`[3/8, 1/2]` of dimension 0 and `[3/4, 1]` of dimension 1 (the history of C04b) -/
def hist2d : List StepIn :=
  [⟨[[0, 1, 0, 0], [0, 0, 0, 0]], 1, false, noDec⟩,
   ⟨[[0, 0, 1, 0, 0], [0, 0, 0, 1]], 1, false, noDec⟩]

/-- non-vacuity: the two-dimensional history above and the three-dimensional counterexample history started from
`(lmin, lmax) = (2, 4)` instead of `(1, 4)` are covered -/
example : ∃ st, (DW.init 1 2 [0, 0] [1, 1]).run hist2d = some st ∧
    Exact.keepsInitial (st.toExact { version := 6 } [0, 0] [1, 1] 2) = true :=
  dimwise_keeps_initial_of_class 1 2 [0, 0] [1, 1] rfl (by decide) (by decide) (by decide)
    (by intro d hd; have : d = 0 ∨ d = 1 := by simp at hd; omega
        rcases this with rfl | rfl <;> simp)
    (Or.inl rfl) { version := 6 } (loopOK_6 _ rfl) hist2d
    (by intro i hi; simp [hist2d] at hi; rcases hi with rfl | rfl <;> rfl)

example : ∀ v ∈ [6, 7, 8], ∃ st, (DW.init 2 4 a3 b3).run hist7 = some st ∧
    Exact.keepsInitial (st.toExact { version := v } a3 b3 4) = true := fun v hv =>
  dimwise_keeps_initial_of_class 2 4 a3 b3 rfl (by decide) (by decide) (by decide)
    (by intro d hd; have : d = 0 ∨ d = 1 ∨ d = 2 := by simp [a3] at hd; omega
        rcases this with rfl | rfl | rfl <;> simp [a3, b3])
    (Or.inr (by decide)) { version := v } (loopOK_678 _ (by simpa using hv)) hist7
    (by intro i hi; simp [hist7] at hi; rcases hi with rfl | rfl | rfl | rfl | rfl | rfl <;> rfl)

example : ∃ st, (DW.init 2 4 a3 b3).run hist3 = some st ∧
    Exact.keepsInitial (st.toExact { version := 3 } a3 b3 4) = true :=
  dimwise_keeps_initial_of_class 2 4 a3 b3 rfl (by decide) (by decide) (by decide)
    (by intro d hd; have : d = 0 ∨ d = 1 ∨ d = 2 := by simp [a3] at hd; omega
        rcases this with rfl | rfl | rfl <;> simp [a3, b3])
    (Or.inr (by decide)) { version := 3 } (loopOK_3 _ rfl v3Exact_ok) hist3
    (by intro i hi; simp [hist3] at hi; rcases hi with rfl | rfl | rfl | rfl | rfl <;> rfl)

example : ∃ st, (DW.init 2 4 a3 b3).run hist68 = some st ∧
    Exact.keepsInitial (st.toExact { version := 6 } a3 b3 4) = true :=
  dimwise_keeps_initial_of_class 2 4 a3 b3 rfl (by decide) (by decide) (by decide)
    (by intro d hd; have : d = 0 ∨ d = 1 ∨ d = 2 := by simp [a3] at hd; omega
        rcases this with rfl | rfl | rfl <;> simp [a3, b3])
    (Or.inr (by decide)) { version := 6 } (loopOK_6 _ rfl) hist68
    (by intro i hi; simp [hist68] at hi; rcases hi with rfl | rfl <;> rfl)

end SparseSpace.C04c
