import SparseSpace.Lemmas.DimWiseCombi
import SparseSpace.Lemmas.DimWiseFuel
import SparseSpace.Properties.C06
/-!
# C03 — dimension-wise refinement always yields a valid nested combination

Theorems about `Model/DimWise` (mirror of `get_point_coord_for_each_dim`, `get_subtraction_value` for the versions
2, 3, 6, 7, 8, `modify_according_to_levelvec`, `get_max_level`, `raise_lmax`, `__call__`) on top of the state
invariant of C06 (`DWWF`, kept by every `refine()` call: `C06.step_wf`) and of the scheme invariant of C01
(`SchemeInv`; the scheme is only ever changed through `update_adaptive_combi`, which is part of `DWWF`).

`cfg : PtCfg` carries the version number and the float rounding of version 3 as a parameter: every theorem below
holds for EVERY `cfg` (any version, any rounding), every rebalancing setting and comparison outcome (they only
enter through the reachable state), boundary on or off (`f` is arbitrary, in particular `zeroBoundary a b f`).
-/
namespace SparseSpace.C03
open SparseSpace

/-- **threshold_mono**: an interval end kept at component level `l` (test
`levels[1] <= max(levelvec[d] - subtraction_value, 1)`) is kept at every level `l' ≥ l` — for the subtraction
value of each of the versions 2, 3, 6, 7, 8 (the `modify_according_to_levelvec` step included), all integers -/
theorem threshold_mono (version dim d : Nat) (v3r : Int → Nat → Nat → Int) (lmin lmaxd : Int) (mcs : List Int)
    (ml : Nat) (l l' : Int) (h : l ≤ l') (l1 : Nat)
    (hk : keepEnd l1 l (subValue version dim d v3r lmin lmaxd mcs ml l).1 = true) :
    keepEnd l1 l' (subValue version dim d v3r lmin lmaxd mcs ml l').1 = true :=
  subValue_mono version dim d v3r lmin lmaxd mcs ml l l' h l1 hk

example : keepEnd 2 2 (subValue 6 2 0 v3Exact 1 3 [1, 0] 2 2).1 = false ∧
    keepEnd 2 3 (subValue 6 2 0 v3Exact 1 3 [1, 0] 2 3).1 = true := by decide

/-- **subValue_fuel_enough**: the `while True` loops of versions 6, 7, 8 end by `break` within the model's fuel -/
theorem subValue_fuel_enough (version dim d : Nat) (v3r : Int → Nat → Nat → Int) (lmin lmaxd : Int) (mcs : List Int)
    (ml : Nat) (l : Int) (hv : version = 2 ∨ version = 3 ∨ version = 6 ∨ version = 7 ∨ version = 8)
    (hd : 1 ≤ dim) (hne : mcs ≠ []) (hnn : ∀ c ∈ mcs, 0 ≤ c) (hsv : (ml : Int) ≤ lmaxd) (hml : 2 ≤ ml) :
    (subValue version dim d v3r lmin lmaxd mcs ml l).2 = true :=
  SparseSpace.subValue_fuel_enough version dim d v3r lmin lmaxd mcs ml l hv hd hne hnn hsv hml

example : (subValue 8 3 1 v3Exact 1 7 [2, 5, 0] 2 4) = (3, true) := by decide

/-- **the fuel suffices in every reachable state**: in a well-formed state (`DWWF`: refinement tree with at least
four intervals, `coarsening = lmax_d - max(levels) ≥ 0`) the hypotheses of `subValue_fuel_enough` hold for every
interval, so every loop behind `dimPoints` ends by `break` (the flag the driver reports as `D 1`) -/
theorem subValue_loops_terminate (a b : List Rat) (lmax0 : Int) (st : DW) (h : DWWF a b lmax0 st) (cfg : PtCfg)
    (hv : cfg.version = 2 ∨ cfg.version = 3 ∨ cfg.version = 6 ∨ cfg.version = 7 ∨ cfg.version = 8)
    (d : Nat) (hd : d < st.dim) (l : Int) : st.dimPointsDone cfg d l = true :=
  dimPoints_done a b lmax0 st h cfg hv d hd l

/-- **dimPoints_nested**: the 1-D point set grows monotonically with the component level (any state) -/
theorem dimPoints_nested (st : DW) (cfg : PtCfg) (d : Nat) (l l' : Int) (h : l ≤ l') :
    (st.dimPoints cfg d l).Sublist (st.dimPoints cfg d l') :=
  SparseSpace.dimPoints_nested st cfg d l l' h

/-- **dimPoints_level_only**: the `d`-th 1-D point set of a component grid depends only on `(d, levelvec[d])` -/
theorem dimPoints_level_only (st : DW) (cfg : PtCfg) (lv lv' : LV) (d : Nat) (h : lv[d]? = lv'[d]?) :
    (st.grids cfg lv)[d]? = (st.grids cfg lv')[d]? :=
  SparseSpace.dimPoints_level_only st cfg lv lv' d h

theorem objsOf_til (a b : List Rat) (lmax0 : Int) (st : DW) (h : DWWF a b lmax0 st) (d : Nat) (hd : d < st.dim) :
    Til (a.getD d 0) 0 (b.getD d 0) 0 (st.objsOf d) := by
  have hdc : d < st.m.conts.length := by rw [h.lconts]; exact hd
  have hc := List.getElem?_eq_getElem hdc
  have := (h.geo d _ hc).til
  unfold DW.objsOf
  simpa [List.getD, hc] using this

/-- **dimPoints_endpoints / dimPoints_sorted**: in a well-formed state every 1-D point list is strictly
ascending, starts with the lower and ends with the upper end of the domain (both of level 0) -/
theorem dimPoints_sorted_endpoints (a b : List Rat) (lmax0 : Int) (st : DW) (h : DWWF a b lmax0 st) (cfg : PtCfg)
    (d : Nat) (hd : d < st.dim) (l : Int) :
    (st.dimCoords cfg d l).Pairwise (· < ·) ∧
    (st.dimPoints cfg d l).head? = some (a.getD d 0, 0) ∧ (st.dimPoints cfg d l).getLast? = some (b.getD d 0, 0) :=
  ⟨dimCoords_sorted st cfg d l (objsOf_til a b lmax0 st h d hd),
   dimPoints_endpoints st cfg d l (objsOf_til a b lmax0 st h d hd)⟩

theorem sorted_all (a b : List Rat) (lmax0 : Int) (st : DW) (h : DWWF a b lmax0 st) (cfg : PtCfg) (d : Nat) (l : Int) :
    (st.dimCoords cfg d l).Pairwise (· < ·) := by
  by_cases hd : d < st.dim
  · exact (dimPoints_sorted_endpoints a b lmax0 st h cfg d hd l).1
  · have : st.objsOf d = [] := by
      unfold DW.objsOf
      have : st.m.conts[d]? = none := List.getElem?_eq_none (by rw [h.lconts]; omega)
      simp [List.getD, this]
    unfold DW.dimCoords DW.dimPoints
    simp [this]

/-- **dimwise_point_coeff_sum**: in a well-formed state, for every point `x` of the combined grid (a point of
the tensor grid of some member `l0` of the index set), the coefficients of the component grids containing `x`
sum to exactly 1.  `H_id` comes from C01 (`coeff_identity` under `SchemeInv`, which holds because the scheme is
`runOps (CS.init …) ops`), `x ∈ grid_l ⇔ k(x) ≤ l` from `dimPoints_nested`, `k(x) ∈ I` from downward closure. -/
theorem dimwise_point_coeff_sum (a b : List Rat) (lmax0 : Int) (st : DW) (h : DWWF a b lmax0 st) (cfg : PtCfg)
    (x : List Rat) (l0 : LV) (hl0 : l0 ∈ I st.cs) (hx : inGrid (st.grids cfg l0) x = true) :
    st.pointCoeffSum cfg x = 1 :=
  point_coeff_sum st cfg h.scheme.1 x l0 hl0 hx

/-- **dimwise_nodal_exact**: in a well-formed state the combined interpolant `Σ_l c_l · (I_l f)(x)` (multilinear
interpolation on every component grid) reproduces an ARBITRARY table `f` at every point of the combined grid -/
theorem dimwise_nodal_exact (a b : List Rat) (lmax0 : Int) (st : DW) (h : DWWF a b lmax0 st) (cfg : PtCfg)
    (f : List Rat → Rat) (x : List Rat) (l0 : LV) (hl0 : l0 ∈ I st.cs) (hx : inGrid (st.grids cfg l0) x = true) :
    st.combiInterp cfg f x = f x :=
  nodal_exact st cfg h.scheme.1 (sorted_all a b lmax0 st h cfg) f x l0 hl0 hx

/-- boundary points off: with zero values on the boundary of the box the table is reproduced at every combined
grid point that is not on the boundary -/
theorem dimwise_nodal_exact_no_boundary (a b : List Rat) (lmax0 : Int) (st : DW) (h : DWWF a b lmax0 st) (cfg : PtCfg)
    (f : List Rat → Rat) (x : List Rat) (l0 : LV) (hl0 : l0 ∈ I st.cs) (hx : inGrid (st.grids cfg l0) x = true)
    (hin : ((List.zipWith (fun x y => decide (x = y)) x a).any id ||
            (List.zipWith (fun x y => decide (x = y)) x b).any id) = false) :
    st.combiInterp cfg (zeroBoundary a b f) x = f x := by
  rw [dimwise_nodal_exact a b lmax0 st h cfg (zeroBoundary a b f) x l0 hl0 hx]
  unfold zeroBoundary
  rw [hin]; rfl

/-- **all configurations, all histories**: after ANY sequence of `refine()` calls from the initial state of any
configuration, for every version: sorted 1-D point sets with the domain end points, nested in the level, and the
two combination identities on the whole combined grid -/
theorem all_histories (lmin lmax : Nat) (a b : List Rat) (hlen : a.length = b.length) (hd : 1 ≤ a.length)
    (hl : lmin ≤ lmax) (h2' : 2 ≤ lmax) (hab : ∀ d, d < a.length → a.getD d 0 < b.getD d 0) (ins : List StepIn)
    (cfg : PtCfg) :
    ∃ st, (DW.init lmin lmax a b).run ins = some st ∧ st.dim = a.length ∧
      (∀ d, d < a.length → ∀ l : Int,
        (st.dimCoords cfg d l).Pairwise (· < ·) ∧
        (st.dimPoints cfg d l).head? = some (a.getD d 0, 0) ∧
        (st.dimPoints cfg d l).getLast? = some (b.getD d 0, 0) ∧
        ∀ l' : Int, l ≤ l' → (st.dimPoints cfg d l).Sublist (st.dimPoints cfg d l')) ∧
      (∀ (x : List Rat) (l0 : LV), l0 ∈ I st.cs → inGrid (st.grids cfg l0) x = true →
        st.pointCoeffSum cfg x = 1 ∧ ∀ f : List Rat → Rat, st.combiInterp cfg f x = f x) := by
  obtain ⟨st, h1, h2, h3⟩ := C06.reachable_wf a b lmax ins _ (C06.init_wf lmin lmax a b hlen hd hl h2' hab)
  have hdim : st.dim = a.length := by rw [h3]; rfl
  refine ⟨st, h1, hdim, ?_, ?_⟩
  · intro d hd' l
    have := dimPoints_sorted_endpoints a b lmax st h2 cfg d (by rw [hdim]; exact hd') l
    exact ⟨this.1, this.2.1, this.2.2, fun l' hl' => dimPoints_nested st cfg d l l' hl'⟩
  · intro x l0 hl0 hx
    exact ⟨dimwise_point_coeff_sum a b lmax st h2 cfg x l0 hl0 hx,
      fun f => dimwise_nodal_exact a b lmax st h2 cfg f x l0 hl0 hx⟩

/-- non-vacuity: a concrete reachable state (one `refine()` with rebalancing), a component grid of its index set,
its 1-D levels, a point of it, the coefficient sum and the combined interpolant of a table at that point
(evaluated by the kernel) -/
example : ∃ st, (DW.init 1 2 [0, 0] [1, 1]).run [⟨[[1, 0, 0, 0], [0, 0, 0, 1]], 1/2, true, ratDec (1/10)⟩] = some st ∧
    ([1, 3] : LV) ∈ I st.cs ∧ (st.dimPoints { version := 6 } 1 3).map (·.2) = [0, 2, 1, 2, 3, 0] ∧
    inGrid (st.grids { version := 6 } [1, 3]) [1/2, 7/8] = true ∧
    st.pointCoeffSum { version := 6 } [1/2, 7/8] = 1 ∧
    st.combiInterp { version := 6 } (fun p => p.foldl (fun acc y => acc * 3 + y * y) 1) [1/2, 7/8]
      = (1 * 3 + 1/2 * (1/2)) * 3 + 7/8 * (7/8) := by
  decide +kernel

end SparseSpace.C03
